import NflowsModel.Lemmas.DualXNonlin
import NflowsModel.Lemmas.RQWhole
/-!
# Lemmas/DualXSpline — the EXECUTED rational-quadratic spline run on dual numbers (C16)

* `XHom o₁ o₂ φ`: `φ` commutes with every primitive of `XOps`; the list programs of `Core/Basic.lean` and the knot
  pipeline of `Core/Spline.lean` commute with any `XHom` (`XHom.softmaxG … XHom.rqKnots`, `XHom.searchsortedG`).
* two instances over the reals: `lift_hom` (`a ↦ (a, 0)`: parameters with zero tangent stay zero-tangent through the
  whole pipeline) and `fst_hom` (value component: comparisons / the bin search of the dual program see only values).
* `rqSpline_dual`: `rqSpline (dualX (NF.realX e)) c uw' uh' ud' false (x, 1)` with zero-tangent parameters returns
  `((val x, exp (ld x)), (ld x, l'))` for `x` strictly inside a bin, where `val`, `ld` are the outputs of the real
  program (`RQWhole.val`, `RQWhole.ld`), `exp (ld x)` IS the derivative of `val` at `x` and `l'` the derivative of `ld`.
-/
open NF DualSound Filter Topology

namespace DualX

/-- `φ` commutes with the primitives of `XOps` (those used by the list programs) -/
structure XHom {α β : Type} (o₁ : XOps α) (o₂ : XOps β) (φ : α → β) : Prop where
  ofRat : ∀ n d, φ (o₁.ofRat n d) = o₂.ofRat n d
  ofFloat : ∀ x, φ (o₁.ofFloat x) = o₂.ofFloat x
  add : ∀ a b, φ (o₁.add a b) = o₂.add (φ a) (φ b)
  sub : ∀ a b, φ (o₁.sub a b) = o₂.sub (φ a) (φ b)
  mul : ∀ a b, φ (o₁.mul a b) = o₂.mul (φ a) (φ b)
  div : ∀ a b, φ (o₁.div a b) = o₂.div (φ a) (φ b)
  neg : ∀ a, φ (o₁.neg a) = o₂.neg (φ a)
  exp : ∀ a, φ (o₁.exp a) = o₂.exp (φ a)
  log : ∀ a, φ (o₁.log a) = o₂.log (φ a)
  sqrt : ∀ a, φ (o₁.sqrt a) = o₂.sqrt (φ a)
  lt : ∀ a b, o₁.lt a b = o₂.lt (φ a) (φ b)
  le : ∀ a b, o₁.le a b = o₂.le (φ a) (φ b)
  nextUp : ∀ a, φ (o₁.nextUp a) = o₂.nextUp (φ a)
  tanh : ∀ a, φ (o₁.tanh a) = o₂.tanh (φ a)
  atan : ∀ a, φ (o₁.atan a) = o₂.atan (φ a)
  tan : ∀ a, φ (o₁.tan a) = o₂.tan (φ a)
  cos : ∀ a, φ (o₁.cos a) = o₂.cos (φ a)
  sin : ∀ a, φ (o₁.sin a) = o₂.sin (φ a)
  abs : ∀ a, φ (o₁.abs a) = o₂.abs (φ a)
  floor : ∀ a, φ (o₁.floor a) = o₂.floor (φ a)

namespace XHom
variable {α β : Type} {o₁ : XOps α} {o₂ : XOps β} {φ : α → β} (h : XHom o₁ o₂ φ)
include h

theorem zero : φ o₁.zero = o₂.zero := h.ofRat 0 1
theorem one : φ o₁.one = o₂.one := h.ofRat 1 1

theorem ite_lt (a b u v : α) :
    φ (if o₁.lt a b then u else v) = if o₂.lt (φ a) (φ b) then φ u else φ v := by
  rw [h.lt a b]; split_ifs <;> rfl

theorem minA (a b : α) : φ (o₁.minA a b) = o₂.minA (φ a) (φ b) := h.ite_lt b a b a
theorem maxA (a b : α) : φ (o₁.maxA a b) = o₂.maxA (φ a) (φ b) := h.ite_lt a b b a

theorem log1p (x : α) : φ (o₁.log1p x) = o₂.log1p (φ x) := by
  unfold XOps.log1p
  simp only [← h.add, ← h.one, ← h.le]
  split_ifs
  · rfl
  · simp only [h.div, h.mul, h.log, h.sub, h.add, h.one]

theorem softplusB (b x : α) : φ (o₁.softplusB b x) = o₂.softplusB (φ b) (φ x) := by
  unfold XOps.softplusB
  simp only [← h.mul, ← h.ofRat 20 1, ← h.lt]
  split_ifs
  · rfl
  · simp only [h.div, h.log1p, h.exp, h.mul]

theorem foldl_add (xs : List α) (acc : α) :
    φ (xs.foldl o₁.add acc) = (xs.map φ).foldl o₂.add (φ acc) := by
  induction xs generalizing acc with
  | nil => rfl
  | cons a t ih => simp only [List.foldl_cons, List.map_cons]; rw [ih, h.add]

theorem sumG (xs : List α) : φ (NF.sumG o₁ xs) = NF.sumG o₂ (xs.map φ) := by
  unfold NF.sumG; rw [h.foldl_add, h.zero]

theorem foldl_max (xs : List α) (acc : α) :
    φ (xs.foldl (fun m y => if o₁.lt m y then y else m) acc)
      = (xs.map φ).foldl (fun m y => if o₂.lt m y then y else m) (φ acc) := by
  induction xs generalizing acc with
  | nil => rfl
  | cons a t ih => simp only [List.foldl_cons, List.map_cons]; rw [ih, h.ite_lt]

theorem maxG (xs : List α) : φ (NF.maxG o₁ xs) = NF.maxG o₂ (xs.map φ) := by
  cases xs with
  | nil => exact h.zero
  | cons a t => simp only [NF.maxG, List.map_cons]; exact h.foldl_max t a

theorem softmaxG (xs : List α) : (NF.softmaxG o₁ xs).map φ = NF.softmaxG o₂ (xs.map φ) := by
  have hes : (xs.map (fun x => o₁.exp (o₁.sub x (NF.maxG o₁ xs)))).map φ
      = (xs.map φ).map (fun x => o₂.exp (o₂.sub x (NF.maxG o₂ (xs.map φ)))) := by
    rw [List.map_map, List.map_map]
    apply List.map_congr_left
    intro x _
    simp only [Function.comp, h.exp, h.sub, h.maxG]
  simp only [NF.softmaxG]
  rw [← hes, ← h.sumG]
  simp only [List.map_map]
  apply List.map_congr_left
  intro x _
  simp only [Function.comp, h.div]

theorem cumsum_foldl (xs : List α) (st : α × List α) :
    (φ (xs.foldl (fun (st : α × List α) x => (o₁.add st.1 x, o₁.add st.1 x :: st.2)) st).1,
      (xs.foldl (fun (st : α × List α) x => (o₁.add st.1 x, o₁.add st.1 x :: st.2)) st).2.map φ)
      = (xs.map φ).foldl (fun (st : β × List β) x => (o₂.add st.1 x, o₂.add st.1 x :: st.2)) (φ st.1, st.2.map φ) := by
  induction xs generalizing st with
  | nil => rfl
  | cons a t ih =>
    simp only [List.foldl_cons, List.map_cons]
    rw [ih]
    simp only [h.add, List.map_cons]

theorem cumsumG (xs : List α) : (NF.cumsumG o₁ xs).map φ = NF.cumsumG o₂ (xs.map φ) := by
  have := h.cumsum_foldl xs (o₁.zero, [])
  simp only [List.map_nil, h.zero] at this
  show ((xs.foldl (fun (st : α × List α) x => (o₁.add st.1 x, o₁.add st.1 x :: st.2)) (o₁.zero, [])).2.reverse).map φ
    = ((xs.map φ).foldl (fun (st : β × List β) x => (o₂.add st.1 x, o₂.add st.1 x :: st.2)) (o₂.zero, [])).2.reverse
  rw [← this, List.map_reverse]

omit h in
theorem setLast (xs : List α) (v : α) : (NF.setLast xs v).map φ = NF.setLast (xs.map φ) (φ v) := by
  unfold NF.setLast
  rw [← List.map_reverse]
  cases xs.reverse with
  | nil => rfl
  | cons a t => simp only [List.map_cons, List.map_reverse]

omit h in
theorem setFirst (xs : List α) (v : α) : (NF.setFirst xs v).map φ = NF.setFirst (xs.map φ) (φ v) := by
  cases xs <;> rfl

theorem diffsG : ∀ xs : List α, (NF.diffsG o₁ xs).map φ = NF.diffsG o₂ (xs.map φ)
  | [] => rfl
  | [_] => rfl
  | a :: b :: r => by
    simp only [NF.diffsG, List.map_cons, h.sub]
    have := diffsG (b :: r)
    simp only [List.map_cons] at this
    rw [this]

theorem flooredSoftmax (m : Float) (u : List α) :
    (NF.flooredSoftmax o₁ m u).map φ = NF.flooredSoftmax o₂ m (u.map φ) := by
  unfold NF.flooredSoftmax
  simp only [List.length_map]
  rw [← h.softmaxG, List.map_map, List.map_map]
  apply List.map_congr_left
  intro x _
  simp only [Function.comp, h.add, h.mul, h.ofFloat]

theorem rqKnots (lo hi : Float) (w : List α) :
    ((NF.rqKnots o₁ lo hi w).1.map φ, (NF.rqKnots o₁ lo hi w).2.map φ) = NF.rqKnots o₂ lo hi (w.map φ) := by
  have hc : ((o₁.zero :: NF.cumsumG o₁ w).map (fun c => o₁.add (o₁.mul (o₁.ofFloat (hi - lo)) c) (o₁.ofFloat lo))).map φ
      = (o₂.zero :: NF.cumsumG o₂ (w.map φ)).map (fun c => o₂.add (o₂.mul (o₂.ofFloat (hi - lo)) c) (o₂.ofFloat lo)) := by
    rw [← h.cumsumG, ← h.zero, ← List.map_cons, List.map_map, List.map_map]
    apply List.map_congr_left
    intro x _
    simp only [Function.comp, h.add, h.mul, h.ofFloat]
  simp only [NF.rqKnots]
  rw [h.diffsG, XHom.setLast, XHom.setFirst, hc, h.ofFloat, h.ofFloat]

theorem searchsortedG (eps : Float) (locs : List α) (x : α) :
    NF.searchsortedG o₁ eps locs x = NF.searchsortedG o₂ eps (locs.map φ) (φ x) := by
  unfold NF.searchsortedG
  rw [← List.map_reverse]
  have hl : ∀ l : List α, (l.filter (fun l => o₁.ge x l)).length = ((l.map φ).filter (fun l => o₂.ge (φ x) l)).length := by
    intro l
    rw [List.filter_map, List.length_map]
    congr 2
    funext l
    simp only [Function.comp, XOps.ge, h.le]
  cases locs.reverse with
  | nil => simp only [List.map_nil]; rw [hl]; rfl
  | cons a t =>
    simp only [List.map_cons]
    rw [hl]
    simp only [List.map_reverse, List.map_cons, h.maxA, h.add, h.ofFloat, h.nextUp]

omit h in
theorem getI_ok (xs : List α) (i : Int) (v : α) (hv : NF.getI xs i = .ok v) : NF.getI (xs.map φ) i = .ok (φ v) := by
  unfold NF.getI at *
  split_ifs at hv ⊢ with hi
  rw [List.getElem?_map]
  cases hx : xs[i.toNat]? with
  | none => rw [hx] at hv; simp at hv
  | some y => rw [hx] at hv; simp only [Option.map_some]; injection hv with hv; rw [hv]

/-! ### the element-wise transforms of `Core/Nonlin.lean` commute with any homomorphism -/

theorem softplus (x : α) : φ (o₁.softplus x) = o₂.softplus (φ x) := by
  unfold XOps.softplus; rw [h.softplusB, h.one]

theorem sigmoid (x : α) : φ (o₁.sigmoid x) = o₂.sigmoid (φ x) := by
  unfold XOps.sigmoid; simp only [h.div, h.add, h.exp, h.neg, h.one]

theorem clamp (lo hi x : α) : φ (o₁.clamp lo hi x) = o₂.clamp (φ lo) (φ hi) (φ x) := by
  unfold XOps.clamp; rw [h.minA, h.maxA]

/-- map both outputs of a run -/
def mapRes (φ : α → β) (r : Except Err (α × α)) : Except Err (β × β) :=
  match r with | .ok p => .ok (φ p.1, φ p.2) | .error err => .error err

omit h in
theorem mapRes_ok (p : α × α) : mapRes φ (.ok p) = .ok (φ p.1, φ p.2) := rfl
omit h in
theorem mapRes_error (err : Err) : mapRes φ (.error err : Except Err (α × α)) = .error err := rfl

theorem expT (inv : Bool) (x : α) : mapRes φ (NF.expT o₁ inv x) = NF.expT o₂ inv (φ x) := by
  unfold NF.expT
  cases inv
  · simp only [Bool.false_eq_true, if_false, mapRes_ok, h.exp]
  · simp only [if_true, ← h.zero, ← h.le, apply_ite (mapRes φ), mapRes_ok, mapRes_error, h.log, h.neg]

theorem tanhT (inv : Bool) (x : α) : mapRes φ (NF.tanhT o₁ inv x) = NF.tanhT o₂ inv (φ x) := by
  unfold NF.tanhT
  cases inv
  · simp only [Bool.false_eq_true, if_false, mapRes_ok, h.tanh, h.mul, h.sub, h.softplus, h.ofFloat]
  · have hg : (o₂.le (φ x) (o₂.neg o₂.one) || o₂.ge (φ x) o₂.one) = (o₁.le x (o₁.neg o₁.one) || o₁.ge x o₁.one) := by
      simp only [XOps.ge, ← h.one, ← h.neg, ← h.le]
    simp only [if_true, hg, apply_ite (mapRes φ), mapRes_ok, mapRes_error, h.mul, h.log, h.div, h.add, h.sub, h.neg,
      h.ofFloat, h.one]

theorem affineT (sc sh : α) (inv : Bool) (x : α) :
    mapRes φ (NF.affineT o₁ sc sh inv x) = NF.affineT o₂ (φ sc) (φ sh) inv (φ x) := by
  unfold NF.affineT
  cases inv <;> simp only [Bool.false_eq_true, if_false, if_true, mapRes_ok, h.add, h.mul, h.div, h.sub, h.neg, h.log, h.abs]

theorem scaleShiftT (sc sh : α) (inv : Bool) (x : α) :
    mapRes φ (NF.scaleShiftT o₁ sc sh inv x) = NF.scaleShiftT o₂ (φ sc) (φ sh) inv (φ x) := by
  unfold NF.scaleShiftT
  cases inv <;> simp only [Bool.false_eq_true, if_false, if_true, mapRes_ok, h.add, h.mul, h.div, h.sub, h.neg, h.log]

theorem gluT (ctx : α) (inv : Bool) (x : α) :
    mapRes φ (NF.gluT o₁ ctx inv x) = NF.gluT o₂ (φ ctx) inv (φ x) := by
  unfold NF.gluT
  cases inv <;> simp only [Bool.false_eq_true, if_false, if_true, mapRes_ok, h.mul, h.div, h.neg, h.log, h.sigmoid]

theorem leakyReluT (slope : Float) (ls : α) (inv : Bool) (x : α) :
    mapRes φ (NF.leakyReluT o₁ slope ls inv x) = NF.leakyReluT o₂ slope (φ ls) inv (φ x) := by
  unfold NF.leakyReluT
  cases inv <;>
    simp only [Bool.false_eq_true, if_false, if_true, mapRes_ok, h.ite_lt, h.mul, h.neg, h.ofFloat, h.zero, h.one]

theorem cauchyT (inv : Bool) (x : α) : mapRes φ (NF.cauchyT o₁ inv x) = NF.cauchyT o₂ inv (φ x) := by
  unfold NF.cauchyT
  cases inv
  · simp only [Bool.false_eq_true, if_false, mapRes_ok, h.add, h.mul, h.atan, h.sub, h.log, h.ofFloat, h.one]
  · have hg : (o₂.lt (φ x) o₂.zero || o₂.gt (φ x) o₂.one) = (o₁.lt x o₁.zero || o₁.gt x o₁.one) := by
      simp only [XOps.gt, ← h.one, ← h.zero, ← h.lt]
    simp only [if_true, hg, apply_ite (mapRes φ), mapRes_ok, mapRes_error, h.tan, h.mul, h.sub, h.neg, h.log, h.add,
      h.ofFloat, h.one]

theorem sigmoidT (T : α) (eps : Float) (inv : Bool) (x : α) :
    mapRes φ (NF.sigmoidT o₁ T eps inv x) = NF.sigmoidT o₂ (φ T) eps inv (φ x) := by
  unfold NF.sigmoidT
  cases inv
  · simp only [Bool.false_eq_true, if_false, mapRes_ok, h.sigmoid, h.mul, h.sub, h.log, h.softplus, h.neg]
  · have hg : (o₂.lt (φ x) o₂.zero || o₂.gt (φ x) o₂.one) = (o₁.lt x o₁.zero || o₁.gt x o₁.one) := by
      simp only [XOps.gt, ← h.one, ← h.zero, ← h.lt]
    simp only [if_true, hg, apply_ite (mapRes φ), mapRes_ok, mapRes_error, h.mul, h.div, h.sub, h.log, h.log1p, h.neg,
      h.clamp, h.softplus, h.ofFloat, h.one]

theorem logTanhT (cut invCut alpha beta : Float) (inv : Bool) (x : α) :
    mapRes φ (NF.logTanhT o₁ cut invCut alpha beta inv x) = NF.logTanhT o₂ cut invCut alpha beta inv (φ x) := by
  unfold NF.logTanhT
  cases inv
  · have hg1 : o₂.gt (φ x) (o₂.ofFloat cut) = o₁.gt x (o₁.ofFloat cut) := by
      simp only [XOps.gt, ← h.ofFloat, ← h.lt]
    have hg2 : o₂.lt (φ x) (o₂.neg (o₂.ofFloat cut)) = o₁.lt x (o₁.neg (o₁.ofFloat cut)) := by
      simp only [← h.ofFloat, ← h.neg, ← h.lt]
    simp only [Bool.false_eq_true, if_false, hg1, hg2, apply_ite (mapRes φ), mapRes_ok, h.mul, h.log, h.div, h.neg,
      h.tanh, h.sub, h.ofFloat, h.one]
  · have hg1 : o₂.gt (φ x) (o₂.ofFloat invCut) = o₁.gt x (o₁.ofFloat invCut) := by
      simp only [XOps.gt, ← h.ofFloat, ← h.lt]
    have hg2 : o₂.lt (φ x) (o₂.neg (o₂.ofFloat invCut)) = o₁.lt x (o₁.neg (o₁.ofFloat invCut)) := by
      simp only [← h.ofFloat, ← h.neg, ← h.lt]
    simp only [if_true, hg1, hg2, apply_ite (mapRes φ), mapRes_ok, h.mul, h.log, h.div, h.neg, h.exp, h.add, h.sub,
      h.ofFloat, h.one]

theorem nonlinEl (kind : String) (ds : Array Float) (ps : List α) (inv : Bool) (x : α) :
    mapRes φ (NF.nonlinEl o₁ kind ds ps inv x) = NF.nonlinEl o₂ kind ds (ps.map φ) inv (φ x) := by
  have hp : ∀ k, (ps.map φ).getD k o₂.zero = φ (ps.getD k o₁.zero) := by
    intro k; rw [← h.zero]; simp only [List.getD_eq_getElem?_getD, List.getElem?_map]
    cases ps[k]? <;> rfl
  unfold NF.nonlinEl
  simp only [hp]
  split
  all_goals first
    | exact h.expT _ _ | exact h.tanhT _ _ | exact h.logTanhT _ _ _ _ _ _ | exact h.leakyReluT _ _ _ _
    | exact h.sigmoidT _ _ _ _ | exact h.cauchyT _ _ | exact h.affineT _ _ _ _
    | (simp only [mapRes_ok, h.zero]) | rfl

end XHom

noncomputable section
variable (e : Float → ℝ)

/-- the zero-tangent embedding of a real parameter -/
def ι (a : ℝ) : ℝ × ℝ := (a, 0)

/-- zero tangents stay zero through every primitive: `a ↦ (a, 0)` is a homomorphism `realX e → dualX (NF.realX e)` -/
theorem lift_hom : XHom (NF.realX e) (dualX (NF.realX e)) ι where
  ofRat n d := (d_ofRat e n d).symm
  ofFloat x := (d_ofFloat e x).symm
  add a b := by simp [ι]
  sub a b := by simp [ι]
  mul a b := by simp [ι]
  div a b := by simp [ι]
  neg a := by simp [ι]
  exp a := by simp [ι]
  log a := by simp [ι]
  sqrt a := by rw [d_sqrt]; simp [ι]
  lt _ _ := rfl
  le _ _ := rfl
  nextUp _ := rfl
  tanh a := by rw [d_tanh]; simp [ι]
  atan a := by rw [d_atan]; simp [ι]
  tan a := by rw [d_tan]; simp [ι]
  cos a := by simp [ι]
  sin a := by simp [ι]
  abs a := by simp [ι]
  floor a := by rw [d_floor]; simp [ι]

/-- the value component is a homomorphism `dualX (NF.realX e) → realX e` (comparisons and searches see only values) -/
theorem fst_hom : XHom (dualX (NF.realX e)) (NF.realX e) Prod.fst where
  ofRat _ _ := rfl
  ofFloat _ := rfl
  add _ _ := rfl
  sub _ _ := rfl
  mul _ _ := rfl
  div _ _ := rfl
  neg _ := rfl
  exp _ := rfl
  log _ := rfl
  sqrt _ := rfl
  lt _ _ := rfl
  le _ _ := rfl
  nextUp _ := rfl
  tanh _ := rfl
  atan _ := rfl
  tan _ := rfl
  cos _ := rfl
  sin _ := rfl
  abs _ := rfl
  floor _ := rfl

theorem fst_ι : Prod.fst ∘ ι = id := rfl

/-- seed direction of the per-bin environment: the input `x` (variable 0) -/
def dir0 (i : ℕ) : ℝ := if i = 0 then 1 else 0

/-- the per-bin evaluation of the dual program IS `DualSound.evalD` on the real environment seeded in `x` -/
theorem evalX_dual_env (x xk w yk h d0 d1 : ℝ) (E : Expr) :
    evalX (dualX (NF.realX e)) [(x, 1), ι xk, ι w, ι yk, ι h, ι d0, ι d1] E
      = evalD (fun i => (Bridge.rqEnv x xk w yk h d0 d1 i, dir0 i)) E := by
  unfold evalX
  show evalG (dualOps realOps) _ E = evalG (dualOps realOps) _ E
  congr 1
  funext i
  rcases i with _|_|_|_|_|_|_|i <;> simp [envOf, Bridge.rqEnv, dir0, ι, d_zero]

theorem line_rqEnv (x xk w yk h d0 d1 t : ℝ) :
    line (Bridge.rqEnv x xk w yk h d0 d1) dir0 t = Bridge.rqEnv (x + t) xk w yk h d0 d1 := by
  funext i
  rcases i with _|_|_|_|_|_|_|i <;> simp [line, envOf, Bridge.rqEnv, dir0]

/-- interior smoothness of the executed RQ forward value term (same statement as `Properties.C16.rq_interior_smooth`, repeated
    here so that `Properties/C16.lean` can import this file) -/
theorem rqFwd_interior_smooth {x xk w yk h d0 d1 : ℝ} (hw : 0 < w) (hh : 0 < h) (h0 : 0 < d0) (h1 : 0 < d1)
    (hx0 : xk ≤ x) (hx1 : x ≤ xk + w) :
    Smooth (Bridge.rqEnv x xk w yk h d0 d1) rqFwdE := by
  have hs : 0 < h / w := div_pos hh hw
  have ht0 : 0 ≤ (x - xk) / w := div_nonneg (by linarith) hw.le
  have ht1 : (x - xk) / w ≤ 1 := by rw [div_le_one hw]; linarith
  have hden := (RQ.den_pos hs h0 h1 ht0 ht1).ne'
  simp only [rqFwdE, NF.v, Expr.add_def, Expr.sub_def, Expr.mul_def, Expr.div_def, Expr.ofNat_def, Smooth, evalR_div,
    evalR_var, evalR_add, evalR_sub, evalR_mul, evalR_lit, Bridge.rqEnv0, Bridge.rqEnv1, Bridge.rqEnv2,
    Bridge.rqEnv4, Bridge.rqEnv5, Bridge.rqEnv6, true_and, and_true]
  have hden' : h / w + (d0 + d1 - 2 * (h / w)) * ((x - xk) / w * (1 - (x - xk) / w)) ≠ 0 := by
    simpa [RQ.den] using hden
  simp only [ne_eq, hw.ne', not_false_eq_true, and_self, true_and]
  norm_num
  exact hden'

/-- per-bin soundness for the value term: the dual evaluation returns (value, d/dx value) -/
theorem rqFwdE_dual {x xk w yk h d0 d1 : ℝ} (hw : 0 < w) (hh : 0 < h) (h0 : 0 < d0) (h1 : 0 < d1)
    (hx0 : xk ≤ x) (hx1 : x ≤ xk + w) :
    IsDual (fun z => evalR (Bridge.rqEnv z xk w yk h d0 d1) rqFwdE) x
      (evalX (dualX (NF.realX e)) [(x, 1), ι xk, ι w, ι yk, ι h, ι d0, ι d1] rqFwdE) := by
  rw [evalX_dual_env]
  obtain ⟨hv, hd⟩ := evalDual_sound (Bridge.rqEnv x xk w yk h d0 d1) dir0 rqFwdE
    (rqFwd_interior_smooth hw hh h0 h1 hx0 hx1)
  refine ⟨hv, ?_⟩
  simp only [line_rqEnv] at hd
  have := HasDerivAt.comp_sub_const x x (f := fun t => evalR (Bridge.rqEnv (x + t) xk w yk h d0 d1) rqFwdE) (by simpa using hd)
  refine this.congr_of_eventuallyEq (Eventually.of_forall fun z => ?_)
  show _ = evalR (Bridge.rqEnv (x + (z - x)) xk w yk h d0 d1) rqFwdE
  rw [add_sub_cancel]

theorem rqLd_interior_smooth {x xk w yk h d0 d1 : ℝ} (hw : 0 < w) (hh : 0 < h) (h0 : 0 < d0) (h1 : 0 < d1)
    (hx0 : xk ≤ x) (hx1 : x ≤ xk + w) :
    Smooth (Bridge.rqEnv x xk w yk h d0 d1) rqFwdLdE := by
  have hs : 0 < h / w := div_pos hh hw
  have ht0 : 0 ≤ (x - xk) / w := div_nonneg (by linarith) hw.le
  have ht1 : (x - xk) / w ≤ 1 := by rw [div_le_one hw]; linarith
  have hden := (RQ.den_pos hs h0 h1 ht0 ht1).ne'
  have hdnum := (RQ.dnum_pos hs h0 h1 ht0 ht1).ne'
  simp only [rqFwdLdE, NF.v, Expr.add_def, Expr.sub_def, Expr.mul_def, Expr.div_def, Expr.ofNat_def, Smooth, evalR_div,
    evalR_var, evalR_add, evalR_sub, evalR_mul, evalR_lit, Bridge.rqEnv0, Bridge.rqEnv1, Bridge.rqEnv2,
    Bridge.rqEnv4, Bridge.rqEnv5, Bridge.rqEnv6, true_and, and_true]
  have hden' : h / w + (d0 + d1 - 2 * (h / w)) * ((x - xk) / w * (1 - (x - xk) / w)) ≠ 0 := by
    simpa [RQ.den] using hden
  have hdnum' : h / w * (h / w) * (d1 * ((x - xk) / w * ((x - xk) / w)) + 2 * (h / w) * ((x - xk) / w * (1 - (x - xk) / w))
      + d0 * ((1 - (x - xk) / w) * (1 - (x - xk) / w))) ≠ 0 := by
    have : RQ.dnum (h / w) d0 d1 ((x - xk) / w) = h / w * (h / w) * (d1 * ((x - xk) / w * ((x - xk) / w))
      + 2 * (h / w) * ((x - xk) / w * (1 - (x - xk) / w)) + d0 * ((1 - (x - xk) / w) * (1 - (x - xk) / w))) := by
      unfold RQ.dnum; ring
    rw [← this]; exact hdnum
  simp only [ne_eq, hw.ne', not_false_eq_true, and_self, true_and]
  norm_num
  exact ⟨⟨⟨hh.ne', hw.ne'⟩, (mul_ne_zero_iff.mp hdnum').2⟩, hden'⟩

/-- per-bin soundness for the log-det term: the dual evaluation returns (log-det, d/dx log-det) -/
theorem rqFwdLdE_dual {x xk w yk h d0 d1 : ℝ} (hw : 0 < w) (hh : 0 < h) (h0 : 0 < d0) (h1 : 0 < d1)
    (hx0 : xk ≤ x) (hx1 : x ≤ xk + w) :
    IsDual (fun z => evalR (Bridge.rqEnv z xk w yk h d0 d1) rqFwdLdE) x
      (evalX (dualX (NF.realX e)) [(x, 1), ι xk, ι w, ι yk, ι h, ι d0, ι d1] rqFwdLdE) := by
  rw [evalX_dual_env]
  obtain ⟨hv, hd⟩ := evalDual_sound (Bridge.rqEnv x xk w yk h d0 d1) dir0 rqFwdLdE
    (rqLd_interior_smooth hw hh h0 h1 hx0 hx1)
  refine ⟨hv, ?_⟩
  simp only [line_rqEnv] at hd
  have := HasDerivAt.comp_sub_const x x (f := fun t => evalR (Bridge.rqEnv (x + t) xk w yk h d0 d1) rqFwdLdE) (by simpa using hd)
  refine this.congr_of_eventuallyEq (Eventually.of_forall fun z => ?_)
  show _ = evalR (Bridge.rqEnv (x + (z - x)) xk w yk h d0 d1) rqFwdLdE
  rw [add_sub_cancel]

/-! ## Value projection / zero-tangent lifting of the element-wise transforms (every input, kinks and errors included) -/

/-- **taking gradients never changes outputs or errors**: the value components of the dual run of any element-wise
    transform are exactly the real run (same `.ok` values, same `.error`) — at every input, kinks included -/
theorem nonlinEl_value (kind : String) (dsF : Array Float) (ps : List (ℝ × ℝ)) (inv : Bool) (dx : ℝ × ℝ) :
    XHom.mapRes Prod.fst (nonlinEl (dualX (NF.realX e)) kind dsF ps inv dx)
      = nonlinEl (NF.realX e) kind dsF (ps.map Prod.fst) inv dx.1 :=
  (fst_hom e).nonlinEl kind dsF ps inv dx

/-- **zero tangents in, zero tangents out**: with every tangent `0` the dual run is the real run paired with zeros -/
theorem nonlinEl_lift (kind : String) (dsF : Array Float) (ps : List ℝ) (inv : Bool) (x : ℝ) :
    nonlinEl (dualX (NF.realX e)) kind dsF (ps.map ι) inv (ι x)
      = XHom.mapRes ι (nonlinEl (NF.realX e) kind dsF ps inv x) :=
  ((lift_hom e).nonlinEl kind dsF ps inv x).symm

/-! ## the whole executed program -/

open RQWhole

variable {e}
variable {c : RQCfg} {uw uh ud : List ℝ}

/-- inside an open bin the executed search returns that bin -/
theorem idx_of_open_bin (hv : RQValid e c uw uh ud) (k : ℕ) (hk : k < uw.length) (x : ℝ)
    (h0 : xs e c uw k < x) (h1 : x < xs e c uw (k+1)) :
    e c.box.left ≤ x ∧ x ≤ e c.box.right ∧ idx e c uw x = k := by
  have hmono := ExecGlue.knots_mono (xs e c uw) uw.length (xs_strict hv)
  have hx0 : e c.box.left ≤ x := by
    rw [← xs_zero hv]; exact le_trans (hmono 0 k (Nat.zero_le _) hk.le) h0.le
  have hx1 : x ≤ e c.box.right := by
    rw [← xs_last hv]; exact le_trans h1.le (hmono (k+1) uw.length hk le_rfl)
  obtain ⟨hiK, hle, hr⟩ := (search_spec hv).1 x (by rw [xs_zero hv]; exact hx0) (by rw [xs_last hv]; exact hx1)
  refine ⟨hx0, hx1, ?_⟩
  set i := idx e c uw x
  by_contra hne
  rcases Nat.lt_or_gt_of_ne hne with hlt | hgt
  · rcases hr with hr | ⟨hiK', hxr⟩
    · have : xs e c uw (i+1) ≤ xs e c uw k := hmono (i+1) k hlt hk.le
      linarith
    · omega
  · have : xs e c uw (k+1) ≤ xs e c uw i := hmono (k+1) i hgt hiK.le
    linarith

/-- **the dual program selects the same bin and evaluates that bin's terms on dual numbers** — for every `x` in the
    domain, parameters entering with zero tangent (softmax, floor, cumsum, pinned knots, search, gathers all act on / keep
    zero tangents) -/
theorem rqSpline_dual_exec (hv : RQValid e c uw uh ud) (x : ℝ) (hx0 : e c.box.left ≤ x) (hx1 : x ≤ e c.box.right) :
    rqSpline (dualX (NF.realX e)) c (uw.map ι) (uh.map ι) (ud.map ι) false (x, 1)
      = .ok (evalX (dualX (NF.realX e)) [(x, 1), ι (xs e c uw (idx e c uw x)),
               ι (xs e c uw (idx e c uw x + 1) - xs e c uw (idx e c uw x)), ι (ys e c uh (idx e c uw x)),
               ι (ys e c uh (idx e c uw x + 1) - ys e c uh (idx e c uw x)), ι (ds e c ud (idx e c uw x)),
               ι (ds e c ud (idx e c uw x + 1))] rqFwdE,
             evalX (dualX (NF.realX e)) [(x, 1), ι (xs e c uw (idx e c uw x)),
               ι (xs e c uw (idx e c uw x + 1) - xs e c uw (idx e c uw x)), ι (ys e c uh (idx e c uw x)),
               ι (ys e c uh (idx e c uw x + 1) - ys e c uh (idx e c uw x)), ι (ds e c ud (idx e c uw x)),
               ι (ds e c ud (idx e c uw x + 1))] rqFwdLdE) := by
  obtain ⟨hspec, hsearch⟩ := search_spec hv
  have hx0' : xs e c uw 0 ≤ x := by rw [xs_zero hv]; exact hx0
  have hx1' : x ≤ xs e c uw uw.length := by rw [xs_last hv]; exact hx1
  obtain ⟨hiK, _, _⟩ := hspec x hx0' hx1'
  set i := idx e c uw x with hi
  have hcwlen := (cw_facts hv).1
  have hchlen := (ch_facts hv).1
  have hL := lift_hom e
  have hg1 : ((dualX (NF.realX e)).lt (x, 1) ((dualX (NF.realX e)).ofFloat c.box.left)
      || (dualX (NF.realX e)).lt ((dualX (NF.realX e)).ofFloat c.box.right) (x, 1)) = false := by
    simp only [d_lt, d_ofFloat, Bool.or_eq_false_iff, decide_eq_false_iff_not, not_lt]
    exact ⟨hx0, hx1⟩
  have hwlen : (diffsG (NF.realX e) (cw e c uw)).length = uw.length := by rw [SplineTotal.diffsG_length, hcwlen]; omega
  have hhlen : (diffsG (NF.realX e) (ch e c uh)).length = uw.length := by rw [SplineTotal.diffsG_length, hchlen]; omega
  have hk1 : rqKnots (dualX (NF.realX e)) c.box.left c.box.right (flooredSoftmax (dualX (NF.realX e)) c.minW (uw.map ι))
      = ((cw e c uw).map ι, (diffsG (NF.realX e) (cw e c uw)).map ι) := by
    rw [← hL.flooredSoftmax, ← hL.rqKnots]; rfl
  have hk2 : rqKnots (dualX (NF.realX e)) c.box.bottom c.box.top (flooredSoftmax (dualX (NF.realX e)) c.minH (uh.map ι))
      = ((ch e c uh).map ι, (diffsG (NF.realX e) (ch e c uh)).map ι) := by
    rw [← hL.flooredSoftmax, ← hL.rqKnots]; rfl
  have hdl : (dv e c ud).length = uw.length + 1 := by simp [dv, hv.hlend]
  have hdv : (ud.map ι).map (fun u => (dualX (NF.realX e)).add ((dualX (NF.realX e)).ofFloat c.minD)
        ((dualX (NF.realX e)).softplusB ((dualX (NF.realX e)).ofFloat c.beta) u))
      = (dv e c ud).map ι := by
    unfold dv
    rw [List.map_map, List.map_map]
    apply List.map_congr_left
    intro u _
    simp only [Function.comp, hL.add, hL.softplusB, hL.ofFloat]
  have hs : searchsortedG (dualX (NF.realX e)) c.eps ((cw e c uw).map ι) (x, 1) = ((i : ℕ) : Int) := by
    rw [(fst_hom e).searchsortedG, List.map_map, fst_ι, List.map_id]
    exact hsearch x hx0 hx1
  have hi1 : ((i : Int) + 1) = ((i + 1 : ℕ) : Int) := by push_cast; rfl
  unfold rqSpline
  simp only [Bool.false_eq_true, if_false, hg1, List.length_map, hv.hgW, hv.hgH, hk1, hk2, hs, hdv]
  rw [XHom.getI_ok (φ := ι) _ _ _ (SplineTotal.getI_ok (cw e c uw) i (by omega)),
    XHom.getI_ok (φ := ι) _ _ _ (SplineTotal.getI_ok _ i (by omega : i < (diffsG (NF.realX e) (cw e c uw)).length)),
    XHom.getI_ok (φ := ι) _ _ _ (SplineTotal.getI_ok (ch e c uh) i (by omega)),
    XHom.getI_ok (φ := ι) _ _ _ (SplineTotal.getI_ok _ i (by omega : i < (diffsG (NF.realX e) (ch e c uh)).length)),
    hi1, XHom.getI_ok (φ := ι) _ _ _ (SplineTotal.getI_ok _ i (by omega : i < (dv e c ud).length)),
    XHom.getI_ok (φ := ι) _ _ _ (SplineTotal.getI_ok _ (i + 1) (by omega : i + 1 < (dv e c ud).length))]
  simp only [getElem_eq_getD, diffsG_getD e (cw e c uw) i (by omega), diffsG_getD e (ch e c uh) i (by omega)]
  rfl

theorem val_eq_outY (x : ℝ) : val e c uw uh ud x = outY (rqSpline (NF.realX e) c uw uh ud false x) := rfl
theorem ld_eq_outL (x : ℝ) : ld e c uw uh ud x = outL (rqSpline (NF.realX e) c uw uh ud false x) := rfl

/-- **the executed rational-quadratic spline on dual numbers** (forward): for `x` strictly inside bin `k` the dual run with
    zero-tangent parameters returns `((val x, exp (ld x)), (ld x, l'))` — the real outputs, with tangents the derivatives
    of the real program's two outputs (`exp (ld x)` is `d val / dx`, `l'` is `d ld / dx`) -/
theorem rqSpline_dual (hv : RQValid e c uw uh ud) (k : ℕ) (hk : k < uw.length) (x : ℝ)
    (h0 : xs e c uw k < x) (h1 : x < xs e c uw (k+1)) :
    ∃ l' : ℝ, rqSpline (dualX (NF.realX e)) c (uw.map ι) (uh.map ι) (ud.map ι) false (x, 1)
        = .ok ((val e c uw uh ud x, Real.exp (ld e c uw uh ud x)), (ld e c uw uh ud x, l')) ∧
      HasDerivAt (val e c uw uh ud) (Real.exp (ld e c uw uh ud x)) x ∧ HasDerivAt (ld e c uw uh ud) l' x := by
  obtain ⟨hx0, hx1, hik⟩ := idx_of_open_bin hv k hk x h0 h1
  have hw : 0 < xs e c uw (k+1) - xs e c uw k := sub_pos.mpr (xs_strict hv k hk)
  have hh : 0 < ys e c uh (k+1) - ys e c uh k := sub_pos.mpr (ys_strict hv k hk)
  have hd0 := ds_pos hv k (by omega)
  have hd1 := ds_pos hv (k+1) (by omega)
  have hxr : x ≤ xs e c uw k + (xs e c uw (k+1) - xs e c uw k) := by linarith
  have hY := rqFwdE_dual e (yk := ys e c uh k) hw hh hd0 hd1 h0.le hxr
  have hLd := rqFwdLdE_dual e (yk := ys e c uh k) hw hh hd0 hd1 h0.le hxr
  have hexec := rqSpline_dual_exec hv x hx0 hx1
  rw [hik] at hexec
  -- the value components
  have hval : val e c uw uh ud x = binVal e c uw uh ud k x := by rw [val_eq hv x hx0 hx1, hik]
  have hld : ld e c uw uh ud x = binLd e c uw uh ud k x := by rw [ld_eq hv x hx0 hx1, hik]
  -- the tangent of the value is exp (log-det): uniqueness of the derivative of the bin formula
  have hder := RQBin.rq_executed_logdet (xk := xs e c uw k) (yk := ys e c uh k) (x := x) hw hh hd0 hd1 h0.le hxr
  have huniq := hY.2.unique hder
  -- near x the real program's log-det is bin k's term
  have hev : ld e c uw uh ud =ᶠ[𝓝 x] fun z => binLd e c uw uh ud k z := by
    refine Filter.eventuallyEq_of_mem (Ioo_mem_nhds h0 h1) (fun z hz => ?_)
    obtain ⟨hz0, hz1, hzk⟩ := idx_of_open_bin hv k hk z hz.1 hz.2
    show ld e c uw uh ud z = _
    rw [ld_eq hv z hz0 hz1, hzk]
  refine ⟨_, ?_, val_hasDerivAt hv k hk x h0 h1, hLd.2.congr_of_eventuallyEq hev⟩
  rw [hexec]
  congr 1
  refine Prod.ext (Prod.ext ?_ ?_) (Prod.ext ?_ rfl)
  · show _ = val e c uw uh ud x
    rw [hval]; exact hY.1
  · show _ = Real.exp (ld e c uw uh ud x)
    rw [huniq, hld]; rfl
  · show _ = ld e c uw uh ud x
    rw [hld]; exact hLd.1

/-- the same in the `DualRes` form of `Lemmas/DualXNonlin.lean`: the dual run is sound for the real program
    `s ↦ rqSpline (realX e) c uw uh ud false s` at `x` -/
theorem rqSpline_dualRes (hv : RQValid e c uw uh ud) (k : ℕ) (hk : k < uw.length) (x : ℝ)
    (h0 : xs e c uw k < x) (h1 : x < xs e c uw (k+1)) :
    DualRes (fun s => rqSpline (NF.realX e) c uw uh ud false s) x
      (rqSpline (dualX (NF.realX e)) c (uw.map ι) (uh.map ι) (ud.map ι) false (x, 1)) := by
  obtain ⟨l', hr, hdv, hdl⟩ := rqSpline_dual hv k hk x h0 h1
  obtain ⟨hx0, hx1, hik⟩ := idx_of_open_bin hv k hk x h0 h1
  refine ⟨_, _, hr, ?_, hdv, hdl⟩
  show rqSpline (NF.realX e) c uw uh ud false x = .ok (val e c uw uh ud x, ld e c uw uh ud x)
  rw [val_eq hv x hx0 hx1, ld_eq hv x hx0 hx1, exec_eq_bin hv x hx0 hx1]

private theorem bz : ((0.0:Float) == 0.0) = true := by decide +kernel
private theorem bo : ((1.0:Float) == 0.0) = false := by decide +kernel

/-- non-vacuity on the concrete accepted configuration of `RQWhole.valid_example` (one bin on the unit box) -/
theorem rqSpline_dual_example (x : ℝ) (h0 : 0 < x) (h1 : x < 1) :
    ∃ l' : ℝ, rqSpline (dualX (NF.realX eNV)) cNV [ι 0] [ι 0] [ι 0, ι 0] false (x, 1)
        = .ok ((val eNV cNV [0] [0] [0, 0] x, Real.exp (ld eNV cNV [0] [0] [0, 0] x)), (ld eNV cNV [0] [0] [0, 0] x, l')) := by
  have hv := valid_example
  have hx0 : xs eNV cNV [0] 0 = 0 := by
    rw [xs_zero hv]; simp [eNV, cNV, bz]
  have hx1 : xs eNV cNV [0] (0+1) = 1 := by
    have := xs_last hv
    simp only [List.length_singleton] at this
    rw [this]; simp [eNV, cNV, bo]
  obtain ⟨l', h, -, -⟩ := rqSpline_dual hv 0 (by simp) x (by rw [hx0]; exact h0) (by rw [hx1]; exact h1)
  exact ⟨l', h⟩

end
end DualX
