import Mathlib.Tactic

namespace Coupling

/-! C07/C08 structural models, generic in the element type -/

namespace Coupling
variable {α P C : Type} {n : ℕ}

/-- coupling forward on one row (coupling.py:73-100): `isT i` ⇔ mask[i] > 0.
    `cond` sees the identity features (others blanked by `blank`) and the context; `f` is the element-wise map. -/
def idPart (isT : Fin n → Bool) (blank : α) (x : Fin n → α) : Fin n → α := fun i => if isT i then blank else x i

def forward (isT : Fin n → Bool) (blank : α) (cond : (Fin n → α) → C → Fin n → P) (f : P → α → α)
    (x : Fin n → α) (c : C) : Fin n → α :=
  fun i => if isT i then f (cond (idPart isT blank x) c i) (x i) else x i

def inverse (isT : Fin n → Bool) (blank : α) (cond : (Fin n → α) → C → Fin n → P) (finv : P → α → α)
    (y : Fin n → α) (c : C) : Fin n → α :=
  fun i => if isT i then finv (cond (idPart isT blank y) c i) (y i) else y i

/-- identity features pass through unchanged — an equality in α, hence bit-for-bit -/
theorem identity_passthrough (isT : Fin n → Bool) (blank : α) (cond) (f : P → α → α) (x : Fin n → α) (c : C)
    (i : Fin n) (hi : isT i = false) : forward isT blank cond f x c i = x i := by simp [forward, hi]

/-- the conditioner only ever sees identity features -/
theorem idPart_forward (isT : Fin n → Bool) (blank : α) (cond) (f : P → α → α) (x : Fin n → α) (c : C) :
    idPart isT blank (forward isT blank cond f x c) = idPart isT blank x := by
  funext i; by_cases h : isT i <;> simp [idPart, forward, h]

/-- transformed feature t depends only on x t, the identity features and the context -/
theorem transformed_depends_on (isT : Fin n → Bool) (blank : α) (cond) (f : P → α → α) (x x' : Fin n → α) (c : C)
    (t : Fin n) (hid : ∀ i, isT i = false → x i = x' i) (ht : x t = x' t) :
    forward isT blank cond f x c t = forward isT blank cond f x' c t := by
  have : idPart isT blank x = idPart isT blank x' := by
    funext i; by_cases h : isT i
    · simp [idPart, h]
    · have h' : isT i = false := by simpa using h
      simp [idPart, h', hid i h']
  simp [forward, this, ht]

/-- inverse ∘ forward = id for any mask, given the element-wise maps invert -/
theorem inverse_forward (isT : Fin n → Bool) (blank : α) (cond) (f finv : P → α → α)
    (hinv : ∀ p a, finv p (f p a) = a) (x : Fin n → α) (c : C) :
    inverse isT blank cond finv (forward isT blank cond f x c) c = x := by
  funext i
  by_cases h : isT i
  · simp only [inverse, h, if_true, idPart_forward]
    simp [forward, h, hinv]
  · have h' : isT i = false := by simpa using h
    simp [inverse, forward, h']
end Coupling

namespace Wrappers
variable {α C : Type}
/-- a transform: forward and inverse, each returning (outputs, logabsdet) -/
structure Tr (α C : Type) where
  fwd : α → C → α × ℝ
  inv : α → C → α × ℝ

/-- `_cascade` (base.py:45-52) -/
def cascade (fs : List (α → C → α × ℝ)) (x : α) (c : C) : α × ℝ :=
  fs.foldl (fun acc f => let r := f acc.1 c; (r.1, acc.2 + r.2)) (x, 0)

def composite (ts : List (Tr α C)) : Tr α C where
  fwd := cascade (ts.map (·.fwd))
  inv := cascade (ts.reverse.map (·.inv))

def inverseTransform (t : Tr α C) : Tr α C := ⟨t.inv, t.fwd⟩

/-- each part: inverse undoes forward and negates the log-det -/
def Good (t : Tr α C) : Prop := ∀ x c, (t.inv (t.fwd x c).1 c).1 = x ∧ (t.inv (t.fwd x c).1 c).2 = - (t.fwd x c).2

theorem cascade_acc (fs : List (α → C → α × ℝ)) (x : α) (c : C) (l0 : ℝ) :
    fs.foldl (fun acc f => let r := f acc.1 c; (r.1, acc.2 + r.2)) (x, l0)
      = ((cascade fs x c).1, l0 + (cascade fs x c).2) := by
  induction fs generalizing x l0 with
  | nil => simp [cascade]
  | cons f fs ih =>
    simp only [cascade, List.foldl_cons]
    rw [ih, ih (f x c).1 (0 + (f x c).2)]
    simp [cascade]; ring

theorem cascade_cons (f : α → C → α × ℝ) (fs) (x : α) (c : C) :
    cascade (f :: fs) x c = ((cascade fs (f x c).1 c).1, (f x c).2 + (cascade fs (f x c).1 c).2) := by
  simp only [cascade, List.foldl_cons]
  rw [cascade_acc]; simp [cascade]

theorem cascade_append (fs gs : List (α → C → α × ℝ)) (x : α) (c : C) :
    cascade (fs ++ gs) x c = ((cascade gs (cascade fs x c).1 c).1, (cascade fs x c).2 + (cascade gs (cascade fs x c).1 c).2) := by
  induction fs generalizing x with
  | nil => simp [cascade]
  | cons f fs ih => rw [List.cons_append, cascade_cons, ih, cascade_cons]; simp; ring

theorem cascade_singleton (f : α → C → α × ℝ) (x : α) (c : C) : cascade [f] x c = f x c := by
  simp [cascade]

theorem composite_fwd_cons (t : Tr α C) (ts : List (Tr α C)) (x : α) (c : C) :
    (composite (t :: ts)).fwd x c
      = (((composite ts).fwd (t.fwd x c).1 c).1, (t.fwd x c).2 + ((composite ts).fwd (t.fwd x c).1 c).2) := by
  simp only [composite, List.map_cons]; exact cascade_cons _ _ _ _

theorem composite_inv_cons (t : Tr α C) (ts : List (Tr α C)) (z : α) (c : C) :
    (composite (t :: ts)).inv z c
      = ((t.inv ((composite ts).inv z c).1 c).1, ((composite ts).inv z c).2 + (t.inv ((composite ts).inv z c).1 c).2) := by
  simp only [composite, List.reverse_cons, List.map_append, List.map_cons, List.map_nil]
  rw [cascade_append, cascade_singleton]

/-- the composite's inverse (reversed order, as coded) undoes its forward and negates the summed log-det -/
theorem composite_good (ts : List (Tr α C)) (h : ∀ t ∈ ts, Good t) : Good (composite ts) := by
  induction ts with
  | nil => intro x c; simp [composite, cascade]
  | cons t ts ih =>
    intro x c
    obtain ⟨e3, e4⟩ := h t (List.mem_cons_self) x c
    obtain ⟨e1, e2⟩ := ih (fun s hs => h s (List.mem_cons_of_mem _ hs)) (t.fwd x c).1 c
    rw [composite_fwd_cons, composite_inv_cons]
    simp only [e1, e2, e3, e4]
    exact ⟨trivial, by ring⟩
end Wrappers


end Coupling
