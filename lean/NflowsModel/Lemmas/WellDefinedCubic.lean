import NflowsModel.Lemmas.CubicWhole
import NflowsModel.Lemmas.CubicInverseWhole
import Mathlib.Tactic
/-!
# Lemmas/WellDefinedCubic — every logarithm / division / square root the EXECUTED piecewise-cubic spline forms on an
in-domain input has its operand in the domain of the operation

Over ℝ every arithmetic operation is total (`Real.log 0 = 0`, `x / 0 = 0`, `Real.sqrt` of a negative number is `0`), so
`cubicSpline (NF.realX e) … x = .ok r` alone does not say that the program stayed inside the domains of `log`, `/`,
`sqrt`.  This file states and proves exactly that, operation by operation, for the program text of `Core/Spline.lean`
(`cubicSpline`, lines 298-402) and of the helpers it calls (`flooredSoftmax` Spline:103-106, `softmaxG` Basic:33-37,
`XOps.sigmoid` XOps:51, `cubicSpline.ms2f` Spline:315-318, `cubicFwdE`/`cubicDerivE` Spline:81-86, `boxLog` Spline:175).

## Enumeration — forward direction, `cubicSpline o c uw uh udl udr false x`

Rows 1-9 do not depend on `x`: they are the eager list building shared by both directions (`CubicParamsWellDefined`).

| # | where (file:line)                                   | operation                                   | operand                                               | covered by                         |
|---|-----------------------------------------------------|---------------------------------------------|-------------------------------------------------------|------------------------------------|
| 1 | Spline:308 → `flooredSoftmax`:106 → Basic:37        | `o.div e s` (softmax of `uw`)               | `s = sumG (exp (u − max))` over `uw`                  | `softmaxW_divisor` (`0 <`)         |
| 2 | Spline:310 → the same for `uh`                      | `o.div e s` (softmax of `uh`)               | `s = sumG (exp (u − max))` over `uh`                  | `softmaxH_divisor` (`0 <`)         |
| 3 | Spline:312 `zipWith o.div heights widths`           | `o.div h w`, one per bin                    | every `w ∈ widths` (lists have equal length)          | `slopes_divisor` (`0 <`), `slopes_zip` |
| 4 | Spline:317 `ms2f`                                   | `o.div (0.5·(w1 s0 + w0 s1)) (o.add w0 w1)` | `w0 + w1`, `w0 w1` consecutive entries of `widths`    | `ms2_divisor` (`0 <`, ANY two entries) |
| 5 | Spline:323 → XOps:51 `o.sigmoid udl`                | `o.div o.one (1 + exp (−udl))`              | `1 + exp (−udl)`                                      | `sigmoidL_divisor` (`0 <`)         |
| 6 | Spline:324 → XOps:51 `o.sigmoid udr`                | `o.div o.one (1 + exp (−udr))`              | `1 + exp (−udr)`                                      | `sigmoidR_divisor` (`0 <`)         |
| 7 | Spline:331 `aL`, every `k < K` (eager `List.map`)   | `o.div (l + r − 2s) (o.mul w w)`            | `w·w`, `w = widths.getD k o.one`                      | `aL_divisor` (`0 <`, EVERY `k : ℕ`) |
| 8 | Spline:334 `bL`, every `k < K`                      | `o.div (3s − 2l − r) w`                     | `w = widths.getD k o.one`                             | `bL_divisor` (`0 <`, EVERY `k : ℕ`) |
| 9 | Spline:344 `boxLog c.box` (a `Float` constant)      | `Float.log ((top−bottom)/(right−left))`     | real reading: divisor `right−left`, log argument      | `boxLog_divisor`, `boxLog_log_arg` (`0 <`, on the `e`-readings) |
|10 | Spline:307                                          | `o.div (x − left) (ofFloat (right − left))` | `o.ofFloat (right − left)`                            | `norm_divisor` (`0 <`)             |
|11 | Spline:401                                          | `o.log (evalX o env cubicDerivE)`           | `3·ia·sh² + 2·ib·sh + ic` at the SELECTED bin         | `logdet_arg_pos` (`0 <`, on the executed `evalX` term), `logdet_arg_binD`, `logdet_arg_text` |

`exec` ties the closed-form names (`aK`, `bK`, `dv`, `chs`, `cws`, `binN`, `binD` of `Lemmas/CubicWhole.lean`, at the
index `idxN` the EXECUTED search returns) to the program: the program returns exactly
`(clamp 0 1 (binN …) · e(top−bottom) + e bottom, Real.log (binD …) + e (boxLog c.box), [])`; `idx_lt`, `in_bin` say where
that index lies.  `aL_entry`, `bL_entry` say that the gathered coefficients are entries of the program's own lists
(`CubicWhole.aLof`, `bLof` are sub-terms of `cubicSpline` by `CubicWhole.cubicSpline_unfold : … := rfl`).

Nothing else forms a `log` / `div` / `sqrt` in the forward direction: the guards (Spline:302-305) compare only;
`cumsumG`, `setLast`, `minPair` (`abs`, `minA`, `sign`, `add`), `List.zipWith o.minA`, `List.zipWith o.mul`,
`searchsortedG` (`maxA`, `add`, `nextUp`, `ge`), `getI`, `cubicFwdE` / `cubicDerivE` (polynomials: `+`, `−`, `·` only),
`o.clamp` and the final rescaling (`mul`, `add`) are free of them.  The remaining divisions are the rational literals
`o.ofRat n 1` behind `o.zero`, `o.one`, `o.two`, `o.ofNat 3` and the `Expr` literals `2`, `3` (divisor: the literal `1`);
the Python-side constants `1 − minW·K`, `right − left`, `top − bottom` are `Float` subtractions / products.
NO square root is formed in the forward direction.  That the operands listed are the ones the program forms is visible in
the `rfl` examples `softmaxG_shape`, `flooredSoftmax_shape`, `sigmoid_shape`, `ms2f_shape` below.

**Key row 11.**  Positivity of the log-det argument holds on the CLOSED selected bin, knots and box ends included: over ℝ
`0 < sigmoid u < 1` strictly, every slope is `> 0`, hence every knot derivative lies strictly inside the
Fritsch–Carlson region `0 < d < 3s` of both adjacent bins (`CubicWhole.dv_range`) and `Cubic.dpoly_pos` applies for
`t ∈ [0,1]`.  No extra hypothesis is needed; there is no finding over ℝ.
Remark (floats, NOT a theorem here): the strictness `0 < sigmoid udl` is a fact of ℝ.  In binary64 `1/(1 + exp (−u))`
evaluates to `0` for `u ≲ −710` (`exp (−u)` overflows); then the left end derivative is `0`, the polynomial
`3a·sh² + 2b·sh + c` vanishes at `x = left` and the log-abs-det there is `log 0 = −∞`.  That input
(`unnormalized_derivatives_left ≲ −710`, `x = left`; symmetrically on the right) is outside what these real-number
theorems can express and was not run here; it is recorded so the gap is not overlooked.

## Inverse direction, `cubicSpline o c uw uh udl udr true y` (rows 1-9 as above, then) — PARTIAL

| #  | where            | operation                                         | operand                                  | status                                                     |
|----|------------------|---------------------------------------------------|------------------------------------------|------------------------------------------------------------|
| 10'| Spline:306       | `o.div (y − bottom) (ofFloat (top − bottom))`     | `o.ofFloat (top − bottom)`               | `norm_divisor` (`0 <`)                                     |
| 12 | Spline:346-348   | `o.div ib ia`, `o.div ic ia`, `o.div (id − x') ia`| `ia` (gathered `a` of the bin)           | **NOT in domain in general**: `ia_zero_example`, `ia_zero_all_inputs` |
| 13 | Spline:346-347   | `o.div … (o.ofFloat 3.0)`                         | `e 3.0`                                  | `three_divisor` (`= 3`, needs `InvConsts`)                 |
| 14 | Spline:357       | `o.sqrt disc`                                     | `disc`                                   | in domain by the guard `o.ge disc o.zero` of that branch   |
| 15 | Spline:357       | `o.div (atan2 …) (o.ofFloat 3.0)`                 | `e 3.0`                                  | `three_divisor`                                            |
| 16 | Spline:364       | `o.sqrt (o.neg dep2)`                             | `−dep2 = −delta1`                        | `trig_sqrt_arg_nonneg` (`0 ≤` whenever `0 ≤ disc`; pure algebra, any `b_ c_ d_`) |
| 17 | Spline:376       | `o.sqrt (o.neg disc)`                             | `−disc`                                  | in domain by the guard `o.lt disc o.zero` of that branch   |
| 18 | Spline:377-378 → `cbrtG`:285 | `o.log (o.abs x)`, twice              | `|x|`, `x = (−dep1 ± sqrt(−disc))/2`     | **NOT always**: `cardano_cbrt_args_mul`: the two `x` multiply to `−delta1³`, so one of them is `0` exactly when `delta1 = 0` (`cardano_cbrt_arg_zero_iff`); concrete accepted configuration where this happens on EVERY input: `cardano_log_zero_example` |
| 19 | `cbrtG`:285      | `o.div (log |x|) (o.ofFloat 3.0)`                 | `e 3.0`                                  | `three_divisor`                                            |
| 20 | Spline:377-378   | `o.div … o.two`                                   | literal `2`                              | literal                                                    |
| 21 | Spline:386-387   | `o.sqrt rad`, `rad = maxA (b² − 4ac) 0`           | `rad`                                    | `quad_sqrt_arg_nonneg` (`0 ≤`, every operand)              |
| 22 | Spline:387       | `o.div (2·cc) (−b − sqrt rad)`                    | `−ic − sqrt rad`                         | `quad_divisor_neg` (`< 0`, so `≠ 0`; `ic` = a knot derivative `> 0`) |
| 23 | Spline:395       | `o.log (3·ia·sh² + 2·ib·sh + ic)`                 | derivative term at the CLAMPED root      | `logdet_arg_pos` (`0 <`; true only because of the clamp `inBin`, Spline:391-392) |

Findings kept (audit C17 finding 3, recorded findings F24/F25): rows 12 and 18.  The model's `if` is lazy, but the
library evaluates every branch on every element and selects by masks, so the out-of-domain operations of the branch NOT
selected are executed there.  Over ℝ a linear bin (`ia = 0`) satisfies the "almost quadratic" test (Spline:383:
`|ia|·w³ = 0 < thr·h`), so the value returned comes from the quadratic root, and whatever `out1` is, the clamp into the
bin (Spline:391-392) makes the log-det argument positive — the result is rescued, the operations are not in domain.
-/
open NF DualSound

namespace NF.WellDefined.Cubic
noncomputable section
open CubicWhole

/-! ### the operands are sub-terms of the program (all `rfl`) -/

/-- the divisor of `softmaxG` is `sumG` of the shifted exponentials -/
theorem softmaxG_shape {α : Type} (o : XOps α) (xs : List α) :
    softmaxG o xs
      = (xs.map (fun x => o.exp (o.sub x (maxG o xs)))).map
          (fun t => o.div t (sumG o (xs.map (fun x => o.exp (o.sub x (maxG o xs)))))) := rfl

/-- `flooredSoftmax` forms no division of its own -/
theorem flooredSoftmax_shape {α : Type} (o : XOps α) (m : Float) (u : List α) :
    flooredSoftmax o m u
      = (softmaxG o u).map (fun s => o.add (o.ofFloat m) (o.mul (o.ofFloat (1 - m * u.length.toFloat)) s)) := rfl

/-- the divisor of `o.sigmoid u` is `1 + exp (−u)` -/
theorem sigmoid_shape {α : Type} (o : XOps α) (u : α) :
    o.sigmoid u = o.div o.one (o.add o.one (o.exp (o.neg u))) := rfl

/-- the divisor of an entry of `ms2f` is the sum of two consecutive widths -/
theorem ms2f_shape {α : Type} (o : XOps α) (w0 w1 s0 s1 : α) (wr sr : List α) :
    cubicSpline.ms2f o (w0 :: w1 :: wr) (s0 :: s1 :: sr)
      = o.div (o.mul (o.ofFloat 0.5) (o.add (o.mul w1 s0) (o.mul w0 s1))) (o.add w0 w1)
          :: cubicSpline.ms2f o (w1 :: wr) (s1 :: sr) := rfl

variable (e : Float → ℝ)

/-! ### rows 1-9: the eager list building, independent of the input -/

/-- **every divisor of the list-building stage of `cubicSpline` (both directions) is positive**, stated on the terms the
    program forms; plus the real reading of the `Float` constant `boxLog c.box` -/
structure CubicParamsWellDefined (c : CCfg) (uw uh : List ℝ) (udl udr : ℝ) : Prop where
  /-- row 1: the divisor of the softmax over `uw` -/
  softmaxW_divisor :
    0 < sumG (NF.realX e) (uw.map (fun u => (NF.realX e).exp ((NF.realX e).sub u (maxG (NF.realX e) uw))))
  /-- row 2: the divisor of the softmax over `uh` -/
  softmaxH_divisor :
    0 < sumG (NF.realX e) (uh.map (fun u => (NF.realX e).exp ((NF.realX e).sub u (maxG (NF.realX e) uh))))
  /-- row 3: every divisor of `slopes = zipWith div heights widths` … -/
  slopes_divisor : ∀ w ∈ flooredSoftmax (NF.realX e) c.minW uw, 0 < w
  /-- … and the two lists have the same length `K` (no height is dropped by the `zipWith`) -/
  slopes_zip : (flooredSoftmax (NF.realX e) c.minH uh).length = uw.length ∧
    (flooredSoftmax (NF.realX e) c.minW uw).length = uw.length
  /-- row 4: the divisor `w0 + w1` of `ms2f`, for ANY two entries of `widths` (the program uses consecutive ones) -/
  ms2_divisor : ∀ w0 ∈ flooredSoftmax (NF.realX e) c.minW uw, ∀ w1 ∈ flooredSoftmax (NF.realX e) c.minW uw,
    0 < (NF.realX e).add w0 w1
  /-- row 5: the divisor of `sigmoid udl` -/
  sigmoidL_divisor : 0 < (NF.realX e).add (NF.realX e).one ((NF.realX e).exp ((NF.realX e).neg udl))
  /-- row 6: the divisor of `sigmoid udr` -/
  sigmoidR_divisor : 0 < (NF.realX e).add (NF.realX e).one ((NF.realX e).exp ((NF.realX e).neg udr))
  /-- row 7: the divisor `w·w` of `aL`, `w = widths.getD k o.one`, for every `k` (the program forms `k < K`) -/
  aL_divisor : ∀ k : ℕ, 0 < (NF.realX e).mul ((flooredSoftmax (NF.realX e) c.minW uw).getD k (NF.realX e).one)
    ((flooredSoftmax (NF.realX e) c.minW uw).getD k (NF.realX e).one)
  /-- row 8: the divisor `w` of `bL` -/
  bL_divisor : ∀ k : ℕ, 0 < (flooredSoftmax (NF.realX e) c.minW uw).getD k (NF.realX e).one
  /-- row 9: real reading of the `Float` constant `boxLog c.box = log ((top − bottom)/(right − left))`: its divisor … -/
  boxLog_divisor : 0 < e c.box.right - e c.box.left
  /-- … and its logarithm argument -/
  boxLog_log_arg : 0 < (e c.box.top - e c.box.bottom) / (e c.box.right - e c.box.left)
  /-- the gathered `a`-coefficients are entries of the program's own list `aL` -/
  aL_entry : ∀ k < uw.length, (aLof e c uw uh (derivs e c uw uh udl udr)).getD k 0 = aK e c uw uh udl udr k
  /-- the gathered `b`-coefficients are entries of the program's own list `bL` -/
  bL_entry : ∀ k < uw.length, (bLof e c uw uh (derivs e c uw uh udl udr)).getD k 0 = bK e c uw uh udl udr k

variable {e}
variable {c : CCfg} {uw uh : List ℝ}

theorem softmax_divisor_pos (u : List ℝ) (hu : u ≠ []) :
    0 < sumG (NF.realX e) (u.map (fun t => (NF.realX e).exp ((NF.realX e).sub t (maxG (NF.realX e) u)))) := by
  rw [SplineExec.sumG_eq]
  exact SplineExec.sum_exp_pos u (maxG (NF.realX e) u) hu

theorem getD_one_pos (l : List ℝ) (hpos : ∀ w ∈ l, 0 < w) (k : ℕ) : 0 < l.getD k (NF.realX e).one := by
  rw [NF.realX_one]
  rcases Nat.lt_or_ge k l.length with h | h
  · rw [← RQWhole.getElem_eq_getD l k h |>.trans (CubicWhole.getD_default l k h 0 1)]
    exact hpos _ (List.getElem_mem h)
  · rw [List.getD_eq_default _ _ h]; exact one_pos

theorem sigmoid_divisor_pos (u : ℝ) : 0 < (NF.realX e).add (NF.realX e).one ((NF.realX e).exp ((NF.realX e).neg u)) := by
  simp only [NF.realX_add, NF.realX_one, NF.realX_exp, NF.realX_neg]
  have := Real.exp_pos (-u)
  linarith

/-- **rows 1-9 hold for every accepted configuration and all unnormalised parameters** -/
theorem cubic_params_well_defined (hv : CubicValid e c uw uh) (udl udr : ℝ) :
    CubicParamsWellDefined e c uw uh udl udr where
  softmaxW_divisor := softmax_divisor_pos uw hv.hK
  softmaxH_divisor := softmax_divisor_pos uh (uh_ne hv)
  slopes_divisor := (W_facts hv).2.1
  slopes_zip := ⟨(H_facts hv).1, (W_facts hv).1⟩
  ms2_divisor := fun w0 h0 w1 h1 => add_pos ((W_facts hv).2.1 w0 h0) ((W_facts hv).2.1 w1 h1)
  sigmoidL_divisor := sigmoid_divisor_pos udl
  sigmoidR_divisor := sigmoid_divisor_pos udr
  aL_divisor := fun k => mul_pos (getD_one_pos _ (W_facts hv).2.1 k) (getD_one_pos _ (W_facts hv).2.1 k)
  bL_divisor := fun k => getD_one_pos _ (W_facts hv).2.1 k
  boxLog_divisor := sub_pos.mpr hv.hlr
  boxLog_log_arg := div_pos (sub_pos.mpr hv.hbt) (sub_pos.mpr hv.hlr)
  aL_entry := fun k hk => by
    have hlen : k < (aLof e c uw uh (derivs e c uw uh udl udr)).length := by simp [aLof, hk]
    rw [← RQWhole.getElem_eq_getD _ k hlen]
    exact aLof_get hv k hk hlen
  bL_entry := fun k hk => by
    have hlen : k < (bLof e c uw uh (derivs e c uw uh udl udr)).length := by simp [bLof, hk]
    rw [← RQWhole.getElem_eq_getD _ k hlen]
    exact bLof_get hv k hk hlen

/-! ### the forward direction -/

variable (e)

/-- **the executed cubic FORWARD program stays inside the domain of every `log` and `/` it forms** on the input `x`
    (it forms no `sqrt`): rows 1-11 of the table in the file header. -/
structure CubicFwdWellDefined (c : CCfg) (uw uh : List ℝ) (udl udr x : ℝ) : Prop
    extends CubicParamsWellDefined e c uw uh udl udr where
  /-- row 10: the divisor of the box normalisation `x' = (x − left) / (right − left)` -/
  norm_divisor : 0 < (NF.realX e).ofFloat (c.box.right - c.box.left)
  /-- what the program returns: the closed forms of the bin the EXECUTED search selected -/
  exec : cubicSpline (NF.realX e) c uw uh udl udr false x
      = .ok ((NF.realX e).clamp 0 1 (binN e c uw uh udl udr (idxN e c uw (xn e c x)) (xn e c x))
                * e (c.box.top - c.box.bottom) + e c.box.bottom,
             Real.log (binD e c uw uh udl udr (idxN e c uw (xn e c x)) (xn e c x)) + e (boxLog c.box), [])
  /-- the selected index is a bin -/
  idx_lt : idxN e c uw (xn e c x) < uw.length
  /-- the normalised input lies in the closed selected bin -/
  in_bin : cws e c uw (idxN e c uw (xn e c x)) ≤ xn e c x ∧ xn e c x ≤ cws e c uw (idxN e c uw (xn e c x) + 1)
  /-- row 11: the argument of `o.log (evalX o env cubicDerivE)` on the environment of gathered values is POSITIVE -/
  logdet_arg_pos :
    0 < evalX (NF.realX e)
          [xn e c x, cws e c uw (idxN e c uw (xn e c x)), aK e c uw uh udl udr (idxN e c uw (xn e c x)),
           bK e c uw uh udl udr (idxN e c uw (xn e c x)), dv e c uw uh udl udr (idxN e c uw (xn e c x)),
           chs e c uh (idxN e c uw (xn e c x))] cubicDerivE
  /-- that executed term is `binD` at the selected bin (the name used in `exec`) … -/
  logdet_arg_binD :
    evalX (NF.realX e)
          [xn e c x, cws e c uw (idxN e c uw (xn e c x)), aK e c uw uh udl udr (idxN e c uw (xn e c x)),
           bK e c uw uh udl udr (idxN e c uw (xn e c x)), dv e c uw uh udl udr (idxN e c uw (xn e c x)),
           chs e c uh (idxN e c uw (xn e c x))] cubicDerivE
      = binD e c uw uh udl udr (idxN e c uw (xn e c x)) (xn e c x)
  /-- … and in plain text it is `3·a·sh² + 2·b·sh + c`, `sh = x' − lcw` -/
  logdet_arg_text :
    binD e c uw uh udl udr (idxN e c uw (xn e c x)) (xn e c x)
      = 3 * aK e c uw uh udl udr (idxN e c uw (xn e c x)) * ((xn e c x - cws e c uw (idxN e c uw (xn e c x)))
            * (xn e c x - cws e c uw (idxN e c uw (xn e c x))))
        + 2 * bK e c uw uh udl udr (idxN e c uw (xn e c x)) * (xn e c x - cws e c uw (idxN e c uw (xn e c x)))
        + dv e c uw uh udl udr (idxN e c uw (xn e c x))

variable {e}

theorem binD_evalX (udl udr : ℝ) (k : ℕ) (t : ℝ) :
    evalX (NF.realX e) [t, cws e c uw k, aK e c uw uh udl udr k, bK e c uw uh udl udr k, dv e c uw uh udl udr k,
        chs e c uh k] cubicDerivE = binD e c uw uh udl udr k t := by
  rw [RQWhole.evalX_eq_evalR]; rfl

theorem binD_plain (udl udr : ℝ) (k : ℕ) (t : ℝ) :
    binD e c uw uh udl udr k t
      = 3 * aK e c uw uh udl udr k * ((t - cws e c uw k) * (t - cws e c uw k))
        + 2 * bK e c uw uh udl udr k * (t - cws e c uw k) + dv e c uw uh udl udr k := by
  simp [binD, CubicWhole.env, Bridge.cEnv, cubicDerivE, envOf, NF.v]

/-- **C17, forward, well-definedness**: under `CubicValid`, for all unnormalised end derivatives and every `x` of the
    closed box `[left, right]`, every divisor the executed program forms is `> 0` and the argument of its one logarithm
    is `> 0` (no square root is formed). -/
theorem cubic_forward_well_defined (hv : CubicValid e c uw uh) (udl udr x : ℝ)
    (hx0 : e c.box.left ≤ x) (hx1 : x ≤ e c.box.right) : CubicFwdWellDefined e c uw uh udl udr x := by
  obtain ⟨ht0, ht1⟩ := xn_unit hv x hx0 hx1
  obtain ⟨hiK, hle, hr⟩ := (search_spec hv).1 (xn e c x) (by rw [cws_zero hv]; exact ht0) (by rw [cws_last hv]; exact ht1)
  have hpos := ld_arg_pos (udl := udl) (udr := udr) hv x hx0 hx1
  exact
    { toCubicParamsWellDefined := cubic_params_well_defined hv udl udr
      norm_divisor := by
        show 0 < e (c.box.right - c.box.left)
        rw [hv.hdlr]; exact sub_pos.mpr hv.hlr
      exec := exec_eq_bin hv x hx0 hx1
      idx_lt := hiK
      in_bin := ⟨hle, by
        rcases hr with hr | ⟨hK, hr⟩
        · exact hr.le
        · rw [hK]; exact hr.le⟩
      logdet_arg_pos := by rw [binD_evalX]; exact hpos
      logdet_arg_binD := binD_evalX udl udr _ _
      logdet_arg_text := binD_plain udl udr _ _ }

/-- non-vacuity: the theorem applies to the concrete accepted configuration `CubicInverseWhole.valid_exampleI`
    (two bins on the unit box, a table reading of the doubles), at every point of `[0, 1]` and all end parameters -/
example (udl udr x : ℝ) (h0 : 0 ≤ x) (h1 : x ≤ 1) :
    CubicFwdWellDefined CubicInverseWhole.eI cNV [0, 0] [0, 0] udl udr x :=
  cubic_forward_well_defined CubicInverseWhole.valid_exampleI udl udr x
    (by rw [show CubicInverseWhole.eI cNV.box.left = 0 from CubicInverseWhole.ex_bottom]; exact h0)
    (by rw [show CubicInverseWhole.eI cNV.box.right = 1 from CubicInverseWhole.ex_top]; exact h1)

/-! ### the inverse direction — PARTIAL: what is in domain, what is not

NB evaluation order.  Lean is strict: in the compiled model the `let` bindings Spline:346-380 (`b_`, `c_`, `d_`, …, the pair
`(out0, alts)`) are evaluated BEFORE the "almost quadratic" test of Spline:383 is looked at, and inside `out0` the branch
is chosen by the sign of `disc`.  The library evaluates every branch on every element and selects by masks.  So rows
12-13 are executed on every input; rows 14-16 when `disc ≥ 0`; rows 17-20 when `disc < 0`; rows 21-22 when the test of
Spline:383 holds (model) / always (library). -/

open CubicInverseWhole

variable (e)

/-- **the part of the executed cubic INVERSE program that provably stays in domain** on the input `y` (rows 1-9, 10', 21-23
    of the header; rows 12 and 18 are NOT in domain in general, see `ia_zero_all_inputs`, `cardano_cbrt_arg_zero_iff`). -/
structure CubicInvWellDefinedPartial (c : CCfg) (uw uh : List ℝ) (udl udr y : ℝ) : Prop
    extends CubicParamsWellDefined e c uw uh udl udr where
  /-- row 10': the divisor of the box normalisation `y' = (y − bottom) / (top − bottom)` -/
  norm_divisor : 0 < (NF.realX e).ofFloat (c.box.top - c.box.bottom)
  /-- what the program returns: `invCore` (verbatim sub-term: `out1`, clamp into the bin, log-det, rescaling) on the closed
      forms `aK bK dv chs cws hv` of the bin `idxH` the EXECUTED search over the y-knots selected -/
  exec : cubicSpline (NF.realX e) c uw uh udl udr true y = .ok (coreN e c uw uh udl udr (yn e c y))
  /-- … whose log-abs-det component is `−log (binD at the clamped root) − boxLog` -/
  exec_logdet : invLd e c uw uh udl udr y
      = - Real.log (binD e c uw uh udl udr (idxH e c uh (yn e c y)) (rootN e c uw uh udl udr (yn e c y))) - e (boxLog c.box)
  /-- the selected index is a bin -/
  idx_lt : idxH e c uh (yn e c y) < uw.length
  /-- row 21: the radicand of the quadratic branch is `maxA (…) 0`, so `sqrt` is in domain whatever the operands -/
  quad_sqrt_arg_nonneg : ∀ z : ℝ, 0 ≤ (NF.realX e).maxA z (NF.realX e).zero
  /-- row 22: the divisor `−b − sqrt rad` of the quadratic branch, `b = ic` the gathered knot derivative, is NEGATIVE
      whatever the radicand -/
  quad_divisor_neg : ∀ rad : ℝ,
    (NF.realX e).sub ((NF.realX e).neg (dv e c uw uh udl udr (idxH e c uh (yn e c y)))) ((NF.realX e).sqrt rad) < 0
  /-- row 23: the argument of the logarithm of the log-abs-det, as the program writes it (`sh = root − lcw`, the root
      CLAMPED into the selected bin), is POSITIVE -/
  logdet_arg_pos :
    0 < (NF.realX e).add ((NF.realX e).add
          ((NF.realX e).mul ((NF.realX e).mul ((NF.realX e).ofNat 3) (aK e c uw uh udl udr (idxH e c uh (yn e c y))))
            ((NF.realX e).mul
              ((NF.realX e).sub (rootN e c uw uh udl udr (yn e c y)) (cws e c uw (idxH e c uh (yn e c y))))
              ((NF.realX e).sub (rootN e c uw uh udl udr (yn e c y)) (cws e c uw (idxH e c uh (yn e c y))))))
          ((NF.realX e).mul ((NF.realX e).mul (NF.realX e).two (bK e c uw uh udl udr (idxH e c uh (yn e c y))))
            ((NF.realX e).sub (rootN e c uw uh udl udr (yn e c y)) (cws e c uw (idxH e c uh (yn e c y))))))
          (dv e c uw uh udl udr (idxH e c uh (yn e c y)))
  /-- the same, under the name used in `exec_logdet` -/
  logdet_arg_binD :
    0 < binD e c uw uh udl udr (idxH e c uh (yn e c y)) (rootN e c uw uh udl udr (yn e c y))

variable {e}

/-- **C17, inverse, well-definedness, partial**: under `CubicValid`, for every `y ∈ [bottom, top]`. -/
theorem cubic_inverse_well_defined_partial (hv : CubicValid e c uw uh) (udl udr y : ℝ)
    (hy0 : e c.box.bottom ≤ y) (hy1 : y ≤ e c.box.top) : CubicInvWellDefinedPartial e c uw uh udl udr y := by
  obtain ⟨ht0, ht1⟩ := yn_unit hv y hy0 hy1
  obtain ⟨hiK, _, _, _⟩ := selH hv (yn e c y) ht0 ht1
  have hpos := invLd_arg_pos (udl := udl) (udr := udr) hv y hy0 hy1
  have hic : 0 < dv e c uw uh udl udr (idxH e c uh (yn e c y)) := (dv_range hv _ hiK).1.1
  exact
    { toCubicParamsWellDefined := cubic_params_well_defined hv udl udr
      norm_divisor := by
        show 0 < e (c.box.top - c.box.bottom)
        rw [hv.hdbt]; exact sub_pos.mpr hv.hbt
      exec := exec_eq_core hv y hy0 hy1
      exec_logdet := invLd_eq hv y hy0 hy1
      idx_lt := hiK
      quad_sqrt_arg_nonneg := fun z => by
        rw [CubicInverseWhole.realX_maxA, NF.realX_zero]; exact le_max_right _ _
      quad_divisor_neg := fun rad => by
        simp only [NF.realX_sub, NF.realX_neg, NF.realX_sqrt]
        have := Real.sqrt_nonneg rad
        linarith
      logdet_arg_pos := by rw [binD_text]; exact hpos
      logdet_arg_binD := hpos }

/-- non-vacuity of the inverse statement, on the same concrete configuration -/
example (udl udr y : ℝ) (h0 : 0 ≤ y) (h1 : y ≤ 1) :
    CubicInvWellDefinedPartial eI cNV [0, 0] [0, 0] udl udr y :=
  cubic_inverse_well_defined_partial valid_exampleI udl udr y (by rw [ex_bottom]; exact h0) (by rw [ex_top]; exact h1)

/-- rows 13, 15, 19: the divisor `o.ofFloat 3.0` is the real `3` as soon as the double `3.0` is read exactly -/
theorem three_divisor (hc : InvConsts e c) : (NF.realX e).ofFloat 3.0 = 3 := hc.h3

/-- row 14: inside the branch `o.ge disc o.zero` the argument of `o.sqrt disc` is `≥ 0` -/
theorem guard_ge (d : ℝ) (h : (NF.realX e).ge d (NF.realX e).zero = true) : 0 ≤ d := by
  simpa [XOps.ge] using h

/-- row 17: inside the branch `o.lt disc o.zero` the argument of `o.sqrt (o.neg disc)` is `> 0` -/
theorem guard_lt (d : ℝ) (h : (NF.realX e).lt d (NF.realX e).zero = true) : 0 < (NF.realX e).neg d := by
  have : d < 0 := by simpa using h
  simpa using this

/-- row 16: **in the trigonometric branch `sqrt (−dep2)` is in domain**: for ANY `b_ c_ d_` (also the totalisation values
    they take when `ia = 0`), `0 ≤ disc` forces `0 ≤ −delta1`; on the program's own `let` terms (Spline:349-354). -/
theorem trig_sqrt_arg_nonneg (hc : InvConsts e c) (b_ c_ d_ : ℝ) :
    let delta1 := (NF.realX e).add ((NF.realX e).neg ((NF.realX e).mul b_ b_)) c_
    let delta2 := (NF.realX e).add ((NF.realX e).neg ((NF.realX e).mul c_ b_)) d_
    let delta3 := (NF.realX e).sub ((NF.realX e).mul b_ d_) ((NF.realX e).mul c_ c_)
    let disc := (NF.realX e).sub ((NF.realX e).mul ((NF.realX e).mul ((NF.realX e).ofFloat 4.0) delta1) delta3)
      ((NF.realX e).mul delta2 delta2)
    let dep2 := delta1
    (NF.realX e).ge disc (NF.realX e).zero = true → 0 ≤ (NF.realX e).neg dep2 := by
  intro delta1 delta2 delta3 disc dep2 h
  have h' : 0 ≤ CubicRoots.disc b_ c_ d_ := by
    have := guard_ge (e := e) disc h
    simpa only [disc, delta1, delta2, delta3, NF.realX_add, NF.realX_neg, NF.realX_mul, NF.realX_sub, NF.realX_ofFloat,
      hc.h4, CubicRoots.disc, CubicRoots.δ1, CubicRoots.δ2, CubicRoots.δ3] using this
  have hm := CubicRoots.m_nonpos (CubicRoots.disc_eq b_ c_ d_) h'
  simp only [dep2, delta1, NF.realX_add, NF.realX_neg, NF.realX_mul]
  unfold CubicRoots.δ1 at hm
  linarith

/-- row 18: **the two arguments of `cbrtG` in the Cardano branch multiply to `−delta1³`** (names of
    `CubicInverseWhole.out0_cardano`, which shows these ARE the arguments the program passes to `cbrtG`) -/
theorem cardano_cbrt_args_mul (B C D : ℝ) (h : CubicRoots.disc B C D < 0) :
    ((-(CubicRoots.dep1 B C D) + Real.sqrt (-(CubicRoots.disc B C D))) / 2)
      * ((-(CubicRoots.dep1 B C D) - Real.sqrt (-(CubicRoots.disc B C D))) / 2) = -(CubicRoots.δ1 B C)^3 := by
  have hs := Real.mul_self_sqrt (show 0 ≤ -(CubicRoots.disc B C D) by linarith)
  have hd := CubicRoots.disc_eq B C D
  nlinarith

/-- row 18, **finding**: in the Cardano branch one of the two `log |x|` of `cbrtG` is `log 0` EXACTLY when `delta1 = 0`
    (and then the program relies on `sign 0 · exp (log 0 / 3) = 0`).  Concrete valid input: one bin (`K = 1`, any accepted
    box, `uw = uh = [0]`), `udl = −log 6`, `udr = log (4/3)`, i.e. `sigmoid udl = 1/7`, `sigmoid udr = 4/7`: then
    `s = 1`, `d0 = 3/7`, `d1 = 12/7` (both inside `(0, 3s)`), `a = 1/7`, `b = c = 3/7`, the derivative is `(3/7)(u+1)²`,
    `b_ = c_ = 1`, `delta1 = 0`, `|a|·w³ = 1/7` is not below `thr·h = 10⁻³` (no fallback), `delta2 = −(1 + 7y')`,
    `disc = −delta2² < 0` for EVERY `y' ∈ [0,1]`: the Cardano branch is selected on the whole domain and its second
    `cbrtG` argument `(−dep1 − sqrt(−disc))/2` is `0`.  This configuration is proved below: `valid_example1`,
    `cardano_log_zero_example`; the equivalence here is the general statement. -/
theorem cardano_cbrt_arg_zero_iff (B C D : ℝ) (h : CubicRoots.disc B C D < 0) :
    ((-(CubicRoots.dep1 B C D) + Real.sqrt (-(CubicRoots.disc B C D))) / 2 = 0 ∨
      (-(CubicRoots.dep1 B C D) - Real.sqrt (-(CubicRoots.disc B C D))) / 2 = 0) ↔ CubicRoots.δ1 B C = 0 := by
  rw [← mul_eq_zero, cardano_cbrt_args_mul B C D h, neg_eq_zero, pow_eq_zero_iff (by norm_num)]

/-- the `log` of `cbrtG` (Spline:285) is in domain exactly off zero -/
theorem cbrt_log_arg_pos_iff (x : ℝ) : 0 < (NF.realX e).abs x ↔ x ≠ 0 := by
  rw [NF.realX_abs]; exact abs_pos

/-- row 12, **finding** (audit C17 finding 3, F24/F25): `ia` can be `0` at an accepted configuration.  In
    `CubicInverseWhole.valid_exampleI` with `udl = udr = −log 2` (the spline is the identity) both bins are linear … -/
theorem ia_zero_example (k : ℕ) (hk : k < 2) :
    aK eI cNV [0, 0] [0, 0] (-Real.log 2) (-Real.log 2) k = 0 := by
  have hk' : k = 0 ∨ k = 1 := by omega
  rcases hk' with rfl | rfl
  · rw [ex_aK0, sigmoid_neg_log2]; norm_num
  · rw [ex_aK1, sigmoid_neg_log2]; norm_num

/-- … so on EVERY in-domain input `y ∈ [0,1]` the gathered `ia` of the selected bin is `0` and the three divisions
    `ib/ia`, `ic/ia`, `(id − y')/ia` of Spline:346-348 are divisions by zero — while the program returns `.ok` and a
    positive log-det argument (`cubic_inverse_well_defined_partial`): the result is rescued by the fallback to the
    quadratic root and the clamp into the bin, not by the operations being in domain. -/
theorem ia_zero_all_inputs (y : ℝ) (h0 : 0 ≤ y) (h1 : y ≤ 1) :
    aK eI cNV [0, 0] [0, 0] (-Real.log 2) (-Real.log 2) (idxH eI cNV [0, 0] (yn eI cNV y)) = 0 ∧
    (NF.realX eI).div (bK eI cNV [0, 0] [0, 0] (-Real.log 2) (-Real.log 2) (idxH eI cNV [0, 0] (yn eI cNV y)))
      (aK eI cNV [0, 0] [0, 0] (-Real.log 2) (-Real.log 2) (idxH eI cNV [0, 0] (yn eI cNV y))) = 0 := by
  have hw := cubic_inverse_well_defined_partial valid_exampleI (-Real.log 2) (-Real.log 2) y
    (by rw [ex_bottom]; exact h0) (by rw [ex_top]; exact h1)
  have hz := ia_zero_example _ (by simpa using hw.idx_lt)
  exact ⟨hz, by rw [hz, NF.realX_div, div_zero]⟩

/-! ### row 18, the concrete configuration: one bin, `sigmoid udl = 1/7`, `sigmoid udr = 4/7` -/

private theorem q0 : codeI 0.0 = 0 := by decide +kernel
private theorem q1 : codeI 1.0 = 8 := by decide +kernel
private theorem qh : codeI 0.5 = 6 := by decide +kernel
private theorem qseps : codeI 1e-6 = 8 := by decide +kernel
private theorem qc : codeI ((1:Float) - 0.0 * (1:Nat).toFloat) = 8 := by decide +kernel
private theorem qd : codeI ((1.0:Float) - 0.0) = 8 := by decide +kernel
private theorem qg : ¬ ((0.0:Float) * (1:Nat).toFloat > 1.0) := by decide +kernel

/-- a ONE-bin accepted configuration on the unit box -/
theorem valid_example1 : CubicValid eI cNV [0] [0] where
  hK := by simp
  hlenh := rfl
  hgW := qg
  hgH := qg
  hmW0 := by simp [eI, cNV, q0, tableI]
  hcW := by simp [eI, cNV, q0, qc, tableI]
  hmWK := by simp [eI, cNV, q0, tableI]
  hmH0 := by simp [eI, cNV, q0, tableI]
  hcH := by simp [eI, cNV, q0, qc, tableI]
  hmHK := by simp [eI, cNV, q0, tableI]
  hlr := by simp [eI, cNV, q0, q1, tableI]
  hdlr := by simp [eI, cNV, q0, q1, qd, tableI]
  hbt := by simp [eI, cNV, q0, q1, tableI]
  hdbt := by simp [eI, cNV, q0, q1, qd, tableI]
  hseps := by simp [eI, cNV, qseps, tableI]
  hhalf := by simp [eI, qh, tableI]

theorem ex1_wv : wv eI cNV [0] 0 = 1 := by
  have h := cws_succ valid_example1 0 (by simp)
  have hl := cws_last valid_example1
  simp only [List.length_cons, List.length_nil, zero_add] at hl
  rw [zero_add, hl, cws_zero valid_example1] at h
  linarith

theorem ex1_hv : CubicWhole.hv eI cNV [0] 0 = 1 := ex1_wv

theorem ex1_sv : sv eI cNV [0] [0] 0 = 1 := by
  rw [sv_eq valid_example1 0 (by simp), ex1_hv, ex1_wv]; norm_num

theorem sigmoid_neg_log6 : (NF.realX eI).sigmoid (-Real.log 6) = 1/7 := by
  rw [NF.realX_sigmoid, neg_neg, Real.exp_log (by norm_num)]; norm_num

theorem sigmoid_log43 : (NF.realX eI).sigmoid (Real.log (4/3)) = 4/7 := by
  rw [NF.realX_sigmoid, Real.exp_neg, Real.exp_log (by norm_num)]; norm_num

theorem ex1_dv0 : dv eI cNV [0] [0] (-Real.log 6) (Real.log (4/3)) 0 = 3/7 := by
  rw [dv_end_left, ex1_sv, sigmoid_neg_log6]; norm_num

theorem ex1_dv1 : dv eI cNV [0] [0] (-Real.log 6) (Real.log (4/3)) 1 = 12/7 := by
  have := dv_end_right (udl := -Real.log 6) (udr := Real.log (4/3)) valid_example1
  simp only [List.length_cons, List.length_nil, zero_add, Nat.sub_self] at this
  rw [this, ex1_sv, sigmoid_log43]; norm_num

theorem ex1_aK : aK eI cNV [0] [0] (-Real.log 6) (Real.log (4/3)) 0 = 1/7 := by
  unfold aK; rw [zero_add, ex1_dv0, ex1_dv1, ex1_sv, ex1_wv]; norm_num

theorem ex1_bK : bK eI cNV [0] [0] (-Real.log 6) (Real.log (4/3)) 0 = 3/7 := by
  unfold bK; rw [zero_add, ex1_dv0, ex1_dv1, ex1_sv, ex1_wv]; norm_num

/-- row 18, **finding, concrete**: at the accepted one-bin configuration `valid_example1` with `udl = −log 6`,
    `udr = log (4/3)`, for EVERY in-domain `y ∈ [0,1]`: the "almost quadratic" fallback is NOT taken, the discriminant is
    negative (so `out0` is the Cardano branch, `CubicInverseWhole.out0_cardano`), and `delta1 = 0` — hence, by
    `cardano_cbrt_arg_zero_iff`, one of the two `cbrtG` arguments is `0` and the program forms `log |0|`. -/
theorem cardano_log_zero_example (y : ℝ) (h0 : 0 ≤ y) (h1 : y ≤ 1) :
    let i := idxH eI cNV [0] (yn eI cNV y)
    let ia := aK eI cNV [0] [0] (-Real.log 6) (Real.log (4/3)) i
    let ib := bK eI cNV [0] [0] (-Real.log 6) (Real.log (4/3)) i
    let ic := dv eI cNV [0] [0] (-Real.log 6) (Real.log (4/3)) i
    let id := chs eI cNV [0] i
    fallback (NF.realX eI) cNV ia (cws eI cNV [0] i) (cws eI cNV [0] (i+1)) (CubicWhole.hv eI cNV [0] i) = false ∧
    CubicRoots.disc (ib/ia/3) (ic/ia/3) ((id - yn eI cNV y)/ia) < 0 ∧
    ((-(CubicRoots.dep1 (ib/ia/3) (ic/ia/3) ((id - yn eI cNV y)/ia))
        + Real.sqrt (-(CubicRoots.disc (ib/ia/3) (ic/ia/3) ((id - yn eI cNV y)/ia)))) / 2 = 0 ∨
     (-(CubicRoots.dep1 (ib/ia/3) (ic/ia/3) ((id - yn eI cNV y)/ia))
        - Real.sqrt (-(CubicRoots.disc (ib/ia/3) (ic/ia/3) ((id - yn eI cNV y)/ia)))) / 2 = 0) := by
  intro i ia ib ic id
  obtain ⟨ht0, ht1⟩ := yn_unit valid_example1 y (by rw [ex_bottom]; exact h0) (by rw [ex_top]; exact h1)
  obtain ⟨hiK, _, _, _⟩ := selH valid_example1 (yn eI cNV y) ht0 ht1
  have hi : i = 0 := by
    have : i < 1 := by simpa using hiK
    omega
  have hcl := cws_last valid_example1
  simp only [List.length_cons, List.length_nil, zero_add] at hcl
  have hdisc : CubicRoots.disc (ib/ia/3) (ic/ia/3) ((id - yn eI cNV y)/ia) < 0 ∧
      CubicRoots.δ1 (ib/ia/3) (ic/ia/3) = 0 := by
    simp only [ia, ib, ic, id, hi, ex1_aK, ex1_bK, ex1_dv0, chs_zero valid_example1]
    unfold CubicRoots.disc CubicRoots.δ1 CubicRoots.δ2 CubicRoots.δ3
    constructor
    · nlinarith
    · norm_num
  refine ⟨?_, hdisc.1, (cardano_cbrt_arg_zero_iff _ _ _ hdisc.1).mpr hdisc.2⟩
  rw [fallback_eq]
  simp only [ia, hi, ex1_aK, zero_add, hcl, cws_zero valid_example1, ex1_hv, ex_thr]
  norm_num

end
end NF.WellDefined.Cubic
