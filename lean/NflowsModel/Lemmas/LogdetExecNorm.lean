import NflowsModel.Core.Norm
import NflowsModel.Real.RealX
import NflowsModel.Lemmas.NormMachine
import Mathlib.Analysis.Calculus.FDeriv.Prod
import Mathlib.Analysis.Calculus.FDeriv.Add
import Mathlib.Analysis.Calculus.FDeriv.Mul
import Mathlib.Analysis.Calculus.Deriv.Mul
import Mathlib.Analysis.Calculus.Deriv.Add
import Mathlib.LinearAlgebra.Matrix.ToLin
import Mathlib.LinearAlgebra.Determinant
import Mathlib.Topology.Algebra.Module.FiniteDimension
import Mathlib.Analysis.SpecialFunctions.Log.Basic
import Mathlib.Analysis.SpecialFunctions.Sqrt
import Mathlib.Analysis.SpecialFunctions.Pow.Real
import Mathlib.Algebra.BigOperators.Fin
import Mathlib.Tactic
/-!
# Lemmas/LogdetExecNorm — the log-abs-det RETURNED by the executed ActNorm / BatchNorm is `log |det J|` of the
executed map (C01, with the `H·W` factor of the 4-D ActNorm), and inverse ∘ forward is the identity (C02)

Everything is about the executed list programs of `Core/Norm.lean` (`actApply`, `actUnapply`, `actLogdet`,
`bnNormalise`, `bnDenormalise`, `bnLogdet`) instantiated at the real semantics `NF.realX e`, for every `e`.

* §0 generic: the diagonal continuous linear map over any finite index type, its determinant, the Fréchet
  derivative of a coordinatewise affine map, `log |det| = Σ` of the log-slopes.
* §1 `actLogdet_d2`, `actLogdet_d4` (+ inverse direction, entry forms): the returned list in closed form.
* §2 `actApply_d2`, `actApply_d4` (+ entry forms): the executed forward map, element by element.
* §3 C01 headlines `actnorm_d2_logdet_is_log_abs_det`, `actnorm_d4_logdet_is_log_abs_det`: on batches of
  `Fin F → ℝ` rows / `Fin F × Fin (h*w) → ℝ` images (encoded by `List.ofFn`), the executed output is the encoded image
  of a map with `HasFDerivAt … (diagCLM …)`, and every returned log-det entry is `log |det|` of that derivative;
  `dropped_HW_factor_detected`: the 2-D value is NOT the 4-D value when `h*w ≠ 1`, `Σ ls ≠ 0`.
* §4 C02 for ActNorm: `actUnapply ∘ actApply = id` and `actApply ∘ actUnapply = id` on well-shaped batches; the
  inverse log-det of the output is the negated forward log-det.
* §5 BatchNorm (the statistics are arguments: evaluation mode uses the running ones, training mode the batch ones):
  closed form of `bnLogdet`, element form of `bnNormalise`, positivity of `bnWeight`, `log |slope|`, C01 headline
  `batchnorm_logdet_is_log_abs_det`, round trips.

FINDINGS.  Nothing false of the model was found for the property itself.  Forced hypotheses, each with a proved
counterexample when dropped:
* `log_scale.length = F` (always true in the library, where the parameter has shape `[features]`; the model's state is
  an unconstrained list): with a longer list the returned value sums entries the map never uses —
  `actLogdet_length_hypothesis_forced` (`F = 1`, `log_scale = [0, 1]`: returned `1`, `log |det J| = 0`).
* BatchNorm `0 < var_j + eps`: at `var_j + eps = 0` the executed slope is `w / sqrt 0 = w / 0 = 0` over ℝ (torch: `inf`)
  and `log |slope| ≠ log w - ½ log 0` — `log_abs_slope_fails_at_zero`.
* BatchNorm `weight_j ≠ 0` (`bnWeight_pos`: automatic when `0 ≤ eps`).  Over ℝ the sign of the weight is immaterial
  because `Real.log` is even; torch returns NaN for a negative weight (possible only with `eps < 0`).
-/
open NF NF.Norm

namespace LogdetExec

noncomputable section

/-! ## 0. Diagonal maps over a finite index type -/

section Diag
variable {ι : Type} [Fintype ι] [DecidableEq ι]

/-- the diagonal continuous linear map with diagonal `c` -/
def diagCLM (c : ι → ℝ) : (ι → ℝ) →L[ℝ] (ι → ℝ) :=
  ContinuousLinearMap.pi fun i => c i • ContinuousLinearMap.proj i

omit [Fintype ι] [DecidableEq ι] in
theorem diagCLM_apply (c : ι → ℝ) (v : ι → ℝ) (i : ι) : diagCLM c v i = c i * v i := by
  simp [diagCLM]

/-- as a linear map it is the matrix `Matrix.diagonal c` -/
theorem diagCLM_toLin (c : ι → ℝ) :
    ((diagCLM c : (ι → ℝ) →L[ℝ] (ι → ℝ)) : (ι → ℝ) →ₗ[ℝ] (ι → ℝ)) = Matrix.toLin' (Matrix.diagonal c) := by
  apply LinearMap.ext
  intro v
  funext i
  simp [diagCLM_apply, Matrix.mulVec_diagonal]

/-- the determinant of a diagonal map is the product of the diagonal -/
theorem diagCLM_det (c : ι → ℝ) : (diagCLM c).det = ∏ i, c i := by
  rw [ContinuousLinearMap.det, diagCLM_toLin, LinearMap.det_toLin', Matrix.det_diagonal]

omit [DecidableEq ι] in
/-- a coordinatewise affine map `x ↦ (a i * x i + s i)_i` has the diagonal map `diag a` as Fréchet derivative -/
theorem hasFDerivAt_coordAffine (a s : ι → ℝ) (x : ι → ℝ) :
    HasFDerivAt (fun (y : ι → ℝ) (i : ι) => a i * y i + s i) (diagCLM a) x := by
  rw [hasFDerivAt_pi']
  intro i
  have h1 : HasFDerivAt (fun y : ι → ℝ => y i) (ContinuousLinearMap.proj (R := ℝ) (φ := fun _ : ι => ℝ) i) x :=
    (ContinuousLinearMap.proj (R := ℝ) (φ := fun _ : ι => ℝ) i).hasFDerivAt
  have h2 := (h1.const_mul (a i)).add_const (s i)
  convert h2 using 1
  ext v
  simp [diagCLM_apply]

/-- `log |det diag(exp l)| = Σ l` -/
theorem log_abs_det_diag_exp (l : ι → ℝ) :
    Real.log |(diagCLM fun i => Real.exp (l i)).det| = ∑ i, l i := by
  rw [diagCLM_det, ← Real.exp_sum, abs_of_pos (Real.exp_pos _), Real.log_exp]

/-- `log |det diag(c)| = Σ log |c i|` for a diagonal without zeros -/
theorem log_abs_det_diag (c : ι → ℝ) (hc : ∀ i, c i ≠ 0) :
    Real.log |(diagCLM c).det| = ∑ i, Real.log |c i| := by
  rw [diagCLM_det, Finset.abs_prod, Real.log_prod]
  intro i _
  exact abs_ne_zero.mpr (hc i)

end Diag

/-- `Σ_{j : Fin F} l.getD j 0 = l.sum` for a list of length `F` -/
theorem sum_fin_getD (l : List ℝ) (F : ℕ) (h : l.length = F) : ∑ j : Fin F, l.getD j 0 = l.sum := by
  subst h
  rw [← List.sum_ofFn]
  congr 1
  apply List.ext_getElem (by simp)
  intro i h1 h2
  simp [List.getD_eq_getElem?_getD]

/-- `Σ_{j < F} g j` as the executed `sumG` over `List.range F` -/
theorem sum_map_range (g : ℕ → ℝ) (F : ℕ) : ((List.range F).map g).sum = ∑ j : Fin F, g j := by
  rw [Fin.sum_univ_eq_sum_range (fun j => g j) F, Finset.sum_range, ← List.sum_ofFn]
  congr 1
  apply List.ext_getElem (by simp)
  intro i h1 h2
  simp

variable (e : Float → ℝ)

/-! ## 1. The returned log-abs-det of ActNorm, in closed form -/

/-- 2-D forward: `B` copies of `Σ log_scale` -/
theorem actLogdet_d2 (ls : List ℝ) (rows : List (List ℝ)) :
    actLogdet (NF.realX e) ls (.d2 rows) false = List.replicate rows.length ls.sum := by
  simp [actLogdet, Batch.size, sumG_real]

/-- 4-D forward: `B` copies of `(h*w) · Σ log_scale` -/
theorem actLogdet_d4 (ls : List ℝ) (h w : ℕ) (imgs : List (List (List ℝ))) :
    actLogdet (NF.realX e) ls (.d4 h w imgs) false = List.replicate imgs.length (((h * w : ℕ) : ℝ) * ls.sum) := by
  simp [actLogdet, Batch.size, sumG_real]

/-- 2-D inverse: the negation -/
theorem actLogdet_d2_inv (ls : List ℝ) (rows : List (List ℝ)) :
    actLogdet (NF.realX e) ls (.d2 rows) true = List.replicate rows.length (-ls.sum) := by
  simp [actLogdet, Batch.size, sumG_real]

/-- 4-D inverse: the negation -/
theorem actLogdet_d4_inv (ls : List ℝ) (h w : ℕ) (imgs : List (List (List ℝ))) :
    actLogdet (NF.realX e) ls (.d4 h w imgs) true = List.replicate imgs.length (-(((h * w : ℕ) : ℝ) * ls.sum)) := by
  simp [actLogdet, Batch.size, sumG_real]

/-- in every case: the inverse-direction list is the entrywise negation of the forward-direction list -/
theorem actLogdet_inv_eq_neg (ls : List ℝ) (b : Batch ℝ) :
    actLogdet (NF.realX e) ls b true = (actLogdet (NF.realX e) ls b false).map (fun v => -v) := by
  simp [actLogdet]

/-- entry form, 2-D: every batch item gets `Σ log_scale` -/
theorem actLogdet_d2_getElem? (ls : List ℝ) (rows : List (List ℝ)) {i : ℕ} (hi : i < rows.length) :
    (actLogdet (NF.realX e) ls (.d2 rows) false)[i]? = some ls.sum := by
  rw [actLogdet_d2]; simp [hi]

/-- entry form, 4-D: every batch item gets `(h*w) · Σ log_scale` -/
theorem actLogdet_d4_getElem? (ls : List ℝ) (h w : ℕ) (imgs : List (List (List ℝ))) {i : ℕ} (hi : i < imgs.length) :
    (actLogdet (NF.realX e) ls (.d4 h w imgs) false)[i]? = some (((h * w : ℕ) : ℝ) * ls.sum) := by
  rw [actLogdet_d4]; simp [hi]

/-- the log-det list has one entry per batch item -/
theorem actLogdet_length (ls : List ℝ) (b : Batch ℝ) (inv : Bool) :
    (actLogdet (NF.realX e) ls b inv).length = b.size := by
  simp [actLogdet]

/-! ## 2. The executed forward map of ActNorm, element by element -/

/-- the scalar map of feature / channel `j` : `x ↦ exp(log_scale_j) · x + shift_j` -/
def actEl (ls sh : List ℝ) (j : ℕ) (x : ℝ) : ℝ := Real.exp (ls.getD j 0) * x + sh.getD j 0
/-- its inverse `y ↦ (y - shift_j) / exp(log_scale_j)` -/
def actElInv (ls sh : List ℝ) (j : ℕ) (y : ℝ) : ℝ := (y - sh.getD j 0) / Real.exp (ls.getD j 0)

theorem actApply_eq_mapCh (F : ℕ) (ls sh : List ℝ) (b : Batch ℝ) :
    actApply (NF.realX e) F ls sh b = b.mapCh (NF.realX e) F (actEl ls sh) := by
  simp only [actApply, realX_add, realX_mul, realX_exp, realX_zero]
  rfl

theorem actUnapply_eq_mapCh (F : ℕ) (ls sh : List ℝ) (b : Batch ℝ) :
    actUnapply (NF.realX e) F ls sh b = b.mapCh (NF.realX e) F (actElInv ls sh) := by
  simp only [actUnapply, realX_sub, realX_div, realX_exp, realX_zero]
  rfl

/-- 2-D: every output row has `F` entries, entry `j` is `exp(ls_j) · x_j + sh_j` (a missing input reads `0`) -/
theorem actApply_d2 (F : ℕ) (ls sh : List ℝ) (rows : List (List ℝ)) :
    actApply (NF.realX e) F ls sh (.d2 rows) =
      .d2 (rows.map fun r => (List.range F).map fun j => Real.exp (ls.getD j 0) * r.getD j 0 + sh.getD j 0) := by
  simp only [actApply, Batch.mapCh, realX_add, realX_mul, realX_exp, realX_zero]

/-- 4-D: every output image has `F` channels, every pixel of channel `c` is `exp(ls_c) · x + sh_c` -/
theorem actApply_d4 (F : ℕ) (ls sh : List ℝ) (h w : ℕ) (imgs : List (List (List ℝ))) :
    actApply (NF.realX e) F ls sh (.d4 h w imgs) =
      .d4 h w (imgs.map fun img => (List.range F).map fun c =>
        (img.getD c []).map fun x => Real.exp (ls.getD c 0) * x + sh.getD c 0) := by
  simp only [actApply, Batch.mapCh, realX_add, realX_mul, realX_exp, realX_zero]

/-- entry form, 2-D -/
theorem actApply_d2_entry (F : ℕ) (ls sh : List ℝ) (rows : List (List ℝ)) {i j : ℕ} (hj : j < F) :
    ∃ out, actApply (NF.realX e) F ls sh (.d2 rows) = .d2 out ∧ out.length = rows.length ∧
      (out.getD i []).getD j 0 =
        if i < rows.length then Real.exp (ls.getD j 0) * (rows.getD i []).getD j 0 + sh.getD j 0 else 0 := by
  refine ⟨_, actApply_d2 e F ls sh rows, by simp, ?_⟩
  by_cases hi : i < rows.length
  · simp [List.getD_eq_getElem?_getD, hi, hj]
  · simp [List.getD_eq_getElem?_getD, hi]

/-- entry form, 4-D: pixel `p` of channel `c` of item `i` -/
theorem actApply_d4_entry (F : ℕ) (ls sh : List ℝ) (h w : ℕ) (imgs : List (List (List ℝ))) {i c p : ℕ}
    (hi : i < imgs.length) (hc : c < F) (hp : p < ((imgs.getD i []).getD c []).length) :
    ∃ out, actApply (NF.realX e) F ls sh (.d4 h w imgs) = .d4 h w out ∧ out.length = imgs.length ∧
      (((out.getD i []).getD c []).getD p 0) =
        Real.exp (ls.getD c 0) * (((imgs.getD i []).getD c []).getD p 0) + sh.getD c 0 := by
  refine ⟨_, actApply_d4 e F ls sh h w imgs, by simp, ?_⟩
  simp only [List.getD_eq_getElem?_getD] at hp ⊢
  simp [hi, hc] at hp ⊢
  simp [hp]

/-! ## 3. C01: the returned entry is `log |det J|` of the executed map -/

/-- a row of `F` features as the executed list -/
def encRow {F : ℕ} (x : Fin F → ℝ) : List ℝ := List.ofFn x
/-- an image of `F` channels with `P` pixels each as the executed nested list -/
def encImg {F P : ℕ} (x : Fin F × Fin P → ℝ) : List (List ℝ) := List.ofFn fun c => List.ofFn fun p => x (c, p)

theorem encRow_getD {F : ℕ} (x : Fin F → ℝ) (j : Fin F) : (encRow x).getD j 0 = x j := by
  simp [encRow, List.getD_eq_getElem?_getD]

theorem encImg_getD {F P : ℕ} (x : Fin F × Fin P → ℝ) (c : Fin F) :
    (encImg x).getD c [] = List.ofFn fun p => x (c, p) := by
  simp [encImg, List.getD_eq_getElem?_getD]

theorem encRow_injective {F : ℕ} : Function.Injective (encRow (F := F)) := List.ofFn_injective

/-- the ActNorm row map on `Fin F → ℝ` -/
def actRowMap {F : ℕ} (ls sh : List ℝ) (x : Fin F → ℝ) : Fin F → ℝ := fun j => actEl ls sh j (x j)
/-- the ActNorm item map on `Fin F × Fin P → ℝ` (channel `c`, pixel `p`) -/
def actImgMap {F P : ℕ} (ls sh : List ℝ) (x : Fin F × Fin P → ℝ) : Fin F × Fin P → ℝ :=
  fun cp => actEl ls sh cp.1 (x cp)

/-- every coordinate map is affine with slope `exp(log_scale_j)` -/
theorem actEl_hasDerivAt (ls sh : List ℝ) (j : ℕ) (x : ℝ) :
    HasDerivAt (actEl ls sh j) (Real.exp (ls.getD j 0)) x := by
  have h := ((hasDerivAt_id' x).const_mul (Real.exp (ls.getD j 0))).add_const (sh.getD j 0)
  rw [mul_one] at h
  exact h

/-- EXECUTED = encoded row map: on a 2-D batch of `F`-rows the executed `actApply` is `actRowMap` row by row -/
theorem actApply_d2_enc {F : ℕ} (ls sh : List ℝ) (xs : List (Fin F → ℝ)) :
    actApply (NF.realX e) F ls sh (.d2 (xs.map encRow)) = .d2 (xs.map fun x => encRow (actRowMap ls sh x)) := by
  rw [actApply_d2, List.map_map]
  congr 1
  apply List.map_congr_left
  intro x _
  simp only [Function.comp, encRow]
  apply List.ext_getElem (by simp)
  intro j h1 h2
  simp only [List.length_map, List.length_range] at h1
  simp [actRowMap, actEl, List.getD_eq_getElem?_getD, h1]

/-- EXECUTED = encoded item map: on a 4-D batch of `F × P` images the executed `actApply` is `actImgMap` item by item
    (the `h`, `w` tags are carried through untouched) -/
theorem actApply_d4_enc {F P : ℕ} (ls sh : List ℝ) (h w : ℕ) (xs : List (Fin F × Fin P → ℝ)) :
    actApply (NF.realX e) F ls sh (.d4 h w (xs.map encImg)) =
      .d4 h w (xs.map fun x => encImg (actImgMap ls sh x)) := by
  rw [actApply_d4, List.map_map]
  congr 1
  apply List.map_congr_left
  intro x _
  simp only [Function.comp]
  apply List.ext_getElem (by simp [encImg])
  intro c h1 h2
  simp only [List.length_map, List.length_range] at h1
  have hc := encImg_getD x ⟨c, h1⟩
  simp only at hc
  simp only [List.getElem_map, List.getElem_range, hc]
  simp only [encImg, List.getElem_ofFn, List.map_ofFn]
  rfl

/-- Fréchet derivative of the row map: the diagonal map `diag(exp log_scale_j)` -/
theorem actRowMap_hasFDerivAt {F : ℕ} (ls sh : List ℝ) (x : Fin F → ℝ) :
    HasFDerivAt (actRowMap (F := F) ls sh) (diagCLM fun j : Fin F => Real.exp (ls.getD j 0)) x :=
  hasFDerivAt_coordAffine (fun j : Fin F => Real.exp (ls.getD j 0)) (fun j : Fin F => sh.getD j 0) x

/-- Fréchet derivative of the item map: the diagonal map whose `(c, p)` entry is `exp log_scale_c` -/
theorem actImgMap_hasFDerivAt {F P : ℕ} (ls sh : List ℝ) (x : Fin F × Fin P → ℝ) :
    HasFDerivAt (actImgMap (F := F) (P := P) ls sh)
      (diagCLM fun cp : Fin F × Fin P => Real.exp (ls.getD cp.1 0)) x :=
  hasFDerivAt_coordAffine (fun cp : Fin F × Fin P => Real.exp (ls.getD cp.1 0))
    (fun cp : Fin F × Fin P => sh.getD cp.1 0) x

/-- 2-D determinant: `det J = exp (Σ log_scale)` and `log |det J| = Σ log_scale` -/
theorem actRow_log_abs_det {F : ℕ} (ls : List ℝ) (hF : ls.length = F) :
    (diagCLM fun j : Fin F => Real.exp (ls.getD j 0)).det = Real.exp ls.sum ∧
    Real.log |(diagCLM fun j : Fin F => Real.exp (ls.getD j 0)).det| = ls.sum := by
  refine ⟨?_, ?_⟩
  · rw [diagCLM_det, ← Real.exp_sum, sum_fin_getD ls F hF]
  · rw [log_abs_det_diag_exp, sum_fin_getD ls F hF]

/-- 4-D determinant, matrix form: the diagonal matrix over the index type `Fin F × Fin P` has determinant
    `(∏_c exp log_scale_c) ^ P = exp (P · Σ log_scale)` -/
theorem actImg_matrix_det {F P : ℕ} (ls : List ℝ) (hF : ls.length = F) :
    (Matrix.diagonal fun cp : Fin F × Fin P => Real.exp (ls.getD cp.1 0)).det
        = (∏ c : Fin F, Real.exp (ls.getD c 0)) ^ P ∧
    (Matrix.diagonal fun cp : Fin F × Fin P => Real.exp (ls.getD cp.1 0)).det = Real.exp ((P : ℝ) * ls.sum) := by
  have h1 : (Matrix.diagonal fun cp : Fin F × Fin P => Real.exp (ls.getD cp.1 0)).det
      = (∏ c : Fin F, Real.exp (ls.getD c 0)) ^ P := by
    rw [Matrix.det_diagonal, Fintype.prod_prod_type]
    simp only [Finset.prod_const, Finset.card_univ, Fintype.card_fin]
    rw [Finset.prod_pow]
  refine ⟨h1, ?_⟩
  rw [h1, ← Real.exp_sum, sum_fin_getD ls F hF, ← Real.exp_nat_mul, mul_comm]

/-- 4-D determinant: `log |det J| = P · Σ log_scale` (`P = h*w` pixels per channel) -/
theorem actImg_log_abs_det {F P : ℕ} (ls : List ℝ) (hF : ls.length = F) :
    (diagCLM fun cp : Fin F × Fin P => Real.exp (ls.getD cp.1 0)).det = Real.exp ((P : ℝ) * ls.sum) ∧
    Real.log |(diagCLM fun cp : Fin F × Fin P => Real.exp (ls.getD cp.1 0)).det| = (P : ℝ) * ls.sum := by
  have h : (diagCLM fun cp : Fin F × Fin P => Real.exp (ls.getD cp.1 0)).det = Real.exp ((P : ℝ) * ls.sum) := by
    rw [diagCLM_det, ← Matrix.det_diagonal]
    exact (actImg_matrix_det ls hF).2
  exact ⟨h, by rw [h, abs_of_pos (Real.exp_pos _), Real.log_exp]⟩

/-- **C01, ActNorm on 2-D inputs.**  For `log_scale` of length `F` and any batch of `F`-rows: the executed forward
    pass returns the encoded images of `actRowMap`, this map is differentiable at every row with derivative `J`, and
    EVERY returned log-abs-det entry equals `log |det J|`. -/
theorem actnorm_d2_logdet_is_log_abs_det {F : ℕ} (ls sh : List ℝ) (hF : ls.length = F) (xs : List (Fin F → ℝ)) :
    actApply (NF.realX e) F ls sh (.d2 (xs.map encRow)) = .d2 (xs.map fun x => encRow (actRowMap ls sh x)) ∧
    ∀ i (hi : i < xs.length), ∃ J : (Fin F → ℝ) →L[ℝ] (Fin F → ℝ),
      HasFDerivAt (actRowMap (F := F) ls sh) J xs[i] ∧
      (actLogdet (NF.realX e) ls (.d2 (xs.map encRow)) false)[i]? = some (Real.log |J.det|) := by
  refine ⟨actApply_d2_enc e ls sh xs, fun i hi => ⟨_, actRowMap_hasFDerivAt ls sh xs[i], ?_⟩⟩
  rw [(actRow_log_abs_det ls hF).2, actLogdet_d2_getElem? e ls _ (by simpa using hi)]

/-- **C01, ActNorm on 4-D inputs (the `H·W` factor).**  For `log_scale` of length `F` and any batch of images with `F`
    channels of `h*w` pixels: the executed forward pass returns the encoded images of `actImgMap`, this map is
    differentiable at every item with derivative `J` (on `ℝ^(F·h·w)`), and EVERY returned log-abs-det entry — the
    value `(h*w) · Σ log_scale` — equals `log |det J|`. -/
theorem actnorm_d4_logdet_is_log_abs_det {F : ℕ} (ls sh : List ℝ) (hF : ls.length = F) (h w : ℕ)
    (xs : List (Fin F × Fin (h * w) → ℝ)) :
    actApply (NF.realX e) F ls sh (.d4 h w (xs.map encImg)) = .d4 h w (xs.map fun x => encImg (actImgMap ls sh x)) ∧
    ∀ i (hi : i < xs.length), ∃ J : (Fin F × Fin (h * w) → ℝ) →L[ℝ] (Fin F × Fin (h * w) → ℝ),
      HasFDerivAt (actImgMap (F := F) (P := h * w) ls sh) J xs[i] ∧
      (actLogdet (NF.realX e) ls (.d4 h w (xs.map encImg)) false)[i]? = some (Real.log |J.det|) := by
  refine ⟨actApply_d4_enc e ls sh h w xs, fun i hi => ⟨_, actImgMap_hasFDerivAt ls sh xs[i], ?_⟩⟩
  rw [(actImg_log_abs_det ls hF).2, actLogdet_d4_getElem? e ls h w _ (by simpa using hi)]

/-- **Mutant remark.**  A 4-D log-det computed without the `H·W` factor (i.e. the 2-D value `Σ log_scale`) is not the
    value the model returns, hence not `log |det J|`, as soon as `h*w ≠ 1` and `Σ log_scale ≠ 0`. -/
theorem dropped_HW_factor_detected (ls : List ℝ) (h w : ℕ) (hw : h * w ≠ 1) (hs : ls.sum ≠ 0) :
    ls.sum ≠ ((h * w : ℕ) : ℝ) * ls.sum := by
  intro hEq
  have h1 : (((h * w : ℕ) : ℝ) - 1) * ls.sum = 0 := by linarith
  rcases mul_eq_zero.mp h1 with h2 | h2
  · apply hw
    have : ((h * w : ℕ) : ℝ) = 1 := by linarith
    exact_mod_cast this
  · exact hs h2

/-- the same on the returned lists: for a non-empty batch the 2-D program's list and the 4-D program's list differ -/
theorem actLogdet_d2_ne_d4 (ls : List ℝ) (h w : ℕ) (hw : h * w ≠ 1) (hs : ls.sum ≠ 0)
    (rows : List (List ℝ)) (imgs : List (List (List ℝ))) (hB : imgs ≠ []) :
    actLogdet (NF.realX e) ls (.d2 rows) false ≠ actLogdet (NF.realX e) ls (.d4 h w imgs) false := by
  intro hEq
  rw [actLogdet_d2, actLogdet_d4] at hEq
  have hlen : rows.length = imgs.length := by simpa using congrArg List.length hEq
  have hpos : 0 < imgs.length := List.length_pos_iff.mpr hB
  have := congrArg (fun l => l[0]?) hEq
  simp [hlen, hpos] at this
  exact dropped_HW_factor_detected ls h w hw hs (by push_cast; exact this)

/-- the hypothesis `log_scale.length = F` of the C01 theorems is forced in the model: with `F = 1` and the (ill-shaped)
    parameter list `[0, 1]` the returned entry is `1` while `log |det J| = 0` -/
theorem actLogdet_length_hypothesis_forced :
    (actLogdet (NF.realX e) [0, 1] (.d2 [[5]]) false)[0]? = some 1 ∧
    Real.log |(diagCLM fun j : Fin 1 => Real.exp (([0, 1] : List ℝ).getD j 0)).det| = 0 := by
  refine ⟨?_, ?_⟩
  · rw [actLogdet_d2]; norm_num
  · rw [log_abs_det_diag_exp]; simp

/-! ## 4. C02 for ActNorm: inverse ∘ forward = id, and the inverse log-det is the negated forward log-det -/

/-- a batch whose rows / images have exactly `F` features / channels (pixel lists are arbitrary) -/
def WellShaped (F : ℕ) : Batch ℝ → Prop
  | .d2 rows => ∀ r ∈ rows, r.length = F
  | .d4 _ _ imgs => ∀ img ∈ imgs, img.length = F
  | .bad _ => True

theorem actElInv_actEl (ls sh : List ℝ) (j : ℕ) (x : ℝ) : actElInv ls sh j (actEl ls sh j x) = x := by
  simp only [actElInv, actEl]
  field_simp
  ring

theorem actEl_actElInv (ls sh : List ℝ) (j : ℕ) (y : ℝ) : actEl ls sh j (actElInv ls sh j y) = y := by
  simp only [actElInv, actEl]
  field_simp
  ring

/-- two per-feature maps in a row are the per-feature composition (no shape condition) -/
theorem mapCh_mapCh (F : ℕ) (f g : ℕ → ℝ → ℝ) (b : Batch ℝ) :
    (b.mapCh (NF.realX e) F f).mapCh (NF.realX e) F g = b.mapCh (NF.realX e) F (fun j x => g j (f j x)) := by
  cases b with
  | bad d => rfl
  | d2 rows =>
    simp only [Batch.mapCh, List.map_map]
    congr 1
    apply List.map_congr_left
    intro r _
    apply List.map_congr_left
    intro j hj
    simp only [getD_map_range _ _ (List.mem_range.mp hj)]
  | d4 h w imgs =>
    simp only [Batch.mapCh, List.map_map]
    congr 1
    apply List.map_congr_left
    intro img _
    apply List.map_congr_left
    intro c hc
    simp only [getD_map_range _ _ (List.mem_range.mp hc), List.map_map]
    rfl

/-- the per-feature identity map is the identity on well-shaped batches -/
theorem mapCh_id (F : ℕ) (f : ℕ → ℝ → ℝ) (hf : ∀ j x, f j x = x) (b : Batch ℝ) (hb : WellShaped F b) :
    b.mapCh (NF.realX e) F f = b := by
  cases b with
  | bad d => rfl
  | d2 rows =>
    simp only [Batch.mapCh, hf]
    congr 1
    conv_rhs => rw [← List.map_id rows]
    apply List.map_congr_left
    intro r hr
    have hl := hb r hr
    apply List.ext_getElem (by simp [hl])
    intro j h1 h2
    have h2' : j < r.length := h2
    simp [List.getD_eq_getElem?_getD, List.getElem?_eq_getElem h2']
  | d4 h w imgs =>
    simp only [Batch.mapCh]
    congr 1
    conv_rhs => rw [← List.map_id imgs]
    apply List.map_congr_left
    intro img hi
    have hl := hb img hi
    apply List.ext_getElem (by simp [hl])
    intro c h1 h2
    have : (fun x => f c x) = id := funext (hf c)
    have h2' : c < img.length := h2
    simp [List.getD_eq_getElem?_getD, List.getElem?_eq_getElem h2', this]

/-- **C02, ActNorm (executed).**  On a well-shaped batch (2-D or 4-D) `actUnapply` undoes `actApply` exactly,
    for every `log_scale`, `shift` (`exp ≠ 0`). -/
theorem actUnapply_actApply (F : ℕ) (ls sh : List ℝ) (b : Batch ℝ) (hb : WellShaped F b) :
    actUnapply (NF.realX e) F ls sh (actApply (NF.realX e) F ls sh b) = b := by
  rw [actApply_eq_mapCh, actUnapply_eq_mapCh, mapCh_mapCh]
  exact mapCh_id e F _ (fun j x => actElInv_actEl ls sh j x) b hb

/-- forward ∘ inverse = id as well -/
theorem actApply_actUnapply (F : ℕ) (ls sh : List ℝ) (b : Batch ℝ) (hb : WellShaped F b) :
    actApply (NF.realX e) F ls sh (actUnapply (NF.realX e) F ls sh b) = b := by
  rw [actApply_eq_mapCh, actUnapply_eq_mapCh, mapCh_mapCh]
  exact mapCh_id e F _ (fun j x => actEl_actElInv ls sh j x) b hb

/-- the log-det depends on the batch only through its kind, `h*w` and its size, all preserved by `mapCh` -/
theorem actLogdet_mapCh (F : ℕ) (f : ℕ → ℝ → ℝ) (ls : List ℝ) (b : Batch ℝ) (inv : Bool) :
    actLogdet (NF.realX e) ls (b.mapCh (NF.realX e) F f) inv = actLogdet (NF.realX e) ls b inv := by
  cases b <;> simp [actLogdet, Batch.mapCh, Batch.size]

/-- **C02, log-det part.**  The inverse-direction log-det evaluated at the forward OUTPUT is the entrywise negation of
    the forward log-det (no shape condition). -/
theorem actLogdet_inverse_at_output (F : ℕ) (ls sh : List ℝ) (b : Batch ℝ) :
    actLogdet (NF.realX e) ls (actApply (NF.realX e) F ls sh b) true =
      (actLogdet (NF.realX e) ls b false).map (fun v => -v) := by
  rw [actApply_eq_mapCh, actLogdet_mapCh, actLogdet_inv_eq_neg]

/-- **C02 on the machine.**  In a state that will not (re)initialise (already initialised, or evaluation mode): if
    `forward` on a well-shaped batch returns `(y, ld)` then `inverse` on `y` returns `(b, -ld)` and the state is
    unchanged by both calls. -/
theorem actStep_fwd_inv (F : ℕ) (s : ActSt ℝ) (hs : s.initialized = true ∨ s.training = false)
    (b : Batch ℝ) (hv : b.valid24 = true) (hb : WellShaped F b) :
    ∃ y ld, actStep (NF.realX e) F s (.fwd b) = (s, some (.ok (y, ld))) ∧
      actStep (NF.realX e) F s (.inv y) = (s, some (.ok (b, ld.map fun v => -v))) := by
  have hno : (s.training && !s.initialized) = false := by
    rcases hs with h | h <;> simp [h]
  refine ⟨actApply (NF.realX e) F s.logScale s.shift b, actLogdet (NF.realX e) s.logScale b false, ?_, ?_⟩
  · simp [actStep, hv, hno]
  · have hv' : (actApply (NF.realX e) F s.logScale s.shift b).valid24 = true := by
      cases b <;> simp_all [actApply, Batch.mapCh, Batch.valid24]
    simp only [actStep, hv', Bool.not_true, Bool.false_eq_true, if_false]
    rw [actUnapply_actApply e F _ _ b hb, actLogdet_inverse_at_output]

/-! ## 5. BatchNorm: the returned log-abs-det, the executed map, C01 and C02 -/

/-- `softplus` (with torch's threshold) is positive -/
theorem softplus_pos (u : ℝ) : 0 < (NF.realX e).softplus u := by
  rw [realX_softplus]
  split_ifs with h
  · linarith
  · apply Real.log_pos
    have := Real.exp_pos u
    linarith

/-- `weight = softplus(u) + eps`, on ℝ -/
theorem bnWeight_real (cfg : BNCfg ℝ) (uw : List ℝ) (j : ℕ) :
    bnWeight (NF.realX e) cfg uw j = (NF.realX e).softplus (uw.getD j 0) + cfg.eps := by
  simp only [bnWeight, realX_add, realX_zero]

/-- the weight is positive as soon as `0 ≤ eps` (the library default is `eps = 1e-5`) -/
theorem bnWeight_pos (cfg : BNCfg ℝ) (heps : 0 ≤ cfg.eps) (uw : List ℝ) (j : ℕ) :
    0 < bnWeight (NF.realX e) cfg uw j := by
  rw [bnWeight_real]
  have := softplus_pos e (uw.getD j 0)
  linarith

/-- forward direction: `B` copies of `Σ_j (log weight_j - ½ log (var_j + eps))` -/
theorem bnLogdet_fwd (cfg : BNCfg ℝ) (F : ℕ) (var uw : List ℝ) (B : ℕ) :
    bnLogdet (NF.realX e) cfg F var uw B false = List.replicate B
      (∑ j : Fin F, (Real.log (bnWeight (NF.realX e) cfg uw j) - 1 / 2 * Real.log (var.getD j 0 + cfg.eps))) := by
  simp only [bnLogdet, sumG_real, sum_map_range, Bool.false_eq_true, if_false, realX_sub, realX_mul, realX_log,
    realX_add, realX_ofRat, realX_zero]
  norm_num

/-- inverse direction: `B` copies of `Σ_j (-log weight_j + ½ log (var_j + eps))` -/
theorem bnLogdet_inv (cfg : BNCfg ℝ) (F : ℕ) (var uw : List ℝ) (B : ℕ) :
    bnLogdet (NF.realX e) cfg F var uw B true = List.replicate B
      (∑ j : Fin F, (-Real.log (bnWeight (NF.realX e) cfg uw j) + 1 / 2 * Real.log (var.getD j 0 + cfg.eps))) := by
  simp only [bnLogdet, sumG_real, sum_map_range, if_true, realX_neg, realX_mul, realX_log,
    realX_add, realX_ofRat, realX_zero]
  norm_num

/-- the inverse-direction list is the entrywise negation of the forward-direction list -/
theorem bnLogdet_inv_eq_neg (cfg : BNCfg ℝ) (F : ℕ) (var uw : List ℝ) (B : ℕ) :
    bnLogdet (NF.realX e) cfg F var uw B true = (bnLogdet (NF.realX e) cfg F var uw B false).map (fun v => -v) := by
  rw [bnLogdet_fwd, bnLogdet_inv, List.map_replicate, ← Finset.sum_neg_distrib]
  congr 2
  funext j
  ring

/-- the scalar map of feature `j` : `x ↦ weight_j · ((x - mean_j) / sqrt (var_j + eps)) + bias_j` -/
def bnEl (cfg : BNCfg ℝ) (mean var uw bias : List ℝ) (j : ℕ) (x : ℝ) : ℝ :=
  bnWeight (NF.realX e) cfg uw j * ((x - mean.getD j 0) / Real.sqrt (var.getD j 0 + cfg.eps)) + bias.getD j 0
/-- its inverse `y ↦ sqrt (var_j + eps) · ((y - bias_j) / weight_j) + mean_j` -/
def bnElInv (cfg : BNCfg ℝ) (mean var uw bias : List ℝ) (j : ℕ) (y : ℝ) : ℝ :=
  Real.sqrt (var.getD j 0 + cfg.eps) * ((y - bias.getD j 0) / bnWeight (NF.realX e) cfg uw j) + mean.getD j 0

/-- the executed `bnNormalise`, element by element -/
theorem bnNormalise_eq (cfg : BNCfg ℝ) (F : ℕ) (mean var uw bias : List ℝ) (rows : List (List ℝ)) :
    bnNormalise (NF.realX e) cfg F mean var uw bias rows =
      rows.map fun r => (List.range F).map fun j => bnEl e cfg mean var uw bias j (r.getD j 0) := by
  simp only [bnNormalise, realX_add, realX_mul, realX_div, realX_sub, realX_sqrt, realX_zero]
  rfl

/-- the executed `bnDenormalise`, element by element -/
theorem bnDenormalise_eq (cfg : BNCfg ℝ) (F : ℕ) (mean var uw bias : List ℝ) (rows : List (List ℝ)) :
    bnDenormalise (NF.realX e) cfg F mean var uw bias rows =
      rows.map fun r => (List.range F).map fun j => bnElInv e cfg mean var uw bias j (r.getD j 0) := by
  simp only [bnDenormalise, realX_add, realX_mul, realX_div, realX_sub, realX_sqrt, realX_zero]
  rfl

/-- every coordinate map is affine with slope `weight_j / sqrt (var_j + eps)` -/
theorem bnEl_hasDerivAt (cfg : BNCfg ℝ) (mean var uw bias : List ℝ) (j : ℕ) (x : ℝ) :
    HasDerivAt (bnEl e cfg mean var uw bias j)
      (bnWeight (NF.realX e) cfg uw j / Real.sqrt (var.getD j 0 + cfg.eps)) x := by
  have h := (((hasDerivAt_id' x).sub_const (mean.getD j 0)).div_const
    (Real.sqrt (var.getD j 0 + cfg.eps))).const_mul (bnWeight (NF.realX e) cfg uw j)
  have h2 := h.add_const (bias.getD j 0)
  have hs : bnWeight (NF.realX e) cfg uw j * (1 / Real.sqrt (var.getD j 0 + cfg.eps))
      = bnWeight (NF.realX e) cfg uw j / Real.sqrt (var.getD j 0 + cfg.eps) := by ring
  rw [hs] at h2
  exact h2

/-- `log |w / sqrt v| = log w - ½ log v` for `w ≠ 0`, `0 < v` (`Real.log` is even, so the sign of `w` is immaterial
    over ℝ; torch returns NaN for `w < 0`) -/
theorem log_abs_slope {w v : ℝ} (hw : w ≠ 0) (hv : 0 < v) :
    Real.log |w / Real.sqrt v| = Real.log w - 1 / 2 * Real.log v := by
  have hsq : Real.sqrt v ≠ 0 := (Real.sqrt_pos.mpr hv).ne'
  rw [Real.log_abs, Real.log_div hw hsq, Real.log_sqrt hv.le]
  ring

/-- the hypothesis `0 < var + eps` is forced: at `var + eps = 0` the executed slope is `w / 0 = 0` and the formula
    fails -/
theorem log_abs_slope_fails_at_zero :
    Real.log |(2:ℝ) / Real.sqrt 0| ≠ Real.log 2 - 1 / 2 * Real.log 0 := by
  have : (0:ℝ) < Real.log 2 := Real.log_pos (by norm_num)
  simp
  linarith

/-- the BatchNorm row map on `Fin F → ℝ` -/
def bnRowMap {F : ℕ} (cfg : BNCfg ℝ) (mean var uw bias : List ℝ) (x : Fin F → ℝ) : Fin F → ℝ :=
  fun j => bnEl e cfg mean var uw bias j (x j)

/-- EXECUTED = encoded row map -/
theorem bnNormalise_enc {F : ℕ} (cfg : BNCfg ℝ) (mean var uw bias : List ℝ) (xs : List (Fin F → ℝ)) :
    bnNormalise (NF.realX e) cfg F mean var uw bias (xs.map encRow) =
      xs.map fun x => encRow (bnRowMap e cfg mean var uw bias x) := by
  rw [bnNormalise_eq, List.map_map]
  apply List.map_congr_left
  intro x _
  simp only [Function.comp, encRow]
  apply List.ext_getElem (by simp)
  intro j h1 h2
  simp only [List.length_map, List.length_range] at h1
  simp [bnRowMap, List.getD_eq_getElem?_getD, h1]

/-- Fréchet derivative of the row map: `diag (weight_j / sqrt (var_j + eps))` -/
theorem bnRowMap_hasFDerivAt {F : ℕ} (cfg : BNCfg ℝ) (mean var uw bias : List ℝ) (x : Fin F → ℝ) :
    HasFDerivAt (bnRowMap (F := F) e cfg mean var uw bias)
      (diagCLM fun j : Fin F => bnWeight (NF.realX e) cfg uw j / Real.sqrt (var.getD j 0 + cfg.eps)) x := by
  have h := hasFDerivAt_coordAffine
    (fun j : Fin F => bnWeight (NF.realX e) cfg uw j / Real.sqrt (var.getD j 0 + cfg.eps))
    (fun j : Fin F => bias.getD j 0 -
      bnWeight (NF.realX e) cfg uw j * (mean.getD j 0 / Real.sqrt (var.getD j 0 + cfg.eps))) x
  convert h using 1
  funext y j
  simp only [bnRowMap, bnEl]
  ring

/-- **C01, BatchNorm.**  With statistics `mean`, `var` (the running ones in evaluation mode, the batch ones in training
    mode), non-zero weights and `0 < var_j + eps`: the executed `bnNormalise` returns the encoded images of `bnRowMap`,
    this map is differentiable at every row with derivative `J`, and EVERY returned log-abs-det entry is
    `log |det J|`. -/
theorem batchnorm_logdet_is_log_abs_det {F : ℕ} (cfg : BNCfg ℝ) (mean var uw bias : List ℝ)
    (hw : ∀ j < F, bnWeight (NF.realX e) cfg uw j ≠ 0) (hv : ∀ j < F, 0 < var.getD j 0 + cfg.eps)
    (xs : List (Fin F → ℝ)) :
    bnNormalise (NF.realX e) cfg F mean var uw bias (xs.map encRow) =
      xs.map (fun x => encRow (bnRowMap e cfg mean var uw bias x)) ∧
    ∀ i (hi : i < xs.length), ∃ J : (Fin F → ℝ) →L[ℝ] (Fin F → ℝ),
      HasFDerivAt (bnRowMap (F := F) e cfg mean var uw bias) J xs[i] ∧
      (bnLogdet (NF.realX e) cfg F var uw (xs.map encRow).length false)[i]? = some (Real.log |J.det|) := by
  refine ⟨bnNormalise_enc e cfg mean var uw bias xs, fun i hi => ⟨_, bnRowMap_hasFDerivAt e cfg mean var uw bias xs[i], ?_⟩⟩
  rw [bnLogdet_fwd, log_abs_det_diag]
  · simp only [List.length_map, List.getElem?_replicate, hi, if_true]
    congr 1
    apply Finset.sum_congr rfl
    intro j _
    exact (log_abs_slope (hw j j.2) (hv j j.2)).symm
  · intro j
    exact div_ne_zero (hw j j.2) (Real.sqrt_pos.mpr (hv j j.2)).ne'

/-- the same with the positivity of the weights discharged from `0 ≤ eps` -/
theorem batchnorm_logdet_is_log_abs_det_of_eps {F : ℕ} (cfg : BNCfg ℝ) (heps : 0 ≤ cfg.eps) (mean var uw bias : List ℝ)
    (hv : ∀ j < F, 0 < var.getD j 0 + cfg.eps) (xs : List (Fin F → ℝ)) :
    ∀ i (hi : i < xs.length), ∃ J : (Fin F → ℝ) →L[ℝ] (Fin F → ℝ),
      HasFDerivAt (bnRowMap (F := F) e cfg mean var uw bias) J xs[i] ∧
      (bnLogdet (NF.realX e) cfg F var uw (xs.map encRow).length false)[i]? = some (Real.log |J.det|) :=
  (batchnorm_logdet_is_log_abs_det e cfg mean var uw bias (fun j _ => (bnWeight_pos e cfg heps uw j).ne') hv xs).2

theorem bnElInv_bnEl (cfg : BNCfg ℝ) (mean var uw bias : List ℝ) (j : ℕ)
    (hw : bnWeight (NF.realX e) cfg uw j ≠ 0) (hv : 0 < var.getD j 0 + cfg.eps) (x : ℝ) :
    bnElInv e cfg mean var uw bias j (bnEl e cfg mean var uw bias j x) = x := by
  have hsq : Real.sqrt (var.getD j 0 + cfg.eps) ≠ 0 := (Real.sqrt_pos.mpr hv).ne'
  simp only [bnElInv, bnEl]
  field_simp
  ring

theorem bnEl_bnElInv (cfg : BNCfg ℝ) (mean var uw bias : List ℝ) (j : ℕ)
    (hw : bnWeight (NF.realX e) cfg uw j ≠ 0) (hv : 0 < var.getD j 0 + cfg.eps) (y : ℝ) :
    bnEl e cfg mean var uw bias j (bnElInv e cfg mean var uw bias j y) = y := by
  have hsq : Real.sqrt (var.getD j 0 + cfg.eps) ≠ 0 := (Real.sqrt_pos.mpr hv).ne'
  simp only [bnElInv, bnEl]
  field_simp
  ring

/-- **C02, BatchNorm (executed).**  On rows of length `F`, with non-zero weights and `0 < var_j + eps`,
    `bnDenormalise` undoes `bnNormalise` exactly (same statistics on both sides: evaluation mode). -/
theorem bnDenormalise_bnNormalise (cfg : BNCfg ℝ) (F : ℕ) (mean var uw bias : List ℝ)
    (hw : ∀ j < F, bnWeight (NF.realX e) cfg uw j ≠ 0) (hv : ∀ j < F, 0 < var.getD j 0 + cfg.eps)
    (rows : List (List ℝ)) (hr : ∀ r ∈ rows, r.length = F) :
    bnDenormalise (NF.realX e) cfg F mean var uw bias (bnNormalise (NF.realX e) cfg F mean var uw bias rows) = rows := by
  rw [bnNormalise_eq, bnDenormalise_eq, List.map_map]
  conv_rhs => rw [← List.map_id rows]
  apply List.map_congr_left
  intro r hmem
  have hl := hr r hmem
  simp only [Function.comp, id]
  apply List.ext_getElem (by simp [hl])
  intro j h1 h2
  simp only [List.length_map, List.length_range] at h1
  simp only [List.getElem_map, List.getElem_range, getD_map_range _ _ h1]
  rw [bnElInv_bnEl e cfg mean var uw bias j (hw j h1) (hv j h1)]
  simp [List.getD_eq_getElem?_getD, h2]

/-- forward ∘ inverse = id as well -/
theorem bnNormalise_bnDenormalise (cfg : BNCfg ℝ) (F : ℕ) (mean var uw bias : List ℝ)
    (hw : ∀ j < F, bnWeight (NF.realX e) cfg uw j ≠ 0) (hv : ∀ j < F, 0 < var.getD j 0 + cfg.eps)
    (rows : List (List ℝ)) (hr : ∀ r ∈ rows, r.length = F) :
    bnNormalise (NF.realX e) cfg F mean var uw bias (bnDenormalise (NF.realX e) cfg F mean var uw bias rows) = rows := by
  rw [bnNormalise_eq, bnDenormalise_eq, List.map_map]
  conv_rhs => rw [← List.map_id rows]
  apply List.map_congr_left
  intro r hmem
  have hl := hr r hmem
  simp only [Function.comp, id]
  apply List.ext_getElem (by simp [hl])
  intro j h1 h2
  simp only [List.length_map, List.length_range] at h1
  simp only [List.getElem_map, List.getElem_range, getD_map_range _ _ h1]
  rw [bnEl_bnElInv e cfg mean var uw bias j (hw j h1) (hv j h1)]
  simp [List.getD_eq_getElem?_getD, h2]

/-- **C02 on the machine, evaluation mode.**  `forward` on a batch of `F`-rows returns `(y, ld)`; `inverse` on `y`
    returns the batch back with the negated log-det; the state (running statistics included) is unchanged. -/
theorem bnStep_eval_fwd_inv (cfg : BNCfg ℝ) (F : ℕ) (s : BNSt ℝ) (hs : s.training = false)
    (hw : ∀ j < F, bnWeight (NF.realX e) cfg s.uweight j ≠ 0) (hv : ∀ j < F, 0 < s.runVar.getD j 0 + cfg.eps)
    (rows : List (List ℝ)) (hr : ∀ r ∈ rows, r.length = F) :
    ∃ y ld, bnStep (NF.realX e) cfg F s (.fwd (.d2 rows)) = (s, some (.ok (.d2 y, ld))) ∧
      y = bnNormalise (NF.realX e) cfg F s.runMean s.runVar s.uweight s.bias rows ∧
      ld = bnLogdet (NF.realX e) cfg F s.runVar s.uweight rows.length false ∧
      bnStep (NF.realX e) cfg F s (.inv (.d2 y)) = (s, some (.ok (.d2 rows, ld.map fun v => -v))) := by
  refine ⟨_, _, ?_, rfl, rfl, ?_⟩
  · simp [bnStep, hs]
  · simp only [bnStep, hs, Bool.false_eq_true, if_false]
    rw [bnDenormalise_bnNormalise e cfg F _ _ _ _ hw hv rows hr, bnLogdet_inv_eq_neg]
    simp [bnNormalise]

/-! ## 5b. The same C01 statements on the machines `actStep` / `bnStep` (what the driver's history runner calls) -/

/-- what an accepted `forward` step returns, in terms of the state it leaves behind -/
theorem actStep_fwd_snd (F : ℕ) (s : ActSt ℝ) (b : Batch ℝ) (hv : b.valid24 = true) :
    (actStep (NF.realX e) F s (.fwd b)).2 = some (.ok
      (actApply (NF.realX e) F (actStep (NF.realX e) F s (.fwd b)).1.logScale
        (actStep (NF.realX e) F s (.fwd b)).1.shift b,
       actLogdet (NF.realX e) (actStep (NF.realX e) F s (.fwd b)).1.logScale b false)) := by
  simp only [actStep, hv, Bool.not_true, Bool.false_eq_true, if_false]

/-- the parameter vector keeps length `F` through a `forward` step (also through the data-dependent initialisation) -/
theorem actStep_fwd_logScale_length (F : ℕ) (s : ActSt ℝ) (hF : s.logScale.length = F) (b : Batch ℝ) :
    (actStep (NF.realX e) F s (.fwd b)).1.logScale.length = F := by
  simp only [actStep]
  split_ifs <;> simp [actInit, hF]

/-- **C01 on the ActNorm machine, 4-D.**  ANY state with `F` parameters (initialised or not, any mode), any batch of
    `F × (h*w)` images: with `ls`, `sh` the parameters in force after the step (on the initialising pass: the freshly
    derived ones, treated as constants exactly as the library does), the step returns the encoded images of
    `actImgMap ls sh` and a log-det list whose every entry is `log |det J|`. -/
theorem actStep_fwd_d4_C01 {F : ℕ} (s : ActSt ℝ) (hF : s.logScale.length = F) (h w : ℕ)
    (xs : List (Fin F × Fin (h * w) → ℝ)) :
    ∃ ls sh ld, (actStep (NF.realX e) F s (.fwd (.d4 h w (xs.map encImg)))).1.logScale = ls ∧
      (actStep (NF.realX e) F s (.fwd (.d4 h w (xs.map encImg)))).1.shift = sh ∧
      (actStep (NF.realX e) F s (.fwd (.d4 h w (xs.map encImg)))).2 =
        some (.ok (.d4 h w (xs.map fun x => encImg (actImgMap ls sh x)), ld)) ∧
      ∀ i (hi : i < xs.length), ∃ J : (Fin F × Fin (h * w) → ℝ) →L[ℝ] (Fin F × Fin (h * w) → ℝ),
        HasFDerivAt (actImgMap (F := F) (P := h * w) ls sh) J xs[i] ∧ ld[i]? = some (Real.log |J.det|) := by
  have hl := actStep_fwd_logScale_length e F s hF (.d4 h w (xs.map encImg))
  obtain ⟨h1, h2⟩ := actnorm_d4_logdet_is_log_abs_det e _
    (actStep (NF.realX e) F s (.fwd (.d4 h w (xs.map encImg)))).1.shift hl h w xs
  refine ⟨_, _, _, rfl, rfl, ?_, h2⟩
  rw [actStep_fwd_snd e F s _ rfl, h1]

/-- **C01 on the ActNorm machine, 2-D.** -/
theorem actStep_fwd_d2_C01 {F : ℕ} (s : ActSt ℝ) (hF : s.logScale.length = F) (xs : List (Fin F → ℝ)) :
    ∃ ls sh ld, (actStep (NF.realX e) F s (.fwd (.d2 (xs.map encRow)))).1.logScale = ls ∧
      (actStep (NF.realX e) F s (.fwd (.d2 (xs.map encRow)))).1.shift = sh ∧
      (actStep (NF.realX e) F s (.fwd (.d2 (xs.map encRow)))).2 =
        some (.ok (.d2 (xs.map fun x => encRow (actRowMap ls sh x)), ld)) ∧
      ∀ i (hi : i < xs.length), ∃ J : (Fin F → ℝ) →L[ℝ] (Fin F → ℝ),
        HasFDerivAt (actRowMap (F := F) ls sh) J xs[i] ∧ ld[i]? = some (Real.log |J.det|) := by
  have hl := actStep_fwd_logScale_length e F s hF (.d2 (xs.map encRow))
  obtain ⟨h1, h2⟩ := actnorm_d2_logdet_is_log_abs_det e _
    (actStep (NF.realX e) F s (.fwd (.d2 (xs.map encRow)))).1.shift hl xs
  refine ⟨_, _, _, rfl, rfl, ?_, h2⟩
  rw [actStep_fwd_snd e F s _ rfl, h1]

/-- **C01 on the BatchNorm machine, evaluation mode**: the running statistics are used, the state is unchanged, the
    output is the encoded image of `bnRowMap` and every log-det entry is `log |det J|`. -/
theorem bnStep_eval_fwd_C01 {F : ℕ} (cfg : BNCfg ℝ) (s : BNSt ℝ) (hs : s.training = false)
    (hw : ∀ j < F, bnWeight (NF.realX e) cfg s.uweight j ≠ 0) (hv : ∀ j < F, 0 < s.runVar.getD j 0 + cfg.eps)
    (xs : List (Fin F → ℝ)) :
    ∃ ld, bnStep (NF.realX e) cfg F s (.fwd (.d2 (xs.map encRow))) =
        (s, some (.ok (.d2 (xs.map fun x => encRow (bnRowMap e cfg s.runMean s.runVar s.uweight s.bias x)), ld))) ∧
      ∀ i (hi : i < xs.length), ∃ J : (Fin F → ℝ) →L[ℝ] (Fin F → ℝ),
        HasFDerivAt (bnRowMap (F := F) e cfg s.runMean s.runVar s.uweight s.bias) J xs[i] ∧
        ld[i]? = some (Real.log |J.det|) := by
  obtain ⟨h1, h2⟩ := batchnorm_logdet_is_log_abs_det e cfg s.runMean s.runVar s.uweight s.bias hw hv xs
  refine ⟨_, ?_, h2⟩
  simp only [bnStep, hs, Bool.false_eq_true, if_false, h1]

/-- 2-D determinant, matrix form -/
theorem actRow_matrix_det {F : ℕ} (ls : List ℝ) (hF : ls.length = F) :
    (Matrix.diagonal fun j : Fin F => Real.exp (ls.getD j 0)).det = Real.exp ls.sum := by
  rw [Matrix.det_diagonal, ← Real.exp_sum, sum_fin_getD ls F hF]

/-! ## 6. Non-vacuity: concrete data -/

/-- a `2 × 3` image batch with `log_scale = [0.3, -1]`: the returned entry is `6 · (0.3 - 1) = -4.2` -/
example : actLogdet (NF.realX e) [0.3, -1] (.d4 2 3 [[[1, 2, 3, 4, 5, 6], [0, 0, 0, 0, 0, 0]]]) false = [-4.2] := by
  rw [actLogdet_d4]
  norm_num

/-- the same parameters on a 2-D batch of two rows: `0.3 - 1 = -0.7` per row, and `+0.7` in the inverse direction -/
example : actLogdet (NF.realX e) [0.3, -1] (.d2 [[1, 2], [3, 4]]) false = [-0.7, -0.7] ∧
    actLogdet (NF.realX e) [0.3, -1] (.d2 [[1, 2], [3, 4]]) true = [0.7, 0.7] := by
  rw [actLogdet_d2, actLogdet_d2_inv]
  norm_num [List.replicate]

/-- the executed forward map on concrete numbers (`log_scale = 0` so that `exp` is `1`) -/
example : actApply (NF.realX e) 2 [0, 0] [1, 2] (.d2 [[3, 4]]) = .d2 [[4, 6]] := by
  rw [actApply_d2]
  norm_num [List.range, List.range.loop]

example : actApply (NF.realX e) 2 [0, 0] [1, 2] (.d4 1 2 [[[3, 4], [5, 6]]]) = .d4 1 2 [[[4, 5], [7, 8]]] := by
  rw [actApply_d4]
  norm_num [List.range, List.range.loop]

/-- the 4-D headline instantiated: `F = 2`, `h = 2`, `w = 3`, `log_scale = [0.3, -1]`, one constant image: the
    returned entry is `-4.2` and is `log |det J|` of the derivative of the executed item map -/
example : ∃ J : (Fin 2 × Fin (2 * 3) → ℝ) →L[ℝ] (Fin 2 × Fin (2 * 3) → ℝ),
    HasFDerivAt (actImgMap (F := 2) (P := 2 * 3) [0.3, -1] [5, 7]) J (fun _ => 1) ∧
    (actLogdet (NF.realX e) [0.3, -1] (.d4 2 3 (([fun _ => (1:ℝ)] : List (Fin 2 × Fin (2 * 3) → ℝ)).map encImg)) false)[0]? = some (Real.log |J.det|) ∧
    Real.log |J.det| = -4.2 := by
  obtain ⟨J, hJ, hld⟩ := (actnorm_d4_logdet_is_log_abs_det e (F := 2) [0.3, -1] [5, 7] rfl 2 3
    [fun _ => (1:ℝ)]).2 0 (by simp)
  refine ⟨J, hJ, hld, ?_⟩
  rw [actLogdet_d4_getElem? e _ _ _ _ (by simp)] at hld
  rw [← Option.some.inj hld]
  norm_num

/-- the mutant remark on the same data: `-0.7 ≠ -4.2` -/
example : ([0.3, -1] : List ℝ).sum ≠ ((2 * 3 : ℕ) : ℝ) * ([0.3, -1] : List ℝ).sum :=
  dropped_HW_factor_detected [0.3, -1] 2 3 (by norm_num) (by norm_num)

/-- well-shaped batches exist in both kinds, and the round trip applies to them -/
example : actUnapply (NF.realX e) 2 [0.3, -1] [5, 7]
      (actApply (NF.realX e) 2 [0.3, -1] [5, 7] (.d4 1 2 [[[3, 4], [5, 6]]])) = .d4 1 2 [[[3, 4], [5, 6]]] :=
  actUnapply_actApply e 2 _ _ _ (by simp [WellShaped])

/-- BatchNorm at the library default `eps = 1e-5`, two features, running variances `1` and `4`: all hypotheses of the
    C01 / C02 theorems hold -/
example : ∃ cfg : BNCfg ℝ, 0 ≤ cfg.eps ∧ (∀ j < 2, 0 < ([1, 4] : List ℝ).getD j 0 + cfg.eps) ∧
    (∀ j < 2, bnWeight (NF.realX e) cfg [0, 1] j ≠ 0) := by
  refine ⟨⟨1 / 100000, 1 / 10⟩, by norm_num, ?_, fun j _ => (bnWeight_pos e _ (by norm_num) _ j).ne'⟩
  intro j hj
  interval_cases j <;> norm_num

/-- the BatchNorm log-det on concrete numbers: `eps = 0`, weights `softplus(u_j)`, variances `1` and `4` -/
example : bnLogdet (NF.realX e) ⟨0, 1 / 10⟩ 2 [1, 4] [0, 0] 3 false =
    List.replicate 3 (Real.log (Real.log 2) + (Real.log (Real.log 2) - 1 / 2 * Real.log 4)) := by
  rw [bnLogdet_fwd]
  simp [Fin.sum_univ_two, bnWeight_real, realX_softplus]
  norm_num
  ring


end

end LogdetExec
