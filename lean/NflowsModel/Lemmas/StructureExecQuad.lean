import NflowsModel.Lemmas.StructureExec
import NflowsModel.Lemmas.QuadInverseWhole
/-!
# Lemmas/StructureExecQuad — the per-element invertibility hypothesis of the executed coupling layer (C02) discharged
for the bounded piecewise-quadratic family over the reals, from the whole-program theorems
(`QuadWhole`, `QuadInverseWhole`).
-/
open NF DualSound

namespace NF.StructureExec
variable {α : Type}

/-- the spline configuration `elTransform` builds for the bounded quadratic family -/
def quadCfgOf (c : ElCfg) : QCfg :=
  { box := ⟨c.ds.getD 0 0.0, c.ds.getD 1 0.0, c.ds.getD 2 0.0, c.ds.getD 3 0.0⟩,
    minW := c.ds.getD 4 0.0, minH := c.ds.getD 5 0.0 }

/-- the `1/sqrt(hidden)` scaling policy applied to a slice -/
def quadScale (o : XOps α) (c : ElCfg) (b : Bool) (l : List α) : List α :=
  if b then l.map (fun u => o.div u (o.ofFloat (Float.sqrt c.scaling.1))) else l

/-- unnormalised widths / heights that `elTransform` slices out of a parameter vector -/
def quadW (o : XOps α) (c : ElCfg) (p : List α) : List α := quadScale o c c.scaling.2.1 (p.take c.K)
def quadH (o : XOps α) (c : ElCfg) (p : List α) : List α := quadScale o c c.scaling.2.2 (p.drop c.K)

theorem elTransform_quad (o : XOps α) (c : ElCfg) (hk : c.kind = "quad") (ht : c.tails = false) (inverse : Bool)
    (p : List α) (x : α) :
    elTransform o c inverse p x
      = (quadSpline o (quadCfgOf c) (quadW o c p) (quadH o c p) inverse x).map (fun ab => (ab.1, ab.2, [])) := by
  unfold elTransform quadW quadH quadScale quadCfgOf
  rcases hsc : c.scaling with ⟨hid, sW, sH⟩
  simp only [hk, ht, Bool.false_eq_true, if_false]

/-- a forward call that did not fail had its input in `[left, right]` -/
theorem quadSpline_ok_dom (e : Float → ℝ) (c : QCfg) (uw uh : List ℝ) {x : ℝ} {r : ℝ × ℝ}
    (h : quadSpline (NF.realX e) c uw uh false x = .ok r) : e c.box.left ≤ x ∧ x ≤ e c.box.right := by
  by_contra hc
  have hb : ((NF.realX e).lt x ((NF.realX e).ofFloat (if false = true then c.box.bottom else c.box.left)) ||
      (NF.realX e).lt ((NF.realX e).ofFloat (if false = true then c.box.top else c.box.right)) x) = true := by
    simp only [Bool.false_eq_true, if_false, realX_lt, realX_ofFloat, Bool.or_eq_true, decide_eq_true_eq]
    by_contra h2
    exact hc ⟨le_of_not_gt (fun h3 => h2 (Or.inl h3)), le_of_not_gt (fun h3 => h2 (Or.inr h3))⟩
  have herr : quadSpline (NF.realX e) c uw uh false x = .error .outsideDomain := by
    unfold quadSpline
    simp only [hb]
    rfl
  rw [herr] at h
  cases h

/-- **one bounded quadratic element over the reals inverts exactly and negates its log-det** — the executed forward
    program followed by the executed inverse program with the same (valid) parameters, from `QuadWhole` /
    `QuadInverseWhole`.  The domain condition is not a hypothesis: a forward call that succeeded had its input in
    `[left, right]`. -/
theorem quadSpline_real_invertible (e : Float → ℝ) (c : QCfg) (uw uh : List ℝ)
    (hv : QuadWhole.QuadValid e c uw uh) {x y l : ℝ}
    (h : quadSpline (NF.realX e) c uw uh false x = .ok (y, l)) :
    quadSpline (NF.realX e) c uw uh true y = .ok (x, -l) := by
  have hdom := quadSpline_ok_dom e c uw uh h
  have hval : QuadWhole.val e c uw uh x = y := by unfold QuadWhole.val; rw [h]; rfl
  have hld : QuadWhole.ld e c uw uh x = l := by unfold QuadWhole.ld; rw [h]; rfl
  have hy := QuadWhole.val_mapsTo hv ⟨hdom.1, hdom.2⟩
  rw [hval] at hy
  rw [QuadInverseWhole.exec_ok hv y hy.1 hy.2]
  have h1 := QuadInverseWhole.inv_val hv x hdom.1 hdom.2
  have h2 := QuadInverseWhole.ld_eq_neg_invLd hv x hdom.1 hdom.2
  rw [hval] at h1 h2
  rw [hld] at h2
  rw [h1]
  congr 2
  linarith

/-- the same for the tails SHAPE of the height vector (`K − 1` interior heights, padded by the program) on a box -/
theorem quadSpline_real_invertible_T (e : Float → ℝ) (c : QCfg) (uw uh : List ℝ)
    (hv : QuadWhole.QuadValidT e c uw uh) {x y l : ℝ}
    (h : quadSpline (NF.realX e) c uw uh false x = .ok (y, l)) :
    quadSpline (NF.realX e) c uw uh true y = .ok (x, -l) := by
  have hdom := quadSpline_ok_dom e c uw uh h
  have hval : QuadWhole.val e c uw uh x = y := by unfold QuadWhole.val; rw [h]; rfl
  have hld : QuadWhole.ld e c uw uh x = l := by unfold QuadWhole.ld; rw [h]; rfl
  have hy := QuadWhole.val_mapsTo_T hv ⟨hdom.1, hdom.2⟩
  rw [hval] at hy
  rw [QuadInverseWhole.exec_ok_T hv y hy.1 hy.2]
  have h1 := QuadInverseWhole.inv_val_T hv x hdom.1 hdom.2
  have h2 := QuadInverseWhole.ld_eq_neg_invLd_T hv x hdom.1 hdom.2
  rw [hval] at h1 h2
  rw [hld] at h2
  rw [h1]
  congr 2
  linarith

/-- every parameter slice the conditioner produced is an accepted bounded quadratic configuration -/
def QuadParamsValid (e : Float → ℝ) (c : ElCfg) (Ft S : Nat) (params : Array ℝ) (B : Nat) : Prop :=
  ∀ b t s, b < B → t < Ft → s < S →
    QuadWhole.QuadValid e (quadCfgOf c)
      (quadW (NF.realX e) c (condSlice (NF.realX e) c.mult Ft S params b t s))
      (quadH (NF.realX e) c (condSlice (NF.realX e) c.mult Ft S params b t s))

/-- the per-element hypothesis of the executed C02 theorem, discharged for the bounded quadratic coupling family -/
theorem elInvertible_quad_real (e : Float → ℝ) (c : ElCfg) (hk : c.kind = "quad") (ht : c.tails = false)
    (Ft S : Nat) (params : Array ℝ) (B : Nat) (hv : QuadParamsValid e c Ft S params B) :
    ElInvertible (NF.realX e) c Ft S params B := by
  have hk1 : c.kind ≠ "affine" := by rw [hk]; decide
  have hk2 : c.kind ≠ "additive" := by rw [hk]; decide
  intro b t s xi y l al hb ht' hs hf
  rw [couplingEl_spline (NF.realX e) c S params false hk1 hk2, elTransform_quad _ c hk ht] at hf
  rw [couplingEl_spline (NF.realX e) c S params true hk1 hk2, elTransform_quad _ c hk ht]
  cases hr : quadSpline (NF.realX e) (quadCfgOf c)
      (quadW (NF.realX e) c (condSlice (NF.realX e) c.mult Ft S params b t s))
      (quadH (NF.realX e) c (condSlice (NF.realX e) c.mult Ft S params b t s)) false xi with
  | error err => rw [hr] at hf; simp [Except.map] at hf
  | ok v =>
    obtain ⟨y', l'⟩ := v
    rw [hr] at hf
    simp only [Except.map, Except.ok.injEq, Prod.mk.injEq] at hf
    obtain ⟨rfl, rfl, rfl⟩ := hf
    rw [quadSpline_real_invertible e _ _ _ (hv b t s hb ht' hs) hr]
    exact ⟨[], rfl⟩

/-- **C02 (executed bounded quadratic coupling layer over the reals).**  Any mask, `B`, `S`: if every parameter slice
    is an accepted configuration and the forward pass reported no error (all transformed inputs inside `[left, right]`),
    the inverse pass on the forward output with the same parameters returns the input array, reports no error, is
    given the same conditioner input, and returns the negated row log-dets. -/
theorem coupling_quad_roundtrip_real (e : Float → ℝ) (c : ElCfg) (hk : c.kind = "quad") (ht : c.tails = false)
    (mask : List ℝ) (B S : Nat) (x params uparams uparams' : Array ℝ)
    (hv : QuadParamsValid e c (transformIdx (NF.realX e) mask).length S params B)
    (herr : (couplingApply (NF.realX e) c mask B S x params false none uparams).err = none)
    (hsz : B * mask.length * S ≤ x.size) :
    let fwd := couplingApply (NF.realX e) c mask B S x params false none uparams
    let inv := couplingApply (NF.realX e) c mask B S fwd.out params true none uparams'
    inv.out = x ∧ inv.err = none ∧ inv.condIn = fwd.condIn ∧ ∀ b, b < B → inv.ld[b]? = (fwd.ld[b]?).map (fun l => -l) :=
  coupling_inverse_forward_real e c mask B S x params uparams uparams'
    (elInvertible_quad_real e c hk ht _ S params B hv) herr hsz

/-! non-vacuity: a one-bin quadratic configuration on the unit box (`QuadWhole.valid_example`), every slice of the
    empty parameter array (all reads default to 0) is accepted -/
def cQ : ElCfg := { container := "cdf", kind := "quad", K := 1, ds := #[0.0, 1.0, 0.0, 1.0, 0.0, 0.0] }

theorem quadParamsValid_example (Ft S B : Nat) : QuadParamsValid QuadWhole.eNV cQ Ft S #[] B := by
  intro b t s _ _ _
  have hs : condSlice (NF.realX QuadWhole.eNV) cQ.mult Ft S #[] b t s = [0, 0, 0] := by
    have hm : cQ.mult = 3 := by decide
    rw [hm]
    simp [condSlice, List.range_succ]
  rw [hs]
  have hw : quadW (NF.realX QuadWhole.eNV) cQ [0, 0, 0] = [0] := by simp [quadW, quadScale, cQ]
  have hh : quadH (NF.realX QuadWhole.eNV) cQ [0, 0, 0] = [0, 0] := by simp [quadH, quadScale, cQ]
  rw [hw, hh]
  exact QuadWhole.valid_example

/-! ### the unconstrained family (`tails = true`): identity outside `[−B, B]`, the executed spline on the box
`[−B, B]²` with `K − 1` interior heights inside -/

/-- the spline configuration `elTransform` builds for the quadratic family with linear tails -/
def quadCfgOfT (c : ElCfg) : QCfg :=
  { box := ⟨-(c.ds.getD 0 0.0), c.ds.getD 0 0.0, -(c.ds.getD 0 0.0), c.ds.getD 0 0.0⟩,
    minW := c.ds.getD 1 0.0, minH := c.ds.getD 2 0.0 }

theorem elTransform_quad_tails (o : XOps α) (c : ElCfg) (hk : c.kind = "quad") (ht : c.tails = true) (inverse : Bool)
    (p : List α) (x : α) :
    elTransform o c inverse p x
      = (tailsWrap o (c.ds.getD 0 0.0) x
          (fun box => quadSpline o { box := box, minW := c.ds.getD 1 0.0, minH := c.ds.getD 2 0.0 }
            (quadW o c p) (quadH o c p) inverse x)).map (fun ab => (ab.1, ab.2, [])) := by
  unfold elTransform quadW quadH quadScale
  rcases hsc : c.scaling with ⟨hid, sW, sH⟩
  simp only [hk, ht]
  rfl

/-- **one quadratic element with linear tails over the reals inverts exactly and negates its log-det**: inside
    `[−B, B]` by the whole-program theorems (tails shape), outside both passes are the identity with log-det 0.
    `hneg`: the `Float` negation of the tail bound is read as the real negation. -/
theorem quadTails_real_invertible (e : Float → ℝ) (tb mW mH : Float) (uw uh : List ℝ)
    (hneg : e (-tb) = - e tb)
    (hv : QuadWhole.QuadValidT e { box := ⟨-tb, tb, -tb, tb⟩, minW := mW, minH := mH } uw uh) {x y l : ℝ}
    (h : tailsWrap (NF.realX e) tb x (fun box => quadSpline (NF.realX e) { box := box, minW := mW, minH := mH } uw uh false x)
          = .ok (y, l)) :
    tailsWrap (NF.realX e) tb y (fun box => quadSpline (NF.realX e) { box := box, minW := mW, minH := mH } uw uh true y)
      = .ok (x, -l) := by
  unfold tailsWrap at h ⊢
  simp only [XOps.ge, realX_le, realX_neg, realX_ofFloat, Bool.and_eq_true, decide_eq_true_eq] at h ⊢
  by_cases hin : -e tb ≤ x ∧ x ≤ e tb
  · rw [if_pos hin] at h
    have hdom := quadSpline_ok_dom e _ uw uh h
    have hy := QuadWhole.val_mapsTo_T hv ⟨hdom.1, hdom.2⟩
    have hval : QuadWhole.val e { box := ⟨-tb, tb, -tb, tb⟩, minW := mW, minH := mH } uw uh x = y := by
      unfold QuadWhole.val; rw [h]; rfl
    rw [hval] at hy
    have hy' : -e tb ≤ y ∧ y ≤ e tb := by
      obtain ⟨h0, h1⟩ := hy
      simp only [hneg] at h0
      exact ⟨h0, h1⟩
    rw [if_pos hy']
    exact quadSpline_real_invertible_T e _ uw uh hv h
  · rw [if_neg hin] at h
    simp only [Except.ok.injEq, Prod.mk.injEq] at h
    obtain ⟨rfl, rfl⟩ := h
    rw [if_neg hin]
    simp

/-- every parameter slice the conditioner produced is an accepted tails-shape quadratic configuration -/
def QuadTailsParamsValid (e : Float → ℝ) (c : ElCfg) (Ft S : Nat) (params : Array ℝ) (B : Nat) : Prop :=
  ∀ b t s, b < B → t < Ft → s < S →
    QuadWhole.QuadValidT e (quadCfgOfT c)
      (quadW (NF.realX e) c (condSlice (NF.realX e) c.mult Ft S params b t s))
      (quadH (NF.realX e) c (condSlice (NF.realX e) c.mult Ft S params b t s))

theorem elInvertible_quad_tails_real (e : Float → ℝ) (c : ElCfg) (hk : c.kind = "quad") (ht : c.tails = true)
    (hneg : e (-(c.ds.getD 0 0.0)) = - e (c.ds.getD 0 0.0))
    (Ft S : Nat) (params : Array ℝ) (B : Nat) (hv : QuadTailsParamsValid e c Ft S params B) :
    ElInvertible (NF.realX e) c Ft S params B := by
  have hk1 : c.kind ≠ "affine" := by rw [hk]; decide
  have hk2 : c.kind ≠ "additive" := by rw [hk]; decide
  intro b t s xi y l al hb ht' hs hf
  rw [couplingEl_spline (NF.realX e) c S params false hk1 hk2, elTransform_quad_tails _ c hk ht] at hf
  rw [couplingEl_spline (NF.realX e) c S params true hk1 hk2, elTransform_quad_tails _ c hk ht]
  cases hr : tailsWrap (NF.realX e) (c.ds.getD 0 0.0) xi
      (fun box => quadSpline (NF.realX e) { box := box, minW := c.ds.getD 1 0.0, minH := c.ds.getD 2 0.0 }
        (quadW (NF.realX e) c (condSlice (NF.realX e) c.mult Ft S params b t s))
        (quadH (NF.realX e) c (condSlice (NF.realX e) c.mult Ft S params b t s)) false xi) with
  | error err => rw [hr] at hf; simp [Except.map] at hf
  | ok v =>
    obtain ⟨y', l'⟩ := v
    rw [hr] at hf
    simp only [Except.map, Except.ok.injEq, Prod.mk.injEq] at hf
    obtain ⟨rfl, rfl, rfl⟩ := hf
    rw [quadTails_real_invertible e _ _ _ _ _ hneg (hv b t s hb ht' hs) hr]
    exact ⟨[], rfl⟩

/-- **C02 (executed quadratic coupling layer with linear tails over the reals)** -/
theorem coupling_quad_tails_roundtrip_real (e : Float → ℝ) (c : ElCfg) (hk : c.kind = "quad") (ht : c.tails = true)
    (hneg : e (-(c.ds.getD 0 0.0)) = - e (c.ds.getD 0 0.0))
    (mask : List ℝ) (B S : Nat) (x params uparams uparams' : Array ℝ)
    (hv : QuadTailsParamsValid e c (transformIdx (NF.realX e) mask).length S params B)
    (herr : (couplingApply (NF.realX e) c mask B S x params false none uparams).err = none)
    (hsz : B * mask.length * S ≤ x.size) :
    let fwd := couplingApply (NF.realX e) c mask B S x params false none uparams
    let inv := couplingApply (NF.realX e) c mask B S fwd.out params true none uparams'
    inv.out = x ∧ inv.err = none ∧ inv.condIn = fwd.condIn ∧ ∀ b, b < B → inv.ld[b]? = (fwd.ld[b]?).map (fun l => -l) :=
  coupling_inverse_forward_real e c mask B S x params uparams uparams'
    (elInvertible_quad_tails_real e c hk ht hneg _ S params B hv) herr hsz


/-! non-vacuity of the tails statement: two bins, one interior height, tail bound `1.0` (box `[−1,1]²`), all reads 0;
    the reading `eTT` sends `-1.0 ↦ −1`, so `hneg` holds -/
noncomputable def eTT (f : Float) : ℝ :=
  if f == 0.0 then 0 else if f == 0.5 then 1 / 2 else if f == -(1.0) then -1 else if f == 2.0 then 2 else 1
def cQT : ElCfg := { container := "cdf", kind := "quad", tails := true, K := 2, ds := #[1.0, 0.0, 0.0] }

private theorem f00 : ((0.0:Float) == 0.0) = true := by decide +kernel
private theorem f50 : ((0.5:Float) == 0.0) = false := by decide +kernel
private theorem f55 : ((0.5:Float) == 0.5) = true := by decide +kernel
private theorem fn0 : ((-(1.0):Float) == 0.0) = false := by decide +kernel
private theorem fn5 : ((-(1.0):Float) == 0.5) = false := by decide +kernel
private theorem fnn : ((-(1.0):Float) == -(1.0)) = true := by decide +kernel
private theorem f10 : ((1.0:Float) == 0.0) = false := by decide +kernel
private theorem f15 : ((1.0:Float) == 0.5) = false := by decide +kernel
private theorem f1n : ((1.0:Float) == -(1.0)) = false := by decide +kernel
private theorem f12 : ((1.0:Float) == 2.0) = false := by decide +kernel
private theorem fd0 : (((1.0:Float) - -(1.0)) == 0.0) = false := by decide +kernel
private theorem fd5 : (((1.0:Float) - -(1.0)) == 0.5) = false := by decide +kernel
private theorem fdn : (((1.0:Float) - -(1.0)) == -(1.0)) = false := by decide +kernel
private theorem fd2 : (((1.0:Float) - -(1.0)) == 2.0) = true := by decide +kernel
private theorem fe0 : ((1e-6:Float) == 0.0) = false := by decide +kernel
private theorem fe5 : ((1e-6:Float) == 0.5) = false := by decide +kernel
private theorem fen : ((1e-6:Float) == -(1.0)) = false := by decide +kernel
private theorem fe2 : ((1e-6:Float) == 2.0) = false := by decide +kernel
private theorem fm0 : ((1e-3:Float) == 0.0) = false := by decide +kernel
private theorem fm5 : ((1e-3:Float) == 0.5) = false := by decide +kernel
private theorem fmn : ((1e-3:Float) == -(1.0)) = false := by decide +kernel
private theorem fm2 : ((1e-3:Float) == 2.0) = false := by decide +kernel
private theorem fw0 : (((1:Float) - 0.0 * (2:Nat).toFloat) == 0.0) = false := by decide +kernel
private theorem fw5 : (((1:Float) - 0.0 * (2:Nat).toFloat) == 0.5) = false := by decide +kernel
private theorem fwn : (((1:Float) - 0.0 * (2:Nat).toFloat) == -(1.0)) = false := by decide +kernel
private theorem fw2 : (((1:Float) - 0.0 * (2:Nat).toFloat) == 2.0) = false := by decide +kernel
private theorem fh0 : (((1:Float) - 0.0) == 0.0) = false := by decide +kernel
private theorem fh5 : (((1:Float) - 0.0) == 0.5) = false := by decide +kernel
private theorem fhn : (((1:Float) - 0.0) == -(1.0)) = false := by decide +kernel
private theorem fh2 : (((1:Float) - 0.0) == 2.0) = false := by decide +kernel
private theorem fg2 : ¬ ((0.0:Float) * (2:Nat).toFloat > 1.0) := by decide +kernel

theorem eTT_neg : eTT (-(1.0)) = - eTT 1.0 := by simp [eTT, fn0, fn5, fnn, f10, f15, f1n, f12]

theorem valid_example_TT :
    QuadWhole.QuadValidT eTT { box := ⟨-(1.0), 1.0, -(1.0), 1.0⟩, minW := 0.0, minH := 0.0 } [0, 0] [0] where
  huh := by simp
  hlenh := rfl
  hgW := fg2
  hgH := fg2
  hmW0 := by simp [eTT, f00]
  hcW := by simp [eTT, f00, fw0, fw5, fwn, fw2]
  hmWK := by simp [eTT, f00]
  hmH0 := by simp [eTT, f00]
  hcH := by simp [eTT, f00, fh0, fh5, fhn, fh2]
  hmH1 := by simp [eTT, f00]
  h1e3 := by simp [eTT, fm0, fm5, fmn, fm2]
  hhalf := by simp [eTT, f50, f55]
  hbox := ⟨by simp [eTT, fn0, fn5, fnn, f10, f15, f1n, f12],
           by simp [eTT, fn0, fn5, fnn, f10, f15, f1n, f12, fd0, fd5, fdn, fd2]; norm_num,
           by simp [eTT, fn0, fn5, fnn, f10, f15, f1n, f12],
           by simp [eTT, fn0, fn5, fnn, f10, f15, f1n, f12, fd0, fd5, fdn, fd2]; norm_num⟩
  heps := by simp [eTT, fe0, fe5, fen, fe2]

theorem quadTailsParamsValid_example (Ft S B : Nat) : QuadTailsParamsValid eTT cQT Ft S #[] B := by
  intro b t s _ _ _
  have hs : condSlice (NF.realX eTT) cQT.mult Ft S #[] b t s = [0, 0, 0] := by
    have hm : cQT.mult = 3 := by decide
    rw [hm]
    simp [condSlice, List.range_succ]
  rw [hs]
  have hw : quadW (NF.realX eTT) cQT [0, 0, 0] = [0, 0] := by simp [quadW, quadScale, cQT]
  have hh : quadH (NF.realX eTT) cQT [0, 0, 0] = [0] := by simp [quadH, quadScale, cQT]
  rw [hw, hh]
  exact valid_example_TT

theorem hneg_example : eTT (-(cQT.ds.getD 0 0.0)) = - eTT (cQT.ds.getD 0 0.0) := eTT_neg


end NF.StructureExec
