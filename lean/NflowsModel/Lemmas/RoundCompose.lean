import NflowsModel.Lemmas.RoundModel
import Mathlib.Topology.MetricSpace.Pseudo.Defs
import Mathlib.Algebra.BigOperators.Intervals
import Mathlib.Tactic
/-!
# Lemmas/RoundCompose — composition of rounding errors through Lipschitz stages (C19, numeric clause), and refinements

Continues `Lemmas/RoundModel` (read its header for the model `Rnd u r`, `rndX r e` and the TRUSTED link to IEEE).

* (d) `two_stage_err`, `compose_err`, `compose_err_uniform`: the forward error of a composite of stages, each computed
  with an explicit local error `ε_k` and exactly `L_k`-Lipschitz, is the explicit recursion `errB` (closed form
  `E · Σ_{k<n} Λ^k + Λ^n δ` for uniform bounds).
* instances on executed model programs: a chain of affine elements (`affineChain_err`), affine followed by
  LeakyReLU (`affine_leaky_err`), and the two-precision agreement of a whole chain (`f32_f64_agree_chain`).
* refinement for an idempotent rounding (`r (r x) = r x`, true of IEEE rounding, where `0 + fl(x₁y₁)` is exact):
  the inner-product exponent drops from `n + 1` to the classical `n` (`dot_err_idem`).
* `sigmoid_err`: the executed `XOps.sigmoid` has relative error `((1+u)(3u+u²)/(1-2u-u²) + u)`;
  `sigmoidT_fwd_err`: the forward Sigmoid element (an instance of `two_stage_err` with the 1-Lipschitz logistic map).
* `sumLog_err`: the executed `Σ log d_i` (log-abs-det of LU / SVD given the diagonal).
* `pow_sub_one_le_gamma`: `(1+u)^n - 1 ≤ n u / (1 - n u)`; `f32_f64_agree_dot_gamma` the headline in `γ_n` form;
  `agree_example`: the hypotheses of the headline are jointly satisfiable with `u32 = 2^-24`, `u64 = 2^-53`, `r32 ≠ r64`.
-/
open NF DualSound

namespace RoundModel
noncomputable section

universe v
variable {X : Type v} [PseudoMetricSpace X]

/-! ## (d) composition -/

/-- two stages (heterogeneous): error of the second at the COMPUTED intermediate value, plus the Lipschitz constant
    of the exact second stage times the error of the first -/
theorem two_stage_err {W Y Z : Type*} [PseudoMetricSpace Y] [PseudoMetricSpace Z]
    (f1c f1e : W → Y) (f2c f2e : Y → Z) (ε1 : W → ℝ) (ε2 : Y → ℝ) (L : ℝ)
    (h1 : ∀ x, dist (f1c x) (f1e x) ≤ ε1 x) (h2 : ∀ y, dist (f2c y) (f2e y) ≤ ε2 y)
    (hL : ∀ y y', dist (f2e y) (f2e y') ≤ L * dist y y') (hL0 : 0 ≤ L) (x : W) :
    dist (f2c (f1c x)) (f2e (f1e x)) ≤ ε2 (f1c x) + L * ε1 x := by
  have a := dist_triangle (f2c (f1c x)) (f2e (f1c x)) (f2e (f1e x))
  have b := h2 (f1c x)
  have c := hL (f1c x) (f1e x)
  have d := mul_le_mul_of_nonneg_left (h1 x) hL0
  linarith

/-- a stage: the computed map, the exact map, the local error bound, the Lipschitz constant of the exact map -/
structure Stage (X : Type v) where
  fc : X → X
  fe : X → X
  eps : X → ℝ
  L : ℝ

structure Stage.OK (s : Stage X) : Prop where
  err : ∀ x, dist (s.fc x) (s.fe x) ≤ s.eps x
  lip : ∀ x y, dist (s.fe x) (s.fe y) ≤ s.L * dist x y
  L_nonneg : 0 ≤ s.L

/-- run the computed / the exact pipeline -/
def runC (ss : List (Stage X)) (x : X) : X := ss.foldl (fun a s => s.fc a) x
def runE (ss : List (Stage X)) (x : X) : X := ss.foldl (fun a s => s.fe a) x

/-- the explicit error recursion: entering a stage at computed value `x` with accumulated error `δ`, leave it with
    `ε(x) + L δ` -/
def errB : List (Stage X) → X → ℝ → ℝ
  | [], _, δ => δ
  | s :: ss, x, δ => errB ss (s.fc x) (s.eps x + s.L * δ)

/-- **(d) composite of `n` Lipschitz stages** -/
theorem compose_err (ss : List (Stage X)) (hok : ∀ s ∈ ss, s.OK) (xc xe : X) (δ : ℝ)
    (h : dist xc xe ≤ δ) : dist (runC ss xc) (runE ss xe) ≤ errB ss xc δ := by
  induction ss generalizing xc xe δ with
  | nil => simpa [runC, runE, errB] using h
  | cons s ss ih =>
    have hs := hok s (by simp)
    simp only [runC, runE, List.foldl_cons, errB]
    apply ih (fun t ht => hok t (by simp [ht]))
    have a := dist_triangle (s.fc xc) (s.fe xc) (s.fe xe)
    have b := hs.err xc
    have c := hs.lip xc xe
    have d := mul_le_mul_of_nonneg_left h hs.L_nonneg
    linarith

/-- same input to both pipelines -/
theorem compose_err₀ (ss : List (Stage X)) (hok : ∀ s ∈ ss, s.OK) (x : X) :
    dist (runC ss x) (runE ss x) ≤ errB ss x 0 :=
  compose_err ss hok x x 0 (by simp)

/-- closed form under uniform bounds `ε_k ≤ E`, `L_k ≤ Λ`: `E (1 + Λ + … + Λ^(n-1)) + Λ^n δ` -/
theorem errB_uniform (ss : List (Stage X)) (hok : ∀ s ∈ ss, s.OK) (E Λ : ℝ)
    (hE : ∀ s ∈ ss, ∀ x, s.eps x ≤ E) (hΛ : ∀ s ∈ ss, s.L ≤ Λ) (x : X) (δ : ℝ) (hδ : 0 ≤ δ) :
    errB ss x δ ≤ E * (∑ k ∈ Finset.range ss.length, Λ ^ k) + Λ ^ ss.length * δ := by
  induction ss generalizing x δ with
  | nil => simp [errB]
  | cons s ss ih =>
    have hs := hok s (by simp)
    have hE1 := hE s (by simp) x
    have hL1 := hΛ s (by simp)
    have hL0 := hs.L_nonneg
    have hΛ0 : 0 ≤ Λ := hL0.trans hL1
    have heps0 : 0 ≤ s.eps x := dist_nonneg.trans (hs.err x)
    have hδ' : 0 ≤ s.eps x + s.L * δ := add_nonneg heps0 (mul_nonneg hL0 hδ)
    have := ih (fun t ht => hok t (by simp [ht])) (fun t ht => hE t (by simp [ht]))
      (fun t ht => hΛ t (by simp [ht])) (s.fc x) (s.eps x + s.L * δ) hδ'
    simp only [errB, List.length_cons]
    refine this.trans ?_
    rw [Finset.sum_range_succ, pow_succ]
    have hp : 0 ≤ Λ ^ ss.length := pow_nonneg hΛ0 _
    have h1 : s.L * δ ≤ Λ * δ := mul_le_mul_of_nonneg_right hL1 hδ
    have h2 : Λ ^ ss.length * (s.eps x + s.L * δ) ≤ Λ ^ ss.length * (E + Λ * δ) :=
      mul_le_mul_of_nonneg_left (by linarith) hp
    nlinarith

theorem compose_err_uniform (ss : List (Stage X)) (hok : ∀ s ∈ ss, s.OK) (E Λ : ℝ)
    (hE : ∀ s ∈ ss, ∀ x, s.eps x ≤ E) (hΛ : ∀ s ∈ ss, s.L ≤ Λ) (x : X) :
    dist (runC ss x) (runE ss x) ≤ E * (∑ k ∈ Finset.range ss.length, Λ ^ k) := by
  have := (compose_err₀ ss hok x).trans (errB_uniform ss hok E Λ hE hΛ x 0 le_rfl)
  simpa using this

/-! ## instances on executed model programs -/

variable {u : ℝ} {r : ℝ → ℝ} (e : Float → ℝ)

/-- run a chain of element-wise transforms of the model (each returning `(output, log-det)`), outputs only -/
def chainT (fs : List (ℝ → Except Err (ℝ × ℝ))) (x : ℝ) : Except Err ℝ :=
  fs.foldlM (fun a f => (f a).map Prod.fst) x

/-- the affine element as a stage: computed `fl(fl(x s) + t)`, exact `x s + t`, `ε(x) = (2u+u²)|x s| + u|t|`, `L = |s|` -/
def affStage (u : ℝ) (r : ℝ → ℝ) (p : ℝ × ℝ) : Stage ℝ where
  fc x := r (r (x * p.1) + p.2)
  fe x := x * p.1 + p.2
  eps x := (2 * u + u ^ 2) * |x * p.1| + u * |p.2|
  L := |p.1|

theorem affStage_ok (h : Rnd u r) (p : ℝ × ℝ) : (affStage u r p).OK where
  err x := by rw [Real.dist_eq]; exact fma_err h p.1 p.2 x
  lip x y := by
    simp only [affStage, Real.dist_eq]
    have e1 : x * p.1 + p.2 - (y * p.1 + p.2) = p.1 * (x - y) := by ring
    rw [e1, abs_mul]
  L_nonneg := abs_nonneg _

/-- the executed chain of affine elements at rounding `r` is `runC` of the affine stages … -/
theorem chainT_affine_rnd (ps : List (ℝ × ℝ)) (x : ℝ) :
    chainT (ps.map fun p => affineT (rndX r e) p.1 p.2 false) x = .ok (runC (ps.map (affStage u r)) x) := by
  induction ps generalizing x with
  | nil => rfl
  | cons p ps ih =>
    simp only [chainT, List.map_cons, List.foldlM_cons, affineT_rnd_fwd, runC, List.foldl_cons] at ih ⊢
    exact ih _

/-- … and at the reals is `runE` of the same stages -/
theorem chainT_affine_real (ps : List (ℝ × ℝ)) (x : ℝ) :
    chainT (ps.map fun p => affineT (NF.realX e) p.1 p.2 false) x = .ok (runE (ps.map (affStage u r)) x) := by
  induction ps generalizing x with
  | nil => rfl
  | cons p ps ih =>
    simp only [chainT, List.map_cons, List.foldlM_cons, affineT_real_fwd, runE, List.foldl_cons] at ih ⊢
    exact ih _

/-- **a chain of `n` affine elements, executed**: the computed output is within the explicit `errB` of the exact one -/
theorem affineChain_err (h : Rnd u r) (ps : List (ℝ × ℝ)) (x : ℝ) {y y' : ℝ}
    (hc : chainT (ps.map fun p => affineT (rndX r e) p.1 p.2 false) x = .ok y)
    (he : chainT (ps.map fun p => affineT (NF.realX e) p.1 p.2 false) x = .ok y') :
    |y - y'| ≤ errB (ps.map (affStage u r)) x 0 := by
  rw [chainT_affine_rnd (u := u)] at hc; rw [chainT_affine_real (u := u) (r := r)] at he
  simp only [Except.ok.injEq] at hc he
  subst hc; subst he
  rw [← Real.dist_eq]
  apply compose_err₀
  intro s hs
  obtain ⟨p, -, rfl⟩ := List.mem_map.mp hs
  exact affStage_ok h p

/-- **`f32_f64_agree` for a whole chain of affine elements** -/
theorem f32_f64_agree_chain {u32 u64 : ℝ} {r32 r64 : ℝ → ℝ} (h32 : Rnd u32 r32) (h64 : Rnd u64 r64)
    (ps : List (ℝ × ℝ)) (x : ℝ) {y y' : ℝ}
    (hc : chainT (ps.map fun p => affineT (rndX r32 e) p.1 p.2 false) x = .ok y)
    (he : chainT (ps.map fun p => affineT (rndX r64 e) p.1 p.2 false) x = .ok y') :
    |y - y'| ≤ errB (ps.map (affStage u32 r32)) x 0 + errB (ps.map (affStage u64 r64)) x 0 :=
  tri (affineChain_err e h32 ps x hc (chainT_affine_real (u := u32) (r := r32) e ps x))
    (by
      have := affineChain_err e h64 ps x he (chainT_affine_real (u := u64) (r := r64) e ps x)
      have e1 : runE (ps.map (affStage u64 r64)) x = runE (ps.map (affStage u32 r32)) x := by
        simp only [runE, List.foldl_map]; rfl
      rwa [e1] at this)

/-- the exact LeakyReLU is `max 1 |σ|`-Lipschitz -/
theorem leaky_lip (σ x y : ℝ) :
    |(if x < 0 then σ * x else x) - (if y < 0 then σ * y else y)| ≤ max 1 |σ| * |x - y| := by
  have h1 : (1 : ℝ) ≤ max 1 |σ| := le_max_left _ _
  have h2 : |σ| ≤ max 1 |σ| := le_max_right _ _
  have hm : 0 ≤ max 1 |σ| := by linarith
  by_cases hx : x < 0 <;> by_cases hy : y < 0 <;> simp only [hx, hy, if_true, if_false]
  · have e1 : σ * x - σ * y = σ * (x - y) := by ring
    rw [e1, abs_mul]
    exact mul_le_mul_of_nonneg_right h2 (abs_nonneg _)
  · rw [not_lt] at hy
    have hxy : |x - y| = y - x := by rw [abs_of_neg (by linarith)]; ring
    have a1 : |σ * x - y| ≤ |σ| * (-x) + y := by
      have := abs_sub (σ * x) y
      rw [abs_mul, abs_of_neg hx, abs_of_nonneg hy] at this
      exact this
    have a2 : |σ| * (-x) ≤ max 1 |σ| * (-x) := mul_le_mul_of_nonneg_right h2 (by linarith)
    have a3 : y ≤ max 1 |σ| * y := by nlinarith
    rw [hxy]; nlinarith
  · rw [not_lt] at hx
    have hxy : |x - y| = x - y := abs_of_pos (by linarith)
    have a1 : |x - σ * y| ≤ x + |σ| * (-y) := by
      have := abs_sub x (σ * y)
      rw [abs_mul, abs_of_neg hy, abs_of_nonneg hx] at this
      exact this
    have a2 : |σ| * (-y) ≤ max 1 |σ| * (-y) := mul_le_mul_of_nonneg_right h2 (by linarith)
    have a3 : x ≤ max 1 |σ| * x := by nlinarith
    rw [hxy]; nlinarith
  · nlinarith [abs_nonneg (x - y)]

/-- **affine element followed by LeakyReLU, both executed** (a two-stage flow on one element): the error is the
    LeakyReLU rounding error at the COMPUTED intermediate value `a` plus `max 1 |σ|` times the affine error. -/
theorem affine_leaky_err (h : Rnd u r) (s t : ℝ) (slope : Float) (L x : ℝ) {a la z lz a' la' z' lz' : ℝ}
    (h1c : affineT (rndX r e) s t false x = .ok (a, la))
    (h2c : leakyReluT (rndX r e) slope L false a = .ok (z, lz))
    (h1e : affineT (NF.realX e) s t false x = .ok (a', la'))
    (h2e : leakyReluT (NF.realX e) slope L false a' = .ok (z', lz')) :
    |z - z'| ≤ (if a < 0 then (2 * u + u ^ 2) * |e slope * a| else 0)
        + max 1 |e slope| * ((2 * u + u ^ 2) * |x * s| + u * |t|) := by
  have hA := (affineT_fwd_err e h s t x h1c h1e).1
  -- the exact second stage at the computed intermediate value
  have hmid := leakyReluT_real e slope L a
  have hB := (leakyReluT_fwd_err e h slope L a h2c hmid).1
  rw [leakyReluT_real] at h2e
  simp only [Except.ok.injEq, Prod.mk.injEq] at h2e
  obtain ⟨rfl, -⟩ := h2e
  have hC := leaky_lip (e slope) a a'
  have hm : 0 ≤ max 1 |e slope| := le_trans zero_le_one (le_max_left _ _)
  have hD := mul_le_mul_of_nonneg_left hA hm
  have := abs_sub_le z (if a < 0 then e slope * a else a) (if a' < 0 then e slope * a' else a')
  linarith

/-! ## refinement: idempotent rounding gives the classical exponent `n` for inner products -/

/-- a rounding that fixes its own values (true of IEEE rounding: representable numbers round to themselves) -/
structure RndIdem (u : ℝ) (r : ℝ → ℝ) : Prop extends Rnd u r where
  idem : ∀ x, r (r x) = r x

theorem foldl_map_err_idem (h : RndIdem u r) (qs : List ℝ) :
    |(qs.map r).foldl (fun a x => r (a + x)) 0 - qs.sum| ≤ ((1 + u) ^ qs.length - 1) * absSum qs := by
  cases qs with
  | nil => simp
  | cons q qs =>
    have h0 := h.toRnd
    simp only [List.map_cons, List.foldl_cons, zero_add, h.idem, List.length_cons]
    have h1 := foldl_err h0 (qs.map r) (r q)
    simp only [List.length_map] at h1
    have h2 := absSum_map_le h0 (q :: qs)
    have h3 := sum_map_err h0 (q :: qs)
    simp only [List.map_cons, absSum_cons, List.sum_cons] at h2 h3
    set g := (1 + u) ^ qs.length with hg
    have hg1 : 1 ≤ g := one_le_pow1 h0 _
    have h4 : (g - 1) * (|r q| + absSum (qs.map r)) ≤ (g - 1) * ((1 + u) * (|q| + absSum qs)) :=
      mul_le_mul_of_nonneg_left h2 (by linarith)
    have h5 := abs_add_le ((qs.map r).foldl (fun a x => r (a + x)) (r q) - (r q + (qs.map r).sum))
      (r q + (qs.map r).sum - (q + qs.sum))
    simp only [sub_add_sub_cancel] at h5
    rw [pow_succ, List.sum_cons, absSum_cons]
    nlinarith

/-- **`LF.dot`, executed, idempotent rounding**: Higham's `|fl(x·y) - x·y| ≤ ((1+u)^n - 1) Σ|x_i||y_i|` -/
theorem dot_err_idem (h : RndIdem u r) (xs ys : List ℝ) :
    |LF.dot (rndOps r) xs ys - LF.dot realOps xs ys|
      ≤ ((1 + u) ^ (min xs.length ys.length) - 1) * absDot xs ys := by
  rw [dot_real, absDot_eq]
  unfold LF.dot LF.sum
  rw [h.toRnd.zeroLF, zipWith_rmul]
  have := foldl_map_err_idem h (List.zipWith (· * ·) xs ys)
  rw [List.length_zipWith] at this
  exact this

theorem f32_f64_agree_dot_idem {u32 u64 : ℝ} {r32 r64 : ℝ → ℝ} (h32 : RndIdem u32 r32) (h64 : RndIdem u64 r64)
    (xs ws : List ℝ) :
    |LF.dot (rndOps r32) xs ws - LF.dot (rndOps r64) xs ws|
      ≤ (((1 + u32) ^ (min xs.length ws.length) - 1) + ((1 + u64) ^ (min xs.length ws.length) - 1))
          * absDot xs ws := by
  have := tri (dot_err_idem h32 xs ws) (dot_err_idem h64 xs ws)
  linarith

/-- the identity is an idempotent rounding -/
theorem rndIdem_id : RndIdem 0 id := { rnd_id with idem := fun _ => rfl }

/-- a non-trivial idempotent rounding with `u > 0`: only `1` is not representable and rounds up to `1 + u` -/
theorem rndIdem_example {u : ℝ} (hu : 0 < u) : RndIdem u (fun x => if x = 1 then 1 + u else x) where
  u_nonneg := hu.le
  err x := by
    by_cases hx : x = 1
    · subst hx; simp [abs_of_pos hu]
    · simp only [hx, if_false, sub_self, abs_zero]
      exact mul_nonneg hu.le (abs_nonneg _)
  idem x := by
    by_cases hx : x = 1
    · have : (1 : ℝ) + u ≠ 1 := by linarith
      simp [hx, this]
    · simp [hx]

theorem rndIdem_example_ne_id {u : ℝ} (hu : 0 < u) : (fun x : ℝ => if x = 1 then 1 + u else x) ≠ id := by
  intro h
  have := congrFun h 1
  simp at this
  linarith

/-! ## the executed `XOps.sigmoid` -/

/-- **`XOps.sigmoid`, executed** (`fl(fl 1 / fl(fl 1 + fl(exp(-x))))`): relative error
    `(1+u)(3u+u²)/(1-2u-u²) + u` (≈ `4u`), valid whenever `2u + u² < 1`. -/
theorem sigmoid_err (h : Rnd u r) (hγ : 2 * u + u ^ 2 < 1) (x : ℝ) :
    |(rndX r e).sigmoid x - (NF.realX e).sigmoid x|
      ≤ ((1 + u) * ((3 * u + u ^ 2) / (1 - (2 * u + u ^ 2))) + u) * (1 / (1 + Real.exp (-x))) := by
  rw [NF.realX_sigmoid]
  simp only [XOps.sigmoid, rndX_div, rndX_add, rndX_exp, rndX_neg]
  have h1 := h.oneX e
  have hu := h.u_nonneg
  generalize (rndX r e).one = o1 at h1 ⊢
  have hE : 0 < Real.exp (-x) := Real.exp_pos _
  generalize Real.exp (-x) = E at hE ⊢
  have hS : 0 < 1 + E := by linarith
  have h2 : |r E - E| ≤ u * E := by have := h.err E; rwa [abs_of_pos hE] at this
  have h3 : |(o1 + r E) - (1 + E)| ≤ u * (1 + E) := by
    have := abs_add_le (o1 - 1) (r E - E)
    have e1 : o1 - 1 + (r E - E) = (o1 + r E) - (1 + E) := by ring
    rw [e1] at this
    linarith
  have h4 := h.approx h3
  rw [abs_of_pos hS] at h4
  generalize r (o1 + r E) = D at h4 ⊢
  have h4' : |D - (1 + E)| ≤ (2 * u + u ^ 2) * (1 + E) := by
    refine h4.trans (le_of_eq ?_); ring
  have hD : (1 - (2 * u + u ^ 2)) * (1 + E) ≤ D := by
    have := (abs_le.mp h4').1
    linarith
  have hc : 0 < 1 - (2 * u + u ^ 2) := by linarith
  have hDpos : 0 < D := lt_of_lt_of_le (mul_pos hc hS) hD
  have hnum : |o1 * (1 + E) - D| ≤ (3 * u + u ^ 2) * (1 + E) := by
    have := abs_add_le ((o1 - 1) * (1 + E)) ((1 + E) - D)
    have e1 : (o1 - 1) * (1 + E) + ((1 + E) - D) = o1 * (1 + E) - D := by ring
    rw [e1, abs_mul, abs_of_pos hS, abs_sub_comm (1 + E) D] at this
    have := mul_le_mul_of_nonneg_right h1 hS.le
    linarith
  have h5 : |o1 / D - 1 / (1 + E)| ≤ (3 * u + u ^ 2) / (1 - (2 * u + u ^ 2)) * (1 / (1 + E)) := by
    have e1 : o1 / D - 1 / (1 + E) = (o1 * (1 + E) - D) / (D * (1 + E)) := by
      field_simp
    rw [e1, abs_div, abs_of_pos (mul_pos hDpos hS), div_le_iff₀ (mul_pos hDpos hS)]
    refine hnum.trans ?_
    have e2 : (3 * u + u ^ 2) / (1 - (2 * u + u ^ 2)) * (1 / (1 + E)) * (D * (1 + E))
        = (3 * u + u ^ 2) * (D / (1 - (2 * u + u ^ 2))) := by
      field_simp
    rw [e2]
    apply mul_le_mul_of_nonneg_left _ (by positivity)
    rw [le_div_iff₀ hc]
    linarith
  have h6 := h.approx h5
  rw [abs_of_pos (by positivity : (0:ℝ) < 1 / (1 + E))] at h6
  refine h6.trans (le_of_eq ?_)
  ring

/-! ## `sumLog` (the log-abs-det of LU / SVD given the diagonal), executed -/

/-- **`LF.sumLog`, executed**: `|fl Σ log d_i - Σ log d_i| ≤ ((1+u)^(n+1) - 1) Σ|log d_i|` — the log-det of `LULinear`
    / `SVDLinear` agrees across precisions relative to `Σ|log d_i|` (NOT to `|Σ log d_i|`, which may cancel). -/
theorem sumLog_err (h : Rnd u r) (d : List ℝ) :
    |LF.sumLog (rndOps r) d - LF.sumLog realOps d|
      ≤ ((1 + u) ^ (d.length + 1) - 1) * absSum (d.map Real.log) := by
  unfold LF.sumLog
  rw [LFTriSolve.sum_real]
  unfold LF.sum
  rw [h.zeroLF]
  have e1 : d.map (rndOps r).log = (d.map Real.log).map r := by
    rw [List.map_map]; rfl
  have e2 : d.map realOps.log = d.map Real.log := rfl
  rw [e1, e2]
  have := foldl_map_err h (d.map Real.log)
  rwa [List.length_map] at this

/-! ## the classical `γ_n` form of the constants -/

theorem pow_mul_le_one {u : ℝ} (hu : 0 ≤ u) (n : ℕ) : (1 + u) ^ n * (1 - n * u) ≤ 1 := by
  induction n with
  | zero => simp
  | succ n ih =>
    have hp : 0 ≤ (1 + u) ^ n := pow_nonneg (by linarith) _
    have hn : (0 : ℝ) ≤ n := Nat.cast_nonneg n
    have h1 : (1 + u) * (1 - ((n : ℝ) + 1) * u) ≤ 1 - n * u := by nlinarith [mul_nonneg hn (mul_nonneg hu hu), mul_nonneg hu hu]
    have h2 := mul_le_mul_of_nonneg_left h1 hp
    rw [pow_succ]; push_cast
    nlinarith

/-- `(1+u)^n - 1 ≤ γ_n = n u / (1 - n u)` when `n u < 1` (Higham Lemma 3.1) -/
theorem pow_sub_one_le_gamma {u : ℝ} (hu : 0 ≤ u) (n : ℕ) (hn : n * u < 1) :
    (1 + u) ^ n - 1 ≤ n * u / (1 - n * u) := by
  have hc : 0 < 1 - n * u := by linarith
  rw [le_div_iff₀ hc]
  have := pow_mul_le_one hu n
  nlinarith

/-- **`f32_f64_agree`, inner product, in `γ` form**: `(γ_{n+1}(u32) + γ_{n+1}(u64)) Σ|x_i||w_i|` -/
theorem f32_f64_agree_dot_gamma {u32 u64 : ℝ} {r32 r64 : ℝ → ℝ} (h32 : Rnd u32 r32) (h64 : Rnd u64 r64)
    (xs ws : List ℝ) (n : ℕ) (hn : n = min xs.length ws.length + 1)
    (h1 : n * u32 < 1) (h2 : n * u64 < 1) :
    |LF.dot (rndOps r32) xs ws - LF.dot (rndOps r64) xs ws|
      ≤ (n * u32 / (1 - n * u32) + n * u64 / (1 - n * u64)) * absDot xs ws := by
  subst hn
  refine (f32_f64_agree_dot h32 h64 xs ws).trans ?_
  apply mul_le_mul_of_nonneg_right _ (absDot_nonneg _ _)
  have a := pow_sub_one_le_gamma h32.u_nonneg _ h1
  have b := pow_sub_one_le_gamma h64.u_nonneg _ h2
  linarith

/-! ## the Sigmoid element (forward output), executed: an instance of `two_stage_err` -/

/-- the logistic function is 1-Lipschitz (sharp constant is 1/4; 1 suffices here) -/
theorem sigmoid_lip (a b : ℝ) :
    |1 / (1 + Real.exp (-a)) - 1 / (1 + Real.exp (-b))| ≤ |a - b| := by
  wlog hab : a ≤ b generalizing a b
  · have := this b a (by linarith)
    rwa [abs_sub_comm, abs_sub_comm b a] at this
  have hA : 0 < Real.exp (-a) := Real.exp_pos _
  have hB : 0 < Real.exp (-b) := Real.exp_pos _
  have hBA : Real.exp (-b) ≤ Real.exp (-a) := Real.exp_le_exp.mpr (by linarith)
  -- exp(-a) - exp(-b) ≤ exp(-a) (b - a)
  have hkey : Real.exp (-a) - Real.exp (-b) ≤ Real.exp (-a) * (b - a) := by
    have h1 : Real.exp (-b) = Real.exp (-a) * Real.exp (-(b - a)) := by
      rw [← Real.exp_add]; congr 1; ring
    have h2 := Real.add_one_le_exp (-(b - a))
    rw [h1]; nlinarith
  have e1 : 1 / (1 + Real.exp (-a)) - 1 / (1 + Real.exp (-b))
      = -((Real.exp (-a) - Real.exp (-b)) / ((1 + Real.exp (-a)) * (1 + Real.exp (-b)))) := by
    field_simp; ring
  have hden : 0 < (1 + Real.exp (-a)) * (1 + Real.exp (-b)) := by positivity
  rw [e1, abs_neg, abs_div, abs_of_pos hden, abs_of_nonneg (by linarith), abs_sub_comm, abs_of_nonneg (by linarith),
    div_le_iff₀ hden]
  have : 0 ≤ b - a := by linarith
  nlinarith [mul_nonneg this hA.le, mul_nonneg this hB.le, mul_nonneg (mul_nonneg this hA.le) hB.le]

/-- **forward Sigmoid element, executed, output** (`sigmoid(fl(T x))` computed as `XOps.sigmoid`):
    `κ · σ(fl(T x)) + u |T x|` with `κ = (1+u)(3u+u²)/(1-2u-u²) + u`; since `σ ≤ 1` this is `≤ κ + u|T x|`. -/
theorem sigmoidT_fwd_err (h : Rnd u r) (hγ : 2 * u + u ^ 2 < 1) (T : ℝ) (eps : Float) (x : ℝ) {y l y' l' : ℝ}
    (hc : sigmoidT (rndX r e) T eps false x = .ok (y, l))
    (he : sigmoidT (NF.realX e) T eps false x = .ok (y', l')) :
    |y - y'| ≤ ((1 + u) * ((3 * u + u ^ 2) / (1 - (2 * u + u ^ 2))) + u) * (1 / (1 + Real.exp (-r (T * x))))
        + u * |T * x| := by
  simp only [sigmoidT, Bool.false_eq_true, if_false, Except.ok.injEq, Prod.mk.injEq, rndX_mul, realX_mul] at hc he
  obtain ⟨rfl, -⟩ := hc; obtain ⟨rfl, -⟩ := he
  have := two_stage_err (W := ℝ) (fun x => r (T * x)) (fun x => T * x)
    (fun z => (rndX r e).sigmoid z) (fun z => (NF.realX e).sigmoid z)
    (fun x => u * |T * x|)
    (fun z => ((1 + u) * ((3 * u + u ^ 2) / (1 - (2 * u + u ^ 2))) + u) * (1 / (1 + Real.exp (-z)))) 1
    (fun x => by rw [Real.dist_eq]; exact h.err _)
    (fun z => by rw [Real.dist_eq]; exact sigmoid_err e h hγ z)
    (fun a b => by
      rw [Real.dist_eq, Real.dist_eq, NF.realX_sigmoid, NF.realX_sigmoid, one_mul]; exact sigmoid_lip a b)
    zero_le_one x
  rw [Real.dist_eq, one_mul] at this
  exact this

/-! ## the headline's hypotheses are jointly satisfiable at the binary32 / binary64 unit roundoffs -/

/-- two different non-identity roundings with `u32 = 2^-24`, `u64 = 2^-53`, and the headline instantiated at them on a
    concrete inner product of length 3 (`n + 1 = 4`) -/
theorem agree_example :
    ∃ r32 r64 : ℝ → ℝ, Rnd ((2 : ℝ) ^ (-24 : ℤ)) r32 ∧ Rnd ((2 : ℝ) ^ (-53 : ℤ)) r64 ∧ r32 1 ≠ r64 1 ∧ r32 1 ≠ 1 ∧
      |LF.dot (rndOps r32) [1, 2, 3] [4, 5, 6] - LF.dot (rndOps r64) [1, 2, 3] [4, 5, 6]|
        ≤ (((1 + (2 : ℝ) ^ (-24 : ℤ)) ^ 4 - 1) + ((1 + (2 : ℝ) ^ (-53 : ℤ)) ^ 4 - 1)) * 32 := by
  refine ⟨_, _, rnd_scale_f32, rnd_scale_f64, ?_, ?_, ?_⟩
  · norm_num
  · norm_num
  · have := f32_f64_agree_dot rnd_scale_f32 rnd_scale_f64 [1, 2, 3] [4, 5, 6]
    have e1 : absDot [1, 2, 3] [4, 5, 6] = 32 := by
      simp [absDot]; norm_num
    rw [e1] at this
    exact this

end
end RoundModel
