import NflowsModel.Core.Nonlin
import NflowsModel.Core.LinearFamily
import NflowsModel.Real.RealX
import NflowsModel.Lemmas.LFTriSolve
import Mathlib.Tactic
/-!
# Lemmas/RoundModel — the standard model of floating-point arithmetic for the executable model (C19, numeric clause)

`Rnd u r` says that `r : ℝ → ℝ` is a rounding with unit roundoff `u`: `|r x - x| ≤ u * |x|` for every real `x`
(Higham, *Accuracy and Stability of Numerical Algorithms*, (2.4): `fl(x op y) = (x op y)(1 + δ)`, `|δ| ≤ u`).
`rndX r e : XOps ℝ` is `NF.realX e` with every arithmetic / transcendental primitive post-composed with `r`
(`add sub mul div exp log sqrt tanh atan tan cos sin atan2 ofRat ofFloat`; `neg`, `abs`, `floor`, comparisons are exact).
It is the model of **the same program run in a precision with unit roundoff `u`, without overflow / underflow**
(and with transcendental kernels as accurate as one rounding; a kernel accurate to `k` ulp is covered by `u := k·u`).

The theorems below are about EXECUTED model programs (`affineT`, `scaleShiftT`, `leakyReluT`, `expT`,
`LF.sum`, `sumG`, `LF.dot`, `LF.matVec`, `LF.linear`) run at `rndX r e` versus the same programs run at `NF.realX e`,
for ANY `u`, `r` with `Rnd u r`; all bounds are explicit.

**Realised, then TRUSTED:** `Lemmas/RoundNearest.lean` defines round-to-nearest-even to `p` significant bits with an unbounded
exponent (`fl p`), proves `Rnd 2^-p (fl p)` at every real (Higham Thm 2.2) and that any function meeting IEEE-754's
`roundTiesToEven` specification equals `fl 24` / `fl 53` on the normal range of binary32 / binary64.  What stays an assumption
(Lean's `Float`/`Float32` are opaque to the kernel): the driver's primitives at `float32X` / `floatX` are correctly rounded and
no intermediate result overflows or becomes subnormal — then its run is the run at `rndX (fl 24) e` / `rndX (fl 53) e`.
No monotonicity of `r` is needed: the only comparisons the programs below make are against `o.zero = r 0 = 0`.
-/
open NF DualSound

namespace RoundModel
noncomputable section

/-- `r` is a rounding with unit roundoff `u` (standard model, no overflow / underflow) -/
structure Rnd (u : ℝ) (r : ℝ → ℝ) : Prop where
  u_nonneg : 0 ≤ u
  err : ∀ x, |r x - x| ≤ u * |x|

/-- the `Ops ℝ` of a program run with rounding `r` -/
def rndOps (r : ℝ → ℝ) : Ops ℝ where
  ofRat n d := r ((n : ℝ) / (d : ℝ))
  add a b := r (a + b)
  sub a b := r (a - b)
  mul a b := r (a * b)
  div a b := r (a / b)
  neg a := -a
  exp a := r (Real.exp a)
  log a := r (Real.log a)
  sqrt a := r (Real.sqrt a)
  lt := realOps.lt

/-- the `XOps ℝ` of a program run with rounding `r`; Python-side double constants are rounded on entry -/
def rndX (r : ℝ → ℝ) (e : Float → ℝ) : XOps ℝ :=
  { NF.realX e with
    toOps := rndOps r
    ofFloat := fun x => r (e x)
    tanh := fun a => r (Real.tanh a)
    atan := fun a => r (Real.arctan a)
    tan := fun a => r (Real.tan a)
    cos := fun a => r (Real.cos a)
    sin := fun a => r (Real.sin a)
    atan2 := fun y x => r (Complex.arg ⟨x, y⟩) }

variable {u : ℝ} {r : ℝ → ℝ} (e : Float → ℝ)

/-! ## field lemmas (all `rfl`) -/
section fields
variable (r)
@[simp] theorem rndX_add (a b : ℝ) : (rndX r e).add a b = r (a + b) := rfl
@[simp] theorem rndX_sub (a b : ℝ) : (rndX r e).sub a b = r (a - b) := rfl
@[simp] theorem rndX_mul (a b : ℝ) : (rndX r e).mul a b = r (a * b) := rfl
@[simp] theorem rndX_div (a b : ℝ) : (rndX r e).div a b = r (a / b) := rfl
@[simp] theorem rndX_neg (a : ℝ) : (rndX r e).neg a = -a := rfl
@[simp] theorem rndX_exp (a : ℝ) : (rndX r e).exp a = r (Real.exp a) := rfl
@[simp] theorem rndX_log (a : ℝ) : (rndX r e).log a = r (Real.log a) := rfl
@[simp] theorem rndX_sqrt (a : ℝ) : (rndX r e).sqrt a = r (Real.sqrt a) := rfl
@[simp] theorem rndX_tanh (a : ℝ) : (rndX r e).tanh a = r (Real.tanh a) := rfl
@[simp] theorem rndX_abs (a : ℝ) : (rndX r e).abs a = |a| := rfl
@[simp] theorem rndX_ofRat (n : Int) (d : Nat) : (rndX r e).ofRat n d = r ((n : ℝ) / (d : ℝ)) := rfl
@[simp] theorem rndX_ofFloat (x : Float) : (rndX r e).ofFloat x = r (e x) := rfl
@[simp] theorem rndX_lt (a b : ℝ) : (rndX r e).lt a b = decide (a < b) := rfl
@[simp] theorem rndX_le (a b : ℝ) : (rndX r e).le a b = decide (a ≤ b) := rfl
@[simp] theorem rndX_toOps : (rndX r e).toOps = rndOps r := rfl
@[simp] theorem rndOps_add (a b : ℝ) : (rndOps r).add a b = r (a + b) := rfl
@[simp] theorem rndOps_sub (a b : ℝ) : (rndOps r).sub a b = r (a - b) := rfl
@[simp] theorem rndOps_mul (a b : ℝ) : (rndOps r).mul a b = r (a * b) := rfl
@[simp] theorem rndOps_div (a b : ℝ) : (rndOps r).div a b = r (a / b) := rfl
@[simp] theorem rndOps_neg (a : ℝ) : (rndOps r).neg a = -a := rfl
@[simp] theorem rndOps_exp (a : ℝ) : (rndOps r).exp a = r (Real.exp a) := rfl
@[simp] theorem rndOps_log (a : ℝ) : (rndOps r).log a = r (Real.log a) := rfl
@[simp] theorem rndOps_sqrt (a : ℝ) : (rndOps r).sqrt a = r (Real.sqrt a) := rfl
@[simp] theorem rndOps_ofRat (n : Int) (d : Nat) : (rndOps r).ofRat n d = r ((n : ℝ) / (d : ℝ)) := rfl
@[simp] theorem rndOps_lt (a b : ℝ) : (rndOps r).lt a b = decide (a < b) := rfl
end fields

/-! ## consequences of `Rnd` -/
namespace Rnd
variable (h : Rnd u r)
include h

theorem zero : r 0 = 0 := by
  have := h.err 0
  simp only [sub_zero, abs_zero, mul_zero] at this
  exact abs_eq_zero.mp (le_antisymm this (abs_nonneg _))

/-- `|fl x| ≤ (1+u)|x|` -/
theorem abs_le (x : ℝ) : |r x| ≤ (1 + u) * |x| := by
  have h1 := h.err x
  have h2 : |r x| ≤ |r x - x| + |x| := by
    have := abs_add_le (r x - x) x
    simpa using this
  linarith

/-- rounding a perturbed argument: `|x̃ - x| ≤ δ → |fl x̃ - x| ≤ u (|x| + δ) + δ` -/
theorem approx {x x' δ : ℝ} (hx : |x' - x| ≤ δ) : |r x' - x| ≤ u * (|x| + δ) + δ := by
  have h1 := h.err x'
  have h2 : |x'| ≤ |x| + δ := by
    have := abs_add_le (x' - x) x
    simp only [sub_add_cancel] at this
    linarith
  have h3 : |r x' - x| ≤ |r x' - x'| + |x' - x| := by
    have := abs_add_le (r x' - x') (x' - x)
    simpa using this
  have h4 : u * |x'| ≤ u * (|x| + δ) := mul_le_mul_of_nonneg_left h2 h.u_nonneg
  linarith

theorem zeroX : (rndX r e).zero = 0 := by
  simp only [XOps.zero, rndX_ofRat]
  norm_num
  exact h.zero

theorem zeroLF : LF.zero (rndOps r) = 0 := by
  show r (((0 : ℤ) : ℝ) / ((1 : ℕ) : ℝ)) = 0
  norm_num
  exact h.zero

/-- `|fl 1 - 1| ≤ u` (the model rounds even the literal one) -/
theorem oneX : |(rndX r e).one - 1| ≤ u := by
  simp only [XOps.one, rndX_ofRat]
  have := h.err 1
  norm_num at this ⊢
  exact this

end Rnd

/-! ## (a) the affine element, executed -/

theorem affineT_rnd_fwd (s t x : ℝ) :
    affineT (rndX r e) s t false x = .ok (r (r (x * s) + t), r (Real.log |s|)) := rfl
theorem affineT_rnd_inv (s t x : ℝ) :
    affineT (rndX r e) s t true x = .ok (r (r (x - t) / s), -r (Real.log |s|)) := rfl
theorem affineT_real_fwd (s t x : ℝ) :
    affineT (NF.realX e) s t false x = .ok (x * s + t, Real.log |s|) := rfl
theorem affineT_real_inv (s t x : ℝ) :
    affineT (NF.realX e) s t true x = .ok ((x - t) / s, -Real.log |s|) := rfl
theorem scaleShiftT_rnd_fwd (s t x : ℝ) :
    scaleShiftT (rndX r e) s t false x = .ok (r (r (x * s) + t), r (Real.log s)) := rfl
theorem scaleShiftT_rnd_inv (s t x : ℝ) :
    scaleShiftT (rndX r e) s t true x = .ok (r (r (x - t) / s), -r (Real.log s)) := rfl
theorem scaleShiftT_real_fwd (s t x : ℝ) :
    scaleShiftT (NF.realX e) s t false x = .ok (x * s + t, Real.log s) := rfl
theorem scaleShiftT_real_inv (s t x : ℝ) :
    scaleShiftT (NF.realX e) s t true x = .ok ((x - t) / s, -Real.log s) := rfl

/-- `fl(fl(x s) + t)` against `x s + t`: `(2u + u²)|x s| + u|t|` -/
theorem fma_err (h : Rnd u r) (s t x : ℝ) :
    |r (r (x * s) + t) - (x * s + t)| ≤ (2 * u + u ^ 2) * |x * s| + u * |t| := by
  have h1 : |(r (x * s) + t) - (x * s + t)| ≤ u * |x * s| := by
    have := h.err (x * s)
    have e1 : (r (x * s) + t) - (x * s + t) = r (x * s) - x * s := by ring
    rw [e1]; exact this
  have h2 := h.approx h1
  have h3 : |x * s + t| ≤ |x * s| + |t| := abs_add_le _ _
  have h4 : u * (|x * s + t| + u * |x * s|) ≤ u * (|x * s| + |t| + u * |x * s|) :=
    mul_le_mul_of_nonneg_left (by linarith) h.u_nonneg
  nlinarith

/-- `fl(fl(x - t) / s)` against `(x - t) / s`: relative error `2u + u²` -/
theorem subdiv_err (h : Rnd u r) (s t x : ℝ) :
    |r (r (x - t) / s) - (x - t) / s| ≤ (2 * u + u ^ 2) * |(x - t) / s| := by
  have h1 : |r (x - t) / s - (x - t) / s| ≤ u * |(x - t) / s| := by
    have e1 : r (x - t) / s - (x - t) / s = (r (x - t) - (x - t)) / s := by ring
    rw [e1, abs_div, abs_div, ← mul_div_assoc]
    exact div_le_div_of_nonneg_right (h.err _) (abs_nonneg s)
  have h2 := h.approx h1
  have : 0 ≤ |(x - t) / s| := abs_nonneg _
  nlinarith [h.u_nonneg]

/-- **(a) forward affine element, executed**: output error `(2u+u²)|x s| + u|t|` (relative to the magnitudes of
    the two summands, i.e. conditioning-scaled: NOT relative to `|x s + t|`), log-det error `u |log|s||`. -/
theorem affineT_fwd_err (h : Rnd u r) (s t x : ℝ) {y l y' l' : ℝ}
    (hc : affineT (rndX r e) s t false x = .ok (y, l))
    (he : affineT (NF.realX e) s t false x = .ok (y', l')) :
    |y - y'| ≤ (2 * u + u ^ 2) * |x * s| + u * |t| ∧ |l - l'| ≤ u * |Real.log (|s|)| := by
  rw [affineT_rnd_fwd] at hc; rw [affineT_real_fwd] at he
  simp only [Except.ok.injEq, Prod.mk.injEq] at hc he
  obtain ⟨rfl, rfl⟩ := hc; obtain ⟨rfl, rfl⟩ := he
  exact ⟨fma_err h s t x, h.err _⟩

/-- **(a) inverse affine element, executed**: relative error `2u+u²` on the output, `u |log|s||` on the log-det -/
theorem affineT_inv_err (h : Rnd u r) (s t x : ℝ) {y l y' l' : ℝ}
    (hc : affineT (rndX r e) s t true x = .ok (y, l))
    (he : affineT (NF.realX e) s t true x = .ok (y', l')) :
    |y - y'| ≤ (2 * u + u ^ 2) * |(x - t) / s| ∧ |l - l'| ≤ u * |Real.log (|s|)| := by
  rw [affineT_rnd_inv] at hc; rw [affineT_real_inv] at he
  simp only [Except.ok.injEq, Prod.mk.injEq] at hc he
  obtain ⟨rfl, rfl⟩ := hc; obtain ⟨rfl, rfl⟩ := he
  refine ⟨subdiv_err h s t x, ?_⟩
  have e1 : -r (Real.log |s|) - -Real.log |s| = -(r (Real.log |s|) - Real.log |s|) := by ring
  rw [e1, abs_neg]; exact h.err _

theorem scaleShiftT_fwd_err (h : Rnd u r) (s t x : ℝ) {y l y' l' : ℝ}
    (hc : scaleShiftT (rndX r e) s t false x = .ok (y, l))
    (he : scaleShiftT (NF.realX e) s t false x = .ok (y', l')) :
    |y - y'| ≤ (2 * u + u ^ 2) * |x * s| + u * |t| ∧ |l - l'| ≤ u * |Real.log s| := by
  rw [scaleShiftT_rnd_fwd] at hc; rw [scaleShiftT_real_fwd] at he
  simp only [Except.ok.injEq, Prod.mk.injEq] at hc he
  obtain ⟨rfl, rfl⟩ := hc; obtain ⟨rfl, rfl⟩ := he
  exact ⟨fma_err h s t x, h.err _⟩

theorem scaleShiftT_inv_err (h : Rnd u r) (s t x : ℝ) {y l y' l' : ℝ}
    (hc : scaleShiftT (rndX r e) s t true x = .ok (y, l))
    (he : scaleShiftT (NF.realX e) s t true x = .ok (y', l')) :
    |y - y'| ≤ (2 * u + u ^ 2) * |(x - t) / s| ∧ |l - l'| ≤ u * |Real.log s| := by
  rw [scaleShiftT_rnd_inv] at hc; rw [scaleShiftT_real_inv] at he
  simp only [Except.ok.injEq, Prod.mk.injEq] at hc he
  obtain ⟨rfl, rfl⟩ := hc; obtain ⟨rfl, rfl⟩ := he
  refine ⟨subdiv_err h s t x, ?_⟩
  have e1 : -r (Real.log s) - -Real.log s = -(r (Real.log s) - Real.log s) := by ring
  rw [e1, abs_neg]; exact h.err _

/-! ## (b) sums, inner products, matrix-vector products, executed -/

/-- `Σ |x_i|` -/
def absSum (xs : List ℝ) : ℝ := (xs.map fun x => |x|).sum
/-- `Σ |x_i| |y_i|` (over the common prefix, as `zipWith`) -/
def absDot (xs ys : List ℝ) : ℝ := (List.zipWith (fun a b => |a| * |b|) xs ys).sum

@[simp] theorem absSum_nil : absSum [] = 0 := rfl
@[simp] theorem absSum_cons (x : ℝ) (xs : List ℝ) : absSum (x :: xs) = |x| + absSum xs := by
  simp [absSum]
theorem absSum_nonneg (xs : List ℝ) : 0 ≤ absSum xs := by
  induction xs with
  | nil => simp
  | cons x xs ih => rw [absSum_cons]; have := abs_nonneg x; linarith
theorem abs_sum_le_absSum (xs : List ℝ) : |xs.sum| ≤ absSum xs := by
  induction xs with
  | nil => simp
  | cons x xs ih =>
    rw [absSum_cons, List.sum_cons]
    have := abs_add_le x xs.sum
    linarith
theorem absDot_eq (xs ys : List ℝ) : absDot xs ys = absSum (List.zipWith (· * ·) xs ys) := by
  unfold absDot absSum
  rw [List.map_zipWith]
  simp only [abs_mul]
theorem absDot_nonneg (xs ys : List ℝ) : 0 ≤ absDot xs ys := by
  rw [absDot_eq]; exact absSum_nonneg _

theorem one_le_pow1 (h : Rnd u r) (n : ℕ) : 1 ≤ (1 + u) ^ n :=
  one_le_pow₀ (by linarith [h.u_nonneg])

/-- the executed left fold with a rounded addition, from any accumulator:
    `|fl-fold acc xs - (acc + Σ xs)| ≤ ((1+u)^n - 1)(|acc| + Σ|x_i|)`, `n = length xs` -/
theorem foldl_err (h : Rnd u r) (xs : List ℝ) (acc : ℝ) :
    |xs.foldl (fun a x => r (a + x)) acc - (acc + xs.sum)|
      ≤ ((1 + u) ^ xs.length - 1) * (|acc| + absSum xs) := by
  induction xs generalizing acc with
  | nil => simp
  | cons x xs ih =>
    simp only [List.foldl_cons, List.sum_cons, List.length_cons, absSum_cons]
    have ih' := ih (r (acc + x))
    set F := xs.foldl (fun a x => r (a + x)) (r (acc + x)) with hF
    set g := (1 + u) ^ xs.length with hg
    have hg1 : 1 ≤ g := one_le_pow1 h _
    have hB : 0 ≤ absSum xs := absSum_nonneg xs
    have hu := h.u_nonneg
    have hA : |acc + x| ≤ |acc| + |x| := abs_add_le _ _
    have h1 : |r (acc + x) - (acc + x)| ≤ u * (|acc| + |x|) :=
      (h.err _).trans (mul_le_mul_of_nonneg_left hA hu)
    have h2 : |r (acc + x)| ≤ (1 + u) * (|acc| + |x|) :=
      (h.abs_le _).trans (mul_le_mul_of_nonneg_left hA (by linarith))
    have h3 : |F - (acc + (x + xs.sum))| ≤ |F - (r (acc + x) + xs.sum)| + |r (acc + x) - (acc + x)| := by
      have := abs_add_le (F - (r (acc + x) + xs.sum)) (r (acc + x) - (acc + x))
      have e1 : F - (r (acc + x) + xs.sum) + (r (acc + x) - (acc + x)) = F - (acc + (x + xs.sum)) := by ring
      rwa [e1] at this
    have h4 : (g - 1) * (|r (acc + x)| + absSum xs) ≤ (g - 1) * ((1 + u) * (|acc| + |x|) + absSum xs) :=
      mul_le_mul_of_nonneg_left (by linarith) (by linarith)
    have h5 : 0 ≤ g * u * absSum xs := mul_nonneg (mul_nonneg (by linarith) hu) hB
    rw [pow_succ]
    nlinarith

/-- **`LF.sum`, executed** (sequential `torch.sum`; the fold starts by ADDING the first element to zero, which the
    model rounds too, hence exponent `n` and not `n-1`): `|fl Σ - Σ| ≤ ((1+u)^n - 1) Σ|x_i|` -/
theorem sum_err (h : Rnd u r) (xs : List ℝ) :
    |LF.sum (rndOps r) xs - LF.sum realOps xs| ≤ ((1 + u) ^ xs.length - 1) * absSum xs := by
  rw [LFTriSolve.sum_real]
  have := foldl_err h xs 0
  simp only [zero_add, abs_zero] at this
  unfold LF.sum
  rw [h.zeroLF]
  exact this

/-- the same for `sumG` of `Core/Basic` (used by softmax, cumsum, …) -/
theorem sumG_err (h : Rnd u r) (xs : List ℝ) :
    |sumG (rndX r e) xs - sumG (NF.realX e) xs| ≤ ((1 + u) ^ xs.length - 1) * absSum xs := by
  rw [NF.sumG_real]
  have := foldl_err h xs 0
  simp only [zero_add, abs_zero] at this
  unfold sumG
  rw [h.zeroX]
  exact this

theorem absSum_map_le (h : Rnd u r) (qs : List ℝ) : absSum (qs.map r) ≤ (1 + u) * absSum qs := by
  induction qs with
  | nil => simp
  | cons q qs ih =>
    simp only [List.map_cons, absSum_cons]
    have := h.abs_le q
    nlinarith

theorem sum_map_err (h : Rnd u r) (qs : List ℝ) : |(qs.map r).sum - qs.sum| ≤ u * absSum qs := by
  induction qs with
  | nil => simp
  | cons q qs ih =>
    simp only [List.map_cons, List.sum_cons, absSum_cons]
    have h1 := h.err q
    have h2 := abs_add_le (r q - q) ((qs.map r).sum - qs.sum)
    have e1 : r q - q + ((qs.map r).sum - qs.sum) = r q + (qs.map r).sum - (q + qs.sum) := by ring
    rw [e1] at h2
    nlinarith

/-- a rounded fold over individually rounded terms: `((1+u)^(n+1) - 1) Σ|q_i|` -/
theorem foldl_map_err (h : Rnd u r) (qs : List ℝ) :
    |(qs.map r).foldl (fun a x => r (a + x)) 0 - qs.sum| ≤ ((1 + u) ^ (qs.length + 1) - 1) * absSum qs := by
  have h1 := foldl_err h (qs.map r) 0
  simp only [zero_add, abs_zero, List.length_map] at h1
  have h2 := absSum_map_le h qs
  have h3 := sum_map_err h qs
  set g := (1 + u) ^ qs.length with hg
  have hg1 : 1 ≤ g := one_le_pow1 h _
  have h4 : (g - 1) * absSum (qs.map r) ≤ (g - 1) * ((1 + u) * absSum qs) :=
    mul_le_mul_of_nonneg_left h2 (by linarith)
  have h5 := abs_add_le ((qs.map r).foldl (fun a x => r (a + x)) 0 - (qs.map r).sum) ((qs.map r).sum - qs.sum)
  simp only [sub_add_sub_cancel] at h5
  rw [pow_succ]
  nlinarith

theorem zipWith_rmul (xs ys : List ℝ) :
    List.zipWith (rndOps r).mul xs ys = (List.zipWith (· * ·) xs ys).map r := by
  rw [List.map_zipWith]; rfl

theorem dot_real (xs ys : List ℝ) : LF.dot realOps xs ys = (List.zipWith (· * ·) xs ys).sum := by
  unfold LF.dot; rw [LFTriSolve.sum_real]; rfl

/-- **`LF.dot`, executed** — the classical inner-product bound (Higham (3.4)), conditioning-scaled:
    `|fl(x·y) - x·y| ≤ ((1+u)^(n+1) - 1) Σ|x_i||y_i|`, `n = min (length x) (length y)`.
    (`n` additions — the first one is `0 + x₁y₁`, rounded by the model — plus one rounding per product.) -/
theorem dot_err (h : Rnd u r) (xs ys : List ℝ) :
    |LF.dot (rndOps r) xs ys - LF.dot realOps xs ys|
      ≤ ((1 + u) ^ (min xs.length ys.length + 1) - 1) * absDot xs ys := by
  rw [dot_real, absDot_eq]
  unfold LF.dot LF.sum
  rw [h.zeroLF, zipWith_rmul]
  have := foldl_map_err h (List.zipWith (· * ·) xs ys)
  rw [List.length_zipWith] at this
  exact this

/-- **`LF.matVec`, executed, row-wise**: row `i` of `M @ x` has error `((1+u)^(n_i+1) - 1) Σ_j |M_ij||x_j|` -/
theorem matVec_err (h : Rnd u r) (M : List (List ℝ)) (x : List ℝ) (i : ℕ) (hi : i < M.length) :
    |(LF.matVec (rndOps r) M x)[i]'(by simpa [LF.matVec] using hi)
        - (LF.matVec realOps M x)[i]'(by simpa [LF.matVec] using hi)|
      ≤ ((1 + u) ^ (min (M[i]).length x.length + 1) - 1) * absDot M[i] x := by
  simp only [LF.matVec, List.getElem_map]
  exact dot_err h _ _

/-- one entry of `F.linear(x, W, b)`: `fl(fl(w·x) + b)` against `w·x + b`:
    `((1+u)^(n+2) - 1) Σ|w_j||x_j| + u |b|` -/
theorem linear_entry_err (h : Rnd u r) (row x : List ℝ) (b : ℝ) :
    |(rndOps r).add (LF.dot (rndOps r) row x) b - realOps.add (LF.dot realOps row x) b|
      ≤ ((1 + u) ^ (min row.length x.length + 2) - 1) * absDot row x + u * |b| := by
  show |r (LF.dot (rndOps r) row x + b) - (LF.dot realOps row x + b)| ≤ _
  have h1 := dot_err h row x
  set d' := LF.dot (rndOps r) row x
  set d := LF.dot realOps row x with hd
  set A := absDot row x with hA
  set g := (1 + u) ^ (min row.length x.length + 1) with hg
  have hg1 : 1 ≤ g := one_le_pow1 h _
  have hd_le : |d| ≤ A := by
    rw [hd, dot_real, hA, absDot_eq]; exact abs_sum_le_absSum _
  have h2 : |(d' + b) - (d + b)| ≤ (g - 1) * A := by
    have e1 : (d' + b) - (d + b) = d' - d := by ring
    rw [e1]; exact h1
  have h3 := h.approx h2
  have h4 : |d + b| ≤ A + |b| := (abs_add_le _ _).trans (by linarith)
  have hu := h.u_nonneg
  have h5 : u * (|d + b| + (g - 1) * A) ≤ u * (A + |b| + (g - 1) * A) :=
    mul_le_mul_of_nonneg_left (by linarith) hu
  have e2 : (1 + u) ^ (min row.length x.length + 2) = g * (1 + u) := by
    rw [hg, ← pow_succ]
  rw [e2]
  nlinarith

/-- **`LF.linear`, executed, entry-wise** (`F.linear(X, W, b)`: batch row `k`, output feature `i`) -/
theorem linear_err (h : Rnd u r) (W : List (List ℝ)) (b : List ℝ) (X : List (List ℝ))
    (k i : ℕ) (hk : k < X.length) (hi : i < W.length) (hb : i < b.length) :
    |((LF.linear (rndOps r) W b X)[k]'(by simpa [LF.linear] using hk))[i]'(by
          simp [LF.linear, LF.addV, LF.matVec]; omega)
        - ((LF.linear realOps W b X)[k]'(by simpa [LF.linear] using hk))[i]'(by
          simp [LF.linear, LF.addV, LF.matVec]; omega)|
      ≤ ((1 + u) ^ (min (W[i]).length (X[k]).length + 2) - 1) * absDot W[i] X[k] + u * |b[i]| := by
  simp only [LF.linear, LF.addV, LF.matVec, List.getElem_map, List.getElem_zipWith]
  exact linear_entry_err h _ _ _

/-! ## (c) element-wise nonlinearities, executed -/

theorem expT_fwd_err (h : Rnd u r) (x : ℝ) {y l y' l' : ℝ}
    (hc : expT (rndX r e) false x = .ok (y, l)) (he : expT (NF.realX e) false x = .ok (y', l')) :
    |y - y'| ≤ u * Real.exp x ∧ l = l' := by
  simp only [expT, Bool.false_eq_true, if_false, Except.ok.injEq, Prod.mk.injEq, rndX_exp, realX_exp] at hc he
  obtain ⟨rfl, rfl⟩ := hc; obtain ⟨rfl, rfl⟩ := he
  refine ⟨?_, rfl⟩
  have := h.err (Real.exp x)
  rwa [abs_of_pos (Real.exp_pos x)] at this

/-- inverse of `Exp` (a logarithm): the two precisions raise together, and otherwise agree to `u |log x|` -/
theorem expT_inv_err (h : Rnd u r) (x : ℝ) :
    (expT (rndX r e) true x = .error .outsideDomain ∧ expT (NF.realX e) true x = .error .outsideDomain) ∨
    ∃ y l y' l', expT (rndX r e) true x = .ok (y, l) ∧ expT (NF.realX e) true x = .ok (y', l') ∧
      |y - y'| ≤ u * |Real.log x| ∧ |l - l'| ≤ u * |Real.log x| := by
  by_cases hx : x ≤ 0
  · left
    simp [expT, h.zeroX, hx]
  · right
    refine ⟨r (Real.log x), -r (Real.log x), Real.log x, -Real.log x, ?_, ?_, h.err _, ?_⟩
    · simp [expT, h.zeroX, hx]
    · simp [expT, hx]
    · have e1 : -r (Real.log x) - -Real.log x = -(r (Real.log x) - Real.log x) := by ring
      rw [e1, abs_neg]; exact h.err _

/-- the leaky-ReLU element at the reals -/
theorem leakyReluT_real (slope : Float) (L x : ℝ) :
    leakyReluT (NF.realX e) slope L false x
      = .ok (if x < 0 then e slope * x else x, if x < 0 then L * 1 else L * 0) := by
  unfold leakyReluT
  by_cases hx : x < 0 <;> simp [hx]

theorem leakyReluT_rnd (h : Rnd u r) (slope : Float) (L x : ℝ) :
    leakyReluT (rndX r e) slope L false x
      = .ok (if x < 0 then r (r (e slope) * x) else x, if x < 0 then r (L * (rndX r e).one) else 0) := by
  unfold leakyReluT
  by_cases hx : x < 0
  · simp [hx, h.zeroX]
  · simp [hx, h.zeroX, h.zero]

/-- **(c) forward LeakyReLU, executed** (`σ = e slope` the Python-side double, rounded on entry by the model):
    output error `(2u+u²)|σ x|` on the negative side and `0` on the other; log-det error `(2u+u²)|L|` resp. `0`.
    The branch taken is the same in both precisions (the comparison is with `0 = fl 0`). -/
theorem leakyReluT_fwd_err (h : Rnd u r) (slope : Float) (L x : ℝ) {y l y' l' : ℝ}
    (hc : leakyReluT (rndX r e) slope L false x = .ok (y, l))
    (he : leakyReluT (NF.realX e) slope L false x = .ok (y', l')) :
    |y - y'| ≤ (if x < 0 then (2 * u + u ^ 2) * |e slope * x| else 0) ∧
    |l - l'| ≤ (if x < 0 then (2 * u + u ^ 2) * |L| else 0) := by
  rw [leakyReluT_rnd e h] at hc; rw [leakyReluT_real] at he
  simp only [Except.ok.injEq, Prod.mk.injEq] at hc he
  obtain ⟨rfl, rfl⟩ := hc; obtain ⟨rfl, rfl⟩ := he
  have hu := h.u_nonneg
  by_cases hx : x < 0
  · simp only [hx, if_true, mul_one]
    constructor
    · have h1 : |r (e slope) * x - e slope * x| ≤ u * |e slope * x| := by
        have e1 : r (e slope) * x - e slope * x = (r (e slope) - e slope) * x := by ring
        rw [e1, abs_mul, abs_mul, ← mul_assoc]
        exact mul_le_mul_of_nonneg_right (h.err _) (abs_nonneg x)
      have h2 := h.approx h1
      have := abs_nonneg (e slope * x)
      nlinarith
    · have h0 := h.oneX e
      have h1 : |L * (rndX r e).one - L| ≤ u * |L| := by
        have e1 : L * (rndX r e).one - L = L * ((rndX r e).one - 1) := by ring
        rw [e1, abs_mul, mul_comm]
        exact mul_le_mul_of_nonneg_right h0 (abs_nonneg L)
      have h2 := h.approx h1
      have := abs_nonneg L
      nlinarith
  · simp [hx]

/-! ## (e) headline: two precisions agree up to the sum of their bounds -/

section agree
variable {u32 u64 : ℝ} {r32 r64 : ℝ → ℝ}

theorem tri {a b c ε δ : ℝ} (h1 : |a - c| ≤ ε) (h2 : |b - c| ≤ δ) : |a - b| ≤ ε + δ := by
  have := abs_sub_le a c b
  rw [abs_sub_comm c b] at this
  linarith

/-- **`f32_f64_agree`, inner product**: the `float32` and the `float64` executions of `LF.dot` differ by at most
    `((1+u32)^(n+1) - 1 + (1+u64)^(n+1) - 1) Σ|x_i||w_i|` — single-precision accuracy scaled by the conditioning
    `Σ|x_i||w_i|` of the sum (not by `|Σ x_i w_i|`). -/
theorem f32_f64_agree_dot (h32 : Rnd u32 r32) (h64 : Rnd u64 r64) (xs ws : List ℝ) :
    |LF.dot (rndOps r32) xs ws - LF.dot (rndOps r64) xs ws|
      ≤ (((1 + u32) ^ (min xs.length ws.length + 1) - 1) + ((1 + u64) ^ (min xs.length ws.length + 1) - 1))
          * absDot xs ws := by
  have := tri (dot_err h32 xs ws) (dot_err h64 xs ws)
  linarith

theorem f32_f64_agree_sum (h32 : Rnd u32 r32) (h64 : Rnd u64 r64) (xs : List ℝ) :
    |LF.sum (rndOps r32) xs - LF.sum (rndOps r64) xs|
      ≤ (((1 + u32) ^ xs.length - 1) + ((1 + u64) ^ xs.length - 1)) * absSum xs := by
  have := tri (sum_err h32 xs) (sum_err h64 xs)
  linarith

theorem f32_f64_agree_matVec (h32 : Rnd u32 r32) (h64 : Rnd u64 r64) (M : List (List ℝ)) (x : List ℝ)
    (i : ℕ) (hi : i < M.length) :
    |(LF.matVec (rndOps r32) M x)[i]'(by simpa [LF.matVec] using hi)
        - (LF.matVec (rndOps r64) M x)[i]'(by simpa [LF.matVec] using hi)|
      ≤ (((1 + u32) ^ (min (M[i]).length x.length + 1) - 1)
          + ((1 + u64) ^ (min (M[i]).length x.length + 1) - 1)) * absDot M[i] x := by
  have := tri (matVec_err h32 M x i hi) (matVec_err h64 M x i hi)
  linarith

theorem f32_f64_agree_linear (h32 : Rnd u32 r32) (h64 : Rnd u64 r64)
    (W : List (List ℝ)) (b : List ℝ) (X : List (List ℝ))
    (k i : ℕ) (hk : k < X.length) (hi : i < W.length) (hb : i < b.length) :
    |((LF.linear (rndOps r32) W b X)[k]'(by simpa [LF.linear] using hk))[i]'(by
          simp [LF.linear, LF.addV, LF.matVec]; omega)
        - ((LF.linear (rndOps r64) W b X)[k]'(by simpa [LF.linear] using hk))[i]'(by
          simp [LF.linear, LF.addV, LF.matVec]; omega)|
      ≤ (((1 + u32) ^ (min (W[i]).length (X[k]).length + 2) - 1)
          + ((1 + u64) ^ (min (W[i]).length (X[k]).length + 2) - 1)) * absDot W[i] X[k]
        + (u32 + u64) * |b[i]| := by
  have := tri (linear_err h32 W b X k i hk hi hb) (linear_err h64 W b X k i hk hi hb)
  linarith

/-- **`f32_f64_agree`, affine element** (forward): outputs differ by `(2u+u²)|x s| + u|t|` summed over the two
    precisions, log-dets by `(u32 + u64) |log|s||`. -/
theorem f32_f64_agree_affine (h32 : Rnd u32 r32) (h64 : Rnd u64 r64) (s t x : ℝ) {y l y' l' : ℝ}
    (hc : affineT (rndX r32 e) s t false x = .ok (y, l))
    (he : affineT (rndX r64 e) s t false x = .ok (y', l')) :
    |y - y'| ≤ ((2 * u32 + u32 ^ 2) + (2 * u64 + u64 ^ 2)) * |x * s| + (u32 + u64) * |t| ∧
    |l - l'| ≤ (u32 + u64) * |Real.log (|s|)| := by
  obtain ⟨a1, a2⟩ := affineT_fwd_err e h32 s t x hc (affineT_real_fwd e s t x)
  obtain ⟨b1, b2⟩ := affineT_fwd_err e h64 s t x he (affineT_real_fwd e s t x)
  constructor
  · have := tri a1 b1; linarith
  · have := tri a2 b2; linarith

theorem f32_f64_agree_affine_inv (h32 : Rnd u32 r32) (h64 : Rnd u64 r64) (s t x : ℝ) {y l y' l' : ℝ}
    (hc : affineT (rndX r32 e) s t true x = .ok (y, l))
    (he : affineT (rndX r64 e) s t true x = .ok (y', l')) :
    |y - y'| ≤ ((2 * u32 + u32 ^ 2) + (2 * u64 + u64 ^ 2)) * |(x - t) / s| ∧
    |l - l'| ≤ (u32 + u64) * |Real.log (|s|)| := by
  obtain ⟨a1, a2⟩ := affineT_inv_err e h32 s t x hc (affineT_real_inv e s t x)
  obtain ⟨b1, b2⟩ := affineT_inv_err e h64 s t x he (affineT_real_inv e s t x)
  constructor
  · have := tri a1 b1; linarith
  · have := tri a2 b2; linarith

end agree

/-! ## non-vacuity -/

/-- a rounding that is not the identity: always one full unit roundoff upwards in magnitude -/
theorem rnd_scale {u : ℝ} (hu : 0 ≤ u) : Rnd u (fun x => x * (1 + u)) where
  u_nonneg := hu
  err x := by
    have e1 : x * (1 + u) - x = u * x := by ring
    rw [e1, abs_mul, abs_of_nonneg hu]

theorem rnd_scale_ne_id {u : ℝ} (hu : 0 < u) : (fun x : ℝ => x * (1 + u)) ≠ id := by
  intro h
  have := congrFun h 1
  simp at this
  linarith

/-- binary32 / binary64 unit roundoffs are admissible values of `u` (with the witness above) -/
theorem rnd_scale_f32 : Rnd ((2 : ℝ) ^ (-24 : ℤ)) (fun x => x * (1 + (2 : ℝ) ^ (-24 : ℤ))) :=
  rnd_scale (by positivity)
theorem rnd_scale_f64 : Rnd ((2 : ℝ) ^ (-53 : ℤ)) (fun x => x * (1 + (2 : ℝ) ^ (-53 : ℤ))) :=
  rnd_scale (by positivity)

/-- exact arithmetic is the case `u = 0` -/
theorem rnd_id : Rnd 0 id where
  u_nonneg := le_refl 0
  err x := by simp

/-- conversely `u = 0` forces the identity -/
theorem rnd_zero_eq_id {r : ℝ → ℝ} (h : Rnd 0 r) : r = id := by
  funext x
  have := h.err x
  simp only [zero_mul] at this
  have := abs_eq_zero.mp (le_antisymm this (abs_nonneg _))
  simp only [id]; linarith

theorem rndOps_id : rndOps id = realOps := rfl
/-- with the identity rounding the rounded program IS the real program -/
theorem rndX_id : rndX id e = NF.realX e := rfl

/-- and the bounds collapse to `0`: e.g. the inner product -/
theorem dot_err_zero (xs ys : List ℝ) : |LF.dot (rndOps id) xs ys - LF.dot realOps xs ys| ≤ 0 := by
  have := dot_err rnd_id xs ys
  simpa using this

/-- the bound is attained up to the first-addition slack: with `r x = x (1+u)` the executed sum of `[1]`
    is `1 + u`, error exactly `(1+u)^1 - 1` times `Σ|x_i| = 1` -/
theorem sum_err_tight {u : ℝ} : LF.sum (rndOps fun x => x * (1 + u)) [1] - LF.sum realOps [1] = ((1 + u) ^ 1 - 1) * absSum [1] := by
  rw [LFTriSolve.sum_real]
  simp only [LF.sum, List.foldl_cons, List.foldl_nil, rndOps_add, LF.zero, absSum_cons, absSum_nil]
  show (((0 : ℤ) : ℝ) / ((1 : ℕ) : ℝ) * (1 + u) + 1) * (1 + u) - _ = _
  simp

end
end RoundModel
