import NflowsModel.Lemmas.DualXQuadParamCore
/-!
# Lemmas/DualXQuadParam — the EXECUTED piecewise-quadratic spline (forward) on dual numbers, PARAMETER + input direction (C16)

`quadSpline (dualX (NF.realX e)) c (List.zip uw uw') (List.zip uh uh') false (x, x')`: the unnormalised widths and heights
carry ARBITRARY tangent lists, the input carries the tangent `x'`.

* `QuadValid.of_length`, `QuadValidT.of_length`: an accepted configuration stays accepted for parameter lists of the same
  lengths (so validity holds along the whole line of parameters);
* `Uq_dualL`: `softplus(u) + 1e-3` on a dual list (side condition: no entry on the softplus threshold `u = 20`, a JUMP of
  the executed softplus); `cstOf_dual`, `Ut_dualL`: the tails padding constant and the padded heights on dual lists;
* `quadSpline_dual_param` (bounded shape, `uh` has `K+1` entries) and `quadSpline_dual_param_T` (tails shape, `K-1` entries):
  for `x` strictly inside bin `k` the dual run returns `((val x, v'), (ld x, l'))` with `v'`, `l'` the derivatives at `s = 0`
  of the REAL executed program's two outputs along the line `s ↦ (uw + s·uw', uh + s·uh', x + s·x')`;
* `quadSpline_dual_param_fixed_x`, `quadSpline_dual_param_fixed_x_T`: the pure parameter direction (`x' = 0`);
* `quadSpline_dual_param_example`, `quadSpline_dual_param_example_T`: non-vacuity on the concrete accepted configurations of
  `Lemmas/QuadWhole.lean`, every direction.
-/
open NF DualSound DualX Filter Topology

namespace DualXQuadParam
noncomputable section
open QuadWhole DualXParam

variable {e : Float → ℝ} {c : QCfg} {uw uh : List ℝ}

/-- an accepted bounded configuration stays accepted for any parameter lists of the same lengths -/
theorem QuadValid.of_length {uw2 uh2 : List ℝ} (hv : QuadValid e c uw uh)
    (h1 : uw2.length = uw.length) (h2 : uh2.length = uh.length) : QuadValid e c uw2 uh2 where
  hK := by
    intro h; rw [h] at h1
    exact hv.hK (List.length_eq_zero_iff.mp h1.symm)
  hlenh := by rw [h2, h1]; exact hv.hlenh
  hgW := by rw [h1]; exact hv.hgW
  hgH := by rw [h1]; exact hv.hgH
  hmW0 := hv.hmW0
  hcW := by rw [h1]; exact hv.hcW
  hmWK := by rw [h1]; exact hv.hmWK
  hmH0 := hv.hmH0
  hcH := hv.hcH
  hmH1 := hv.hmH1
  h1e3 := hv.h1e3
  hbox := hv.hbox
  heps := hv.heps

/-- an accepted tails configuration stays accepted for any parameter lists of the same lengths -/
theorem QuadValidT.of_length {uw2 uh2 : List ℝ} (hv : QuadValidT e c uw uh)
    (h1 : uw2.length = uw.length) (h2 : uh2.length = uh.length) : QuadValidT e c uw2 uh2 where
  huh := by
    intro h; rw [h] at h2
    exact hv.huh (List.length_eq_zero_iff.mp h2.symm)
  hlenh := by rw [h2, h1]; exact hv.hlenh
  hgW := by rw [h1]; exact hv.hgW
  hgH := by rw [h1]; exact hv.hgH
  hmW0 := hv.hmW0
  hcW := by rw [h1]; exact hv.hcW
  hmWK := by rw [h1]; exact hv.hmWK
  hmH0 := hv.hmH0
  hcH := hv.hcH
  hmH1 := hv.hmH1
  h1e3 := hv.h1e3
  hhalf := hv.hhalf
  hbox := hv.hbox
  heps := hv.heps

/-! ### the first stage on dual lists -/

variable (e)
/-- `softplus(u) + 1e-3` as the dual program computes it -/
def UqD (dh : List (ℝ × ℝ)) : List (ℝ × ℝ) :=
  dh.map (fun u => (dualX (NF.realX e)).add ((dualX (NF.realX e)).softplus u) ((dualX (NF.realX e)).ofFloat 1e-3))
variable {e}

/-- unnormalised heights `softplus(u) + 1e-3`; side condition: no entry sits on the softplus threshold `u = 20` -/
theorem Uq_dualL {F : ℝ → List ℝ} {t : ℝ} {ds : List (ℝ × ℝ)} (h : IsDualL F t ds) (hthr : ∀ d ∈ ds, d.1 ≠ 20) :
    IsDualL (fun s => Uq e (F s)) t (UqD e ds) :=
  h.map (gR := fun _ u => (NF.realX e).add ((NF.realX e).softplus u) ((NF.realX e).ofFloat 1e-3))
    (fun _ d hd hf => IsDual.add e (IsDual.softplus e hf (hthr d hd)) (IsDual.ofFloat e _ t))

theorem zip_thr {uh uh' : List ℝ} (hthr : ∀ j < uh.length, uh.getD j 0 ≠ 20) : ∀ d ∈ List.zip uh uh', d.1 ≠ 20 := by
  intro d hd
  have hm : d.1 ∈ uh := (List.of_mem_zip (a := d.1) (b := d.2) hd).1
  obtain ⟨j, hj, hje⟩ := List.mem_iff_getElem.mp hm
  have := hthr j hj
  rwa [List.getD_eq_getElem?_getD, List.getElem?_eq_getElem hj, Option.getD_some, hje] at this

theorem lineX_isDual (x x' : ℝ) : IsDual (fun s : ℝ => x + s * x') 0 (x, x') := by
  refine ⟨by simp, ?_⟩
  simpa using ((hasDerivAt_id (0:ℝ)).mul_const x').const_add x

theorem dual_guard (dX : ℝ × ℝ) (hx0 : e c.box.left ≤ dX.1) (hx1 : dX.1 ≤ e c.box.right) :
    ((dualX (NF.realX e)).lt dX ((dualX (NF.realX e)).ofFloat c.box.left)
      || (dualX (NF.realX e)).lt ((dualX (NF.realX e)).ofFloat c.box.right) dX) = false := by
  simp only [d_lt, d_ofFloat, Bool.or_eq_false_iff, decide_eq_false_iff_not, not_lt]
  exact ⟨hx0, hx1⟩

/-! ### bounded shape -/

/-- **PARAMETER (and input) direction, executed quadratic forward program, bounded shape** (`uh` has `K+1` entries): run on
    the dual input `(x, x')` with the unnormalised widths / heights carrying the tangent lists `uw' uh'` (any direction), for
    `x` strictly inside bin `k` the dual program returns `((val x, v'), (ld x, l'))` where `v'`, `l'` are the derivatives at
    `s = 0` of the REAL executed program's two outputs along the line `s ↦ (uw + s·uw', uh + s·uh', x + s·x')`.
    Side condition: no height parameter sits on the softplus threshold `u = 20` (a jump of the executed softplus). -/
theorem quadSpline_dual_param (hv : QuadValid e c uw uh) (uw' uh' : List ℝ)
    (hlw : uw.length = uw'.length) (hlh : uh.length = uh'.length)
    (hthr : ∀ j < uh.length, uh.getD j 0 ≠ 20)
    (k : ℕ) (hk : k < uw.length) (x x' : ℝ) (h0 : xk e c uw k < x) (h1 : x < xk e c uw (k+1)) :
    ∃ v' l' : ℝ, quadSpline (dualX (NF.realX e)) c (List.zip uw uw') (List.zip uh uh') false (x, x')
        = .ok ((val e c uw uh x, v'), (ld e c uw uh x, l')) ∧
      HasDerivAt (fun s => val e c (lineL uw uw' s) (lineL uh uh' s) (x + s * x')) v' 0 ∧
      HasDerivAt (fun s => ld e c (lineL uw uw' s) (lineL uh uh' s) (x + s * x')) l' 0 := by
  have hW : IsDualL (lineL uw uw') 0 (List.zip uw uw') := IsDualL.lineL uw uw'
  have hH : IsDualL (lineL uh uh') 0 (List.zip uh uh') := IsDualL.lineL uh uh'
  have zW : lineL uw uw' 0 = uw := lineL_zero uw uw' hlw.le
  have zH : lineL uh uh' 0 = uh := lineL_zero uh uh' hlh.le
  have hX := lineX_isDual x x'
  have hvs : ∀ s, QuadValid e c (lineL uw uw' s) (lineL uh uh' s) := fun s =>
    QuadValid.of_length hv (lineL_length uw uw' hlw s) (lineL_length uh uh' hlh s)
  have hWq : IsDualL (fun s => Wq e c (lineL uw uw' s)) 0 (flooredSoftmax (dualX (NF.realX e)) c.minW (List.zip uw uw')) :=
    flooredSoftmax_dualL e c.minW hW
  have hUq := Uq_dualL (e := e) hH (zip_thr hthr)
  have hx0 : x + 0 * x' = x := by ring
  have hk' : k < (Wq e c (lineL uw uw' 0)).length := by rw [zW, Wq_length]; exact hk
  have h0' : lc e (Wq e c (lineL uw uw' 0)) k < nx e c (x + 0 * x') := by
    rw [zW, hx0]; exact (nx_bin_iff hv.hbox uw k x).1.mpr h0
  have h1' : nx e c (x + 0 * x') < lc e (Wq e c (lineL uw uw' 0)) (k+1) := by
    rw [zW, hx0]; exact (nx_bin_iff hv.hbox uw (k+1) x).2.mpr h1
  obtain ⟨dy, dl, hr, hy, hl⟩ := quadSpline_dual_param_gen
    (P := fun s => quadSpline (NF.realX e) c (lineL uw uw' s) (lineL uh uh' s) false)
    (fun s => Wq e c (lineL uw uw' s)) (fun s => Uq e (lineL uh uh' s)) (fun s => x + s * x') 0 _ _ (x, x')
    (fun s => core_of_valid (hvs s)) hv.hbox (fun s => runsRest_of_valid (hvs s)) hWq hUq hX k hk' h0' h1'
  obtain ⟨hb0, hb1⟩ := DualXQuad.xk_mem_box (core_of_valid hv) hv.hbox k hk x h0 h1
  have hlz : (List.zip uw uw').length = uw.length := by rw [List.length_zip, ← hlw, min_self]
  have hlzh : (List.zip uh uh').length = uh.length := by rw [List.length_zip, ← hlh, min_self]
  have hrun : quadSpline (dualX (NF.realX e)) c (List.zip uw uw') (List.zip uh uh') false (x, x') = .ok (dy, dl) := by
    rw [quadSpline_bounded (dualX (NF.realX e)) c _ _ (x, x') (dual_guard (x, x') hb0 hb1)
      (by rw [hlz]; exact hv.hgW) (by rw [hlz]; exact hv.hgH) (by rw [hlz, hlzh, hv.hlenh]; omega)]
    exact hr
  have hy1 : dy.1 = val e c uw uh x := by
    have := hy.1
    simp only [zW, zH, hx0] at this
    exact this
  have hl1 : dl.1 = ld e c uw uh x := by
    have := hl.1
    simp only [zW, zH, hx0] at this
    exact this
  refine ⟨dy.2, dl.2, ?_, hy.2, hl.2⟩
  rw [hrun, ← hy1, ← hl1]

/-- the pure parameter direction (`x' = 0`): the gradient of the two outputs w.r.t. the unnormalised parameters at fixed `x` -/
theorem quadSpline_dual_param_fixed_x (hv : QuadValid e c uw uh) (uw' uh' : List ℝ)
    (hlw : uw.length = uw'.length) (hlh : uh.length = uh'.length)
    (hthr : ∀ j < uh.length, uh.getD j 0 ≠ 20)
    (k : ℕ) (hk : k < uw.length) (x : ℝ) (h0 : xk e c uw k < x) (h1 : x < xk e c uw (k+1)) :
    ∃ v' l' : ℝ, quadSpline (dualX (NF.realX e)) c (List.zip uw uw') (List.zip uh uh') false (x, 0)
        = .ok ((val e c uw uh x, v'), (ld e c uw uh x, l')) ∧
      HasDerivAt (fun s => val e c (lineL uw uw' s) (lineL uh uh' s) x) v' 0 ∧
      HasDerivAt (fun s => ld e c (lineL uw uw' s) (lineL uh uh' s) x) l' 0 := by
  obtain ⟨v', l', h, hv', hl'⟩ := quadSpline_dual_param hv uw' uh' hlw hlh hthr k hk x 0 h0 h1
  refine ⟨v', l', h, ?_, ?_⟩
  · simpa using hv'
  · simpa using hl'

/-- non-vacuity on the concrete accepted configuration `QuadWhole.valid_example` (one bin on the unit box), EVERY direction
    `([a], [p, q], x')` -/
theorem quadSpline_dual_param_example (a p q x x' : ℝ) (h0 : 0 < x) (h1 : x < 1) :
    ∃ v' l' : ℝ, quadSpline (dualX (NF.realX eNV)) cNV [(0, a)] [(0, p), (0, q)] false (x, x')
        = .ok ((val eNV cNV [0] [0, 0] x, v'), (ld eNV cNV [0] [0, 0] x, l')) ∧
      HasDerivAt (fun s => val eNV cNV [0 + s * a] [0 + s * p, 0 + s * q] (x + s * x')) v' 0 ∧
      HasDerivAt (fun s => ld eNV cNV [0 + s * a] [0 + s * p, 0 + s * q] (x + s * x')) l' 0 := by
  obtain ⟨hx0, hx1⟩ := DualXQuad.xk_example
  have hthr : ∀ j < ([0, 0] : List ℝ).length, ([0, 0] : List ℝ).getD j 0 ≠ 20 := by
    intro j hj
    have : ([0, 0] : List ℝ).getD j 0 = 0 := by
      rcases j with _|_|j
      · rfl
      · rfl
      · simp at hj
    rw [this]; norm_num
  exact quadSpline_dual_param valid_example [a] [p, q] rfl rfl hthr 0 (by simp) x x'
    (by rw [hx0]; exact h0) (by rw [hx1]; exact h1)

/-! ### tails shape (`uh` has `K-1` entries): the padding constant is computed by list operations on DUAL lists -/

/-- the padding step on any scalar type, tails shape, with the gathered entries written with `getD` -/
theorem padU_tails_gen {α : Type} (o : XOps α) (z : α) (Wd Ud : List α) (K : ℕ) (hU : 0 < Ud.length)
    (hK : Ud.length + 1 = K) (hW : Wd.length = K) :
    padU o Wd Ud K = .ok (cstOf o Wd Ud K (Wd.getD 0 z) (Wd.getD (K - 1) z) (Ud.getD 0 z) (Ud.getD (Ud.length - 1) z) ::
      (Ud ++ [cstOf o Wd Ud K (Wd.getD 0 z) (Wd.getD (K - 1) z) (Ud.getD 0 z) (Ud.getD (Ud.length - 1) z)])) := by
  have hb : (Ud.length + 1 == K) = true := by simpa using hK
  have g1 : getI Wd 0 = .ok (Wd.getD 0 z) := by
    have := getI_ok_getD Wd 0 (by omega) z
    simpa using this
  have g2 : getI Wd ((K : Int) - 1) = .ok (Wd.getD (K - 1) z) := by
    have := getI_ok_getD Wd (K - 1) (by omega) z
    have hc : ((K - 1 : ℕ) : Int) = (K : Int) - 1 := by omega
    rw [hc] at this
    exact this
  have g3 : getI Ud 0 = .ok (Ud.getD 0 z) := by
    have := getI_ok_getD Ud 0 (by omega) z
    simpa using this
  have g4 : getI Ud (Int.ofNat Ud.length - 1) = .ok (Ud.getD (Ud.length - 1) z) := by
    have := getI_ok_getD Ud (Ud.length - 1) (by omega) z
    have hc : ((Ud.length - 1 : ℕ) : Int) = Int.ofNat Ud.length - 1 := by
      simp only [Int.ofNat_eq_natCast]; omega
    rw [hc] at this
    exact this
  unfold padU
  simp only [hb, if_true, g1, g2, g3, g4]
  rfl

variable (e)
/-- the padding constant as the dual program computes it -/
def cstD (c : QCfg) (dw dh : List (ℝ × ℝ)) : ℝ × ℝ :=
  cstOf (dualX (NF.realX e)) (flooredSoftmax (dualX (NF.realX e)) c.minW dw) (UqD e dh) dw.length
    ((flooredSoftmax (dualX (NF.realX e)) c.minW dw).getD 0 0)
    ((flooredSoftmax (dualX (NF.realX e)) c.minW dw).getD (dw.length - 1) 0)
    ((UqD e dh).getD 0 0) ((UqD e dh).getD (dh.length - 1) 0)
variable {e}

theorem WqD_length (c : QCfg) (dw : List (ℝ × ℝ)) :
    (flooredSoftmax (dualX (NF.realX e)) c.minW dw).length = dw.length := by
  have := congrArg List.length ((fst_hom e).flooredSoftmax c.minW dw)
  rw [List.length_map] at this
  rw [this]
  exact (Wq_length (e := e) c _).trans (List.length_map _)

theorem UqD_length (dh : List (ℝ × ℝ)) : (UqD e dh).length = dh.length := by simp [UqD]

theorem padU_dual_tails (c : QCfg) (dw dh : List (ℝ × ℝ)) (hU : 0 < dh.length) (hK : dh.length + 1 = dw.length) :
    padU (dualX (NF.realX e)) (flooredSoftmax (dualX (NF.realX e)) c.minW dw) (UqD e dh) dw.length
      = .ok (cstD e c dw dh :: (UqD e dh ++ [cstD e c dw dh])) := by
  have := padU_tails_gen (dualX (NF.realX e)) (0 : ℝ × ℝ) (flooredSoftmax (dualX (NF.realX e)) c.minW dw) (UqD e dh)
    dw.length (by rw [UqD_length]; exact hU) (by rw [UqD_length]; exact hK) (WqD_length c dw)
  rw [UqD_length] at this
  exact this

/-- the padding constant on dual lists / dual gathered entries along a curve; side condition: its denominator
    `1 - ½·½·w₀ - ½·½·w_last` does not vanish at the base point -/
theorem cstOf_dual {W U : ℝ → List ℝ} {t : ℝ} {dW dU : List (ℝ × ℝ)} (hW : IsDualL W t dW) (hU : IsDualL U t dU) (K : ℕ)
    {w0 wl u0 ul : ℝ → ℝ} {dw0 dwl du0 dul : ℝ × ℝ} (hw0 : IsDual w0 t dw0) (hwl : IsDual wl t dwl)
    (hu0 : IsDual u0 t du0) (hul : IsDual ul t dul)
    (hden : 1 - e 0.5 * (e 0.5 * w0 t) - e 0.5 * (e 0.5 * wl t) ≠ 0) :
    IsDual (fun s => cstOf (NF.realX e) (W s) (U s) K (w0 s) (wl s) (u0 s) (ul s)) t
      (cstOf (dualX (NF.realX e)) dW dU K dw0 dwl du0 dul) := by
  have half := IsDual.ofFloat e 0.5 t
  have hfw := IsDual.mul e half (IsDual.mul e half hw0)
  have hlw := IsDual.mul e half (IsDual.mul e half hwl)
  have hin := sumG_dual e (zipMul_dualL (e := e) (pairMeans_dualL (e := e) hU) (IsDualL.take (K - 2) (IsDualL.drop 1 hW)))
  have hnum := IsDual.add e (IsDual.add e (IsDual.mul e hfw hu0) (IsDual.mul e hlw hul)) hin
  have hd := IsDual.sub e (IsDual.sub e (IsDual.one e t) hfw) hlw
  exact IsDual.div e hnum hd (by rw [hd.1]; simpa using hden)

/-- the denominator of the padding constant is positive -/
theorem cst_den_pos (hv : QuadValidT e c uw uh) :
    0 < 1 - e 0.5 * (e 0.5 * (Wq e c uw).getD 0 0) - e 0.5 * (e 0.5 * (Wq e c uw).getD (uw.length - 1) 0) := by
  obtain ⟨hWpos, hWsum⟩ := W_valid_T hv
  have hlen := hv.hlenh
  have hWl : (Wq e c uw).length = uw.length := Wq_length c uw
  have hw0m : (Wq e c uw).getD 0 0 ∈ Wq e c uw := by
    rw [← getElem_eq_getD _ 0 (by omega)]; exact List.getElem_mem _
  have hwlm : (Wq e c uw).getD (uw.length - 1) 0 ∈ Wq e c uw := by
    rw [← getElem_eq_getD _ (uw.length - 1) (by omega)]; exact List.getElem_mem _
  have hw0' := mem_le_sum _ hWpos _ hw0m
  have hwl' := mem_le_sum _ hWpos _ hwlm
  rw [hWsum] at hw0' hwl'
  rw [hv.hhalf]
  linarith

/-- **PARAMETER (and input) direction, executed quadratic forward program, tails shape** (`uh` has `K-1` entries, `K ≥ 2`):
    the padding constant is computed by the dual program from the dual widths and heights and carries its own tangent;
    same statement as `quadSpline_dual_param` -/
theorem quadSpline_dual_param_T (hv : QuadValidT e c uw uh) (uw' uh' : List ℝ)
    (hlw : uw.length = uw'.length) (hlh : uh.length = uh'.length)
    (hthr : ∀ j < uh.length, uh.getD j 0 ≠ 20)
    (k : ℕ) (hk : k < uw.length) (x x' : ℝ) (h0 : xk e c uw k < x) (h1 : x < xk e c uw (k+1)) :
    ∃ v' l' : ℝ, quadSpline (dualX (NF.realX e)) c (List.zip uw uw') (List.zip uh uh') false (x, x')
        = .ok ((val e c uw uh x, v'), (ld e c uw uh x, l')) ∧
      HasDerivAt (fun s => val e c (lineL uw uw' s) (lineL uh uh' s) (x + s * x')) v' 0 ∧
      HasDerivAt (fun s => ld e c (lineL uw uw' s) (lineL uh uh' s) (x + s * x')) l' 0 := by
  have hW : IsDualL (lineL uw uw') 0 (List.zip uw uw') := IsDualL.lineL uw uw'
  have hH : IsDualL (lineL uh uh') 0 (List.zip uh uh') := IsDualL.lineL uh uh'
  have zW : lineL uw uw' 0 = uw := lineL_zero uw uw' hlw.le
  have zH : lineL uh uh' 0 = uh := lineL_zero uh uh' hlh.le
  have hX := lineX_isDual x x'
  have hvs : ∀ s, QuadValidT e c (lineL uw uw' s) (lineL uh uh' s) := fun s =>
    QuadValidT.of_length hv (lineL_length uw uw' hlw s) (lineL_length uh uh' hlh s)
  have hlz : (List.zip uw uw').length = uw.length := by rw [List.length_zip, ← hlw, min_self]
  have hlzh : (List.zip uh uh').length = uh.length := by rw [List.length_zip, ← hlh, min_self]
  have hul0 : 0 < uh.length := List.length_pos_of_ne_nil hv.huh
  have hlen := hv.hlenh
  have hWq : IsDualL (fun s => Wq e c (lineL uw uw' s)) 0 (flooredSoftmax (dualX (NF.realX e)) c.minW (List.zip uw uw')) :=
    flooredSoftmax_dualL e c.minW hW
  have hUq := Uq_dualL (e := e) hH (zip_thr hthr)
  have hWl : (flooredSoftmax (dualX (NF.realX e)) c.minW (List.zip uw uw')).length = uw.length := by
    rw [WqD_length, hlz]
  have hUl : (UqD e (List.zip uh uh')).length = uh.length := by rw [UqD_length, hlzh]
  -- the padding constant along the line
  have hden : 1 - e 0.5 * (e 0.5 * (Wq e c (lineL uw uw' 0)).getD 0 0)
      - e 0.5 * (e 0.5 * (Wq e c (lineL uw uw' 0)).getD (uw.length - 1) 0) ≠ 0 := by
    rw [zW]; exact (cst_den_pos hv).ne'
  have hcst0 := cstOf_dual hWq hUq uw.length (hWq.getD 0 (by omega)) (hWq.getD (uw.length - 1) (by omega))
    (hUq.getD 0 (by omega)) (hUq.getD (uh.length - 1) (by omega)) hden
  have hcD : cstOf (dualX (NF.realX e)) (flooredSoftmax (dualX (NF.realX e)) c.minW (List.zip uw uw'))
      (UqD e (List.zip uh uh')) uw.length
      ((flooredSoftmax (dualX (NF.realX e)) c.minW (List.zip uw uw')).getD 0 0)
      ((flooredSoftmax (dualX (NF.realX e)) c.minW (List.zip uw uw')).getD (uw.length - 1) 0)
      ((UqD e (List.zip uh uh')).getD 0 0) ((UqD e (List.zip uh uh')).getD (uh.length - 1) 0)
      = cstD e c (List.zip uw uw') (List.zip uh uh') := by
    unfold cstD; rw [hlz, hlzh]
  rw [hcD] at hcst0
  have hcst : IsDual (fun s => cstT e c (lineL uw uw' s) (lineL uh uh' s)) 0 (cstD e c (List.zip uw uw') (List.zip uh uh')) :=
    hcst0.congr_fun (fun s => by
      simp only [cstT, lineL_length uw uw' hlw s, lineL_length uh uh' hlh s])
  have hUt : IsDualL (fun s => Ut e c (lineL uw uw' s) (lineL uh uh' s)) 0
      (cstD e c (List.zip uw uw') (List.zip uh uh') ::
        (UqD e (List.zip uh uh') ++ [cstD e c (List.zip uw uw') (List.zip uh uh')])) :=
    IsDualL.cons hcst (IsDualL.append hUq (IsDualL.cons hcst (IsDualL.nil 0)))
  have hx0 : x + 0 * x' = x := by ring
  have hk' : k < (Wq e c (lineL uw uw' 0)).length := by rw [zW, Wq_length]; exact hk
  have h0' : lc e (Wq e c (lineL uw uw' 0)) k < nx e c (x + 0 * x') := by
    rw [zW, hx0]; exact (nx_bin_iff hv.hbox uw k x).1.mpr h0
  have h1' : nx e c (x + 0 * x') < lc e (Wq e c (lineL uw uw' 0)) (k+1) := by
    rw [zW, hx0]; exact (nx_bin_iff hv.hbox uw (k+1) x).2.mpr h1
  obtain ⟨dy, dl, hr, hy, hl⟩ := quadSpline_dual_param_gen
    (P := fun s => quadSpline (NF.realX e) c (lineL uw uw' s) (lineL uh uh' s) false)
    (fun s => Wq e c (lineL uw uw' s)) (fun s => Ut e c (lineL uw uw' s) (lineL uh uh' s)) (fun s => x + s * x') 0 _ _ (x, x')
    (fun s => core_of_validT (hvs s)) hv.hbox (fun s => runsRest_of_validT (hvs s)) hWq hUt hX k hk' h0' h1'
  obtain ⟨hb0, hb1⟩ := DualXQuad.xk_mem_box (core_of_validT hv) hv.hbox k hk x h0 h1
  have hrun : quadSpline (dualX (NF.realX e)) c (List.zip uw uw') (List.zip uh uh') false (x, x') = .ok (dy, dl) := by
    rw [quadSpline_split (dualX (NF.realX e)) c _ _ (x, x') (dual_guard (x, x') hb0 hb1)
      (by rw [hlz]; exact hv.hgW) (by rw [hlz]; exact hv.hgH)]
    show padU _ _ (UqD e (List.zip uh uh')) _ >>= _ = _
    rw [padU_dual_tails c _ _ (by rw [hlzh]; exact hul0) (by rw [hlz, hlzh]; exact hlen)]
    exact hr
  have hy1 : dy.1 = val e c uw uh x := by
    have := hy.1
    simp only [zW, zH, hx0] at this
    exact this
  have hl1 : dl.1 = ld e c uw uh x := by
    have := hl.1
    simp only [zW, zH, hx0] at this
    exact this
  refine ⟨dy.2, dl.2, ?_, hy.2, hl.2⟩
  rw [hrun, ← hy1, ← hl1]

/-- tails shape, pure parameter direction (`x' = 0`) -/
theorem quadSpline_dual_param_fixed_x_T (hv : QuadValidT e c uw uh) (uw' uh' : List ℝ)
    (hlw : uw.length = uw'.length) (hlh : uh.length = uh'.length)
    (hthr : ∀ j < uh.length, uh.getD j 0 ≠ 20)
    (k : ℕ) (hk : k < uw.length) (x : ℝ) (h0 : xk e c uw k < x) (h1 : x < xk e c uw (k+1)) :
    ∃ v' l' : ℝ, quadSpline (dualX (NF.realX e)) c (List.zip uw uw') (List.zip uh uh') false (x, 0)
        = .ok ((val e c uw uh x, v'), (ld e c uw uh x, l')) ∧
      HasDerivAt (fun s => val e c (lineL uw uw' s) (lineL uh uh' s) x) v' 0 ∧
      HasDerivAt (fun s => ld e c (lineL uw uw' s) (lineL uh uh' s) x) l' 0 := by
  obtain ⟨v', l', h, hv', hl'⟩ := quadSpline_dual_param_T hv uw' uh' hlw hlh hthr k hk x 0 h0 h1
  refine ⟨v', l', h, ?_, ?_⟩
  · simpa using hv'
  · simpa using hl'

/-- non-vacuity, tails shape, on `QuadWhole.valid_example_T` (two bins, one interior height): every direction
    `([a, b], [p], x')`, every `x` strictly inside either bin — and both bins are non-empty -/
theorem quadSpline_dual_param_example_T (a b p x' : ℝ) :
    (∀ k < 2, ∀ x : ℝ, xk eT cNV [0, 0] k < x → x < xk eT cNV [0, 0] (k+1) →
      ∃ v' l' : ℝ, quadSpline (dualX (NF.realX eT)) cNV [(0, a), (0, b)] [(0, p)] false (x, x')
          = .ok ((val eT cNV [0, 0] [0] x, v'), (ld eT cNV [0, 0] [0] x, l')) ∧
        HasDerivAt (fun s => val eT cNV [0 + s * a, 0 + s * b] [0 + s * p] (x + s * x')) v' 0 ∧
        HasDerivAt (fun s => ld eT cNV [0 + s * a, 0 + s * b] [0 + s * p] (x + s * x')) l' 0) ∧
    ∀ k < 2, xk eT cNV [0, 0] k < xk eT cNV [0, 0] (k+1) := by
  have hthr : ∀ j < ([0] : List ℝ).length, ([0] : List ℝ).getD j 0 ≠ 20 := by
    intro j hj
    have : ([0] : List ℝ).getD j 0 = 0 := by
      rcases j with _|j
      · rfl
      · simp at hj
    rw [this]; norm_num
  exact ⟨fun k hk x h0 h1 => quadSpline_dual_param_T valid_example_T [a, b] [p] rfl rfl hthr k hk x x' h0 h1,
    DualXQuad.quadSpline_dual_example_T.2⟩

end
end DualXQuadParam
