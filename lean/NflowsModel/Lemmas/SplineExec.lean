import NflowsModel.Core.Spline
import NflowsModel.Real.RealX
import Mathlib.Tactic
/-!
# Lemmas/SplineExec — facts about the EXECUTABLE stage-A list code of `Core/Spline`, at the real instance

`softmaxG`, `flooredSoftmax`, `cumsumG`, `rqKnots` are the functions the driver runs (at `floatX`); here they are
instantiated at `realX e` and shown to produce valid knots: positive widths summing to one, strictly increasing
cumulative knots pinned to the ends of the interval — for every bin count and every unnormalised parameter vector.
-/
open NF

namespace SplineExec
variable (e : Float → ℝ)

theorem sumG_eq (xs : List ℝ) : sumG (realX e) xs = xs.sum := by
  unfold sumG
  have : ∀ (acc : ℝ), xs.foldl (realX e).add acc = acc + xs.sum := by
    induction xs with
    | nil => intro acc; simp
    | cons x xs ih => intro acc; simp [List.foldl_cons, ih, add_assoc]
  simpa using this 0

theorem softmaxG_eq (xs : List ℝ) :
    softmaxG (realX e) xs
      = xs.map (fun x => Real.exp (x - maxG (realX e) xs) / (xs.map (fun y => Real.exp (y - maxG (realX e) xs))).sum) := by
  simp [softmaxG, sumG_eq, List.map_map, Function.comp_def]

theorem softmaxG_length (xs : List ℝ) : (softmaxG (realX e) xs).length = xs.length := by
  simp [softmaxG_eq]

theorem sum_exp_pos (xs : List ℝ) (m : ℝ) (h : xs ≠ []) : 0 < (xs.map (fun y => Real.exp (y - m))).sum := by
  cases xs with
  | nil => exact absurd rfl h
  | cons x xs =>
    simp only [List.map_cons, List.sum_cons]
    have : 0 ≤ (xs.map (fun y => Real.exp (y - m))).sum :=
      List.sum_nonneg (by intro a ha; simp only [List.mem_map] at ha; obtain ⟨y, _, rfl⟩ := ha; exact (Real.exp_pos _).le)
    linarith [Real.exp_pos (x - m)]

/-- every softmax output is positive -/
theorem softmaxG_pos (xs : List ℝ) : ∀ y ∈ softmaxG (realX e) xs, 0 < y := by
  intro y hy
  rw [softmaxG_eq] at hy
  simp only [List.mem_map] at hy
  obtain ⟨x, hx, rfl⟩ := hy
  have hne : xs ≠ [] := by intro h; simp [h] at hx
  exact div_pos (Real.exp_pos _) (sum_exp_pos xs _ hne)

theorem sum_map_div (l : List ℝ) (c : ℝ) : (l.map (fun x => x / c)).sum = l.sum / c := by
  induction l with
  | nil => simp
  | cons a l ih => simp [ih, add_div]

/-- softmax outputs sum to one -/
theorem softmaxG_sum (xs : List ℝ) (h : xs ≠ []) : (softmaxG (realX e) xs).sum = 1 := by
  rw [softmaxG_eq]
  have hpos := sum_exp_pos xs (maxG (realX e) xs) h
  have : xs.map (fun x => Real.exp (x - maxG (realX e) xs) / (xs.map (fun y => Real.exp (y - maxG (realX e) xs))).sum)
      = (xs.map (fun x => Real.exp (x - maxG (realX e) xs))).map (fun t => t / (xs.map (fun y => Real.exp (y - maxG (realX e) xs))).sum) := by
    rw [List.map_map]; rfl
  rw [this, sum_map_div]; exact div_self hpos.ne'

/-- `flooredSoftmax` at the reals, with the two embedded constants named: entries are `mR + cR * softmax` -/
theorem flooredSoftmax_eq (m : Float) (u : List ℝ) :
    flooredSoftmax (realX e) m u = (softmaxG (realX e) u).map (fun s => e m + e (1 - m * u.length.toFloat) * s) := by
  simp [flooredSoftmax]

/-- widths are positive and sum to one, for every unnormalised vector, when `0 ≤ m`, `m*K ≤ 1` (embedded consistently) -/
theorem flooredSoftmax_valid (m : Float) (u : List ℝ) (hu : u ≠ [])
    (hm0 : 0 ≤ e m) (hc : e (1 - m * u.length.toFloat) = 1 - e m * u.length) (hmK : e m * u.length ≤ 1) :
    (∀ w ∈ flooredSoftmax (realX e) m u, 0 < w) ∧ (flooredSoftmax (realX e) m u).sum = 1 := by
  rw [flooredSoftmax_eq, hc]
  constructor
  · intro w hw
    simp only [List.mem_map] at hw
    obtain ⟨s, hs, rfl⟩ := hw
    have hspos := softmaxG_pos e u s hs
    have hc0 : 0 ≤ 1 - e m * u.length := by linarith
    rcases eq_or_lt_of_le hm0 with h0 | h0
    · rw [← h0]; simp; exact hspos
    · have : 0 ≤ (1 - e m * u.length) * s := mul_nonneg hc0 hspos.le
      linarith
  · have hlen : (softmaxG (realX e) u).length = u.length := softmaxG_length e u
    have hsum := softmaxG_sum e u hu
    have : ((softmaxG (realX e) u).map (fun s => e m + (1 - e m * u.length) * s)).sum
        = e m * (softmaxG (realX e) u).length + (1 - e m * u.length) * (softmaxG (realX e) u).sum := by
      generalize softmaxG (realX e) u = l
      induction l with
      | nil => simp
      | cons a l ih => simp [ih]; ring
    rw [this, hlen, hsum]; ring

/-- `cumsumG` at the reals is the list of prefix sums -/
theorem cumsumG_eq (xs : List ℝ) : cumsumG (realX e) xs = (List.range xs.length).map (fun k => (xs.take (k+1)).sum) := by
  unfold cumsumG
  simp only [realX_add, realX_zero]
  have key : ∀ (xs : List ℝ) (acc : ℝ) (out : List ℝ),
      (xs.foldl (fun (st : ℝ × List ℝ) x => (st.1 + x, (st.1 + x) :: st.2)) (acc, out)).2.reverse
        = out.reverse ++ (List.range xs.length).map (fun k => acc + (xs.take (k+1)).sum) := by
    intro xs
    induction xs with
    | nil => intro acc out; simp
    | cons x xs ih =>
      intro acc out
      simp only [List.foldl_cons, List.length_cons]
      rw [ih, List.range_succ_eq_map]
      simp [add_assoc, Function.comp_def]
  have := key xs 0 []
  simpa using this

/-- the last cumulative sum is the total -/
theorem cumsumG_last (xs : List ℝ) (h : xs ≠ []) : (cumsumG (realX e) xs).getLast? = some xs.sum := by
  rw [cumsumG_eq]
  have hl : 0 < xs.length := List.length_pos_of_ne_nil h
  obtain ⟨n, hn⟩ : ∃ n, xs.length = n + 1 := ⟨xs.length - 1, by omega⟩
  rw [hn, List.range_succ]
  simp [← hn]

/-- prefix sums of positive numbers strictly increase -/
theorem cumsumG_strict (xs : List ℝ) (hpos : ∀ x ∈ xs, 0 < x) : (cumsumG (realX e) xs).Pairwise (· < ·) := by
  rw [cumsumG_eq]
  rw [List.pairwise_map]
  refine List.Pairwise.imp_of_mem ?_ (List.pairwise_lt_range)
  intro a b ha hb hab
  simp only [List.mem_range] at ha hb
  -- take (b+1) = take (a+1) ++ (drop (a+1) (take (b+1)))
  have hsplit : xs.take (b+1) = xs.take (a+1) ++ (xs.take (b+1)).drop (a+1) := by
    have h1 := List.take_append_drop (a+1) (xs.take (b+1))
    rw [List.take_take, min_eq_left (by omega)] at h1
    exact h1.symm
  rw [hsplit, List.sum_append]
  have hne : (xs.take (b+1)).drop (a+1) ≠ [] := by
    simp [List.length_take, List.drop_eq_nil_iff]; omega
  have hp : ∀ x ∈ (xs.take (b+1)).drop (a+1), 0 < x := fun x hx =>
    hpos x (List.mem_of_mem_take (List.mem_of_mem_drop hx))
  have : 0 < ((xs.take (b+1)).drop (a+1)).sum := by
    cases hd : (xs.take (b+1)).drop (a+1) with
    | nil => exact absurd hd hne
    | cons y ys =>
      rw [hd] at hp
      simp only [List.sum_cons]
      have : 0 ≤ ys.sum := List.sum_nonneg (fun z hz => (hp z (List.mem_cons_of_mem _ hz)).le)
      linarith [hp y (List.mem_cons_self)]
  linarith

end SplineExec

namespace SplineExec
variable (e : Float → ℝ)

theorem setFirst_head {α : Type} (x : α) (l : List α) : setFirst (x :: l) x = x :: l := rfl

theorem setLast_of_getLast {α : Type} (l : List α) (v : α) (h : l.getLast? = some v) : setLast l v = l := by
  unfold setLast
  cases hr : l.reverse with
  | nil =>
    have : l = [] := by simpa using hr
    subst this; simp at h
  | cons a r =>
    have hl : l = (a :: r).reverse := by rw [← hr, List.reverse_reverse]
    have ha : l.getLast? = some a := by rw [hl]; simp
    rw [ha] at h; cases h
    simp [hl]

/-- **Executable knots are valid** (rational-quadratic style `rqKnots`, as the driver runs it, at the reals): for
    positive widths summing to one and `lo < hi`, the knot list has `K+1` entries, starts at `lo`, ends at `hi` and is
    strictly increasing; pinning the ends changes nothing. -/
theorem rqKnots_valid (lo hi : Float) (w : List ℝ) (hw : w ≠ []) (hpos : ∀ x ∈ w, 0 < x) (hsum : w.sum = 1)
    (hlt : e lo < e hi) (hd : e (hi - lo) = e hi - e lo) :
    let kn := (rqKnots (realX e) lo hi w).1
    kn.length = w.length + 1 ∧ kn.head? = some (e lo) ∧ kn.getLast? = some (e hi) ∧ kn.Pairwise (· < ·) := by
  intro kn
  have hD : 0 < e hi - e lo := by linarith
  -- the un-pinned list
  set cum : List ℝ := (0 :: cumsumG (realX e) w).map (fun c => (e hi - e lo) * c + e lo) with hcum
  have hlast0 : (0 :: cumsumG (realX e) w).getLast? = some 1 := by
    have := cumsumG_last e w hw
    rw [hsum] at this
    cases hc : cumsumG (realX e) w with
    | nil => rw [hc] at this; simp at this
    | cons a l => rw [hc] at this; simpa [List.getLast?_cons_cons] using this
  have hlastc : cum.getLast? = some (e hi) := by
    rw [hcum, List.getLast?_map, hlast0]; simp
  have hstrict0 : (0 :: cumsumG (realX e) w).Pairwise (· < ·) := by
    rw [List.pairwise_cons]
    refine ⟨?_, cumsumG_strict e w hpos⟩
    intro a ha
    rw [cumsumG_eq] at ha
    simp only [List.mem_map, List.mem_range] at ha
    obtain ⟨k, hk, rfl⟩ := ha
    have hne : w.take (k+1) ≠ [] := by
      intro h; have := congrArg List.length h; simp only [List.length_take, List.length_nil] at this; omega
    cases ht : w.take (k+1) with
    | nil => exact absurd ht hne
    | cons y ys =>
      have hy : ∀ z ∈ y :: ys, 0 < z := fun z hz => hpos z (List.mem_of_mem_take (ht ▸ hz))
      simp only [List.sum_cons]
      have : 0 ≤ ys.sum := List.sum_nonneg (fun z hz => (hy z (List.mem_cons_of_mem _ hz)).le)
      linarith [hy y (List.mem_cons_self)]
  have hstrictc : cum.Pairwise (· < ·) := by
    rw [hcum, List.pairwise_map]
    exact hstrict0.imp (fun {a b} hab => by nlinarith)
  have hkn : kn = cum := by
    show (rqKnots (realX e) lo hi w).1 = cum
    unfold rqKnots
    simp only [realX_zero, realX_add, realX_mul, realX_ofFloat, hd]
    have hc' : (0 :: cumsumG (realX e) w).map (fun c => (e hi - e lo) * c + e lo)
        = e lo :: (cumsumG (realX e) w).map (fun c => (e hi - e lo) * c + e lo) := by simp
    rw [hc', setFirst_head]
    have hl : (e lo :: (cumsumG (realX e) w).map (fun c => (e hi - e lo) * c + e lo)).getLast? = some (e hi) := by
      rw [← hc']; exact hlastc
    rw [setLast_of_getLast _ _ hl, hcum, hc']
  refine ⟨?_, ?_, ?_, ?_⟩
  · rw [hkn, hcum]; simp [cumsumG_eq]
  · rw [hkn, hcum]; simp
  · rw [hkn]; exact hlastc
  · rw [hkn]; exact hstrictc

end SplineExec

namespace SplineExec
variable (e : Float → ℝ)

/-- **Executable cdf knots of the linear / quadratic / cubic splines** (`0 :: setLast (cumsum w) 1`, normalised
    coordinates): for positive masses summing to one the list has `K+1` entries, starts at 0, ends at 1 and is strictly
    increasing; pinning the last entry to 1 changes nothing. -/
theorem unitKnots_valid (w : List ℝ) (hw : w ≠ []) (hpos : ∀ x ∈ w, 0 < x) (hsum : w.sum = 1) :
    let kn := (0 : ℝ) :: setLast (cumsumG (realX e) w) 1
    kn.length = w.length + 1 ∧ kn.head? = some 0 ∧ kn.getLast? = some 1 ∧ kn.Pairwise (· < ·) := by
  intro kn
  have hl := cumsumG_last e w hw
  rw [hsum] at hl
  have hpin : setLast (cumsumG (realX e) w) 1 = cumsumG (realX e) w := setLast_of_getLast _ _ hl
  have hne : cumsumG (realX e) w ≠ [] := by intro h; rw [h] at hl; simp at hl
  have hstrict := cumsumG_strict e w hpos
  have hfirst : ∀ a ∈ cumsumG (realX e) w, (0:ℝ) < a := by
    intro a ha
    rw [cumsumG_eq] at ha
    simp only [List.mem_map, List.mem_range] at ha
    obtain ⟨k, hk, rfl⟩ := ha
    cases ht : w.take (k+1) with
    | nil =>
      have := congrArg List.length ht
      simp only [List.length_take, List.length_nil] at this; omega
    | cons y ys =>
      have hy : ∀ z ∈ y :: ys, 0 < z := fun z hz => hpos z (List.mem_of_mem_take (ht ▸ hz))
      simp only [List.sum_cons]
      have : 0 ≤ ys.sum := List.sum_nonneg (fun z hz => (hy z (List.mem_cons_of_mem _ hz)).le)
      linarith [hy y (List.mem_cons_self)]
  have hk : kn = (0:ℝ) :: cumsumG (realX e) w := by
    show (0:ℝ) :: setLast (cumsumG (realX e) w) 1 = _
    rw [hpin]
  rw [hk]
  refine ⟨by simp [cumsumG_eq], by simp, ?_, ?_⟩
  · cases hc : cumsumG (realX e) w with
    | nil => exact absurd hc hne
    | cons a l => rw [hc] at hl; simpa [List.getLast?_cons_cons] using hl
  · exact List.pairwise_cons.mpr ⟨hfirst, hstrict⟩

end SplineExec
