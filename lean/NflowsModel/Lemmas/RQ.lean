import Mathlib.Analysis.SpecialFunctions.Log.Deriv
import Mathlib.Analysis.SpecialFunctions.Sqrt
import Mathlib.Analysis.Calculus.Deriv.MeanValue
import Mathlib.Tactic



noncomputable section

/-- abstract quadratic with q(0) ≤ 0 ≤ q(1): the "stable" root 2c/(-b-√disc) lies in [0,1] and is a root. -/
theorem stable_root {a b c : ℝ} (h0 : c ≤ 0) (h1 : 0 ≤ a + b + c) (hb : c = 0 → 0 < b) :
    let D := Real.sqrt (b^2 - 4*a*c)
    let θ := 2*c / (-b - D)
    0 ≤ b^2 - 4*a*c ∧ 0 < b + D ∧ 0 ≤ θ ∧ θ ≤ 1 ∧ a*θ^2 + b*θ + c = 0 := by
  intro D θ
  have hdisc : 0 ≤ b^2 - 4*a*c := by nlinarith [sq_nonneg (b + 2*c), mul_nonneg (neg_nonneg.mpr h0) h1]
  have hD0 : 0 ≤ D := Real.sqrt_nonneg _
  have hD2 : D^2 = b^2 - 4*a*c := Real.sq_sqrt hdisc
  have ht : 0 < b + D := by
    rcases eq_or_lt_of_le h0 with hc | hc
    · have := hb hc; linarith
    · by_cases ha : 0 < a
      · by_contra hcon
        have hle : D ≤ -b := by linarith
        have : D^2 ≤ b^2 := by nlinarith
        nlinarith
      · have ha' : a ≤ 0 := le_of_not_gt ha
        have : 0 < b := by nlinarith
        linarith
  have hθ : θ = -2*c / (b + D) := by
    simp only [θ]
    rw [show -b - D = -(b + D) by ring, div_neg, neg_mul, neg_div]
  refine ⟨hdisc, ht, ?_, ?_, ?_⟩
  · rw [hθ]; apply div_nonneg <;> linarith
  · rw [hθ, div_le_one ht]
    by_cases hs : 0 ≤ b + 2*c
    · linarith
    · have hs' : b + 2*c < 0 := lt_of_not_ge hs
      have : (b + 2*c)^2 ≤ D^2 := by rw [hD2]; nlinarith [mul_nonneg (neg_nonneg.mpr h0) h1]
      nlinarith [abs_le_of_sq_le_sq' this hD0]
  · rw [hθ]
    have hne : b + D ≠ 0 := ht.ne'
    field_simp
    nlinarith [hD2]

namespace RQ

/-- the RQ bin in the normalised coordinate θ ∈ [0,1]; s = h/w is the bin slope (rational_quadratic.py:162-172) -/
def g (s d0 d1 h θ : ℝ) : ℝ := h * (s * θ^2 + d0 * (θ * (1 - θ))) / (s + (d0 + d1 - 2*s) * (θ * (1 - θ)))
def den (s d0 d1 θ : ℝ) : ℝ := s + (d0 + d1 - 2*s) * (θ * (1 - θ))
/-- derivative numerator as coded (rational_quadratic.py:174-178), per unit of θ it is h/s times this / den² -/
def dnum (s d0 d1 θ : ℝ) : ℝ := s^2 * (d1 * θ^2 + 2*s*(θ*(1-θ)) + d0 * (1-θ)^2)

theorem den_pos {s d0 d1 θ : ℝ} (hs : 0 < s) (h0 : 0 < d0) (h1 : 0 < d1) (ht0 : 0 ≤ θ) (ht1 : θ ≤ 1) :
    0 < den s d0 d1 θ := by
  have e : den s d0 d1 θ = s * (θ^2 + (1-θ)^2) + (d0 + d1) * (θ * (1 - θ)) := by unfold den; ring
  rw [e]
  have h2 : 0 < θ^2 + (1-θ)^2 := by nlinarith
  have h3 : 0 ≤ θ * (1 - θ) := mul_nonneg ht0 (by linarith)
  have := mul_pos hs h2
  have := mul_nonneg (by linarith : (0:ℝ) ≤ d0 + d1) h3
  linarith

theorem dnum_pos {s d0 d1 θ : ℝ} (hs : 0 < s) (h0 : 0 < d0) (h1 : 0 < d1) (ht0 : 0 ≤ θ) (ht1 : θ ≤ 1) :
    0 < dnum s d0 d1 θ := by
  unfold dnum
  apply mul_pos (by positivity)
  have h3 : 0 ≤ θ * (1 - θ) := mul_nonneg ht0 (by linarith)
  rcases eq_or_lt_of_le ht0 with h | h
  · subst h; simp; exact h0
  · have : 0 < d1 * θ^2 := by positivity
    have : 0 ≤ 2*s*(θ*(1-θ)) := by positivity
    have : 0 ≤ d0 * (1-θ)^2 := by positivity
    linarith

/-- dg/dθ = (h/s) · dnum / den²  (so dy/dx = dnum/den² after dividing by w, since h/(s·w) = 1) -/
theorem g_hasDerivAt {s d0 d1 h θ : ℝ} (hs : 0 < s) (hd : den s d0 d1 θ ≠ 0) :
    HasDerivAt (g s d0 d1 h) (h / s * dnum s d0 d1 θ / (den s d0 d1 θ)^2) θ := by
  have hθ : HasDerivAt (fun θ : ℝ => θ) 1 θ := hasDerivAt_id' θ
  have h1 : HasDerivAt (fun θ : ℝ => θ * (1 - θ)) (1 - 2*θ) θ :=
    (hθ.mul ((hasDerivAt_const θ (1:ℝ)).sub hθ)).congr_deriv (by simp; ring)
  have hn : HasDerivAt (fun θ : ℝ => h * (s * θ^2 + d0 * (θ * (1 - θ)))) (h * (s * (2*θ) + d0 * (1 - 2*θ))) θ :=
    ((((hθ.pow 2).const_mul s).add (h1.const_mul d0)).const_mul h).congr_deriv (by simp)
  have hdn : HasDerivAt (fun θ : ℝ => s + (d0 + d1 - 2*s) * (θ * (1 - θ))) ((d0 + d1 - 2*s) * (1 - 2*θ)) θ :=
    (h1.const_mul (d0 + d1 - 2*s)).const_add s
  have := hn.div hdn hd
  refine this.congr_deriv ?_
  unfold dnum
  unfold den at hd
  have hs' : s ≠ 0 := hs.ne'
  unfold den
  field_simp
  ring

/-- strictly increasing on the bin -/
theorem g_strictMonoOn {s d0 d1 h : ℝ} (hs : 0 < s) (h0 : 0 < d0) (h1 : 0 < d1) (hh : 0 < h) :
    StrictMonoOn (g s d0 d1 h) (Set.Icc 0 1) := by
  apply strictMonoOn_of_deriv_pos (convex_Icc 0 1)
  · intro θ hθ
    exact (g_hasDerivAt (h := h) hs (den_pos hs h0 h1 hθ.1 hθ.2).ne').continuousAt.continuousWithinAt
  · intro θ hθ
    rw [interior_Icc] at hθ
    have hd := den_pos hs h0 h1 hθ.1.le hθ.2.le
    rw [(g_hasDerivAt (h := h) hs hd.ne').deriv]
    have := dnum_pos hs h0 h1 hθ.1.le hθ.2.le
    positivity

theorem g_zero {s d0 d1 h : ℝ} : g s d0 d1 h 0 = 0 := by simp [g]
theorem g_one {s d0 d1 h : ℝ} (hs : 0 < s) : g s d0 d1 h 1 = h := by
  have hs' : s ≠ 0 := hs.ne'
  have : g s d0 d1 h 1 = h * s / s := by simp [g]
  rw [this, mul_div_assoc, div_self hs', mul_one]

/-- the code's quadratic coefficients for the inverse (rational_quadratic.py:133-139), Δ = y - y_k -/
def qa (s d0 d1 h Δ : ℝ) : ℝ := Δ * (d0 + d1 - 2*s) + h * (s - d0)
def qb (s d0 d1 h Δ : ℝ) : ℝ := h * d0 - Δ * (d0 + d1 - 2*s)
def qc (s Δ : ℝ) : ℝ := - s * Δ

theorem quad_iff {s d0 d1 h Δ θ : ℝ} (hd : den s d0 d1 θ ≠ 0) :
    qa s d0 d1 h Δ * θ^2 + qb s d0 d1 h Δ * θ + qc s Δ = 0 ↔ g s d0 d1 h θ = Δ := by
  unfold g
  unfold den at hd
  rw [div_eq_iff hd]
  unfold qa qb qc
  constructor <;> intro e <;> linarith [e]


/-- the inverse as coded returns a point of the bin that the forward formula maps back to Δ -/
theorem inverse_correct {s d0 d1 h Δ : ℝ} (hs : 0 < s) (h0 : 0 < d0) (h1 : 0 < d1) (hh : 0 < h)
    (hΔ0 : 0 ≤ Δ) (hΔ1 : Δ ≤ h) :
    let a := qa s d0 d1 h Δ; let b := qb s d0 d1 h Δ; let c := qc s Δ
    let θ := 2*c / (-b - Real.sqrt (b^2 - 4*a*c))
    0 ≤ b^2 - 4*a*c ∧ 0 ≤ θ ∧ θ ≤ 1 ∧ g s d0 d1 h θ = Δ := by
  intro a b c θ
  have hc : c ≤ 0 := by simp only [c, qc]; nlinarith
  have hq1 : 0 ≤ a + b + c := by
    have : a + b + c = s * (h - Δ) := by simp only [a, b, c, qa, qb, qc]; ring
    rw [this]; exact mul_nonneg hs.le (by linarith)
  have hb : c = 0 → 0 < b := by
    intro hc0
    have hΔ : Δ = 0 := by
      simp only [c, qc] at hc0
      rcases mul_eq_zero.mp hc0 with h' | h'
      · linarith
      · exact h'
    simp only [b, qb, hΔ]; nlinarith
  obtain ⟨hd, _, ht0, ht1, hroot⟩ := stable_root hc hq1 hb
  exact ⟨hd, ht0, ht1, (quad_iff (den_pos hs h0 h1 ht0 ht1).ne').mp hroot⟩

/-- inverse ∘ forward = id on the bin (uniqueness from strict monotonicity) -/
theorem inverse_forward {s d0 d1 h θ₀ : ℝ} (hs : 0 < s) (h0 : 0 < d0) (h1 : 0 < d1) (hh : 0 < h)
    (ht0 : 0 ≤ θ₀) (ht1 : θ₀ ≤ 1) :
    let Δ := g s d0 d1 h θ₀
    let a := qa s d0 d1 h Δ; let b := qb s d0 d1 h Δ; let c := qc s Δ
    2*c / (-b - Real.sqrt (b^2 - 4*a*c)) = θ₀ := by
  intro Δ a b c
  have hm := g_strictMonoOn hs h0 h1 hh
  have hΔ0 : 0 ≤ Δ := by
    have := hm.monotoneOn (Set.left_mem_Icc.mpr zero_le_one) ⟨ht0, ht1⟩ ht0
    simpa [g_zero] using this
  have hΔ1 : Δ ≤ h := by
    have := hm.monotoneOn ⟨ht0, ht1⟩ (Set.right_mem_Icc.mpr zero_le_one) ht1
    simpa [g_one hs] using this
  obtain ⟨_, r0, r1, hg⟩ := inverse_correct hs h0 h1 hh hΔ0 hΔ1
  exact hm.injOn ⟨r0, r1⟩ ⟨ht0, ht1⟩ hg

/-- log-det as coded equals log of the true derivative dy/dx = dnum/den² -/
theorem logdet_eq {s d0 d1 θ : ℝ} (hs : 0 < s) (h0 : 0 < d0) (h1 : 0 < d1) (ht0 : 0 ≤ θ) (ht1 : θ ≤ 1) :
    Real.log (dnum s d0 d1 θ) - 2 * Real.log (den s d0 d1 θ) = Real.log (dnum s d0 d1 θ / (den s d0 d1 θ)^2) := by
  have hd := den_pos hs h0 h1 ht0 ht1
  have hn := dnum_pos hs h0 h1 ht0 ht1
  rw [Real.log_div hn.ne' (pow_ne_zero 2 hd.ne'), Real.log_pow]; norm_num
end RQ


end
