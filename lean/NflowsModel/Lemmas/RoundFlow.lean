import NflowsModel.Lemmas.RoundLayers
import Mathlib.Tactic
/-!
# Lemmas/RoundFlow — vector layers as Lipschitz stages, whole flows, accumulated log-det (C19, numeric clause)

Continues `Lemmas/RoundLayers` (items 2–4 of its header).  Vectors of a fixed width `n` are `V n = Fin n → ℝ` with the
sup metric of the product (`dist x y = max_i |x_i - y_i|`), so that `RoundCompose.compose_err` applies as it stands.
`toV n : List ℝ → V n` / `List.ofFn` translate from / to the lists the executed programs work on.
-/
open NF DualSound

namespace RoundModel
noncomputable section

variable {u : ℝ} {r : ℝ → ℝ} (e : Float → ℝ) {n : ℕ}

/-! ## vectors of width `n` -/

abbrev V (n : ℕ) := Fin n → ℝ

def toV (n : ℕ) (l : List ℝ) : V n := fun i => l.getD i 0

theorem toV_apply (l : List ℝ) (i : Fin n) (hl : i.1 < l.length) : toV n l i = l[i.1] := by
  simp [toV, hl]

@[simp] theorem toV_ofFn (v : V n) : toV n (List.ofFn v) = v := by
  funext i
  rw [toV_apply _ _ (by simp)]
  simp

theorem ofFn_toV (l : List ℝ) (hl : l.length = n) : List.ofFn (toV n l) = l := by
  apply List.ext_getElem
  · simp [hl]
  · intro i h1 h2
    rw [List.getElem_ofFn]
    exact toV_apply l ⟨i, _⟩ h2

theorem dist_entry (x y : V n) (i : Fin n) : |x i - y i| ≤ dist x y := by
  rw [← Real.dist_eq]; exact dist_le_pi_dist x y i

theorem dist_V_le {x y : V n} {c : ℝ} (hc : 0 ≤ c) (h : ∀ i, |x i - y i| ≤ c) : dist x y ≤ c := by
  rw [dist_pi_le_iff hc]
  intro i; rw [Real.dist_eq]; exact h i

/-- the exact inner product is `Σ|w_j|`-Lipschitz in its second argument for the sup metric -/
theorem dot_ofFn_lip (row : List ℝ) (x y : V n) :
    |LF.dot realOps row (List.ofFn x) - LF.dot realOps row (List.ofFn y)| ≤ absSum row * dist x y := by
  rw [List.ofFn_eq_map, List.ofFn_eq_map]
  refine (dot_map_diff row (List.finRange n) x y (fun _ => dist x y) fun i _ => dist_entry x y i).trans ?_
  exact wsum_map_const_le row _ _ dist_nonneg

/-! ## 2a. the linear layers as stages -/

/-- `F.linear(x, W)` (no bias) on vectors of width `n`: computed `fl(W x)`, exact `W x`,
    `ε(x) = ((1+u)^(n+1) - 1) max_i Σ_j |W_ij||x_j|`, Lipschitz constant `‖W‖_∞ = max_i Σ_j |W_ij|` -/
def lin0Stage (n : ℕ) (u : ℝ) (r : ℝ → ℝ) (W : List (List ℝ)) : Stage (V n) where
  fc x := toV n (LF.matVec (rndOps r) W (List.ofFn x))
  fe x := toV n (LF.matVec realOps W (List.ofFn x))
  eps x := ((1 + u) ^ (n + 1) - 1) * maxL (W.map fun row => absDot row (List.ofFn x))
  L := maxL (W.map absSum)

/-- `F.linear(x, W, b)` on vectors of width `n`: computed `fl(fl(W x) + b)`, exact `W x + b`,
    `ε(x) = max_i [((1+u)^(n+2) - 1) Σ_j |W_ij||x_j| + u |b_i|]`, Lipschitz constant `‖W‖_∞` -/
def linStage (n : ℕ) (u : ℝ) (r : ℝ → ℝ) (W : List (List ℝ)) (b : List ℝ) : Stage (V n) where
  fc x := toV n (linRow (rndOps r) W b (List.ofFn x))
  fe x := toV n (linRow realOps W b (List.ofFn x))
  eps x := maxL (List.zipWith (fun row bi => ((1 + u) ^ (n + 2) - 1) * absDot row (List.ofFn x) + u * |bi|) W b)
  L := maxL (W.map absSum)

theorem matVec_entry (o : Ops ℝ) (W : List (List ℝ)) (xs : List ℝ) (hW : W.length = n) (i : Fin n) :
    toV n (LF.matVec o W xs) i = LF.dot o (W[i.1]'(by omega)) xs := by
  rw [toV_apply _ _ (by simp [LF.matVec, hW])]
  simp [LF.matVec]

theorem linRow_entry (o : Ops ℝ) (W : List (List ℝ)) (b xs : List ℝ) (hW : W.length = n) (hb : b.length = n)
    (i : Fin n) :
    toV n (linRow o W b xs) i = o.add (LF.dot o (W[i.1]'(by omega)) xs) (b[i.1]'(by omega)) := by
  rw [toV_apply _ _ (by rw [linRow_length]; omega)]
  exact linRow_getElem o W b xs i.1 (by omega) (by omega)

theorem pow_sub_one_nonneg (h : Rnd u r) (k : ℕ) : 0 ≤ (1 + u) ^ k - 1 := by
  have := one_le_pow1 h k; linarith

theorem lin0Stage_ok (h : Rnd u r) (W : List (List ℝ)) (hW : W.length = n) : (lin0Stage n u r W).OK where
  err x := by
    apply dist_V_le (mul_nonneg (pow_sub_one_nonneg h _) (maxL_nonneg _))
    intro i
    have hi : i.1 < W.length := by omega
    simp only [lin0Stage, matVec_entry _ W _ hW]
    refine (matVec_row_err h (List.ofFn x) n W[i.1] (by simp)).trans ?_
    apply mul_le_mul_of_nonneg_left _ (pow_sub_one_nonneg h _)
    exact le_maxL (List.mem_map.mpr ⟨W[i.1], List.getElem_mem _, rfl⟩)
  lip x y := by
    apply dist_V_le (mul_nonneg (maxL_nonneg _) dist_nonneg)
    intro i
    have hi : i.1 < W.length := by omega
    simp only [lin0Stage, matVec_entry _ W _ hW]
    refine (dot_ofFn_lip W[i.1] x y).trans ?_
    apply mul_le_mul_of_nonneg_right _ dist_nonneg
    exact le_maxL (List.mem_map.mpr ⟨W[i.1], List.getElem_mem _, rfl⟩)
  L_nonneg := maxL_nonneg _

theorem linStage_ok (h : Rnd u r) (W : List (List ℝ)) (b : List ℝ) (hW : W.length = n) (hb : b.length = n) :
    (linStage n u r W b).OK where
  err x := by
    apply dist_V_le (maxL_nonneg _)
    intro i
    have hi : i.1 < W.length := by omega
    have hi' : i.1 < b.length := by omega
    simp only [linStage, linRow_entry _ W b _ hW hb]
    have h1 := linear_entry_err h W[i.1] (List.ofFn x) b[i.1]
    have h2 : (1 + u) ^ (min (W[i.1]).length (List.ofFn x).length + 2) ≤ (1 + u) ^ (n + 2) :=
      pow1_mono h (by simp)
    have h3 := mul_le_mul_of_nonneg_right (sub_le_sub_right h2 1) (absDot_nonneg W[i.1] (List.ofFn x))
    have h4 := h1.trans (add_le_add h3 (le_refl (u * |b[i.1]|)))
    refine h4.trans ?_
    apply le_maxL
    have hlen : i.1 < (List.zipWith (fun row bi => ((1 + u) ^ (n + 2) - 1) * absDot row (List.ofFn x) + u * |bi|)
        W b).length := by simp; omega
    have := List.getElem_mem hlen
    rwa [List.getElem_zipWith] at this
  lip x y := by
    apply dist_V_le (mul_nonneg (maxL_nonneg _) dist_nonneg)
    intro i
    have hi : i.1 < W.length := by omega
    simp only [linStage, linRow_entry _ W b _ hW hb]
    have e1 : realOps.add (LF.dot realOps W[i.1] (List.ofFn x)) (b[i.1]'(by omega))
        - realOps.add (LF.dot realOps W[i.1] (List.ofFn y)) (b[i.1]'(by omega))
        = LF.dot realOps W[i.1] (List.ofFn x) - LF.dot realOps W[i.1] (List.ofFn y) := by
      show (_ + _) - (_ + _) = _
      ring
    rw [e1]
    refine (dot_ofFn_lip W[i.1] x y).trans ?_
    apply mul_le_mul_of_nonneg_right _ dist_nonneg
    exact le_maxL (List.mem_map.mpr ⟨W[i.1], List.getElem_mem _, rfl⟩)
  L_nonneg := maxL_nonneg _

/-! ## 2b. element-wise layers as stages -/

/-- feature `i` goes through the scalar stage `ss i`: `ε(x) = max_i ε_i(x_i)`, `L = max_i L_i` -/
def ewStage (n : ℕ) (ss : Fin n → Stage ℝ) : Stage (V n) where
  fc x i := (ss i).fc (x i)
  fe x i := (ss i).fe (x i)
  eps x := maxL (List.ofFn fun i => (ss i).eps (x i))
  L := maxL (List.ofFn fun i => (ss i).L)

theorem ewStage_ok (ss : Fin n → Stage ℝ) (hss : ∀ i, (ss i).OK) : (ewStage n ss).OK where
  err x := by
    apply dist_V_le (maxL_nonneg _)
    intro i
    have := (hss i).err (x i)
    rw [Real.dist_eq] at this
    exact this.trans (le_maxL ((List.mem_ofFn' _ _).mpr ⟨i, rfl⟩))
  lip x y := by
    apply dist_V_le (mul_nonneg (maxL_nonneg _) dist_nonneg)
    intro i
    have h1 := (hss i).lip (x i) (y i)
    rw [Real.dist_eq, Real.dist_eq] at h1
    have h2 : (ss i).L ≤ maxL (List.ofFn fun i => (ss i).L) := le_maxL ((List.mem_ofFn' _ _).mpr ⟨i, rfl⟩)
    have h3 := mul_le_mul_of_nonneg_left (dist_entry x y i) (hss i).L_nonneg
    have h4 := mul_le_mul_of_nonneg_right h2 (dist_nonneg (x := x) (y := y))
    exact h1.trans (h3.trans h4)
  L_nonneg := maxL_nonneg _

/-- the LeakyReLU element as a scalar stage (`σ = e slope`): computed `fl(fl σ · x)` on the negative side and `x` on the
    other, `ε(x) = (2u+u²)|σ x|` resp. `0`, `L = max 1 |σ|` -/
def leakyStage (u : ℝ) (r : ℝ → ℝ) (σ : ℝ) : Stage ℝ where
  fc x := if x < 0 then r (r σ * x) else x
  fe x := if x < 0 then σ * x else x
  eps x := if x < 0 then (2 * u + u ^ 2) * |σ * x| else 0
  L := max 1 |σ|

theorem leakyStage_ok (h : Rnd u r) (slope : Float) : (leakyStage u r (e slope)).OK where
  err x := by
    rw [Real.dist_eq]
    exact (leakyReluT_fwd_err e h slope 0 x (leakyReluT_rnd e h slope 0 x) (leakyReluT_real e slope 0 x)).1
  lip x y := by
    rw [Real.dist_eq, Real.dist_eq]; exact leaky_lip _ x y
  L_nonneg := le_trans zero_le_one (le_max_left _ _)

/-! ## 2c. layers as transform objects built from the executed programs, and flows (`Wrap.cascade`) -/

/-- apply the element-wise transforms `fs` feature by feature (the first error is raised) -/
def ewRun : List (ℝ → Except Err (ℝ × ℝ)) → List ℝ → Except Err (List (ℝ × ℝ))
  | f :: fs, a :: as =>
    match f a with
    | .error err => .error err
    | .ok p => match ewRun fs as with
      | .error err => .error err
      | .ok ps => .ok (p :: ps)
  | _, _ => .ok []

/-- an element-wise layer: outputs, and `sum_except_batch` of the per-element log-abs-dets -/
def ewLayer (o : XOps ℝ) (fs : List (ℝ → Except Err (ℝ × ℝ))) (x : List ℝ) : Except Err (List ℝ × ℝ) :=
  match ewRun fs x with
  | .error err => .error err
  | .ok ps => .ok (ps.map Prod.fst, sumG o (ps.map Prod.snd))

theorem ewRun_map_ok {β : Type} (ps : List β) (F : β → ℝ → Except Err (ℝ × ℝ)) (G : β → ℝ → ℝ × ℝ)
    (hFG : ∀ p a, F p a = .ok (G p a)) (x : List ℝ) : ewRun (ps.map F) x = .ok (List.zipWith G ps x) := by
  induction ps generalizing x with
  | nil => cases x <;> rfl
  | cons p ps ih =>
    cases x with
    | nil => rfl
    | cons a as => simp only [List.map_cons, ewRun, hFG, ih, List.zipWith_cons_cons]

/-- the layers of a vector flow.  `d` is the positive diagonal from which the log-abs-det of a linear layer is computed
    (`LF.sumLog`, as `LULinear` / `SVDLinear` do) -/
inductive Layer
  /-- `F.linear(x, W, b)` -/
  | lin (W : List (List ℝ)) (b d : List ℝ)
  /-- `F.linear(F.linear(x, U), L, b)`: the forward pass of `LULinear` with given factors -/
  | lu (L U : List (List ℝ)) (b d : List ℝ)
  /-- feature `i` through `affineT` with scale / shift `st[i]` -/
  | aff (st : List (ℝ × ℝ))
  /-- every feature through `leakyReluT` (`Ls` is the attribute `log_negative_slope`) -/
  | leaky (slope : Float) (Ls : ℝ)

/-- the layer as a transform object (`forward`), built from the EXECUTED programs of `Core/` -/
def Layer.fwd (o : XOps ℝ) : Layer → List ℝ → Unit → Except Err (List ℝ × ℝ)
  | .lin W b d, x, _ => .ok (linRow o.toOps W b x, LF.sumLog o.toOps d)
  | .lu L U b d, x, _ => .ok (luRow o.toOps L U b x, LF.sumLog o.toOps d)
  | .aff st, x, _ => ewLayer o (st.map fun p => affineT o p.1 p.2 false) x
  | .leaky slope Ls, x, _ => ewLayer o (x.map fun _ => leakyReluT o slope Ls false) x

/-- shapes: the layer maps vectors of width `n` to vectors of width `n` -/
def Layer.WF (n : ℕ) : Layer → Prop
  | .lin W b _ => W.length = n ∧ b.length = n
  | .lu L U b _ => L.length = n ∧ U.length = n ∧ b.length = n
  | .aff st => st.length = n
  | .leaky _ _ => True

/-- the stages of a layer (an LU layer is two stages) -/
def Layer.stages (n : ℕ) (u : ℝ) (r : ℝ → ℝ) (e : Float → ℝ) : Layer → List (Stage (V n))
  | .lin W b _ => [linStage n u r W b]
  | .lu L U b _ => [lin0Stage n u r U, linStage n u r L b]
  | .aff st => [ewStage n fun i => affStage u r (st.getD i.1 (1, 0))]
  | .leaky slope _ => [ewStage n fun _ => leakyStage u r (e slope)]

/-- the (output, log-abs-det) of the executed affine element at rounding `r` -/
def affG (r : ℝ → ℝ) (p : ℝ × ℝ) (a : ℝ) : ℝ × ℝ := (r (r (a * p.1) + p.2), r (Real.log |p.1|))
/-- the (output, log-abs-det) of the executed LeakyReLU element at rounding `r` -/
def leakyG (r : ℝ → ℝ) (e : Float → ℝ) (slope : Float) (Ls : ℝ) (a : ℝ) : ℝ × ℝ :=
  (if a < 0 then r (r (e slope) * a) else a, if a < 0 then r (Ls * (rndX r e).one) else 0)

/-- the log-abs-det the layer returns when run at rounding `r` on the input `x` -/
def Layer.ld (r : ℝ → ℝ) (e : Float → ℝ) : Layer → List ℝ → ℝ
  | .lin _ _ d, _ => LF.sumLog (rndOps r) d
  | .lu _ _ _ d, _ => LF.sumLog (rndOps r) d
  | .aff st, x => sumG (rndX r e) ((List.zipWith (affG r) st x).map Prod.snd)
  | .leaky slope Ls, x => sumG (rndX r e) ((List.zipWith (fun _ a => leakyG r e slope Ls a) x x).map Prod.snd)

theorem Layer.stages_ok (h : Rnd u r) (l : Layer) (hl : l.WF n) : ∀ s ∈ l.stages n u r e, s.OK := by
  cases l with
  | lin W b d => intro s hs; simp only [Layer.stages, List.mem_singleton] at hs; subst hs; exact linStage_ok h W b hl.1 hl.2
  | lu L U b d =>
    intro s hs
    simp only [Layer.stages, List.mem_cons, List.not_mem_nil, or_false] at hs
    rcases hs with rfl | rfl
    · exact lin0Stage_ok h U hl.2.1
    · exact linStage_ok h L b hl.1 hl.2.2
  | aff st =>
    intro s hs; simp only [Layer.stages, List.mem_singleton] at hs; subst hs
    exact ewStage_ok _ fun i => affStage_ok h _
  | leaky slope Ls =>
    intro s hs; simp only [Layer.stages, List.mem_singleton] at hs; subst hs
    exact ewStage_ok _ fun _ => leakyStage_ok e h slope

/-- **one layer, executed at rounding `r`, is `runC` of its stages** (and returns `Layer.ld`) -/
theorem Layer.fwd_rnd (h : Rnd u r) (l : Layer) (hl : l.WF n) (x : List ℝ) (hx : x.length = n) :
    l.fwd (rndX r e) x () = .ok (List.ofFn (runC (l.stages n u r e) (toV n x)), l.ld r e x) := by
  cases l with
  | lin W b d =>
    simp only [Layer.fwd, Layer.stages, Layer.ld, runC, List.foldl_cons, List.foldl_nil, linStage, rndX_toOps,
      ofFn_toV x hx]
    rw [ofFn_toV _ (by rw [linRow_length, hl.1, hl.2]; simp)]
  | lu L U b d =>
    obtain ⟨hL, hU, hb⟩ := hl
    simp only [Layer.fwd, Layer.stages, Layer.ld, runC, List.foldl_cons, List.foldl_nil, linStage, lin0Stage,
      rndX_toOps, ofFn_toV x hx]
    rw [ofFn_toV (LF.matVec (rndOps r) U x) (by simp [LF.matVec, hU]),
      ofFn_toV _ (by rw [linRow_length, hL, hb]; simp)]
    rfl
  | aff st =>
    have hst : st.length = n := hl
    simp only [Layer.fwd, Layer.stages, Layer.ld, runC, List.foldl_cons, List.foldl_nil, ewLayer]
    rw [ewRun_map_ok st (fun p => affineT (rndX r e) p.1 p.2 false) (affG r) (fun p a => rfl)]
    simp only [Except.ok.injEq, Prod.mk.injEq, and_true]
    apply List.ext_getElem
    · simp [hst, hx]
    · intro i h1 h2
      have hi : i < n := by simpa using h2
      simp only [List.getElem_map, List.getElem_zipWith, List.getElem_ofFn, ewStage, affStage, affG]
      rw [toV_apply x ⟨i, hi⟩ (by simp; omega)]
      simp [List.getD_eq_getElem?_getD, hst, hi]
  | leaky slope Ls =>
    simp only [Layer.fwd, Layer.stages, Layer.ld, runC, List.foldl_cons, List.foldl_nil, ewLayer]
    rw [ewRun_map_ok x (fun _ => leakyReluT (rndX r e) slope Ls false) (fun _ a => leakyG r e slope Ls a)
      (fun _ a => leakyReluT_rnd e h slope Ls a)]
    simp only [Except.ok.injEq, Prod.mk.injEq, and_true]
    apply List.ext_getElem
    · simp [hx]
    · intro i h1 h2
      have hi : i < n := by simpa using h2
      simp only [List.getElem_map, List.getElem_zipWith, List.getElem_ofFn, ewStage, leakyStage, leakyG]
      rw [toV_apply x ⟨i, hi⟩ (by simp; omega)]

/-- how `CompositeTransform._cascade` accumulates the log-abs-det in the precision of `o`: from `o.zero`, with `o.add` -/
def ldOps (o : XOps ℝ) : Wrap.LD ℝ := ⟨o.zero, o.add⟩

/-- **the executed flow**: `CompositeTransform(layers).forward(x)` — `Wrap.cascade` of `Core/Wrappers` over the layers -/
def flowFwd (o : XOps ℝ) (ls : List Layer) (x : List ℝ) : Except Err (List ℝ × ℝ) :=
  Wrap.cascade (ldOps o) (ls.map (Layer.fwd o)) x ()

/-- all stages of a flow -/
def stagesOf (n : ℕ) (u : ℝ) (r : ℝ → ℝ) (e : Float → ℝ) (ls : List Layer) : List (Stage (V n)) :=
  ls.flatMap (Layer.stages n u r e)

/-- the per-layer log-abs-dets returned along the COMPUTED trajectory -/
def ldsOf (n : ℕ) (u : ℝ) (r : ℝ → ℝ) (e : Float → ℝ) : List Layer → V n → List ℝ
  | [], _ => []
  | l :: ls, v => l.ld r e (List.ofFn v) :: ldsOf n u r e ls (runC (l.stages n u r e) v)

theorem runC_append {X : Type*} (a b : List (Stage X)) (x : X) : runC (a ++ b) x = runC b (runC a x) := by
  simp [runC, List.foldl_append]
theorem runE_append {X : Type*} (a b : List (Stage X)) (x : X) : runE (a ++ b) x = runE b (runE a x) := by
  simp [runE, List.foldl_append]

theorem stagesOf_cons (l : Layer) (ls : List Layer) :
    stagesOf n u r e (l :: ls) = l.stages n u r e ++ stagesOf n u r e ls := by
  simp [stagesOf]

theorem stagesOf_ok (h : Rnd u r) (ls : List Layer) (hwf : ∀ l ∈ ls, l.WF n) : ∀ s ∈ stagesOf n u r e ls, s.OK := by
  intro s hs
  obtain ⟨l, hl, hs⟩ := List.mem_flatMap.mp hs
  exact Layer.stages_ok e h l (hwf l hl) s hs

/-- the loop of the composite, from any running value and running log-det -/
theorem cascadeFrom_run (h : Rnd u r) (ls : List Layer) (hwf : ∀ l ∈ ls, l.WF n) (x : List ℝ) (hx : x.length = n)
    (a : ℝ) :
    Wrap.cascadeFrom (ldOps (rndX r e)) (ls.map (Layer.fwd (rndX r e))) x a ()
      = .ok (List.ofFn (runC (stagesOf n u r e ls) (toV n x)),
             (ldsOf n u r e ls (toV n x)).foldl (fun a b => r (a + b)) a) := by
  induction ls generalizing x a with
  | nil => simp [Wrap.cascadeFrom, stagesOf, runC, ldsOf, ofFn_toV x hx]
  | cons l ls ih =>
    simp only [List.map_cons, Wrap.cascadeFrom]
    rw [Layer.fwd_rnd e h l (hwf l (by simp)) x hx]
    simp only []
    rw [ih (fun t ht => hwf t (by simp [ht])) _ (by simp)]
    simp only [toV_ofFn, stagesOf_cons, runC_append, ldsOf, List.foldl_cons, ofFn_toV x hx]
    rfl

/-- **the executed flow at rounding `r`** is `runC` of its stages; the log-det is the rounded running sum of the layers'
    log-dets -/
theorem flowFwd_rnd (h : Rnd u r) (ls : List Layer) (hwf : ∀ l ∈ ls, l.WF n) (x : List ℝ) (hx : x.length = n) :
    flowFwd (rndX r e) ls x
      = .ok (List.ofFn (runC (stagesOf n u r e ls) (toV n x)),
             (ldsOf n u r e ls (toV n x)).foldl (fun a b => r (a + b)) 0) := by
  have := cascadeFrom_run e h ls hwf x hx (rndX r e).zero
  rw [h.zeroX] at this
  show Wrap.cascadeFrom _ _ x (rndX r e).zero () = _
  rw [h.zeroX]
  exact this

theorem Layer.stages_fc_id (l : Layer) :
    (l.stages n 0 id e).map Stage.fc = (l.stages n u r e).map Stage.fe := by
  cases l <;> rfl

theorem runC_id_eq_runE (ls : List Layer) (v : V n) :
    runC (stagesOf n 0 id e ls) v = runE (stagesOf n u r e ls) v := by
  have key : (stagesOf n 0 id e ls).map Stage.fc = (stagesOf n u r e ls).map Stage.fe := by
    induction ls with
    | nil => rfl
    | cons l ls ih => rw [stagesOf_cons, stagesOf_cons, List.map_append, List.map_append, ih, Layer.stages_fc_id]
  have e1 : ∀ ss : List (Stage (V n)), runC ss v = (ss.map Stage.fc).foldl (fun a f => f a) v := by
    intro ss; simp [runC, List.foldl_map]
  have e2 : ∀ ss : List (Stage (V n)), runE ss v = (ss.map Stage.fe).foldl (fun a f => f a) v := by
    intro ss; simp [runE, List.foldl_map]
  rw [e1, e2, key]

/-- **the executed flow at the reals** is `runE` of the same stages -/
theorem flowFwd_real (ls : List Layer) (hwf : ∀ l ∈ ls, l.WF n) (x : List ℝ) (hx : x.length = n) :
    flowFwd (NF.realX e) ls x
      = .ok (List.ofFn (runE (stagesOf n u r e ls) (toV n x)), (ldsOf n 0 id e ls (toV n x)).sum) := by
  have := flowFwd_rnd e rnd_id ls hwf x hx
  rw [rndX_id, runC_id_eq_runE (u := u) (r := r)] at this
  rw [this]
  congr 2
  generalize ldsOf n 0 id e ls (toV n x) = l
  have := foldl_err rnd_id l 0
  simp only [add_zero, one_pow, sub_self, zero_mul, zero_add] at this
  exact sub_eq_zero.mp (abs_eq_zero.mp (le_antisymm this (abs_nonneg _)))

/-- **a flow of `k` vector layers, executed in precision `u`**: the output is within the explicit recursion `errB` of the
    exact flow, in the sup norm (`errB` feeds every stage's local error, evaluated at the COMPUTED intermediate vector,
    through the Lipschitz constants `‖W‖_∞`, `max_i |s_i|`, `max 1 |σ|` of the stages that follow) -/
theorem flow_err (h : Rnd u r) (ls : List Layer) (hwf : ∀ l ∈ ls, l.WF n) (x : List ℝ) (hx : x.length = n)
    {y y' : List ℝ} {l l' : ℝ}
    (hc : flowFwd (rndX r e) ls x = .ok (y, l)) (he : flowFwd (NF.realX e) ls x = .ok (y', l')) :
    y.length = n ∧ y'.length = n ∧ dist (toV n y) (toV n y') ≤ errB (stagesOf n u r e ls) (toV n x) 0 := by
  rw [flowFwd_rnd e h ls hwf x hx] at hc
  rw [flowFwd_real (u := u) (r := r) e ls hwf x hx] at he
  simp only [Except.ok.injEq, Prod.mk.injEq] at hc he
  obtain ⟨rfl, -⟩ := hc; obtain ⟨rfl, -⟩ := he
  refine ⟨by simp, by simp, ?_⟩
  rw [toV_ofFn, toV_ofFn]
  exact compose_err₀ _ (stagesOf_ok e h ls hwf) _

/-- entry-wise reading of `flow_err` -/
theorem flow_err_entry (h : Rnd u r) (ls : List Layer) (hwf : ∀ l ∈ ls, l.WF n) (x : List ℝ) (hx : x.length = n)
    {y y' : List ℝ} {l l' : ℝ}
    (hc : flowFwd (rndX r e) ls x = .ok (y, l)) (he : flowFwd (NF.realX e) ls x = .ok (y', l'))
    (i : ℕ) (hi : i < n) :
    |y.getD i 0 - y'.getD i 0| ≤ errB (stagesOf n u r e ls) (toV n x) 0 :=
  (dist_entry (toV n y) (toV n y') ⟨i, hi⟩).trans (flow_err e h ls hwf x hx hc he).2.2

/-- closed form under uniform bounds on the stages: `E (1 + Λ + … + Λ^(K-1))`, `K` the number of stages -/
theorem flow_err_uniform (h : Rnd u r) (ls : List Layer) (hwf : ∀ l ∈ ls, l.WF n) (x : List ℝ) (hx : x.length = n)
    (E Λ : ℝ) (hE : ∀ s ∈ stagesOf n u r e ls, ∀ v, s.eps v ≤ E) (hΛ : ∀ s ∈ stagesOf n u r e ls, s.L ≤ Λ)
    {y y' : List ℝ} {l l' : ℝ}
    (hc : flowFwd (rndX r e) ls x = .ok (y, l)) (he : flowFwd (NF.realX e) ls x = .ok (y', l')) :
    dist (toV n y) (toV n y') ≤ E * ∑ k ∈ Finset.range (stagesOf n u r e ls).length, Λ ^ k := by
  rw [flowFwd_rnd e h ls hwf x hx] at hc
  rw [flowFwd_real (u := u) (r := r) e ls hwf x hx] at he
  simp only [Except.ok.injEq, Prod.mk.injEq] at hc he
  obtain ⟨rfl, -⟩ := hc; obtain ⟨rfl, -⟩ := he
  rw [toV_ofFn, toV_ofFn]
  exact compose_err_uniform _ (stagesOf_ok e h ls hwf) E Λ hE hΛ _

/-- **`f32_f64_agree_flow`**: the same flow run in two precisions — the outputs differ, in the sup norm, by at most the
    sum of the two explicit error recursions -/
theorem f32_f64_agree_flow {u32 u64 : ℝ} {r32 r64 : ℝ → ℝ} (h32 : Rnd u32 r32) (h64 : Rnd u64 r64)
    (ls : List Layer) (hwf : ∀ l ∈ ls, l.WF n) (x : List ℝ) (hx : x.length = n) {y y' : List ℝ} {l l' : ℝ}
    (hc : flowFwd (rndX r32 e) ls x = .ok (y, l)) (he : flowFwd (rndX r64 e) ls x = .ok (y', l')) :
    dist (toV n y) (toV n y')
      ≤ errB (stagesOf n u32 r32 e ls) (toV n x) 0 + errB (stagesOf n u64 r64 e ls) (toV n x) 0 := by
  have a := (flow_err e h32 ls hwf x hx hc (flowFwd_real (u := u32) (r := r32) e ls hwf x hx)).2.2
  have b := (flow_err e h64 ls hwf x hx he (flowFwd_real (u := u32) (r := r32) e ls hwf x hx)).2.2
  have := dist_triangle_right (toV n y) (toV n y') (toV n (List.ofFn (runE (stagesOf n u32 r32 e ls) (toV n x))))
  linarith

theorem f32_f64_agree_flow_entry {u32 u64 : ℝ} {r32 r64 : ℝ → ℝ} (h32 : Rnd u32 r32) (h64 : Rnd u64 r64)
    (ls : List Layer) (hwf : ∀ l ∈ ls, l.WF n) (x : List ℝ) (hx : x.length = n) {y y' : List ℝ} {l l' : ℝ}
    (hc : flowFwd (rndX r32 e) ls x = .ok (y, l)) (he : flowFwd (rndX r64 e) ls x = .ok (y', l'))
    (i : ℕ) (hi : i < n) :
    |y.getD i 0 - y'.getD i 0|
      ≤ errB (stagesOf n u32 r32 e ls) (toV n x) 0 + errB (stagesOf n u64 r64 e ls) (toV n x) 0 :=
  (dist_entry (toV n y) (toV n y') ⟨i, hi⟩).trans (f32_f64_agree_flow e h32 h64 ls hwf x hx hc he)

/-- … and in closed form under uniform bounds on the stages of the two runs -/
theorem f32_f64_agree_flow_uniform {u32 u64 : ℝ} {r32 r64 : ℝ → ℝ} (h32 : Rnd u32 r32) (h64 : Rnd u64 r64)
    (ls : List Layer) (hwf : ∀ l ∈ ls, l.WF n) (x : List ℝ) (hx : x.length = n) (E32 E64 Λ : ℝ)
    (hE32 : ∀ s ∈ stagesOf n u32 r32 e ls, ∀ v, s.eps v ≤ E32) (hE64 : ∀ s ∈ stagesOf n u64 r64 e ls, ∀ v, s.eps v ≤ E64)
    (hΛ32 : ∀ s ∈ stagesOf n u32 r32 e ls, s.L ≤ Λ) (hΛ64 : ∀ s ∈ stagesOf n u64 r64 e ls, s.L ≤ Λ)
    (K : ℕ) (hK : K = (stagesOf n u32 r32 e ls).length) (hK' : K = (stagesOf n u64 r64 e ls).length)
    {y y' : List ℝ} {l l' : ℝ}
    (hc : flowFwd (rndX r32 e) ls x = .ok (y, l)) (he : flowFwd (rndX r64 e) ls x = .ok (y', l')) :
    dist (toV n y) (toV n y') ≤ (E32 + E64) * ∑ k ∈ Finset.range K, Λ ^ k := by
  have a := flow_err_uniform e h32 ls hwf x hx E32 Λ hE32 hΛ32 hc (flowFwd_real (u := u32) (r := r32) e ls hwf x hx)
  have b := flow_err_uniform e h64 ls hwf x hx E64 Λ hE64 hΛ64 he (flowFwd_real (u := u32) (r := r32) e ls hwf x hx)
  rw [← hK] at a; rw [← hK'] at b
  have := dist_triangle_right (toV n y) (toV n y') (toV n (List.ofFn (runE (stagesOf n u32 r32 e ls) (toV n x))))
  linarith

/-! ## 3. the accumulated log-abs-det of a flow of constant-Jacobian layers -/

section pert
variable {β : Type*}

theorem sum_map_pert (ls : List β) (c ex η : β → ℝ) (hce : ∀ b ∈ ls, |c b - ex b| ≤ η b) :
    |(ls.map c).sum - (ls.map ex).sum| ≤ (ls.map η).sum := by
  induction ls with
  | nil => simp
  | cons b ls ih =>
    simp only [List.map_cons, List.sum_cons]
    have h1 := ih fun t ht => hce t (by simp [ht])
    have h2 := hce b (by simp)
    have h3 := abs_add_le (c b - ex b) ((ls.map c).sum - (ls.map ex).sum)
    have e1 : c b - ex b + ((ls.map c).sum - (ls.map ex).sum) = c b + (ls.map c).sum - (ex b + (ls.map ex).sum) := by
      ring
    rw [e1] at h3
    linarith

theorem absSum_map_pert (ls : List β) (c ex η : β → ℝ) (hce : ∀ b ∈ ls, |c b - ex b| ≤ η b) :
    absSum (ls.map c) ≤ absSum (ls.map ex) + (ls.map η).sum := by
  induction ls with
  | nil => simp
  | cons b ls ih =>
    simp only [List.map_cons, List.sum_cons, absSum_cons]
    have h1 := ih fun t ht => hce t (by simp [ht])
    have h2 := hce b (by simp)
    have h3 := abs_sub_abs_le_abs_sub (c b) (ex b)
    linarith

/-- **a rounded running sum of perturbed terms** (`total_logabsdet += logabsdet`, from zero): terms `c_j` within `η_j` of
    `ℓ_j`, `k` of them: `|fl Σ c_j - Σ ℓ_j| ≤ ((1+u)^k - 1)(Σ|ℓ_j| + Σ η_j) + Σ η_j` -/
theorem foldl_pert_err (h : Rnd u r) (ls : List β) (c ex η : β → ℝ) (hce : ∀ b ∈ ls, |c b - ex b| ≤ η b) :
    |(ls.map c).foldl (fun a x => r (a + x)) 0 - (ls.map ex).sum|
      ≤ ((1 + u) ^ ls.length - 1) * (absSum (ls.map ex) + (ls.map η).sum) + (ls.map η).sum := by
  have h1 := foldl_err h (ls.map c) 0
  simp only [zero_add, abs_zero, List.length_map] at h1
  have h2 := sum_map_pert ls c ex η hce
  have h3 := absSum_map_pert ls c ex η hce
  have h4 := mul_le_mul_of_nonneg_left h3 (pow_sub_one_nonneg h ls.length)
  have h5 := abs_sub_le ((ls.map c).foldl (fun a x => r (a + x)) 0) (ls.map c).sum (ls.map ex).sum
  linarith

end pert

/-- layers whose log-abs-det does not depend on the input (everything but LeakyReLU) -/
def Layer.Const : Layer → Prop
  | .leaky _ _ => False
  | _ => True

/-- the positive numbers whose logarithms are summed for the log-abs-det: `d` for the linear layers, `|s_i|` for the
    affine layer -/
def Layer.diag : Layer → List ℝ
  | .lin _ _ d => d
  | .lu _ _ _ d => d
  | .aff st => st.map fun p => |p.1|
  | .leaky _ _ => []

/-- the exact log-abs-det `Σ log d_i` of a constant-Jacobian layer -/
def Layer.ldExact (l : Layer) : ℝ := LF.sumLog realOps l.diag
/-- the rounding budget of one layer's log-abs-det: `((1+u)^(m+1) - 1) Σ |log d_i|`, `m` the number of terms -/
def Layer.ldEps (u : ℝ) (l : Layer) : ℝ := ((1 + u) ^ (l.diag.length + 1) - 1) * absSum (l.diag.map Real.log)

theorem sumLog_real (d : List ℝ) : LF.sumLog realOps d = (d.map Real.log).sum := by
  unfold LF.sumLog; rw [LFTriSolve.sum_real]; rfl

theorem zipWith_affG_snd (st : List (ℝ × ℝ)) (x : List ℝ) (hx : st.length ≤ x.length) :
    (List.zipWith (affG r) st x).map Prod.snd = (st.map fun p => |p.1|).map (rndOps r).log := by
  induction st generalizing x with
  | nil => simp
  | cons p st ih =>
    cases x with
    | nil => simp at hx
    | cons a as =>
      simp only [List.zipWith_cons_cons, List.map_cons, ih as (by simpa using hx)]
      rfl

/-- a constant-Jacobian layer returns the executed `sumLog` of its diagonal, whatever the input -/
theorem Layer.ld_const (l : Layer) (hc : l.Const) (hl : l.WF n) (x : List ℝ) (hx : x.length = n) :
    l.ld r e x = LF.sumLog (rndOps r) l.diag := by
  cases l with
  | lin W b d => rfl
  | lu L U b d => rfl
  | aff st =>
    have hst : st.length = n := hl
    simp only [Layer.ld, Layer.diag]
    rw [zipWith_affG_snd st x (by omega)]
    rfl
  | leaky slope Ls => exact hc.elim

theorem ldsOf_const (ls : List Layer) (hc : ∀ l ∈ ls, l.Const) (hwf : ∀ l ∈ ls, l.WF n) (v : V n) :
    ldsOf n u r e ls v = ls.map fun l => LF.sumLog (rndOps r) l.diag := by
  induction ls generalizing v with
  | nil => rfl
  | cons l ls ih =>
    simp only [ldsOf, List.map_cons]
    rw [Layer.ld_const e l (hc l (by simp)) (hwf l (by simp)) _ (by simp),
      ih (fun t ht => hc t (by simp [ht])) (fun t ht => hwf t (by simp [ht]))]

/-- **the log-abs-det of a flow of constant-Jacobian layers (LU / linear / point-wise affine), executed**: with
    `ℓ_j = Σ_i log d_ji` the exact log-det of layer `j`, `η_j = ((1+u)^(m_j+1) - 1) Σ_i |log d_ji|` its own rounding
    budget (`sumLog_err`) and `k` the number of layers,
    `|computed total - exact total| ≤ ((1+u)^k - 1)(Σ_j |ℓ_j| + Σ_j η_j) + Σ_j η_j`;
    the exact total is `Σ_j ℓ_j`.  (The diagonals are GIVEN: their computation from the parameters is not analysed.) -/
theorem flow_ld_err (h : Rnd u r) (ls : List Layer) (hconst : ∀ l ∈ ls, l.Const) (hwf : ∀ l ∈ ls, l.WF n)
    (x : List ℝ) (hx : x.length = n) {y y' : List ℝ} {l l' : ℝ}
    (hc : flowFwd (rndX r e) ls x = .ok (y, l)) (he : flowFwd (NF.realX e) ls x = .ok (y', l')) :
    l' = (ls.map Layer.ldExact).sum ∧
    |l - l'| ≤ ((1 + u) ^ ls.length - 1) * (absSum (ls.map Layer.ldExact) + (ls.map (Layer.ldEps u)).sum)
        + (ls.map (Layer.ldEps u)).sum := by
  rw [flowFwd_rnd e h ls hwf x hx] at hc
  rw [flowFwd_real (u := u) (r := r) e ls hwf x hx] at he
  simp only [Except.ok.injEq, Prod.mk.injEq] at hc he
  obtain ⟨-, rfl⟩ := hc; obtain ⟨-, rfl⟩ := he
  rw [ldsOf_const e ls hconst hwf, ldsOf_const e ls hconst hwf]
  have e1 : (ls.map fun l => LF.sumLog (rndOps id) l.diag) = ls.map Layer.ldExact := rfl
  rw [e1]
  refine ⟨rfl, ?_⟩
  exact foldl_pert_err h ls _ Layer.ldExact (Layer.ldEps u) fun l _ => sumLog_err h l.diag

/-- **`f32_f64_agree_flow_ld`**: the accumulated log-abs-det in two precisions -/
theorem f32_f64_agree_flow_ld {u32 u64 : ℝ} {r32 r64 : ℝ → ℝ} (h32 : Rnd u32 r32) (h64 : Rnd u64 r64)
    (ls : List Layer) (hconst : ∀ l ∈ ls, l.Const) (hwf : ∀ l ∈ ls, l.WF n)
    (x : List ℝ) (hx : x.length = n) {y y' : List ℝ} {l l' : ℝ}
    (hc : flowFwd (rndX r32 e) ls x = .ok (y, l)) (he : flowFwd (rndX r64 e) ls x = .ok (y', l')) :
    |l - l'| ≤ (((1 + u32) ^ ls.length - 1) * (absSum (ls.map Layer.ldExact) + (ls.map (Layer.ldEps u32)).sum)
          + (ls.map (Layer.ldEps u32)).sum)
        + (((1 + u64) ^ ls.length - 1) * (absSum (ls.map Layer.ldExact) + (ls.map (Layer.ldEps u64)).sum)
          + (ls.map (Layer.ldEps u64)).sum) :=
  tri (flow_ld_err e h32 ls hconst hwf x hx hc (flowFwd_real (u := u32) (r := r32) e ls hwf x hx)).2
    (flow_ld_err e h64 ls hconst hwf x hx he (flowFwd_real (u := u32) (r := r32) e ls hwf x hx)).2

/-! ## closed form along the computed trajectory, a-priori bounds of the local errors -/

/-- every stage's local error, evaluated where the COMPUTED run passes, is at most `E` (for linear stages a bound
    `∀ x, ε(x) ≤ E` over all inputs cannot hold; this one can) -/
def TrajBound {X : Type*} (E : ℝ) : List (Stage X) → X → Prop
  | [], _ => True
  | s :: ss, x => s.eps x ≤ E ∧ TrajBound E ss (s.fc x)

theorem errB_traj {X : Type*} [PseudoMetricSpace X] (ss : List (Stage X)) (hok : ∀ s ∈ ss, s.OK) (E Λ : ℝ) (x : X)
    (hE : TrajBound E ss x) (hΛ : ∀ s ∈ ss, s.L ≤ Λ) (δ : ℝ) (hδ : 0 ≤ δ) :
    errB ss x δ ≤ E * (∑ k ∈ Finset.range ss.length, Λ ^ k) + Λ ^ ss.length * δ := by
  induction ss generalizing x δ with
  | nil => simp [errB]
  | cons s ss ih =>
    have hs := hok s (by simp)
    obtain ⟨hE1, hE2⟩ := hE
    have hL1 := hΛ s (by simp)
    have hL0 := hs.L_nonneg
    have hΛ0 : 0 ≤ Λ := hL0.trans hL1
    have heps0 : 0 ≤ s.eps x := dist_nonneg.trans (hs.err x)
    have hδ' : 0 ≤ s.eps x + s.L * δ := add_nonneg heps0 (mul_nonneg hL0 hδ)
    have := ih (fun t ht => hok t (by simp [ht])) (s.fc x) hE2 (fun t ht => hΛ t (by simp [ht]))
      (s.eps x + s.L * δ) hδ'
    simp only [errB, List.length_cons]
    refine this.trans ?_
    rw [Finset.sum_range_succ, pow_succ]
    have hp : 0 ≤ Λ ^ ss.length := pow_nonneg hΛ0 _
    have h1 : s.L * δ ≤ Λ * δ := mul_le_mul_of_nonneg_right hL1 hδ
    have h2 : Λ ^ ss.length * (s.eps x + s.L * δ) ≤ Λ ^ ss.length * (E + Λ * δ) :=
      mul_le_mul_of_nonneg_left (by linarith) hp
    nlinarith

/-- **closed form of `f32_f64_agree_flow`**: local errors at most `E32` / `E64` along the two computed trajectories, all
    Lipschitz constants at most `Λ`, `K` stages: the outputs differ by at most `(E32 + E64)(1 + Λ + … + Λ^(K-1))` -/
theorem f32_f64_agree_flow_traj {u32 u64 : ℝ} {r32 r64 : ℝ → ℝ} (h32 : Rnd u32 r32) (h64 : Rnd u64 r64)
    (ls : List Layer) (hwf : ∀ l ∈ ls, l.WF n) (x : List ℝ) (hx : x.length = n) (E32 E64 Λ : ℝ)
    (hE32 : TrajBound E32 (stagesOf n u32 r32 e ls) (toV n x)) (hE64 : TrajBound E64 (stagesOf n u64 r64 e ls) (toV n x))
    (hΛ32 : ∀ s ∈ stagesOf n u32 r32 e ls, s.L ≤ Λ) (hΛ64 : ∀ s ∈ stagesOf n u64 r64 e ls, s.L ≤ Λ)
    (K : ℕ) (hK : K = (stagesOf n u32 r32 e ls).length) (hK' : K = (stagesOf n u64 r64 e ls).length)
    {y y' : List ℝ} {l l' : ℝ}
    (hc : flowFwd (rndX r32 e) ls x = .ok (y, l)) (he : flowFwd (rndX r64 e) ls x = .ok (y', l')) :
    dist (toV n y) (toV n y') ≤ (E32 + E64) * ∑ k ∈ Finset.range K, Λ ^ k := by
  have a := errB_traj _ (stagesOf_ok e h32 ls hwf) E32 Λ _ hE32 hΛ32 0 le_rfl
  have b := errB_traj _ (stagesOf_ok e h64 ls hwf) E64 Λ _ hE64 hΛ64 0 le_rfl
  rw [← hK] at a; rw [← hK'] at b
  have := f32_f64_agree_flow e h32 h64 ls hwf x hx hc he
  simp only [mul_zero, add_zero] at a b
  linarith

theorem absDot_ofFn_le (row : List ℝ) (x : V n) (M : ℝ) (hM0 : 0 ≤ M) (hM : ∀ i, |x i| ≤ M) :
    absDot row (List.ofFn x) ≤ absSum row * M := by
  rw [List.ofFn_eq_map]
  exact (absDot_map_le row (List.finRange n) x (fun _ => M) fun i _ => hM i).trans
    (wsum_map_const_le row _ M hM0)

/-- a-priori local error of `fl(W x)`: `((1+u)^(n+1) - 1) ‖W‖_∞ ‖x‖_∞` -/
theorem lin0Stage_eps_le (h : Rnd u r) (W : List (List ℝ)) (x : V n) (M : ℝ) (hM0 : 0 ≤ M) (hM : ∀ i, |x i| ≤ M) :
    (lin0Stage n u r W).eps x ≤ ((1 + u) ^ (n + 1) - 1) * (maxL (W.map absSum) * M) := by
  apply mul_le_mul_of_nonneg_left _ (pow_sub_one_nonneg h _)
  apply maxL_le (mul_nonneg (maxL_nonneg _) hM0)
  intro a ha
  obtain ⟨row, hrow, rfl⟩ := List.mem_map.mp ha
  refine (absDot_ofFn_le row x M hM0 hM).trans (mul_le_mul_of_nonneg_right ?_ hM0)
  exact le_maxL (List.mem_map.mpr ⟨row, hrow, rfl⟩)

/-- a-priori local error of `fl(fl(W x) + b)`: `((1+u)^(n+2) - 1) ‖W‖_∞ ‖x‖_∞ + u ‖b‖_∞` -/
theorem linStage_eps_le (h : Rnd u r) (W : List (List ℝ)) (b : List ℝ) (x : V n) (M : ℝ) (hM0 : 0 ≤ M)
    (hM : ∀ i, |x i| ≤ M) :
    (linStage n u r W b).eps x
      ≤ ((1 + u) ^ (n + 2) - 1) * (maxL (W.map absSum) * M) + u * maxL (b.map fun t => |t|) := by
  have hγ := pow_sub_one_nonneg h (n + 2)
  have hu := h.u_nonneg
  apply maxL_le (add_nonneg (mul_nonneg hγ (mul_nonneg (maxL_nonneg _) hM0)) (mul_nonneg hu (maxL_nonneg _)))
  intro a ha
  obtain ⟨i, hi, rfl⟩ := List.mem_iff_getElem.mp ha
  have hi' : i < W.length ∧ i < b.length := by simpa using hi
  rw [List.getElem_zipWith]
  have h1 : absDot W[i] (List.ofFn x) ≤ maxL (W.map absSum) * M :=
    (absDot_ofFn_le _ x M hM0 hM).trans
      (mul_le_mul_of_nonneg_right (le_maxL (List.mem_map.mpr ⟨W[i], List.getElem_mem _, rfl⟩)) hM0)
  have h2 : |b[i]| ≤ maxL (b.map fun t => |t|) := le_maxL (List.mem_map.mpr ⟨b[i], List.getElem_mem _, rfl⟩)
  have := mul_le_mul_of_nonneg_left h1 hγ
  have := mul_le_mul_of_nonneg_left h2 hu
  linarith

theorem ewStage_eps_le (ss : Fin n → Stage ℝ) (x : V n) (E : ℝ) (hE0 : 0 ≤ E) (hE : ∀ i, (ss i).eps (x i) ≤ E) :
    (ewStage n ss).eps x ≤ E := by
  apply maxL_le hE0
  intro a ha
  obtain ⟨i, rfl⟩ := (List.mem_ofFn' _ _).mp ha
  exact hE i

/-! ### a-priori size of the computed outputs (what makes `TrajBound` dischargeable) -/

theorem lin0Stage_fc_le (h : Rnd u r) (W : List (List ℝ)) (hW : W.length = n) (x : V n) (M : ℝ) (hM0 : 0 ≤ M)
    (hM : ∀ i, |x i| ≤ M) (i : Fin n) :
    |(lin0Stage n u r W).fc x i| ≤ (1 + u) ^ (n + 1) * (maxL (W.map absSum) * M) := by
  have h1 := (dist_entry _ _ i).trans (((lin0Stage_ok h W hW).err x).trans (lin0Stage_eps_le h W x M hM0 hM))
  have hi : i.1 < W.length := by omega
  have h2 : |(lin0Stage n u r W).fe x i| ≤ maxL (W.map absSum) * M := by
    simp only [lin0Stage, matVec_entry _ W _ hW]
    refine ((abs_dot_le _ _).trans (absDot_ofFn_le _ x M hM0 hM)).trans (mul_le_mul_of_nonneg_right ?_ hM0)
    exact le_maxL (List.mem_map.mpr ⟨W[i.1], List.getElem_mem _, rfl⟩)
  have h3 := abs_sub_abs_le_abs_sub ((lin0Stage n u r W).fc x i) ((lin0Stage n u r W).fe x i)
  linarith

theorem linStage_fc_le (h : Rnd u r) (W : List (List ℝ)) (b : List ℝ) (hW : W.length = n) (hb : b.length = n)
    (x : V n) (M : ℝ) (hM0 : 0 ≤ M) (hM : ∀ i, |x i| ≤ M) (i : Fin n) :
    |(linStage n u r W b).fc x i|
      ≤ (1 + u) ^ (n + 2) * (maxL (W.map absSum) * M) + (1 + u) * maxL (b.map fun t => |t|) := by
  have h1 := (dist_entry _ _ i).trans (((linStage_ok h W b hW hb).err x).trans (linStage_eps_le h W b x M hM0 hM))
  have hi : i.1 < W.length := by omega
  have hi' : i.1 < b.length := by omega
  have h2 : |(linStage n u r W b).fe x i| ≤ maxL (W.map absSum) * M + maxL (b.map fun t => |t|) := by
    simp only [linStage, linRow_entry _ W b _ hW hb]
    have a1 : |LF.dot realOps W[i.1] (List.ofFn x)| ≤ maxL (W.map absSum) * M :=
      ((abs_dot_le _ _).trans (absDot_ofFn_le _ x M hM0 hM)).trans
        (mul_le_mul_of_nonneg_right (le_maxL (List.mem_map.mpr ⟨W[i.1], List.getElem_mem _, rfl⟩)) hM0)
    have a2 : |b[i.1]| ≤ maxL (b.map fun t => |t|) := le_maxL (List.mem_map.mpr ⟨b[i.1], List.getElem_mem _, rfl⟩)
    have a3 : |realOps.add (LF.dot realOps W[i.1] (List.ofFn x)) b[i.1]|
        ≤ |LF.dot realOps W[i.1] (List.ofFn x)| + |b[i.1]| := abs_add_le _ _
    linarith
  have h3 := abs_sub_abs_le_abs_sub ((linStage n u r W b).fc x i) ((linStage n u r W b).fe x i)
  linarith

theorem leakyStage_eps_le (h : Rnd u r) (σ x M : ℝ) (hσ : |σ| ≤ 1) (hM : |x| ≤ M) :
    (leakyStage u r σ).eps x ≤ (2 * u + u ^ 2) * M := by
  have hu := h.u_nonneg
  have hM0 : 0 ≤ M := (abs_nonneg x).trans hM
  have hc : 0 ≤ 2 * u + u ^ 2 := by positivity
  by_cases hx : x < 0
  · simp only [leakyStage, hx, if_true, abs_mul]
    apply mul_le_mul_of_nonneg_left _ hc
    have := mul_le_mul hσ hM (abs_nonneg x) zero_le_one
    linarith
  · simp only [leakyStage, hx, if_false]
    exact mul_nonneg hc hM0

/-! ## 4. non-vacuity: a concrete two-layer flow at the binary32 / binary64 unit roundoffs -/

/-- a 2×2 LU layer (`L = [[1,0],[1/2,1]]`, `U = [[2,1],[0,3]]`, `b = [1,-1]`, log-det from the diagonal `[2,3]`)
    followed by a LeakyReLU -/
def exFlow (slope : Float) (Ls : ℝ) : List Layer :=
  [.lu [[1, 0], [1 / 2, 1]] [[2, 1], [0, 3]] [1, -1] [2, 3], .leaky slope Ls]

theorem exFlow_wf (slope : Float) (Ls : ℝ) : ∀ l ∈ exFlow slope Ls, l.WF 2 := by
  intro l hl
  simp only [exFlow, List.mem_cons, List.not_mem_nil, or_false] at hl
  rcases hl with rfl | rfl
  · exact ⟨rfl, rfl, rfl⟩
  · trivial

/-- **`f32_f64_agree_flow` instantiated**: two different non-identity roundings with `u32 = 2^-24`, `u64 = 2^-53`; both
    runs of the flow on `x = [1, -2]` succeed, return vectors of width 2, and these differ in the sup norm by at most the
    sum of the two explicit recursions -/
theorem flow_example (slope : Float) (Ls : ℝ) :
    ∃ r32 r64 : ℝ → ℝ, Rnd ((2 : ℝ) ^ (-24 : ℤ)) r32 ∧ Rnd ((2 : ℝ) ^ (-53 : ℤ)) r64 ∧ r32 1 ≠ r64 1 ∧ r32 1 ≠ 1 ∧
      ∃ y y' : List ℝ, ∃ l l' : ℝ,
        flowFwd (rndX r32 e) (exFlow slope Ls) [1, -2] = .ok (y, l) ∧
        flowFwd (rndX r64 e) (exFlow slope Ls) [1, -2] = .ok (y', l') ∧
        y.length = 2 ∧ y'.length = 2 ∧
        dist (toV 2 y) (toV 2 y')
          ≤ errB (stagesOf 2 ((2 : ℝ) ^ (-24 : ℤ)) r32 e (exFlow slope Ls)) (toV 2 [1, -2]) 0
            + errB (stagesOf 2 ((2 : ℝ) ^ (-53 : ℤ)) r64 e (exFlow slope Ls)) (toV 2 [1, -2]) 0 := by
  refine ⟨_, _, rnd_scale_f32, rnd_scale_f64, by norm_num, by norm_num, ?_⟩
  have h1 := flowFwd_rnd e rnd_scale_f32 (exFlow slope Ls) (exFlow_wf slope Ls) [1, -2] rfl
  have h2 := flowFwd_rnd e rnd_scale_f64 (exFlow slope Ls) (exFlow_wf slope Ls) [1, -2] rfl
  refine ⟨_, _, _, _, h1, h2, by simp, by simp, ?_⟩
  exact f32_f64_agree_flow e rnd_scale_f32 rnd_scale_f64 (exFlow slope Ls) (exFlow_wf slope Ls) [1, -2] rfl h1 h2

theorem exFlow_stages (slope : Float) (Ls : ℝ) :
    stagesOf 2 u r e (exFlow slope Ls)
      = [lin0Stage 2 u r [[2, 1], [0, 3]], linStage 2 u r [[1, 0], [1 / 2, 1]] [1, -1],
         ewStage 2 fun _ => leakyStage u r (e slope)] := rfl

theorem small_pows {u : ℝ} (hu0 : 0 ≤ u) (hu : u ≤ 1 / 1000) :
    (1 + u) ^ 3 ≤ 1 + 31 / 10 * u ∧ (1 + u) ^ 4 ≤ 1 + 41 / 10 * u := by
  have h2 : u ^ 2 ≤ u / 1000 := by nlinarith
  have h3 : u ^ 3 ≤ u / 1000 := by nlinarith [mul_nonneg hu0 hu0]
  have h4 : u ^ 4 ≤ u / 1000 := by nlinarith [mul_nonneg hu0 hu0, mul_nonneg (mul_nonneg hu0 hu0) hu0]
  constructor
  · have : (1 + u) ^ 3 = 1 + 3 * u + 3 * u ^ 2 + u ^ 3 := by ring
    rw [this]; linarith
  · have : (1 + u) ^ 4 = 1 + 4 * u + 6 * u ^ 2 + 4 * u ^ 3 + u ^ 4 := by ring
    rw [this]; linarith

theorem exFlow_norms :
    maxL (([[2, 1], [0, 3]] : List (List ℝ)).map absSum) = 3 ∧
    maxL (([[1, 0], [1 / 2, 1]] : List (List ℝ)).map absSum) = 3 / 2 ∧
    maxL (([1, -1] : List ℝ).map fun t => |t|) = 1 := by
  refine ⟨?_, ?_, ?_⟩ <;> norm_num [maxL, absSum]

/-- along the computed trajectory of `exFlow` from `[1,-2]` every local error is at most `50 u` (for `u ≤ 10^-3`,
    `|σ| ≤ 1`): intermediate sup norms `2`, `≤ 7`, `≤ 12` -/
theorem exFlow_traj (h : Rnd u r) (hu : u ≤ 1 / 1000) (slope : Float) (Ls : ℝ) (hσ : |e slope| ≤ 1) :
    TrajBound (50 * u) (stagesOf 2 u r e (exFlow slope Ls)) (toV 2 [1, -2]) := by
  have hu0 := h.u_nonneg
  obtain ⟨p3, p4⟩ := small_pows hu0 hu
  obtain ⟨nU, nL, nb⟩ := exFlow_norms
  rw [exFlow_stages]
  have hx0 : ∀ i, |toV 2 [1, -2] i| ≤ 2 := by
    intro i; fin_cases i <;> simp [toV]
  have A1 := lin0Stage_eps_le h [[2, 1], [0, 3]] (toV 2 [1, -2]) 2 (by norm_num) hx0
  have B1 := lin0Stage_fc_le (n := 2) h [[2, 1], [0, 3]] rfl (toV 2 [1, -2]) 2 (by norm_num) hx0
  rw [nU] at A1 B1
  simp only [show (2 : ℕ) + 1 = 3 from rfl] at A1 B1
  have hx1 : ∀ i, |(lin0Stage 2 u r [[2, 1], [0, 3]]).fc (toV 2 [1, -2]) i| ≤ 7 := by
    intro i; have := B1 i; nlinarith
  have A2 := linStage_eps_le h [[1, 0], [1 / 2, 1]] [1, -1] _ 7 (by norm_num) hx1
  have B2 := linStage_fc_le (n := 2) h [[1, 0], [1 / 2, 1]] [1, -1] rfl rfl _ 7 (by norm_num) hx1
  rw [nL, nb] at A2 B2
  simp only [show (2 : ℕ) + 2 = 4 from rfl] at A2 B2
  have hx2 : ∀ i, |(linStage 2 u r [[1, 0], [1 / 2, 1]] [1, -1]).fc
      ((lin0Stage 2 u r [[2, 1], [0, 3]]).fc (toV 2 [1, -2])) i| ≤ 12 := by
    intro i; have := B2 i; nlinarith
  refine ⟨?_, ?_, ?_, trivial⟩
  · refine A1.trans ?_; nlinarith
  · refine A2.trans ?_; nlinarith
  · apply ewStage_eps_le _ _ _ (by linarith)
    intro i
    refine (leakyStage_eps_le h (e slope) _ 12 hσ (hx2 i)).trans ?_
    nlinarith

theorem exFlow_lip (slope : Float) (Ls : ℝ) (hσ : |e slope| ≤ 1) :
    ∀ s ∈ stagesOf 2 u r e (exFlow slope Ls), s.L ≤ 3 := by
  obtain ⟨nU, nL, -⟩ := exFlow_norms
  intro s hs
  rw [exFlow_stages] at hs
  simp only [List.mem_cons, List.not_mem_nil, or_false] at hs
  rcases hs with rfl | rfl | rfl
  · exact le_of_eq nU
  · show maxL _ ≤ 3
    rw [nL]; norm_num
  · apply maxL_le (by norm_num)
    intro a ha
    obtain ⟨i, rfl⟩ := (List.mem_ofFn' _ _).mp ha
    exact max_le (by norm_num) (hσ.trans (by norm_num))

/-- **a number for `flow_example`**: for a slope with `|σ| ≤ 1`, the runs of `exFlow` on `[1,-2]` at
    `r32 = x(1+2^-24)` and `r64 = x(1+2^-53)` differ by at most `(50·2^-24 + 50·2^-53)(1 + 3 + 9) ≤ 2^-14` in the sup
    norm (`f32_f64_agree_flow_traj`: local errors `≤ 50 u` along the trajectories, Lipschitz constants `≤ 3`, 3 stages) -/
theorem flow_example_numeric (slope : Float) (Ls : ℝ) (hσ : |e slope| ≤ 1) :
    ∃ y y' : List ℝ, ∃ l l' : ℝ,
      flowFwd (rndX (fun x => x * (1 + (2 : ℝ) ^ (-24 : ℤ))) e) (exFlow slope Ls) [1, -2] = .ok (y, l) ∧
      flowFwd (rndX (fun x => x * (1 + (2 : ℝ) ^ (-53 : ℤ))) e) (exFlow slope Ls) [1, -2] = .ok (y', l') ∧
      dist (toV 2 y) (toV 2 y') ≤ (2 : ℝ) ^ (-14 : ℤ) := by
  have h1 := flowFwd_rnd e rnd_scale_f32 (exFlow slope Ls) (exFlow_wf slope Ls) [1, -2] rfl
  have h2 := flowFwd_rnd e rnd_scale_f64 (exFlow slope Ls) (exFlow_wf slope Ls) [1, -2] rfl
  refine ⟨_, _, _, _, h1, h2, ?_⟩
  have := f32_f64_agree_flow_traj e rnd_scale_f32 rnd_scale_f64 (exFlow slope Ls) (exFlow_wf slope Ls) [1, -2] rfl
    (50 * (2 : ℝ) ^ (-24 : ℤ)) (50 * (2 : ℝ) ^ (-53 : ℤ)) 3
    (exFlow_traj e rnd_scale_f32 (by norm_num) slope Ls hσ) (exFlow_traj e rnd_scale_f64 (by norm_num) slope Ls hσ)
    (exFlow_lip e slope Ls hσ) (exFlow_lip e slope Ls hσ) 3 rfl rfl h1 h2
  refine this.trans ?_
  norm_num [Finset.sum_range_succ]

/-- a constant-Jacobian flow: the LU layer above followed by a point-wise affine layer with scales `2`, `-1/2` -/
def exFlowC : List Layer :=
  [.lu [[1, 0], [1 / 2, 1]] [[2, 1], [0, 3]] [1, -1] [2, 3], .aff [(2, 0), (-1 / 2, 1)]]

theorem exFlowC_wf : ∀ l ∈ exFlowC, l.WF 2 := by
  intro l hl
  simp only [exFlowC, List.mem_cons, List.not_mem_nil, or_false] at hl
  rcases hl with rfl | rfl
  · exact ⟨rfl, rfl, rfl⟩
  · rfl

theorem exFlowC_const : ∀ l ∈ exFlowC, l.Const := by
  intro l hl
  simp only [exFlowC, List.mem_cons, List.not_mem_nil, or_false] at hl
  rcases hl with rfl | rfl <;> trivial

/-- **`f32_f64_agree_flow_ld` instantiated** at the same two roundings: both log-dets are returned and differ by at most
    the explicit bound -/
theorem flow_ld_example :
    ∃ y y' : List ℝ, ∃ l l' : ℝ,
      flowFwd (rndX (fun x => x * (1 + (2 : ℝ) ^ (-24 : ℤ))) e) exFlowC [1, -2] = .ok (y, l) ∧
      flowFwd (rndX (fun x => x * (1 + (2 : ℝ) ^ (-53 : ℤ))) e) exFlowC [1, -2] = .ok (y', l') ∧
      |l - l'| ≤ (((1 + (2 : ℝ) ^ (-24 : ℤ)) ^ 2 - 1)
              * (absSum (exFlowC.map Layer.ldExact) + (exFlowC.map (Layer.ldEps ((2 : ℝ) ^ (-24 : ℤ)))).sum)
            + (exFlowC.map (Layer.ldEps ((2 : ℝ) ^ (-24 : ℤ)))).sum)
          + (((1 + (2 : ℝ) ^ (-53 : ℤ)) ^ 2 - 1)
              * (absSum (exFlowC.map Layer.ldExact) + (exFlowC.map (Layer.ldEps ((2 : ℝ) ^ (-53 : ℤ)))).sum)
            + (exFlowC.map (Layer.ldEps ((2 : ℝ) ^ (-53 : ℤ)))).sum) := by
  have h1 := flowFwd_rnd e rnd_scale_f32 exFlowC exFlowC_wf [1, -2] rfl
  have h2 := flowFwd_rnd e rnd_scale_f64 exFlowC exFlowC_wf [1, -2] rfl
  exact ⟨_, _, _, _, h1, h2,
    f32_f64_agree_flow_ld e rnd_scale_f32 rnd_scale_f64 exFlowC exFlowC_const exFlowC_wf [1, -2] rfl h1 h2⟩

/-- the exact log-det of that flow is `log 2 + log 3 + (log 2 + log (1/2))` -/
theorem exFlowC_ldExact :
    exFlowC.map Layer.ldExact = [Real.log 2 + Real.log 3, Real.log 2 + Real.log (1 / 2)] := by
  simp only [exFlowC, List.map_cons, List.map_nil, Layer.ldExact, Layer.diag, sumLog_real, List.sum_cons,
    List.sum_nil, add_zero]
  norm_num [abs_of_pos]

end
end RoundModel
