import NflowsModel.Core.Reshape
import NflowsModel.Core.Norm
import NflowsModel.Core.LinearFamily
import NflowsModel.Lemmas.FlowRowsExec
import NflowsModel.Lemmas.LinearJacobian
import NflowsModel.Lemmas.NaiveGauss
import Mathlib.Tactic
/-!
# Lemmas/StageMoreRows — more executed passes are `RowWiseStage`s (C12, batch / row independence)

`Lemmas/FlowRowsExec.lean` proves that `Flow.log_prob` of a batch is row independent for any `CompositeTransform` whose stages
satisfy `RowWiseStage` and instantiates it for the coupling / autoregressive / CDF passes.  This file adds the other transform
families as batch-level stages (`BStage`, flat `[B, w]` arrays):

* §1 generic: `rowD` / `fitRow` (rows are read with `getD` defaults, so NO size hypothesis on the arrays is needed and
  `RowWiseStage`, which quantifies over all arrays, can be proved), `rowFunStage` and **`rowWise_ofRowFun`**; `passStage` (a pass on
  `List (List α)` returning `(outputs, logabsdets)` run on the rows cut out of the flat array) and `rowWise_passStage` (for any pass
  that is `LinearJacobian.PairRowWise`); `resStage` (a machine step returning a `Norm.Res`).
* §2 `permStage` (the executed `Core/Reshape.permuteDim` on shape `[B, w]`, dimension 1, zero log-dets): `rowWise_permStage`.
* §3 the linear family (`luStage`, `qrStage`, `svdStage`, `hhStage`, and the inverse passes): `rowWise_luStage`, … .
* §4 `bnEvalStage` (executed `bnStep`, evaluation mode), `actStage` (executed `actStep`, initialised or evaluation mode).
* §5 the flow theorem `flowExec_composite` for `[actnorm, lu, coupling]`, and concrete evaluations at the toy `Int` semantics.

Forced hypotheses (each with a concrete counterexample in §5):
* `perm.length = w` for `permStage`: otherwise the executed op raises `ValueError` for every batch, including the EMPTY batch, which
  has no row to blame (`accept` fails at `B = 0`);
* `perm[k] < w` for `permStage`: the executed `permuteDim` reads the flat array at `b * w + perm[k]`; an index `≥ w` addresses the
  next row of the flat array (model artefact: `index_select` raises in torch).
The output rows of a `passStage` are normalised to width `w` by `fitRow` (identity on rows of length `w`: `fitRow_eq_self`,
`flatMap_fitRow_eq_flatten`), so no shape hypothesis on the parameters is needed either.
-/
open NF NF.StructureExec NF.RowErr NF.RowIndependenceMore NF.Density NF.FlowRowsExec NF.LF NF.Norm LinearFresh

namespace NF.StageMore
variable {α : Type}

/-! ## 1. generic row-function stages -/

/-- row `b` of a flat `[_, w]` array, as a list (entries out of range read as `d`) -/
def rowD (w : Nat) (d : α) (x : Array α) (b : Nat) : List α := (List.range w).map fun k => x.getD (b * w + k) d

/-- a list normalised to length `w` (truncated / padded with `d`) -/
def fitRow (w : Nat) (d : α) (l : List α) : List α := (List.range w).map fun k => l.getD k d

/-- the first `B` rows of a flat `[_, w]` array -/
def rowsD (w : Nat) (d : α) (B : Nat) (x : Array α) : List (List α) := (List.range B).map (rowD w d x)

@[simp] theorem rowD_length (w : Nat) (d : α) (x : Array α) (b : Nat) : (rowD w d x b).length = w := by simp [rowD]

@[simp] theorem fitRow_length (w : Nat) (d : α) (l : List α) : (fitRow w d l).length = w := by simp [fitRow]

@[simp] theorem rowsD_length (w : Nat) (d : α) (B : Nat) (x : Array α) : (rowsD w d B x).length = B := by simp [rowsD]

/-- `fitRow` does nothing to a row of the right length -/
theorem fitRow_eq_self {w : Nat} (d : α) {l : List α} (h : l.length = w) : fitRow w d l = l := by
  apply List.ext_getElem?
  intro k
  unfold fitRow
  by_cases hk : k < w
  · simp [hk, List.getD_eq_getElem?_getD, List.getElem?_eq_getElem (h ▸ hk)]
  · have h1 : w ≤ k := Nat.le_of_not_lt hk
    rw [List.getElem?_eq_none (by simpa using h1), List.getElem?_eq_none (by omega)]

theorem flatMap_fitRow_eq_flatten {w : Nat} (d : α) (X : List (List α)) (h : ∀ r ∈ X, r.length = w) :
    X.flatMap (fitRow w d) = X.flatten := by
  induction X with
  | nil => rfl
  | cons r X ih =>
    rw [List.flatMap_cons, List.flatten_cons, fitRow_eq_self d (h r List.mem_cons_self),
      ih fun r' hr' => h r' (List.mem_cons_of_mem _ hr')]

/-- the row read by `rowD` depends only on that row of the flat array -/
theorem rowD_congr {w b b' : Nat} {x x' : Array α} (d : α) (h : RowEq w b b' x x') : rowD w d x b = rowD w d x' b' := by
  unfold rowD
  apply List.map_congr_left
  intro k hk
  exact getD_congr (h k (List.mem_range.1 hk)) d

/-- `rowD` of a one-row array holding the row -/
theorem rowD_toArray {w : Nat} (d : α) {l : List α} (h : l.length = w) : rowD w d l.toArray 0 = l := by
  have : rowD w d l.toArray 0 = fitRow w d l := by
    unfold rowD fitRow
    apply List.map_congr_left
    intro k _
    simp [Array.getD_eq_getD_getElem?, List.getD_eq_getElem?_getD]
  rw [this, fitRow_eq_self d h]

/-- **the stage of a row function**: row `b` of the output is `rowF (row b of x) (row b of the context)` (normalised to width `w`),
    log-det `b` is its second component; never raises -/
def rowFunStage (w cw : Nat) (d : α) (rowF : List α → List α → List α × α) : BStage α :=
  fun B x c => .ok (((List.range B).flatMap fun b => fitRow w d (rowF (rowD w d x b) (rowD cw d c b)).1).toArray,
    (List.range B).map fun b => (rowF (rowD w d x b) (rowD cw d c b)).2)

/-- **a stage given by a row function is row-wise** (no size hypothesis: rows are read with `getD`) -/
theorem rowWise_ofRowFun (w cw : Nat) (d : α) (rowF : List α → List α → List α × α) :
    RowWiseStage w cw (rowFunStage w cw d rowF) where
  agree := by
    intro B B' b b' x x' c c' y y' l l' hb hb' hx hc h h'
    simp only [rowFunStage, Except.ok.injEq, Prod.mk.injEq] at h h'
    obtain ⟨rfl, rfl⟩ := h
    obtain ⟨rfl, rfl⟩ := h'
    constructor
    · intro k hk
      rw [List.getElem?_toArray, List.getElem?_toArray,
        flatMap_range_getElem? _ w B b k (fun _ => fitRow_length _ _ _) hb hk,
        flatMap_range_getElem? _ w B' b' k (fun _ => fitRow_length _ _ _) hb' hk,
        rowD_congr d hx, rowD_congr d hc]
    · simp only [List.getElem?_map, List.getElem?_range hb, List.getElem?_range hb', Option.map_some]
      rw [rowD_congr d hx, rowD_congr d hc]
  accept := by
    intro B x c xr cr _ _
    exact ⟨fun _ b _ => ⟨_, rfl⟩, fun _ => ⟨_, rfl⟩⟩
  ld_len := by
    intro B x c y l h
    simp only [rowFunStage, Except.ok.injEq, Prod.mk.injEq] at h
    obtain ⟨-, rfl⟩ := h
    simp

/-- a stage that agrees with a row-wise stage on every call is row-wise -/
theorem rowWise_congr {w cw : Nat} {T T' : BStage α} (h : ∀ B x c, T B x c = T' B x c) (hT : RowWiseStage w cw T') :
    RowWiseStage w cw T := by
  have : T = T' := by funext B x c; exact h B x c
  rw [this]; exact hT

/-- **a pass on rows as a batch-level call**: the rows are cut out of the flat `[B, w]` array, the pass
    `F : rows ↦ (outputs, logabsdets)` is run on the batch of rows, the outputs are flattened (context ignored; never raises) -/
def passStage (w : Nat) (d : α) (F : List (List α) → List (List α) × List α) : BStage α :=
  fun B x _ => .ok (((F (rowsD w d B x)).1.flatMap (fitRow w d)).toArray, (F (rowsD w d B x)).2)

theorem passStage_eq (w cw : Nat) (d : α) {F : List (List α) → List (List α) × List α} {g : List α → List α} {c : α}
    (hF : LinearJacobian.PairRowWise F g c) : passStage w d F = rowFunStage w cw d (fun r _ => (g r, c)) := by
  funext B x ctx
  simp only [passStage, rowFunStage, hF _, rowsD, List.map_map, List.flatMap_map, Function.comp_def]

/-- **a pass that acts row by row (`PairRowWise`: outputs `X.map g`, log-dets constant) is a row-wise stage** -/
theorem rowWise_passStage (w cw : Nat) (d : α) {F : List (List α) → List (List α) × List α} {g : List α → List α} {c : α}
    (hF : LinearJacobian.PairRowWise F g c) : RowWiseStage w cw (passStage w d F) := by
  rw [passStage_eq w cw d hF]
  exact rowWise_ofRowFun w cw d _

/-- when the pass returns rows of width `w` the normalisation does nothing: the output is the flattened output of the pass -/
theorem passStage_flatten (w : Nat) (d : α) (F : List (List α) → List (List α) × List α) (B : Nat) (x c : Array α)
    (h : ∀ r ∈ (F (rowsD w d B x)).1, r.length = w) :
    passStage w d F B x c = .ok ((F (rowsD w d B x)).1.flatten.toArray, (F (rowsD w d B x)).2) := by
  simp only [passStage, flatMap_fitRow_eq_flatten d _ h]

/-- on an array that holds `B` full rows, the rows the stages read are the rows `flowLogProbExec` cuts (`Density.rowsOf`) -/
theorem rowsD_eq_rowsOf (w : Nat) (d : α) (B : Nat) (x : Array α) (h : B * w ≤ x.size) :
    rowsD w d B x = rowsOf w B x.toList := by
  unfold rowsD rowsOf
  apply List.map_congr_left
  intro b hb
  have hb := List.mem_range.1 hb
  apply List.ext_getElem?
  intro k
  simp only [rowD, List.getElem?_map, List.getElem?_take, List.getElem?_drop]
  by_cases hk : k < w
  · have hlt : b * w + k < x.size := lt_of_lt_of_le (lt_mul_of hb hk) h
    simp [hk, Array.getD_eq_getD_getElem?, hlt]
  · simp [hk]

/-- what an accepted `passStage` call returns for a `PairRowWise` pass: row `b` is `g` of row `b`, log-det `c` -/
theorem passStage_row (w : Nat) (d : α) {F : List (List α) → List (List α) × List α} {g : List α → List α} {c : α}
    (hF : LinearJacobian.PairRowWise F g c) (B : Nat) (x ctx : Array α) {b k : Nat} (hb : b < B) (hk : k < w) :
    ∃ y l, passStage w d F B x ctx = .ok (y, l) ∧ y[b * w + k]? = (fitRow w d (g (rowD w d x b)))[k]? ∧ l[b]? = some c := by
  refine ⟨_, _, rfl, ?_, ?_⟩
  · simp only [hF _, rowsD, List.flatMap_map, List.getElem?_toArray]
    rw [flatMap_range_getElem? _ w B b k (fun _ => fitRow_length _ _ _) hb hk]
  · simp [hF _, rowsD, hb]

/-- **a normalisation machine step as a batch-level call**: the step is run on the 2-D batch of the rows cut out of the flat array;
    an error of the step is raised; (a step that returns nothing or a non-2-D batch cannot occur for `.fwd (.d2 _)`) -/
def resStage (w : Nat) (d : α) (step : List (List α) → Res α) : BStage α :=
  fun B x _ =>
    match step (rowsD w d B x) with
    | some (.ok (.d2 outs, lds)) => .ok ((outs.flatMap (fitRow w d)).toArray, lds)
    | some (.error e) => .error e
    | _ => .error .valueError

theorem resStage_eq_passStage (w : Nat) (d : α) (step : List (List α) → Res α) (F : List (List α) → List (List α) × List α)
    (h : ∀ rows, step rows = some (.ok (.d2 (F rows).1, (F rows).2))) : resStage w d step = passStage w d F := by
  funext B x ctx
  simp only [resStage, passStage, h]

/-! ## 2. `Permutation` along the feature dimension -/

section perm
variable (o : XOps α)

/-- **`Permutation(perm, dim=1).forward` on a `[B, w]` batch** (permutations.py:9-63): the executed `permuteDim` with shape `[B, w]`,
    `logabsdet = zeros(B)`; `ValueError` when `len(perm) ≠ w` -/
def permStage (w : Nat) (perm : List Nat) : BStage α :=
  fun B x _ =>
    match permuteDim [B, w] 1 perm x o.zero with
    | .ok y => .ok (y, List.replicate B o.zero)
    | .error e => .error e

/-- `Permutation.inverse`: `index_select` with `argsort(perm)` -/
def permInvStage (w : Nat) (perm : List Nat) : BStage α := permStage o w (inversePerm perm)

theorem permStage_ok (w : Nat) (perm : List Nat) (hw : perm.length = w) (B : Nat) (x c : Array α) :
    permStage o w perm B x c
      = .ok (((List.range (B * w)).map fun i => x.getD (i / w * w + perm.getD (i % w) 0) o.zero).toArray,
          List.replicate B o.zero) := by
  simp [permStage, permuteDim, hw, Nat.mod_one]

theorem permStage_raises (w : Nat) (perm : List Nat) (hw : perm.length ≠ w) (B : Nat) (x c : Array α) :
    permStage o w perm B x c = .error .valueError := by
  have : (w != perm.length) = true := by simpa using fun h => hw h.symm
  simp [permStage, permuteDim, this]

theorem perm_entry (w : Nat) (perm : List Nat) {B b k : Nat} (x : Array α) (hb : b < B) (hk : k < w) :
    ((List.range (B * w)).map fun i => x.getD (i / w * w + perm.getD (i % w) 0) o.zero).toArray[b * w + k]?
      = some (x.getD (b * w + perm.getD k 0) o.zero) := by
  have hlt : b * w + k < B * w := lt_mul_of hb hk
  have hw : 0 < w := by omega
  have hdiv : (b * w + k) / w = b := by
    rw [Nat.add_comm, Nat.add_mul_div_right _ _ hw, Nat.div_eq_of_lt hk, Nat.zero_add]
  have hmod : (b * w + k) % w = k := by
    rw [Nat.add_comm, Nat.add_mul_mod_self_right, Nat.mod_eq_of_lt hk]
  rw [List.getElem?_toArray, List.getElem?_map, List.getElem?_range hlt, Option.map_some, hdiv, hmod]

/-- **the executed feature permutation is a row-wise stage** (`len(perm) = w` and entries `< w`: both forced, see §5) -/
theorem rowWise_permStage (w cw : Nat) (perm : List Nat) (hw : perm.length = w) (hperm : ∀ k, k < w → perm.getD k 0 < w) :
    RowWiseStage w cw (permStage o w perm) where
  agree := by
    intro B B' b b' x x' c c' y y' l l' hb hb' hx _ h h'
    rw [permStage_ok o w perm hw] at h h'
    simp only [Except.ok.injEq, Prod.mk.injEq] at h h'
    obtain ⟨rfl, rfl⟩ := h
    obtain ⟨rfl, rfl⟩ := h'
    constructor
    · intro k hk
      rw [perm_entry o w perm x hb hk, perm_entry o w perm x' hb' hk, getD_congr (hx _ (hperm k hk))]
    · simp [hb, hb']
  accept := by
    intro B x c xr cr _ _
    simp only [permStage_ok o w perm hw]
    exact ⟨fun _ b _ => ⟨_, rfl⟩, fun _ => ⟨_, rfl⟩⟩
  ld_len := by
    intro B x c y l h
    rw [permStage_ok o w perm hw] at h
    simp only [Except.ok.injEq, Prod.mk.injEq] at h
    obtain ⟨-, rfl⟩ := h
    simp

/-- the inverse permutation pass, under the same two hypotheses on `argsort(perm)` -/
theorem rowWise_permInvStage (w cw : Nat) (perm : List Nat) (hw : perm.length = w)
    (hperm : ∀ k, k < w → (inversePerm perm).getD k 0 < w) : RowWiseStage w cw (permInvStage o w perm) :=
  rowWise_permStage o w cw (inversePerm perm) (by simp [inversePerm, hw]) hperm

end perm

/-! ## 3. the linear family -/

section linear
variable (o : XOps α) (w cw : Nat)

/-- `LULinear.forward` / `.inverse` (lu.py:56-93, no cache) on a flat `[B, w]` batch -/
def luStage (p : LUParams α) : BStage α := passStage w o.zero (luForwardLd o.toOps p)
def luInvStage (p : LUParams α) : BStage α := passStage w o.zero (luInverseLd o.toOps p)
/-- `QRLinear.forward` / `.inverse` (qr.py:45-85) -/
def qrStage (p : QRParams α) : BStage α := passStage w o.zero (qrForwardLd o.toOps p)
def qrInvStage (p : QRParams α) : BStage α := passStage w o.zero (qrInverseLd o.toOps p)
/-- `SVDLinear.forward` / `.inverse` (svd.py:57-98) -/
def svdStage (p : SVDParams α) : BStage α := passStage w o.zero (svdForwardLd o.toOps p)
def svdInvStage (p : SVDParams α) : BStage α := passStage w o.zero (svdInverseLd o.toOps p)
/-- `HouseholderSequence.forward` / `.inverse` (orthogonal.py:91-98) -/
def hhStage (qs : List (List α)) : BStage α := passStage w o.zero (hhForwardLd o.toOps qs)
def hhInvStage (qs : List (List α)) : BStage α := passStage w o.zero (hhInverseLd o.toOps qs)

/-- **the executed `LULinear` pass is a row-wise stage** (any parameters, any width) -/
theorem rowWise_luStage (p : LUParams α) : RowWiseStage w cw (luStage o w p) :=
  rowWise_passStage w cw o.zero (LinearJacobian.luForwardLd_pair o.toOps p)
theorem rowWise_luInvStage (p : LUParams α) : RowWiseStage w cw (luInvStage o w p) :=
  rowWise_passStage w cw o.zero (LinearJacobian.luInverseLd_pair o.toOps p)
/-- with parameters of the stage's width (`n = w`, `len(bias) = w`) the output is literally the flattened `luForward` of the rows
    and the log-det `logabsdet() * ones(B)` -/
theorem luStage_flatten (p : LUParams α) (hn : p.n = w) (hb : p.bias.length = w) (B : Nat) (x c : Array α) :
    luStage o w p B x c = .ok ((luForward o.toOps p (rowsD w o.zero B x)).flatten.toArray,
      timesOnes o.toOps (luLogabsdet o.toOps p) B) := by
  unfold luStage
  rw [passStage_flatten]
  · simp [luForwardLd]
  · intro r hr
    simp only [luForwardLd, LogdetExec.luForward_eq_map, List.mem_map] at hr
    obtain ⟨a, -, rfl⟩ := hr
    simp [LogdetExec.luRow, addV, matVec, luL, luLower, tab2, hn, hb]

/-- **the executed `QRLinear` pass is a row-wise stage** -/
theorem rowWise_qrStage (p : QRParams α) : RowWiseStage w cw (qrStage o w p) :=
  rowWise_passStage w cw o.zero (LinearJacobian.qrForwardLd_pair o.toOps p)
theorem rowWise_qrInvStage (p : QRParams α) : RowWiseStage w cw (qrInvStage o w p) :=
  rowWise_passStage w cw o.zero (LinearJacobian.qrInverseLd_pair o.toOps p)
/-- **the executed `SVDLinear` pass is a row-wise stage** -/
theorem rowWise_svdStage (p : SVDParams α) : RowWiseStage w cw (svdStage o w p) :=
  rowWise_passStage w cw o.zero (LinearJacobian.svdForwardLd_pair o.toOps p)
theorem rowWise_svdInvStage (p : SVDParams α) : RowWiseStage w cw (svdInvStage o w p) :=
  rowWise_passStage w cw o.zero (LinearJacobian.svdInverseLd_pair o.toOps p)
/-- **the executed `HouseholderSequence` pass is a row-wise stage** -/
theorem rowWise_hhStage (qs : List (List α)) : RowWiseStage w cw (hhStage o w qs) :=
  rowWise_passStage w cw o.zero (LinearJacobian.hhForwardLd_pair o.toOps qs)
theorem rowWise_hhInvStage (qs : List (List α)) : RowWiseStage w cw (hhInvStage o w qs) :=
  rowWise_passStage w cw o.zero (LinearJacobian.hhInverseLd_pair o.toOps qs)

/-- `NaiveLinear.forward` / `.inverse` (linear.py:172-199; `slogdet` / `inverse` by Gauss-Jordan elimination) -/
def naiveStage (n : Nat) (W : List (List α)) (b : List α) : BStage α :=
  passStage w o.zero (NaiveGauss.naiveForwardLd o.toOps n W b)
def naiveInvStage (n : Nat) (W : List (List α)) (b : List α) : BStage α :=
  passStage w o.zero (NaiveGauss.naiveInverseLd o.toOps n W b)

/-- **the executed `NaiveLinear` pass is a row-wise stage** -/
theorem rowWise_naiveStage (n : Nat) (W : List (List α)) (b : List α) : RowWiseStage w cw (naiveStage o w n W b) :=
  rowWise_passStage w cw o.zero (g := LinearJacobian.naiveRow o.toOps W b)
    (c := o.mul (naiveLogabsdet o.toOps n W) (one o.toOps)) (fun X => by
      rw [NaiveGauss.naiveForwardLd, LinearJacobian.timesOnes_eq_map, LinearJacobian.naiveForward_rowwise])
theorem rowWise_naiveInvStage (n : Nat) (W : List (List α)) (b : List α) : RowWiseStage w cw (naiveInvStage o w n W b) :=
  rowWise_passStage w cw o.zero (g := LinearJacobian.naiveInvRow o.toOps n W b)
    (c := o.mul (o.neg (naiveLogabsdet o.toOps n W)) (one o.toOps)) (fun X => by
      rw [NaiveGauss.naiveInverseLd, LinearJacobian.timesOnes_eq_map, LinearJacobian.naiveInverse_rowwise])

end linear

/-! ## 4. BatchNorm in evaluation mode, ActNorm after initialisation -/

section norm
variable (o : XOps α)

/-- **`BatchNorm.forward` in state `s`** on a flat `[B, F]` batch: the executed machine step `bnStep` -/
def bnEvalStage (cfg : BNCfg α) (F : Nat) (s : BNSt α) : BStage α :=
  resStage F o.zero fun rows => (bnStep o cfg F s (.fwd (.d2 rows))).2

/-- `BatchNorm.inverse` in state `s` -/
def bnEvalInvStage (cfg : BNCfg α) (F : Nat) (s : BNSt α) : BStage α :=
  resStage F o.zero fun rows => (bnStep o cfg F s (.inv (.d2 rows))).2

/-- **`ActNorm.forward` in state `s`** on a flat `[B, F]` batch: the executed machine step `actStep` -/
def actStage (F : Nat) (s : ActSt α) : BStage α :=
  resStage F o.zero fun rows => (actStep o F s (.fwd (.d2 rows))).2

/-- `ActNorm.inverse` in state `s` -/
def actInvStage (F : Nat) (s : ActSt α) : BStage α :=
  resStage F o.zero fun rows => (actStep o F s (.inv (.d2 rows))).2

theorem pair_of_map_replicate {g : List α → List α} {c : α} :
    LinearJacobian.PairRowWise (fun X : List (List α) => (X.map g, List.replicate X.length c)) g c := by
  intro X
  simp [List.map_const']

/-- **evaluation-mode BatchNorm (executed step) is a row-wise stage** (training mode is not: `bn_training_not_row_independent`) -/
theorem rowWise_bnEvalStage (cfg : BNCfg α) (F cw : Nat) (s : BNSt α) (hs : s.training = false) :
    RowWiseStage F cw (bnEvalStage o cfg F s) := by
  have h : bnEvalStage o cfg F s = passStage F o.zero (fun rows =>
      (bnNormalise o cfg F s.runMean s.runVar s.uweight s.bias rows, bnLogdet o cfg F s.runVar s.uweight rows.length false)) :=
    resStage_eq_passStage F o.zero _ _ (fun rows => by simp [bnStep, hs])
  rw [h]
  exact rowWise_passStage F cw o.zero (by unfold bnNormalise bnLogdet; exact pair_of_map_replicate)

theorem rowWise_bnEvalInvStage (cfg : BNCfg α) (F cw : Nat) (s : BNSt α) (hs : s.training = false) :
    RowWiseStage F cw (bnEvalInvStage o cfg F s) := by
  have h : bnEvalInvStage o cfg F s = passStage F o.zero (fun rows =>
      (bnDenormalise o cfg F s.runMean s.runVar s.uweight s.bias rows, bnLogdet o cfg F s.runVar s.uweight rows.length true)) :=
    resStage_eq_passStage F o.zero _ _ (fun rows => by simp [bnStep, hs])
  rw [h]
  exact rowWise_passStage F cw o.zero (by unfold bnDenormalise bnLogdet; exact pair_of_map_replicate)

/-- the stage returns exactly the flattened output rows and the log-dets of the executed evaluation-mode step -/
theorem bnEvalStage_flatten (cfg : BNCfg α) (F : Nat) (s : BNSt α) (hs : s.training = false) (B : Nat) (x c : Array α) :
    bnEvalStage o cfg F s B x c
      = .ok ((bnNormalise o cfg F s.runMean s.runVar s.uweight s.bias (rowsD F o.zero B x)).flatten.toArray,
          bnLogdet o cfg F s.runVar s.uweight B false) := by
  have hrows : ∀ r ∈ bnNormalise o cfg F s.runMean s.runVar s.uweight s.bias (rowsD F o.zero B x), r.length = F := by
    intro r hr
    simp only [bnNormalise, List.mem_map] at hr
    obtain ⟨a, -, rfl⟩ := hr
    simp
  simp only [bnEvalStage, resStage, bnStep, hs, Bool.false_eq_true, if_false, flatMap_fitRow_eq_flatten o.zero _ hrows,
    rowsD_length]

/-- **ActNorm after initialisation or in evaluation mode (executed step) is a row-wise stage** (the initialising call is not:
    `act_init_not_row_independent`) -/
theorem rowWise_actStage (F cw : Nat) (s : ActSt α) (hs : s.initialized = true ∨ s.training = false) :
    RowWiseStage F cw (actStage o F s) := by
  have hno : (s.training && !s.initialized) = false := by
    rcases hs with h | h <;> simp [h]
  have h : actStage o F s = passStage F o.zero (fun rows =>
      (rows.map (fun r => (List.range F).map (fun j =>
          o.add (o.mul (o.exp (s.logScale.getD j o.zero)) (r.getD j o.zero)) (s.shift.getD j o.zero))),
        List.replicate rows.length (sumG o s.logScale))) :=
    resStage_eq_passStage F o.zero _ _ (fun rows => by
      simp [actStep, Batch.valid24, hno, actApply, Batch.mapCh, actLogdet, Batch.size])
  rw [h]
  exact rowWise_passStage F cw o.zero pair_of_map_replicate

/-- the stage returns exactly the flattened output rows and the log-dets of the executed (non-initialising) step -/
theorem actStage_flatten (F : Nat) (s : ActSt α) (hs : s.initialized = true ∨ s.training = false) (B : Nat) (x c : Array α) :
    ∃ outs, actApply o F s.logScale s.shift (.d2 (rowsD F o.zero B x)) = .d2 outs ∧
      actStage o F s B x c = .ok (outs.flatten.toArray, actLogdet o s.logScale (.d2 (rowsD F o.zero B x)) false) := by
  have hno : (s.training && !s.initialized) = false := by
    rcases hs with h | h <;> simp [h]
  refine ⟨_, rfl, ?_⟩
  have hrows : ∀ r ∈ (rowsD F o.zero B x).map (fun r => (List.range F).map (fun j =>
      o.add (o.mul (o.exp (s.logScale.getD j o.zero)) (r.getD j o.zero)) (s.shift.getD j o.zero))), r.length = F := by
    intro r hr
    simp only [List.mem_map] at hr
    obtain ⟨a, -, rfl⟩ := hr
    simp
  simp only [actStage, resStage, actStep, Batch.valid24, hno, actApply, Batch.mapCh, Bool.not_true, Bool.false_eq_true,
    if_false, flatMap_fitRow_eq_flatten o.zero _ hrows]

/-- **`ActNorm.inverse` (never initialises: any state) is a row-wise stage** -/
theorem rowWise_actInvStage (F cw : Nat) (s : ActSt α) : RowWiseStage F cw (actInvStage o F s) := by
  have h : actInvStage o F s = passStage F o.zero (fun rows =>
      (rows.map (fun r => (List.range F).map (fun j =>
          o.div (o.sub (r.getD j o.zero) (s.shift.getD j o.zero)) (o.exp (s.logScale.getD j o.zero)))),
        List.replicate rows.length (o.neg (sumG o s.logScale)))) :=
    resStage_eq_passStage F o.zero _ _ (fun rows => by
      simp [actStep, Batch.valid24, actUnapply, Batch.mapCh, actLogdet, Batch.size])
  rw [h]
  exact rowWise_passStage F cw o.zero pair_of_map_replicate

end norm

/-! ## 5. the flow theorem for `[actnorm, lu, coupling]`, concrete instances, and the forced hypotheses -/

section headline
variable (o : XOps α) {rcw cw : Nat} {emb : Nat → Array α → Array α} {base : BaseD α} {B : Nat} {x ctx : Array α}
  {xr cr : Nat → Array α}

/-- the three stages `[ActNorm (initialised or eval), LULinear, coupling layer]` of one width are row-wise -/
theorem rowWise_act_lu_coupling (c : ElCfg) (mask : List α) (S : Nat) (uc : Option ElCfg) (uparams : Array α)
    (net : Nat → Array α → Array α → Array α) (s : ActSt α) (p : LUParams α)
    (hs : s.initialized = true ∨ s.training = false)
    (hnet : NetRowWise ((identityIdx o mask).length * S) cw (paramWidth c (transformIdx o mask).length * S) net) :
    ∀ t ∈ [actStage o (mask.length * S) s, luStage o (mask.length * S) p, couplingStage o c mask S false uc uparams net],
      RowWiseStage (mask.length * S) cw t := by
  intro t ht
  simp only [List.mem_cons, List.not_mem_nil, or_false] at ht
  rcases ht with rfl | rfl | rfl
  · exact rowWise_actStage o _ cw s hs
  · exact rowWise_luStage o _ cw p
  · exact rowWise_couplingStage o c mask S false uc uparams cw net hnet

/-- **`Flow.log_prob` over `CompositeTransform([ActNorm, LULinear, coupling])`** (executed passes; the conditioner is a row-wise
    network): the values of an accepted batch are those of the rows alone, and the batch raises iff some row alone raises -/
theorem flowExec_act_lu_coupling (c : ElCfg) (mask : List α) (S : Nat) (uc : Option ElCfg) (uparams : Array α)
    (net : Nat → Array α → Array α → Array α) (s : ActSt α) (p : LUParams α)
    (hs : s.initialized = true ∨ s.training = false)
    (hnet : NetRowWise ((identityIdx o mask).length * S) cw (paramWidth c (transformIdx o mask).length * S) net)
    (hbase : RowIndepBase cw base) (hemb : EmbRowWise rcw cw emb)
    (hx : ∀ b, b < B → RowEq (mask.length * S) b 0 x (xr b)) (hctx : ∀ b, b < B → RowEq rcw b 0 ctx (cr b)) :
    let T := compStage o [actStage o (mask.length * S) s, luStage o (mask.length * S) p,
      couplingStage o c mask S false uc uparams net]
    (∀ lps, flowLogProbExec o (mask.length * S) emb T base B x ctx = .ok lps → lps.length = B ∧ ∀ i, i < B →
      ∃ l, lps[i]? = some l ∧ flowLogProbExec o (mask.length * S) emb T base 1 (xr i) (cr i) = .ok [l]) ∧
    (0 < B → ((∃ err, flowLogProbExec o (mask.length * S) emb T base B x ctx = .error err) ↔
      ∃ i, i < B ∧ ∃ err, flowLogProbExec o (mask.length * S) emb T base 1 (xr i) (cr i) = .error err)) :=
  flowExec_composite o _ (rowWise_act_lu_coupling o c mask S uc uparams net s p hs hnet) hbase hemb hx hctx

end headline

section examples

def exQR : QRParams Int := ⟨2, [3], [1, 2], [[1, 1]], [7, 8]⟩
def exSVD : SVDParams Int := ⟨2, [1, 2], [[1, 1]], [[1, -1]], [7, 8], 1⟩
/-- the three-stage transform `[ActNorm, LULinear, additive coupling]` at the toy `Int` semantics -/
def toy3 : BStage Int := compStage intX [actStage intX 2 exAct, luStage intX 2 exLU, toyT]

/-- `rowFunStage`: each row reversed and shifted by its context entry, log-det = the first entry; batch of two and a row alone -/
example :
    rowFunStage 2 1 (0 : Int) (fun r c => (r.reverse.map (· + c.getD 0 0), r.getD 0 0)) 2 #[1, 2, 3, 4] #[10, 20]
      = .ok (#[12, 11, 24, 23], [1, 3]) ∧
    rowFunStage 2 1 (0 : Int) (fun r c => (r.reverse.map (· + c.getD 0 0), r.getD 0 0)) 1 #[3, 4] #[20]
      = .ok (#[24, 23], [3]) := by
  decide +kernel

/-- the executed permutation (and its inverse): batch of two, and row 1 alone -/
example :
    permStage intX 3 [2, 0, 1] 2 #[1, 2, 3, 4, 5, 6] #[] = .ok (#[3, 1, 2, 6, 4, 5], [0, 0]) ∧
    permStage intX 3 [2, 0, 1] 1 #[4, 5, 6] #[] = .ok (#[6, 4, 5], [0]) ∧
    permInvStage intX 3 [2, 0, 1] 2 #[3, 1, 2, 6, 4, 5] #[] = .ok (#[1, 2, 3, 4, 5, 6], [0, 0]) := by
  decide +kernel

/-- the theorem applies to that permutation -/
example : RowWiseStage 3 0 (permStage intX 3 [2, 0, 1]) :=
  rowWise_permStage intX 3 0 [2, 0, 1] rfl (by intro k hk; interval_cases k <;> decide)

/-- the executed linear family: batch of two, and row 1 alone -/
example :
    luStage intX 2 exLU 2 #[1, 2, 3, 4] #[] = .ok (#[20, 55, 36, 111], [7, 7]) ∧
    luStage intX 2 exLU 1 #[3, 4] #[] = .ok (#[36, 111], [7]) ∧
    luInvStage intX 2 exLU 1 #[3, 4] #[] = .ok (#[-5, 2], [-7]) ∧
    qrStage intX 2 exQR 2 #[1, 2, 3, 4] #[] = .ok (#[3, 1, -1, -7], [3, 3]) ∧
    qrStage intX 2 exQR 1 #[3, 4] #[] = .ok (#[-1, -7], [3]) ∧
    svdStage intX 2 exSVD 2 #[1, 2, 3, 4] #[] = .ok (#[3, 2, -5, -4], [7, 7]) ∧
    svdStage intX 2 exSVD 1 #[3, 4] #[] = .ok (#[-5, -4], [7]) := by
  decide +kernel

/-- evaluation-mode BatchNorm and initialised ActNorm (the executed machine steps): batch of three, and row 1 alone -/
example :
    bnEvalStage intX ⟨1, 1⟩ 2 exBN 3 #[10, 20, 7, 9, 0, 3] #[] = .ok (#[7, 12, 6, 6, 4, 6], [4, 4, 4]) ∧
    bnEvalStage intX ⟨1, 1⟩ 2 exBN 1 #[7, 9] #[] = .ok (#[6, 6], [4]) ∧
    actStage intX 2 exAct 3 #[10, 20, 7, 9, 0, 3] #[] = .ok (#[21, 61, 15, 28, 1, 10], [5, 5, 5]) ∧
    actStage intX 2 exAct 1 #[7, 9] #[] = .ok (#[15, 28], [5]) := by
  decide +kernel

/-- `agree` of `rowWise_luStage` used on the instance: row 1 of the batch output is the output of the row alone -/
example : RowEq 2 1 0 (#[20, 55, 36, 111] : Array Int) #[36, 111] ∧ ([7, 7] : List Int)[1]? = ([7] : List Int)[0]? :=
  (rowWise_luStage intX 2 0 exLU).agree (B := 2) (B' := 1) #[1, 2, 3, 4] #[3, 4] #[] #[] _ _ _ _ (by decide) (by decide)
    (by intro k hk; interval_cases k <;> rfl) (by intro k hk; omega) (by decide +kernel) (by decide +kernel)

/-- the three-stage transform and `Flow.log_prob` over it (`ConditionalDiagonalNormal` base): batch of two, and the rows alone -/
example :
    toy3 2 #[1, 2, 3, 4] #[110, 120] = .ok (#[51, 329, 93, 531], [13, 13]) ∧
    toy3 1 #[3, 4] #[120] = .ok (#[93, 531], [13]) ∧
    flowLogProbExec intX 2 toyEmb toy3 toyCond 2 #[1, 2, 3, 4] #[10, 20] = .ok [-111711, -282679] ∧
    flowLogProbExec intX 2 toyEmb toy3 toyCond 1 #[1, 2] #[10] = .ok [-111711] ∧
    flowLogProbExec intX 2 toyEmb toy3 toyCond 1 #[3, 4] #[20] = .ok [-282679] := by
  decide +kernel

/-- **the flow theorem instantiated**: all hypotheses discharged (`exAct` is initialised; the toy conditioner, embedding net and
    context encoder are row-wise), so entry 1 of the batch result is what row 1 alone returns -/
example : ∃ l, ([-111711, -282679] : List Int)[1]? = some l ∧
    flowLogProbExec intX 2 toyEmb toy3 toyCond 1 #[3, 4] #[20] = .ok [l] :=
  ((flowExec_act_lu_coupling intX (rcw := 1) (cw := 1) (emb := toyEmb) (base := toyCond) (B := 2)
      (x := #[1, 2, 3, 4]) (ctx := #[10, 20]) (xr := fun b => if b = 0 then #[1, 2] else #[3, 4])
      (cr := fun b => if b = 0 then #[10] else #[20])
      { kind := "additive" } [0, 1] 1 none #[] toyNet exAct exLU (Or.inl rfl)
      (by
        have h1 : (identityIdx intX [0, 1]).length = 1 := by decide
        have h2 : paramWidth { kind := "additive" } (transformIdx intX [0, 1]).length = 1 := by decide +kernel
        rw [h1, h2]; exact @toyNet_rowWise)
      toy_flowRows.hbase toy_flowRows.hemb toy_flowRows.hx toy_flowRows.hctx).1 [-111711, -282679]
    (by decide +kernel)).2 1 (by decide)

/-- `len(perm) = w` is forced in `rowWise_permStage`: with a wrong length the executed op raises `ValueError` even on the EMPTY
    batch, where there is no row to blame -/
example : ¬ RowWiseStage 3 0 (permStage intX 3 [1, 0]) := by
  intro h
  obtain ⟨r, hr⟩ := (h.accept 0 #[] #[] (fun _ => #[]) (fun _ => #[]) (by intro b hb; omega) (by intro b hb; omega)).2
    (by intro b hb; omega)
  rw [permStage_raises intX 3 [1, 0] (by decide)] at hr
  cases hr

/-- `perm[k] < w` is forced: an entry `≥ w` makes the executed `permuteDim` read the next row of the flat array, so row 0 of the
    batch `[[1,2,3],[4,5,6]]` comes out as `[4,1,2]` while the row alone gives `[0,1,2]` -/
example : ¬ RowWiseStage 3 0 (permStage intX 3 [3, 0, 1]) := by
  intro h
  have := (h.agree (B := 2) (B' := 1) (b := 0) (b' := 0) #[1, 2, 3, 4, 5, 6] #[1, 2, 3] #[] #[] #[4, 1, 2, 0, 4, 5] #[0, 1, 2]
    [0, 0] [0] (by decide) (by decide) (by intro k hk; interval_cases k <;> rfl) (by intro k hk; omega)
    (by decide +kernel) (by decide +kernel)).1 0 (by decide)
  exact absurd this (by decide)

end examples

end NF.StageMore
