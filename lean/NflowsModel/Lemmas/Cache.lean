import NflowsModel.Core.Cache
/-!
# Lemmas/Cache — inductive invariant of the cache machine `Core/Cache.lean` and transparency over all histories
(core Lean only)
-/
namespace Cache

/-- the slot (if filled) was computed from the current parameter version in the current dtype -/
def current (s : St) (c : Option Slot) : Prop := ∀ x, c = some x → x.ver = s.ver ∧ x.dt = s.dt
/-- no backward pass has run through the slot's graph -/
def unfreed (c : Option Slot) : Prop := ∀ x, c = some x → x.graphFreed = false

/-- The inductive invariant.  `used` is the history tracker of `noRepeatedBackward`: a cached backward already
    happened since the last invalidation. -/
structure CInv (used : Bool) (s : St) : Prop where
  train_empty : s.training = true → s.cW = none ∧ s.cInv = none ∧ s.cLd = none
  curW : current s s.cW
  curI : current s s.cInv
  curL : current s s.cLd
  freed : used = false → unfreed s.cW ∧ unfreed s.cLd

/-- how one op moves the `used` tracker -/
def nextUsed (s : St) (used : Bool) : Op → Bool
  | .train | .load | .cast _ => false
  | .fwdBwd => if cachedMode s then true else used
  | _ => used

theorem current_none (s : St) : current s none := by intro x h; cases h
theorem unfreed_none : unfreed none := by intro x h; cases h

theorem inv_init (tr uc : Bool) (v : Nat) (d : DT) (used : Bool) :
    CInv used { training := tr, usingCache := uc, ver := v, dt := d } :=
  ⟨fun _ => ⟨rfl, rfl, rfl⟩, current_none _, current_none _, current_none _, fun _ => ⟨unfreed_none, unfreed_none⟩⟩

theorem current_fill {s : St} {c : Option Slot} (h : current s c) : current s (some (fill s c)) := by
  intro x hx
  cases c with
  | none => simp [fill, fresh] at hx; subst hx; exact ⟨rfl, rfl⟩
  | some y => simp [fill] at hx; subst hx; exact h y rfl

theorem unfreed_fill {s : St} {c : Option Slot} (h : unfreed c) : unfreed (some (fill s c)) := by
  intro x hx
  cases c with
  | none => simp [fill, fresh] at hx; subst hx; rfl
  | some y => simp [fill] at hx; subst hx; exact h y rfl

theorem fill_cur {s : St} {c : Option Slot} (h : current s c) : (fill s c).ver = s.ver ∧ (fill s c).dt = s.dt :=
  current_fill h _ rfl

theorem promote_self (d : DT) : DT.promote d d = d := by cases d <;> rfl

theorem readW_cur (k : Kind) {s : St} {w : Slot} (h : w.ver = s.ver ∧ w.dt = s.dt) :
    (readW k s w).ver = s.ver ∧ (readW k s w).dt = s.dt := by
  cases k <;> simp [readW, fresh, h]

theorem cachedOut_cur {s : St} {w l : Slot} (hw : w.ver = s.ver ∧ w.dt = s.dt) (hl : l.ver = s.ver ∧ l.dt = s.dt) :
    cachedOut s w l = uncachedOut s := by
  simp [cachedOut, uncachedOut, hw.1, hw.2, hl.1, hl.2, promote_self]

theorem cachedMode_false_of_training {s : St} (h : s.training = true) : cachedMode s = false := by
  simp [cachedMode, h]

theorem training_false_of_cachedMode {s : St} (h : cachedMode s = true) : s.training = false := by
  simp [cachedMode] at h; exact h.1

/-- flags after a step (used to keep the history trackers in phase with the machine) -/
theorem step_training (k : Kind) (s : St) (o : Op) :
    (step k s o).1.training = (match o with | .train => true | .eval => false | _ => s.training) := by
  cases o <;> simp only [step, invalidate] <;> (try split) <;> (try split) <;> (try split) <;> rfl

theorem step_usingCache (k : Kind) (s : St) (o : Op) :
    (step k s o).1.usingCache = (match o with | .useCache b => b | _ => s.usingCache) := by
  cases o <;> simp only [step, invalidate] <;> (try split) <;> (try split) <;> (try split) <;> rfl

/-- **One step**: under the invariant, if the op is not an update in evaluation mode and not a repeated cached
    backward, the step returns exactly what the uncached reference returns, moves the parameters like the
    reference, and re-establishes the invariant. -/
theorem step_ok (k : Kind) (s : St) (o : Op) (used : Bool) (h : CInv used s)
    (hU : o = .update → s.training = true)
    (hB : o = .fwdBwd → cachedMode s = true → used = false) :
    (step k s o).2 = (refStep s.params o).2 ∧ (step k s o).1.params = (refStep s.params o).1 ∧
      CInv (nextUsed s used o) (step k s o).1 := by
  obtain ⟨ht, hw, hi, hl, hf⟩ := h
  cases o with
  | train =>
    refine ⟨rfl, rfl, ?_⟩
    exact ⟨fun _ => ⟨rfl, rfl, rfl⟩, current_none _, current_none _, current_none _, fun _ => ⟨unfreed_none, unfreed_none⟩⟩
  | eval =>
    refine ⟨rfl, rfl, ?_⟩
    exact ⟨fun h => by simp [step] at h, hw, hi, hl, hf⟩
  | useCache b =>
    refine ⟨rfl, rfl, ?_⟩
    exact ⟨ht, hw, hi, hl, hf⟩
  | useCacheBad =>
    refine ⟨rfl, rfl, ?_⟩
    exact ⟨ht, hw, hi, hl, hf⟩
  | fwd =>
    by_cases hc : cachedMode s = true
    · have htr := training_false_of_cachedMode hc
      have e : step k s .fwd = ({ s with cW := some (fill s s.cW), cLd := some (fill s s.cLd) },
          cachedOut s (readW k s (fill s s.cW)) (fill s s.cLd)) := by simp [step, hc]
      rw [e]
      refine ⟨?_, rfl, ?_⟩
      · rw [cachedOut_cur (readW_cur k (fill_cur hw)) (fill_cur hl)]; rfl
      · exact ⟨fun h => by simp [htr] at h, current_fill hw, hi, current_fill hl,
          fun hu => ⟨unfreed_fill (hf hu).1, unfreed_fill (hf hu).2⟩⟩
    · have e : step k s .fwd = (s, uncachedOut s) := by simp [step, hc]
      rw [e]; exact ⟨rfl, rfl, ht, hw, hi, hl, hf⟩
  | inv =>
    by_cases hc : cachedMode s = true
    · have htr := training_false_of_cachedMode hc
      have e : step k s .inv = ({ s with cInv := some (fill s s.cInv), cLd := some (fill s s.cLd) },
          cachedOut s (fill s s.cInv) (fill s s.cLd)) := by simp [step, hc]
      rw [e]
      refine ⟨?_, rfl, ?_⟩
      · rw [cachedOut_cur (fill_cur hi) (fill_cur hl)]; rfl
      · exact ⟨fun h => by simp [htr] at h, hw, current_fill hi, current_fill hl,
          fun hu => ⟨(hf hu).1, unfreed_fill (hf hu).2⟩⟩
    · have e : step k s .inv = (s, uncachedOut s) := by simp [step, hc]
      rw [e]; exact ⟨rfl, rfl, ht, hw, hi, hl, hf⟩
  | update =>
    have htr := hU rfl
    obtain ⟨e1, e2, e3⟩ := ht htr
    refine ⟨rfl, rfl, ?_⟩
    refine ⟨fun _ => ⟨e1, e2, e3⟩, ?_, ?_, ?_, fun _ => ⟨?_, ?_⟩⟩
    · show current _ s.cW; rw [e1]; exact current_none _
    · show current _ s.cInv; rw [e2]; exact current_none _
    · show current _ s.cLd; rw [e3]; exact current_none _
    · show unfreed s.cW; rw [e1]; exact unfreed_none
    · show unfreed s.cLd; rw [e3]; exact unfreed_none
  | load =>
    refine ⟨rfl, rfl, ?_⟩
    exact ⟨fun _ => ⟨rfl, rfl, rfl⟩, current_none _, current_none _, current_none _, fun _ => ⟨unfreed_none, unfreed_none⟩⟩
  | cast d =>
    refine ⟨rfl, rfl, ?_⟩
    exact ⟨fun _ => ⟨rfl, rfl, rfl⟩, current_none _, current_none _, current_none _, fun _ => ⟨unfreed_none, unfreed_none⟩⟩
  | fwdBwd =>
    by_cases hc : cachedMode s = true
    · have htr := training_false_of_cachedMode hc
      have hu := hB rfl hc
      have hfw : (fill s s.cW).graphFreed = false := unfreed_fill (s := s) (hf hu).1 _ rfl
      have hfl : (fill s s.cLd).graphFreed = false := unfreed_fill (s := s) (hf hu).2 _ rfl
      have hrw : (readW k s (fill s s.cW)).graphFreed = false := by cases k <;> simp [readW, fresh, hfw]
      have hco := cachedOut_cur (readW_cur k (fill_cur hw)) (fill_cur hl)
      have e : step k s .fwdBwd =
          ({ s with cW := some (markW k (fill s s.cW)),
                    cLd := some { fill s s.cLd with graphFreed := true } }, .ok s.ver s.dt s.ver s.dt) := by
        simp [step, hc, hco, uncachedOut, hrw, hfl]
      rw [e]
      refine ⟨rfl, rfl, ?_⟩
      have nu : nextUsed s used .fwdBwd = true := by simp [nextUsed, hc]
      rw [nu]
      refine ⟨fun h => by simp [htr] at h, ?_, hi, ?_, fun h => by cases h⟩
      · intro x hx
        cases k <;> simp [markW] at hx <;> subst hx <;> exact fill_cur hw
      · intro x hx
        simp at hx; subst hx; exact fill_cur hl
    · have e : step k s .fwdBwd = (s, uncachedOut s) := by simp [step, hc]
      have nu : nextUsed s used .fwdBwd = used := by simp [nextUsed, hc]
      rw [e, nu]; exact ⟨rfl, rfl, ht, hw, hi, hl, hf⟩

/-- **All histories** (induction over the op list): started in any state satisfying the invariant, the machine
    answers every history of the property's alphabet exactly like the uncached reference, provided updates
    happen in training mode only and no cached backward is repeated within one cache epoch. -/
theorem run_eq_ref (k : Kind) : ∀ (hist : List Op) (s : St) (used : Bool), CInv used s →
    updatesOnlyInTraining s.training hist = true →
    noRepeatedBackward s.training s.usingCache used hist = true →
    run (step k) s hist = run refStep s.params hist := by
  intro hist
  induction hist with
  | nil => intro s used _ _ _; rfl
  | cons o os ih =>
    intro s used h hU hB
    have hU1 : o = .update → s.training = true := by
      intro e; subst e; simp [updatesOnlyInTraining] at hU; exact hU.1
    have hB1 : o = .fwdBwd → cachedMode s = true → used = false := by
      intro e hc; subst e
      simp only [cachedMode] at hc
      simp [noRepeatedBackward, hc] at hB; exact hB.1
    obtain ⟨e1, e2, h'⟩ := step_ok k s o used h hU1 hB1
    have hU' : updatesOnlyInTraining (step k s o).1.training os = true := by
      rw [step_training]
      cases o <;> simp [updatesOnlyInTraining] at hU ⊢ <;> first | exact hU | exact hU.2
    have hB' : noRepeatedBackward (step k s o).1.training (step k s o).1.usingCache (nextUsed s used o) os = true := by
      rw [step_training, step_usingCache]
      cases o <;> simp only [noRepeatedBackward, nextUsed] at hB ⊢ <;> try exact hB
      -- fwdBwd
      by_cases hc : cachedMode s = true
      · have hc' : (!s.training && s.usingCache) = true := hc
        simp [hc'] at hB; simp [hc]; exact hB.2
      · have hc' : ¬ (!s.training && s.usingCache) = true := hc
        simp only [hc'] at hB; simp only [hc]; exact hB
    have := ih (step k s o).1 (nextUsed s used o) h' hU' hB'
    simp only [run]
    rw [e1, this, e2]

/-- the invariant itself holds along every such history (the white-box half of the correspondence) -/
theorem inv_run (k : Kind) (s : St) (o : Op) (used : Bool) (h : CInv used s)
    (hU : o = .update → s.training = true) (hB : o = .fwdBwd → cachedMode s = true → used = false) :
    CInv (nextUsed s used o) (step k s o).1 := (step_ok k s o used h hU hB).2.2

/-! ### The backward hypothesis is exactly what is needed -/

/-- tracker `used` is only ever true while a cached log-abs-det with a freed graph sits in the cache -/
def Tight (used : Bool) (s : St) : Prop := used = true → ∃ l, s.cLd = some l ∧ l.graphFreed = true

theorem step_fwdBwd_cached (k : Kind) (s : St) {used : Bool} (h : CInv used s) (hc : cachedMode s = true)
    (hu : used = false) :
    step k s .fwdBwd = ({ s with cW := some (markW k (fill s s.cW)),
                                 cLd := some { fill s s.cLd with graphFreed := true } }, .ok s.ver s.dt s.ver s.dt) := by
  have hfw : (fill s s.cW).graphFreed = false := unfreed_fill (s := s) (h.freed hu).1 _ rfl
  have hfl : (fill s s.cLd).graphFreed = false := unfreed_fill (s := s) (h.freed hu).2 _ rfl
  have hrw : (readW k s (fill s s.cW)).graphFreed = false := by cases k <;> simp [readW, fresh, hfw]
  have hco := cachedOut_cur (readW_cur k (fill_cur h.curW)) (fill_cur h.curL)
  simp [step, hc, hco, uncachedOut, hrw, hfl]

theorem tight_step (k : Kind) (s : St) (o : Op) (used : Bool) (h : CInv used s) (ht : Tight used s)
    (hB : o = .fwdBwd → cachedMode s = true → used = false) :
    Tight (nextUsed s used o) (step k s o).1 := by
  cases o with
  | train => intro h; simp [nextUsed] at h
  | load => intro h; simp [nextUsed] at h
  | cast d => intro h; simp [nextUsed] at h
  | eval => simpa [step, nextUsed, Tight] using ht
  | useCache b => simpa [step, nextUsed, Tight] using ht
  | useCacheBad => simpa [step, nextUsed, Tight] using ht
  | update => simpa [step, nextUsed, Tight] using ht
  | fwd =>
    intro hu
    simp only [nextUsed] at hu
    obtain ⟨l, hl, hlf⟩ := ht hu
    by_cases hc : cachedMode s = true
    · exact ⟨l, by simp [step, hc, hl, fill], hlf⟩
    · exact ⟨l, by simp [step, hc, hl], hlf⟩
  | inv =>
    intro hu
    simp only [nextUsed] at hu
    obtain ⟨l, hl, hlf⟩ := ht hu
    by_cases hc : cachedMode s = true
    · exact ⟨l, by simp [step, hc, hl, fill], hlf⟩
    · exact ⟨l, by simp [step, hc, hl], hlf⟩
  | fwdBwd =>
    by_cases hc : cachedMode s = true
    · rw [step_fwdBwd_cached k s h hc (hB rfl hc)]
      intro _
      exact ⟨_, rfl, rfl⟩
    · intro hu
      simp only [nextUsed, hc] at hu
      obtain ⟨l, hl, hlf⟩ := ht hu
      exact ⟨l, by simp [step, hc, hl], hlf⟩

theorem ref_never_errBackward : ∀ (hist : List Op) (p : Params), Out.errBackward ∉ run refStep p hist := by
  intro hist
  induction hist with
  | nil => intro p h; cases h
  | cons o os ih =>
    intro p h
    simp only [run, List.mem_cons] at h
    cases h with
    | inl h => cases o <;> simp [refStep] at h
    | inr h => exact ih _ h

/-- if the hypothesis `noRepeatedBackward` fails on a history (updates in training only), some step of the
    machine really answers `errBackward` -/
theorem errBackward_of_repeated (k : Kind) : ∀ (hist : List Op) (s : St) (used : Bool), CInv used s → Tight used s →
    updatesOnlyInTraining s.training hist = true →
    noRepeatedBackward s.training s.usingCache used hist = false →
    Out.errBackward ∈ run (step k) s hist := by
  intro hist
  induction hist with
  | nil => intro s used _ _ _ hB; simp [noRepeatedBackward] at hB
  | cons o os ih =>
    intro s used h ht hU hB
    by_cases hrep : o = .fwdBwd ∧ cachedMode s = true ∧ used = true
    · obtain ⟨eo, hc, hu⟩ := hrep
      subst eo
      obtain ⟨l, hl, hlf⟩ := ht hu
      have hlc := h.curL l hl
      have hco : cachedOut s (readW k s (fill s s.cW)) l = uncachedOut s :=
        cachedOut_cur (readW_cur k (fill_cur h.curW)) hlc
      have : (step k s .fwdBwd).2 = .errBackward := by
        simp [step, hc, hl, fill, uncachedOut, hlf] at hco ⊢
        simp [hco]
      simp only [run]; rw [this]; exact List.mem_cons_self
    · have hU1 : o = .update → s.training = true := by
        intro e; subst e; simp [updatesOnlyInTraining] at hU; exact hU.1
      have hB1 : o = .fwdBwd → cachedMode s = true → used = false := by
        intro e hc
        cases hu : used with
        | false => rfl
        | true => exact absurd ⟨e, hc, hu⟩ hrep
      obtain ⟨_, _, h'⟩ := step_ok k s o used h hU1 hB1
      have ht' := tight_step k s o used h ht hB1
      have hU' : updatesOnlyInTraining (step k s o).1.training os = true := by
        rw [step_training]
        cases o <;> simp [updatesOnlyInTraining] at hU ⊢ <;> first | exact hU | exact hU.2
      have hB' : noRepeatedBackward (step k s o).1.training (step k s o).1.usingCache (nextUsed s used o) os = false := by
        rw [step_training, step_usingCache]
        cases o <;> simp only [noRepeatedBackward, nextUsed] at hB ⊢ <;> try exact hB
        by_cases hc : cachedMode s = true
        · have hc' : (!s.training && s.usingCache) = true := hc
          have hu := hB1 rfl hc
          simp [hc', hu] at hB; simp [hc]; exact hB
        · have hc' : ¬ (!s.training && s.usingCache) = true := hc
          simp only [hc'] at hB; simp only [hc]; exact hB
      have := ih (step k s o).1 (nextUsed s used o) h' ht' hU' hB'
      simp only [run]; exact List.mem_cons_of_mem _ this

/-! ### Facts that hold over EVERY history (no hypothesis at all) -/

/-- "training mode ⇒ cache empty" -/
def TrainEmpty (s : St) : Prop := s.training = true → s.cW = none ∧ s.cInv = none ∧ s.cLd = none

theorem trainEmpty_step (k : Kind) (s : St) (o : Op) (h : TrainEmpty s) : TrainEmpty (step k s o).1 := by
  cases o with
  | train => intro _; exact ⟨rfl, rfl, rfl⟩
  | eval => intro h; simp [step] at h
  | useCache b => exact h
  | useCacheBad => exact h
  | update => exact h
  | load => intro _; exact ⟨rfl, rfl, rfl⟩
  | cast d => intro _; exact ⟨rfl, rfl, rfl⟩
  | fwd =>
    by_cases hc : cachedMode s = true
    · intro ht; rw [step_training] at ht; simp [training_false_of_cachedMode hc] at ht
    · have e : step k s .fwd = (s, uncachedOut s) := by simp [step, hc]
      rw [e]; exact h
  | inv =>
    by_cases hc : cachedMode s = true
    · intro ht; rw [step_training] at ht; simp [training_false_of_cachedMode hc] at ht
    · have e : step k s .inv = (s, uncachedOut s) := by simp [step, hc]
      rw [e]; exact h
  | fwdBwd =>
    by_cases hc : cachedMode s = true
    · intro ht; rw [step_training] at ht; simp [training_false_of_cachedMode hc] at ht
    · have e : step k s .fwdBwd = (s, uncachedOut s) := by simp [step, hc]
      rw [e]; exact h

theorem trainEmpty_trace (k : Kind) : ∀ (hist : List Op) (s : St), TrainEmpty s →
    ∀ x ∈ trace k s hist, TrainEmpty x.1 := by
  intro hist
  induction hist with
  | nil => intro s _ x hx; cases hx
  | cons o os ih =>
    intro s h x hx
    simp only [trace, List.mem_cons] at hx
    cases hx with
    | inl e => subst e; exact trainEmpty_step k s o h
    | inr hx => exact ih _ (trainEmpty_step k s o h) x hx

/-- the driver prints `trace`; its observables are `run (step k)` -/
theorem trace_outputs (k : Kind) : ∀ (hist : List Op) (s : St), (trace k s hist).map Prod.snd = run (step k) s hist := by
  intro hist
  induction hist with
  | nil => intro s; rfl
  | cons o os ih => intro s; simp only [trace, run, List.map_cons, ih]

/-- in training mode, and whenever the cache flag is off, every call is the uncached call — over every history,
    whatever happened before -/
theorem uncached_when_off (k : Kind) (s : St) (o : Op) (h : cachedMode s = false) (ho : o = .fwd ∨ o = .inv ∨ o = .fwdBwd) :
    step k s o = (s, uncachedOut s) := by
  rcases ho with e | e | e <;> subst e <;> simp [step, h]

end Cache
