import NflowsModel.Lemmas.SplineTotal
import NflowsModel.Lemmas.ExecGlue
import NflowsModel.Real.Bridge
import NflowsModel.Lemmas.RQBin
/-!
# Lemmas/RQWhole — the EXECUTED rational-quadratic spline (forward) as a function on the whole box, over the reals

`rqSpline (realX e) c uw uh ud false` is the list program the driver runs at `Float`/`Float32`, instantiated at ℝ.  For
every accepted configuration (`RQValid`) and every unnormalised parameter vectors this file proves, about that program
itself (softmax, floor, cumsum, pinning of the end knots, differences, search, gather, closed form):

* it returns a value for every `x ∈ [left, right]`, and that value is the closed form of the bin the search selected;
* the value function is strictly increasing on `[left, right]`, sends `left ↦ bottom`, `right ↦ top`;
* inside every open bin its derivative is `exp` of the log-abs-det the program returns.
-/
open NF DualSound

namespace RQWhole
noncomputable section
variable (e : Float → ℝ)

/-- an accepted configuration, with the reading `e` of the Python doubles exact on the expressions the code forms -/
structure RQValid (c : RQCfg) (uw uh ud : List ℝ) : Prop where
  hK : uw ≠ []
  hlenh : uh.length = uw.length
  hlend : ud.length = uw.length + 1
  hgW : ¬ (c.minW * uw.length.toFloat > 1.0)
  hgH : ¬ (c.minH * uw.length.toFloat > 1.0)
  hmW0 : 0 ≤ e c.minW
  hcW : e (1 - c.minW * uw.length.toFloat) = 1 - e c.minW * uw.length
  hmWK : e c.minW * uw.length ≤ 1
  hmH0 : 0 ≤ e c.minH
  hcH : e (1 - c.minH * uh.length.toFloat) = 1 - e c.minH * uh.length
  hmHK : e c.minH * uh.length ≤ 1
  hlr : e c.box.left < e c.box.right
  hdlr : e (c.box.right - c.box.left) = e c.box.right - e c.box.left
  hbt : e c.box.bottom < e c.box.top
  hdbt : e (c.box.top - c.box.bottom) = e c.box.top - e c.box.bottom
  heps : 0 < e c.eps
  hminD : 0 ≤ e c.minD
  hbeta : 0 < e c.beta

/-- x-knots, y-knots, knot derivatives exactly as the program computes them -/
def cw (c : RQCfg) (uw : List ℝ) : List ℝ :=
  (rqKnots (NF.realX e) c.box.left c.box.right (flooredSoftmax (NF.realX e) c.minW uw)).1
def ch (c : RQCfg) (uh : List ℝ) : List ℝ :=
  (rqKnots (NF.realX e) c.box.bottom c.box.top (flooredSoftmax (NF.realX e) c.minH uh)).1
def dv (c : RQCfg) (ud : List ℝ) : List ℝ :=
  ud.map (fun u => (NF.realX e).add ((NF.realX e).ofFloat c.minD) ((NF.realX e).softplusB ((NF.realX e).ofFloat c.beta) u))

def xs (c : RQCfg) (uw : List ℝ) (k : ℕ) : ℝ := (cw e c uw).getD k 0
def ys (c : RQCfg) (uh : List ℝ) (k : ℕ) : ℝ := (ch e c uh).getD k 0
def ds (c : RQCfg) (ud : List ℝ) (k : ℕ) : ℝ := (dv e c ud).getD k 0

/-- the bin index the executed search returns -/
def idx (c : RQCfg) (uw : List ℝ) (x : ℝ) : ℕ := (searchsortedG (NF.realX e) c.eps (cw e c uw) x).toNat

/-- environment of bin `k` -/
def env (c : RQCfg) (uw uh ud : List ℝ) (k : ℕ) (x : ℝ) : ℕ → ℝ :=
  Bridge.rqEnv x (xs e c uw k) (xs e c uw (k+1) - xs e c uw k) (ys e c uh k) (ys e c uh (k+1) - ys e c uh k)
    (ds e c ud k) (ds e c ud (k+1))

/-- closed forms of bin `k` (value, log-abs-det) -/
def binVal (c : RQCfg) (uw uh ud : List ℝ) (k : ℕ) (x : ℝ) : ℝ := evalR (env e c uw uh ud k x) rqFwdE
def binLd (c : RQCfg) (uw uh ud : List ℝ) (k : ℕ) (x : ℝ) : ℝ := evalR (env e c uw uh ud k x) rqFwdLdE

/-- what the program returns (0 on the error branch, which `exec_eq_bin` shows is not taken in the domain) -/
def val (c : RQCfg) (uw uh ud : List ℝ) (x : ℝ) : ℝ :=
  match rqSpline (NF.realX e) c uw uh ud false x with
  | .ok r => r.1
  | .error _ => 0
def ld (c : RQCfg) (uw uh ud : List ℝ) (x : ℝ) : ℝ :=
  match rqSpline (NF.realX e) c uw uh ud false x with
  | .ok r => r.2
  | .error _ => 0

theorem evalX_eq_evalR (l : List ℝ) (E : Expr) : evalX (NF.realX e) l E = evalR (envOf l 0) E := by
  unfold evalX
  rw [NF.realX_zero]
  rfl

theorem diffsG_getD (l : List ℝ) (i : ℕ) (h : i + 1 < l.length) :
    (diffsG (NF.realX e) l).getD i 0 = l.getD (i+1) 0 - l.getD i 0 := by
  induction l generalizing i with
  | nil => simp at h
  | cons a t ih =>
    cases t with
    | nil => simp at h
    | cons b r =>
      cases i with
      | zero => simp [diffsG]
      | succ j =>
        have := ih j (by simpa using h)
        simpa [diffsG] using this

theorem getElem_eq_getD (l : List ℝ) (i : ℕ) (h : i < l.length) : l[i] = l.getD i 0 := by
  simp [List.getD, h]

variable {e}
variable {c : RQCfg} {uw uh ud : List ℝ}

theorem cw_facts (hv : RQValid e c uw uh ud) :
    (cw e c uw).length = uw.length + 1 ∧ (cw e c uw).head? = some (e c.box.left) ∧
    (cw e c uw).getLast? = some (e c.box.right) ∧ (cw e c uw).Pairwise (· < ·) := by
  have h := SplineExec.flooredSoftmax_valid e c.minW uw hv.hK hv.hmW0 hv.hcW hv.hmWK
  have hne : flooredSoftmax (NF.realX e) c.minW uw ≠ [] := by intro h'; have := h.2; rw [h'] at this; simp at this
  have hlen : (flooredSoftmax (NF.realX e) c.minW uw).length = uw.length := by
    simp [SplineExec.flooredSoftmax_eq, SplineExec.softmaxG_length]
  have := SplineExec.rqKnots_valid e c.box.left c.box.right _ hne h.1 h.2 hv.hlr hv.hdlr
  rw [hlen] at this
  exact this

theorem ch_facts (hv : RQValid e c uw uh ud) :
    (ch e c uh).length = uw.length + 1 ∧ (ch e c uh).head? = some (e c.box.bottom) ∧
    (ch e c uh).getLast? = some (e c.box.top) ∧ (ch e c uh).Pairwise (· < ·) := by
  have huh : uh ≠ [] := by
    intro h; have := hv.hlenh; rw [h] at this; exact hv.hK (List.length_eq_zero_iff.mp this.symm)
  have h := SplineExec.flooredSoftmax_valid e c.minH uh huh hv.hmH0 hv.hcH hv.hmHK
  have hne : flooredSoftmax (NF.realX e) c.minH uh ≠ [] := by intro h'; have := h.2; rw [h'] at this; simp at this
  have hlen : (flooredSoftmax (NF.realX e) c.minH uh).length = uw.length := by
    simp [SplineExec.flooredSoftmax_eq, SplineExec.softmaxG_length, hv.hlenh]
  have := SplineExec.rqKnots_valid e c.box.bottom c.box.top _ hne h.1 h.2 hv.hbt hv.hdbt
  rw [hlen] at this
  exact this

theorem pairwise_getD_lt (l : List ℝ) (hp : l.Pairwise (· < ·)) (k : ℕ) (hk : k + 1 < l.length) :
    l.getD k 0 < l.getD (k+1) 0 := by
  have h1 : k < l.length := by omega
  rw [← getElem_eq_getD l k h1, ← getElem_eq_getD l (k+1) hk]
  exact List.pairwise_iff_getElem.mp hp k (k+1) h1 hk (by omega)

theorem xs_strict (hv : RQValid e c uw uh ud) : ∀ k < uw.length, xs e c uw k < xs e c uw (k+1) := by
  intro k hk
  obtain ⟨hlen, _, _, hp⟩ := cw_facts hv
  exact pairwise_getD_lt _ hp k (by omega)

theorem ys_strict (hv : RQValid e c uw uh ud) : ∀ k < uw.length, ys e c uh k < ys e c uh (k+1) := by
  intro k hk
  obtain ⟨hlen, _, _, hp⟩ := ch_facts hv
  exact pairwise_getD_lt _ hp k (by omega)

theorem head_getD (l : List ℝ) (a : ℝ) (h : l.head? = some a) : l.getD 0 0 = a := by
  cases l with
  | nil => simp at h
  | cons b t => simp at h; simp [h]

theorem last_getD (l : List ℝ) (a : ℝ) (n : ℕ) (hl : l.length = n + 1) (h : l.getLast? = some a) : l.getD n 0 = a := by
  rcases List.getLast?_eq_some_iff.mp h with ⟨ys, rfl⟩
  have : ys.length = n := by simpa using hl
  subst this
  simp [List.getD]

theorem xs_zero (hv : RQValid e c uw uh ud) : xs e c uw 0 = e c.box.left := head_getD _ _ (cw_facts hv).2.1
theorem xs_last (hv : RQValid e c uw uh ud) : xs e c uw uw.length = e c.box.right :=
  last_getD _ _ _ (cw_facts hv).1 (cw_facts hv).2.2.1
theorem ys_zero (hv : RQValid e c uw uh ud) : ys e c uh 0 = e c.box.bottom := head_getD _ _ (ch_facts hv).2.1
theorem ys_last (hv : RQValid e c uw uh ud) : ys e c uh uw.length = e c.box.top :=
  last_getD _ _ _ (ch_facts hv).1 (ch_facts hv).2.2.1

/-- knot derivatives are positive: `min_derivative + softplus(β·u)/β` with `0 ≤ min_derivative`, `0 < β` -/
theorem ds_pos (hv : RQValid e c uw uh ud) : ∀ k < uw.length + 1, 0 < ds e c ud k := by
  intro k hk
  have hlen : (dv e c ud).length = uw.length + 1 := by simp [dv, hv.hlend]
  have hkud : k < ud.length := by rw [hv.hlend]; exact hk
  unfold ds
  rw [← getElem_eq_getD _ k (by omega)]
  simp only [dv, List.getElem_map, NF.realX_add, NF.realX_ofFloat]
  have hb := hv.hbeta
  have hsp : 0 < (NF.realX e).softplusB (e c.beta) ud[k] := by
    unfold XOps.softplusB
    simp only [NF.realX_mul, NF.realX_lt, NF.realX_ofRat, NF.realX_div, NF.realX_log1p, NF.realX_exp]
    split
    · rename_i h
      have h' : (20:ℝ) < e c.beta * ud[k] := by simpa using h
      by_contra hneg
      have : e c.beta * ud[k] ≤ 0 := mul_nonpos_of_nonneg_of_nonpos hb.le (not_lt.mp hneg)
      linarith
    · apply div_pos _ hb
      apply Real.log_pos
      linarith [Real.exp_pos (e c.beta * ud[k])]
  linarith [hv.hminD]

/-- the executed search meets the search specification on the executed knots -/
theorem search_spec (hv : RQValid e c uw uh ud) :
    ExecGlue.SearchSpec (xs e c uw) uw.length (idx e c uw) ∧
    ∀ x, e c.box.left ≤ x → x ≤ e c.box.right →
      searchsortedG (NF.realX e) c.eps (cw e c uw) x = ((idx e c uw x : ℕ) : Int) := by
  obtain ⟨hlen, hhead, hlast, hp⟩ := cw_facts hv
  obtain ⟨init, hsplit⟩ : ∃ init, cw e c uw = init ++ [e c.box.right] := by
    rcases List.getLast?_eq_some_iff.mp hlast with ⟨ys, hys⟩
    exact ⟨ys, hys⟩
  have hinitlen : init.length = uw.length := by
    have := congrArg List.length hsplit; simp [hlen] at this; omega
  have hK0 : 0 < uw.length := List.length_pos_of_ne_nil hv.hK
  have hinithead : init.head? = some (e c.box.left) := by
    cases init with
    | nil => simp at hinitlen; omega
    | cons a t => rw [hsplit] at hhead; simpa using hhead
  have hb : e c.box.right < NF.TU.bumpedLast (NF.realX e) c.eps (e c.box.right) := by
    simp only [NF.TU.bumpedLast, XOps.maxA, NF.realX_add, NF.realX_ofFloat, NF.realX_lt]
    have : (NF.realX e).nextUp (e c.box.right) = e c.box.right := rfl
    rw [this]
    have hnot : ¬ (e c.box.right + e c.eps < e c.box.right) := by linarith [hv.heps]
    simp only [hnot, decide_false, Bool.false_eq_true, if_false]
    linarith [hv.heps]
  have key : ∀ x, e c.box.left ≤ x → x ≤ e c.box.right →
      ∃ i : ℕ, searchsortedG (NF.realX e) c.eps (cw e c uw) x = (i : Int) ∧ i < uw.length ∧
        xs e c uw i ≤ x ∧ (x < xs e c uw (i+1) ∨ (i + 1 = uw.length ∧ x = e c.box.right)) := by
    intro x hx0 hx1
    obtain ⟨i, hi, hiK, lo, hi', hlo, hhi, hle, hr⟩ :=
      Properties.C20.searchsorted_spec (NF.realX e) (SplineTotal.realX_ordered' e) c.eps init (e c.box.right) x
        (by rw [← hsplit]; exact hp) hb (e c.box.left) hinithead hx0 hx1
    rw [← hsplit] at hi hlo hhi
    rw [hinitlen] at hiK hr
    refine ⟨i, hi, hiK, ?_, ?_⟩
    · have : xs e c uw i = lo := by
        unfold xs; rw [List.getD_eq_getElem?_getD, hlo]; rfl
      rw [this]; exact hle
    · have : xs e c uw (i+1) = hi' := by
        unfold xs; rw [List.getD_eq_getElem?_getD, hhi]; rfl
      rw [this]; exact hr
  constructor
  · intro x hx0 hx1
    rw [xs_zero hv] at hx0
    rw [xs_last hv] at hx1
    obtain ⟨i, hi, hiK, hle, hr⟩ := key x hx0 hx1
    have hidx : idx e c uw x = i := by unfold idx; rw [hi]; rfl
    rw [hidx, xs_last hv]
    exact ⟨hiK, hle, hr⟩
  · intro x hx0 hx1
    obtain ⟨i, hi, _⟩ := key x hx0 hx1
    have hidx : idx e c uw x = i := by unfold idx; rw [hi]; rfl
    rw [hidx, hi]

/-- **the program's result is the closed form of the bin it searched** — for every `x` in the domain -/
theorem exec_eq_bin (hv : RQValid e c uw uh ud) (x : ℝ) (hx0 : e c.box.left ≤ x) (hx1 : x ≤ e c.box.right) :
    rqSpline (NF.realX e) c uw uh ud false x
      = .ok (binVal e c uw uh ud (idx e c uw x) x, binLd e c uw uh ud (idx e c uw x) x) := by
  obtain ⟨hspec, hsearch⟩ := search_spec hv
  have hx0' : xs e c uw 0 ≤ x := by rw [xs_zero hv]; exact hx0
  have hx1' : x ≤ xs e c uw uw.length := by rw [xs_last hv]; exact hx1
  obtain ⟨hiK, _, _⟩ := hspec x hx0' hx1'
  set i := idx e c uw x with hi
  have hcwlen := (cw_facts hv).1
  have hchlen := (ch_facts hv).1
  have hg1 : ((NF.realX e).lt x ((NF.realX e).ofFloat c.box.left) || (NF.realX e).lt ((NF.realX e).ofFloat c.box.right) x) = false := by
    simp only [NF.realX_lt, NF.realX_ofFloat, Bool.or_eq_false_iff, decide_eq_false_iff_not, not_lt]
    exact ⟨hx0, hx1⟩
  have hwlen : (diffsG (NF.realX e) (cw e c uw)).length = uw.length := by rw [SplineTotal.diffsG_length, hcwlen]; omega
  have hhlen : (diffsG (NF.realX e) (ch e c uh)).length = uw.length := by rw [SplineTotal.diffsG_length, hchlen]; omega
  have hk1 : rqKnots (NF.realX e) c.box.left c.box.right (flooredSoftmax (NF.realX e) c.minW uw)
      = (cw e c uw, diffsG (NF.realX e) (cw e c uw)) := rfl
  have hk2 : rqKnots (NF.realX e) c.box.bottom c.box.top (flooredSoftmax (NF.realX e) c.minH uh)
      = (ch e c uh, diffsG (NF.realX e) (ch e c uh)) := rfl
  have hdl : (dv e c ud).length = uw.length + 1 := by simp [dv, hv.hlend]
  have hdv : ud.map (fun u => (NF.realX e).add ((NF.realX e).ofFloat c.minD) ((NF.realX e).softplusB ((NF.realX e).ofFloat c.beta) u))
      = dv e c ud := rfl
  have hi1 : ((i : Int) + 1) = ((i + 1 : ℕ) : Int) := by push_cast; rfl
  unfold rqSpline
  simp only [Bool.false_eq_true, if_false, hg1, hv.hgW, hv.hgH, hk1, hk2, hsearch x hx0 hx1, hdv]
  rw [SplineTotal.getI_ok (cw e c uw) i (by omega), SplineTotal.getI_ok _ i (by omega : i < (diffsG (NF.realX e) (cw e c uw)).length),
    SplineTotal.getI_ok (ch e c uh) i (by omega), SplineTotal.getI_ok _ i (by omega : i < (diffsG (NF.realX e) (ch e c uh)).length),
    hi1, SplineTotal.getI_ok _ i (by omega : i < (dv e c ud).length), SplineTotal.getI_ok _ (i + 1) (by omega : i + 1 < (dv e c ud).length)]
  simp only [getElem_eq_getD, diffsG_getD e (cw e c uw) i (by omega), diffsG_getD e (ch e c uh) i (by omega), evalX_eq_evalR]
  rfl

theorem val_eq (hv : RQValid e c uw uh ud) (x : ℝ) (hx0 : e c.box.left ≤ x) (hx1 : x ≤ e c.box.right) :
    val e c uw uh ud x = binVal e c uw uh ud (idx e c uw x) x := by
  unfold val; rw [exec_eq_bin hv x hx0 hx1]

theorem ld_eq (hv : RQValid e c uw uh ud) (x : ℝ) (hx0 : e c.box.left ≤ x) (hx1 : x ≤ e c.box.right) :
    ld e c uw uh ud x = binLd e c uw uh ud (idx e c uw x) x := by
  unfold ld; rw [exec_eq_bin hv x hx0 hx1]

theorem bin_strictMonoOn (hv : RQValid e c uw uh ud) (k : ℕ) (hk : k < uw.length) :
    StrictMonoOn (binVal e c uw uh ud k) (Set.Icc (xs e c uw k) (xs e c uw (k+1))) := by
  have hw : 0 < xs e c uw (k+1) - xs e c uw k := sub_pos.mpr (xs_strict hv k hk)
  have hh : 0 < ys e c uh (k+1) - ys e c uh k := sub_pos.mpr (ys_strict hv k hk)
  have := RQBin.rq_executed_strictMonoOn (xk := xs e c uw k) (yk := ys e c uh k) hw hh
    (ds_pos hv k (by omega)) (ds_pos hv (k+1) (by omega))
  have hr : xs e c uw k + (xs e c uw (k+1) - xs e c uw k) = xs e c uw (k+1) := by ring
  rw [hr] at this
  exact this

theorem bin_endpoints (hv : RQValid e c uw uh ud) (k : ℕ) (hk : k < uw.length) :
    binVal e c uw uh ud k (xs e c uw k) = ys e c uh k ∧ binVal e c uw uh ud k (xs e c uw (k+1)) = ys e c uh (k+1) := by
  have hw : 0 < xs e c uw (k+1) - xs e c uw k := sub_pos.mpr (xs_strict hv k hk)
  have hh : 0 < ys e c uh (k+1) - ys e c uh k := sub_pos.mpr (ys_strict hv k hk)
  have := RQBin.rq_executed_endpoints (xk := xs e c uw k) (yk := ys e c uh k)
    (d0 := ds e c ud k) (d1 := ds e c ud (k+1)) hw hh
  have hr : xs e c uw k + (xs e c uw (k+1) - xs e c uw k) = xs e c uw (k+1) := by ring
  have hr' : ys e c uh k + (ys e c uh (k+1) - ys e c uh k) = ys e c uh (k+1) := by ring
  rw [hr, hr'] at this
  exact this

theorem bin_join (hv : RQValid e c uw uh ud) (k : ℕ) (hk : k + 1 < uw.length) :
    binVal e c uw uh ud k (xs e c uw (k+1)) = binVal e c uw uh ud (k+1) (xs e c uw (k+1)) := by
  rw [(bin_endpoints hv k (by omega)).2, (bin_endpoints hv (k+1) hk).1]

theorem hF (hv : RQValid e c uw uh ud) :
    ∀ x, xs e c uw 0 ≤ x → x ≤ xs e c uw uw.length → val e c uw uh ud x = binVal e c uw uh ud (idx e c uw x) x := by
  intro x h0 h1
  rw [xs_zero hv] at h0; rw [xs_last hv] at h1
  exact val_eq hv x h0 h1

/-- **the executed RQ spline is strictly increasing on the whole box** -/
theorem val_strictMonoOn (hv : RQValid e c uw uh ud) :
    StrictMonoOn (val e c uw uh ud) (Set.Icc (e c.box.left) (e c.box.right)) := by
  have := ExecGlue.strictMonoOn_whole (xs e c uw) uw.length (binVal e c uw uh ud) (val e c uw uh ud) (idx e c uw)
    (xs_strict hv) (search_spec hv).1 (hF hv) (bin_join hv) (bin_strictMonoOn hv)
  rw [xs_zero hv, xs_last hv] at this
  exact this

/-- **… and pins both corners of the box**: `left ↦ bottom`, `right ↦ top` -/
theorem val_endpoints (hv : RQValid e c uw uh ud) :
    val e c uw uh ud (e c.box.left) = e c.box.bottom ∧ val e c uw uh ud (e c.box.right) = e c.box.top := by
  have hK0 : 0 < uw.length := List.length_pos_of_ne_nil hv.hK
  have hl := ExecGlue.left_value (xs e c uw) uw.length (binVal e c uw uh ud) (val e c uw uh ud) (idx e c uw) hK0
    (xs_strict hv) (search_spec hv).1 (hF hv) (bin_join hv)
  have hr := ExecGlue.right_value (xs e c uw) uw.length (binVal e c uw uh ud) (val e c uw uh ud) (idx e c uw) hK0
    (xs_strict hv) (search_spec hv).1 (hF hv) (bin_join hv)
  constructor
  · rw [xs_zero hv] at hl
    rw [hl, ← xs_zero hv, (bin_endpoints hv 0 hK0).1, ys_zero hv]
  · have hK1 : uw.length - 1 + 1 = uw.length := by omega
    have he := (bin_endpoints hv (uw.length - 1) (by omega)).2
    rw [hK1] at he
    rw [xs_last hv] at hr
    rw [hr, ← xs_last hv, he, ys_last hv]

/-- … so it maps the box into `[bottom, top]` -/
theorem val_mapsTo (hv : RQValid e c uw uh ud) :
    Set.MapsTo (val e c uw uh ud) (Set.Icc (e c.box.left) (e c.box.right)) (Set.Icc (e c.box.bottom) (e c.box.top)) := by
  intro x hx
  have hm := (val_strictMonoOn hv).monotoneOn
  obtain ⟨hl, hr⟩ := val_endpoints hv
  have hlr := hv.hlr.le
  constructor
  · rw [← hl]; exact hm ⟨le_rfl, hlr⟩ hx hx.1
  · rw [← hr]; exact hm hx ⟨hlr, le_rfl⟩ hx.2

/-- **inside every open bin the derivative of the executed value is `exp` of the executed log-abs-det** -/
theorem val_hasDerivAt (hv : RQValid e c uw uh ud) (k : ℕ) (hk : k < uw.length) (x : ℝ)
    (h0 : xs e c uw k < x) (h1 : x < xs e c uw (k+1)) :
    HasDerivAt (val e c uw uh ud) (Real.exp (ld e c uw uh ud x)) x := by
  have hmono := ExecGlue.knots_mono (xs e c uw) uw.length (xs_strict hv)
  have hx0 : e c.box.left ≤ x := by
    rw [← xs_zero hv]; exact le_trans (hmono 0 k (Nat.zero_le _) hk.le) h0.le
  have hx1 : x ≤ e c.box.right := by
    rw [← xs_last hv]; exact le_trans h1.le (hmono (k+1) uw.length hk le_rfl)
  -- the search returns k on the open bin
  obtain ⟨hiK, hle, hr⟩ := (search_spec hv).1 x (by rw [xs_zero hv]; exact hx0) (by rw [xs_last hv]; exact hx1)
  have hstrict := ExecGlue.knots_strict (xs e c uw) uw.length (xs_strict hv)
  have hik : idx e c uw x = k := by
    set i := idx e c uw x
    by_contra hne
    rcases Nat.lt_or_gt_of_ne hne with hlt | hgt
    · rcases hr with hr | ⟨hiK', hxr⟩
      · have : xs e c uw (i+1) ≤ xs e c uw k := hmono (i+1) k hlt hk.le
        linarith
      · omega
    · have : xs e c uw (k+1) ≤ xs e c uw i := hmono (k+1) i hgt hiK.le
      linarith
  rw [ld_eq hv x hx0 hx1, hik]
  have hw : 0 < xs e c uw (k+1) - xs e c uw k := sub_pos.mpr (xs_strict hv k hk)
  have hh : 0 < ys e c uh (k+1) - ys e c uh k := sub_pos.mpr (ys_strict hv k hk)
  have hd := RQBin.rq_executed_logdet (xk := xs e c uw k) (yk := ys e c uh k) (x := x) hw hh
    (ds_pos hv k (by omega)) (ds_pos hv (k+1) (by omega)) h0.le (by linarith)
  exact ExecGlue.hasDerivAt_in_bin (xs e c uw) uw.length (binVal e c uw uh ud) (val e c uw uh ud) (idx e c uw)
    (xs_strict hv) (search_spec hv).1 (hF hv) (bin_join hv) k hk x _ h0 h1 hd

/-! ### non-vacuity: a concrete accepted configuration (one bin on the unit box) with a concrete reading of the doubles -/

def eNV (f : Float) : ℝ := if f == 0.0 then 0 else 1
def cNV : RQCfg := { box := ⟨0.0, 1.0, 0.0, 1.0⟩, minW := 0.0, minH := 0.0, minD := 0.0 }

private theorem b0 : ((0.0:Float) == 0.0) = true := by decide +kernel
private theorem b1 : ((1.0:Float) == 0.0) = false := by decide +kernel
private theorem b2 : ((1e-6:Float) == 0.0) = false := by decide +kernel
private theorem b3 : (((1:Float) - 0.0 * (1:Nat).toFloat) == 0.0) = false := by decide +kernel
private theorem b4 : (((1.0:Float) - 0.0) == 0.0) = false := by decide +kernel
private theorem g1 : ¬ ((0.0:Float) * (1:Nat).toFloat > 1.0) := by decide +kernel

theorem valid_example : RQValid eNV cNV [0] [0] [0, 0] where
  hK := by simp
  hlenh := rfl
  hlend := rfl
  hgW := g1
  hgH := g1
  hmW0 := by simp [eNV, cNV, b0]
  hcW := by simp [eNV, cNV, b0, b3]
  hmWK := by simp [eNV, cNV, b0]
  hmH0 := by simp [eNV, cNV, b0]
  hcH := by simp [eNV, cNV, b0, b3]
  hmHK := by simp [eNV, cNV, b0]
  hlr := by simp [eNV, cNV, b0, b1]
  hdlr := by simp [eNV, cNV, b0, b1, b4]
  hbt := by simp [eNV, cNV, b0, b1]
  hdbt := by simp [eNV, cNV, b0, b1, b4]
  heps := by simp [eNV, cNV, b2]
  hminD := by simp [eNV, cNV, b0]
  hbeta := by simp [eNV, cNV, b1]

end
end RQWhole
