import NflowsModel.Lemmas.LinWhole
import NflowsModel.Lemmas.TailsWhole
import NflowsModel.Lemmas.StructureExecQuad
/-!
# Lemmas/LinTails — the piecewise-LINEAR spline with linear tails on the whole real line, and the per-element
invertibility hypothesis of the executed coupling / autoregressive layers discharged for the linear family

Building blocks: `Lemmas/LinWhole.lean` (the bounded executed program, both directions) and the generic wrapper theorems
`TailsWhole.wrap_*` (nothing is re-proved).

* `elTransform_lin`, `elTransform_lin_tails`: the texts the dispatcher `elTransform` runs for `kind = "lin"`.
* tails (`tailsWrap … (fun box => linSpline … box 1e-6 p inverse x)`): `lin_wrapValid`, `lin_wrapValidI` (the hypotheses
  of every `TailsWhole.wrap_*` theorem hold, both directions), `lin_tails_whole`, `lin_tails_whole_inv` (total on ℝ,
  identity with log-det 0 outside `[-B, B]`, continuous, strictly increasing bijection of ℝ mapping the box onto itself),
  `lin_tails_inv_val`, `lin_tails_val_inv` (round trips for EVERY real), `lin_tails_invLd` (log-abs-det law for EVERY
  real), `lin_tails_hasDerivAt_bin`, `lin_tails_inv_hasDerivAt_bin`, `lin_tails_hasDerivAt_outside`.
  FINDING-level remark `lin_tails_not_differentiable_left`: at the junction `-B` the one-sided derivatives are 1 (tail)
  and `pdf_0·K` (box): the unconstrained linear spline is not differentiable there unless `pdf_0 = 1/K`.
* structure layer: `linSpline_real_invertible`, `linTails_real_invertible`, `elInvertible_lin_real`,
  `elInvertible_lin_tails_real`, `coupling_lin_roundtrip_real`, `coupling_lin_tails_roundtrip_real`.
-/
open NF DualSound

namespace LinTails
open LinWhole TailsWhole
noncomputable section

/-! ## the unconstrained linear spline: `tailsWrap` around `linSpline` -/

section tails
variable (e : Float → ℝ) (tb eps : Float) (up : List ℝ)

/-- the inner programs exactly as `elTransform` passes them to `tailsWrap` (forward / inverse direction) -/
def linP (b : Box) (x : ℝ) : Except Err (ℝ × ℝ) := linSpline (NF.realX e) b eps up false x
def linPI (b : Box) (y : ℝ) : Except Err (ℝ × ℝ) := linSpline (NF.realX e) b eps up true y

local notation "LP" => linP e eps up
local notation "LPI" => linPI e eps up

theorem innerVal_lin : innerVal tb LP = LinWhole.val e (tbox tb) eps up := rfl
theorem innerLd_lin : innerLd tb LP = LinWhole.ld e (tbox tb) eps up := rfl
theorem innerVal_linI : innerVal tb LPI = LinWhole.inv e (tbox tb) eps up := rfl
theorem innerLd_linI : innerLd tb LPI = LinWhole.invLd e (tbox tb) eps up := rfl

variable {e tb eps up}

/-- the tail bound is positive as soon as the box is non-degenerate and `e` commutes with the negation -/
theorem lin_hB (hv : LinValid e (tbox tb) eps up) (hneg : e (-tb) = - e tb) : 0 < e tb := by
  have h : e (-tb) < e tb := hv.hlr
  rw [hneg] at h; linarith

/-- **the hypotheses of the generic wrapper theorem hold for the linear tails program (forward)** -/
theorem lin_wrapValid (hv : LinValid e (tbox tb) eps up) (hneg : e (-tb) = - e tb) : WrapValid e tb LP := by
  have hm : StrictMonoOn (LinWhole.val e (tbox tb) eps up) (Set.Icc (e (-tb)) (e tb)) := val_strictMonoOn hv
  have he : LinWhole.val e (tbox tb) eps up (e (-tb)) = e (-tb) ∧ LinWhole.val e (tbox tb) eps up (e tb) = e tb :=
    val_endpoints hv
  have hs : Set.SurjOn (LinWhole.val e (tbox tb) eps up) (Set.Icc (e (-tb)) (e tb)) (Set.Icc (e (-tb)) (e tb)) :=
    (val_bijOn hv).surjOn
  rw [hneg] at hm he hs
  refine ⟨⟨lin_hB hv hneg, hm, he.1, he.2, hs⟩, ?_⟩
  intro x h0 h1
  exact ⟨_, exec_ok hv x (by show e (-tb) ≤ x; rw [hneg]; exact h0) h1⟩

/-- **the hypotheses of the generic wrapper theorem hold for the linear tails program (inverse)** -/
theorem lin_wrapValidI (hv : LinValid e (tbox tb) eps up) (hneg : e (-tb) = - e tb) : WrapValid e tb LPI := by
  have hm : StrictMonoOn (LinWhole.inv e (tbox tb) eps up) (Set.Icc (e (-tb)) (e tb)) := inv_strictMonoOn hv
  have he : LinWhole.inv e (tbox tb) eps up (e (-tb)) = e (-tb) ∧ LinWhole.inv e (tbox tb) eps up (e tb) = e tb :=
    inv_endpoints hv
  have hs : Set.SurjOn (LinWhole.inv e (tbox tb) eps up) (Set.Icc (e (-tb)) (e tb)) (Set.Icc (e (-tb)) (e tb)) :=
    (inv_bijOn hv).surjOn
  rw [hneg] at hm he hs
  refine ⟨⟨lin_hB hv hneg, hm, he.1, he.2, hs⟩, ?_⟩
  intro y h0 h1
  exact ⟨_, inv_exec_ok hv y (by show e (-tb) ≤ y; rw [hneg]; exact h0) h1⟩

/-- **the executed linear tails program (forward) on the whole line**: C17 (total on ℝ), C09 (strictly increasing,
    continuous, bijective, the box onto itself, junctions fixed), identity with log-det 0 outside the box -/
theorem lin_tails_whole (hv : LinValid e (tbox tb) eps up) (hneg : e (-tb) = - e tb) :
    (∀ x, tailsWrap (NF.realX e) tb x (fun b => LP b x) = .ok (wrapVal e tb LP x, wrapLd e tb LP x)) ∧
    StrictMono (wrapVal e tb LP) ∧ Continuous (wrapVal e tb LP) ∧ Function.Bijective (wrapVal e tb LP) ∧
    Set.BijOn (wrapVal e tb LP) (Set.Icc (-e tb) (e tb)) (Set.Icc (-e tb) (e tb)) ∧
    wrapVal e tb LP (-e tb) = -e tb ∧ wrapVal e tb LP (e tb) = e tb ∧
    (∀ x, x < -e tb ∨ e tb < x → wrapVal e tb LP x = x ∧ wrapLd e tb LP x = 0) := by
  have hw := lin_wrapValid hv hneg
  exact ⟨wrap_total hw, wrap_strictMono hw, wrap_continuous hw, wrap_bijective hw, wrap_bijOn_box hw,
    (wrap_junction hw).1, (wrap_junction hw).2, fun x h => wrap_outside x h⟩

/-- the same for the inverse direction -/
theorem lin_tails_whole_inv (hv : LinValid e (tbox tb) eps up) (hneg : e (-tb) = - e tb) :
    (∀ y, tailsWrap (NF.realX e) tb y (fun b => LPI b y) = .ok (wrapVal e tb LPI y, wrapLd e tb LPI y)) ∧
    StrictMono (wrapVal e tb LPI) ∧ Continuous (wrapVal e tb LPI) ∧ Function.Bijective (wrapVal e tb LPI) ∧
    Set.BijOn (wrapVal e tb LPI) (Set.Icc (-e tb) (e tb)) (Set.Icc (-e tb) (e tb)) ∧
    wrapVal e tb LPI (-e tb) = -e tb ∧ wrapVal e tb LPI (e tb) = e tb ∧
    (∀ y, y < -e tb ∨ e tb < y → wrapVal e tb LPI y = y ∧ wrapLd e tb LPI y = 0) := by
  have hw := lin_wrapValidI hv hneg
  exact ⟨wrap_total hw, wrap_strictMono hw, wrap_continuous hw, wrap_bijective hw, wrap_bijOn_box hw,
    (wrap_junction hw).1, (wrap_junction hw).2, fun y h => wrap_outside y h⟩

/-- **C02 on the whole line**: inverse ∘ forward = id for EVERY real `x` -/
theorem lin_tails_inv_val (hv : LinValid e (tbox tb) eps up) (hneg : e (-tb) = - e tb) (x : ℝ) :
    wrapVal e tb LPI (wrapVal e tb LP x) = x := by
  rw [wrapVal_eq_ext, wrapVal_eq_ext]
  refine ext_ext_cancel (lin_wrapValid hv hneg).bij (fun z h0 h1 => ?_) x
  exact inv_val hv z (by show e (-tb) ≤ z; rw [hneg]; exact h0) h1

/-- **C02 on the whole line**: forward ∘ inverse = id for EVERY real `y` -/
theorem lin_tails_val_inv (hv : LinValid e (tbox tb) eps up) (hneg : e (-tb) = - e tb) (y : ℝ) :
    wrapVal e tb LP (wrapVal e tb LPI y) = y := by
  rw [wrapVal_eq_ext, wrapVal_eq_ext]
  refine ext_ext_cancel (lin_wrapValidI hv hneg).bij (fun z h0 h1 => ?_) y
  exact val_inv hv z (by show e (-tb) ≤ z; rw [hneg]; exact h0) h1

/-- **log-abs-det law on the whole line** (C02) -/
theorem lin_tails_invLd (hv : LinValid e (tbox tb) eps up) (hneg : e (-tb) = - e tb)
    (hlogK : e (Float.log (1.0 / up.length.toFloat)) = Real.log (1 / (up.length : ℝ))) (y : ℝ) :
    wrapLd e tb LPI y = - wrapLd e tb LP (wrapVal e tb LPI y) := by
  by_cases h : -e tb ≤ y ∧ y ≤ e tb
  · have hy0 : e (-tb) ≤ y := by rw [hneg]; exact h.1
    have hin := (lin_wrapValidI hv hneg).bij.mapsTo ⟨h.1, h.2⟩
    rw [(wrap_inside y h.1 h.2).2, (wrap_inside y h.1 h.2).1, (wrap_inside _ hin.1 hin.2).2]
    exact invLd_eq_neg_ld hv hlogK y hy0 h.2
  · have ho : y < -e tb ∨ e tb < y := by
      by_contra hc
      exact h ⟨not_lt.mp (fun h' => hc (Or.inl h')), not_lt.mp (fun h' => hc (Or.inr h'))⟩
    rw [(wrap_outside y ho).2, (wrap_outside y ho).1, (wrap_outside y ho).2, neg_zero]

/-- the `boxLog` constant of the box `[-B,B]²` is `log 1 = 0`: the form `LinWhole` needs, from `e (boxLog box) = 0` -/
theorem lin_hbl (hv : LinValid e (tbox tb) eps up) (hbl0 : e (boxLog (tbox tb)) = 0) :
    e (boxLog (tbox tb))
      = Real.log ((e (tbox tb).top - e (tbox tb).bottom) / (e (tbox tb).right - e (tbox tb).left)) := by
  have hD : e (tbox tb).right - e (tbox tb).left ≠ 0 := (sub_pos.mpr hv.hlr).ne'
  have h1 : (e (tbox tb).top - e (tbox tb).bottom) / (e (tbox tb).right - e (tbox tb).left) = 1 := div_self hD
  rw [h1, Real.log_one]; exact hbl0

/-- the knots of the box `[-B, B]` lie in the box -/
theorem xk_mem (hv : LinValid e (tbox tb) eps up) (hneg : e (-tb) = - e tb) (j : ℕ) (hj : j ≤ up.length) :
    -e tb ≤ xk e (tbox tb) up.length j ∧ xk e (tbox tb) up.length j ≤ e tb := by
  obtain ⟨hx0, hxK, hxs, _⟩ := knots_facts hv
  have hmono := ExecGlue.knots_mono (xk e (tbox tb) up.length) up.length hxs
  have a := hmono 0 j (Nat.zero_le _) hj
  have b := hmono j up.length hj le_rfl
  rw [hx0] at a
  rw [hxK] at b
  have hL : e (tbox tb).left = -e tb := hneg
  have hR : e (tbox tb).right = e tb := rfl
  rw [hL] at a
  rw [hR] at b
  exact ⟨a, b⟩

theorem yk_mem (hv : LinValid e (tbox tb) eps up) (hneg : e (-tb) = - e tb) (j : ℕ) (hj : j ≤ up.length) :
    -e tb ≤ yk e (tbox tb) up j ∧ yk e (tbox tb) up j ≤ e tb := by
  obtain ⟨_, _, _, hy0, hyK, hys, _⟩ := knots_facts hv
  have hmono := ExecGlue.knots_mono (yk e (tbox tb) up) up.length hys
  have a := hmono 0 j (Nat.zero_le _) hj
  have b := hmono j up.length hj le_rfl
  rw [hy0] at a
  rw [hyK] at b
  have hL : e (tbox tb).bottom = -e tb := hneg
  have hR : e (tbox tb).top = e tb := rfl
  rw [hL] at a
  rw [hR] at b
  exact ⟨a, b⟩

/-- **C01 inside every open bin of the linear tails program (forward)** -/
theorem lin_tails_hasDerivAt_bin (hv : LinValid e (tbox tb) eps up) (hneg : e (-tb) = - e tb)
    (hlogK : e (Float.log (1.0 / up.length.toFloat)) = Real.log (1 / (up.length : ℝ)))
    (hbl0 : e (boxLog (tbox tb)) = 0)
    (k : ℕ) (hk : k < up.length) (x : ℝ)
    (h0 : xk e (tbox tb) up.length k < x) (h1 : x < xk e (tbox tb) up.length (k+1)) :
    HasDerivAt (wrapVal e tb LP) (Real.exp (wrapLd e tb LP x)) x := by
  have hx0 : -e tb < x := lt_of_le_of_lt (xk_mem hv hneg k hk.le).1 h0
  have hx1 : x < e tb := lt_of_lt_of_le h1 (xk_mem hv hneg (k+1) hk).2
  refine wrap_hasDerivAt_inside x hx0 hx1 ?_
  rw [innerVal_lin, innerLd_lin]
  exact val_hasDerivAt_x hv hlogK (lin_hbl hv hbl0) k hk x h0 h1

/-- **C01 inside every open output bin of the linear tails program (inverse)** -/
theorem lin_tails_inv_hasDerivAt_bin (hv : LinValid e (tbox tb) eps up) (hneg : e (-tb) = - e tb)
    (hbl0 : e (boxLog (tbox tb)) = 0)
    (k : ℕ) (hk : k < up.length) (y : ℝ)
    (h0 : yk e (tbox tb) up k < y) (h1 : y < yk e (tbox tb) up (k+1)) :
    HasDerivAt (wrapVal e tb LPI) (Real.exp (wrapLd e tb LPI y)) y := by
  have hy0 : -e tb < y := lt_of_le_of_lt (yk_mem hv hneg k hk.le).1 h0
  have hy1 : y < e tb := lt_of_lt_of_le h1 (yk_mem hv hneg (k+1) hk).2
  refine wrap_hasDerivAt_inside y hy0 hy1 ?_
  rw [innerVal_linI, innerLd_linI]
  exact inv_hasDerivAt_y hv (lin_hbl hv hbl0) k hk y h0 h1

/-- **C01 outside the box**: derivative `1 = exp 0`, both directions (no hypothesis) -/
theorem lin_tails_hasDerivAt_outside (x : ℝ) (h : x < -e tb ∨ e tb < x) :
    HasDerivAt (wrapVal e tb LP) (Real.exp (wrapLd e tb LP x)) x ∧
    HasDerivAt (wrapVal e tb LPI) (Real.exp (wrapLd e tb LPI x)) x :=
  ⟨wrap_hasDerivAt_outside x h, wrap_hasDerivAt_outside x h⟩

/-- remark (not a defect: a piecewise-linear map has kinks): at the junction `-B` the one-sided derivatives of the
    unconstrained linear spline are 1 (tail) and `pdf_0·K` (first bin), so it is NOT differentiable there unless the first
    bin has exactly the uniform mass `1/K`; C01 therefore holds at every real EXCEPT the knots -/
theorem lin_tails_not_differentiable_left (hv : LinValid e (tbox tb) eps up) (hneg : e (-tb) = - e tb)
    (hne : pd e up 0 * (up.length : ℝ) ≠ 1) :
    ¬ DifferentiableAt ℝ (wrapVal e tb LP) (-e tb) := by
  have hD : e (tbox tb).right - e (tbox tb).left ≠ 0 := (sub_pos.mpr hv.hlr).ne'
  have h1 : (e (tbox tb).top - e (tbox tb).bottom) / (e (tbox tb).right - e (tbox tb).left) = 1 := div_self hD
  have hd := val_hasDerivWithinAt_left hv
  rw [h1, mul_one] at hd
  have hL : e (tbox tb).left = -e tb := hneg
  rw [hL] at hd
  exact wrap_not_differentiableAt_left (lin_wrapValid hv hneg) _ hne (by rw [innerVal_lin]; exact hd)

end tails

/-! ## the structure layer: `elTransform` for `kind = "lin"`, per-element invertibility, coupling round trips -/

section structureLayer
open NF.StructureExec

theorem elTransform_lin {α : Type} (o : XOps α) (c : ElCfg) (hk : c.kind = "lin") (ht : c.tails = false) (inverse : Bool)
    (p : List α) (x : α) :
    elTransform o c inverse p x
      = (linSpline o ⟨c.ds.getD 0 0.0, c.ds.getD 1 0.0, c.ds.getD 2 0.0, c.ds.getD 3 0.0⟩ 1e-6 p inverse x).map
          (fun ab => (ab.1, ab.2, [])) := by
  unfold elTransform
  rcases hsc : c.scaling with ⟨hid, sW, sH⟩
  simp only [hk, ht, Bool.false_eq_true, if_false]

theorem elTransform_lin_tails {α : Type} (o : XOps α) (c : ElCfg) (hk : c.kind = "lin") (ht : c.tails = true)
    (inverse : Bool) (p : List α) (x : α) :
    elTransform o c inverse p x
      = (tailsWrap o (c.ds.getD 0 0.0) x (fun box => linSpline o box 1e-6 p inverse x)).map
          (fun ab => (ab.1, ab.2, [])) := by
  unfold elTransform
  rcases hsc : c.scaling with ⟨hid, sW, sH⟩
  simp only [hk, ht]
  rfl

variable (e : Float → ℝ)

/-- a forward call that did not fail had its input in `[left, right]` -/
theorem linSpline_ok_dom (box : Box) (eps : Float) (up : List ℝ) {x : ℝ} {r : ℝ × ℝ}
    (h : linSpline (NF.realX e) box eps up false x = .ok r) : e box.left ≤ x ∧ x ≤ e box.right := by
  by_contra hc
  have hout : x < e (if false = true then box.bottom else box.left) ∨ e (if false = true then box.top else box.right) < x := by
    simp only [Bool.false_eq_true, if_false]
    by_contra h2
    exact hc ⟨le_of_not_gt (fun h3 => h2 (Or.inl h3)), le_of_not_gt (fun h3 => h2 (Or.inr h3))⟩
  rw [outside_domain false x hout] at h
  cases h

/-- **one bounded linear element over the reals inverts exactly and negates its log-det** — the executed forward
    program followed by the executed inverse program with the same parameters.  The domain condition is not a
    hypothesis: a forward call that succeeded had its input in `[left, right]`. -/
theorem linSpline_real_invertible (box : Box) (eps : Float) (up : List ℝ)
    (hv : LinValid e box eps up)
    (hlogK : e (Float.log (1.0 / up.length.toFloat)) = Real.log (1 / (up.length : ℝ))) {x y l : ℝ}
    (h : linSpline (NF.realX e) box eps up false x = .ok (y, l)) :
    linSpline (NF.realX e) box eps up true y = .ok (x, -l) := by
  have hdom := linSpline_ok_dom e box eps up h
  have hval : LinWhole.val e box eps up x = y := by unfold LinWhole.val; rw [h]; rfl
  have hld : LinWhole.ld e box eps up x = l := by unfold LinWhole.ld; rw [h]; rfl
  have hy := val_mapsTo hv ⟨hdom.1, hdom.2⟩
  rw [hval] at hy
  rw [inv_exec_ok hv y hy.1 hy.2]
  have h1 := inv_val hv x hdom.1 hdom.2
  have h2 := ld_eq_neg_invLd hv hlogK x hdom.1 hdom.2
  rw [hval] at h1 h2
  rw [hld] at h2
  rw [h1]
  congr 2
  linarith

/-- **one linear element with linear tails over the reals inverts exactly and negates its log-det** -/
theorem linTails_real_invertible (tb eps : Float) (up : List ℝ) (hneg : e (-tb) = - e tb)
    (hv : LinValid e ⟨-tb, tb, -tb, tb⟩ eps up)
    (hlogK : e (Float.log (1.0 / up.length.toFloat)) = Real.log (1 / (up.length : ℝ))) {x y l : ℝ}
    (h : tailsWrap (NF.realX e) tb x (fun box => linSpline (NF.realX e) box eps up false x) = .ok (y, l)) :
    tailsWrap (NF.realX e) tb y (fun box => linSpline (NF.realX e) box eps up true y) = .ok (x, -l) := by
  unfold tailsWrap at h ⊢
  simp only [XOps.ge, NF.realX_le, NF.realX_neg, NF.realX_ofFloat, Bool.and_eq_true, decide_eq_true_eq] at h ⊢
  by_cases hin : -e tb ≤ x ∧ x ≤ e tb
  · rw [if_pos hin] at h
    have hdom := linSpline_ok_dom e _ eps up h
    have hy := val_mapsTo hv ⟨hdom.1, hdom.2⟩
    have hval : LinWhole.val e ⟨-tb, tb, -tb, tb⟩ eps up x = y := by
      unfold LinWhole.val; rw [h]; rfl
    rw [hval] at hy
    have hy' : -e tb ≤ y ∧ y ≤ e tb := by
      obtain ⟨h0, h1⟩ := hy
      simp only [hneg] at h0
      exact ⟨h0, h1⟩
    rw [if_pos hy']
    exact linSpline_real_invertible e _ eps up hv hlogK h
  · rw [if_neg hin] at h
    simp only [Except.ok.injEq, Prod.mk.injEq] at h
    obtain ⟨rfl, rfl⟩ := h
    rw [if_neg hin]
    simp

/-- every parameter slice the conditioner produced is an accepted bounded linear configuration (any non-empty slice
    is), and the `np.log(1/K)` constant is read as the real logarithm -/
def LinParamsValid (c : ElCfg) (Ft S : Nat) (params : Array ℝ) (B : Nat) : Prop :=
  ∀ b t s, b < B → t < Ft → s < S →
    LinValid e ⟨c.ds.getD 0 0.0, c.ds.getD 1 0.0, c.ds.getD 2 0.0, c.ds.getD 3 0.0⟩ 1e-6
      (condSlice (NF.realX e) c.mult Ft S params b t s) ∧
    e (Float.log (1.0 / (condSlice (NF.realX e) c.mult Ft S params b t s).length.toFloat))
      = Real.log (1 / ((condSlice (NF.realX e) c.mult Ft S params b t s).length : ℝ))

def LinTailsParamsValid (c : ElCfg) (Ft S : Nat) (params : Array ℝ) (B : Nat) : Prop :=
  ∀ b t s, b < B → t < Ft → s < S →
    LinValid e ⟨-(c.ds.getD 0 0.0), c.ds.getD 0 0.0, -(c.ds.getD 0 0.0), c.ds.getD 0 0.0⟩ 1e-6
      (condSlice (NF.realX e) c.mult Ft S params b t s) ∧
    e (Float.log (1.0 / (condSlice (NF.realX e) c.mult Ft S params b t s).length.toFloat))
      = Real.log (1 / ((condSlice (NF.realX e) c.mult Ft S params b t s).length : ℝ))

/-- the per-element hypothesis of the executed C02 theorem, discharged for the bounded linear family -/
theorem elInvertible_lin_real (c : ElCfg) (hk : c.kind = "lin") (ht : c.tails = false)
    (Ft S : Nat) (params : Array ℝ) (B : Nat) (hv : LinParamsValid e c Ft S params B) :
    ElInvertible (NF.realX e) c Ft S params B := by
  have hk1 : c.kind ≠ "affine" := by rw [hk]; decide
  have hk2 : c.kind ≠ "additive" := by rw [hk]; decide
  intro b t s xi y l al hb ht' hs hf
  rw [couplingEl_spline (NF.realX e) c S params false hk1 hk2, elTransform_lin _ c hk ht] at hf
  rw [couplingEl_spline (NF.realX e) c S params true hk1 hk2, elTransform_lin _ c hk ht]
  cases hr : linSpline (NF.realX e) ⟨c.ds.getD 0 0.0, c.ds.getD 1 0.0, c.ds.getD 2 0.0, c.ds.getD 3 0.0⟩ 1e-6
      (condSlice (NF.realX e) c.mult Ft S params b t s) false xi with
  | error err => rw [hr] at hf; simp [Except.map] at hf
  | ok v =>
    obtain ⟨y', l'⟩ := v
    rw [hr] at hf
    simp only [Except.map, Except.ok.injEq, Prod.mk.injEq] at hf
    obtain ⟨rfl, rfl, rfl⟩ := hf
    rw [linSpline_real_invertible e _ _ _ (hv b t s hb ht' hs).1 (hv b t s hb ht' hs).2 hr]
    exact ⟨[], rfl⟩

/-- the same for the linear family with linear tails -/
theorem elInvertible_lin_tails_real (c : ElCfg) (hk : c.kind = "lin") (ht : c.tails = true)
    (hneg : e (-(c.ds.getD 0 0.0)) = - e (c.ds.getD 0 0.0))
    (Ft S : Nat) (params : Array ℝ) (B : Nat) (hv : LinTailsParamsValid e c Ft S params B) :
    ElInvertible (NF.realX e) c Ft S params B := by
  have hk1 : c.kind ≠ "affine" := by rw [hk]; decide
  have hk2 : c.kind ≠ "additive" := by rw [hk]; decide
  intro b t s xi y l al hb ht' hs hf
  rw [couplingEl_spline (NF.realX e) c S params false hk1 hk2, elTransform_lin_tails _ c hk ht] at hf
  rw [couplingEl_spline (NF.realX e) c S params true hk1 hk2, elTransform_lin_tails _ c hk ht]
  cases hr : tailsWrap (NF.realX e) (c.ds.getD 0 0.0) xi
      (fun box => linSpline (NF.realX e) box 1e-6 (condSlice (NF.realX e) c.mult Ft S params b t s) false xi) with
  | error err => rw [hr] at hf; simp [Except.map] at hf
  | ok v =>
    obtain ⟨y', l'⟩ := v
    rw [hr] at hf
    simp only [Except.map, Except.ok.injEq, Prod.mk.injEq] at hf
    obtain ⟨rfl, rfl, rfl⟩ := hf
    rw [linTails_real_invertible e _ _ _ hneg (hv b t s hb ht' hs).1 (hv b t s hb ht' hs).2 hr]
    exact ⟨[], rfl⟩

/-- **C02 (executed bounded linear coupling layer over the reals)** -/
theorem coupling_lin_roundtrip_real (c : ElCfg) (hk : c.kind = "lin") (ht : c.tails = false)
    (mask : List ℝ) (B S : Nat) (x params uparams uparams' : Array ℝ)
    (hv : LinParamsValid e c (transformIdx (NF.realX e) mask).length S params B)
    (herr : (couplingApply (NF.realX e) c mask B S x params false none uparams).err = none)
    (hsz : B * mask.length * S ≤ x.size) :
    let fwd := couplingApply (NF.realX e) c mask B S x params false none uparams
    let inv := couplingApply (NF.realX e) c mask B S fwd.out params true none uparams'
    inv.out = x ∧ inv.err = none ∧ inv.condIn = fwd.condIn ∧ ∀ b, b < B → inv.ld[b]? = (fwd.ld[b]?).map (fun l => -l) :=
  coupling_inverse_forward_real e c mask B S x params uparams uparams'
    (elInvertible_lin_real e c hk ht _ S params B hv) herr hsz

/-- **C02 (executed linear coupling layer with linear tails over the reals)** -/
theorem coupling_lin_tails_roundtrip_real (c : ElCfg) (hk : c.kind = "lin") (ht : c.tails = true)
    (hneg : e (-(c.ds.getD 0 0.0)) = - e (c.ds.getD 0 0.0))
    (mask : List ℝ) (B S : Nat) (x params uparams uparams' : Array ℝ)
    (hv : LinTailsParamsValid e c (transformIdx (NF.realX e) mask).length S params B)
    (herr : (couplingApply (NF.realX e) c mask B S x params false none uparams).err = none)
    (hsz : B * mask.length * S ≤ x.size) :
    let fwd := couplingApply (NF.realX e) c mask B S x params false none uparams
    let inv := couplingApply (NF.realX e) c mask B S fwd.out params true none uparams'
    inv.out = x ∧ inv.err = none ∧ inv.condIn = fwd.condIn ∧ ∀ b, b < B → inv.ld[b]? = (fwd.ld[b]?).map (fun l => -l) :=
  coupling_inverse_forward_real e c mask B S x params uparams uparams'
    (elInvertible_lin_tails_real e c hk ht hneg _ S params B hv) herr hsz

end structureLayer

/-! ## non-vacuity of the tails statements: tail bound `1.0` (box `[−1,1]²`), EVERY non-empty parameter vector, the
reading `eTT` of `StructureExecQuad` (it sends `-1.0 ↦ −1`, so `hneg` holds) -/

section nonVacuity
open NF.StructureExec

private theorem fn0 : ((-(1.0):Float) == 0.0) = false := by decide +kernel
private theorem fn5 : ((-(1.0):Float) == 0.5) = false := by decide +kernel
private theorem fnn : ((-(1.0):Float) == -(1.0)) = true := by decide +kernel
private theorem f10 : ((1.0:Float) == 0.0) = false := by decide +kernel
private theorem f15 : ((1.0:Float) == 0.5) = false := by decide +kernel
private theorem f1n : ((1.0:Float) == -(1.0)) = false := by decide +kernel
private theorem f12 : ((1.0:Float) == 2.0) = false := by decide +kernel
private theorem fd0 : (((1.0:Float) - -(1.0)) == 0.0) = false := by decide +kernel
private theorem fd5 : (((1.0:Float) - -(1.0)) == 0.5) = false := by decide +kernel
private theorem fdn : (((1.0:Float) - -(1.0)) == -(1.0)) = false := by decide +kernel
private theorem fd2 : (((1.0:Float) - -(1.0)) == 2.0) = true := by decide +kernel
private theorem fe0 : ((1e-6:Float) == 0.0) = false := by decide +kernel
private theorem fe5 : ((1e-6:Float) == 0.5) = false := by decide +kernel
private theorem fen : ((1e-6:Float) == -(1.0)) = false := by decide +kernel
private theorem fe2 : ((1e-6:Float) == 2.0) = false := by decide +kernel

theorem valid_tails_box (up : List ℝ) (hK : up ≠ []) : LinValid eTT (tbox 1.0) 1e-6 up where
  hK := hK
  hlr := by simp [tbox, eTT, fn0, fn5, fnn, f10, f15, f1n, f12]
  hdlr := by simp [tbox, eTT, fn0, fn5, fnn, f10, f15, f1n, f12, fd0, fd5, fdn, fd2]; norm_num
  hbt := by simp [tbox, eTT, fn0, fn5, fnn, f10, f15, f1n, f12]
  hdbt := by simp [tbox, eTT, fn0, fn5, fnn, f10, f15, f1n, f12, fd0, fd5, fdn, fd2]; norm_num
  heps := by simp [eTT, fe0, fe5, fen, fe2]

/-- the whole-line statement instantiated: three bins, tail bound 1 -/
theorem tails_example :
    StrictMono (wrapVal eTT 1.0 (linP eTT 1e-6 [0, 1, -1])) ∧ Function.Bijective (wrapVal eTT 1.0 (linP eTT 1e-6 [0, 1, -1])) ∧
    ∀ x, wrapVal eTT 1.0 (linPI eTT 1e-6 [0, 1, -1]) (wrapVal eTT 1.0 (linP eTT 1e-6 [0, 1, -1]) x) = x := by
  have hv := valid_tails_box [0, 1, -1] (by simp)
  have hw := lin_tails_whole hv eTT_neg
  exact ⟨hw.2.1, hw.2.2.2.1, lin_tails_inv_val hv eTT_neg⟩

end nonVacuity

end
end LinTails
