import Mathlib.Analysis.SpecialFunctions.Log.Basic
import Mathlib.Algebra.BigOperators.Pi
import Mathlib.Algebra.BigOperators.Ring.Finset
import Mathlib.Data.Fintype.BigOperators
import Mathlib.Tactic

namespace Bernoulli


noncomputable section
open Real

def softplus (l : ℝ) : ℝ := Real.log (1 + Real.exp l)

/-- per-feature log-likelihood as coded (discrete.py:54): -x·softplus(-l) - (1-x)·softplus(l), x ∈ {0,1} -/
def ind (x : Bool) : ℝ := if x then 1 else 0
def bernLogp (l : ℝ) (x : Bool) : ℝ := -(ind x) * softplus (-l) - (1 - ind x) * softplus l

theorem exp_neg_softplus (l : ℝ) : Real.exp (- softplus l) = 1 / (1 + Real.exp l) := by
  unfold softplus
  rw [Real.exp_neg, Real.exp_log (by positivity)]; simp

theorem bern_two (l : ℝ) : Real.exp (bernLogp l true) + Real.exp (bernLogp l false) = 1 := by
  simp only [bernLogp, ind, if_true, Bool.false_eq_true, if_false]
  have e1 : -(1:ℝ) * softplus (-l) - (1 - 1) * softplus l = - softplus (-l) := by ring
  have e2 : -(0:ℝ) * softplus (-l) - (1 - 0) * softplus l = - softplus l := by ring
  rw [e1, e2, exp_neg_softplus, exp_neg_softplus, Real.exp_neg]
  have : (0:ℝ) < Real.exp l := Real.exp_pos l
  field_simp
  ring

/-- D independent features: total probability one (exact summation over {0,1}^D) -/
theorem bernoulli_sum_one {D : ℕ} (logits : Fin D → ℝ) :
    ∑ x : Fin D → Bool, Real.exp (∑ i, bernLogp (logits i) (x i)) = 1 := by
  have h1 : ∀ x : Fin D → Bool, Real.exp (∑ i, bernLogp (logits i) (x i)) = ∏ i, Real.exp (bernLogp (logits i) (x i)) :=
    fun x => Real.exp_sum _ _
  simp_rw [h1]
  rw [← Fintype.prod_sum (fun i (b : Bool) => Real.exp (bernLogp (logits i) b))]
  apply Finset.prod_eq_one
  intro i _
  rw [Fintype.sum_bool]
  exact bern_two (logits i)


end
end Bernoulli
