import NflowsModel.Lemmas.RowErr
import NflowsModel.Lemmas.NonlinExec
import NflowsModel.Properties.C17
import NflowsModel.Lemmas.LinTails
import Mathlib.Tactic
/-!
# Lemmas/BatchErr — the batch-level `err` field of the executed layers, element by element (C17 findings 4/5, C12 finding 3)

The property "domain-restricted transforms raise `InputOutsideDomain` when ANY input of the batch is outside; in-domain inputs
never fail, for any batch size / position" was proved per element only.  Here: theorems about the EXECUTED layer loops
`cdfApply`, `arApply`, `couplingApply`, `nonlinApply` (`Core/Structure.lean`).  §1–§5 are generic in `o : XOps α` (pure list
facts: they hold at `Float` / `Float32` / ℝ alike); §6–§7 are over `NF.realX e`.

* §1 `firstErr_eq_some_iff(')`, `firstErr_eq_none_iff`, `firstErr_some_mem`, `firstErr_isSome_iff`; grids in iteration order
  `grid2` / `grid3`, `firstErr_grid{2,3}_{some,none}` (first error in lexicographic order `Lex2` / `Lex3`).
* §2 `cdf_err_{some,none,isSome}_iff`, `ar_err_{some,none,isSome}_iff` (via `elemwise_err_*`).
* §3 coupling: `coupling_err_{none,some,isSome}_iff_el` (no unconditional transform) and
  `coupling_uc_err_{none,some,isSome}_iff_el` (unconditional pass of ALL rows scanned first, then the conditional pass).
* §4 `nonlinApply_err_{eq,none_iff,some_iff,isSome_iff}` for every scalar type (the `for` loop).
* §5 domain form: `outside` (the guard), `Bounded`, `elTransform_rejects_outside`, `grid{2,3}_domain`,
  `{cdf,ar,coupling}_raises_of_outside`, `{cdf,ar,coupling}_err_outside_iff`.
* §6 reals: `outside_real(_false)`, `cdf_err_outside_iff_real`; the bounded LINEAR family fully discharged:
  `LinCfgValid`, `lin_el_ok`, `cdf_lin_err_iff`, `ar_lin_err_iff`, `coupling_lin_err_iff`.
* §7 tails: `quad_tails_total`, `lin_tails_total`, `cubic_tails_total` (element, both directions, every real);
  `LinTailsCfgValid`, `QuadTailsCfgValid` (K ≥ 2, finding F27) and `{coupling,ar,cdf}_{lin,quad}_tails_err_none`.
* §8 witnesses: `linCfgValid_example`, `linTailsCfgValid_example`, `quadTailsCfgValid_example`, the audit's `[0.25, 7.0]`
  experiment as theorems (ℝ and binary64).
-/
open NF

namespace NF.BatchErr
open NF.StructureExec NF.RowErr
variable {α : Type}

/-! ## 1. `firstErr`: the first error in iteration order -/

/-- the error an element outcome carries -/
def errOfR {β : Type} (r : Except Err β) : Option Err := match r with | .error e => some e | .ok _ => none

theorem firstErr_def (rs : List (ElRes α)) : firstErr rs = rs.findSome? errOfR := by
  unfold firstErr
  congr 1
  funext r
  cases r <;> rfl

theorem errOfR_eq_some {β : Type} {r : Except Err β} {e : Err} : errOfR r = some e ↔ r = .error e := by
  cases r <;> simp [errOfR]

theorem errOfR_eq_none {β : Type} {r : Except Err β} : errOfR r = none ↔ ∃ v, r = .ok v := by
  cases r <;> simp [errOfR]

/-- `findSome?` returns the value of the first position where the function is defined -/
theorem findSome?_eq_some_idx {β δ : Type} (l : List β) (f : β → Option δ) (e : δ) :
    l.findSome? f = some e ↔
      ∃ (k : Nat) (a : β), l[k]? = some a ∧ f a = some e ∧ ∀ (j : Nat) (a' : β), j < k → l[j]? = some a' → f a' = none := by
  induction l with
  | nil => simp
  | cons a l ih =>
    rw [List.findSome?_cons]
    cases hfa : f a with
    | some d =>
      simp only [Option.some.injEq]
      constructor
      · rintro rfl
        exact ⟨0, a, rfl, hfa, fun j a' hj _ => absurd hj (Nat.not_lt_zero j)⟩
      · rintro ⟨k, a', hk, hfe, hmin⟩
        cases k with
        | zero =>
          simp only [List.getElem?_cons_zero, Option.some.injEq] at hk
          subst hk
          rw [hfa] at hfe
          exact Option.some.inj hfe
        | succ k =>
          have := hmin 0 a (Nat.succ_pos k) rfl
          rw [hfa] at this
          exact absurd this (by simp)
    | none =>
      simp only
      rw [ih]
      constructor
      · rintro ⟨k, a', hk, hfe, hmin⟩
        refine ⟨k + 1, a', by simpa using hk, hfe, ?_⟩
        intro j a'' hj hja
        cases j with
        | zero =>
          simp only [List.getElem?_cons_zero, Option.some.injEq] at hja
          subst hja
          exact hfa
        | succ j =>
          exact hmin j a'' (Nat.lt_of_succ_lt_succ hj) (by simpa using hja)
      · rintro ⟨k, a', hk, hfe, hmin⟩
        cases k with
        | zero =>
          simp only [List.getElem?_cons_zero, Option.some.injEq] at hk
          subst hk
          rw [hfa] at hfe
          exact absurd hfe (by simp)
        | succ k =>
          refine ⟨k, a', by simpa using hk, hfe, ?_⟩
          intro j a'' hj hja
          exact hmin (j + 1) a'' (Nat.succ_lt_succ hj) (by simpa using hja)

/-- **the error reported is the FIRST one in iteration order**: position `k` holds `.error e` and every earlier position is
    `.ok` -/
theorem firstErr_eq_some_iff (rs : List (ElRes α)) (e : Err) :
    firstErr rs = some e ↔
      ∃ k : Nat, rs[k]? = some (Except.error e) ∧ ∀ j : Nat, j < k → ∃ v, rs[j]? = some (Except.ok v) := by
  rw [firstErr_def, findSome?_eq_some_idx]
  constructor
  · rintro ⟨k, a, hk, hfe, hmin⟩
    rw [errOfR_eq_some] at hfe
    subst hfe
    refine ⟨k, hk, ?_⟩
    intro j hj
    have hjl : j < rs.length := lt_trans hj (List.getElem?_eq_some_iff.1 hk).1
    obtain ⟨v, hv⟩ := errOfR_eq_none.1 (hmin j rs[j] hj (List.getElem?_eq_getElem hjl))
    exact ⟨v, by rw [List.getElem?_eq_getElem hjl, hv]⟩
  · rintro ⟨k, hk, hmin⟩
    refine ⟨k, _, hk, errOfR_eq_some.2 rfl, ?_⟩
    intro j a' hj hja
    obtain ⟨v, hv⟩ := hmin j hj
    rw [hja] at hv
    exact errOfR_eq_none.2 ⟨v, Option.some.inj hv⟩

/-- the same with bounded indices -/
theorem firstErr_eq_some_iff' (rs : List (ElRes α)) (e : Err) :
    firstErr rs = some e ↔
      ∃ k : Nat, ∃ hk : k < rs.length, rs[k] = Except.error e ∧ ∀ j : Nat, (hj : j < k) → ∃ v, rs[j]'(lt_trans hj hk) = Except.ok v := by
  rw [firstErr_eq_some_iff]
  constructor
  · rintro ⟨k, hk, hmin⟩
    obtain ⟨hkl, hke⟩ := List.getElem?_eq_some_iff.1 hk
    refine ⟨k, hkl, hke, ?_⟩
    intro j hj
    obtain ⟨v, hv⟩ := hmin j hj
    exact ⟨v, (List.getElem?_eq_some_iff.1 hv).2⟩
  · rintro ⟨k, hkl, hke, hmin⟩
    refine ⟨k, by rw [List.getElem?_eq_getElem hkl, hke], ?_⟩
    intro j hj
    obtain ⟨v, hv⟩ := hmin j hj
    exact ⟨v, by rw [List.getElem?_eq_getElem (lt_trans hj hkl), hv]⟩

/-- no error is reported iff every outcome is `.ok` -/
theorem firstErr_eq_none_iff (rs : List (ElRes α)) : firstErr rs = none ↔ ∀ r ∈ rs, ∃ v, r = .ok v :=
  firstErr_eq_none rs

/-- the reported error was raised by some element -/
theorem firstErr_some_mem {rs : List (ElRes α)} {e : Err} (h : firstErr rs = some e) : ∃ r ∈ rs, r = .error e := by
  obtain ⟨k, hk, _⟩ := (firstErr_eq_some_iff rs e).1 h
  exact ⟨_, List.mem_of_getElem? hk, rfl⟩

/-- **an error is reported iff some element raised** -/
theorem firstErr_isSome_iff (rs : List (ElRes α)) :
    (∃ e, firstErr rs = some e) ↔ ∃ r ∈ rs, ∃ e, r = .error e := by
  constructor
  · rintro ⟨e, h⟩
    obtain ⟨r, hr, hre⟩ := firstErr_some_mem h
    exact ⟨r, hr, e, hre⟩
  · rintro ⟨r, hr, e, rfl⟩
    cases h : firstErr rs with
    | some e' => exact ⟨e', rfl⟩
    | none =>
      obtain ⟨v, hv⟩ := (firstErr_eq_none rs).1 h _ hr
      cases hv

theorem firstErr_ne_none_iff (rs : List (ElRes α)) :
    firstErr rs ≠ none ↔ ∃ r ∈ rs, ∃ e, r = .error e := by
  rw [← firstErr_isSome_iff, Option.ne_none_iff_exists']

/-! ### grids in iteration order -/

theorem findSome?_range_eq_some {δ : Type} (g : Nat → Option δ) (B : Nat) (e : δ) :
    (List.range B).findSome? g = some e ↔ ∃ b, b < B ∧ g b = some e ∧ ∀ b', b' < b → g b' = none := by
  rw [findSome?_eq_some_idx]
  have hr : ∀ k a, (List.range B)[k]? = some a ↔ k < B ∧ a = k := by
    intro k a
    rw [List.getElem?_eq_some_iff]
    simp only [List.length_range, List.getElem_range]
    constructor
    · rintro ⟨h, rfl⟩; exact ⟨h, rfl⟩
    · rintro ⟨h, rfl⟩; exact ⟨h, rfl⟩
  constructor
  · rintro ⟨k, a, hk, hfe, hmin⟩
    obtain ⟨hkB, rfl⟩ := (hr k a).1 hk
    exact ⟨a, hkB, hfe, fun b' hb' => hmin b' b' hb' ((hr b' b').2 ⟨lt_trans hb' hkB, rfl⟩)⟩
  · rintro ⟨b, hb, hfe, hmin⟩
    refine ⟨b, b, (hr b b).2 ⟨hb, rfl⟩, hfe, ?_⟩
    intro j a' hj hja
    obtain ⟨_, rfl⟩ := (hr j a').1 hja
    exact hmin a' hj


theorem findSome?_range_eq_none {δ : Type} (g : Nat → Option δ) (B : Nat) :
    (List.range B).findSome? g = none ↔ ∀ b, b < B → g b = none := by
  rw [List.findSome?_eq_none_iff]
  simp only [List.mem_range]

/-- the first error of a list of rows: row `b` is the first row with an error, and that error is the row's first -/
theorem firstErr_rows_eq_some (B : Nat) (L : Nat → List (ElRes α)) (e : Err) :
    firstErr ((List.range B).flatMap L) = some e
      ↔ ∃ b, b < B ∧ firstErr (L b) = some e ∧ ∀ b', b' < b → firstErr (L b') = none := by
  rw [firstErr_flatMap, findSome?_range_eq_some]

theorem firstErr_rows_eq_none (B : Nat) (L : Nat → List (ElRes α)) :
    firstErr ((List.range B).flatMap L) = none ↔ ∀ b, b < B → firstErr (L b) = none := by
  rw [firstErr_flatMap, findSome?_range_eq_none]

theorem firstErr_range_map_eq_some (n : Nat) (f : Nat → ElRes α) (e : Err) :
    firstErr ((List.range n).map f) = some e
      ↔ ∃ i, i < n ∧ f i = .error e ∧ ∀ i', i' < i → ∃ v, f i' = .ok v := by
  rw [firstErr_def, List.findSome?_map, findSome?_range_eq_some]
  simp only [Function.comp, errOfR_eq_some, errOfR_eq_none]

theorem firstErr_range_map_eq_none (n : Nat) (f : Nat → ElRes α) :
    firstErr ((List.range n).map f) = none ↔ ∀ i, i < n → ∃ v, f i = .ok v := by
  rw [firstErr_def, List.findSome?_map, findSome?_range_eq_none]
  simp only [Function.comp, errOfR_eq_none]

/-- a `[B, n]` grid of outcomes in iteration order `for b for i` -/
def grid2 (B n : Nat) (f : Nat → Nat → ElRes α) : List (ElRes α) :=
  (List.range B).flatMap fun b => (List.range n).map (f b)

/-- `(b', i')` is visited before `(b, i)` -/
def Lex2 (b' i' b i : Nat) : Prop := b' < b ∨ (b' = b ∧ i' < i)

/-- a `[B, n, S]` grid of outcomes in iteration order `for b for t for s` -/
def grid3 (B n S : Nat) (f : Nat → Nat → Nat → ElRes α) : List (ElRes α) :=
  (List.range B).flatMap fun b => grid2 n S (f b)

/-- `(b', t', s')` is visited before `(b, t, s)` -/
def Lex3 (b' t' s' b t s : Nat) : Prop := b' < b ∨ (b' = b ∧ Lex2 t' s' t s)

theorem firstErr_grid2_none (B n : Nat) (f : Nat → Nat → ElRes α) :
    firstErr (grid2 B n f) = none ↔ ∀ b i, b < B → i < n → ∃ v, f b i = .ok v := by
  unfold grid2
  rw [firstErr_rows_eq_none]
  simp only [firstErr_range_map_eq_none]
  exact ⟨fun h b i hb hi => h b hb i hi, fun h b hb i hi => h b i hb hi⟩

/-- **first error of a two-level loop**: the element `(b, i)` that raised `e` is the first, in iteration order, that raised -/
theorem firstErr_grid2_some (B n : Nat) (f : Nat → Nat → ElRes α) (e : Err) :
    firstErr (grid2 B n f) = some e
      ↔ ∃ b i, b < B ∧ i < n ∧ f b i = .error e ∧
          ∀ b' i', b' < B → i' < n → Lex2 b' i' b i → ∃ v, f b' i' = .ok v := by
  unfold grid2
  rw [firstErr_rows_eq_some]
  simp only [firstErr_range_map_eq_some, firstErr_range_map_eq_none]
  constructor
  · rintro ⟨b, hb, ⟨i, hi, hfe, hmin⟩, hrows⟩
    refine ⟨b, i, hb, hi, hfe, ?_⟩
    rintro b' i' hb' hi' (hlt | ⟨rfl, hlt⟩)
    · exact hrows b' hlt i' hi'
    · exact hmin i' hlt
  · rintro ⟨b, i, hb, hi, hfe, hmin⟩
    refine ⟨b, hb, ⟨i, hi, hfe, fun i' hi' => hmin b i' hb (lt_trans hi' hi) (Or.inr ⟨rfl, hi'⟩)⟩, ?_⟩
    intro b' hb' i' hi'
    exact hmin b' i' (lt_trans hb' hb) hi' (Or.inl hb')

theorem firstErr_grid3_none (B n S : Nat) (f : Nat → Nat → Nat → ElRes α) :
    firstErr (grid3 B n S f) = none ↔ ∀ b t s, b < B → t < n → s < S → ∃ v, f b t s = .ok v := by
  unfold grid3
  rw [firstErr_rows_eq_none]
  simp only [firstErr_grid2_none]
  exact ⟨fun h b t s hb ht hs => h b hb t s ht hs, fun h b hb t s ht hs => h b t s hb ht hs⟩

/-- **first error of a three-level loop** -/
theorem firstErr_grid3_some (B n S : Nat) (f : Nat → Nat → Nat → ElRes α) (e : Err) :
    firstErr (grid3 B n S f) = some e
      ↔ ∃ b t s, b < B ∧ t < n ∧ s < S ∧ f b t s = .error e ∧
          ∀ b' t' s', b' < B → t' < n → s' < S → Lex3 b' t' s' b t s → ∃ v, f b' t' s' = .ok v := by
  unfold grid3
  rw [firstErr_rows_eq_some]
  simp only [firstErr_grid2_some, firstErr_grid2_none]
  constructor
  · rintro ⟨b, hb, ⟨t, s, ht, hs, hfe, hmin⟩, hrows⟩
    refine ⟨b, t, s, hb, ht, hs, hfe, ?_⟩
    rintro b' t' s' hb' ht' hs' (hlt | ⟨rfl, hlt⟩)
    · exact hrows b' hlt t' s' ht' hs'
    · exact hmin t' s' ht' hs' hlt
  · rintro ⟨b, t, s, hb, ht, hs, hfe, hmin⟩
    refine ⟨b, hb, ⟨t, s, ht, hs, hfe, fun t' s' ht' hs' hl => hmin b t' s' hb ht' hs' (Or.inr ⟨rfl, hl⟩)⟩, ?_⟩
    intro b' hb' t' s' ht' hs'
    exact hmin b' t' s' (lt_trans hb' hb) ht' hs' (Or.inl hb')

theorem firstErr_isSome_grid2 (B n : Nat) (f : Nat → Nat → ElRes α) :
    (∃ e, firstErr (grid2 B n f) = some e) ↔ ∃ b i, b < B ∧ i < n ∧ ∃ e, f b i = .error e := by
  constructor
  · rintro ⟨e, h⟩
    obtain ⟨b, i, hb, hi, hfe, _⟩ := (firstErr_grid2_some B n f e).1 h
    exact ⟨b, i, hb, hi, e, hfe⟩
  · rintro ⟨b, i, hb, hi, e, hfe⟩
    cases h : firstErr (grid2 B n f) with
    | some e' => exact ⟨e', rfl⟩
    | none =>
      obtain ⟨v, hv⟩ := (firstErr_grid2_none B n f).1 h b i hb hi
      rw [hfe] at hv; cases hv

theorem firstErr_isSome_grid3 (B n S : Nat) (f : Nat → Nat → Nat → ElRes α) :
    (∃ e, firstErr (grid3 B n S f) = some e) ↔ ∃ b t s, b < B ∧ t < n ∧ s < S ∧ ∃ e, f b t s = .error e := by
  constructor
  · rintro ⟨e, h⟩
    obtain ⟨b, t, s, hb, ht, hs, hfe, _⟩ := (firstErr_grid3_some B n S f e).1 h
    exact ⟨b, t, s, hb, ht, hs, e, hfe⟩
  · rintro ⟨b, t, s, hb, ht, hs, e, hfe⟩
    cases h : firstErr (grid3 B n S f) with
    | some e' => exact ⟨e', rfl⟩
    | none =>
      obtain ⟨v, hv⟩ := (firstErr_grid3_none B n S f).1 h b t s hb ht hs
      rw [hfe] at hv; cases hv

/-! ## 2. The element-wise passes `cdfApply`, `arApply` -/

section elemwise
variable (o : XOps α)

theorem elemwise_err_eq_grid (B n : Nat) (el : Nat → Nat → ElRes α) :
    (elemwiseResult o B n el).err = firstErr (grid2 B n el) := by
  simp only [elemwiseResult, List.map_flatMap, List.map_map]
  rfl

/-- **the error of an element-wise pass is the error of the FIRST element, in iteration order, that raised** -/
theorem elemwise_err_some_iff (B n : Nat) (el : Nat → Nat → ElRes α) (e : Err) :
    (elemwiseResult o B n el).err = some e
      ↔ ∃ b i, b < B ∧ i < n ∧ el b i = .error e ∧
          ∀ b' i', b' < B → i' < n → Lex2 b' i' b i → ∃ v, el b' i' = .ok v := by
  rw [elemwise_err_eq_grid, firstErr_grid2_some]

theorem elemwise_err_none_iff (B n : Nat) (el : Nat → Nat → ElRes α) :
    (elemwiseResult o B n el).err = none ↔ ∀ b i, b < B → i < n → ∃ v, el b i = .ok v := by
  rw [elemwise_err_eq_grid, firstErr_grid2_none]

/-- an error is reported iff some element raised -/
theorem elemwise_err_isSome_iff (B n : Nat) (el : Nat → Nat → ElRes α) :
    (∃ e, (elemwiseResult o B n el).err = some e) ↔ ∃ b i, b < B ∧ i < n ∧ ∃ e, el b i = .error e := by
  rw [elemwise_err_eq_grid, firstErr_isSome_grid2]

variable (c : ElCfg)

/-- **`Piecewise*CDF`, any batch size, any position**: the layer reports `e` iff some element `(b, i)` raised `e` and every
    element visited before it ran -/
theorem cdf_err_some_iff (B n : Nat) (x params : Array α) (inv : Bool) (e : Err) :
    (cdfApply o c B n x params inv).err = some e
      ↔ ∃ b i, b < B ∧ i < n ∧ cdfEl o c n x params inv b i = .error e ∧
          ∀ b' i', b' < B → i' < n → Lex2 b' i' b i → ∃ v, cdfEl o c n x params inv b' i' = .ok v :=
  elemwise_err_some_iff o B n _ e

/-- the layer is accepted iff every element of every row ran -/
theorem cdf_err_none_iff (B n : Nat) (x params : Array α) (inv : Bool) :
    (cdfApply o c B n x params inv).err = none
      ↔ ∀ b i, b < B → i < n → ∃ v, cdfEl o c n x params inv b i = .ok v :=
  elemwise_err_none_iff o B n _

/-- the layer raises iff ANY element of the batch raises -/
theorem cdf_err_isSome_iff (B n : Nat) (x params : Array α) (inv : Bool) :
    (∃ e, (cdfApply o c B n x params inv).err = some e)
      ↔ ∃ b i, b < B ∧ i < n ∧ ∃ e, cdfEl o c n x params inv b i = .error e :=
  elemwise_err_isSome_iff o B n _

/-- **one autoregressive element-wise pass** -/
theorem ar_err_some_iff (B F : Nat) (x params : Array α) (inv : Bool) (e : Err) :
    (arApply o c B F x params inv).err = some e
      ↔ ∃ b i, b < B ∧ i < F ∧ arEl o c F x params inv b i = .error e ∧
          ∀ b' i', b' < B → i' < F → Lex2 b' i' b i → ∃ v, arEl o c F x params inv b' i' = .ok v :=
  elemwise_err_some_iff o B F _ e

theorem ar_err_none_iff (B F : Nat) (x params : Array α) (inv : Bool) :
    (arApply o c B F x params inv).err = none
      ↔ ∀ b i, b < B → i < F → ∃ v, arEl o c F x params inv b i = .ok v :=
  elemwise_err_none_iff o B F _

theorem ar_err_isSome_iff (B F : Nat) (x params : Array α) (inv : Bool) :
    (∃ e, (arApply o c B F x params inv).err = some e)
      ↔ ∃ b i, b < B ∧ i < F ∧ ∃ e, arEl o c F x params inv b i = .error e :=
  elemwise_err_isSome_iff o B F _

end elemwise


/-! ## 3. The coupling layer: unconditional pass of all rows first, then the conditional pass of all rows -/

section coupling
variable (o : XOps α) (c : ElCfg) (mask : List α) (B S : Nat) (x params : Array α) (inverse : Bool)
  (uparams : Array α)

/-- outcome of the conditional element `(b, tpos, s)` of the layer (reads the layer input) -/
def condElAt (b t s : Nat) : ElRes α :=
  couplingEl o c (transformIdx o mask).length S params inverse b t s
    (x.getD (flatIdx mask.length S b ((transformIdx o mask).getD t 0) s) o.zero)

/-- outcome of the unconditional element `(b, ipos, s)` (identity features; parameters shared across the batch) -/
def ucElAt (ucfg : ElCfg) (b t s : Nat) : ElRes α :=
  elTransform o ucfg inverse (ucSlice o ucfg.mult S uparams t s)
    (x.getD (flatIdx mask.length S b ((identityIdx o mask).getD t 0) s) o.zero)

theorem tRow_results (C : Nat) (idx : List Nat) (el : Nat → Nat → α → ElRes α) (b : Nat) :
    (tRow o C S idx x el b).map (·.2)
      = grid2 idx.length S (fun t s => el t s (x.getD (flatIdx C S b (idx.getD t 0) s) o.zero)) := by
  simp only [tRow, rowIter, grid2, List.map_flatMap, List.map_map]
  rfl

theorem condAll_results :
    (condAll o c mask B S x params inverse).map (·.2)
      = grid3 B (transformIdx o mask).length S (condElAt o c mask S x params inverse) := by
  simp only [condAll, condRow, grid3, List.map_flatMap, tRow_results]
  rfl

theorem ucAll_results (ucfg : ElCfg) :
    (ucAll o mask B S x inverse (some ucfg) uparams).map (·.2)
      = grid3 B (identityIdx o mask).length S (ucElAt o mask S x inverse uparams ucfg) := by
  simp only [ucAll, ucRow, grid3, List.map_flatMap, tRow_results]
  rfl

/-- the error of the coupling layer without unconditional transform -/
theorem coupling_err_eq_grid_none :
    (couplingApply o c mask B S x params inverse none uparams).err
      = firstErr (grid3 B (transformIdx o mask).length S (condElAt o c mask S x params inverse)) := by
  rw [coupling_err_eq, ucAll_none, List.nil_append, condAll_results]

/-- the error of the coupling layer with an unconditional transform: the unconditional pass of ALL rows is scanned first -/
theorem coupling_err_eq_grid_some (ucfg : ElCfg) :
    (couplingApply o c mask B S x params inverse (some ucfg) uparams).err
      = (firstErr (grid3 B (identityIdx o mask).length S (ucElAt o mask S x inverse uparams ucfg))).or
          (firstErr (grid3 B (transformIdx o mask).length S (condElAt o c mask S x params inverse))) := by
  rw [coupling_err_eq, List.map_append, firstErr_append, condAll_results, ucAll_results]

/-- **coupling layer, no unconditional transform: accepted iff every conditional element ran** -/
theorem coupling_err_none_iff_el :
    (couplingApply o c mask B S x params inverse none uparams).err = none
      ↔ ∀ b t s, b < B → t < (transformIdx o mask).length → s < S →
          ∃ v, condElAt o c mask S x params inverse b t s = .ok v := by
  rw [coupling_err_eq_grid_none, firstErr_grid3_none]

/-- **coupling layer: the reported error is the error of the first conditional element, in `(b, tpos, s)` order, that raised** -/
theorem coupling_err_some_iff_el (e : Err) :
    (couplingApply o c mask B S x params inverse none uparams).err = some e
      ↔ ∃ b t s, b < B ∧ t < (transformIdx o mask).length ∧ s < S ∧
          condElAt o c mask S x params inverse b t s = .error e ∧
          ∀ b' t' s', b' < B → t' < (transformIdx o mask).length → s' < S → Lex3 b' t' s' b t s →
            ∃ v, condElAt o c mask S x params inverse b' t' s' = .ok v := by
  rw [coupling_err_eq_grid_none, firstErr_grid3_some]

/-- the layer raises iff ANY element of the batch raises -/
theorem coupling_err_isSome_iff_el :
    (∃ e, (couplingApply o c mask B S x params inverse none uparams).err = some e)
      ↔ ∃ b t s, b < B ∧ t < (transformIdx o mask).length ∧ s < S ∧
          ∃ e, condElAt o c mask S x params inverse b t s = .error e := by
  rw [coupling_err_eq_grid_none, firstErr_isSome_grid3]

/-- **with an unconditional transform of the identity features: accepted iff every unconditional and every conditional
    element ran** -/
theorem coupling_uc_err_none_iff_el (ucfg : ElCfg) :
    (couplingApply o c mask B S x params inverse (some ucfg) uparams).err = none
      ↔ (∀ b t s, b < B → t < (identityIdx o mask).length → s < S →
            ∃ v, ucElAt o mask S x inverse uparams ucfg b t s = .ok v)
        ∧ (∀ b t s, b < B → t < (transformIdx o mask).length → s < S →
            ∃ v, condElAt o c mask S x params inverse b t s = .ok v) := by
  rw [coupling_err_eq_grid_some, Option.or_eq_none_iff, firstErr_grid3_none, firstErr_grid3_none]

/-- **first error, with an unconditional transform**: either the first unconditional element (in `(b, ipos, s)` order) that
    raised, or — when the whole unconditional pass ran — the first conditional element that raised -/
theorem coupling_uc_err_some_iff_el (ucfg : ElCfg) (e : Err) :
    (couplingApply o c mask B S x params inverse (some ucfg) uparams).err = some e
      ↔ (∃ b t s, b < B ∧ t < (identityIdx o mask).length ∧ s < S ∧
            ucElAt o mask S x inverse uparams ucfg b t s = .error e ∧
            ∀ b' t' s', b' < B → t' < (identityIdx o mask).length → s' < S → Lex3 b' t' s' b t s →
              ∃ v, ucElAt o mask S x inverse uparams ucfg b' t' s' = .ok v)
        ∨ ((∀ b t s, b < B → t < (identityIdx o mask).length → s < S →
              ∃ v, ucElAt o mask S x inverse uparams ucfg b t s = .ok v)
          ∧ ∃ b t s, b < B ∧ t < (transformIdx o mask).length ∧ s < S ∧
            condElAt o c mask S x params inverse b t s = .error e ∧
            ∀ b' t' s', b' < B → t' < (transformIdx o mask).length → s' < S → Lex3 b' t' s' b t s →
              ∃ v, condElAt o c mask S x params inverse b' t' s' = .ok v) := by
  rw [coupling_err_eq_grid_some, Option.or_eq_some_iff, firstErr_grid3_some, firstErr_grid3_none, firstErr_grid3_some]

/-- the layer raises iff ANY unconditional or conditional element raises -/
theorem coupling_uc_err_isSome_iff_el (ucfg : ElCfg) :
    (∃ e, (couplingApply o c mask B S x params inverse (some ucfg) uparams).err = some e)
      ↔ (∃ b t s, b < B ∧ t < (identityIdx o mask).length ∧ s < S ∧
            ∃ e, ucElAt o mask S x inverse uparams ucfg b t s = .error e)
        ∨ (∃ b t s, b < B ∧ t < (transformIdx o mask).length ∧ s < S ∧
            ∃ e, condElAt o c mask S x params inverse b t s = .error e) := by
  rw [← firstErr_isSome_grid3, ← firstErr_isSome_grid3, coupling_err_eq_grid_some]
  cases h1 : firstErr (grid3 B (identityIdx o mask).length S (ucElAt o mask S x inverse uparams ucfg)) <;>
    simp

end coupling


/-! ## 4. The element-wise non-linearity layer `nonlinApply` (a `for` loop over the flat batch), any scalar type -/

section nonlin
variable (o : XOps α)

theorem nlStep_foldl_err (F : α → Except Err (α × α)) (l : List α) (st : Array α × Array α × Option Err) :
    (l.foldl (NonlinExec.nlStep o F) st).2.2 = st.2.2.or (l.findSome? fun xi => errOfR (F xi)) := by
  induction l generalizing st with
  | nil => simp
  | cons xi t ih =>
    rw [List.foldl_cons, ih, List.findSome?_cons]
    cases h : F xi with
    | ok p => simp [NonlinExec.nlStep, h, errOfR]
    | error er =>
      obtain ⟨a, b, c⟩ := st
      cases c <;> simp [NonlinExec.nlStep, h, errOfR]

/-- the error of the executed layer is the first element error in flat order -/
theorem nonlinApply_err_eq (kind : String) (ds : Array Float) (ps : List α) (B : Nat) (x : Array α) (inv : Bool) :
    (nonlinApply o kind ds ps B x inv).err = x.toList.findSome? fun xi => errOfR (nonlinEl o kind ds ps inv xi) := by
  rw [NonlinExec.nonlinApply_eq_fold, ← Array.foldl_toList]
  simp only
  rw [nlStep_foldl_err]
  rfl

/-- **`nonlinApply`, any scalar type: accepted iff every element ran** -/
theorem nonlinApply_err_none_iff (kind : String) (ds : Array Float) (ps : List α) (B : Nat) (x : Array α) (inv : Bool) :
    (nonlinApply o kind ds ps B x inv).err = none
      ↔ ∀ k, (hk : k < x.size) → ∃ r, nonlinEl o kind ds ps inv x[k] = .ok r := by
  rw [nonlinApply_err_eq, List.findSome?_eq_none_iff]
  simp only [errOfR_eq_none, Array.mem_toList_iff]
  constructor
  · intro h k hk; exact h _ (Array.getElem_mem hk)
  · intro h xi hxi
    obtain ⟨k, hk, rfl⟩ := Array.getElem_of_mem hxi
    exact h k hk

/-- **the error reported is that of the first element, in flat order, that raised** -/
theorem nonlinApply_err_some_iff (kind : String) (ds : Array Float) (ps : List α) (B : Nat) (x : Array α) (inv : Bool)
    (e : Err) :
    (nonlinApply o kind ds ps B x inv).err = some e
      ↔ ∃ k, ∃ hk : k < x.size, nonlinEl o kind ds ps inv x[k] = .error e ∧
          ∀ j, (hj : j < k) → ∃ r, nonlinEl o kind ds ps inv (x[j]'(lt_trans hj hk)) = .ok r := by
  rw [nonlinApply_err_eq, findSome?_eq_some_idx]
  constructor
  · rintro ⟨k, a, hk, hfe, hmin⟩
    rw [Array.getElem?_toList] at hk
    obtain ⟨hkl, rfl⟩ := Array.getElem?_eq_some_iff.1 hk
    refine ⟨k, hkl, errOfR_eq_some.1 hfe, ?_⟩
    intro j hj
    exact errOfR_eq_none.1 (hmin j _ hj (by rw [Array.getElem?_toList, Array.getElem?_eq_getElem (lt_trans hj hkl)]))
  · rintro ⟨k, hkl, hfe, hmin⟩
    refine ⟨k, x[k], by rw [Array.getElem?_toList, Array.getElem?_eq_getElem hkl], errOfR_eq_some.2 hfe, ?_⟩
    intro j a' hj hja
    rw [Array.getElem?_toList] at hja
    obtain ⟨hjl, rfl⟩ := Array.getElem?_eq_some_iff.1 hja
    exact errOfR_eq_none.2 (hmin j hj)

/-- the layer raises iff ANY element raises -/
theorem nonlinApply_err_isSome_iff (kind : String) (ds : Array Float) (ps : List α) (B : Nat) (x : Array α) (inv : Bool) :
    (∃ e, (nonlinApply o kind ds ps B x inv).err = some e)
      ↔ ∃ k, ∃ hk : k < x.size, ∃ e, nonlinEl o kind ds ps inv x[k] = .error e := by
  constructor
  · rintro ⟨e, h⟩
    obtain ⟨k, hk, hfe, _⟩ := (nonlinApply_err_some_iff o kind ds ps B x inv e).1 h
    exact ⟨k, hk, e, hfe⟩
  · rintro ⟨k, hk, e, hfe⟩
    cases h : (nonlinApply o kind ds ps B x inv).err with
    | some e' => exact ⟨e', rfl⟩
    | none =>
      obtain ⟨r, hr⟩ := (nonlinApply_err_none_iff o kind ds ps B x inv).1 h k hk
      rw [hfe] at hr; cases hr

end nonlin


/-! ## 5. Domain form: a bounded (non-tails) spline layer raises `InputOutsideDomain` iff SOME element of the batch lies
outside the interval of the requested direction -/

section domain
variable (o : XOps α)

/-- constant `k` of the configuration, as `elTransform` reads it -/
abbrev dsAt (c : ElCfg) (k : Nat) : Float := c.ds.getD k 0.0
/-- lower / upper end of the interval of the requested direction: `[left, right]` forward, `[bottom, top]` inverse -/
def loF (c : ElCfg) (inverse : Bool) : Float := if inverse then dsAt c 2 else dsAt c 0
def hiF (c : ElCfg) (inverse : Bool) : Float := if inverse then dsAt c 3 else dsAt c 1

/-- the comparison a bounded spline element makes on its input (the guard of `rqSpline` / `quadSpline` / `linSpline` /
    `cubicSpline`), in the scalar semantics `o` -/
def outside (c : ElCfg) (inverse : Bool) (x : α) : Bool :=
  o.lt x (o.ofFloat (loF c inverse)) || o.lt (o.ofFloat (hiF c inverse)) x

/-- a domain-restricted spline element: one of the four spline families, without tails -/
structure Bounded (c : ElCfg) : Prop where
  hk : c.kind = "rq" ∨ c.kind = "quad" ∨ c.kind = "lin" ∨ c.kind = "cubic"
  ht : c.tails = false

theorem Bounded.ne_affine {c : ElCfg} (hc : Bounded c) : c.kind ≠ "affine" ∧ c.kind ≠ "additive" := by
  rcases hc.hk with h | h | h | h <;> rw [h] <;> exact ⟨by decide, by decide⟩

/-- **one bounded spline element, any scalar type, any parameters: an input the guard classifies as outside is rejected
    with the domain error** (the dispatcher `elTransform` with its slicing and scaling included) -/
theorem elTransform_rejects_outside {c : ElCfg} (hc : Bounded c) (inverse : Bool) (p : List α) (x : α)
    (h : outside o c inverse x = true) : elTransform o c inverse p x = .error .outsideDomain := by
  have ht := hc.ht
  unfold outside loF hiF dsAt at h
  unfold elTransform
  rcases hsc : c.scaling with ⟨hid, sW, sH⟩
  rcases hc.hk with hk | hk | hk | hk
  · simp only [hk, ht, Bool.false_eq_true, if_false]
    rw [Properties.C17.rq_rejects_outside]
    · rfl
    · cases inverse <;> simpa using h
  · simp only [hk, ht, Bool.false_eq_true, if_false]
    rw [Properties.C17.quad_rejects_outside]
    · rfl
    · cases inverse <;> simpa using h
  · simp only [hk, ht, Bool.false_eq_true, if_false]
    rw [Properties.C17.lin_rejects_outside]
    · rfl
    · cases inverse <;> simpa using h
  · simp only [hk, ht, Bool.false_eq_true, if_false]
    rw [Properties.C17.cubic_rejects_outside]
    cases inverse <;> simpa using h

/-- first error of a two-level loop whose elements are rejected exactly where a guard `g` says so -/
theorem grid2_domain (B n : Nat) (f : Nat → Nat → ElRes α) (g : Nat → Nat → Bool)
    (hout : ∀ b i, b < B → i < n → g b i = true → f b i = .error .outsideDomain)
    (hin : ∀ b i, b < B → i < n → g b i = false → ∃ v, f b i = .ok v) :
    (firstErr (grid2 B n f) = some .outsideDomain ↔ ∃ b i, b < B ∧ i < n ∧ g b i = true)
    ∧ (firstErr (grid2 B n f) = none ↔ ∀ b i, b < B → i < n → g b i = false)
    ∧ (∀ e, firstErr (grid2 B n f) = some e → e = .outsideDomain) := by
  have hsome : ∀ e, firstErr (grid2 B n f) = some e → e = .outsideDomain ∧ ∃ b i, b < B ∧ i < n ∧ g b i = true := by
    intro e he
    obtain ⟨b, i, hb, hi, hfe, _⟩ := (firstErr_grid2_some B n f e).1 he
    cases hg : g b i with
    | false =>
      obtain ⟨v, hv⟩ := hin b i hb hi hg
      rw [hfe] at hv; cases hv
    | true =>
      have := hout b i hb hi hg
      rw [hfe] at this
      exact ⟨by injection this, b, i, hb, hi, hg⟩
  have hnone : firstErr (grid2 B n f) = none ↔ ∀ b i, b < B → i < n → g b i = false := by
    rw [firstErr_grid2_none]
    constructor
    · intro h b i hb hi
      cases hg : g b i with
      | false => rfl
      | true =>
        obtain ⟨v, hv⟩ := h b i hb hi
        rw [hout b i hb hi hg] at hv; cases hv
    · intro h b i hb hi
      exact hin b i hb hi (h b i hb hi)
  refine ⟨⟨fun h => (hsome _ h).2, ?_⟩, hnone, fun e he => (hsome e he).1⟩
  rintro ⟨b, i, hb, hi, hg⟩
  cases he : firstErr (grid2 B n f) with
  | none => rw [hnone.1 he b i hb hi] at hg; cases hg
  | some e' => rw [(hsome e' he).1]

/-- the same for a three-level loop -/
theorem grid3_domain (B n S : Nat) (f : Nat → Nat → Nat → ElRes α) (g : Nat → Nat → Nat → Bool)
    (hout : ∀ b t s, b < B → t < n → s < S → g b t s = true → f b t s = .error .outsideDomain)
    (hin : ∀ b t s, b < B → t < n → s < S → g b t s = false → ∃ v, f b t s = .ok v) :
    (firstErr (grid3 B n S f) = some .outsideDomain ↔ ∃ b t s, b < B ∧ t < n ∧ s < S ∧ g b t s = true)
    ∧ (firstErr (grid3 B n S f) = none ↔ ∀ b t s, b < B → t < n → s < S → g b t s = false)
    ∧ (∀ e, firstErr (grid3 B n S f) = some e → e = .outsideDomain) := by
  have hsome : ∀ e, firstErr (grid3 B n S f) = some e →
      e = .outsideDomain ∧ ∃ b t s, b < B ∧ t < n ∧ s < S ∧ g b t s = true := by
    intro e he
    obtain ⟨b, t, s, hb, ht, hs, hfe, _⟩ := (firstErr_grid3_some B n S f e).1 he
    cases hg : g b t s with
    | false =>
      obtain ⟨v, hv⟩ := hin b t s hb ht hs hg
      rw [hfe] at hv; cases hv
    | true =>
      have := hout b t s hb ht hs hg
      rw [hfe] at this
      exact ⟨by injection this, b, t, s, hb, ht, hs, hg⟩
  have hnone : firstErr (grid3 B n S f) = none ↔ ∀ b t s, b < B → t < n → s < S → g b t s = false := by
    rw [firstErr_grid3_none]
    constructor
    · intro h b t s hb ht hs
      cases hg : g b t s with
      | false => rfl
      | true =>
        obtain ⟨v, hv⟩ := h b t s hb ht hs
        rw [hout b t s hb ht hs hg] at hv; cases hv
    · intro h b t s hb ht hs
      exact hin b t s hb ht hs (h b t s hb ht hs)
  refine ⟨⟨fun h => (hsome _ h).2, ?_⟩, hnone, fun e he => (hsome e he).1⟩
  rintro ⟨b, t, s, hb, ht, hs, hg⟩
  cases he : firstErr (grid3 B n S f) with
  | none => rw [hnone.1 he b t s hb ht hs] at hg; cases hg
  | some e' => rw [(hsome e' he).1]

variable {c : ElCfg}

/-- **`Piecewise*CDF` (bounded), any scalar type: if ANY element of the batch is outside, the layer raises** -/
theorem cdf_raises_of_outside (hc : Bounded c) (B n : Nat) (x params : Array α) (inv : Bool)
    (h : ∃ b i, b < B ∧ i < n ∧ outside o c inv (x.getD (b * n + i) o.zero) = true) :
    ∃ e, (cdfApply o c B n x params inv).err = some e := by
  obtain ⟨b, i, hb, hi, hg⟩ := h
  exact (cdf_err_isSome_iff o c B n x params inv).2
    ⟨b, i, hb, hi, .outsideDomain, elTransform_rejects_outside o hc inv _ _ hg⟩

theorem cdf_err_ne_none_of_outside (hc : Bounded c) (B n : Nat) (x params : Array α) (inv : Bool)
    (h : ∃ b i, b < B ∧ i < n ∧ outside o c inv (x.getD (b * n + i) o.zero) = true) :
    (cdfApply o c B n x params inv).err ≠ none := by
  obtain ⟨e, he⟩ := cdf_raises_of_outside o hc B n x params inv h
  rw [he]; simp

/-- **`Piecewise*CDF` (bounded), any scalar type, any batch size, any position**: when the in-guard elements run, the layer
    raises `InputOutsideDomain` iff some element of the batch is outside; it is accepted iff none is; and no other error
    is ever reported -/
theorem cdf_err_outside_iff (hc : Bounded c) (B n : Nat) (x params : Array α) (inv : Bool)
    (hin : ∀ b i, b < B → i < n → outside o c inv (x.getD (b * n + i) o.zero) = false →
      ∃ v, cdfEl o c n x params inv b i = .ok v) :
    ((cdfApply o c B n x params inv).err = some .outsideDomain
        ↔ ∃ b i, b < B ∧ i < n ∧ outside o c inv (x.getD (b * n + i) o.zero) = true)
    ∧ ((cdfApply o c B n x params inv).err = none
        ↔ ∀ b i, b < B → i < n → outside o c inv (x.getD (b * n + i) o.zero) = false)
    ∧ (∀ e, (cdfApply o c B n x params inv).err = some e → e = .outsideDomain) := by
  unfold cdfApply
  rw [elemwise_err_eq_grid]
  exact grid2_domain B n _ (fun b i => outside o c inv (x.getD (b * n + i) o.zero))
    (fun b i _ _ hg => elTransform_rejects_outside o hc inv _ _ hg) hin

/-- the same for one autoregressive element-wise pass -/
theorem ar_err_outside_iff (hc : Bounded c) (B F : Nat) (x params : Array α) (inv : Bool)
    (hin : ∀ b i, b < B → i < F → outside o c inv (x.getD (b * F + i) o.zero) = false →
      ∃ v, arEl o c F x params inv b i = .ok v) :
    ((arApply o c B F x params inv).err = some .outsideDomain
        ↔ ∃ b i, b < B ∧ i < F ∧ outside o c inv (x.getD (b * F + i) o.zero) = true)
    ∧ ((arApply o c B F x params inv).err = none
        ↔ ∀ b i, b < B → i < F → outside o c inv (x.getD (b * F + i) o.zero) = false)
    ∧ (∀ e, (arApply o c B F x params inv).err = some e → e = .outsideDomain) := by
  unfold arApply
  rw [elemwise_err_eq_grid]
  exact grid2_domain B F _ (fun b i => outside o c inv (x.getD (b * F + i) o.zero))
    (fun b i _ _ hg => elTransform_rejects_outside o hc inv _ _ hg) hin

theorem ar_raises_of_outside (hc : Bounded c) (B F : Nat) (x params : Array α) (inv : Bool)
    (h : ∃ b i, b < B ∧ i < F ∧ outside o c inv (x.getD (b * F + i) o.zero) = true) :
    ∃ e, (arApply o c B F x params inv).err = some e := by
  obtain ⟨b, i, hb, hi, hg⟩ := h
  exact (ar_err_isSome_iff o c B F x params inv).2
    ⟨b, i, hb, hi, .outsideDomain, elTransform_rejects_outside o hc inv _ _ hg⟩

/-- the value the conditional element `(b, tpos, s)` of a coupling layer reads -/
def condIn (mask : List α) (S : Nat) (x : Array α) (b t s : Nat) : α :=
  x.getD (flatIdx mask.length S b ((transformIdx o mask).getD t 0) s) o.zero

/-- **bounded spline coupling layer (no unconditional transform)** -/
theorem coupling_err_outside_iff (hc : Bounded c) (mask : List α) (B S : Nat) (x params uparams : Array α) (inv : Bool)
    (hin : ∀ b t s, b < B → t < (transformIdx o mask).length → s < S →
      outside o c inv (condIn o mask S x b t s) = false → ∃ v, condElAt o c mask S x params inv b t s = .ok v) :
    ((couplingApply o c mask B S x params inv none uparams).err = some .outsideDomain
        ↔ ∃ b t s, b < B ∧ t < (transformIdx o mask).length ∧ s < S ∧ outside o c inv (condIn o mask S x b t s) = true)
    ∧ ((couplingApply o c mask B S x params inv none uparams).err = none
        ↔ ∀ b t s, b < B → t < (transformIdx o mask).length → s < S → outside o c inv (condIn o mask S x b t s) = false)
    ∧ (∀ e, (couplingApply o c mask B S x params inv none uparams).err = some e → e = .outsideDomain) := by
  rw [coupling_err_eq_grid_none]
  refine grid3_domain B _ S _ (fun b t s => outside o c inv (condIn o mask S x b t s)) ?_ hin
  intro b t s _ _ _ hg
  unfold condElAt
  rw [couplingEl_spline o c S params inv hc.ne_affine.1 hc.ne_affine.2]
  exact elTransform_rejects_outside o hc inv _ _ hg

theorem coupling_raises_of_outside (hc : Bounded c) (mask : List α) (B S : Nat) (x params uparams : Array α) (inv : Bool)
    (h : ∃ b t s, b < B ∧ t < (transformIdx o mask).length ∧ s < S ∧ outside o c inv (condIn o mask S x b t s) = true) :
    ∃ e, (couplingApply o c mask B S x params inv none uparams).err = some e := by
  obtain ⟨b, t, s, hb, ht, hs, hg⟩ := h
  refine (coupling_err_isSome_iff_el o c mask B S x params inv uparams).2 ⟨b, t, s, hb, ht, hs, .outsideDomain, ?_⟩
  unfold condElAt
  rw [couplingEl_spline o c S params inv hc.ne_affine.1 hc.ne_affine.2]
  exact elTransform_rejects_outside o hc inv _ _ hg

end domain


/-! ## 6. Over the reals: the guard is the interval test; the bounded LINEAR family fully discharged -/

section real
variable (e : Float → ℝ)

theorem outside_real (c : ElCfg) (inv : Bool) (x : ℝ) :
    outside (NF.realX e) c inv x = true ↔ x < e (loF c inv) ∨ e (hiF c inv) < x := by
  simp [outside]

theorem outside_real_false (c : ElCfg) (inv : Bool) (x : ℝ) :
    outside (NF.realX e) c inv x = false ↔ e (loF c inv) ≤ x ∧ x ≤ e (hiF c inv) := by
  rw [← Bool.not_eq_true, outside_real, not_or, not_lt, not_lt]

/-- **one bounded spline element over the reals is rejected as soon as its input is outside the interval** -/
theorem elTransform_rejects_outside_real {c : ElCfg} (hc : Bounded c) (inv : Bool) (p : List ℝ) (x : ℝ)
    (h : x < e (loF c inv) ∨ e (hiF c inv) < x) : elTransform (NF.realX e) c inv p x = .error .outsideDomain :=
  elTransform_rejects_outside _ hc inv p x ((outside_real e c inv x).2 h)

/-- `Piecewise*CDF` (bounded) over the reals, domain form -/
theorem cdf_err_outside_iff_real {c : ElCfg} (hc : Bounded c) (B n : Nat) (x params : Array ℝ) (inv : Bool)
    (hin : ∀ b i, b < B → i < n → e (loF c inv) ≤ x.getD (b * n + i) 0 → x.getD (b * n + i) 0 ≤ e (hiF c inv) →
      ∃ v, cdfEl (NF.realX e) c n x params inv b i = .ok v) :
    ((cdfApply (NF.realX e) c B n x params inv).err = some .outsideDomain
        ↔ ∃ b i, b < B ∧ i < n ∧ (x.getD (b * n + i) 0 < e (loF c inv) ∨ e (hiF c inv) < x.getD (b * n + i) 0))
    ∧ ((cdfApply (NF.realX e) c B n x params inv).err = none
        ↔ ∀ b i, b < B → i < n → e (loF c inv) ≤ x.getD (b * n + i) 0 ∧ x.getD (b * n + i) 0 ≤ e (hiF c inv))
    ∧ (∀ er, (cdfApply (NF.realX e) c B n x params inv).err = some er → er = .outsideDomain) := by
  have h := cdf_err_outside_iff (NF.realX e) hc B n x params inv (by
    intro b i hb hi hg
    rw [outside_real_false, NF.realX_zero] at hg
    exact hin b i hb hi hg.1 hg.2)
  simp only [outside_real, outside_real_false, NF.realX_zero] at h
  exact h

/-- an accepted bounded linear-spline configuration: `K ≥ 1` bins, a non-degenerate box whose two differences are read
    exactly, a positive search tolerance.  Nothing about parameter VALUES. -/
structure LinCfgValid (c : ElCfg) : Prop where
  hk : c.kind = "lin"
  ht : c.tails = false
  hK : 0 < c.K
  hlr : e (dsAt c 0) < e (dsAt c 1)
  hdlr : e (dsAt c 1 - dsAt c 0) = e (dsAt c 1) - e (dsAt c 0)
  hbt : e (dsAt c 2) < e (dsAt c 3)
  hdbt : e (dsAt c 3 - dsAt c 2) = e (dsAt c 3) - e (dsAt c 2)
  heps : 0 < e 1e-6

variable {e}

theorem LinCfgValid.bounded {c : ElCfg} (hc : LinCfgValid e c) : Bounded c := ⟨Or.inr (Or.inr (Or.inl hc.hk)), hc.ht⟩

theorem LinCfgValid.linValid {c : ElCfg} (hc : LinCfgValid e c) (p : List ℝ) (hp : p.length = c.K) :
    LinWhole.LinValid e ⟨dsAt c 0, dsAt c 1, dsAt c 2, dsAt c 3⟩ 1e-6 p where
  hK := List.ne_nil_of_length_pos (by rw [hp]; exact hc.hK)
  hlr := hc.hlr
  hdlr := hc.hdlr
  hbt := hc.hbt
  hdbt := hc.hdbt
  heps := hc.heps

theorem mult_lin {c : ElCfg} (hk : c.kind = "lin") : c.mult = c.K := by simp [ElCfg.mult, hk]

/-- **one bounded linear element, ANY parameter vector of length `K`: accepted on the closed interval** -/
theorem lin_el_ok {c : ElCfg} (hc : LinCfgValid e c) (inv : Bool) (p : List ℝ) (hp : p.length = c.K) (x : ℝ)
    (h0 : e (loF c inv) ≤ x) (h1 : x ≤ e (hiF c inv)) : ∃ v, elTransform (NF.realX e) c inv p x = .ok v := by
  rw [LinTails.elTransform_lin _ c hc.hk hc.ht]
  have hv := hc.linValid p hp
  cases inv
  · rw [LinWhole.exec_ok hv x h0 h1]; exact ⟨_, rfl⟩
  · rw [LinWhole.inv_exec_ok hv x h0 h1]; exact ⟨_, rfl⟩

/-- **`PiecewiseLinearCDF` on a `[B, n]` batch over the reals, both directions, any parameter tensor, any batch size**: the
    layer raises `InputOutsideDomain` iff SOME element lies outside `[left, right]` (inverse: `[bottom, top]`), is accepted
    iff ALL elements lie inside, and never reports any other error -/
theorem cdf_lin_err_iff {c : ElCfg} (hc : LinCfgValid e c) (B n : Nat) (x params : Array ℝ) (inv : Bool) :
    ((cdfApply (NF.realX e) c B n x params inv).err = some .outsideDomain
        ↔ ∃ b i, b < B ∧ i < n ∧ (x.getD (b * n + i) 0 < e (loF c inv) ∨ e (hiF c inv) < x.getD (b * n + i) 0))
    ∧ ((cdfApply (NF.realX e) c B n x params inv).err = none
        ↔ ∀ b i, b < B → i < n → e (loF c inv) ≤ x.getD (b * n + i) 0 ∧ x.getD (b * n + i) 0 ≤ e (hiF c inv))
    ∧ (∀ er, (cdfApply (NF.realX e) c B n x params inv).err = some er → er = .outsideDomain) := by
  apply cdf_err_outside_iff_real e hc.bounded
  intro b i _ _ h0 h1
  unfold cdfEl
  rw [NF.realX_zero]
  exact lin_el_ok hc inv _ (by rw [List.length_map, List.length_range, mult_lin hc.hk]) _ h0 h1

/-- the same for one pass of the masked autoregressive linear-spline transform: whatever the conditioner returned -/
theorem ar_lin_err_iff {c : ElCfg} (hc : LinCfgValid e c) (B F : Nat) (x params : Array ℝ) (inv : Bool) :
    ((arApply (NF.realX e) c B F x params inv).err = some .outsideDomain
        ↔ ∃ b i, b < B ∧ i < F ∧ (x.getD (b * F + i) 0 < e (loF c inv) ∨ e (hiF c inv) < x.getD (b * F + i) 0))
    ∧ ((arApply (NF.realX e) c B F x params inv).err = none
        ↔ ∀ b i, b < B → i < F → e (loF c inv) ≤ x.getD (b * F + i) 0 ∧ x.getD (b * F + i) 0 ≤ e (hiF c inv))
    ∧ (∀ er, (arApply (NF.realX e) c B F x params inv).err = some er → er = .outsideDomain) := by
  have hpw : NF.ARWhole.pw c = c.K := by simp [NF.ARWhole.pw, hc.hk, ElCfg.mult]
  have h := ar_err_outside_iff (NF.realX e) hc.bounded B F x params inv (by
    intro b i hb hi hg
    rw [outside_real_false, NF.realX_zero] at hg
    rw [NF.ARWhole.arEl_eq, NF.realX_zero]
    exact lin_el_ok hc inv _ (by rw [NF.ARWhole.arSlice_length, hpw]) _ hg.1 hg.2)
  simp only [outside_real, outside_real_false, NF.realX_zero] at h
  exact h

/-- the same for the linear-spline COUPLING layer (any mask, `S`, conditioner output) -/
theorem coupling_lin_err_iff {c : ElCfg} (hc : LinCfgValid e c) (mask : List ℝ) (B S : Nat)
    (x params uparams : Array ℝ) (inv : Bool) :
    ((couplingApply (NF.realX e) c mask B S x params inv none uparams).err = some .outsideDomain
        ↔ ∃ b t s, b < B ∧ t < (transformIdx (NF.realX e) mask).length ∧ s < S ∧
            (condIn (NF.realX e) mask S x b t s < e (loF c inv) ∨ e (hiF c inv) < condIn (NF.realX e) mask S x b t s))
    ∧ ((couplingApply (NF.realX e) c mask B S x params inv none uparams).err = none
        ↔ ∀ b t s, b < B → t < (transformIdx (NF.realX e) mask).length → s < S →
            e (loF c inv) ≤ condIn (NF.realX e) mask S x b t s ∧ condIn (NF.realX e) mask S x b t s ≤ e (hiF c inv))
    ∧ (∀ er, (couplingApply (NF.realX e) c mask B S x params inv none uparams).err = some er → er = .outsideDomain) := by
  have h := coupling_err_outside_iff (NF.realX e) hc.bounded mask B S x params uparams inv (by
    intro b t s hb ht hs hg
    rw [outside_real_false] at hg
    unfold condElAt
    rw [couplingEl_spline (NF.realX e) c S params inv hc.bounded.ne_affine.1 hc.bounded.ne_affine.2]
    exact lin_el_ok hc inv _ (by rw [condSlice_length, mult_lin hc.hk]) _ hg.1 hg.2)
  simp only [outside_real, outside_real_false] at h
  exact h

end real


/-! ## 7. Unconstrained (linear-tails) variants: every real input is accepted, both directions (C17 finding 5) -/

section tails
open TailsWhole
variable {e : Float → ℝ}

/-- `tailsWrap` returns a value as soon as the inner program does on the box `[-B, B]` -/
theorem tailsWrap_ok (tb : Float) (x : ℝ) (inner : Box → Except Err (ℝ × ℝ))
    (h : -e tb ≤ x → x ≤ e tb → ∃ r, inner (tbox tb) = .ok r) :
    ∃ r, tailsWrap (NF.realX e) tb x inner = .ok r := by
  rw [tailsWrap_unfold]
  by_cases hin : -e tb ≤ x ∧ x ≤ e tb
  · rw [if_pos hin]; exact h hin.1 hin.2
  · rw [if_neg hin]; exact ⟨_, rfl⟩

/-- **quadratic spline with linear tails (`K ≥ 2` bins, `K - 1` interior heights): every real input is accepted, both
    directions** — in particular inputs exactly on the tail bound -/
theorem quad_tails_total (tb mW mH : Float) (uw uh : List ℝ)
    (hv : QuadWhole.QuadValidT e (qcfgT tb mW mH) uw uh) (hneg : e (-tb) = - e tb) (x : ℝ) :
    (∃ r, tailsWrap (NF.realX e) tb x
        (fun box => quadSpline (NF.realX e) { box := box, minW := mW, minH := mH } uw uh false x) = .ok r) ∧
    (∃ r, tailsWrap (NF.realX e) tb x
        (fun box => quadSpline (NF.realX e) { box := box, minW := mW, minH := mH } uw uh true x) = .ok r) := by
  constructor
  · apply tailsWrap_ok
    intro h0 h1
    exact QuadWhole.total_T hv x (by show e (-tb) ≤ x; rw [hneg]; exact h0) h1
  · apply tailsWrap_ok
    intro h0 h1
    exact ⟨_, QuadInverseWhole.exec_ok_T hv x (by show e (-tb) ≤ x; rw [hneg]; exact h0) h1⟩

/-- **linear spline with linear tails: every real input is accepted, both directions** -/
theorem lin_tails_total (tb eps : Float) (up : List ℝ)
    (hv : LinWhole.LinValid e (tbox tb) eps up) (hneg : e (-tb) = - e tb) (x : ℝ) :
    (∃ r, tailsWrap (NF.realX e) tb x (fun box => linSpline (NF.realX e) box eps up false x) = .ok r) ∧
    (∃ r, tailsWrap (NF.realX e) tb x (fun box => linSpline (NF.realX e) box eps up true x) = .ok r) := by
  constructor
  · apply tailsWrap_ok
    intro h0 h1
    exact ⟨_, LinWhole.exec_ok hv x (by show e (-tb) ≤ x; rw [hneg]; exact h0) h1⟩
  · apply tailsWrap_ok
    intro h0 h1
    exact ⟨_, LinWhole.inv_exec_ok hv x (by show e (-tb) ≤ x; rw [hneg]; exact h0) h1⟩

/-- **cubic spline with linear tails (the tails branch of `elTransform`, `TailsWhole.cubicTails`): every real input is
    accepted, both directions** -/
theorem cubic_tails_total (tb mW mH eps thr : Float) (uw uh : List ℝ) (udl udr : ℝ)
    (hv : CubicWhole.CubicValid e (ccfgT tb mW mH eps thr) uw uh) (hneg : e (-tb) = - e tb) (inverse : Bool) (x : ℝ) :
    ∃ r, cubicTails (NF.realX e) tb mW mH eps thr uw uh udl udr inverse x = .ok r := by
  rw [cubicTails_unfold]
  by_cases hin : -e tb ≤ x ∧ x ≤ e tb
  · rw [if_pos hin]
    have hx0 : e (-tb) ≤ x := by rw [hneg]; exact hin.1
    cases inverse
    · exact CubicWhole.exec_total hv x hx0 hin.2
    · exact CubicInverseWhole.exec_total hv x hx0 hin.2
  · rw [if_neg hin]; exact ⟨_, rfl⟩

/-! ### the layers: configuration bundles that make EVERY element call succeed, whatever the parameters -/

/-- an accepted linear-spline-with-tails element configuration (`K ≥ 1`; tail bound, search tolerance).  Nothing about
    parameter values. -/
structure LinTailsCfgValid (e : Float → ℝ) (c : ElCfg) : Prop where
  hk : c.kind = "lin"
  ht : c.tails = true
  hK : 0 < c.K
  hneg : e (-(dsAt c 0)) = - e (dsAt c 0)
  hv : LinWhole.LinValid e (tbox (dsAt c 0)) 1e-6 (List.replicate c.K 0)

theorem linValid_of_ne_nil {box : Box} {eps : Float} {up up' : List ℝ} (hv : LinWhole.LinValid e box eps up)
    (h : up' ≠ []) : LinWhole.LinValid e box eps up' :=
  ⟨h, hv.hlr, hv.hdlr, hv.hbt, hv.hdbt, hv.heps⟩

/-- one linear-tails element, any parameter vector of length `K`, any real input, either direction -/
theorem lin_tails_el_ok {c : ElCfg} (hc : LinTailsCfgValid e c) (inv : Bool) (p : List ℝ) (hp : p.length = c.K) (x : ℝ) :
    ∃ v, elTransform (NF.realX e) c inv p x = .ok v := by
  rw [LinTails.elTransform_lin_tails _ c hc.hk hc.ht]
  have hv : LinWhole.LinValid e (tbox (dsAt c 0)) 1e-6 p :=
    linValid_of_ne_nil hc.hv (List.ne_nil_of_length_pos (by rw [hp]; exact hc.hK))
  have h := lin_tails_total (dsAt c 0) 1e-6 p hv hc.hneg x
  cases inv
  · obtain ⟨r, hr⟩ := h.1
    exact ⟨_, by rw [hr]; rfl⟩
  · obtain ⟨r, hr⟩ := h.2
    exact ⟨_, by rw [hr]; rfl⟩

theorem LinTailsCfgValid.ne_affine {c : ElCfg} (hc : LinTailsCfgValid e c) : c.kind ≠ "affine" ∧ c.kind ≠ "additive" := by
  rw [hc.hk]; exact ⟨by decide, by decide⟩

/-- **an executed linear-spline coupling layer with linear tails never raises**, either direction, any input, any
    conditioner output, any batch size -/
theorem coupling_lin_tails_err_none {c : ElCfg} (hc : LinTailsCfgValid e c) (mask : List ℝ) (B S : Nat)
    (x params uparams : Array ℝ) (inverse : Bool) :
    (couplingApply (NF.realX e) c mask B S x params inverse none uparams).err = none := by
  rw [coupling_err_none_iff_el]
  intro b t s _ _ _
  unfold condElAt
  rw [couplingEl_spline (NF.realX e) c S params inverse hc.ne_affine.1 hc.ne_affine.2]
  exact lin_tails_el_ok hc inverse _ (by rw [condSlice_length, mult_lin hc.hk]) _

/-- the same for one pass of the autoregressive linear-spline transform with tails -/
theorem ar_lin_tails_err_none {c : ElCfg} (hc : LinTailsCfgValid e c) (B F : Nat) (x params : Array ℝ) (inverse : Bool) :
    (arApply (NF.realX e) c B F x params inverse).err = none := by
  have hpw : NF.ARWhole.pw c = c.K := by simp [NF.ARWhole.pw, hc.hk, ElCfg.mult]
  rw [ar_err_none_iff]
  intro b i _ _
  rw [NF.ARWhole.arEl_eq]
  exact lin_tails_el_ok hc inverse _ (by rw [NF.ARWhole.arSlice_length, hpw]) _

/-- the same for `PiecewiseLinearCDF(tails='linear')` -/
theorem cdf_lin_tails_err_none {c : ElCfg} (hc : LinTailsCfgValid e c) (B n : Nat) (x params : Array ℝ) (inverse : Bool) :
    (cdfApply (NF.realX e) c B n x params inverse).err = none := by
  rw [cdf_err_none_iff]
  intro b i _ _
  unfold cdfEl
  exact lin_tails_el_ok hc inverse _ (by rw [List.length_map, List.length_range, mult_lin hc.hk]) _

/-- an accepted quadratic-spline-with-tails element configuration: `K ≥ 2` bins (finding F27: with `K = 1` every call
    fails with an index error), and the constants accepted for one — hence every — parameter vector of `K` widths and
    `K - 1` interior heights -/
structure QuadTailsCfgValid (e : Float → ℝ) (c : ElCfg) : Prop where
  hk : c.kind = "quad"
  ht : c.tails = true
  hK : 2 ≤ c.K
  hneg : e (-(dsAt c 0)) = - e (dsAt c 0)
  hv : QuadWhole.QuadValidT e (qcfgT (dsAt c 0) (dsAt c 1) (dsAt c 2)) (List.replicate c.K 0) (List.replicate (c.K - 1) 0)

/-- `QuadValidT` constrains the constants and the LENGTHS of the two parameter lists, not their values -/
theorem quadValidT_of_lengths {q : QCfg} {uw uh uw' uh' : List ℝ} (hv : QuadWhole.QuadValidT e q uw uh)
    (hw : uw'.length = uw.length) (hh : uh'.length = uh.length) : QuadWhole.QuadValidT e q uw' uh' where
  huh := List.ne_nil_of_length_pos (by rw [hh]; exact List.length_pos_of_ne_nil hv.huh)
  hlenh := by rw [hh, hw]; exact hv.hlenh
  hgW := by rw [hw]; exact hv.hgW
  hgH := by rw [hw]; exact hv.hgH
  hmW0 := hv.hmW0
  hcW := by rw [hw]; exact hv.hcW
  hmWK := by rw [hw]; exact hv.hmWK
  hmH0 := hv.hmH0
  hcH := hv.hcH
  hmH1 := hv.hmH1
  h1e3 := hv.h1e3
  hhalf := hv.hhalf
  hbox := hv.hbox
  heps := hv.heps

theorem quadScale_length (c : ElCfg) (b : Bool) (l : List ℝ) :
    (quadScale (NF.realX e) c b l).length = l.length := by
  unfold quadScale; split <;> simp

theorem mult_quad_tails {c : ElCfg} (hk : c.kind = "quad") (ht : c.tails = true) : c.mult = 2 * c.K - 1 := by
  simp [ElCfg.mult, hk, ht]

/-- one quadratic-tails element, any parameter vector of length `2K - 1`, any real input, either direction -/
theorem quad_tails_el_ok {c : ElCfg} (hc : QuadTailsCfgValid e c) (inv : Bool) (p : List ℝ) (hp : p.length = 2 * c.K - 1)
    (x : ℝ) : ∃ v, elTransform (NF.realX e) c inv p x = .ok v := by
  rw [NF.StructureExec.elTransform_quad_tails _ c hc.hk hc.ht]
  have hK := hc.hK
  have hv : QuadWhole.QuadValidT e (qcfgT (dsAt c 0) (dsAt c 1) (dsAt c 2))
      (quadW (NF.realX e) c p) (quadH (NF.realX e) c p) := by
    apply quadValidT_of_lengths hc.hv
    · rw [quadW, quadScale_length, List.length_take, List.length_replicate, hp]; omega
    · rw [quadH, quadScale_length, List.length_drop, List.length_replicate, hp]; omega
  have h := quad_tails_total (dsAt c 0) (dsAt c 1) (dsAt c 2) _ _ hv hc.hneg x
  cases inv
  · obtain ⟨r, hr⟩ := h.1
    exact ⟨_, by rw [hr]; rfl⟩
  · obtain ⟨r, hr⟩ := h.2
    exact ⟨_, by rw [hr]; rfl⟩

theorem QuadTailsCfgValid.ne_affine {c : ElCfg} (hc : QuadTailsCfgValid e c) :
    c.kind ≠ "affine" ∧ c.kind ≠ "additive" := by
  rw [hc.hk]; exact ⟨by decide, by decide⟩

/-- **an executed quadratic-spline coupling layer with linear tails (`K ≥ 2`) never raises**, either direction, any input,
    any conditioner output, any batch size -/
theorem coupling_quad_tails_err_none {c : ElCfg} (hc : QuadTailsCfgValid e c) (mask : List ℝ) (B S : Nat)
    (x params uparams : Array ℝ) (inverse : Bool) :
    (couplingApply (NF.realX e) c mask B S x params inverse none uparams).err = none := by
  rw [coupling_err_none_iff_el]
  intro b t s _ _ _
  unfold condElAt
  rw [couplingEl_spline (NF.realX e) c S params inverse hc.ne_affine.1 hc.ne_affine.2]
  exact quad_tails_el_ok hc inverse _ (by rw [condSlice_length, mult_quad_tails hc.hk hc.ht]) _

/-- the same for one pass of the autoregressive quadratic transform with tails -/
theorem ar_quad_tails_err_none {c : ElCfg} (hc : QuadTailsCfgValid e c) (B F : Nat) (x params : Array ℝ) (inverse : Bool) :
    (arApply (NF.realX e) c B F x params inverse).err = none := by
  have hpw : NF.ARWhole.pw c = 2 * c.K - 1 := by simp [NF.ARWhole.pw, hc.hk, hc.ht, ElCfg.mult]
  rw [ar_err_none_iff]
  intro b i _ _
  rw [NF.ARWhole.arEl_eq]
  exact quad_tails_el_ok hc inverse _ (by rw [NF.ARWhole.arSlice_length, hpw]) _

/-- the same for `PiecewiseQuadraticCDF(tails='linear')` -/
theorem cdf_quad_tails_err_none {c : ElCfg} (hc : QuadTailsCfgValid e c) (B n : Nat) (x params : Array ℝ) (inverse : Bool) :
    (cdfApply (NF.realX e) c B n x params inverse).err = none := by
  rw [cdf_err_none_iff]
  intro b i _ _
  unfold cdfEl
  exact quad_tails_el_ok hc inverse _
    (by rw [List.length_map, List.length_range, mult_quad_tails hc.hk hc.ht]) _

end tails


/-! ## 8. Non-vacuity: every bundle has a concrete witness, and the batch statements discriminate -/

section witness
open TailsWhole

/-- bounded linear CDF, three bins on `[-1, 1]²` -/
def cL : ElCfg := { container := "cdf", kind := "lin", K := 3, ds := #[-(1.0), 1.0, -(1.0), 1.0] }
/-- linear CDF / coupling transformer with linear tails, three bins, tail bound 1 -/
def cLT : ElCfg := { container := "coupling", kind := "lin", tails := true, K := 3, ds := #[1.0] }

theorem linCfgValid_example : LinCfgValid eTT cL :=
  have hv := LinTails.valid_tails_box [0] (by simp)
  ⟨rfl, rfl, by decide, hv.hlr, hv.hdlr, hv.hbt, hv.hdbt, hv.heps⟩

theorem linTailsCfgValid_example : LinTailsCfgValid eTT cLT :=
  ⟨rfl, rfl, by decide, eTT_neg, LinTails.valid_tails_box _ (by show List.replicate 3 (0 : ℝ) ≠ []; simp)⟩

/-- quadratic with tails: `StructureExec.cQT` (two bins, one interior height, tail bound 1) -/
theorem quadTailsCfgValid_example : QuadTailsCfgValid eTT cQT :=
  ⟨rfl, rfl, by decide, eTT_neg, valid_example_TT⟩

/-- the element-level totality theorems instantiated -/
example (x : ℝ) : ∃ r, tailsWrap (NF.realX eW) 1.0 x
    (fun box => quadSpline (NF.realX eW) { box := box, minW := 0.0, minH := 0.0 } [0, 0] [0] true x) = .ok r :=
  (quad_tails_total 1.0 0.0 0.0 [0, 0] [0] quad_valid_example eW_neg x).2

example (udl udr x : ℝ) (inverse : Bool) :
    ∃ r, cubicTails (NF.realX eW) 1.0 0.0 0.0 1e-5 1e-3 [0, 0] [0, 0] udl udr inverse x = .ok r :=
  cubic_tails_total 1.0 0.0 0.0 1e-5 1e-3 [0, 0] [0, 0] udl udr cubic_valid_example eW_neg inverse x

/-- the never-raises theorems instantiated: every mask, shape, parameter array, real input, direction -/
example (mask : List ℝ) (B S : Nat) (x params : Array ℝ) (inverse : Bool) :
    (couplingApply (NF.realX eTT) cLT mask B S x params inverse none #[]).err = none
    ∧ (couplingApply (NF.realX eTT) cQT mask B S x params inverse none #[]).err = none :=
  ⟨coupling_lin_tails_err_none linTailsCfgValid_example mask B S x params #[] inverse,
   coupling_quad_tails_err_none quadTailsCfgValid_example mask B S x params #[] inverse⟩

private theorem g10 : ((1.0:Float) == 0.0) = false := by decide +kernel
private theorem g15 : ((1.0:Float) == 0.5) = false := by decide +kernel
private theorem g1n : ((1.0:Float) == -(1.0)) = false := by decide +kernel
private theorem g12 : ((1.0:Float) == 2.0) = false := by decide +kernel
private theorem gn0 : ((-(1.0):Float) == 0.0) = false := by decide +kernel
private theorem gn5 : ((-(1.0):Float) == 0.5) = false := by decide +kernel
private theorem gnn : ((-(1.0):Float) == -(1.0)) = true := by decide +kernel

theorem eTT_one : eTT 1.0 = 1 := by simp [eTT, g10, g15, g1n, g12]
theorem eTT_neg_one : eTT (-(1.0)) = -1 := by simp [eTT, gn0, gn5, gnn]

/-- **the audit's experiment as a theorem** (C12 finding 3): the two-row batch `[0, 7]` of the bounded linear CDF on `[-1, 1]`
    raises `InputOutsideDomain` (row 1 is outside), row 0 alone is accepted — for ANY parameter tensor -/
example (params : Array ℝ) :
    (cdfApply (NF.realX eTT) cL 2 1 #[0, 7] params false).err = some .outsideDomain
    ∧ (cdfApply (NF.realX eTT) cL 1 1 #[0] params false).err = none := by
  have hlo : eTT (loF cL false) = -1 := eTT_neg_one
  have hhi : eTT (hiF cL false) = 1 := eTT_one
  constructor
  · rw [(cdf_lin_err_iff linCfgValid_example 2 1 #[0, 7] params false).1]
    refine ⟨1, 0, by omega, by omega, Or.inr ?_⟩
    rw [hhi]
    show (1 : ℝ) < 7
    norm_num
  · rw [(cdf_lin_err_iff linCfgValid_example 1 1 #[0] params false).2.1]
    intro b i hb hi
    have hb0 : b = 0 := by omega
    have hi0 : i = 0 := by omega
    subst hb0 hi0
    rw [hlo, hhi]
    show (-1 : ℝ) ≤ 0 ∧ (0 : ℝ) ≤ 1
    norm_num

/-- the generic first-error statement discriminates, in any scalar type: of two errors the FIRST in iteration order is
    reported -/
example (o : XOps α) (z : α) :
    let el : Nat → Nat → ElRes α := fun b i =>
      if b = 1 ∧ i = 0 then .error .outsideDomain else if b = 1 ∧ i = 1 then .error .indexError else .ok (z, z, [])
    (elemwiseResult o 2 2 el).err = some .outsideDomain := by
  intro el
  rw [elemwise_err_some_iff]
  refine ⟨1, 0, by omega, by omega, by simp [el], ?_⟩
  rintro b' i' hb' hi' (h | ⟨rfl, h⟩)
  · have : b' = 0 := by omega
    subst this
    exact ⟨(z, z, []), by simp [el]⟩
  · omega

/-- the generic statements hold in binary64 too: the batch `[0.25, 7.0]` of a bounded spline CDF on `[-1, 1]` raises, whatever
    the parameters (the guard of element `(1, 0)` evaluates to `true` in `Float`) -/
example (params : Array Float) : ∃ e, (cdfApply floatX cL 2 1 #[0.25, 7.0] params false).err = some e :=
  cdf_raises_of_outside floatX linCfgValid_example.bounded 2 1 _ params false
    ⟨1, 0, by omega, by omega, by decide +kernel⟩

end witness

end NF.BatchErr
