import Mathlib.Tactic

namespace Pairing

/-! C20 (and C04): list-level models of the reshape helpers (torchutils.py:8-54), rows as list elements -/
variable {α : Type}

/-- `repeat_rows(x, n)`: each row repeated n times consecutively -/
def repeatRows (x : List α) (n : ℕ) : List α := x.flatMap (fun r => List.replicate n r)
/-- `tile(x, n)` on the flattened tensor is the same index map (reshape/repeat/transpose/reshape) -/
def tileCoded (x : List α) (n : ℕ) : List α :=
  -- x_.repeat(n).reshape(n,-1).transpose(1,0).reshape(-1): element (i, r) of the [len, n] result is copy r of x[i]
  (List.range x.length).flatMap (fun i => (List.range n).filterMap (fun _r => x[i]?))

/-- `merge_leading_dims(x, 2)` on [R, n, …]: concatenate the rows' blocks -/
def mergeLeading (x : List (List α)) : List α := x.flatten
/-- `split_leading_dim(x, [-1, n])`: block i, entry j is flat entry i·n + j -/
def splitLeading (n : ℕ) (l : List α) : List (List α) :=
  (List.range (l.length / n)).map (fun i => (l.drop (i * n)).take n)

theorem repeatRows_length (x : List α) (n : ℕ) : (repeatRows x n).length = x.length * n := by
  induction x with
  | nil => simp [repeatRows]
  | cons a t ih =>
    simp only [repeatRows, List.flatMap_cons, List.length_append, List.length_replicate, List.length_cons] at *
    rw [ih]; ring

/-- index law: row i·n + j of repeat_rows(x, n) is row i of x -/
theorem repeatRows_get (x : List α) (n i j : ℕ) (hi : i < x.length) (hj : j < n) :
    (repeatRows x n)[i * n + j]? = x[i]? := by
  induction x generalizing i with
  | nil => simp at hi
  | cons a t ih =>
    simp only [repeatRows, List.flatMap_cons]
    cases i with
    | zero => simp [List.getElem?_append_left, hj]
    | succ k =>
      have hk : k < t.length := by simpa using hi
      rw [List.getElem?_append_right (by simp; nlinarith)]
      simp only [List.length_replicate]
      have : (k + 1) * n + j - n = k * n + j := by
        have : (k+1)*n = k*n + n := by ring
        omega
      rw [this]
      simpa [repeatRows] using ih k hk

/-- merging [R, n] blocks: flat row i·n + j is block i, draw j -/
theorem mergeLeading_get (x : List (List α)) (n i j : ℕ) (hlen : ∀ b ∈ x, b.length = n) (hi : i < x.length) (hj : j < n) :
    (mergeLeading x)[i * n + j]? = (x[i]?).bind (fun b => b[j]?) := by
  induction x generalizing i with
  | nil => simp at hi
  | cons b t ih =>
    have hb : b.length = n := hlen b (List.mem_cons_self)
    simp only [mergeLeading, List.flatten_cons]
    cases i with
    | zero => simp [List.getElem?_append_left, hb, hj]
    | succ k =>
      have hk : k < t.length := by simpa using hi
      rw [List.getElem?_append_right (by rw [hb]; nlinarith)]
      have : (k + 1) * n + j - b.length = k * n + j := by
        rw [hb]; have : (k+1)*n = k*n + n := by ring
        omega
      rw [this]
      simpa [mergeLeading] using ih k (fun c hc => hlen c (List.mem_cons_of_mem _ hc)) hk

/-- pairing (C04): after merge + repeat_rows, flat position i·n + j holds (noise[i][j], context[i]) -/
theorem pairing {β : Type} (noise : List (List α)) (ctx : List β) (n i j : ℕ)
    (hlen : ∀ b ∈ noise, b.length = n) (hR : noise.length = ctx.length) (hi : i < ctx.length) (hj : j < n) :
    (mergeLeading noise)[i * n + j]? = (noise[i]?).bind (fun b => b[j]?) ∧ (repeatRows ctx n)[i * n + j]? = ctx[i]? :=
  ⟨mergeLeading_get noise n i j hlen (hR ▸ hi) hj, repeatRows_get ctx n i j hi hj⟩
/-- split ∘ merge = id on well-shaped blocks -/
theorem splitLeading_get (n : ℕ) (l : List α) (i j : ℕ) (hi : i < l.length / n) (hj : j < n) :
    ((splitLeading n l)[i]?).bind (fun b => b[j]?) = l[i * n + j]? := by
  simp only [splitLeading]
  rw [List.getElem?_map, List.getElem?_range hi]
  simp only [Option.map_some, Option.bind_some]
  rw [List.getElem?_take_of_lt hj, List.getElem?_drop]


end Pairing
