import NflowsModel.Lemmas.DualXFlow
import NflowsModel.Lemmas.DualXNonlin
import NflowsModel.Lemmas.NonlinExec
import NflowsModel.Lemmas.StageMore
import NflowsModel.Lemmas.DualXCoupling
import NflowsModel.Lemmas.StageRoundTrips
import Mathlib.Tactic
/-!
# Lemmas/DualXFlowStages — more stages of a flow run on dual numbers: element-wise layers, coupling layers, open domains (C16)

`Lemmas/DualXFlow.lean` proves the composition principle (`dualSound_compStage`, `flow_logprob_dual_sound`) and instantiates
`DualSoundStage` for `LULinear` / `QRLinear` / `SVDLinear` / `ActNorm` / `BatchNorm`.  This file closes its "Missing" list.

* §0 `nonlinApply_poly`: the imperative loop of `nonlinApply` in ANY scalar semantics (reals, dual numbers, floats) is
  `out = map value`, `ld = sum_except_batch (map log-det)`, `err = first element exception` (the polymorphic fold lemma).
* §1-3 `DualSoundStageOn t P S D` (`DualSoundStage` on the dual inputs in `P`); `sumRows_dual`; `dualSound_nonlinStage_gen`: a
  never-raising element-wise layer whose element function is `DualRes`-sound is a stage; instances
  `dualSound_nonlinStage_affine` (both directions, scale and shift moving), `dualSound_nonlinStage_exp` — both plain
  `DualSoundStage`s —, `dualSound_nonlinStage_leakyRelu` (off the kink; forced: `leakyStage_not_dual_sound_at_kink`),
  `dualSound_nonlinStage_tanh`, `dualSound_nonlinStage_sigmoid` / `_logit_inv` (off the `softplus` thresholds).
* §4 the forward coupling layer: `DualSoundNet` (the conditioner run at dual numbers returns (value, derivative) along curves),
  `dualSound_couplingStage_of_el`, `dualSound_couplingStage_affine`, `dualSound_couplingStage_additive`; the affine-map conditioner
  `affNet` with `dualSoundNet_affNet`.
* §5 line readings `DualSoundStageOn.line`, `dualSoundStage_line`; concrete width-2 instances.
* §6 **`flow_glow_block_logprob_dual_sound`**: `Flow.log_prob` of `[ActNorm, LULinear, affine coupling]` with explicit numbers.
* §7 `DualSoundStageNear` (open domains: accepted / equal only near `t`), `dualSoundNear_compStage` (closed under cascade, admissible
  set `cascadeP`), `flowLogProbExec_dual_near`, **`flow_logprob_dual_sound_near`**, `dualSoundNear_nonlinStage_gen`,
  `dualSoundNear_nonlinStage_exp_inv` (`Exp.inverse` = `log`; `expInvStage_not_dual_sound`: it is not a `DualSoundStage`);
  `dualSoundOn_compStage`: the same closure for `DualSoundStageOn` (acceptance at every `s`).
-/
open NF DualSound DualX DualXLU Filter Topology NF.Density NF.FlowRowsExec NF.StageMore NF.Norm LinearFresh
  NF.RowIndependenceMore NonlinExec DualXFlow

namespace DualXFlowStages
noncomputable section

variable {e : Float → ℝ} {t : ℝ}

/-! ## 0. the loop of `nonlinApply` in any scalar semantics -/

section poly
variable {α : Type}

/-- first output of an element run, the semantics' zero on error (what the loop pushes) -/
def outYG (o : XOps α) (r : Except Err (α × α)) : α := match r with | .ok p => p.1 | .error _ => o.zero
/-- second output of an element run, the semantics' zero on error -/
def outLG (o : XOps α) (r : Except Err (α × α)) : α := match r with | .ok p => p.2 | .error _ => o.zero
/-- the exception of an element run -/
def errG (r : Except Err (α × α)) : Option Err := match r with | .ok _ => none | .error er => some er

theorem nlStep_foldl_poly (o : XOps α) (F : α → Except Err (α × α)) (l : List α) (a b : Array α) (c : Option Err) :
    l.foldl (nlStep o F) (a, b, c)
      = (a ++ (l.map fun xi => outYG o (F xi)).toArray, b ++ (l.map fun xi => outLG o (F xi)).toArray,
         c.or (l.findSome? fun xi => errG (F xi))) := by
  induction l generalizing a b c with
  | nil => simp
  | cons xi t ih =>
    rw [List.foldl_cons]
    cases h : F xi with
    | ok p =>
      have hs : nlStep o F (a, b, c) xi = (a.push p.1, b.push p.2, c) := by
        unfold nlStep; rw [h]
      rw [hs, ih]
      simp [h, errG, outYG, outLG]
    | error er =>
      have hs : nlStep o F (a, b, c) xi = (a.push o.zero, b.push o.zero, if c.isNone then some er else c) := by
        unfold nlStep; rw [h]
      rw [hs, ih]
      cases c <;> simp [h, errG, outYG, outLG]

/-- **the executed element-wise layer `nonlinApply`, whole program, in ANY scalar semantics** (reals, dual numbers, floats):
    outputs are the element values (zero where an element raised), the log-det list is `sum_except_batch` of the element
    log-dets, `err` is the first element exception. -/
theorem nonlinApply_poly (o : XOps α) (kind : String) (ds : Array Float) (ps : List α) (B : Nat) (x : Array α) (inv : Bool) :
    nonlinApply o kind ds ps B x inv =
      { out := (x.toList.map fun xi => outYG o (nonlinEl o kind ds ps inv xi)).toArray,
        ld := sumRows o B (x.toList.map fun xi => outLG o (nonlinEl o kind ds ps inv xi)).toArray,
        err := x.toList.findSome? fun xi => errG (nonlinEl o kind ds ps inv xi) } := by
  rw [nonlinApply_eq_fold, ← Array.foldl_toList]
  simp only [Array.mkEmpty_eq]
  rw [nlStep_foldl_poly]
  simp

theorem findSome?_errG_none {F : α → Except Err (α × α)} {l : List α} (h : ∀ xi ∈ l, ∃ p, F xi = .ok p) :
    (l.findSome? fun xi => errG (F xi)) = none := by
  rw [List.findSome?_eq_none_iff]
  intro xi hxi
  obtain ⟨p, hp⟩ := h xi hxi
  rw [hp]; rfl

/-- an element-wise layer all of whose element calls are accepted returns the element values and the row sums of the
    element log-dets (any scalar semantics) -/
theorem nonlinStage_ok_of_total (o : XOps α) (kind : String) (ds : Array Float) (ps : List α) (inv : Bool) (B : Nat)
    (x c : Array α) (h : ∀ xi ∈ x.toList, ∃ p, nonlinEl o kind ds ps inv xi = .ok p) :
    nonlinStage o kind ds ps inv B x c =
      .ok ((x.toList.map fun xi => outYG o (nonlinEl o kind ds ps inv xi)).toArray,
        sumRows o B (x.toList.map fun xi => outLG o (nonlinEl o kind ds ps inv xi)).toArray) := by
  unfold nonlinStage
  rw [nonlinApply_poly]
  unfold ofT
  simp only [findSome?_errG_none h]

theorem forall₂_mem_right {β γ : Type} {R : β → γ → Prop} {l₁ : List β} {l₂ : List γ} (h : List.Forall₂ R l₁ l₂) {b : γ}
    (hb : b ∈ l₂) : ∃ a, R a b := by
  induction h with
  | nil => cases hb
  | cons hab _ ih =>
    rcases List.mem_cons.1 hb with rfl | hb'
    · exact ⟨_, hab⟩
    · exact ih hb'

end poly

/-! ## 1. stages that are dual sound on a set of (dual) inputs -/

/-- `DualSoundStage` restricted to the dual inputs satisfying `P` (a condition on the PRIMAL point and batch size: "no element
    at a kink / at a `softplus` threshold").  `DualSoundStage t S D` is the case `P = True`. -/
structure DualSoundStageOn (t : ℝ) (P : ℕ → Array (ℝ × ℝ) → Array (ℝ × ℝ) → Prop) (S : ℝ → BStage ℝ) (D : BStage (ℝ × ℝ)) :
    Prop where
  ok : ∀ (B : ℕ) (X c : ℝ → Array ℝ) (dX dc dY : Array (ℝ × ℝ)) (dL : List (ℝ × ℝ)), P B dX dc → DA t X dX → DA t c dc →
    D B dX dc = .ok (dY, dL) →
    ∃ (Y : ℝ → Array ℝ) (L : ℝ → List ℝ), (∀ s, S s B (X s) (c s) = .ok (Y s, L s)) ∧ DA t Y dY ∧ DV t L dL
  raises : ∀ (B : ℕ) (X c : ℝ → Array ℝ) (dX dc : Array (ℝ × ℝ)) (err : Err), P B dX dc → DA t X dX → DA t c dc →
    D B dX dc = .error err → ∀ s, S s B (X s) (c s) = .error err

theorem dualSoundStage_iff_on {S : ℝ → BStage ℝ} {D : BStage (ℝ × ℝ)} :
    DualSoundStage t S D ↔ DualSoundStageOn t (fun _ _ _ => True) S D :=
  ⟨fun h => ⟨fun B X c dX dc dY dL _ => h.ok B X c dX dc dY dL, fun B X c dX dc err _ => h.raises B X c dX dc err⟩,
   fun h => ⟨fun B X c dX dc dY dL => h.ok B X c dX dc dY dL trivial, fun B X c dX dc err => h.raises B X c dX dc err trivial⟩⟩

theorem DualSoundStage.on {S : ℝ → BStage ℝ} {D : BStage (ℝ × ℝ)} (h : DualSoundStage t S D)
    (P : ℕ → Array (ℝ × ℝ) → Array (ℝ × ℝ) → Prop) : DualSoundStageOn t P S D :=
  ⟨fun B X c dX dc dY dL _ => h.ok B X c dX dc dY dL, fun B X c dX dc err _ => h.raises B X c dX dc err⟩

/-! ## 2. `sum_except_batch` on dual numbers -/

theorem foldl_add_dual (l : List ℕ) (g : ℝ → ℕ → ℝ) (g' : ℕ → ℝ × ℝ) (hg : ∀ k, IsDual (fun s => g s k) t (g' k))
    {a : ℝ → ℝ} {a' : ℝ × ℝ} (ha : IsDual a t a') :
    IsDual (fun s => l.foldl (fun acc k => (NF.realX e).add acc (g s k)) (a s)) t
      (l.foldl (fun acc k => (dualX (NF.realX e)).add acc (g' k)) a') := by
  induction l generalizing a a' with
  | nil => simpa using ha
  | cons k l ih =>
    simp only [List.foldl_cons]
    exact ih (IsDual.add e ha (hg k))

/-- `sum_except_batch` (`sumRows`) of a curve of flat arrays -/
theorem sumRows_dual (B : ℕ) {L : ℝ → Array ℝ} {dL : Array (ℝ × ℝ)} (h : DA t L dL) :
    DV t (fun s => sumRows (NF.realX e) B (L s)) (sumRows (dualX (NF.realX e)) B dL) := by
  have hsz := h.size
  unfold sumRows
  simp only [hsz]
  refine DL.ofMap _ _ _ (fun b _ => ?_)
  refine foldl_add_dual _ _ _ (fun k => ?_) (IsDual.zero e t)
  simp only [array_getD_toList]
  exact DL.getD' h _ (IsDual.zero e t)

/-! ## 3. a never-raising element-wise layer is a dual-sound stage -/

theorem outYG_real (r : Except Err (ℝ × ℝ)) : outYG (NF.realX e) r = outY r := by
  cases r <;> simp [outYG, outY]
theorem outLG_real (r : Except Err (ℝ × ℝ)) : outLG (NF.realX e) r = outL r := by
  cases r <;> simp [outLG, outL]

theorem dualRes_isDualY {F : ℝ → Except Err (ℝ × ℝ)} {r} (h : DualRes F t r) :
    IsDual (fun s => outYG (NF.realX e) (F s)) t (outYG (dualX (NF.realX e)) r) := by
  obtain ⟨dy, dl, rfl, h2, h3, _⟩ := h
  simp only [outYG_real]
  exact ⟨by show dy.1 = outY (F t); rw [h2]; rfl, h3⟩

theorem dualRes_isDualL {F : ℝ → Except Err (ℝ × ℝ)} {r} (h : DualRes F t r) :
    IsDual (fun s => outLG (NF.realX e) (F s)) t (outLG (dualX (NF.realX e)) r) := by
  obtain ⟨dy, dl, rfl, h2, _, h4⟩ := h
  simp only [outLG_real]
  exact ⟨by show dl.1 = outL (F t); rw [h2]; rfl, h4⟩

variable (e) in
/-- **the polymorphic fold lemma at work: an executed element-wise layer (`nonlinApply` through `nonlinStage`) that never raises
    over the reals, whose element function is dual sound (`DualRes`, the per-element lemmas of `DualXNonlin`) at every dual input
    satisfying `Pel`, is a dual-sound stage on the arrays all of whose entries satisfy `Pel`**; the element parameters `ps` move
    with `s`. -/
theorem dualSound_nonlinStage_gen (kind : String) (ds : Array Float) (inv : Bool) {ps : ℝ → List ℝ} {dps : List (ℝ × ℝ)}
    (Pel : ℝ × ℝ → Prop) (htot : ∀ s x, ∃ p, nonlinEl (NF.realX e) kind ds (ps s) inv x = .ok p)
    (hel : ∀ fx dx, IsDual fx t dx → Pel dx →
      DualRes (fun s => nonlinEl (NF.realX e) kind ds (ps s) inv (fx s)) t (nonlinEl (dualX (NF.realX e)) kind ds dps inv dx)) :
    DualSoundStageOn t (fun _ dX _ => ∀ d ∈ dX.toList, Pel d)
      (fun s => nonlinStage (NF.realX e) kind ds (ps s) inv) (nonlinStage (dualX (NF.realX e)) kind ds dps inv) := by
  have hD : ∀ (X : ℝ → Array ℝ) (dX : Array (ℝ × ℝ)), (∀ d ∈ dX.toList, Pel d) → DA t X dX →
      ∀ d ∈ dX.toList, ∃ p, nonlinEl (dualX (NF.realX e)) kind ds dps inv d = .ok p := by
    intro X dX hP hX d hd
    obtain ⟨fs, _, h2⟩ := hX
    obtain ⟨f, hf⟩ := forall₂_mem_right h2 hd
    obtain ⟨dy, dl, hr, _⟩ := hel f d hf (hP d hd)
    exact ⟨_, hr⟩
  constructor
  · intro B X c dX dc dY dL hP hX _ h
    rw [nonlinStage_ok_of_total _ _ _ _ _ _ _ _ (hD X dX hP hX)] at h
    simp only [Except.ok.injEq, Prod.mk.injEq] at h
    obtain ⟨rfl, rfl⟩ := h
    refine ⟨_, _, fun s => nonlinStage_ok_of_total _ _ _ _ _ _ _ _ (fun xi _ => htot s xi), ?_, ?_⟩
    · unfold DA
      exact DL.map' (fun s xi => outYG (NF.realX e) (nonlinEl (NF.realX e) kind ds (ps s) inv xi))
        (fun d => outYG (dualX (NF.realX e)) (nonlinEl (dualX (NF.realX e)) kind ds dps inv d)) hX
        (fun f d hd hfd => dualRes_isDualY (hel f d hfd (hP d hd)))
    · refine sumRows_dual B ?_
      unfold DA
      exact DL.map' (fun s xi => outLG (NF.realX e) (nonlinEl (NF.realX e) kind ds (ps s) inv xi))
        (fun d => outLG (dualX (NF.realX e)) (nonlinEl (dualX (NF.realX e)) kind ds dps inv d)) hX
        (fun f d hd hfd => dualRes_isDualL (hel f d hfd (hP d hd)))
  · intro B X c dX dc err hP hX _ h
    rw [nonlinStage_ok_of_total _ _ _ _ _ _ _ _ (hD X dX hP hX)] at h
    cases h

theorem DualSoundStageOn.mono {P P' : ℕ → Array (ℝ × ℝ) → Array (ℝ × ℝ) → Prop} {S : ℝ → BStage ℝ} {D : BStage (ℝ × ℝ)}
    (h : DualSoundStageOn t P S D) (hPP : ∀ B dX dc, P' B dX dc → P B dX dc) : DualSoundStageOn t P' S D :=
  ⟨fun B X c dX dc dY dL hP => h.ok B X c dX dc dY dL (hPP _ _ _ hP),
   fun B X c dX dc err hP => h.raises B X c dX dc err (hPP _ _ _ hP)⟩

/-- parameter `k` of an element-wise class along a curve of parameter lists -/
theorem psGetD_dual {ps : ℝ → List ℝ} {dps : List (ℝ × ℝ)} (hps : DV t ps dps) (k : ℕ) :
    IsDual (fun s => (ps s).getD k (NF.realX e).zero) t (dps.getD k (dualX (NF.realX e)).zero) :=
  DL.getD' hps k (IsDual.zero e t)

theorem psGetD_val (dps : List (ℝ × ℝ)) (k : ℕ) : dps.getD k (dualX (NF.realX e)).zero = dps.getD k (0, 0) := by
  rw [d_zero]

/-! ### 3a. `PointwiseAffineTransform` (both directions; scalar `scale`, `shift` moving) -/

variable (e) in
/-- **`PointwiseAffineTransform` (forward or inverse) as a stage**: `scale = ps[0]`, `shift = ps[1]` move along any differentiable
    curve; forced side condition `scale ≠ 0` at the primal point (`log |scale|`, and the constructor rejects `0`). -/
theorem dualSound_nonlinStage_affine (ds : Array Float) (inv : Bool) {ps : ℝ → List ℝ} {dps : List (ℝ × ℝ)} (hps : DV t ps dps)
    (h0 : (dps.getD 0 (0, 0)).1 ≠ 0) :
    DualSoundStage t (fun s => nonlinStage (NF.realX e) "Affine" ds (ps s) inv)
      (nonlinStage (dualX (NF.realX e)) "Affine" ds dps inv) := by
  refine dualSoundStage_iff_on.2 ((dualSound_nonlinStage_gen e "Affine" ds inv (fun _ => True) ?_ ?_).mono
    (fun _ _ _ _ _ _ => trivial))
  · intro s x
    cases inv <;> exact ⟨_, rfl⟩
  · intro fx dx hx _
    have h0' : (dps.getD 0 (dualX (NF.realX e)).zero).1 ≠ 0 := by rw [psGetD_val]; exact h0
    simp only [nonlinEl_Affine]
    cases inv
    · exact affineT_fwd_dual e hx (psGetD_dual hps 0) (psGetD_dual hps 1) h0'
    · exact affineT_inv_dual e hx (psGetD_dual hps 0) (psGetD_dual hps 1) h0'

/-! ### 3b. `Exp` forward -/

variable (e) in
/-- **`Exp.forward` as a stage**: no side condition, no parameter -/
theorem dualSound_nonlinStage_exp (ds : Array Float) (ps : ℝ → List ℝ) (dps : List (ℝ × ℝ)) :
    DualSoundStage t (fun s => nonlinStage (NF.realX e) "Exp" ds (ps s) false)
      (nonlinStage (dualX (NF.realX e)) "Exp" ds dps false) := by
  refine dualSoundStage_iff_on.2 ((dualSound_nonlinStage_gen e "Exp" ds false (fun _ => True) ?_ ?_).mono
    (fun _ _ _ _ _ _ => trivial))
  · intro s x; exact ⟨_, rfl⟩
  · intro fx dx hx _
    simp only [nonlinEl_Exp]
    exact expT_fwd_dual e hx

/-! ### 3c. `LeakyReLU` (both directions), away from the kink -/

variable (e) in
/-- **`LeakyReLU` (forward or inverse) as a stage, on the arrays with no entry AT the kink `0`**; `log_negative_slope = ps[0]` may
    move.  The exclusion is forced: `leakyStage_not_dual_sound_at_kink`. -/
theorem dualSound_nonlinStage_leakyRelu (ds : Array Float) (inv : Bool) {ps : ℝ → List ℝ} {dps : List (ℝ × ℝ)}
    (hps : DV t ps dps) :
    DualSoundStageOn t (fun _ dX _ => ∀ d ∈ dX.toList, d.1 ≠ 0)
      (fun s => nonlinStage (NF.realX e) "LeakyReLU" ds (ps s) inv)
      (nonlinStage (dualX (NF.realX e)) "LeakyReLU" ds dps inv) := by
  refine dualSound_nonlinStage_gen e "LeakyReLU" ds inv (fun d => d.1 ≠ 0) ?_ ?_
  · intro s x; exact ⟨_, rfl⟩
  · intro fx dx hx hne
    simp only [nonlinEl_LeakyReLU]
    cases inv
    · exact leakyReluT_fwd_dual e _ hx (psGetD_dual hps 0) hne
    · exact leakyReluT_inv_dual e _ hx (psGetD_dual hps 0) hne

/-! ### 3d. `Tanh` forward, away from the `softplus` threshold of its log-det -/

variable (e) in
/-- **`Tanh.forward` as a stage, on the arrays with no entry at the `softplus` threshold `−2 x = 20`** (the log-det
    `2 (log 2 − x − softplus (−2 x))` has a jump there) -/
theorem dualSound_nonlinStage_tanh (ds : Array Float) (ps : ℝ → List ℝ) (dps : List (ℝ × ℝ)) :
    DualSoundStageOn t (fun _ dX _ => ∀ d ∈ dX.toList, e (-2.0) * d.1 ≠ 20)
      (fun s => nonlinStage (NF.realX e) "Tanh" ds (ps s) false) (nonlinStage (dualX (NF.realX e)) "Tanh" ds dps false) := by
  refine dualSound_nonlinStage_gen e "Tanh" ds false (fun d => e (-2.0) * d.1 ≠ 20) ?_ ?_
  · intro s x; exact ⟨_, rfl⟩
  · intro fx dx hx hne
    simp only [nonlinEl_Tanh]
    exact tanhT_fwd_dual e hx hne

/-! ### 3e. `Sigmoid` forward (= `Logit` inverse), away from the two `softplus` thresholds -/

variable (e) in
/-- **`Sigmoid.forward` as a stage, on the arrays with no entry at `T x = ±20`**; the temperature `T = ps[0]` may move (learnable
    temperature); `T ≠ 0` at the primal point (`log T`) -/
theorem dualSound_nonlinStage_sigmoid (ds : Array Float) {ps : ℝ → List ℝ} {dps : List (ℝ × ℝ)} (hps : DV t ps dps)
    (hT : (dps.getD 0 (0, 0)).1 ≠ 0) :
    DualSoundStageOn t (fun _ dX _ => ∀ d ∈ dX.toList, (dps.getD 0 (0, 0)).1 * d.1 ≠ 20 ∧ (dps.getD 0 (0, 0)).1 * d.1 ≠ -20)
      (fun s => nonlinStage (NF.realX e) "Sigmoid" ds (ps s) false)
      (nonlinStage (dualX (NF.realX e)) "Sigmoid" ds dps false) := by
  refine dualSound_nonlinStage_gen e "Sigmoid" ds false
    (fun d => (dps.getD 0 (0, 0)).1 * d.1 ≠ 20 ∧ (dps.getD 0 (0, 0)).1 * d.1 ≠ -20) ?_ ?_
  · intro s x; exact ⟨_, rfl⟩
  · intro fx dx hx hne
    simp only [nonlinEl_Sigmoid]
    refine sigmoidT_fwd_dual e _ hx (psGetD_dual hps 0) ?_ ?_ ?_
    · rw [psGetD_val]; exact hT
    · rw [psGetD_val]; exact hne.1
    · rw [psGetD_val]; exact hne.2

variable (e) in
/-- `Logit.inverse` is `Sigmoid.forward` -/
theorem dualSound_nonlinStage_logit_inv (ds : Array Float) {ps : ℝ → List ℝ} {dps : List (ℝ × ℝ)} (hps : DV t ps dps)
    (hT : (dps.getD 0 (0, 0)).1 ≠ 0) :
    DualSoundStageOn t (fun _ dX _ => ∀ d ∈ dX.toList, (dps.getD 0 (0, 0)).1 * d.1 ≠ 20 ∧ (dps.getD 0 (0, 0)).1 * d.1 ≠ -20)
      (fun s => nonlinStage (NF.realX e) "Logit" ds (ps s) true)
      (nonlinStage (dualX (NF.realX e)) "Logit" ds dps true) := by
  refine dualSound_nonlinStage_gen e "Logit" ds true
    (fun d => (dps.getD 0 (0, 0)).1 * d.1 ≠ 20 ∧ (dps.getD 0 (0, 0)).1 * d.1 ≠ -20) ?_ ?_
  · intro s x; exact ⟨_, rfl⟩
  · intro fx dx hx hne
    simp only [nonlinEl_Logit, Bool.not_true]
    refine sigmoidT_fwd_dual e _ hx (psGetD_dual hps 0) ?_ ?_ ?_
    · rw [psGetD_val]; exact hT
    · rw [psGetD_val]; exact hne.1
    · rw [psGetD_val]; exact hne.2

/-! ## 4. the coupling layer (forward, no unconditional transform of the identity features) as a stage -/

section coupling

/-- the two scalar semantics -/
abbrev RX (e : Float → ℝ) : XOps ℝ := NF.realX e
abbrev DX (e : Float → ℝ) : XOps (ℝ × ℝ) := dualX (NF.realX e)

/-- a curve of accepted element outcomes against an accepted dual outcome -/
def RelEl (t : ℝ) (f : ℝ → ElRes ℝ) (d : ElRes (ℝ × ℝ)) : Prop :=
  ∃ (fy fl : ℝ → ℝ) (al : ℝ → List ℝ) (dy dl : ℝ × ℝ) (dal : List (ℝ × ℝ)),
    (∀ s, f s = .ok (fy s, fl s, al s)) ∧ d = .ok (dy, dl, dal) ∧ IsDual fy t dy ∧ IsDual fl t dl

/-- a curve of buffer writes (fixed position) against a dual buffer write -/
def RelUpd (t : ℝ) (f : ℝ → ℕ × ElRes ℝ) (d : ℕ × ElRes (ℝ × ℝ)) : Prop :=
  (∀ s, (f s).1 = d.1) ∧ RelEl t (fun s => (f s).2) d.2

theorem forall₂_set {β γ : Type} {R : β → γ → Prop} {l₁ : List β} {l₂ : List γ} (h : List.Forall₂ R l₁ l₂) (j : ℕ) {a : β}
    {b : γ} (hab : R a b) : List.Forall₂ R (l₁.set j a) (l₂.set j b) := by
  induction h generalizing j with
  | nil => simp
  | cons h1 _ ih =>
    cases j with
    | zero => simpa using List.Forall₂.cons hab (by assumption)
    | succ j => simpa using List.Forall₂.cons h1 (ih j)

theorem forall₂_mem_left {β γ : Type} {R : β → γ → Prop} {l₁ : List β} {l₂ : List γ} (h : List.Forall₂ R l₁ l₂) {a : β}
    (ha : a ∈ l₁) : ∃ b, R a b := by
  induction h with
  | nil => cases ha
  | cons hab _ ih =>
    rcases List.mem_cons.1 ha with rfl | ha'
    · exact ⟨_, hab⟩
    · exact ih ha'

theorem set!_dual {A : ℝ → Array ℝ} {dA : Array (ℝ × ℝ)} (hA : DA t A dA) (j : ℕ) {fy : ℝ → ℝ} {dy : ℝ × ℝ}
    (hy : IsDual fy t dy) : DA t (fun s => (A s).set! j (fy s)) (dA.set! j dy) := by
  obtain ⟨fs, hF, h2⟩ := hA
  refine ⟨fs.set j fy, fun s => ?_, ?_⟩
  · simp only [Array.set!_eq_setIfInBounds, Array.toList_setIfInBounds, hF s, List.map_set]
  · simp only [Array.set!_eq_setIfInBounds, Array.toList_setIfInBounds]
    exact forall₂_set h2 j hy

theorem applyUpd_dual {us : ℝ → List (ℕ × ElRes ℝ)} {dus : List (ℕ × ElRes (ℝ × ℝ))} (hu : DL (RelUpd t) us dus)
    {A : ℝ → Array ℝ} {dA : Array (ℝ × ℝ)} (hA : DA t A dA) :
    DA t (fun s => applyUpd (us s) (A s)) (applyUpd dus dA) := by
  unfold applyUpd
  refine DL.foldl' (rel₀ := fun (f : ℝ → Array ℝ) (d : Array (ℝ × ℝ)) => DA t f d) _ _ hu ?_ hA
  intro acc a f d hacc hfd
  obtain ⟨hj, fy, fl, al, dy, dl, dal, hf, hd, hy, _⟩ := hfd
  simp only [hd]
  have h0 := set!_dual hacc d.1 hy
  unfold DA at h0 ⊢
  refine DL.congr h0 (fun s => ?_)
  have h1 := hf s
  simp only at h1
  simp only [h1, hj s]

theorem ldFold_dual {rs : ℝ → List (ElRes ℝ)} {drs : List (ElRes (ℝ × ℝ))} (h : DL (RelEl t) rs drs) :
    IsDual (fun s => ldFold (RX e) (rs s)) t (ldFold (DX e) drs) := by
  unfold ldFold
  refine DL.foldl' (rel₀ := fun (f : ℝ → ℝ) (d : ℝ × ℝ) => IsDual f t d) _ _ h ?_ (IsDual.zero e t)
  intro acc a f d hacc hfd
  obtain ⟨fy, fl, al, dy, dl, dal, hf, hd, _, hl⟩ := hfd
  simp only [hd]
  refine (IsDual.add e hacc hl).congr_fun (fun s => ?_)
  simp only [hf s]

theorem firstErr_none_of_rel {rs : ℝ → List (ElRes ℝ)} {drs : List (ElRes (ℝ × ℝ))} (h : DL (RelEl t) rs drs) :
    firstErr drs = none ∧ ∀ s, firstErr (rs s) = none := by
  obtain ⟨fs, hF, h2⟩ := h
  constructor
  · unfold firstErr
    rw [List.findSome?_eq_none_iff]
    intro d hd
    obtain ⟨f, fy, fl, al, dy, dl, dal, _, rfl, _⟩ := forall₂_mem_right h2 hd
    rfl
  · intro s
    unfold firstErr
    rw [List.findSome?_eq_none_iff, hF s]
    intro r hr
    obtain ⟨f, hf, rfl⟩ := List.mem_map.1 hr
    obtain ⟨d, fy, fl, al, dy, dl, dal, hfs, _⟩ := forall₂_mem_left h2 hf
    rw [hfs s]

theorem DL.ofFlatMap {A B ι : Type} {rel : (ℝ → A) → B → Prop} (l : List ι) (g : ℝ → ι → List A) (g' : ι → List B)
    (h : ∀ i ∈ l, DL rel (fun s => g s i) (g' i)) : DL rel (fun s => l.flatMap (g s)) (l.flatMap g') := by
  induction l with
  | nil => simpa using (DL.nil : DL rel (fun _ => []) [])
  | cons i l ih =>
    simp only [List.flatMap_cons]
    exact DL.append (h i List.mem_cons_self) (ih fun j hj => h j (List.mem_cons_of_mem _ hj))

theorem DL.snd {us : ℝ → List (ℕ × ElRes ℝ)} {dus : List (ℕ × ElRes (ℝ × ℝ))} (hu : DL (RelUpd t) us dus) :
    DL (RelEl t) (fun s => (us s).map (·.2)) (dus.map (·.2)) :=
  DL.map' (fun _ u => u.2) (fun u => u.2) hu (fun _ _ _ h => h.2)

theorem entryA_dual {X : ℝ → Array ℝ} {dX : Array (ℝ × ℝ)} (hX : DA t X dX) (j : ℕ) :
    IsDual (fun s => (X s).getD j (RX e).zero) t (dX.getD j (DX e).zero) := by
  simp only [array_getD_toList]
  exact DL.getD' hX j (IsDual.zero e t)

theorem tRow_dual (C S : ℕ) (idx : List ℕ) {X : ℝ → Array ℝ} {dX : Array (ℝ × ℝ)} (hX : DA t X dX)
    (elR : ℝ → ℕ → ℕ → ℝ → ElRes ℝ) (elD : ℕ → ℕ → ℝ × ℝ → ElRes (ℝ × ℝ))
    (hel : ∀ tp sp fx dx, IsDual fx t dx → RelEl t (fun s => elR s tp sp (fx s)) (elD tp sp dx)) (b : ℕ) :
    DL (RelUpd t) (fun s => tRow (RX e) C S idx (X s) (elR s) b) (tRow (DX e) C S idx dX elD b) := by
  unfold tRow
  refine DL.ofMap _ _ _ ?_
  rintro ⟨tp, sp⟩ _
  exact ⟨fun _ => rfl, hel tp sp _ _ (entryA_dual hX _)⟩

theorem gatherCh_dual (B C S : ℕ) (idx : List ℕ) {X : ℝ → Array ℝ} {dX : Array (ℝ × ℝ)} (hX : DA t X dX) :
    DA t (fun s => gatherCh (X s) B C S idx (RX e).zero) (gatherCh dX B C S idx (DX e).zero) := by
  unfold gatherCh DA
  exact DL.ofFlatMap _ _ _ fun b _ => DL.ofFlatMap _ _ _ fun ch _ => DL.ofMap _ _ _ fun sp _ => entryA_dual hX _

theorem identityIdx_dual (dmask : List (ℝ × ℝ)) :
    identityIdx (DX e) dmask = identityIdx (RX e) (dmask.map Prod.fst) := by
  unfold identityIdx
  rw [List.length_map]
  apply List.filter_congr
  intro i _
  rw [(fst_hom e).le, (fst_hom e).zero]
  congr 1
  rw [← (fst_hom e).zero, List.getD_map]

theorem flatMap_const_nil {ι β : Type} (l : List ι) : l.flatMap (fun _ => ([] : List β)) = [] := by
  induction l <;> simp_all

theorem applyUpd_nil {α : Type} (a : Array α) : applyUpd ([] : List (ℕ × ElRes α)) a = a := rfl

/-- the forward coupling layer without an unconditional transform of the identity features, as the three fields the call returns
    (any scalar semantics) -/
theorem couplingStage_none_fwd {α : Type} (o : XOps α) (c : ElCfg) (mask : List α) (S : ℕ)
    (net : ℕ → Array α → Array α → Array α) (B : ℕ) (x ctx : Array α) :
    couplingStage o c mask S false none #[] net B x ctx =
      (let params := net B (gatherCh x B mask.length S (identityIdx o mask) o.zero) ctx
       let rows := fun b => condRow o c mask.length S (transformIdx o mask) x params false b
       ofT { out := applyUpd ((List.range B).flatMap rows) x,
             ld := (List.range B).map fun b => ldFold o ((rows b).map (·.2)),
             err := firstErr (((List.range B).flatMap rows).map (·.2)) }) := by
  simp [couplingStage, condInOf, couplingApply, ucRow, ofT, List.flatMap_map, Function.comp_def, flatMap_const_nil,
    applyUpd_nil]

theorem ofT_mk_none {α : Type} {out : Array α} {ld : List α} {err : Option Err} (h : err = none) :
    ofT { out := out, ld := ld, err := err } = .ok (out, ld) := by
  subst h; rfl

/-- **the conditioner run at dual numbers is sound along every differentiable curve**: `netR s` is the real network at parameter
    `s` (its weights move with `s`), `netD` the network on dual numbers; for every batch size and every curve of (identity split,
    context) represented by the dual data, the dual output holds entry by entry (value at `t`, derivative at `t`) of the real
    outputs (in particular the same size). -/
structure DualSoundNet (t : ℝ) (netR : ℝ → ℕ → Array ℝ → Array ℝ → Array ℝ)
    (netD : ℕ → Array (ℝ × ℝ) → Array (ℝ × ℝ) → Array (ℝ × ℝ)) : Prop where
  sound : ∀ (B : ℕ) (X c : ℝ → Array ℝ) (dX dc : Array (ℝ × ℝ)), DA t X dX → DA t c dc →
    DA t (fun s => netR s B (X s) (c s)) (netD B dX dc)

variable (e) in
/-- **the executed forward coupling layer (`couplingStage`: gather the identity split, run the conditioner, `couplingApply`) with a
    dual-sound conditioner and a never-raising dual-sound element family is a dual-sound stage** (any numeric mask, `S`, `B`;
    the mask is a constant buffer compared on value components) -/
theorem dualSound_couplingStage_of_el (c : ElCfg) (dmask : List (ℝ × ℝ)) (S : ℕ)
    (hel : ∀ (Ft b tp sp : ℕ) (P : ℝ → Array ℝ) (dP : Array (ℝ × ℝ)) (fx : ℝ → ℝ) (dx : ℝ × ℝ), DA t P dP → IsDual fx t dx →
      RelEl t (fun s => couplingEl (RX e) c Ft S (P s) false b tp sp (fx s)) (couplingEl (DX e) c Ft S dP false b tp sp dx))
    {netR : ℝ → ℕ → Array ℝ → Array ℝ → Array ℝ} {netD : ℕ → Array (ℝ × ℝ) → Array (ℝ × ℝ) → Array (ℝ × ℝ)}
    (hnet : DualSoundNet t netR netD) :
    DualSoundStage t (fun s => couplingStage (NF.realX e) c (dmask.map Prod.fst) S false none #[] (netR s))
      (couplingStage (dualX (NF.realX e)) c dmask S false none #[] netD) := by
  have key : ∀ (B : ℕ) (X c' : ℝ → Array ℝ) (dX dc : Array (ℝ × ℝ)), DA t X dX → DA t c' dc →
      ∃ (Y : ℝ → Array ℝ) (L : ℝ → List ℝ) (dY : Array (ℝ × ℝ)) (dL : List (ℝ × ℝ)),
        couplingStage (dualX (NF.realX e)) c dmask S false none #[] netD B dX dc = .ok (dY, dL) ∧
        (∀ s, couplingStage (NF.realX e) c (dmask.map Prod.fst) S false none #[] (netR s) B (X s) (c' s) = .ok (Y s, L s)) ∧
        DA t Y dY ∧ DV t L dL := by
    intro B X c' dX dc hX hc
    have hlen : (dmask.map Prod.fst).length = dmask.length := List.length_map _
    have hI := identityIdx_dual (e := e) dmask
    have hT := DualXCoupling.transformIdx_dual (e := e) dmask
    have hG := gatherCh_dual (e := e) B dmask.length S (identityIdx (DX e) dmask) hX
    have hP := hnet.sound B _ c' _ dc hG hc
    have hrows : ∀ b, DL (RelUpd t)
        (fun s => condRow (RX e) c dmask.length S (transformIdx (DX e) dmask) (X s)
          (netR s B (gatherCh (X s) B dmask.length S (identityIdx (DX e) dmask) (RX e).zero) (c' s)) false b)
        (condRow (DX e) c dmask.length S (transformIdx (DX e) dmask) dX
          (netD B (gatherCh dX B dmask.length S (identityIdx (DX e) dmask) (DX e).zero) dc) false b) := fun b => by
      unfold condRow
      exact tRow_dual _ _ _ hX _ _ (fun tp sp fx dx hfx => hel _ b tp sp _ _ fx dx hP hfx) b
    have hall := DL.ofFlatMap (List.range B) _ _ (fun b _ => hrows b)
    obtain ⟨hE1, hE2⟩ := firstErr_none_of_rel (DL.snd hall)
    refine ⟨_, _, _, _, ?_, fun s => ?_, applyUpd_dual hall hX,
      DL.ofMap (List.range B) _ _ (fun b _ => ldFold_dual (e := e) (DL.snd (hrows b)))⟩
    · rw [couplingStage_none_fwd]
      exact ofT_mk_none hE1
    · rw [couplingStage_none_fwd]
      simp only [hlen, ← hI, ← hT]
      exact ofT_mk_none (hE2 s)
  constructor
  · intro B X c' dX dc dY dL hX hc h
    obtain ⟨Y, L, dY', dL', h1, h2, h3, h4⟩ := key B X c' dX dc hX hc
    rw [h1] at h
    simp only [Except.ok.injEq, Prod.mk.injEq] at h
    obtain ⟨rfl, rfl⟩ := h
    exact ⟨Y, L, h2, h3, h4⟩
  · intro B X c' dX dc err hX hc h
    obtain ⟨Y, L, dY', dL', h1, _⟩ := key B X c' dX dc hX hc
    rw [h1] at h
    cases h

/-! ### the affine (default activation `sigmoid(u + 2) + 1e-3`) and the additive element -/

variable (e) in
/-- one element of `AffineCouplingTransform` (default scale activation), conditioner output moving along a curve; forced reading
    of the constant: `0 ≤ e 1e-3` (then `scale > 0`) -/
theorem couplingEl_affine_rel {c : ElCfg} (hk : c.kind = "affine") (hact : (c.act == "general") = false) (he : 0 ≤ e 1e-3)
    (Ft S b tp sp : ℕ) {P : ℝ → Array ℝ} {dP : Array (ℝ × ℝ)} {fx : ℝ → ℝ} {dx : ℝ × ℝ} (hP : DA t P dP) (hx : IsDual fx t dx) :
    RelEl t (fun s => couplingEl (RX e) c Ft S (P s) false b tp sp (fx s)) (couplingEl (DX e) c Ft S dP false b tp sp dx) := by
  have hsh := entryA_dual (e := e) hP ((b * (2 * Ft) + tp) * S + sp)
  have hu := entryA_dual (e := e) hP ((b * (2 * Ft) + (Ft + tp)) * S + sp)
  have hsc := IsDual.add e (IsDual.sigmoid e (IsDual.add e hu (IsDual.two e t))) (IsDual.ofFloat e 1e-3 t)
  have hne : ((DX e).add ((DX e).sigmoid ((DX e).add (dP.getD ((b * (2 * Ft) + (Ft + tp)) * S + sp) (DX e).zero) (DX e).two))
      ((DX e).ofFloat 1e-3)).1 ≠ 0 := by
    rw [d_add, d_ofFloat]
    exact (add_pos_of_pos_of_nonneg (d_sigmoid_pos e _) he).ne'
  refine ⟨_, _, fun _ => [], _, _, [], fun s => ?_, ?_, IsDual.add e (IsDual.mul e hx hsc) hsh, IsDual.log e hsc hne⟩
  · simp only [couplingEl, hk, hact, beq_self_eq_true, if_true, Bool.false_eq_true, if_false, scaleShiftT, Except.map]
  · simp only [couplingEl, hk, hact, beq_self_eq_true, if_true, Bool.false_eq_true, if_false, scaleShiftT, Except.map]

variable (e) in
/-- one element of `AdditiveCouplingTransform` (`scale = 1`) -/
theorem couplingEl_additive_rel {c : ElCfg} (hk : c.kind = "additive") (Ft S b tp sp : ℕ) {P : ℝ → Array ℝ}
    {dP : Array (ℝ × ℝ)} {fx : ℝ → ℝ} {dx : ℝ × ℝ} (hP : DA t P dP) (hx : IsDual fx t dx) :
    RelEl t (fun s => couplingEl (RX e) c Ft S (P s) false b tp sp (fx s)) (couplingEl (DX e) c Ft S dP false b tp sp dx) := by
  have hsh := entryA_dual (e := e) hP ((b * Ft + tp) * S + sp)
  have hka : (("additive" : String) == "affine") = false := by decide
  refine ⟨_, _, fun _ => [], _, _, [], fun s => ?_, ?_, IsDual.add e (IsDual.mul e hx (IsDual.one e t)) hsh,
    IsDual.log e (IsDual.one e t) (by rw [d_one]; norm_num)⟩
  · simp only [couplingEl, hka, hk, beq_self_eq_true, if_true, Bool.false_eq_true, if_false, scaleShiftT, Except.map]
  · simp only [couplingEl, hka, hk, beq_self_eq_true, if_true, Bool.false_eq_true, if_false, scaleShiftT, Except.map]

variable (e) in
/-- **`AffineCouplingTransform.forward` (default scale activation) as a stage**, any dual-sound conditioner -/
theorem dualSound_couplingStage_affine {c : ElCfg} (hk : c.kind = "affine") (hact : (c.act == "general") = false)
    (he : 0 ≤ e 1e-3) (dmask : List (ℝ × ℝ)) (S : ℕ)
    {netR : ℝ → ℕ → Array ℝ → Array ℝ → Array ℝ} {netD : ℕ → Array (ℝ × ℝ) → Array (ℝ × ℝ) → Array (ℝ × ℝ)}
    (hnet : DualSoundNet t netR netD) :
    DualSoundStage t (fun s => couplingStage (NF.realX e) c (dmask.map Prod.fst) S false none #[] (netR s))
      (couplingStage (dualX (NF.realX e)) c dmask S false none #[] netD) :=
  dualSound_couplingStage_of_el e c dmask S
    (fun Ft b tp sp _ _ _ _ hP hx => couplingEl_affine_rel e hk hact he Ft S b tp sp hP hx) hnet

variable (e) in
/-- **`AdditiveCouplingTransform.forward` as a stage**, any dual-sound conditioner; no side condition at all -/
theorem dualSound_couplingStage_additive {c : ElCfg} (hk : c.kind = "additive") (dmask : List (ℝ × ℝ)) (S : ℕ)
    {netR : ℝ → ℕ → Array ℝ → Array ℝ → Array ℝ} {netD : ℕ → Array (ℝ × ℝ) → Array (ℝ × ℝ) → Array (ℝ × ℝ)}
    (hnet : DualSoundNet t netR netD) :
    DualSoundStage t (fun s => couplingStage (NF.realX e) c (dmask.map Prod.fst) S false none #[] (netR s))
      (couplingStage (dualX (NF.realX e)) c dmask S false none #[] netD) :=
  dualSound_couplingStage_of_el e c dmask S
    (fun Ft b tp sp _ _ _ _ hP hx => couplingEl_additive_rel e hk Ft S b tp sp hP hx) hnet

/-! ### an affine-map conditioner `x ↦ W x + b` on the rows of the identity split -/

/-- the conditioner `F.linear(x, W, b)` on a flat `[B, win]` array, returning `[B, wout]` (context ignored) -/
def affNet {α : Type} (o : XOps α) (win wout : ℕ) (W : List (List α)) (b : List α) : ℕ → Array α → Array α → Array α :=
  fun B x _ => ((LF.linear o.toOps W b (rowsD win o.zero B x)).flatMap (fitRow wout o.zero)).toArray

variable (e) in
/-- **the affine-map conditioner is dual sound**, weights and bias moving along any differentiable curve -/
theorem dualSoundNet_affNet (win wout : ℕ) {W : ℝ → List (List ℝ)} {dW : List (List (ℝ × ℝ))} {b : ℝ → List ℝ}
    {db : List (ℝ × ℝ)} (hW : DM t W dW) (hb : DV t b db) :
    DualSoundNet t (fun s => affNet (NF.realX e) win wout (W s) (b s)) (affNet (dualX (NF.realX e)) win wout dW db) where
  sound := fun B _ _ _ _ hX _ => flat_dual wout (linear_dual hW hb (rowsD_dual (e := e) win B hX))

/-- the forward affine / additive coupling stage accepts every call (any scalar semantics, any conditioner) -/
theorem total_couplingStage_affine {α : Type} (o : XOps α) {c : ElCfg} (hk : c.kind = "affine" ∨ c.kind = "additive")
    (mask : List α) (S : ℕ) (net : ℕ → Array α → Array α → Array α) :
    TotalStage (couplingStage o c mask S false none #[] net) := by
  intro B x ctx
  rw [couplingStage_none_fwd]
  refine ⟨_, ofT_mk_none ?_⟩
  unfold firstErr
  rw [List.findSome?_eq_none_iff]
  intro r hr
  simp only [List.mem_map, List.mem_flatMap, condRow, tRow] at hr
  obtain ⟨u, ⟨b, _, ⟨p, _, rfl⟩⟩, rfl⟩ := hr
  have hka : (("additive" : String) == "affine") = false := by decide
  rcases hk with hk | hk
  · simp only [couplingEl, hk, beq_self_eq_true, if_true, scaleShiftT, Bool.false_eq_true, if_false, Except.map]
  · simp only [couplingEl, hk, hka, beq_self_eq_true, if_true, scaleShiftT, Bool.false_eq_true, if_false, Except.map]

end coupling

/-! ## 5. line readings, the kink of `LeakyReLU`, concrete instances of the element-wise stages -/

/-- **what a stage that is dual sound at `0` says along straight lines**: if the dual call on `(dX, dc)` (inside the set `P`)
    returns `(dY, dL)`, the real call along `primal + s · tangent` is accepted at every `s` with outputs / log-dets of the same
    sizes, and every entry of `dY`, `dL` is (value at `s = 0`, derivative at `s = 0`) of the matching real entry. -/
theorem DualSoundStageOn.line {P : ℕ → Array (ℝ × ℝ) → Array (ℝ × ℝ) → Prop} {S : ℝ → BStage ℝ} {D : BStage (ℝ × ℝ)}
    (h : DualSoundStageOn 0 P S D) (B : ℕ) {dX dc dY : Array (ℝ × ℝ)} {dL : List (ℝ × ℝ)} (hP : P B dX dc)
    (hD : D B dX dc = .ok (dY, dL)) :
    ∃ (Y : ℝ → Array ℝ) (L : ℝ → List ℝ), (∀ s, S s B (lineA s dX) (lineA s dc) = .ok (Y s, L s)) ∧
      (∀ s, (Y s).size = dY.size) ∧ (∀ s, (L s).length = dL.length) ∧
      (∀ k, (dY.toList.getD k (0, 0)).1 = (Y 0).toList.getD k 0 ∧
        HasDerivAt (fun s => (Y s).toList.getD k 0) (dY.toList.getD k (0, 0)).2 0) ∧
      (∀ i, (dL.getD i (0, 0)).1 = (L 0).getD i 0 ∧ HasDerivAt (fun s => (L s).getD i 0) (dL.getD i (0, 0)).2 0) := by
  obtain ⟨Y, L, hS, hY, hL⟩ := h.ok B _ _ dX dc dY dL hP (lineA_dual dX) (lineA_dual dc) hD
  exact ⟨Y, L, hS, hY.size, DL.length hL, fun k => hY.entry k, fun i => DV.entry hL i⟩

theorem dualSoundStage_line {S : ℝ → BStage ℝ} {D : BStage (ℝ × ℝ)} (h : DualSoundStage 0 S D) (B : ℕ)
    {dX dc dY : Array (ℝ × ℝ)} {dL : List (ℝ × ℝ)} (hD : D B dX dc = .ok (dY, dL)) :
    ∃ (Y : ℝ → Array ℝ) (L : ℝ → List ℝ), (∀ s, S s B (lineA s dX) (lineA s dc) = .ok (Y s, L s)) ∧
      (∀ s, (Y s).size = dY.size) ∧ (∀ s, (L s).length = dL.length) ∧
      (∀ k, (dY.toList.getD k (0, 0)).1 = (Y 0).toList.getD k 0 ∧
        HasDerivAt (fun s => (Y s).toList.getD k 0) (dY.toList.getD k (0, 0)).2 0) ∧
      (∀ i, (dL.getD i (0, 0)).1 = (L 0).getD i 0 ∧ HasDerivAt (fun s => (L s).getD i 0) (dL.getD i (0, 0)).2 0) :=
  (dualSoundStage_iff_on.1 h).line B trivial hD

variable (e) in
/-- **the exclusion of the kink is forced**: with a slope other than `1` the `LeakyReLU` stage is NOT a `DualSoundStage` (the dual
    run at the entry `(0, 1)` is accepted and claims the derivative `1`, but the executed real map is not differentiable at `0`:
    `NonlinExec.leakyReluT_not_differentiable_at_zero`) -/
theorem leakyStage_not_dual_sound_at_kink (ds : Array Float) (ls : ℝ) (h1 : e (ds.getD 0 0.0) ≠ 1) :
    ¬ DualSoundStage 0 (fun _ => nonlinStage (NF.realX e) "LeakyReLU" ds [ls] false)
      (nonlinStage (dualX (NF.realX e)) "LeakyReLU" ds [(ls, 0)] false) := by
  intro h
  have hD := nonlinStage_ok_of_total (dualX (NF.realX e)) "LeakyReLU" ds [(ls, 0)] false 1 #[(0, 1)] #[]
    (fun xi _ => ⟨_, rfl⟩)
  have hX : DA 0 (fun s : ℝ => #[s]) #[((0 : ℝ), (1 : ℝ))] :=
    DL.cons (rel := fun f d => IsDual f 0 d) (IsDual.id 0) DL.nil
  have hc : DA 0 (fun _ : ℝ => (#[] : Array ℝ)) #[] := DL.nil
  obtain ⟨Y, L, hS, hY, -⟩ := h.ok 1 _ _ _ _ _ _ hX hc hD
  have hfun : ∀ s, (Y s).toList.getD 0 0 = outY (leakyReluT (NF.realX e) (ds.getD 0 0.0) ls false s) := by
    intro s
    have hR := nonlinStage_ok_of_total (NF.realX e) "LeakyReLU" ds [ls] false 1 #[s] #[] (fun xi _ => ⟨_, rfl⟩)
    have := (hS s).symm.trans hR
    simp only [Except.ok.injEq, Prod.mk.injEq] at this
    rw [this.1]
    simp [outYG_real, nonlinEl_LeakyReLU]
  have hd := (hY.entry 0).2
  have hdiff : DifferentiableAt ℝ (fun s => outY (leakyReluT (NF.realX e) (ds.getD 0 0.0) ls false s)) 0 := by
    have : (fun s => (Y s).toList.getD 0 0) = fun s => outY (leakyReluT (NF.realX e) (ds.getD 0 0.0) ls false s) :=
      funext hfun
    rw [this] at hd
    exact hd.differentiableAt
  exact (leakyReluT_not_differentiable_at_zero (e := e) _ ls h1).2 hdiff

/-! ### concrete instances (width 2, one row, every parameter and the inputs moving) -/

variable (e) in
/-- `PointwiseAffineTransform`, `scale = 2` (tangent `1`), `shift = 5` (tangent `−1`), the row `(1, 3)` with tangents `(1, 0)`:
    the dual call is accepted and its entries are (value, derivative) along the line through inputs and parameters -/
example : ∃ dY dL, nonlinStage (dualX (NF.realX e)) "Affine" #[] [(2, 1), (5, -1)] false 1 #[(1, 1), (3, 0)] #[] = .ok (dY, dL) ∧
    ∃ (Y : ℝ → Array ℝ) (L : ℝ → List ℝ),
      (∀ s, nonlinStage (NF.realX e) "Affine" #[] (lineV s [(2, 1), (5, -1)]) false 1 (lineA s #[(1, 1), (3, 0)]) (lineA s #[])
        = .ok (Y s, L s)) ∧
      (∀ k, (dY.toList.getD k (0, 0)).1 = (Y 0).toList.getD k 0 ∧
        HasDerivAt (fun s => (Y s).toList.getD k 0) (dY.toList.getD k (0, 0)).2 0) ∧
      (∀ i, (dL.getD i (0, 0)).1 = (L 0).getD i 0 ∧ HasDerivAt (fun s => (L s).getD i 0) (dL.getD i (0, 0)).2 0) := by
  have hD := nonlinStage_ok_of_total (dualX (NF.realX e)) "Affine" #[] [(2, 1), (5, -1)] false 1 #[(1, 1), (3, 0)] #[]
    (fun xi _ => ⟨_, rfl⟩)
  obtain ⟨Y, L, h1, -, -, h2, h3⟩ :=
    dualSoundStage_line (dualSound_nonlinStage_affine e #[] false (lineV_dual [(2, 1), (5, -1)]) (by norm_num)) 1 hD
  exact ⟨_, _, hD, Y, L, h1, h2, h3⟩

variable (e) in
/-- `Exp.forward` on the row `(0, −1)` with tangents `(1, 2)` -/
example : ∃ dY dL, nonlinStage (dualX (NF.realX e)) "Exp" #[] [] false 1 #[(0, 1), (-1, 2)] #[] = .ok (dY, dL) ∧
    ∃ (Y : ℝ → Array ℝ) (L : ℝ → List ℝ),
      (∀ s, nonlinStage (NF.realX e) "Exp" #[] [] false 1 (lineA s #[(0, 1), (-1, 2)]) (lineA s #[]) = .ok (Y s, L s)) ∧
      (∀ k, (dY.toList.getD k (0, 0)).1 = (Y 0).toList.getD k 0 ∧
        HasDerivAt (fun s => (Y s).toList.getD k 0) (dY.toList.getD k (0, 0)).2 0) ∧
      (∀ i, (dL.getD i (0, 0)).1 = (L 0).getD i 0 ∧ HasDerivAt (fun s => (L s).getD i 0) (dL.getD i (0, 0)).2 0) := by
  have hD := nonlinStage_ok_of_total (dualX (NF.realX e)) "Exp" #[] [] false 1 #[(0, 1), (-1, 2)] #[] (fun xi _ => ⟨_, rfl⟩)
  obtain ⟨Y, L, h1, -, -, h2, h3⟩ := dualSoundStage_line (dualSound_nonlinStage_exp e #[] (fun _ => []) []) 1 hD
  exact ⟨_, _, hD, Y, L, h1, h2, h3⟩

variable (e) in
/-- `LeakyReLU` (slope constant `0.01`, `log_negative_slope = −4` with tangent `1`) on the row `(−1, 2)`, away from the kink -/
example : ∃ dY dL, nonlinStage (dualX (NF.realX e)) "LeakyReLU" #[0.01] [(-4, 1)] false 1 #[(-1, 1), (2, 1)] #[] = .ok (dY, dL) ∧
    ∃ (Y : ℝ → Array ℝ) (L : ℝ → List ℝ),
      (∀ s, nonlinStage (NF.realX e) "LeakyReLU" #[0.01] (lineV s [(-4, 1)]) false 1 (lineA s #[(-1, 1), (2, 1)]) (lineA s #[])
        = .ok (Y s, L s)) ∧
      (∀ k, (dY.toList.getD k (0, 0)).1 = (Y 0).toList.getD k 0 ∧
        HasDerivAt (fun s => (Y s).toList.getD k 0) (dY.toList.getD k (0, 0)).2 0) ∧
      (∀ i, (dL.getD i (0, 0)).1 = (L 0).getD i 0 ∧ HasDerivAt (fun s => (L s).getD i 0) (dL.getD i (0, 0)).2 0) := by
  have hD := nonlinStage_ok_of_total (dualX (NF.realX e)) "LeakyReLU" #[0.01] [(-4, 1)] false 1 #[(-1, 1), (2, 1)] #[]
    (fun xi _ => ⟨_, rfl⟩)
  obtain ⟨Y, L, h1, -, -, h2, h3⟩ :=
    (dualSound_nonlinStage_leakyRelu e #[0.01] false (lineV_dual [(-4, 1)])).line 1 (by simp) hD
  exact ⟨_, _, hD, Y, L, h1, h2, h3⟩

variable (e) in
/-- `Sigmoid.forward`, temperature `2` (tangent `1`: learnable temperature), the row `(3, −1)`: `T x = 6, −2 ≠ ±20` -/
example : ∃ dY dL, nonlinStage (dualX (NF.realX e)) "Sigmoid" #[1e-6] [(2, 1)] false 1 #[(3, 1), (-1, 0)] #[] = .ok (dY, dL) ∧
    ∃ (Y : ℝ → Array ℝ) (L : ℝ → List ℝ),
      (∀ s, nonlinStage (NF.realX e) "Sigmoid" #[1e-6] (lineV s [(2, 1)]) false 1 (lineA s #[(3, 1), (-1, 0)]) (lineA s #[])
        = .ok (Y s, L s)) ∧
      (∀ k, (dY.toList.getD k (0, 0)).1 = (Y 0).toList.getD k 0 ∧
        HasDerivAt (fun s => (Y s).toList.getD k 0) (dY.toList.getD k (0, 0)).2 0) ∧
      (∀ i, (dL.getD i (0, 0)).1 = (L 0).getD i 0 ∧ HasDerivAt (fun s => (L s).getD i 0) (dL.getD i (0, 0)).2 0) := by
  have hD := nonlinStage_ok_of_total (dualX (NF.realX e)) "Sigmoid" #[1e-6] [(2, 1)] false 1 #[(3, 1), (-1, 0)] #[]
    (fun xi _ => ⟨_, rfl⟩)
  obtain ⟨Y, L, h1, -, -, h2, h3⟩ :=
    (dualSound_nonlinStage_sigmoid e #[1e-6] (lineV_dual [(2, 1)]) (by norm_num)).line 1 (by norm_num) hD
  exact ⟨_, _, hD, Y, L, h1, h2, h3⟩

/-- `Tanh.forward` with `e (-2.0) = -2` read exactly: the row `(0, 1)` is away from the threshold `x = −10` -/
example (hm2 : e (-2.0) = -2) :
    ∃ dY dL, nonlinStage (dualX (NF.realX e)) "Tanh" #[] [] false 1 #[(0, 1), (1, -1)] #[] = .ok (dY, dL) ∧
    ∃ (Y : ℝ → Array ℝ) (L : ℝ → List ℝ),
      (∀ s, nonlinStage (NF.realX e) "Tanh" #[] [] false 1 (lineA s #[(0, 1), (1, -1)]) (lineA s #[]) = .ok (Y s, L s)) ∧
      (∀ k, (dY.toList.getD k (0, 0)).1 = (Y 0).toList.getD k 0 ∧
        HasDerivAt (fun s => (Y s).toList.getD k 0) (dY.toList.getD k (0, 0)).2 0) ∧
      (∀ i, (dL.getD i (0, 0)).1 = (L 0).getD i 0 ∧ HasDerivAt (fun s => (L s).getD i 0) (dL.getD i (0, 0)).2 0) := by
  have hD := nonlinStage_ok_of_total (dualX (NF.realX e)) "Tanh" #[] [] false 1 #[(0, 1), (1, -1)] #[] (fun xi _ => ⟨_, rfl⟩)
  obtain ⟨Y, L, h1, -, -, h2, h3⟩ :=
    (dualSound_nonlinStage_tanh e #[] (fun _ => []) []).line 1 (by simp [hm2]; norm_num) hD
  exact ⟨_, _, hD, Y, L, h1, h2, h3⟩

/-! ## 6. `Flow.log_prob` of a Glow-style block `[ActNorm, LULinear, affine coupling]` on dual numbers -/

variable (e) in
/-- **HEADLINE: the flow `[ActNorm, LULinear, AffineCouplingTransform]` (one Glow block: normalisation, invertible linear map,
    coupling) with a standard-normal base, `log_prob` on dual numbers** returns per batch row (value, derivative along the straight
    line through the inputs, the context, `log_scale`, `shift`, every `LULinear` tensor AND the weights / bias of the coupling's
    conditioner `x_id ↦ W x_id + b`).  If the dual run raises, the real run raises the same exception at every `s`.
    Side conditions, all inherited and forced: ActNorm initialised (or evaluation mode); no unconstrained `LULinear` diagonal
    entry AT the softplus threshold `20`; `eps ≥ 0`; the default scale activation `sigmoid(u + 2) + 1e-3` with the constant read
    as a non-negative real. -/
theorem flow_glow_block_logprob_dual_sound (w : ℕ) (ds : ActSt (ℝ × ℝ)) (dp : LF.LUParams (ℝ × ℝ)) {c : ElCfg}
    (hk : c.kind = "affine") (hact : (c.act == "general") = false) (he : 0 ≤ e 1e-3) (dmask : List (ℝ × ℝ)) (S win wout : ℕ)
    (dW : List (List (ℝ × ℝ))) (db : List (ℝ × ℝ))
    (hs : ds.initialized = true ∨ ds.training = false) (hthr : ∀ d ∈ dp.udiag, d.1 ≠ 20) (heps : 0 ≤ dp.eps.1)
    (shape inShape : List ℕ) (cf : Bool) (B : ℕ) (dX dctx : Array (ℝ × ℝ)) :
    let flowD := flowLogProbExec (dualX (NF.realX e)) w (fun _ a => a)
      (compStage (dualX (NF.realX e)) [actStage (dualX (NF.realX e)) w ds, luStage (dualX (NF.realX e)) w dp,
        couplingStage (dualX (NF.realX e)) c dmask S false none #[] (affNet (dualX (NF.realX e)) win wout dW db)])
      (fun B rows _ => stdNormalLogProb (dualX (NF.realX e)) shape inShape (ctxOf cf B) rows) B dX dctx
    let flowR := fun s : ℝ => flowLogProbExec (NF.realX e) w (fun _ a => a)
      (compStage (NF.realX e) [actStage (NF.realX e) w (lineAct s ds), luStage (NF.realX e) w (lineP s dp),
        couplingStage (NF.realX e) c (dmask.map Prod.fst) S false none #[]
          (affNet (NF.realX e) win wout (lineM s dW) (lineV s db))])
      (fun B rows _ => stdNormalLogProb (NF.realX e) shape inShape (ctxOf cf B) rows) B
        (lineA s dX) (lineA s dctx)
    (∀ dlps, flowD = .ok dlps → ∃ lps : ℝ → List ℝ, (∀ s, flowR s = .ok (lps s)) ∧ (∀ s, (lps s).length = dlps.length) ∧
      ∀ i, (dlps.getD i (0, 0)).1 = (lps 0).getD i 0 ∧ HasDerivAt (fun s => (lps s).getD i 0) (dlps.getD i (0, 0)).2 0) ∧
    (∀ err, flowD = .error err → ∀ s, flowR s = .error err) := by
  have hne : ∀ d ∈ dp.udiag, LF.softplus (Rr e) d.1 + dp.eps.1 ≠ 0 := fun d _ =>
    (add_pos_of_pos_of_nonneg (LFIndex.softplus_real_pos d.1) heps).ne'
  have hT : List.Forall₂ (DualSoundStage 0)
      [fun s => actStage (NF.realX e) w (lineAct s ds), fun s => luStage (NF.realX e) w (lineP s dp),
        fun s => couplingStage (NF.realX e) c (dmask.map Prod.fst) S false none #[]
          (affNet (NF.realX e) win wout (lineM s dW) (lineV s db))]
      [actStage (dualX (NF.realX e)) w ds, luStage (dualX (NF.realX e)) w dp,
        couplingStage (dualX (NF.realX e)) c dmask S false none #[] (affNet (dualX (NF.realX e)) win wout dW db)] :=
    .cons (dualSound_actStage e w (lineAct_curve ds) hs) (.cons (dualSound_luStage e w (lineP_curve dp) hthr hne)
      (.cons (dualSound_couplingStage_affine e hk hact he dmask S (dualSoundNet_affNet e win wout (lineM_dual dW) (lineV_dual db)))
        .nil))
  exact flow_logprob_dual_sound e w hT (standard_normal_logprob_dual_sound e shape inShape cf) B dX dctx

/-- the Glow block with a standard-normal base of matching shape and no context never raises (any scalar semantics): the
    hypothesis "the dual run returns `dlps`" of the headline is satisfiable for every input -/
theorem flow_glow_block_accepted {α : Type} (o : XOps α) (w : ℕ) (st : ActSt α) (p : LF.LUParams α) {c : ElCfg}
    (hk : c.kind = "affine") (mask : List α) (S : ℕ) (net : ℕ → Array α → Array α → Array α)
    (hs : st.initialized = true ∨ st.training = false) (shape : List ℕ) (B : ℕ) (x ctx : Array α) :
    ∃ lps, flowLogProbExec o w (fun _ a => a)
      (compStage o [actStage o w st, luStage o w p, couplingStage o c mask S false none #[] net])
      (fun B rows _ => stdNormalLogProb o shape shape (ctxOf false B) rows) B x ctx = .ok lps := by
  have htot : TotalStage (compStage o [actStage o w st, luStage o w p, couplingStage o c mask S false none #[] net]) := by
    refine total_compStage o _ (fun T hT => ?_)
    simp only [List.mem_cons, List.mem_nil_iff, or_false] at hT
    rcases hT with rfl | rfl | rfl
    · rw [actStage_eq_pass o w st hs]; exact total_passStage _ _ _
    · exact total_passStage _ _ _
    · exact total_couplingStage_affine o (Or.inl hk) mask S net
  obtain ⟨⟨z, ld⟩, hz⟩ := htot B x ctx
  simp [flowLogProbExec, hz, stdNormalLogProb_guard, guardD, baseCheck, ctxOf, shapeCheck]
  exact ⟨_, rfl⟩

/-- the affine coupling configuration (default scale activation) -/
def glowC : ElCfg := { kind := "affine" }

variable (e) in
/-- the concrete Glow block, width 2: ActNorm `DualXFlow.flowExAct`, `LULinear` = `DualXLU.exP`, coupling with mask `(0, 1)`
    (feature 0 conditions feature 1), conditioner `x₀ ↦ (1·x₀ + 0, 2·x₀ + 1)` = (shift, unconstrained scale) with tangents on `W`
    and `b`; batch of two rows.  The dual run IS accepted and each entry is (real `log_prob`, derivative along the line). -/
example (he : 0 ≤ e 1e-3) :
    ∃ dlps, flowLogProbExec (dualX (NF.realX e)) 2 (fun _ a => a)
        (compStage (dualX (NF.realX e)) [actStage (dualX (NF.realX e)) 2 flowExAct, luStage (dualX (NF.realX e)) 2 exP,
          couplingStage (dualX (NF.realX e)) glowC [(0, 0), (1, 0)] 1 false none #[]
            (affNet (dualX (NF.realX e)) 1 2 [[(1, 1)], [(2, 0)]] [(0, 1), (1, 0)])])
        (fun B rows _ => stdNormalLogProb (dualX (NF.realX e)) [2] [2] (ctxOf false B) rows) 2 flowExX #[]
          = .ok dlps ∧
      ∃ lps : ℝ → List ℝ,
        (∀ s, flowLogProbExec (NF.realX e) 2 (fun _ a => a)
          (compStage (NF.realX e) [actStage (NF.realX e) 2 (lineAct s flowExAct), luStage (NF.realX e) 2 (lineP s exP),
            couplingStage (NF.realX e) glowC ([((0 : ℝ), (0 : ℝ)), (1, 0)].map Prod.fst) 1 false none #[]
              (affNet (NF.realX e) 1 2 (lineM s [[(1, 1)], [(2, 0)]]) (lineV s [(0, 1), (1, 0)]))])
          (fun B rows _ => stdNormalLogProb (NF.realX e) [2] [2] (ctxOf false B) rows) 2
            (lineA s flowExX) (lineA s #[]) = .ok (lps s)) ∧
        (∀ s, (lps s).length = dlps.length) ∧
        ∀ i, (dlps.getD i (0, 0)).1 = (lps 0).getD i 0 ∧ HasDerivAt (fun s => (lps s).getD i 0) (dlps.getD i (0, 0)).2 0 := by
  obtain ⟨dlps, h⟩ := flow_glow_block_accepted (dualX (NF.realX e)) 2 flowExAct exP (c := glowC) rfl [(0, 0), (1, 0)] 1
    (affNet (dualX (NF.realX e)) 1 2 [[(1, 1)], [(2, 0)]] [(0, 1), (1, 0)]) (Or.inl rfl) [2] 2 flowExX #[]
  exact ⟨dlps, h, (flow_glow_block_logprob_dual_sound e 2 flowExAct exP (c := glowC) rfl (by decide) he [(0, 0), (1, 0)] 1 1 2
    [[(1, 1)], [(2, 0)]] [(0, 1), (1, 0)] (Or.inl rfl) exP_thr (by norm_num [exP]) [2] [2] false 2 flowExX #[]).1 dlps h⟩

/-! ## 7. open-domain stages: soundness "eventually near `t`", closed under cascade -/

/-- **the dual run of a batch-level pass is sound near `t`** (the variant for stages with an OPEN domain, e.g. `Exp.inverse` =
    `log` on `x > 0`, where a curve through an accepted point is accepted only near `t`): on the dual inputs satisfying `P`, if
    the dual call is accepted then the real call is accepted for all `s` NEAR `t`, with outputs / log-dets agreeing near `t` with
    curves represented by the dual outputs (so the derivatives at `t` are the tangents); if the dual call raises, the real call AT
    `t` raises the same exception. -/
structure DualSoundStageNear (t : ℝ) (P : ℕ → Array (ℝ × ℝ) → Array (ℝ × ℝ) → Prop) (S : ℝ → BStage ℝ)
    (D : BStage (ℝ × ℝ)) : Prop where
  ok : ∀ (B : ℕ) (X c : ℝ → Array ℝ) (dX dc dY : Array (ℝ × ℝ)) (dL : List (ℝ × ℝ)), P B dX dc → DA t X dX → DA t c dc →
    D B dX dc = .ok (dY, dL) →
    ∃ (Y : ℝ → Array ℝ) (L : ℝ → List ℝ), (∀ᶠ s in 𝓝 t, S s B (X s) (c s) = .ok (Y s, L s)) ∧ DA t Y dY ∧ DV t L dL
  raises : ∀ (B : ℕ) (X c : ℝ → Array ℝ) (dX dc : Array (ℝ × ℝ)) (err : Err), P B dX dc → DA t X dX → DA t c dc →
    D B dX dc = .error err → S t B (X t) (c t) = .error err

theorem DualSoundStageOn.near {P : ℕ → Array (ℝ × ℝ) → Array (ℝ × ℝ) → Prop} {S : ℝ → BStage ℝ} {D : BStage (ℝ × ℝ)}
    (h : DualSoundStageOn t P S D) : DualSoundStageNear t P S D where
  ok := fun B X c dX dc dY dL hP hX hc hD => by
    obtain ⟨Y, L, h1, h2, h3⟩ := h.ok B X c dX dc dY dL hP hX hc hD
    exact ⟨Y, L, Eventually.of_forall h1, h2, h3⟩
  raises := fun B X c dX dc err hP hX hc hD => h.raises B X c dX dc err hP hX hc hD t

theorem dualSoundStage_near {S : ℝ → BStage ℝ} {D : BStage (ℝ × ℝ)} (h : DualSoundStage t S D) :
    DualSoundStageNear t (fun _ _ _ => True) S D := (dualSoundStage_iff_on.1 h).near

/-- a stage of a cascade with its admissible set: (set of dual inputs, real stage at parameter `s`, dual stage) -/
abbrev NearTriple := (ℕ → Array (ℝ × ℝ) → Array (ℝ × ℝ) → Prop) × (ℝ → BStage ℝ) × BStage (ℝ × ℝ)

/-- the admissible set of a cascade: the input is admissible for the first stage, and whatever the first dual stage returns is
    admissible for the rest (a condition on the DUAL run only, checkable while running it) -/
def cascadeP (B : ℕ) (dc : Array (ℝ × ℝ)) : List NearTriple → Array (ℝ × ℝ) → Prop
  | [], _ => True
  | T :: Ts, dX => T.1 B dX dc ∧ ∀ dY dL, T.2.2 B dX dc = .ok (dY, dL) → cascadeP B dc Ts dY

theorem cascadeFrom_near {Ts : List NearTriple} (h : ∀ T ∈ Ts, DualSoundStageNear t T.1 T.2.1 T.2.2) (B : ℕ)
    {c : ℝ → Array ℝ} {dc : Array (ℝ × ℝ)} (hc : DA t c dc) {X : ℝ → Array ℝ} {dX : Array (ℝ × ℝ)} {L0 : ℝ → List ℝ}
    {dL0 : List (ℝ × ℝ)} (hX : DA t X dX) (hL : DV t L0 dL0) (hP : cascadeP B dc Ts dX) :
    (∀ dY dL, Wrap.cascadeFrom (ldLD (dualX (NF.realX e)) B) ((Ts.map fun T => T.2.2).map fun T => T B) dX dL0 dc = .ok (dY, dL) →
      ∃ (Y : ℝ → Array ℝ) (L : ℝ → List ℝ),
        (∀ᶠ s in 𝓝 t, Wrap.cascadeFrom (ldLD (NF.realX e) B) ((Ts.map fun T => T.2.1 s).map fun T => T B) (X s) (L0 s) (c s)
          = .ok (Y s, L s)) ∧ DA t Y dY ∧ DV t L dL) ∧
    (∀ err, Wrap.cascadeFrom (ldLD (dualX (NF.realX e)) B) ((Ts.map fun T => T.2.2).map fun T => T B) dX dL0 dc = .error err →
      Wrap.cascadeFrom (ldLD (NF.realX e) B) ((Ts.map fun T => T.2.1 t).map fun T => T B) (X t) (L0 t) (c t) = .error err) := by
  induction Ts generalizing X dX L0 dL0 with
  | nil =>
    refine ⟨fun dY dL hD => ?_, fun err hD => ?_⟩
    · simp only [List.map_nil, Wrap.cascadeFrom, Except.ok.injEq, Prod.mk.injEq] at hD
      obtain ⟨rfl, rfl⟩ := hD
      exact ⟨X, L0, Eventually.of_forall fun s => rfl, hX, hL⟩
    · simp [Wrap.cascadeFrom] at hD
  | cons T Ts ih =>
    have hT := h T List.mem_cons_self
    have ih' := fun {X dX L0 dL0} hX hL hP =>
      ih (X := X) (dX := dX) (L0 := L0) (dL0 := dL0) (fun T' hT' => h T' (List.mem_cons_of_mem _ hT')) hX hL hP
    refine ⟨fun dY dL hD => ?_, fun err hD => ?_⟩
    · rw [List.map_cons, List.map_cons, cascadeFrom_cons_ok] at hD
      obtain ⟨dy, dl, h1, h2⟩ := hD
      obtain ⟨Y1, L1, hS, hY1, hL1⟩ := hT.ok B X c dX dc dy dl hP.1 hX hc h1
      obtain ⟨Y, L, hrest, hY, hLL⟩ := (ih' hY1 (ldAdd_dual B hL hL1) (hP.2 dy dl h1)).1 dY dL h2
      refine ⟨Y, L, ?_, hY, hLL⟩
      filter_upwards [hS, hrest] with s hs1 hs2
      simp only [List.map_cons]
      exact (cascadeFrom_cons_ok _ _ _ _ _ _ _).2 ⟨Y1 s, L1 s, hs1, hs2⟩
    · rw [List.map_cons, List.map_cons, cascadeFrom_cons_error] at hD
      simp only [List.map_cons]
      rcases hD with h1 | ⟨dy, dl, h1, h2⟩
      · exact (cascadeFrom_cons_error _ _ _ _ _ _ _).2 (Or.inl (hT.raises B X c dX dc err hP.1 hX hc h1))
      · obtain ⟨Y1, L1, hS, hY1, hL1⟩ := hT.ok B X c dX dc dy dl hP.1 hX hc h1
        exact (cascadeFrom_cons_error _ _ _ _ _ _ _).2
          (Or.inr ⟨Y1 t, L1 t, hS.self_of_nhds, (ih' hY1 (ldAdd_dual B hL hL1) (hP.2 dy dl h1)).2 err h2⟩)

variable (e) in
/-- **closure under cascade**: `CompositeTransform.forward` over stages that are dual sound near `t` is dual sound near `t`, on
    the inputs admissible for the cascade (`cascadeP`); the parameters of all stages move simultaneously. -/
theorem dualSoundNear_compStage {Ts : List NearTriple} (h : ∀ T ∈ Ts, DualSoundStageNear t T.1 T.2.1 T.2.2) :
    DualSoundStageNear t (fun B dX dc => cascadeP B dc Ts dX) (fun s => compStage (NF.realX e) (Ts.map fun T => T.2.1 s))
      (compStage (dualX (NF.realX e)) (Ts.map fun T => T.2.2)) where
  ok := fun B _ _ _ _ dY dL hP hX hc hD => (cascadeFrom_near h B hc hX (ldZero_dual B) hP).1 dY dL hD
  raises := fun B _ _ _ _ err hP hX hc hD => (cascadeFrom_near h B hc hX (ldZero_dual B) hP).2 err hD

/-- **`Flow._log_prob` on dual numbers with a transform that is dual sound near `t`** (no embedding net): on admissible inputs, if
    the dual run returns `dlps` the real run is accepted near `t` and agrees there with curves whose (value, derivative) at `t`
    are the entries of `dlps`; if the dual run raises, the real run at `t` raises the same. -/
theorem flowLogProbExec_dual_near (w : ℕ) {P : ℕ → Array (ℝ × ℝ) → Array (ℝ × ℝ) → Prop} {S : ℝ → BStage ℝ}
    {D : BStage (ℝ × ℝ)} {bR : ℝ → BaseD ℝ} {bD : BaseD (ℝ × ℝ)} (hT : DualSoundStageNear t P S D) (hb : DualSoundBase t bR bD)
    (B : ℕ) {X ctx : ℝ → Array ℝ} {dX dctx : Array (ℝ × ℝ)} (hX : DA t X dX) (hc : DA t ctx dctx) (hP : P B dX dctx) :
    (∀ dlps, flowLogProbExec (dualX (NF.realX e)) w (fun _ a => a) D bD B dX dctx = .ok dlps →
      ∃ lps : ℝ → List ℝ,
        (∀ᶠ s in 𝓝 t, flowLogProbExec (NF.realX e) w (fun _ a => a) (S s) (bR s) B (X s) (ctx s) = .ok (lps s)) ∧
        (∀ s, (lps s).length = dlps.length) ∧
        ∀ i, (dlps.getD i (0, 0)).1 = (lps t).getD i 0 ∧ HasDerivAt (fun s => (lps s).getD i 0) (dlps.getD i (0, 0)).2 t) ∧
    (∀ err, flowLogProbExec (dualX (NF.realX e)) w (fun _ a => a) D bD B dX dctx = .error err →
      flowLogProbExec (NF.realX e) w (fun _ a => a) (S t) (bR t) B (X t) (ctx t) = .error err) := by
  cases hD : D B dX dctx with
  | error err0 =>
    have hR := hT.raises B X _ dX _ err0 hP hX hc hD
    refine ⟨fun dlps h => ?_, fun err h => ?_⟩
    · rw [flow_of_T_error (emb := fun _ a => a) _ hD] at h; cases h
    · rw [flow_of_T_error (emb := fun _ a => a) _ hD] at h
      rw [flow_of_T_error (emb := fun _ a => a) _ hR]
      cases h; rfl
  | ok p =>
    obtain ⟨dz, dld⟩ := p
    obtain ⟨Z, L, hS, hZ, hL⟩ := hT.ok B X _ dX _ dz dld hP hX hc hD
    have hrows := rowsOf_dual w B hZ
    cases hB : bD B (rowsOf w B dz.toList) dctx with
    | error err0 =>
      have hR := hb.raises B _ _ _ _ err0 hrows hc hB t
      refine ⟨fun dlps h => ?_, fun err h => ?_⟩
      · rw [flow_of_base_error (emb := fun _ a => a) _ hD hB] at h; cases h
      · rw [flow_of_base_error (emb := fun _ a => a) _ hD hB] at h
        rw [flow_of_base_error (emb := fun _ a => a) _ hS.self_of_nhds hR]
        cases h; rfl
    | ok dlp =>
      obtain ⟨lp, hlp, hlpd⟩ := hb.ok B _ _ _ _ dlp hrows hc hB
      refine ⟨fun dlps h => ?_, fun err h => ?_⟩
      · rw [flow_of_ok (emb := fun _ a => a) _ hD hB] at h
        simp only [Except.ok.injEq] at h
        subst h
        have hd : DV t (fun s => List.zipWith (NF.realX e).add (lp s) (L s)) (List.zipWith (dualX (NF.realX e)).add dlp dld) :=
          DL.zipWith' (fun _ => (NF.realX e).add) (dualX (NF.realX e)).add hlpd hL
          (fun _ _ _ _ ha hb => IsDual.add e ha hb)
        refine ⟨fun s => List.zipWith (NF.realX e).add (lp s) (L s), ?_, DL.length hd, fun i => DV.entry hd i⟩
        filter_upwards [hS] with s hs
        exact flow_of_ok (emb := fun _ a => a) _ hs (hlp s)
      · rw [flow_of_ok (emb := fun _ a => a) _ hD hB] at h; cases h

/-! ### an open-domain element-wise layer is dual sound near `t`; `Exp.inverse` -/

theorem eventually_forall_mem_of_forall₂ {Q : ℝ → ℝ → Prop} {R : (ℝ → ℝ) → ℝ × ℝ → Prop} {fs : List (ℝ → ℝ)}
    {ds : List (ℝ × ℝ)} (h2 : List.Forall₂ R fs ds) (hq : ∀ f d, d ∈ ds → R f d → ∀ᶠ s in 𝓝 t, Q s (f s)) :
    ∀ᶠ s in 𝓝 t, ∀ xi ∈ fs.map (fun f => f s), Q s xi := by
  induction h2 with
  | nil => exact Eventually.of_forall (by simp)
  | cons hab _ ih =>
    have h1 := hq _ _ List.mem_cons_self hab
    have h2' := ih (fun f d hd => hq f d (List.mem_cons_of_mem _ hd))
    filter_upwards [h1, h2'] with s a b
    intro xi hxi
    simp only [List.map_cons, List.mem_cons] at hxi
    rcases hxi with rfl | hxi
    · exact a
    · exact b xi hxi

/-- the value at `t` of a curve of lists is the list of primal parts -/
theorem DV.val {F : ℝ → List ℝ} {ds : List (ℝ × ℝ)} (h : DV t F ds) : F t = ds.map Prod.fst := by
  obtain ⟨fs, hF, h2⟩ := h
  rw [hF]
  clear hF
  induction h2 with
  | nil => rfl
  | cons hab _ ih => simp only [List.map_cons, ih, hab.1]

theorem errG_value (kind : String) (ds : Array Float) (dps : List (ℝ × ℝ)) (inv : Bool) (d : ℝ × ℝ) :
    errG (nonlinEl (dualX (NF.realX e)) kind ds dps inv d) = errG (nonlinEl (NF.realX e) kind ds (dps.map Prod.fst) inv d.1) := by
  rw [← DualX.nonlinEl_value]
  cases nonlinEl (dualX (NF.realX e)) kind ds dps inv d <;> rfl

theorem ofT_mk_error_iff {α : Type} {out : Array α} {ld : List α} {err : Option Err} {er : Err} :
    ofT { out := out, ld := ld, err := err } = .error er ↔ err = some er := by
  cases err <;> simp [ofT]

variable (e) in
/-- **an executed element-wise layer with an open domain is dual sound near `t`**: where the dual element call is accepted the
    real element call is accepted near `t` (`hev`) and is dual sound (`hel`); the exceptions agree at `t` because the checks only
    see primal parts (`DualX.nonlinEl_value`: taking gradients never changes outputs or errors). -/
theorem dualSoundNear_nonlinStage_gen (kind : String) (ds : Array Float) (inv : Bool) {ps : ℝ → List ℝ} {dps : List (ℝ × ℝ)}
    (hps : DV t ps dps) (Pel : ℝ × ℝ → Prop)
    (hev : ∀ fx dx p, IsDual fx t dx → Pel dx → nonlinEl (dualX (NF.realX e)) kind ds dps inv dx = .ok p →
      ∀ᶠ s in 𝓝 t, ∃ q, nonlinEl (NF.realX e) kind ds (ps s) inv (fx s) = .ok q)
    (hel : ∀ fx dx p, IsDual fx t dx → Pel dx → nonlinEl (dualX (NF.realX e)) kind ds dps inv dx = .ok p →
      DualRes (fun s => nonlinEl (NF.realX e) kind ds (ps s) inv (fx s)) t (nonlinEl (dualX (NF.realX e)) kind ds dps inv dx)) :
    DualSoundStageNear t (fun _ dX _ => ∀ d ∈ dX.toList, Pel d)
      (fun s => nonlinStage (NF.realX e) kind ds (ps s) inv) (nonlinStage (dualX (NF.realX e)) kind ds dps inv) := by
  constructor
  · intro B X c dX dc dY dL hP hX _ h
    have hall : ∀ d ∈ dX.toList, ∃ p, nonlinEl (dualX (NF.realX e)) kind ds dps inv d = .ok p := by
      have h' := h
      unfold nonlinStage at h'
      rw [nonlinApply_poly] at h'
      obtain ⟨herr, -, -⟩ := ofT_eq_ok h'
      simp only [List.findSome?_eq_none_iff] at herr
      intro d hd
      have := herr d hd
      cases hr : nonlinEl (dualX (NF.realX e)) kind ds dps inv d with
      | ok p => exact ⟨p, rfl⟩
      | error er => rw [hr] at this; cases this
    rw [nonlinStage_ok_of_total _ _ _ _ _ _ _ _ hall] at h
    simp only [Except.ok.injEq, Prod.mk.injEq] at h
    obtain ⟨rfl, rfl⟩ := h
    have hevAll : ∀ᶠ s in 𝓝 t, ∀ xi ∈ (X s).toList, ∃ q, nonlinEl (NF.realX e) kind ds (ps s) inv xi = .ok q := by
      obtain ⟨fs, hF, h2⟩ := hX
      have := eventually_forall_mem_of_forall₂ (t := t)
        (Q := fun s xi => ∃ q, nonlinEl (NF.realX e) kind ds (ps s) inv xi = .ok q) h2
        (fun f d hd hfd => by obtain ⟨p, hp⟩ := hall d hd; exact hev f d p hfd (hP d hd) hp)
      filter_upwards [this] with s hs
      have hFs : (X s).toList = fs.map (fun f => f s) := hF s
      rw [hFs]; exact hs
    refine ⟨fun s => ((X s).toList.map fun xi => outYG (NF.realX e) (nonlinEl (NF.realX e) kind ds (ps s) inv xi)).toArray,
      fun s => sumRows (NF.realX e) B
        ((X s).toList.map fun xi => outLG (NF.realX e) (nonlinEl (NF.realX e) kind ds (ps s) inv xi)).toArray, ?_, ?_, ?_⟩
    · filter_upwards [hevAll] with s hs
      exact nonlinStage_ok_of_total _ _ _ _ _ _ _ _ hs
    · unfold DA
      exact DL.map' (fun s xi => outYG (NF.realX e) (nonlinEl (NF.realX e) kind ds (ps s) inv xi))
        (fun d => outYG (dualX (NF.realX e)) (nonlinEl (dualX (NF.realX e)) kind ds dps inv d)) hX
        (fun f d hd hfd => by obtain ⟨p, hp⟩ := hall d hd; exact dualRes_isDualY (hel f d p hfd (hP d hd) hp))
    · refine sumRows_dual B ?_
      unfold DA
      exact DL.map' (fun s xi => outLG (NF.realX e) (nonlinEl (NF.realX e) kind ds (ps s) inv xi))
        (fun d => outLG (dualX (NF.realX e)) (nonlinEl (dualX (NF.realX e)) kind ds dps inv d)) hX
        (fun f d hd hfd => by obtain ⟨p, hp⟩ := hall d hd; exact dualRes_isDualL (hel f d p hfd (hP d hd) hp))
  · intro B X c dX dc err _ hX _ h
    unfold nonlinStage at h ⊢
    rw [nonlinApply_poly] at h ⊢
    have hval : (X t).toList = dX.toList.map Prod.fst := DV.val hX
    have hpv : ps t = dps.map Prod.fst := DV.val hps
    have herr : ((X t).toList.findSome? fun xi => errG (nonlinEl (NF.realX e) kind ds (ps t) inv xi))
        = dX.toList.findSome? fun d => errG (nonlinEl (dualX (NF.realX e)) kind ds dps inv d) := by
      rw [hval, List.findSome?_map, hpv]
      congr 1
      funext d
      exact (errG_value kind ds dps inv d).symm
    exact ofT_mk_error_iff.2 (herr.trans (ofT_mk_error_iff.1 h))

theorem expT_inv_dual_run {dx : ℝ × ℝ} (h0 : 0 < dx.1) :
    expT (dualX (NF.realX e)) true dx = .ok ((dualX (NF.realX e)).log dx, (dualX (NF.realX e)).neg ((dualX (NF.realX e)).log dx)) := by
  unfold expT
  simp only [if_true, d_le, d_zero, decide_eq_true_eq, if_neg (not_le.mpr h0)]

theorem expT_inv_dual_ok_pos {dx : ℝ × ℝ} {p} (h : expT (dualX (NF.realX e)) true dx = .ok p) : 0 < dx.1 := by
  by_contra hle
  rw [not_lt] at hle
  unfold expT at h
  simp only [if_true, d_le, d_zero, decide_eq_true_eq, if_pos hle] at h
  cases h

variable (e) in
/-- **`Exp.inverse` (`log`, open domain `x > 0`) as a stage, sound near `t`**: no side condition; on `x ≤ 0` both runs raise
    `outsideDomain`.  (It is NOT a `DualSoundStage`: a line through a positive point leaves the domain.) -/
theorem dualSoundNear_nonlinStage_exp_inv (ds : Array Float) {ps : ℝ → List ℝ} {dps : List (ℝ × ℝ)} (hps : DV t ps dps) :
    DualSoundStageNear t (fun _ dX _ => ∀ d ∈ dX.toList, True)
      (fun s => nonlinStage (NF.realX e) "Exp" ds (ps s) true) (nonlinStage (dualX (NF.realX e)) "Exp" ds dps true) := by
  refine dualSoundNear_nonlinStage_gen e "Exp" ds true hps (fun _ => True) ?_ ?_
  · intro fx dx p hx _ hp
    have h0 : 0 < dx.1 := expT_inv_dual_ok_pos (e := e) hp
    rw [hx.1] at h0
    filter_upwards [hx.2.continuousAt.eventually (Ioi_mem_nhds h0)] with s hs
    exact ⟨_, expT_inv_run e hs⟩
  · intro fx dx p hx _ hp
    exact expT_inv_dual e hx (expT_inv_dual_ok_pos (e := e) hp)

variable (e) in
/-- the line through the positive point `1` with tangent `−1` leaves the domain of `log` at `s = 1`: `Exp.inverse` is not a
    `DualSoundStage` (which asks for acceptance at EVERY `s`), only sound near `0` -/
theorem expInvStage_not_dual_sound :
    ¬ DualSoundStage 0 (fun _ => nonlinStage (NF.realX e) "Exp" #[] [] true) (nonlinStage (dualX (NF.realX e)) "Exp" #[] [] true) := by
  intro h
  have hD := nonlinStage_ok_of_total (dualX (NF.realX e)) "Exp" #[] [] true 1 #[(1, -1)] #[]
    (fun xi hxi => by
      simp only [List.mem_cons, List.not_mem_nil, or_false] at hxi
      subst hxi
      exact ⟨_, expT_inv_dual_run (e := e) (by norm_num)⟩)
  have hX : DA 0 (fun s : ℝ => #[1 + s * (-1)]) #[((1 : ℝ), (-1 : ℝ))] :=
    DL.cons (rel := fun f d => IsDual f 0 d) (line_dual ((1 : ℝ), (-1 : ℝ))) DL.nil
  have hc : DA 0 (fun _ : ℝ => (#[] : Array ℝ)) #[] := DL.nil
  obtain ⟨Y, L, hS, -, -⟩ := h.ok 1 _ _ _ _ _ _ hX hc hD
  have h1 := hS 1
  unfold nonlinStage at h1
  rw [nonlinApply_real] at h1
  have : expT (NF.realX e) true 0 = .error .outsideDomain := (expT_inv_error_iff e 0).2 le_rfl
  simp [ofT, nonlinEl_Exp, this, errOf] at h1

/-- the cascade `[Exp.inverse, PointwiseAffineTransform(scale 2, shift 5, both moving)]` -/
def exNearTs (e : Float → ℝ) : List NearTriple :=
  [(fun _ dX _ => ∀ d ∈ dX.toList, True, fun _ => nonlinStage (NF.realX e) "Exp" #[] [] true,
      nonlinStage (dualX (NF.realX e)) "Exp" #[] [] true),
   (fun _ _ _ => True, fun s => nonlinStage (NF.realX e) "Affine" #[] (lineV s [(2, 1), (5, -1)]) false,
      nonlinStage (dualX (NF.realX e)) "Affine" #[] [(2, 1), (5, -1)] false)]

variable (e) in
/-- closure under cascade, concretely: `CompositeTransform([Exp.inverse, Affine])` is dual sound near `0` on EVERY dual input (the
    admissible set of the cascade is everything), although its first stage has an open domain -/
example : DualSoundStageNear 0 (fun _ _ _ => True)
    (fun s => compStage (NF.realX e) [nonlinStage (NF.realX e) "Exp" #[] [] true,
      nonlinStage (NF.realX e) "Affine" #[] (lineV s [(2, 1), (5, -1)]) false])
    (compStage (dualX (NF.realX e)) [nonlinStage (dualX (NF.realX e)) "Exp" #[] [] true,
      nonlinStage (dualX (NF.realX e)) "Affine" #[] [(2, 1), (5, -1)] false]) := by
  have h := dualSoundNear_compStage e (t := 0) (Ts := exNearTs e) (by
    intro T hT
    simp only [exNearTs, List.mem_cons, List.not_mem_nil, or_false] at hT
    rcases hT with rfl | rfl
    · exact dualSoundNear_nonlinStage_exp_inv e #[] (ps := fun _ => []) DL.nil
    · exact dualSoundStage_near (dualSound_nonlinStage_affine e #[] false (lineV_dual [(2, 1), (5, -1)]) (by norm_num)))
  refine ⟨fun B X c dX dc dY dL _ hX hc hD => h.ok B X c dX dc dY dL ?_ hX hc hD,
    fun B X c dX dc err _ hX hc hD => h.raises B X c dX dc err ?_ hX hc hD⟩ <;>
  simp [cascadeP, exNearTs]

variable (e) in
/-- **HEADLINE (open domains): `Flow.log_prob` on dual numbers, along straight lines, for a `CompositeTransform` of stages that are
    dual sound near `0`** (any mixture of `DualSoundStage`s, stages sound on a set — `LeakyReLU` off the kink, `Tanh` / `Sigmoid`
    off their thresholds — and open-domain stages such as `Exp.inverse`).  On dual inputs admissible for the cascade (`cascadeP`,
    a condition on the dual run only): if the dual run returns `dlps`, the real run is accepted for all `s` near `0` and every
    entry of `dlps` is (real `log_prob` of the row at `s = 0`, its derivative at `s = 0` along the line through inputs, context and
    all parameters); if the dual run raises, the real run at `s = 0` raises the same exception. -/
theorem flow_logprob_dual_sound_near (w : ℕ) {Ts : List NearTriple} (hT : ∀ T ∈ Ts, DualSoundStageNear 0 T.1 T.2.1 T.2.2)
    {bR : ℝ → BaseD ℝ} {bD : BaseD (ℝ × ℝ)} (hb : DualSoundBase 0 bR bD) (B : ℕ) (dX dctx : Array (ℝ × ℝ))
    (hP : cascadeP B dctx Ts dX) :
    (∀ dlps, flowLogProbExec (dualX (NF.realX e)) w (fun _ a => a) (compStage (dualX (NF.realX e)) (Ts.map fun T => T.2.2)) bD B
        dX dctx = .ok dlps →
      ∃ lps : ℝ → List ℝ,
        (∀ᶠ s in 𝓝 (0 : ℝ), flowLogProbExec (NF.realX e) w (fun _ a => a) (compStage (NF.realX e) (Ts.map fun T => T.2.1 s))
          (bR s) B (lineA s dX) (lineA s dctx) = .ok (lps s)) ∧
        (∀ s, (lps s).length = dlps.length) ∧
        ∀ i, (dlps.getD i (0, 0)).1 = (lps 0).getD i 0 ∧ HasDerivAt (fun s => (lps s).getD i 0) (dlps.getD i (0, 0)).2 0) ∧
    (∀ err, flowLogProbExec (dualX (NF.realX e)) w (fun _ a => a) (compStage (dualX (NF.realX e)) (Ts.map fun T => T.2.2)) bD B
        dX dctx = .error err →
      flowLogProbExec (NF.realX e) w (fun _ a => a) (compStage (NF.realX e) (Ts.map fun T => T.2.1 0)) (bR 0) B
        (lineA 0 dX) (lineA 0 dctx) = .error err) :=
  flowLogProbExec_dual_near (e := e) w (dualSoundNear_compStage e hT) hb B (lineA_dual dX) (lineA_dual dctx) hP

variable (e) in
/-- the flow `[Exp.inverse, PointwiseAffineTransform]` (width 2) with a standard-normal base: every dual input is admissible -/
example (B : ℕ) (dX dctx : Array (ℝ × ℝ)) :=
  flow_logprob_dual_sound_near e 2 (Ts := exNearTs e) (by
      intro T hT
      simp only [exNearTs, List.mem_cons, List.not_mem_nil, or_false] at hT
      rcases hT with rfl | rfl
      · exact dualSoundNear_nonlinStage_exp_inv e #[] (ps := fun _ => []) DL.nil
      · exact dualSoundStage_near (dualSound_nonlinStage_affine e #[] false (lineV_dual [(2, 1), (5, -1)]) (by norm_num)))
    (standard_normal_logprob_dual_sound e [2] [2] false) B dX dctx (by simp [cascadeP, exNearTs])

/-! ### the same closure for never-raising stages that are sound on a set (`DualSoundStageOn`): acceptance at EVERY `s` -/

theorem cascadeFrom_on {Ts : List NearTriple} (h : ∀ T ∈ Ts, DualSoundStageOn t T.1 T.2.1 T.2.2) (B : ℕ)
    {c : ℝ → Array ℝ} {dc : Array (ℝ × ℝ)} (hc : DA t c dc) {X : ℝ → Array ℝ} {dX : Array (ℝ × ℝ)} {L0 : ℝ → List ℝ}
    {dL0 : List (ℝ × ℝ)} (hX : DA t X dX) (hL : DV t L0 dL0) (hP : cascadeP B dc Ts dX) :
    (∀ dY dL, Wrap.cascadeFrom (ldLD (dualX (NF.realX e)) B) ((Ts.map fun T => T.2.2).map fun T => T B) dX dL0 dc = .ok (dY, dL) →
      ∃ (Y : ℝ → Array ℝ) (L : ℝ → List ℝ),
        (∀ s, Wrap.cascadeFrom (ldLD (NF.realX e) B) ((Ts.map fun T => T.2.1 s).map fun T => T B) (X s) (L0 s) (c s)
          = .ok (Y s, L s)) ∧ DA t Y dY ∧ DV t L dL) ∧
    (∀ err, Wrap.cascadeFrom (ldLD (dualX (NF.realX e)) B) ((Ts.map fun T => T.2.2).map fun T => T B) dX dL0 dc = .error err →
      ∀ s, Wrap.cascadeFrom (ldLD (NF.realX e) B) ((Ts.map fun T => T.2.1 s).map fun T => T B) (X s) (L0 s) (c s)
        = .error err) := by
  induction Ts generalizing X dX L0 dL0 with
  | nil =>
    refine ⟨fun dY dL hD => ?_, fun err hD => ?_⟩
    · simp only [List.map_nil, Wrap.cascadeFrom, Except.ok.injEq, Prod.mk.injEq] at hD
      obtain ⟨rfl, rfl⟩ := hD
      exact ⟨X, L0, fun s => rfl, hX, hL⟩
    · simp [Wrap.cascadeFrom] at hD
  | cons T Ts ih =>
    have hT := h T List.mem_cons_self
    have ih' := fun {X dX L0 dL0} hX hL hP =>
      ih (X := X) (dX := dX) (L0 := L0) (dL0 := dL0) (fun T' hT' => h T' (List.mem_cons_of_mem _ hT')) hX hL hP
    refine ⟨fun dY dL hD => ?_, fun err hD => ?_⟩
    · rw [List.map_cons, List.map_cons, cascadeFrom_cons_ok] at hD
      obtain ⟨dy, dl, h1, h2⟩ := hD
      obtain ⟨Y1, L1, hS, hY1, hL1⟩ := hT.ok B X c dX dc dy dl hP.1 hX hc h1
      obtain ⟨Y, L, hrest, hY, hLL⟩ := (ih' hY1 (ldAdd_dual B hL hL1) (hP.2 dy dl h1)).1 dY dL h2
      refine ⟨Y, L, fun s => ?_, hY, hLL⟩
      simp only [List.map_cons]
      exact (cascadeFrom_cons_ok _ _ _ _ _ _ _).2 ⟨Y1 s, L1 s, hS s, hrest s⟩
    · rw [List.map_cons, List.map_cons, cascadeFrom_cons_error] at hD
      intro s
      simp only [List.map_cons]
      rcases hD with h1 | ⟨dy, dl, h1, h2⟩
      · exact (cascadeFrom_cons_error _ _ _ _ _ _ _).2 (Or.inl (hT.raises B X c dX dc err hP.1 hX hc h1 s))
      · obtain ⟨Y1, L1, hS, hY1, hL1⟩ := hT.ok B X c dX dc dy dl hP.1 hX hc h1
        exact (cascadeFrom_cons_error _ _ _ _ _ _ _).2
          (Or.inr ⟨Y1 s, L1 s, hS s, (ih' hY1 (ldAdd_dual B hL hL1) (hP.2 dy dl h1)).2 err h2 s⟩)

variable (e) in
/-- **`CompositeTransform.forward` over stages that are dual sound on sets is dual sound on the admissible set of the cascade**
    (`cascadeP`: every intermediate dual output avoids the kinks / thresholds of the next stage), with acceptance at every `s`:
    e.g. `[ActNorm, LeakyReLU, LULinear, Tanh]`. -/
theorem dualSoundOn_compStage {Ts : List NearTriple} (h : ∀ T ∈ Ts, DualSoundStageOn t T.1 T.2.1 T.2.2) :
    DualSoundStageOn t (fun B dX dc => cascadeP B dc Ts dX) (fun s => compStage (NF.realX e) (Ts.map fun T => T.2.1 s))
      (compStage (dualX (NF.realX e)) (Ts.map fun T => T.2.2)) where
  ok := fun B _ _ _ _ dY dL hP hX hc hD => (cascadeFrom_on h B hc hX (ldZero_dual B) hP).1 dY dL hD
  raises := fun B _ _ _ _ err hP hX hc hD => (cascadeFrom_on h B hc hX (ldZero_dual B) hP).2 err hD

variable (e) in
/-- concretely: `CompositeTransform([Affine(2, 5), LeakyReLU])`, one row `(1, −4)`: the intermediate values `(7, −3)` avoid the
    kink, so the input is admissible and the dual run is (value, derivative) along the line through inputs and parameters -/
example : cascadeP 1 #[]
    [(fun _ _ _ => True, fun s => nonlinStage (NF.realX e) "Affine" #[] (lineV s [(2, 1), (5, -1)]) false,
        nonlinStage (dualX (NF.realX e)) "Affine" #[] [(2, 1), (5, -1)] false),
     (fun _ dX _ => ∀ d ∈ dX.toList, d.1 ≠ 0, fun s => nonlinStage (NF.realX e) "LeakyReLU" #[0.01] (lineV s [(-4, 1)]) false,
        nonlinStage (dualX (NF.realX e)) "LeakyReLU" #[0.01] [(-4, 1)] false)] #[(1, 1), (-4, 0)] := by
  refine ⟨trivial, fun dY dL hD => ⟨?_, fun _ _ _ => trivial⟩⟩
  simp only [] at hD ⊢
  rw [nonlinStage_ok_of_total _ _ _ _ _ _ _ _ (fun xi _ => ⟨_, rfl⟩)] at hD
  simp only [Except.ok.injEq, Prod.mk.injEq] at hD
  obtain ⟨rfl, -⟩ := hD
  intro d hd
  simp only [List.map_cons, List.map_nil, List.mem_cons, List.not_mem_nil, or_false] at hd
  rcases hd with rfl | rfl <;> simp [outYG, nonlinEl_Affine, affineT] <;> norm_num

end
end DualXFlowStages
