import NflowsModel.Lemmas.MultiscaleJacobian
import NflowsModel.Lemmas.LinearJacobian
import NflowsModel.Lemmas.NaiveGauss

/-!
# Lemmas/MultiscaleLinear — the executed linear family as stages of the executed `MultiscaleCompositeTransform` (C01)

`Lemmas/MultiscaleJacobian` proves C01 for the multiscale wrapper over stages described by `StageJac` (a stage on ONE
1-D item); `Lemmas/LinearJacobian` / `Lemmas/NaiveGauss` prove C01 for the executed linear layers as `PassIs` (a pass on a
BATCH of rows).  This file is the adapter and the instances.

* `passOnItem`, `stageOfPass`: the stage whose transform on an item is the executed pass on the one-row batch `[item]`
  (the library hands the wrapped transform the batched tensor; the wrapper model works item by item, a 1-D item is one row).
* `passOnItem_of_passIs`, `stageJac_of_passIs`: `PassIs n F g φ M` gives `StageJac` for `stageOfPass F G` with map `φ` and
  returned log-det `log |det M|` (`= log |det (jac M)|`, `jac M` the Fréchet derivative of `φ`).
* instances `stageJac_lu`, `stageJac_qr`, `stageJac_svd`, `stageJac_hh`, `stageJac_naive`.
* `multiscale_two_pass_logdet_is_jacobian` (any two passes), `multiscale_lu_logdet_is_jacobian` (two `LULinear` stages,
  built by `MS.build`), `multiscale_lu_logdet_is_jacobian'` (the same for arbitrary `LUParams` of the right sizes, the item
  map existentially quantified but pinned by the executed output), and a concrete instance at `n = 4`.
-/

open NF.LF NF.Wrap DualSound Matrix LinearBridge LinearFresh LinearJacobian MultiscaleJacobian

namespace MultiscaleLinear

/-- a batch pass `F` (returning `(outputs, logabsdets)`) run on the one-row batch `[item]`: the wrapped transform as the
    multiscale loop sees it on one 1-D item.  Anything but one output row and one log-det is a shape error. -/
def passOnItem (F : List (List ℝ) → List (List ℝ) × List ℝ) (x : Item ℝ) : Except Err (Item ℝ × ℝ) :=
  match F [x.data] with
  | ([y], [l]) => .ok (⟨x.shape, y⟩, l)
  | _ => .error .runtime

/-- the stage (transform object) of a forward pass `F` and an inverse pass `G` -/
def stageOfPass (F G : List (List ℝ) → List (List ℝ) × List ℝ) : Tr (Item ℝ) Unit ℝ :=
  ⟨fun x _ => passOnItem F x, fun x _ => passOnItem G x⟩

theorem passOnItem_ok (F : List (List ℝ) → List (List ℝ) × List ℝ) (s : List Nat) (d y : List ℝ) (l : ℝ)
    (h : F [d] = ([y], [l])) : passOnItem F ⟨s, d⟩ = .ok (⟨s, y⟩, l) := by
  simp only [passOnItem, h]

theorem list_eq_singleton {β : Type} (l : List β) (c : β) (h1 : l.length = 1) (h0 : l[0]? = some c) : l = [c] := by
  obtain ⟨a, rfl⟩ := List.length_eq_one_iff.mp h1
  simp only [List.getElem?_cons_zero, Option.some.injEq] at h0
  rw [h0]

/-- a `PassIs` pass on a one-row batch returns exactly one output row `φ v` and one log-det `log |det M|` -/
theorem pass_singleton {n : ℕ} {F : List (List ℝ) → List (List ℝ) × List ℝ} {g : List ℝ → List ℝ}
    {φ : (Fin n → ℝ) → (Fin n → ℝ)} {M : Matrix (Fin n) (Fin n) ℝ} (h : PassIs n F g φ M) (v : Fin n → ℝ) :
    F [List.ofFn v] = ([List.ofFn (φ v)], [Real.log |M.det|]) := by
  obtain ⟨D, rfl, h1, h2, _, _, h5, h6⟩ := h
  have hl : (([List.ofFn v] : List (List ℝ))[0]'(by simp)).length = n := by simp
  obtain ⟨_, k2⟩ := h6 [List.ofFn v] 0 (by simp) hl
  rw [jac_det] at k2
  have e1 : (F [List.ofFn v]).1 = [List.ofFn (φ v)] := by rw [h1, List.map_singleton, h2]
  have e2 : (F [List.ofFn v]).2 = [Real.log |M.det|] := list_eq_singleton _ _ (by rw [h5]; rfl) k2
  exact Prod.ext e1 e2

/-- the executed pass on one item, from a `PassIs` -/
theorem passOnItem_of_passIs {n : ℕ} {F : List (List ℝ) → List (List ℝ) × List ℝ} {g : List ℝ → List ℝ}
    {φ : (Fin n → ℝ) → (Fin n → ℝ)} {M : Matrix (Fin n) (Fin n) ℝ} (h : PassIs n F g φ M) (s : List Nat) (v : Fin n → ℝ) :
    passOnItem F ⟨s, List.ofFn v⟩ = .ok (⟨s, List.ofFn (φ v)⟩, Real.log |M.det|) :=
  passOnItem_ok F s _ _ _ (pass_singleton h v)

/-- **the adapter**: a pass that `PassIs` is a `StageJac` stage — on a 1-D item of size `n` the stage IS `φ`, `φ` has the
    invertible Fréchet derivative `jac M` everywhere and the stage returns `log |det (jac M)| = log |det M|` -/
theorem stageJac_of_passIs {n : ℕ} {F : List (List ℝ) → List (List ℝ) × List ℝ} {g : List ℝ → List ℝ}
    {φ : (Fin n → ℝ) → (Fin n → ℝ)} {M : Matrix (Fin n) (Fin n) ℝ} (h : PassIs n F g φ M)
    (G : List (List ℝ) → List (List ℝ) × List ℝ) :
    StageJac () (stageOfPass F G) n φ (fun _ => Real.log |M.det|) := by
  intro v
  refine ⟨passOnItem_of_passIs h [n] v, jac M, h.hasFDerivAt v, ?_, ?_⟩
  · rw [jac_det]; exact h.det_ne_zero
  · rw [jac_det]

/-- the inverse pass as a stage as well (a `PassIs` for `G` makes `stageOfPass G F` a `StageJac` stage) -/
theorem stageJac_of_passIs_inv {n : ℕ} {F G : List (List ℝ) → List (List ℝ) × List ℝ} {g : List ℝ → List ℝ}
    {ψ : (Fin n → ℝ) → (Fin n → ℝ)} {M : Matrix (Fin n) (Fin n) ℝ} (h : PassIs n G g ψ M) (s : List Nat) (v : Fin n → ℝ) :
    (stageOfPass F G).inv ⟨s, List.ofFn v⟩ () = .ok (⟨s, List.ofFn (ψ v)⟩, Real.log |M.det|) :=
  passOnItem_of_passIs h s v

/-! ## instances: the five executed linear layers as multiscale stages -/

/-- the executed `LULinear` as a stage -/
noncomputable def luStage (p : LUParams ℝ) : Tr (Item ℝ) Unit ℝ := stageOfPass (luForwardLd realOps p) (luInverseLd realOps p)
/-- the executed `QRLinear` as a stage -/
noncomputable def qrStage (p : QRParams ℝ) : Tr (Item ℝ) Unit ℝ := stageOfPass (qrForwardLd realOps p) (qrInverseLd realOps p)
/-- the executed `SVDLinear` as a stage -/
noncomputable def svdStage (p : SVDParams ℝ) : Tr (Item ℝ) Unit ℝ :=
  stageOfPass (svdForwardLd realOps p) (svdInverseLd realOps p)
/-- the executed `HouseholderSequence` as a stage -/
noncomputable def hhStage (qs : List (List ℝ)) : Tr (Item ℝ) Unit ℝ := stageOfPass (hhForwardLd realOps qs) (hhInverseLd realOps qs)
/-- the executed `NaiveLinear` as a stage -/
noncomputable def naiveStage (n : ℕ) (W : List (List ℝ)) (b : List ℝ) : Tr (Item ℝ) Unit ℝ :=
  stageOfPass (NaiveGauss.naiveForwardLd realOps n W b) (NaiveGauss.naiveInverseLd realOps n W b)

theorem stageJac_lu (p : LUParams ℝ) (hlen : p.udiag.length = p.n) (heps : 0 ≤ p.eps) (hb : p.bias.length = p.n) :
    StageJac () (luStage p) p.n (affine (luW p) (vecFn p.n p.bias)) (fun _ => Real.log |(luW p).det|) :=
  stageJac_of_passIs (lu_logdet_is_log_abs_det_fderiv p hlen heps hb) _

theorem stageJac_qr (p : QRParams ℝ) (vs : List (Fin p.n → ℝ)) (hq : p.qs = vs.map List.ofFn)
    (hv : ∀ v ∈ vs, v ⬝ᵥ v ≠ 0) (hl : p.logDiag.length = p.n) (hb : p.bias.length = p.n) :
    StageJac () (qrStage p) p.n (affine (qrW p vs) (vecFn p.n p.bias)) (fun _ => Real.log |(qrW p vs).det|) :=
  stageJac_of_passIs (qr_logdet_is_log_abs_det_fderiv p vs hq hv hl hb) _

theorem stageJac_svd (p : SVDParams ℝ) (vs1 vs2 : List (Fin p.n → ℝ)) (h1 : p.qs1 = vs1.map List.ofFn)
    (h2 : p.qs2 = vs2.map List.ofFn) (hv1 : ∀ v ∈ vs1, v ⬝ᵥ v ≠ 0) (hv2 : ∀ v ∈ vs2, v ⬝ᵥ v ≠ 0)
    (hl : p.udiag.length = p.n) (heps : 0 ≤ p.eps) (hb : p.bias.length = p.n) :
    StageJac () (svdStage p) p.n (affine (svdW p vs1 vs2) (vecFn p.n p.bias))
      (fun _ => Real.log |(svdW p vs1 vs2).det|) :=
  stageJac_of_passIs (svd_logdet_is_log_abs_det_fderiv p vs1 vs2 h1 h2 hv1 hv2 hl heps hb) _

theorem stageJac_hh {n : ℕ} (vs : List (Fin n → ℝ)) (hv : ∀ v ∈ vs, v ⬝ᵥ v ≠ 0) :
    StageJac () (hhStage (vs.map List.ofFn)) n (affine (LinearFamily.Q vs) 0)
      (fun _ => Real.log |(LinearFamily.Q vs).det|) :=
  stageJac_of_passIs (hh_logdet_is_log_abs_det_fderiv vs hv) _

/-- the Householder stage returns `0` -/
theorem hh_stage_logdet_zero {n : ℕ} (vs : List (Fin n → ℝ)) (hv : ∀ v ∈ vs, v ⬝ᵥ v ≠ 0) :
    Real.log |(LinearFamily.Q vs).det| = 0 := by
  rw [LinearFamily.Q_det_abs vs hv, Real.log_one]

theorem stageJac_naive {n : ℕ} (W : Matrix (Fin n) (Fin n) ℝ) (hW : W.det ≠ 0) (b : List ℝ) (hb : b.length = n) :
    StageJac () (naiveStage n (ofMat W) b) n (affine W (vecFn n b)) (fun _ => Real.log |W.det|) :=
  stageJac_of_passIs (NaiveGauss.naive_logdet_is_log_abs_det_fderiv W hW b hb) _

/-! ## two stages built the documented way -/

/-- **two arbitrary executed passes as the two stages** of `MultiscaleCompositeTransform(2, split_dim=1)` on items of size
    `c + h ≥ 4` (`c = ⌈n/2⌉` emitted after stage 1, `h = ⌊n/2⌋` passed on): the object `MS.build` returns, run forward on `v`,
    outputs `φ₁ v` with its last `h` coordinates sent through `φ₂`, returns the SUM of the two passes' log-dets, and that sum is
    `log |det D|` for the Fréchet derivative `D` of the whole item map. -/
theorem multiscale_two_pass_logdet_is_jacobian (c h : ℕ) (hc : (c + h + 1) / 2 = c) (h4 : 4 ≤ c + h)
    {F₁ G₁ F₂ G₂ : List (List ℝ) → List (List ℝ) × List ℝ} {g₁ g₂ : List ℝ → List ℝ}
    {φ₁ : (Fin (c + h) → ℝ) → (Fin (c + h) → ℝ)} {φ₂ : (Fin h → ℝ) → (Fin h → ℝ)}
    {M₁ : Matrix (Fin (c + h)) (Fin (c + h)) ℝ} {M₂ : Matrix (Fin h) (Fin h) ℝ}
    (p₁ : PassIs (c + h) F₁ g₁ φ₁ M₁) (p₂ : PassIs h F₂ g₂ φ₂ M₂) (v : Fin (c + h) → ℝ) :
    ∃ m : MS ℝ Unit ℝ, MS.build 2 (.int 1) [stageOfPass F₁ G₁, stageOfPass F₂ G₂] [c + h] = .ok m ∧
      m.forward (LD.std ℝ) ⟨[c + h], List.ofFn v⟩ () =
        .ok (⟨[c + h], List.ofFn (blockMap (splitFin c h) φ₂ (φ₁ v))⟩, Real.log |M₁.det| + Real.log |M₂.det|) ∧
      ∃ D : (Fin (c + h) → ℝ) →L[ℝ] (Fin (c + h) → ℝ),
        HasFDerivAt (blockMap (splitFin c h) φ₂ ∘ φ₁) D v ∧ D.det ≠ 0 ∧
        Real.log |M₁.det| + Real.log |M₂.det| = Real.log |D.det| := by
  refine ⟨_, two_stage_built c h hc h4 _ _, ?_⟩
  have := two_stage_logdet () c h hc (by omega) (stageOfPass F₁ G₁) (stageOfPass F₂ G₂) _ _ _ _
    (stageJac_of_passIs p₁ G₁) (stageJac_of_passIs p₂ G₂) v
  rw [← ofFn_blockMap] at this
  exact this

/-- `LUParams` with the size field set (so that the size is `m` by definition) -/
def luSized (m : ℕ) (p : LUParams ℝ) : LUParams ℝ := { p with n := m }

theorem luSized_eq (m : ℕ) (p : LUParams ℝ) (h : p.n = m) : luSized m p = p := by
  cases p; simp only [luSized] at *; subst h; rfl

/-- **C01 for a two-stage multiscale transform over two executed `LULinear` stages** (sizes `c + h` and `h`,
    `c = ⌈n/2⌉`, `h = ⌊n/2⌋`, `n = c + h ≥ 4`), built by `MS.build` (`add_transform` twice): the forward pass on the item `v`
    returns `luLogabsdet p₁ + luLogabsdet p₂` — the sum of the two `LULinear.logabsdet()` — and that sum is `log |det D|`
    for the Fréchet derivative `D` of the item map `v ↦ (id × (W₂ · + b₂)) (W₁ v + b₁)` that the forward pass computes. -/
theorem multiscale_lu_logdet_is_jacobian (c h : ℕ) (hc : (c + h + 1) / 2 = c) (h4 : 4 ≤ c + h) (q₁ q₂ : LUParams ℝ)
    (hlen₁ : q₁.udiag.length = c + h) (heps₁ : 0 ≤ q₁.eps) (hb₁ : q₁.bias.length = c + h)
    (hlen₂ : q₂.udiag.length = h) (heps₂ : 0 ≤ q₂.eps) (hb₂ : q₂.bias.length = h) (v : Fin (c + h) → ℝ) :
    ∃ m : MS ℝ Unit ℝ,
      MS.build 2 (.int 1) [luStage (luSized (c + h) q₁), luStage (luSized h q₂)] [c + h] = .ok m ∧
      m.forward (LD.std ℝ) ⟨[c + h], List.ofFn v⟩ () =
        .ok (⟨[c + h], List.ofFn (blockMap (splitFin c h)
                (affine (luW (luSized h q₂)) (vecFn h q₂.bias))
                (affine (luW (luSized (c + h) q₁)) (vecFn (c + h) q₁.bias) v))⟩,
             luLogabsdet realOps (luSized (c + h) q₁) + luLogabsdet realOps (luSized h q₂)) ∧
      ∃ D : (Fin (c + h) → ℝ) →L[ℝ] (Fin (c + h) → ℝ),
        HasFDerivAt (blockMap (splitFin c h) (affine (luW (luSized h q₂)) (vecFn h q₂.bias)) ∘
          affine (luW (luSized (c + h) q₁)) (vecFn (c + h) q₁.bias)) D v ∧ D.det ≠ 0 ∧
        luLogabsdet realOps (luSized (c + h) q₁) + luLogabsdet realOps (luSized h q₂) = Real.log |D.det| := by
  have k₁ := lu_logdet_is_log_abs_det_fderiv (luSized (c + h) q₁) hlen₁ heps₁ hb₁
  have k₂ := lu_logdet_is_log_abs_det_fderiv (luSized h q₂) hlen₂ heps₂ hb₂
  have e₁ := luLogabsdet_executed (luSized (c + h) q₁) hlen₁ heps₁
  have e₂ := luLogabsdet_executed (luSized h q₂) hlen₂ heps₂
  rw [e₁, e₂]
  exact multiscale_two_pass_logdet_is_jacobian c h hc h4 k₁ k₂ v

/-- the same for ARBITRARY `LUParams` of the right sizes (`p₁.n = c + h`, `p₂.n = h`): the item map `Φ` is quantified
    existentially (its type depends on `p₁.n`), but it is pinned down by the first clause — it is the map the executed
    forward pass computes on every item. -/
theorem multiscale_lu_logdet_is_jacobian' (c h : ℕ) (hc : (c + h + 1) / 2 = c) (h4 : 4 ≤ c + h) (p₁ p₂ : LUParams ℝ)
    (hn₁ : p₁.n = c + h) (hn₂ : p₂.n = h)
    (hlen₁ : p₁.udiag.length = p₁.n) (heps₁ : 0 ≤ p₁.eps) (hb₁ : p₁.bias.length = p₁.n)
    (hlen₂ : p₂.udiag.length = p₂.n) (heps₂ : 0 ≤ p₂.eps) (hb₂ : p₂.bias.length = p₂.n) :
    ∃ (m : MS ℝ Unit ℝ) (Φ : (Fin (c + h) → ℝ) → (Fin (c + h) → ℝ)),
      MS.build 2 (.int 1) [luStage p₁, luStage p₂] [c + h] = .ok m ∧
      ∀ v : Fin (c + h) → ℝ,
        m.forward (LD.std ℝ) ⟨[c + h], List.ofFn v⟩ () =
          .ok (⟨[c + h], List.ofFn (Φ v)⟩, luLogabsdet realOps p₁ + luLogabsdet realOps p₂) ∧
        ∃ D : (Fin (c + h) → ℝ) →L[ℝ] (Fin (c + h) → ℝ), HasFDerivAt Φ D v ∧ D.det ≠ 0 ∧
          luLogabsdet realOps p₁ + luLogabsdet realOps p₂ = Real.log |D.det| := by
  rw [← luSized_eq _ p₁ hn₁, ← luSized_eq _ p₂ hn₂]
  rw [hn₁] at hlen₁ hb₁
  rw [hn₂] at hlen₂ hb₂
  refine ⟨_, blockMap (splitFin c h) (affine (luW (luSized h p₂)) (vecFn h p₂.bias)) ∘
      affine (luW (luSized (c + h) p₁)) (vecFn (c + h) p₁.bias), two_stage_built c h hc h4 _ _, fun v => ?_⟩
  obtain ⟨m, hm, hf, hD⟩ := multiscale_lu_logdet_is_jacobian c h hc h4 p₁ p₂ hlen₁ heps₁ hb₁ hlen₂ heps₂ hb₂ v
  rw [two_stage_built c h hc h4] at hm
  cases hm
  exact ⟨hf, hD⟩

/-! ## a concrete instance at `n = 4` -/

/-- an `LULinear` on 4 features: 6 strictly-lower entries, 6 strictly-upper entries, 4 unconstrained diagonal entries -/
noncomputable abbrev pLU4 : LUParams ℝ :=
  { n := 2 + 2, lower := [3, 1, -2, 0, 4, 1], upper := [5, -1, 2, 0, 1, 3], udiag := [0, 1, -1, 2], bias := [1, -1, 0, 2],
    eps := 1 / 1000 }

theorem pLU4_eps : (0 : ℝ) ≤ pLU4.eps := by show (0 : ℝ) ≤ 1 / 1000; norm_num

/-- `n = 4`: stage 1 is the `LULinear` `pLU4` on the 4 coordinates, stage 2 is `LinearJacobian.pLU` on the 2 passed-on
    ones; the built object's forward pass returns `logabsdet(pLU4) + logabsdet(pLU)`, the log-abs-det of the Jacobian of
    the map it computes. -/
example (v : Fin (2 + 2) → ℝ) :
    ∃ m : MS ℝ Unit ℝ, MS.build 2 (.int 1) [luStage pLU4, luStage pLU] [2 + 2] = .ok m ∧
      m.forward (LD.std ℝ) ⟨[2 + 2], List.ofFn v⟩ () =
        .ok (⟨[2 + 2], List.ofFn (blockMap (splitFin 2 2) (affine (luW pLU) (vecFn 2 pLU.bias))
                (affine (luW pLU4) (vecFn (2 + 2) pLU4.bias) v))⟩,
             luLogabsdet realOps pLU4 + luLogabsdet realOps pLU) ∧
      ∃ D : (Fin (2 + 2) → ℝ) →L[ℝ] (Fin (2 + 2) → ℝ),
        HasFDerivAt (blockMap (splitFin 2 2) (affine (luW pLU) (vecFn 2 pLU.bias)) ∘
          affine (luW pLU4) (vecFn (2 + 2) pLU4.bias)) D v ∧ D.det ≠ 0 ∧
        luLogabsdet realOps pLU4 + luLogabsdet realOps pLU = Real.log |D.det| :=
  multiscale_lu_logdet_is_jacobian 2 2 (by norm_num) (by norm_num) pLU4 pLU rfl pLU4_eps rfl rfl pLU_eps rfl v

/-- a MIXED instance through the generic adapter: stage 1 the `LULinear` `pLU4`, stage 2 the `QRLinear`
    `LinearJacobian.pQR` (two non-trivial Householder reflections) on the 2 passed-on coordinates -/
example (v : Fin (2 + 2) → ℝ) :
    ∃ m : MS ℝ Unit ℝ, MS.build 2 (.int 1) [luStage pLU4, qrStage pQR] [2 + 2] = .ok m ∧
      m.forward (LD.std ℝ) ⟨[2 + 2], List.ofFn v⟩ () =
        .ok (⟨[2 + 2], List.ofFn (blockMap (splitFin 2 2) (affine (qrW pQR [![1, 2], ![0, 3]]) (vecFn 2 pQR.bias))
                (affine (luW pLU4) (vecFn (2 + 2) pLU4.bias) v))⟩,
             Real.log |(luW pLU4).det| + Real.log |(qrW pQR [![1, 2], ![0, 3]]).det|) ∧
      ∃ D : (Fin (2 + 2) → ℝ) →L[ℝ] (Fin (2 + 2) → ℝ),
        HasFDerivAt (blockMap (splitFin 2 2) (affine (qrW pQR [![1, 2], ![0, 3]]) (vecFn 2 pQR.bias)) ∘
          affine (luW pLU4) (vecFn (2 + 2) pLU4.bias)) D v ∧ D.det ≠ 0 ∧
        Real.log |(luW pLU4).det| + Real.log |(qrW pQR [![1, 2], ![0, 3]]).det| = Real.log |D.det| :=
  multiscale_two_pass_logdet_is_jacobian 2 2 (by norm_num) (by norm_num)
    (lu_logdet_is_log_abs_det_fderiv pLU4 rfl pLU4_eps rfl)
    (qr_logdet_is_log_abs_det_fderiv pQR _ rfl vs_ex_ne rfl rfl) v

end MultiscaleLinear
