import NflowsModel.Lemmas.StructureExec
import NflowsModel.Lemmas.RQInverseWhole
/-!
# Lemmas/StructureExecRQ — the per-element invertibility hypothesis of the executed coupling layer (C02) discharged
for the bounded rational-quadratic family over the reals, from the whole-program RQ theorems
(`RQWhole`, `RQInverseWhole`).
-/
open NF DualSound

namespace NF.StructureExec
variable {α : Type}

/-- the spline configuration `elTransform` builds for the bounded RQ family -/
def rqCfgOf (c : ElCfg) : RQCfg :=
  { box := ⟨c.ds.getD 0 0.0, c.ds.getD 1 0.0, c.ds.getD 2 0.0, c.ds.getD 3 0.0⟩,
    minW := c.ds.getD 4 0.0, minH := c.ds.getD 5 0.0, minD := c.ds.getD 6 0.0, beta := c.ds.getD 7 0.0 }

/-- the `1/sqrt(hidden)` scaling policy applied to a slice -/
def rqScale (o : XOps α) (c : ElCfg) (b : Bool) (l : List α) : List α :=
  if b then l.map (fun u => o.div u (o.ofFloat (Float.sqrt c.scaling.1))) else l

/-- unnormalised widths / heights / derivatives that `elTransform` slices out of a parameter vector -/
def rqW (o : XOps α) (c : ElCfg) (p : List α) : List α := rqScale o c c.scaling.2.1 (p.take c.K)
def rqH (o : XOps α) (c : ElCfg) (p : List α) : List α := rqScale o c c.scaling.2.2 ((p.drop c.K).take c.K)
def rqD (c : ElCfg) (p : List α) : List α := p.drop (2 * c.K)

theorem elTransform_rq (o : XOps α) (c : ElCfg) (hk : c.kind = "rq") (ht : c.tails = false) (inverse : Bool)
    (p : List α) (x : α) :
    elTransform o c inverse p x
      = (rqSpline o (rqCfgOf c) (rqW o c p) (rqH o c p) (rqD c p) inverse x).map (fun ab => (ab.1, ab.2, [])) := by
  unfold elTransform rqW rqH rqD rqScale rqCfgOf
  rcases hsc : c.scaling with ⟨hid, sW, sH⟩
  simp only [hk, ht]
  rfl

/-- **one RQ element over the reals inverts exactly and negates its log-det** — the executed forward program
    followed by the executed inverse program with the same (valid) parameters, from `RQWhole` / `RQInverseWhole`.
    The domain condition is not a hypothesis: a forward call that succeeded had its input in `[left, right]`. -/
theorem rqSpline_real_invertible (e : Float → ℝ) (c : RQCfg) (uw uh ud : List ℝ)
    (hv : RQWhole.RQValid e c uw uh ud) {x y l : ℝ}
    (h : rqSpline (NF.realX e) c uw uh ud false x = .ok (y, l)) :
    rqSpline (NF.realX e) c uw uh ud true y = .ok (x, -l) := by
  have hdom : e c.box.left ≤ x ∧ x ≤ e c.box.right := by
    by_contra hc
    have hb : ((NF.realX e).lt x ((NF.realX e).ofFloat (if false = true then c.box.bottom else c.box.left)) ||
        (NF.realX e).lt ((NF.realX e).ofFloat (if false = true then c.box.top else c.box.right)) x) = true := by
      simp only [Bool.false_eq_true, if_false, realX_lt, realX_ofFloat, Bool.or_eq_true, decide_eq_true_eq]
      by_contra h2
      exact hc ⟨le_of_not_gt (fun h3 => h2 (Or.inl h3)), le_of_not_gt (fun h3 => h2 (Or.inr h3))⟩
    have herr : rqSpline (NF.realX e) c uw uh ud false x = .error .outsideDomain := by
      unfold rqSpline
      simp only [hb]
      rfl
    rw [herr] at h
    cases h
  have hval : RQWhole.val e c uw uh ud x = y := by unfold RQWhole.val; rw [h]
  have hld : RQWhole.ld e c uw uh ud x = l := by unfold RQWhole.ld; rw [h]
  have hy := RQWhole.val_mapsTo hv ⟨hdom.1, hdom.2⟩
  rw [hval] at hy
  rw [RQInverseWhole.exec_ok hv y hy.1 hy.2]
  have h1 := RQInverseWhole.inv_val hv x hdom.1 hdom.2
  have h2 := RQInverseWhole.ld_eq_neg_invLd hv x hdom.1 hdom.2
  rw [hval] at h1 h2
  rw [hld] at h2
  rw [h1]
  congr 2
  linarith

/-- every parameter slice the conditioner produced is an accepted RQ configuration -/
def RQParamsValid (e : Float → ℝ) (c : ElCfg) (Ft S : Nat) (params : Array ℝ) (B : Nat) : Prop :=
  ∀ b t s, b < B → t < Ft → s < S →
    RQWhole.RQValid e (rqCfgOf c)
      (rqW (NF.realX e) c (condSlice (NF.realX e) c.mult Ft S params b t s))
      (rqH (NF.realX e) c (condSlice (NF.realX e) c.mult Ft S params b t s))
      (rqD c (condSlice (NF.realX e) c.mult Ft S params b t s))

/-- the per-element hypothesis of the executed C02 theorem, discharged for the bounded RQ coupling family -/
theorem elInvertible_rq_real (e : Float → ℝ) (c : ElCfg) (hk : c.kind = "rq") (ht : c.tails = false)
    (Ft S : Nat) (params : Array ℝ) (B : Nat) (hv : RQParamsValid e c Ft S params B) :
    ElInvertible (NF.realX e) c Ft S params B := by
  have hk1 : c.kind ≠ "affine" := by rw [hk]; decide
  have hk2 : c.kind ≠ "additive" := by rw [hk]; decide
  intro b t s xi y l al hb ht' hs hf
  rw [couplingEl_spline (NF.realX e) c S params false hk1 hk2, elTransform_rq _ c hk ht] at hf
  rw [couplingEl_spline (NF.realX e) c S params true hk1 hk2, elTransform_rq _ c hk ht]
  cases hr : rqSpline (NF.realX e) (rqCfgOf c)
      (rqW (NF.realX e) c (condSlice (NF.realX e) c.mult Ft S params b t s))
      (rqH (NF.realX e) c (condSlice (NF.realX e) c.mult Ft S params b t s))
      (rqD c (condSlice (NF.realX e) c.mult Ft S params b t s)) false xi with
  | error err => rw [hr] at hf; simp [Except.map] at hf
  | ok v =>
    obtain ⟨y', l'⟩ := v
    rw [hr] at hf
    simp only [Except.map, Except.ok.injEq, Prod.mk.injEq] at hf
    obtain ⟨rfl, rfl, rfl⟩ := hf
    rw [rqSpline_real_invertible e _ _ _ _ (hv b t s hb ht' hs) hr]
    exact ⟨[], rfl⟩

/-- **C02 (executed RQ coupling layer over the reals).**  Bounded rational-quadratic coupling, any mask, `B`, `S`:
    if every parameter slice is an accepted configuration and the forward pass reported no error (all transformed
    inputs inside `[left, right]`), the inverse pass on the forward output with the same parameters returns the input
    array, reports no error, is given the same conditioner input, and returns the negated row log-dets. -/
theorem coupling_rq_roundtrip_real (e : Float → ℝ) (c : ElCfg) (hk : c.kind = "rq") (ht : c.tails = false)
    (mask : List ℝ) (B S : Nat) (x params uparams uparams' : Array ℝ)
    (hv : RQParamsValid e c (transformIdx (NF.realX e) mask).length S params B)
    (herr : (couplingApply (NF.realX e) c mask B S x params false none uparams).err = none)
    (hsz : B * mask.length * S ≤ x.size) :
    let fwd := couplingApply (NF.realX e) c mask B S x params false none uparams
    let inv := couplingApply (NF.realX e) c mask B S fwd.out params true none uparams'
    inv.out = x ∧ inv.err = none ∧ inv.condIn = fwd.condIn ∧ ∀ b, b < B → inv.ld[b]? = (fwd.ld[b]?).map (fun l => -l) :=
  coupling_inverse_forward_real e c mask B S x params uparams uparams'
    (elInvertible_rq_real e c hk ht _ S params B hv) herr hsz

/-! non-vacuity: a one-bin RQ configuration on the unit box (`RQWhole.valid_example`), every slice of the empty
    parameter array (all reads default to 0) is accepted -/
def cW : ElCfg := { container := "cdf", kind := "rq", K := 1, ds := #[0.0, 1.0, 0.0, 1.0, 0.0, 0.0, 0.0, 1.0] }

theorem rqParamsValid_example (Ft S B : Nat) : RQParamsValid RQWhole.eNV cW Ft S #[] B := by
  intro b t s _ _ _
  have hs : condSlice (NF.realX RQWhole.eNV) cW.mult Ft S #[] b t s = [0, 0, 0, 0] := by
    have hm : cW.mult = 4 := by decide
    rw [hm]
    simp [condSlice, List.range_succ]
  rw [hs]
  have hw : rqW (NF.realX RQWhole.eNV) cW [0, 0, 0, 0] = [0] := by simp [rqW, rqScale, cW]
  have hh : rqH (NF.realX RQWhole.eNV) cW [0, 0, 0, 0] = [0] := by simp [rqH, rqScale, cW]
  have hd : rqD cW ([0, 0, 0, 0] : List ℝ) = [0, 0] := by simp [rqD, cW]
  rw [hw, hh, hd]
  exact RQWhole.valid_example

end NF.StructureExec
