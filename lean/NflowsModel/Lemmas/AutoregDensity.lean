import Mathlib.MeasureTheory.Constructions.Pi
import Mathlib.MeasureTheory.Measure.Prod
import Mathlib.MeasureTheory.Measure.Lebesgue.Basic
import Mathlib.MeasureTheory.Integral.Lebesgue.Map
import Mathlib.Tactic
/-!
# Lemmas/AutoregDensity — a product of normalised conditionals is a normalised joint (every dimension)

`q i y t` is the conditional density of coordinate `i` at `t` given the prefix `y : Fin i → ℝ` of the earlier
coordinates.  If every conditional integrates to one for every prefix, the joint
`x ↦ ∏ᵢ q i (x₀,…,x_{i-1}) xᵢ` integrates to one on `ℝᴰ`, for every `D` (Tonelli, induction on `D`, peeling the LAST
coordinate).  That conditional `i` is a function of the prefix only is the autoregressive property (C06).
-/
open MeasureTheory

namespace AutoregDensity

/-- the first `i` coordinates of `x` -/
def pre {D : ℕ} (x : Fin D → ℝ) (i : Fin D) : Fin i → ℝ := fun j => x ⟨j, j.2.trans i.2⟩

theorem measurable_pre {D : ℕ} (i : Fin D) : Measurable (fun x : Fin D → ℝ => pre x i) :=
  measurable_pi_lambda _ (fun _ => measurable_pi_apply _)

theorem snoc_lt {D : ℕ} (y : Fin D → ℝ) (t : ℝ) (j : ℕ) (h : j < D) :
    (Fin.snoc y t : Fin (D + 1) → ℝ) ⟨j, Nat.lt_succ_of_lt h⟩ = y ⟨j, h⟩ := by
  have : (⟨j, Nat.lt_succ_of_lt h⟩ : Fin (D + 1)) = Fin.castSucc ⟨j, h⟩ := rfl
  rw [this, Fin.snoc_castSucc]

theorem pre_snoc_castSucc {D : ℕ} (y : Fin D → ℝ) (t : ℝ) (i : Fin D) :
    pre (Fin.snoc y t : Fin (D + 1) → ℝ) (Fin.castSucc i) = pre y i := by
  funext j
  exact snoc_lt y t j (j.2.trans i.2)

theorem pre_snoc_last {D : ℕ} (y : Fin D → ℝ) (t : ℝ) :
    pre (Fin.snoc y t : Fin (D + 1) → ℝ) (Fin.last D) = y := by
  funext j
  exact snoc_lt y t j j.2

theorem joint_lintegral (q : (i : ℕ) → (Fin i → ℝ) → ℝ → ENNReal)
    (hmeas : ∀ i, Measurable (Function.uncurry (q i)))
    (hnorm : ∀ i y, ∫⁻ t, q i y t = 1) :
    ∀ D : ℕ, ∫⁻ x : Fin D → ℝ, ∏ i : Fin D, q i (pre x i) (x i) = 1
  | 0 => by
    simp only [Finset.univ_eq_empty, Finset.prod_empty, lintegral_one]
    rw [volume_pi, Measure.pi_univ]; simp
  | D + 1 => by
    have ih := joint_lintegral q hmeas hnorm D
    let e : ℝ × (Fin D → ℝ) ≃ᵐ (Fin (D + 1) → ℝ) :=
      (MeasurableEquiv.piFinSuccAbove (fun _ : Fin (D + 1) => ℝ) (Fin.last D)).symm
    have hmp : MeasurePreserving e (volume.prod volume) volume :=
      (volume_preserving_piFinSuccAbove (fun _ : Fin (D + 1) => ℝ) (Fin.last D)).symm _
    have he : ∀ p : ℝ × (Fin D → ℝ), e p = Fin.snoc p.2 p.1 := by
      intro p
      simp only [e, MeasurableEquiv.piFinSuccAbove_symm_apply]
      exact Fin.insertNth_last' _ _
    have hA : Measurable (fun y : Fin D → ℝ => ∏ i : Fin D, q i (pre y i) (y i)) := by
      apply Finset.measurable_prod
      intro i _
      exact (hmeas i).comp ((measurable_pre i).prodMk (measurable_pi_apply i))
    have key : ∀ p : ℝ × (Fin D → ℝ),
        (∏ i : Fin (D + 1), q i (pre (e p) i) (e p i)) = (∏ i : Fin D, q i (pre p.2 i) (p.2 i)) * q D p.2 p.1 := by
      intro p
      rw [he, Fin.prod_univ_castSucc]
      congr 1
      · apply Finset.prod_congr rfl
        intro i _
        rw [pre_snoc_castSucc, Fin.snoc_castSucc]
        rfl
      · rw [pre_snoc_last, Fin.snoc_last]
        rfl
    rw [MeasurePreserving.lintegral_map_equiv (fun x : Fin (D + 1) → ℝ => ∏ i : Fin (D + 1), q i (pre x i) (x i)) e hmp]
    simp_rw [key]
    rw [lintegral_prod_symm]
    · have h1 : ∀ y : Fin D → ℝ, ∫⁻ t : ℝ, (∏ i : Fin D, q i (pre y i) (y i)) * q D y t
          = ∏ i : Fin D, q i (pre y i) (y i) := by
        intro y
        have hm : Measurable (fun t : ℝ => q D y t) :=
          (hmeas D).comp (measurable_const.prodMk measurable_id)
        rw [lintegral_const_mul _ hm, hnorm, mul_one]
      simp_rw [h1]
      exact ih
    · apply Measurable.aemeasurable
      exact (hA.comp measurable_snd).mul ((hmeas D).comp (measurable_snd.prodMk measurable_fst))

end AutoregDensity
