import NflowsModel.Core.Made
import Mathlib.Data.Real.Basic
import Mathlib.Tactic
/-!
# Lemmas/MadeNet — the generic forward pass of `Core/Made` respects the degree bookkeeping

`DepSys o` abstracts "the value `v : M` depends only on the inputs of degree `≤ d`" (`Dep d v`): monotone in `d`,
closed under `zero`, `add`, `smul`.  For any such system, any weights, any biases / context contributions that
are constants of the system and any per-unit maps that preserve `Dep`, every unit of every layer of
`NF.Made.forward` satisfies `Dep (its degree)`, and an output unit of degree `D` satisfies `Dep (D - 1)`.

Two instances: real-valued functions of the whole input batch (`realDep`) and integer path counts (`natDep`).
-/
namespace NF.Made

variable {S M : Type}

structure DepSys (o : MOps S M) where
  Dep : Nat → M → Prop
  mono : ∀ {d d' : Nat} {v : M}, d ≤ d' → Dep d v → Dep d' v
  zero : ∀ d, Dep d o.zero
  add : ∀ {d : Nat} {a b : M}, Dep d a → Dep d b → Dep d (o.add a b)
  smul : ∀ {d : Nat} {a : M} (s : S), Dep d a → Dep d (o.smul s a)

/-- biases and context contributions do not depend on the inputs; per-unit maps preserve dependence -/
structure Params.Good {o : MOps S M} (D : DepSys o) (P : Params S M) : Prop where
  bias : ∀ l k d, D.Dep d (P.bias l k)
  ctx : ∀ b k d, D.Dep d (P.ctx b k)
  um : ∀ b s k d v, D.Dep d v → D.Dep d (P.um b s k v)

/-- every unit of the layer depends only on inputs of degree ≤ its own degree -/
def StOk {o : MOps S M} (D : DepSys o) (h : St M) : Prop := ∀ p ∈ h, D.Dep p.1 p.2

variable {o : MOps S M} (D : DepSys o)

theorem msum_dep {d : Nat} {l : List M} (hl : ∀ t ∈ l, D.Dep d t) : D.Dep d (msum o l) := by
  induction l with
  | nil => exact D.zero d
  | cons x r ih =>
    simp only [msum]
    exact D.add (hl x (by simp)) (ih (fun t ht => hl t (by simp [ht])))

theorem linear_ok {dOut : List Nat} {W : Nat → Nat → S} {b : Nat → M} {h : St M}
    (hb : ∀ k d, D.Dep d (b k)) (hh : StOk D h) : StOk D (linear o false dOut W b h) := by
  intro p hp
  unfold linear at hp
  rw [List.mem_mapIdx] at hp
  obtain ⟨k, hk, rfl⟩ := hp
  refine D.add (hb _ _) (msum_dep D ?_)
  intro t ht
  rw [List.mem_mapIdx] at ht
  obtain ⟨i, hi, rfl⟩ := ht
  by_cases hm : maskEntry false dOut[k] h[i].1 = true
  · rw [if_pos hm]
    have hle : h[i].1 ≤ dOut[k] := by simpa [maskEntry] using hm
    exact D.smul _ (D.mono hle (hh _ (List.getElem_mem hi)))
  · rw [if_neg hm]; exact D.zero _

/-- the output layer (`>` mask): a unit of degree `D` depends only on inputs of degree `< D` -/
theorem linear_strict {dOut : List Nat} {W : Nat → Nat → S} {b : Nat → M} {h : St M}
    (hb : ∀ k d, D.Dep d (b k)) (hh : StOk D h) :
    ∀ p ∈ linear o true dOut W b h, ∀ d, p.1 ≤ d + 1 → D.Dep d p.2 := by
  intro p hp d hd
  unfold linear at hp
  rw [List.mem_mapIdx] at hp
  obtain ⟨k, hk, rfl⟩ := hp
  refine D.add (hb _ _) (msum_dep D ?_)
  intro t ht
  rw [List.mem_mapIdx] at ht
  obtain ⟨i, hi, rfl⟩ := ht
  by_cases hm : maskEntry true dOut[k] h[i].1 = true
  · rw [if_pos hm]
    have hlt : h[i].1 < dOut[k] := by simpa [maskEntry] using hm
    have hle : h[i].1 ≤ d := by simp only at hd; omega
    exact D.smul _ (D.mono hle (hh _ (List.getElem_mem hi)))
  · rw [if_neg hm]; exact D.zero _

theorem linear_fst (strict : Bool) (dOut : List Nat) (W : Nat → Nat → S) (b : Nat → M) (h : St M) :
    (linear o strict dOut W b h).map Prod.fst = dOut := by
  apply List.ext_getElem
  · simp [linear]
  · intro i h1 h2; simp [linear]

theorem mapUnits_ok {f : Nat → M → M} {h : St M} (hf : ∀ k d v, D.Dep d v → D.Dep d (f k v)) (hh : StOk D h) :
    StOk D (mapUnits f h) := by
  intro p hp
  unfold mapUnits at hp
  rw [List.mem_mapIdx] at hp
  obtain ⟨k, hk, rfl⟩ := hp
  exact hf _ _ _ (hh _ (List.getElem_mem hk))

theorem mapUnits_fst (f : Nat → M → M) (h : St M) : (mapUnits f h).map Prod.fst = h.map Prod.fst := by
  apply List.ext_getElem
  · simp [mapUnits]
  · intro i h1 h2; simp [mapUnits]

theorem addConst_ok {c : Nat → M} {h : St M} (hc : ∀ k d, D.Dep d (c k)) (hh : StOk D h) :
    StOk D (addConst o c h) := by
  intro p hp
  unfold addConst at hp
  rw [List.mem_mapIdx] at hp
  obtain ⟨k, hk, rfl⟩ := hp
  exact D.add (hh _ (List.getElem_mem hk)) (hc _ _)

theorem addConst_fst (c : Nat → M) (h : St M) : (addConst o c h).map Prod.fst = h.map Prod.fst := by
  apply List.ext_getElem
  · simp [addConst]
  · intro i h1 h2; simp [addConst]

/-- the residual connection: needs `degree of the block input ≤ degree of the block output`, unit by unit -/
theorem residualAdd_ok {h t : St M} (hh : StOk D h) (ht : StOk D t)
    (hle : ∀ p ∈ h.zip t, p.1.1 ≤ p.2.1) : StOk D (residualAdd o h t) := by
  intro p hp
  unfold residualAdd at hp
  rw [List.mem_map] at hp
  obtain ⟨q, hq, rfl⟩ := hp
  have h1 := List.of_mem_zip (show (q.1, q.2) ∈ h.zip t from hq)
  exact D.add (D.mono (hle q hq) (hh _ h1.1)) (ht _ h1.2)

theorem residualAdd_fst {h t : St M} (hlen : h.length = t.length) :
    (residualAdd o h t).map Prod.fst = t.map Prod.fst := by
  unfold residualAdd
  rw [List.map_map]
  have : (Prod.fst ∘ fun p : (Nat × M) × (Nat × M) => (p.2.1, o.add p.1.2 p.2.2)) = Prod.fst ∘ Prod.snd := by
    funext p; rfl
  rw [this, ← List.map_map, List.map_snd_zip (by omega)]

theorem degreesNonDecreasing_spec {dIn dOut : List Nat} (hc : degreesNonDecreasing dIn dOut = true) :
    ∀ p ∈ dIn.zip dOut, p.1 ≤ p.2 := by
  intro p hp
  unfold degreesNonDecreasing at hc
  rw [List.all_eq_true] at hc
  simpa using hc p hp

variable {D}

theorem residual_step_ok {h : St M} {prev d1 : List Nat} (hh : StOk D h) (hf : h.map Prod.fst = prev)
    (hlen : prev.length = d1.length) (hmono : degreesNonDecreasing prev d1 = true)
    (W : Nat → Nat → S) {b : Nat → M} (hb : ∀ k d, D.Dep d (b k)) (t2 : St M) (h2 : StOk D t2) :
    StOk D (residualAdd o h (linear o false d1 W b t2)) ∧
      (residualAdd o h (linear o false d1 W b t2)).map Prod.fst = d1 := by
  have h3 := linear_ok D (dOut := d1) (W := W) hb h2
  have f3 := linear_fst (o := o) false d1 W b t2
  have hlen' : h.length = (linear o false d1 W b t2).length := by
    have e1 := congrArg List.length hf
    have e2 := congrArg List.length f3
    simp only [List.length_map] at e1 e2
    omega
  constructor
  · refine residualAdd_ok D hh h3 ?_
    intro p hp
    have hz : (p.1.1, p.2.1) ∈ (h.map Prod.fst).zip ((linear o false d1 W b t2).map Prod.fst) := by
      rw [List.zip_map]
      exact List.mem_map.mpr ⟨p, hp, rfl⟩
    rw [hf, f3] at hz
    exact degreesNonDecreasing_spec hmono _ hz
  · rw [residualAdd_fst hlen', f3]

theorem blockFwd_ok {P : Params S M} (hP : P.Good D) (n : Net) (bi li : Nat) (b : Block) (prev : List Nat) (r : List Block)
    (hv : checkBlocks prev (b :: r) = true) {h : St M} (hh : StOk D h) (hf : h.map Prod.fst = prev) :
    StOk D (blockFwd o P n bi li b h) ∧ (blockFwd o P n bi li b h).map Prod.fst = b.outDegrees ∧
      checkBlocks b.outDegrees r = true := by
  have hbn : ∀ (s : Slot) (t : St M), StOk D t → StOk D (if n.bn then mapUnits (P.um (bi + 1) s) t else t) := by
    intro s t ht; split
    · exact mapUnits_ok D (hP.um _ _) ht
    · exact ht
  cases b with
  | ff d =>
    refine ⟨?_, ?_, by simpa [checkBlocks, Block.outDegrees] using hv⟩
    · simp only [blockFwd]
      exact mapUnits_ok D (hP.um _ _) (mapUnits_ok D (hP.um _ _) (linear_ok D (hP.bias _) (hbn _ _ hh)))
    · simp only [blockFwd, mapUnits_fst, linear_fst, Block.outDegrees]
  | res d0 d1 =>
    simp only [checkBlocks, Bool.and_eq_true, beq_iff_eq] at hv
    obtain ⟨⟨hlen, hmono⟩, hrest⟩ := hv
    have hctx : ∀ (t : St M), StOk D t → StOk D (if n.hasCtx then addConst o (P.ctx (bi + 1)) t else t) := by
      intro t ht; split
      · exact addConst_ok D (hP.ctx _) ht
      · exact ht
    have h1 := linear_ok D (dOut := d0) (W := P.W li) (hP.bias li) (mapUnits_ok D (hP.um (bi + 1) .act0) (hbn .bn0 _ hh))
    have h2 := mapUnits_ok D (hP.um (bi + 1) .drop) (mapUnits_ok D (hP.um (bi + 1) .act1) (hbn .bn1 _ (hctx _ h1)))
    refine ⟨?_, ?_, hrest⟩
    · simp only [blockFwd]
      exact (residual_step_ok (D := D) hh hf hlen hmono (P.W (li + 1)) (hP.bias (li + 1)) _ h2).1
    · simp only [blockFwd]
      exact (residual_step_ok (D := D) hh hf hlen hmono (P.W (li + 1)) (hP.bias (li + 1)) _ h2).2

theorem blocksFwd_ok {P : Params S M} (hP : P.Good D) (n : Net) :
    ∀ (bs : List Block) (bi li : Nat) (prev : List Nat) (h : St M), checkBlocks prev bs = true → StOk D h →
      h.map Prod.fst = prev → StOk D (blocksFwd o P n bi li bs h) := by
  intro bs
  induction bs with
  | nil => intro bi li prev h _ hh _; simpa [blocksFwd] using hh
  | cons b r ih =>
    intro bi li prev h hv hh hf
    obtain ⟨h1, h2, h3⟩ := blockFwd_ok hP n bi li b prev r hv hh hf
    simp only [blocksFwd]
    exact ih _ _ _ _ h3 h1 h2

/-- **Generic theorem.**  In a valid net, for every dependence system, good parameters and inputs whose unit `j`
    has `Dep (j+1)`: an output unit of degree `p.1` satisfies `Dep d` for every `d ≥ p.1 - 1`. -/
theorem forward_dep {P : Params S M} (hP : P.Good D) (n : Net) (hv : n.valid = true) (x : List M)
    (hx : StOk D ((inputDegrees n.F).zip x)) :
    ∀ p ∈ forward o P n x, ∀ d, p.1 ≤ d + 1 → D.Dep d p.2 := by
  unfold forward
  have h0 := linear_ok D (dOut := n.d0) (W := P.W 0) (hP.bias 0) hx
  have f0 := linear_fst (o := o) false n.d0 (P.W 0) (P.bias 0) ((inputDegrees n.F).zip x)
  set t0 := linear o false n.d0 (P.W 0) (P.bias 0) ((inputDegrees n.F).zip x) with ht0
  have h1 : StOk D (if n.hasCtx then
             (if n.nde then addConst o (P.ctx 0) t0
              else addConst o (fun k => P.um 0 .ctxAct k (P.ctx 0 k)) t0) else t0) := by
    split
    · split
      · exact addConst_ok D (hP.ctx 0) h0
      · exact addConst_ok D (fun k d => hP.um _ _ _ _ _ (hP.ctx 0 k d)) h0
    · exact h0
  have f1 : (if n.hasCtx then
             (if n.nde then addConst o (P.ctx 0) t0
              else addConst o (fun k => P.um 0 .ctxAct k (P.ctx 0 k)) t0) else t0).map Prod.fst = n.d0 := by
    split
    · split <;> rw [addConst_fst, f0]
    · exact f0
  set t1 := (if n.hasCtx then
             (if n.nde then addConst o (P.ctx 0) t0
              else addConst o (fun k => P.um 0 .ctxAct k (P.ctx 0 k)) t0) else t0) with ht1
  have h2 : StOk D (if (!n.nde && !n.residual) = true then mapUnits (P.um 0 .initAct) t1 else t1) := by
    split
    · exact mapUnits_ok D (hP.um _ _) h1
    · exact h1
  have f2 : (if (!n.nde && !n.residual) = true then mapUnits (P.um 0 .initAct) t1 else t1).map Prod.fst = n.d0 := by
    split
    · rw [mapUnits_fst, f1]
    · exact f1
  exact linear_strict D (hP.bias _) (blocksFwd_ok hP n n.blocks 0 1 n.d0 _ hv h2 f2)

theorem forward_fst (P : Params S M) (n : Net) (x : List M) :
    (forward o P n x).map Prod.fst = outputDegrees n.F n.m := by
  unfold forward; exact linear_fst _ _ _ _ _

/-! ### index algebra of the degrees -/

theorem inputDegrees_getElem? (F i : Nat) : (inputDegrees F)[i]? = if i < F then some (i + 1) else none := by
  by_cases h : i < F <;> simp [inputDegrees, h]

theorem inputDegrees_length (F : Nat) : (inputDegrees F).length = F := by simp [inputDegrees]

theorem seqDegrees_length (F H : Nat) : (seqDegrees F H).length = H := by simp [seqDegrees]

theorem tile_cons (x : Nat) (r : List Nat) (n : Nat) : tile (x :: r) n = List.replicate n x ++ tile r n := by
  simp [tile]

theorem tile_length (xs : List Nat) (n : Nat) : (tile xs n).length = xs.length * n := by
  induction xs with
  | nil => simp [tile]
  | cons x r ih => rw [tile_cons, List.length_append, ih, List.length_replicate, List.length_cons]; ring

/-- `tile` repeats each element `n` times consecutively: entry `u` is entry `u / n` of the argument -/
theorem tile_getElem? (xs : List Nat) (n : Nat) (hn : 0 < n) : ∀ u, (tile xs n)[u]? = xs[u / n]? := by
  induction xs with
  | nil => intro u; simp [tile]
  | cons x r ih =>
    intro u
    rw [tile_cons]
    by_cases hu : u < n
    · rw [List.getElem?_append_left (by simpa using hu), Nat.div_eq_of_lt hu]
      simp [hu]
    · have hu' : n ≤ u := Nat.le_of_not_lt hu
      rw [List.getElem?_append_right (by simpa using hu'), List.length_replicate, ih]
      have : u / n = (u - n) / n + 1 := by
        conv_lhs => rw [show u = (u - n) + n by omega]
        exact Nat.add_div_right _ hn
      rw [this, List.getElem?_cons_succ]

theorem outputDegrees_length (F m : Nat) : (outputDegrees F m).length = F * m := by
  simp [outputDegrees, tile_length, inputDegrees_length]

theorem outputDegrees_getElem? (F m : Nat) (hm : 0 < m) (u : Nat) (hu : u < F * m) :
    (outputDegrees F m)[u]? = some (u / m + 1) := by
  unfold outputDegrees
  rw [tile_getElem? _ _ hm, inputDegrees_getElem?]
  have : u / m < F := (Nat.div_lt_iff_lt_mul hm).mpr hu
  simp [this]

theorem outputs_length (P : Params S M) (n : Net) (x : List M) : (outputs o P n x).length = n.F * n.m := by
  have := congrArg List.length (forward_fst (o := o) P n x)
  simpa [outputs, outputDegrees_length] using this

/-- **Generic theorem, by output index**: output unit `u` (block `u / m`) satisfies `Dep (u / m)` -/
theorem outputs_dep {P : Params S M} (hP : P.Good D) (n : Net) (hv : n.valid = true) (hm : 0 < n.m) (x : List M)
    (hx : StOk D ((inputDegrees n.F).zip x)) (u : Nat) (hu : u < (outputs o P n x).length) :
    D.Dep (u / n.m) (outputs o P n x)[u] := by
  have hlen : u < (forward o P n x).length := by simpa [outputs] using hu
  have hu' : u < n.F * n.m := by rw [outputs_length] at hu; exact hu
  have hdeg : ((forward o P n x)[u]).1 = u / n.m + 1 := by
    have h1 : ((forward o P n x).map Prod.fst)[u]? = some (u / n.m + 1) := by
      rw [forward_fst]; exact outputDegrees_getElem? _ _ hm u hu'
    rw [List.getElem?_map, List.getElem?_eq_getElem hlen] at h1
    simpa using h1
  have := forward_dep hP n hv x hx _ (List.getElem_mem hlen) (u / n.m) (by rw [hdeg])
  simpa [outputs] using this

/-! ### what `build` guarantees -/

theorem zip_self_nonDecreasing (l : List Nat) : degreesNonDecreasing l l = true := by
  unfold degreesNonDecreasing
  rw [List.all_eq_true]
  intro p hp
  have := List.of_mem_zip (show (p.1, p.2) ∈ l.zip l from hp)
  have h2 : p.1 = p.2 := by
    rw [List.zip_eq_zipWith, List.mem_iff_getElem] at hp
    obtain ⟨i, hi, rfl⟩ := hp
    simp
  simp [h2]

/-- the sequential degrees of two layers of equal width coincide, so the check of the residual block can never fail
    when blocks are built by `MADE.__init__` (the `RuntimeError` is reachable only by building a block directly) -/
theorem seqDegrees_residual_ok (F H : Nat) :
    degreesNonDecreasing (seqDegrees F H) (seqDegrees F (seqDegrees F (seqDegrees F H).length).length) = true := by
  rw [seqDegrees_length, seqDegrees_length]; exact zip_self_nonDecreasing _

theorem buildResBlock_spec {F : Nat} {random : Bool} {dIn : List Nat} {b : Block} (h : buildResBlock F random dIn = .ok b) :
    ∃ d0 d1, b = .res d0 d1 ∧ dIn.length = d1.length ∧ degreesNonDecreasing dIn d1 = true := by
  unfold buildResBlock at h
  split at h
  · cases h
  · simp only at h
    split at h
    · rename_i hc
      refine ⟨_, _, (Except.ok.inj h).symm, ?_, hc⟩
      simp [seqDegrees_length]
    · cases h

theorem buildBlocks_valid (a : Arch) : ∀ (k idx : Nat) (prev : List Nat) (bs : List Block),
    buildBlocks a k idx prev = .ok bs → checkBlocks prev bs = true := by
  intro k
  induction k with
  | zero => intro idx prev bs h; simp only [buildBlocks] at h; cases h; rfl
  | succ k ih =>
    intro idx prev bs h
    simp only [buildBlocks] at h
    split at h
    · split at h
      · cases h
      · rename_i b hb
        split at h
        · cases h
        · rename_i r hr
          cases h
          obtain ⟨d0, d1, rfl, hl, hm⟩ := buildResBlock_spec hb
          simp only [checkBlocks, Bool.and_eq_true, beq_iff_eq]
          exact ⟨⟨hl, hm⟩, ih _ _ _ hr⟩
    · split at h
      · cases h
      · rename_i d hd
        split at h
        · cases h
        · rename_i r hr
          cases h
          simp only [checkBlocks]
          exact ih _ _ _ hr

/-- a successfully constructed net passes the checks the theorem needs, has `F ≥ 1` and the requested multiplier `≥ 1` -/
theorem build_valid {a : Arch} {n : Net} (h : build a = .ok n) :
    n.valid = true ∧ 0 < n.F ∧ 0 < n.m ∧ n.F = a.F ∧ n.m = a.mult := by
  unfold build at h
  split at h
  · cases h
  · split at h
    · cases h
    · rename_i d0 hd0
      split at h
      · cases h
      · rename_i bs hbs
        split at h
        · cases h
        · rename_i hF
          split at h
          · cases h
          · rename_i hm
            cases h
            have hF' : 0 < a.F := by
              rcases Nat.eq_zero_or_pos a.F with h0 | h0
              · simp [h0] at hF
              · exact h0
            have hm' : 0 < a.mult := by
              rcases Nat.eq_zero_or_pos a.mult with h0 | h0
              · simp [h0] at hm
              · exact h0
            refine ⟨buildBlocks_valid a _ _ _ _ hbs, hF', ?_, rfl, ?_⟩
            · simp only [Nat.mul_div_cancel_left _ hF']; exact hm'
            · simp only [Nat.mul_div_cancel_left _ hF']

/-! ### instance 1: real-valued functions of the whole input batch -/

/-- value of a unit for every row `b : β` of the batch, as a function of the whole input batch `X b j` -/
abbrev RM (β : Type) := (β → ℕ → ℝ) → β → ℝ

def realOps (β : Type) : MOps ℝ (RM β) where
  zero := fun _ _ => 0
  add := fun f g X b => f X b + g X b
  smul := fun s f X b => s * f X b

/-- `f` is determined by the input columns of degree `≤ d` (column `j` has degree `j+1`), all rows of the batch -/
def realDep (β : Type) : DepSys (realOps β) where
  Dep := fun d f => ∀ X X' : β → ℕ → ℝ, (∀ j, j + 1 ≤ d → ∀ b, X b j = X' b j) → f X = f X'
  mono := by
    intro d d' v hdd hv X X' hag
    exact hv X X' (fun j hj b => hag j (le_trans hj hdd) b)
  zero := by intro d X X' _; rfl
  add := by
    intro d f g hf hg X X' hag
    show (fun b => f X b + g X b) = (fun b => f X' b + g X' b)
    rw [hf X X' hag, hg X X' hag]
  smul := by
    intro d f s hf X X' hag
    show (fun b => s * f X b) = (fun b => s * f X' b)
    rw [hf X X' hag]

/-- real parameters: weights, biases, context contributions per row, and arbitrary per-unit maps acting on the
    column of a unit across the batch (activation, dropout mask, batch norm in training or evaluation mode) -/
def realParams {β : Type} (W : ℕ → ℕ → ℕ → ℝ) (bias : ℕ → ℕ → ℝ) (ctxv : ℕ → ℕ → β → ℝ)
    (g : ℕ → Slot → ℕ → (β → ℝ) → β → ℝ) : Params ℝ (RM β) where
  W := W
  bias := fun l k _ _ => bias l k
  ctx := fun s k _ b => ctxv s k b
  um := fun s sl k f X => g s sl k (f X)

theorem realParams_good {β : Type} (W : ℕ → ℕ → ℕ → ℝ) (bias : ℕ → ℕ → ℝ) (ctxv : ℕ → ℕ → β → ℝ)
    (g : ℕ → Slot → ℕ → (β → ℝ) → β → ℝ) : (realParams W bias ctxv g).Good (realDep β) where
  bias := by intro l k d X X' _; rfl
  ctx := by intro s k d X X' _; rfl
  um := by
    intro s sl k d v hv X X' hag
    show g s sl k (v X) = g s sl k (v X')
    rw [hv X X' hag]

/-- the input units: unit `j` reads column `j` of the batch -/
def realInputs (β : Type) (F : ℕ) : List (RM β) := (List.range F).map (fun j X b => X b j)

theorem realInputs_ok (β : Type) (F : ℕ) : StOk (realDep β) ((inputDegrees F).zip (realInputs β F)) := by
  intro p hp
  rw [List.mem_iff_getElem] at hp
  obtain ⟨i, hi, rfl⟩ := hp
  have hiF : i < F := by simpa [inputDegrees, realInputs] using hi
  intro X X' hag
  simp only [List.getElem_zip, inputDegrees, realInputs, List.getElem_map, List.getElem_range] at hag ⊢
  funext b
  exact hag i (le_refl _) b

/-- output `u` of the real network for row `b` of the batch `X` -/
noncomputable def madeReal {β : Type} (n : Net) (W : ℕ → ℕ → ℕ → ℝ) (bias : ℕ → ℕ → ℝ) (ctxv : ℕ → ℕ → β → ℝ)
    (g : ℕ → Slot → ℕ → (β → ℝ) → β → ℝ) (X : β → ℕ → ℝ) (b : β) (u : ℕ) : ℝ :=
  ((outputs (realOps β) (realParams W bias ctxv g) n (realInputs β n.F)).getD u (fun _ _ => 0)) X b

theorem madeReal_autoregressive {β : Type} (n : Net) (hv : n.valid = true) (hm : 0 < n.m)
    (W : ℕ → ℕ → ℕ → ℝ) (bias : ℕ → ℕ → ℝ) (ctxv : ℕ → ℕ → β → ℝ) (g : ℕ → Slot → ℕ → (β → ℝ) → β → ℝ)
    (u : ℕ) (X X' : β → ℕ → ℝ) (hag : ∀ j, j < u / n.m → ∀ b, X b j = X' b j) (b : β) :
    madeReal n W bias ctxv g X b u = madeReal n W bias ctxv g X' b u := by
  unfold madeReal
  by_cases hu : u < (outputs (realOps β) (realParams W bias ctxv g) n (realInputs β n.F)).length
  · simp only [List.getD_eq_getElem?_getD, List.getElem?_eq_getElem hu, Option.getD_some]
    have := outputs_dep (realParams_good W bias ctxv g) n hv hm _ (realInputs_ok β n.F) u hu
    rw [this X X' (fun j hj b => hag j (by omega) b)]
  · simp only [List.getD_eq_getElem?_getD, List.getElem?_eq_none (Nat.le_of_not_lt hu), Option.getD_none]

/-! ### instance 2: integer path counts (what the driver prints) -/

/-- entry `j < F` of the row vector vanishes whenever input `j` has degree `> d` -/
def natDep (F width : Nat) : DepSys (natOps width) where
  Dep := fun d v => ∀ j, j < F → d < j + 1 → v[j]?.getD 0 = 0
  mono := by
    intro d d' v hdd hv j hj hd
    exact hv j hj (by omega)
  zero := by
    intro d j _ _
    simp only [natOps, List.getElem?_replicate]
    split <;> rfl
  add := by
    intro d a b ha hb j hj hd
    have h1 := ha j hj hd
    have h2 := hb j hj hd
    simp only [natOps, List.getElem?_zipWith]
    cases ha' : a[j]? <;> cases hb' : b[j]? <;> simp_all
  smul := by
    intro d a s ha j hj hd
    have h1 := ha j hj hd
    simp only [natOps, List.getElem?_map]
    cases ha' : a[j]? <;> simp_all

theorem pcParams_good (F C actMul : Nat) : (pcParams F C actMul).Good (natDep F (F + C)) where
  bias := by
    intro l k d j _ _
    simp only [pcParams, List.getElem?_replicate]
    split <;> rfl
  ctx := by
    intro s k d j hj _
    simp only [pcParams, List.getElem?_map]
    rw [List.getElem?_range (by omega)]
    simp; omega
  um := by
    intro s sl k d v hv j hj hd
    have h1 := hv j hj hd
    simp only [pcParams]
    split
    · simp only [List.getElem?_map]
      cases hv' : v[j]? <;> simp_all
    · exact h1

theorem unitVecs_ok (F C : Nat) :
    StOk (natDep F (F + C)) ((inputDegrees F).zip ((List.range F).map (unitVec (F + C)))) := by
  intro p hp
  rw [List.mem_iff_getElem] at hp
  obtain ⟨i, hi, rfl⟩ := hp
  intro j hj hd
  simp only [List.getElem_zip, inputDegrees, List.getElem_map, List.getElem_range, unitVec,
    List.getElem?_map] at hd ⊢
  rw [List.getElem?_range (by omega)]
  simp; omega

/-- **the path-count matrix is strictly lower block-triangular**: no mask-permitted path leads from input `j`
    to an output unit of block `u / m ≤ j` -/
theorem pathCount_zero (n : Net) (hv : n.valid = true) (hm : 0 < n.m) (C actMul u j : Nat)
    (hj : j < n.F) (hu : u / n.m ≤ j) : ((pathCount n C actMul).getD u [])[j]?.getD 0 = 0 := by
  unfold pathCount
  by_cases hlen : u < (outputs (natOps (n.F + C)) (pcParams n.F C actMul) n ((List.range n.F).map (unitVec (n.F + C)))).length
  · simp only [List.getD_eq_getElem?_getD, List.getElem?_eq_getElem hlen, Option.getD_some]
    exact outputs_dep (pcParams_good n.F C actMul) n hv hm _ (unitVecs_ok n.F C) u hlen j hj (by omega)
  · simp only [List.getD_eq_getElem?_getD, List.getElem?_eq_none (Nat.le_of_not_lt hlen), Option.getD_none]
    rfl

theorem pathCount_length (n : Net) (C actMul : Nat) : (pathCount n C actMul).length = n.F * n.m :=
  outputs_length _ _ _

end NF.Made
