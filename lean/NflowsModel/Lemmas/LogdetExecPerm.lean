import NflowsModel.Lemmas.FlowWholeND
import NflowsModel.Lemmas.SqueezeIndex
import NflowsModel.Lemmas.ViewLayout
import NflowsModel.Core.Reshape
import NflowsModel.Core.Ops.C08
import Mathlib.Tactic
/-!
# Lemmas/LogdetExecPerm — the executed `Permutation` (any dimension ≥ 1 of any shape) and `SqueezeTransform` (any factor)
are coordinate permutations of the flattened batch item: `|det J| = 1 = exp 0`, `log |det J| = 0` (C01), with the round
trip of the squeeze (C02) and the exact error characterisations (C17)

WHERE THE MODEL PRODUCES THE LOG-DET.  `Core/Reshape.permuteDim`, `squeezeFwd`, `squeezeInv` return ONLY the output array
(the driver operations `squeeze` / `permute` of `Core/Ops/C02` answer `fs = [y]`, no log-det field); the constant zero of
permutations.py:36 / reshape.py:44,66 (`new_zeros(batch_size)`) is NOT produced by these functions.  The only `Core`
function that returns a log-det for this layer is the per-item `NF.C08.permApply` (`Core/Ops/C08`, used by the wrapper
trees), which returns the literal `0.0` (`permApply_logdet_zero`).  For the squeeze no `Core` function returns a log-det.
The theorems below therefore state what makes `0` the RIGHT value: the executed item map is `x ↦ x ∘ σ` for a permutation
`σ` of the item coordinates (`ItemReindex`), whose Jacobian is the permutation matrix with `|det| = 1` (`ItemReindex.logdet`).

* §0 mixed-radix arithmetic (`radix3_lt`, `radix3_inj`, `recon`, `shift_*`).
* §1 `reindex_abs_det` (`x ↦ x ∘ σ` is its own Fréchet derivative `matCLM (σ.permMatrix ℝ)`, bijective, `|det| = 1`,
  `log |det| = 0`; reuses `FlowWholeND.permDiffeo`), `permOf` (an injective self-map of `[0, N)` is an `Equiv.Perm (Fin N)`),
  `ItemReindex`, `ItemReindex.logdet`, `ItemReindex.getElem?`, `gather_item`.
* §2 `Permutation`: `IsPerm` (from `Nodup` + range: `isPerm_of_nodup`; from an `Equiv.Perm`: `isPerm_permList`),
  `permuteDim_mid` (the executed program on shape `B :: pre ++ n :: suf`), `permuteDim_item_is_reindex` (every `pre`, `suf`),
  `permuteDim_item_is_reindex_general` (`shape = B :: rest`, `1 ≤ dim < shape.length`), the image cases
  `permuteDim_channels` / `_rows` / `_cols` (`[B, C, H, W]`, `dim = 1, 2, 3`); C17: `permuteDim_error_iff`,
  `permuteDim_ok_iff`.
  FINDINGS: `permuteDim_accepts_non_permutation` + `non_permutation_det_zero` (neither the model nor the code checks that
  `perm` is a permutation: `[0, 0]` is accepted, the item map is not injective, `det J = 0`, the reported `0` is wrong —
  the forced hypothesis is `IsPerm`); `permuteDim_accepts_dim_zero` (model accepts `dim = 0`, the constructor
  permutations.py:15 refuses it; then batch items are exchanged); `permuteDim_accepts_out_of_range` (an entry `≥ n` makes
  torch's `index_select` raise, the model reads elsewhere / the default and returns normally).
* §3 `SqueezeTransform(f)`, every `f ≥ 1`: `squeezeFwd_eq`, `squeezeFwd_item_is_reindex` (`sqSigma`),
  `squeezeFwd_item_is_reindex_dvd` (the `f ∣ H`, `f ∣ W` form), `squeezeInv_eq`, `squeezeInv_item_is_reindex` (the inverse
  direction is `sqSigma⁻¹`), C02 `squeeze_roundtrip` (not present before: `SqueezeIndex` / `SqueezeLayout` / `Properties/C02`
  only have the coordinate maps and the strided-view layout, not the executed array round trip); forced hypothesis `C ≥ 1`
  (`squeeze_roundtrip_zero_channels`); C17: `squeezeFwd_error_iff` (also at `f = 0`), `squeezeInv_error_iff`.
* §4 non-vacuity.

  C02 of `Permutation`: `inversePerm_spec`, `permuteDim_roundtrip` (the program run with `inversePerm perm` undoes the forward).

  `isPerm_inversePerm`: the inverse list is a permutation list, so the §2 theorems cover `Permutation.inverse` too.

Not covered: `dim = 0` (refused by the constructor of the code; see the finding).
-/
open NF FlowWholeND Properties.C03

namespace LogdetExec

/-! ## 0. Arithmetic of mixed-radix indices -/

theorem radix_mod (a I r : ℕ) (hr : r < I) : (a * I + r) % I = r := by
  rw [Nat.mul_comm, Nat.mul_add_mod, Nat.mod_eq_of_lt hr]

theorem radix_div (a I r : ℕ) (hr : r < I) : (a * I + r) / I = a := by
  have hI : 0 < I := by omega
  rw [Nat.mul_comm, Nat.mul_add_div hI, Nat.div_eq_of_lt hr, Nat.add_zero]

/-- a three-digit mixed-radix number is below the product of the radices -/
theorem radix3_lt {q p r P n I : ℕ} (hq : q < P) (hp : p < n) (hr : r < I) : (q * n + p) * I + r < P * n * I := by
  have h1 : q * n + p + 1 ≤ P * n := by
    calc q * n + p + 1 ≤ (q + 1) * n := by rw [Nat.add_mul, Nat.one_mul]; omega
      _ ≤ P * n := Nat.mul_le_mul_right n hq
  have h2 : (q * n + p + 1) * I ≤ P * n * I := Nat.mul_le_mul_right I h1
  have h3 : (q * n + p + 1) * I = (q * n + p) * I + I := by rw [Nat.add_mul, Nat.one_mul]
  omega

/-- three-digit mixed-radix numbers with equal value have equal digits -/
theorem radix3_inj {q p r q' p' r' n I : ℕ} (hp : p < n) (hr : r < I) (hp' : p' < n) (hr' : r' < I)
    (h : (q * n + p) * I + r = (q' * n + p') * I + r') : q = q' ∧ p = p' ∧ r = r' := by
  have hr0 : r = r' := by
    have := congrArg (· % I) h
    simpa [radix_mod _ _ _ hr, radix_mod _ _ _ hr'] using this
  have hd : q * n + p = q' * n + p' := by
    have := congrArg (· / I) h
    simpa [radix_div _ _ _ hr, radix_div _ _ _ hr'] using this
  have hp0 : p = p' := by
    have := congrArg (· % n) hd
    simpa [radix_mod _ _ _ hp, radix_mod _ _ _ hp'] using this
  have hq0 : q = q' := by
    have := congrArg (· / n) hd
    simpa [radix_div _ _ _ hp, radix_div _ _ _ hp'] using this
  exact ⟨hq0, hp0, hr0⟩

/-- digits of `i` in radices `(·, n, I)` recompose to `i` -/
theorem recon (i n I : ℕ) : (i / (I * n) * n + i / I % n) * I + i % I = i := by
  rw [← Nat.div_div_eq_div_mul, Nat.div_add_mod' (i / I) n, Nat.div_add_mod' i I]

theorem digit_hi_lt {i P n I : ℕ} (h : i < P * n * I) : i / (I * n) < P := by
  rw [Nat.div_lt_iff_lt_mul (by
    rcases Nat.eq_zero_or_pos (I * n) with h0 | h0
    · rw [Nat.mul_assoc, Nat.mul_comm n I, h0] at h; omega
    · exact h0)]
  calc i < P * n * I := h
    _ = P * (I * n) := by ring

/-- digits of `b * (P*n*I) + i` -/
theorem shift_mod (b P n I i : ℕ) : (b * (P * n * I) + i) % I = i % I := by
  have : b * (P * n * I) + i = i + (b * P * n) * I := by ring
  rw [this, Nat.add_mul_mod_self_right]

theorem shift_mid (b P n I i : ℕ) (hI : 0 < I) : (b * (P * n * I) + i) / I % n = i / I % n := by
  have : b * (P * n * I) + i = i + (b * P * n) * I := by ring
  rw [this, Nat.add_mul_div_right _ _ hI]
  have : i / I + b * P * n = i / I + (b * P) * n := by ring
  rw [this, Nat.add_mul_mod_self_right]

theorem shift_hi (b P n I i : ℕ) (hI : 0 < I) (hn : 0 < n) : (b * (P * n * I) + i) / (I * n) = i / (I * n) + b * P := by
  have : b * (P * n * I) + i = i + (b * P) * (I * n) := by ring
  rw [this, Nat.add_mul_div_right _ _ (Nat.mul_pos hI hn)]

/-! ## 1. Reindexing the coordinates by a permutation: `|det J| = 1`, `log |det J| = 0` -/

/-- **`x ↦ x ∘ σ` on `Fin N → ℝ`** is its own Fréchet derivative (the continuous linear map of the permutation matrix
    of `σ`), is a bijection, and `|det| = 1`, `log |det| = 0` -/
theorem reindex_abs_det {N : ℕ} (σ : Equiv.Perm (Fin N)) :
    (∀ x : Fin N → ℝ, HasFDerivAt (fun (v : Fin N → ℝ) (k : Fin N) => v (σ k)) (matCLM (σ.permMatrix ℝ)) x)
    ∧ Function.Bijective (fun (v : Fin N → ℝ) (k : Fin N) => v (σ k))
    ∧ (∀ v : Fin N → ℝ, matCLM (σ.permMatrix ℝ) v = fun k => v (σ k))
    ∧ |(matCLM (σ.permMatrix ℝ)).det| = 1
    ∧ Real.log |(matCLM (σ.permMatrix ℝ)).det| = 0 := by
  have hd : |(matCLM (σ.permMatrix ℝ)).det| = 1 := by
    have h : |(matCLM (σ.permMatrix ℝ)).det| = Real.exp 0 := (permDiffeo σ).ld_eq 0
    rw [h, Real.exp_zero]
  refine ⟨(permDiffeo σ).deriv, (permDiffeo σ).bij, ?_, hd, by rw [hd, Real.log_one]⟩
  intro v
  rw [matCLM_apply, Matrix.permMatrix_mulVec]
  rfl

/-- a self-map of `[0, N)` that is injective there is a permutation of `Fin N` -/
noncomputable def permOf (N : ℕ) (g : ℕ → ℕ) (hmap : ∀ i, i < N → g i < N)
    (hinj : ∀ i j, i < N → j < N → g i = g j → i = j) : Equiv.Perm (Fin N) :=
  Equiv.ofBijective (fun k => ⟨g k, hmap k k.2⟩) (by
    have hi : Function.Injective (fun k : Fin N => (⟨g k, hmap k k.2⟩ : Fin N)) := by
      intro a b h
      exact Fin.ext (hinj a b a.2 b.2 (Fin.mk.inj_iff.1 h))
    exact ⟨hi, Finite.injective_iff_surjective.1 hi⟩)

@[simp] theorem permOf_apply (N : ℕ) (g : ℕ → ℕ) (hmap : ∀ i, i < N → g i < N)
    (hinj : ∀ i j, i < N → j < N → g i = g j → i = j) (k : Fin N) : ((permOf N g hmap hinj k : Fin N) : ℕ) = g k := rfl

/-- **every batch item of `y` is the reindexing by `σ` of the same batch item of `x`** (`[B, N]` flat layouts) -/
structure ItemReindex (B N : ℕ) (x y : Array ℝ) (σ : Equiv.Perm (Fin N)) : Prop where
  size : y.size = B * N
  item : ∀ b, b < B → ∀ k : Fin N, y[b * N + k]? = some ((permDiffeo σ).T (batchRow x N b) k)

theorem item_index_lt {B N b : ℕ} (hb : b < B) (k : Fin N) : b * N + k < B * N := by
  have : (b + 1) * N ≤ B * N := Nat.mul_le_mul_right N hb
  rw [Nat.add_mul, Nat.one_mul] at this
  have := k.2
  omega

/-- with an input of the full size the statement reads `y[b·N + k] = x[b·N + σ k]` -/
theorem ItemReindex.getElem? {B N : ℕ} {x y : Array ℝ} {σ : Equiv.Perm (Fin N)} (h : ItemReindex B N x y σ)
    (hx : x.size = B * N) (b : ℕ) (hb : b < B) (k : Fin N) : y[b * N + k]? = x[b * N + (σ k : ℕ)]? := by
  rw [h.item b hb k]
  have hlt : b * N + (σ k : ℕ) < x.size := hx ▸ item_index_lt hb (σ k)
  simp [batchRow, hlt]

/-- **the log-det of an item reindexing**: the map of one batch item is `(permDiffeo σ).T`, whose Jacobian is the
    permutation matrix of `σ` at every point, `|det J| = 1 = exp 0`, `log |det J| = 0` -/
theorem ItemReindex.logdet {B N : ℕ} {x y : Array ℝ} {σ : Equiv.Perm (Fin N)} (_h : ItemReindex B N x y σ) :
    (∀ v, HasFDerivAt (permDiffeo σ).T (matCLM (σ.permMatrix ℝ)) v)
    ∧ Function.Bijective (permDiffeo σ).T
    ∧ |(matCLM (σ.permMatrix ℝ)).det| = Real.exp 0
    ∧ Real.log |(matCLM (σ.permMatrix ℝ)).det| = 0
    ∧ ∀ v, (permDiffeo σ).ld v = 0 := by
  obtain ⟨h1, h2, _, h4, h5⟩ := reindex_abs_det σ
  exact ⟨h1, h2, by rw [h4, Real.exp_zero], h5, fun _ => rfl⟩

/-- a gather `o ↦ x[src o]` over `B·N` outputs whose source index stays in the batch item, `src (b·N + i) = b·N + g i`,
    with `g` a permutation of `[0, N)`: every item is reindexed -/
theorem gather_item (B N : ℕ) (src g : ℕ → ℕ) (hsrc : ∀ b i, b < B → i < N → src (b * N + i) = b * N + g i)
    (σ : Equiv.Perm (Fin N)) (hσ : ∀ k, (σ k : ℕ) = g k) (x : Array ℝ) :
    ItemReindex B N x ((List.range (B * N)).map (fun o => x.getD (src o) 0)).toArray σ := by
  refine ⟨by simp, ?_⟩
  intro b hb k
  have hlt := item_index_lt hb k
  simp [hlt, hsrc b k hb k.2, batchRow, hσ k]

/-! ## 2. The executed `Permutation` on any dimension `dim ≥ 1` of any shape -/

/-- product of a shape, as `permuteDim` folds it -/
def fprod (l : List ℕ) : ℕ := l.foldl (· * ·) 1

theorem fprod_cons (a : ℕ) (l : List ℕ) : fprod (a :: l) = a * fprod l := by
  unfold fprod
  rw [List.foldl_cons, View.foldl_mul, Nat.one_mul]

theorem fprod_mid (pre suf : List ℕ) (n : ℕ) : fprod (pre ++ n :: suf) = fprod pre * n * fprod suf := by
  induction pre with
  | nil => rw [List.nil_append, fprod_cons]; simp [fprod]
  | cons a l ih => rw [List.cons_append, fprod_cons, ih, fprod_cons]; ring

/-- `perm` is (the index list of) a permutation of `range n` -/
structure IsPerm (n : ℕ) (perm : List ℕ) : Prop where
  length : perm.length = n
  lt : ∀ k, k < n → perm.getD k 0 < n
  inj : ∀ a b, a < n → b < n → perm.getD a 0 = perm.getD b 0 → a = b

theorem isPerm_of_nodup {n : ℕ} {perm : List ℕ} (hlen : perm.length = n) (hnd : perm.Nodup) (hlt : ∀ v ∈ perm, v < n) :
    IsPerm n perm := by
  refine ⟨hlen, ?_, ?_⟩
  · intro k hk
    have hk' : k < perm.length := hlen ▸ hk
    rw [List.getD_eq_getElem _ _ hk']
    exact hlt _ (List.getElem_mem hk')
  · intro a b ha hb h
    have ha' : a < perm.length := hlen ▸ ha
    have hb' : b < perm.length := hlen ▸ hb
    rw [List.getD_eq_getElem _ _ ha', List.getD_eq_getElem _ _ hb'] at h
    exact (hnd.getElem_inj_iff).1 h

theorem isPerm_permList {n : ℕ} (σ : Equiv.Perm (Fin n)) : IsPerm n (permList σ) := by
  refine ⟨by simp [permList], ?_, ?_⟩
  · intro k hk
    simp [permList, hk]
  · intro a b ha hb h
    simp only [permList, List.getD_eq_getElem?_getD, List.getElem?_ofFn, ha, hb, dite_true, Option.getD_some] at h
    have := σ.injective (Fin.ext h)
    exact Fin.mk.inj_iff.1 this

/-- the per-item source index of `index_select` on a dimension of size `n` with `I` trailing elements -/
def permSrc (n I : ℕ) (perm : List ℕ) (o : ℕ) : ℕ := (o / (I * n) * n + perm.getD (o / I % n) 0) * I + o % I

theorem permSrc_shift (b P n I i : ℕ) (perm : List ℕ) (hI : 0 < I) (hn : 0 < n) :
    permSrc n I perm (b * (P * n * I) + i) = b * (P * n * I) + permSrc n I perm i := by
  unfold permSrc
  rw [shift_mod, shift_mid _ _ _ _ _ hI, shift_hi _ _ _ _ _ hI hn]
  ring

theorem permSrc_lt {P n I i : ℕ} {perm : List ℕ} (hp : IsPerm n perm) (hi : i < P * n * I) :
    permSrc n I perm i < P * n * I := by
  have hI : 0 < I := by
    rcases Nat.eq_zero_or_pos I with h | h
    · subst h; simp at hi
    · exact h
  have hn : 0 < n := by
    rcases Nat.eq_zero_or_pos n with h | h
    · subst h; simp at hi
    · exact h
  exact radix3_lt (digit_hi_lt hi) (hp.lt _ (Nat.mod_lt _ hn)) (Nat.mod_lt _ hI)

theorem permSrc_inj {P n I i j : ℕ} {perm : List ℕ} (hp : IsPerm n perm) (hi : i < P * n * I) (_hj : j < P * n * I)
    (h : permSrc n I perm i = permSrc n I perm j) : i = j := by
  have hI : 0 < I := by
    rcases Nat.eq_zero_or_pos I with h | h
    · subst h; simp at hi
    · exact h
  have hn : 0 < n := by
    rcases Nat.eq_zero_or_pos n with h | h
    · subst h; simp at hi
    · exact h
  unfold permSrc at h
  obtain ⟨hq, hpp, hr⟩ := radix3_inj (hp.lt _ (Nat.mod_lt _ hn)) (Nat.mod_lt _ hI) (hp.lt _ (Nat.mod_lt _ hn))
    (Nat.mod_lt _ hI) h
  have hk := hp.inj _ _ (Nat.mod_lt _ hn) (Nat.mod_lt _ hn) hpp
  rw [← recon i n I, ← recon j n I, hq, hk, hr]

/-- the permutation of the `P·n·I` coordinates of one batch item that `Permutation(perm, dim)` applies -/
noncomputable def permSigma (P n I : ℕ) (perm : List ℕ) (hp : IsPerm n perm) : Equiv.Perm (Fin (P * n * I)) :=
  permOf (P * n * I) (permSrc n I perm) (fun _ hi => permSrc_lt hp hi) (fun _ _ hi hj h => permSrc_inj hp hi hj h)

@[simp] theorem permSigma_apply (P n I : ℕ) (perm : List ℕ) (hp : IsPerm n perm) (k : Fin (P * n * I)) :
    ((permSigma P n I perm hp k : Fin (P * n * I)) : ℕ) = permSrc n I perm k := rfl

/-- what the executed `Permutation(perm, dim)` computes on a tensor of shape `B :: pre ++ n :: suf`, `dim = |pre| + 1` -/
theorem permuteDim_mid {α : Type} (B n : ℕ) (pre suf perm : List ℕ) (hperm : perm.length = n) (x : Array α) (d : α) :
    NF.permuteDim (B :: (pre ++ n :: suf)) (pre.length + 1) perm x d
      = .ok ((List.range (B * (fprod pre * n * fprod suf))).map
          (fun o => x.getD (permSrc n (fprod suf) perm o) d)).toArray := by
  unfold NF.permuteDim
  have h1 : ¬ (pre.length + 1 ≥ (B :: (pre ++ n :: suf)).length) := by simp
  have h2 : (B :: (pre ++ n :: suf)).getD (pre.length + 1) 0 = n := by simp
  have h3 : (B :: (pre ++ n :: suf)).drop (pre.length + 1 + 1) = suf := by simp
  have h4 : (B :: (pre ++ n :: suf)).foldl (· * ·) 1 = B * (fprod pre * n * fprod suf) := by
    have := fprod_cons B (pre ++ n :: suf)
    rw [fprod_mid] at this
    exact this
  rw [if_neg h1, h2, h3, h4, hperm]
  simp [permSrc, fprod]

/-- **C01, `Permutation` on any dimension of any shape.**  For a tensor of shape `B :: pre ++ n :: suf` (batch first)
    and `dim = |pre| + 1`, `perm` a permutation of `range n`: the executed `permuteDim` does not raise, its output has
    the input's size, and every batch item of the output is the reindexing of the same batch item of the input by ONE
    permutation `σ` of the `P·n·I` item coordinates (`P = ∏ pre`, `I = ∏ suf`), `σ i = permSrc n I perm i`
    `= ((i / (I·n))·n + perm[(i / I) % n])·I + i % I`. -/
theorem permuteDim_item_is_reindex (B n : ℕ) (pre suf perm : List ℕ) (hp : IsPerm n perm) (x : Array ℝ) :
    ∃ y, NF.permuteDim (B :: (pre ++ n :: suf)) (pre.length + 1) perm x 0 = .ok y
      ∧ ItemReindex B (fprod pre * n * fprod suf) x y (permSigma (fprod pre) n (fprod suf) perm hp) := by
  refine ⟨_, permuteDim_mid B n pre suf perm hp.length x 0, ?_⟩
  apply gather_item B _ (permSrc n (fprod suf) perm) (permSrc n (fprod suf) perm) _ _ (fun k => rfl)
  intro b i _ hi
  have hI : 0 < fprod suf := by
    rcases Nat.eq_zero_or_pos (fprod suf) with h | h
    · rw [h] at hi; simp at hi
    · exact h
  have hn : 0 < n := by
    rcases Nat.eq_zero_or_pos n with h | h
    · subst h; simp at hi
    · exact h
  exact permSrc_shift b _ n _ i perm hI hn

/-- transport along an equation between the item sizes -/
theorem ItemReindex.cast {B M N : ℕ} (hMN : M = N) {x y : Array ℝ} {σ : Equiv.Perm (Fin M)} (h : ItemReindex B M x y σ) :
    ∃ σ' : Equiv.Perm (Fin N), ItemReindex B N x y σ' ∧ ∀ k : Fin N, (σ' k : ℕ) = (σ (Fin.cast hMN.symm k) : ℕ) := by
  subst hMN
  exact ⟨σ, h, fun _ => rfl⟩

/-- a list splits around any of its positions -/
theorem split_at (rest : List ℕ) (d : ℕ) (hd : d < rest.length) :
    ∃ pre suf, rest = pre ++ rest.getD d 0 :: suf ∧ pre.length = d := by
  refine ⟨rest.take d, rest.drop (d + 1), ?_, by simp; omega⟩
  rw [List.getD_eq_getElem _ _ hd, List.getElem_cons_drop, List.take_append_drop]

/-- **the fully general form**: `shape = B :: rest` (batch first), `1 ≤ dim < shape.length`, `perm` a permutation of
    `range (shape[dim])`.  The executed `Permutation` returns an array of the same size in which every batch item is ONE
    coordinate permutation `σ` (of `Fin N`, `N = ∏ rest`) of the same input item; hence (`ItemReindex.logdet`) the item map
    has `|det J| = 1` and the log-det the code returns, the constant `0` (permutations.py:37), is `log |det J|`. -/
theorem permuteDim_item_is_reindex_general (B : ℕ) (rest : List ℕ) (dim : ℕ) (h1 : 1 ≤ dim) (h2 : dim < (B :: rest).length)
    (perm : List ℕ) (hp : IsPerm ((B :: rest).getD dim 0) perm) (x : Array ℝ) :
    ∃ (y : Array ℝ) (σ : Equiv.Perm (Fin (fprod rest))),
      NF.permuteDim (B :: rest) dim perm x 0 = .ok y ∧ y.size = (B :: rest).foldl (· * ·) 1 ∧ ItemReindex B (fprod rest) x y σ := by
  obtain ⟨d, rfl⟩ : ∃ d, dim = d + 1 := ⟨dim - 1, by omega⟩
  have hd : d < rest.length := by simpa using h2
  obtain ⟨pre, suf, hrest, hlen⟩ := split_at rest d hd
  have hn : (B :: rest).getD (d + 1) 0 = rest.getD d 0 := by simp
  rw [hn] at hp
  generalize rest.getD d 0 = n at hrest hp
  subst hrest
  subst hlen
  obtain ⟨y, hy, hr⟩ := permuteDim_item_is_reindex B n pre suf perm hp x
  have hN : fprod pre * n * fprod suf = fprod (pre ++ n :: suf) := (fprod_mid pre suf n).symm
  obtain ⟨σ', hσ', _⟩ := hr.cast hN
  refine ⟨y, σ', hy, ?_, hσ'⟩
  rw [hr.size]
  have := fprod_cons B (pre ++ n :: suf)
  rw [← hN] at this
  exact this.symm

/-! ### the image shapes `[B, C, H, W]` of the library -/

/-- `Permutation(perm, dim=1)` on `[B, C, H, W]`: the CHANNEL permutation (`OneByOneConvolution`, Glow-style flows);
    `σ` moves whole `H·W` planes -/
theorem permuteDim_channels (B C H W : ℕ) (perm : List ℕ) (hp : IsPerm C perm) (x : Array ℝ) :
    ∃ (y : Array ℝ) (σ : Equiv.Perm (Fin (C * H * W))),
      NF.permuteDim [B, C, H, W] 1 perm x 0 = .ok y ∧ ItemReindex B (C * H * W) x y σ
      ∧ ∀ k, (σ k : ℕ) = (perm.getD (k / (H * W) % C) 0) * (H * W) + k % (H * W) := by
  obtain ⟨y, hy, hr⟩ := permuteDim_item_is_reindex B C [] [H, W] perm hp x
  have hI : fprod [H, W] = H * W := by simp [fprod]
  have hN : fprod [] * C * fprod [H, W] = C * H * W := by rw [hI]; simp [fprod]; ring
  obtain ⟨σ', hσ', hk'⟩ := hr.cast hN
  refine ⟨y, σ', by simpa using hy, hσ', ?_⟩
  intro k
  rw [hk']
  simp only [permSigma_apply, permSrc, Fin.val_cast, hI]
  have hk : (k : ℕ) / (H * W * C) = 0 := by
    apply Nat.div_eq_of_lt
    calc (k : ℕ) < C * H * W := k.2
      _ = H * W * C := by ring
  rw [hk]
  ring

/-- `Permutation(perm, dim=2)` on `[B, C, H, W]` (rows) -/
theorem permuteDim_rows (B C H W : ℕ) (perm : List ℕ) (hp : IsPerm H perm) (x : Array ℝ) :
    ∃ (y : Array ℝ) (σ : Equiv.Perm (Fin (C * H * W))),
      NF.permuteDim [B, C, H, W] 2 perm x 0 = .ok y ∧ ItemReindex B (C * H * W) x y σ := by
  obtain ⟨y, hy, hr⟩ := permuteDim_item_is_reindex B H [C] [W] perm hp x
  have hN : fprod [C] * H * fprod [W] = C * H * W := by simp [fprod]
  obtain ⟨σ', hσ', _⟩ := hr.cast hN
  exact ⟨y, σ', by simpa using hy, hσ'⟩

/-- `Permutation(perm, dim=3)` on `[B, C, H, W]` (columns) -/
theorem permuteDim_cols (B C H W : ℕ) (perm : List ℕ) (hp : IsPerm W perm) (x : Array ℝ) :
    ∃ (y : Array ℝ) (σ : Equiv.Perm (Fin (C * H * W))),
      NF.permuteDim [B, C, H, W] 3 perm x 0 = .ok y ∧ ItemReindex B (C * H * W) x y σ := by
  obtain ⟨y, hy, hr⟩ := permuteDim_item_is_reindex B W [C, H] [] perm hp x
  have hN : fprod [C, H] * W * fprod [] = C * H * W := by simp [fprod]
  obtain ⟨σ', hσ', _⟩ := hr.cast hN
  exact ⟨y, σ', by simpa using hy, hσ'⟩

/-! ### C17: exactly when the executed `Permutation` raises; what it does NOT check -/

/-- **`permuteDim` raises iff `dim` is not a dimension of the input or the sizes differ, and then it is a ValueError**
    (permutations.py:26-33) -/
theorem permuteDim_error_iff {α : Type} (shape : List ℕ) (dim : ℕ) (perm : List ℕ) (x : Array α) (d : α) (e : Err) :
    NF.permuteDim shape dim perm x d = .error e
      ↔ e = .valueError ∧ (shape.length ≤ dim ∨ shape.getD dim 0 ≠ perm.length) := by
  unfold NF.permuteDim
  by_cases h1 : dim ≥ shape.length
  · rw [if_pos h1]
    constructor
    · intro h; cases h; exact ⟨rfl, Or.inl h1⟩
    · rintro ⟨rfl, _⟩; rfl
  · rw [if_neg h1]
    by_cases h2 : shape.getD dim 0 = perm.length
    · have : ¬ ((shape.getD dim 0 != perm.length) = true) := by rw [bne_iff_ne]; exact not_not.2 h2
      rw [if_neg this]
      constructor
      · intro h; cases h
      · rintro ⟨_, h | h⟩
        · exact absurd h (by omega)
        · exact absurd h2 h
    · have : (shape.getD dim 0 != perm.length) = true := bne_iff_ne.2 h2
      rw [if_pos this]
      constructor
      · intro h; cases h; exact ⟨rfl, Or.inr h2⟩
      · rintro ⟨rfl, _⟩; rfl

/-- … and otherwise it returns an array with as many elements as the shape has -/
theorem permuteDim_ok_iff {α : Type} (shape : List ℕ) (dim : ℕ) (perm : List ℕ) (x : Array α) (d : α) :
    (∃ y, NF.permuteDim shape dim perm x d = .ok y ∧ y.size = shape.foldl (· * ·) 1)
      ↔ dim < shape.length ∧ shape.getD dim 0 = perm.length := by
  constructor
  · rintro ⟨y, hy, _⟩
    by_contra hcon
    have : NF.permuteDim shape dim perm x d = .error .valueError := by
      rw [permuteDim_error_iff]
      refine ⟨rfl, ?_⟩
      by_cases h : dim < shape.length
      · exact Or.inr (fun h' => hcon ⟨h, h'⟩)
      · exact Or.inl (by omega)
    rw [this] at hy
    cases hy
  · rintro ⟨h1, h2⟩
    unfold NF.permuteDim
    have h1' : ¬ dim ≥ shape.length := by omega
    have h2' : ¬ ((shape.getD dim 0 != perm.length) = true) := by rw [bne_iff_ne]; exact not_not.2 h2
    rw [if_neg h1', if_neg h2']
    exact ⟨_, rfl, by simp⟩

/-- FINDING (shared by the code): neither the model nor `Permutation.__init__` / `_permute` (permutations.py:12-37)
    checks that `perm` IS a permutation.  `perm = [0, 0]` is accepted, the item map `(a, b) ↦ (a, a)` is not injective
    — two different inputs give the same output — while the layer still reports log-det `0`. -/
theorem permuteDim_accepts_non_permutation :
    NF.permuteDim [1, 2] 1 [0, 0] #[(1 : ℝ), 2] 0 = .ok #[1, 1]
    ∧ NF.permuteDim [1, 2] 1 [0, 0] #[(1 : ℝ), 3] 0 = .ok #[1, 1]
    ∧ ¬ IsPerm 2 [0, 0] := by
  refine ⟨by simp [NF.permuteDim, List.range, List.range.loop], by simp [NF.permuteDim, List.range, List.range.loop], ?_⟩
  intro h
  have := h.inj 0 1 (by omega) (by omega) (by simp)
  omega

/-- the Jacobian of the accepted `perm = [0, 0]` item map `v ↦ (v 0, v 0)` is singular: `log |det J| = log 0`, and the
    reported log-det `0` is NOT `log |det J|` in any reading (`Real.log 0 = 0` is Mathlib's junk value; `|det J| = 0 ≠ exp 0`) -/
theorem non_permutation_det_zero :
    (Matrix.of ![![(1 : ℝ), 0], ![1, 0]]).det = 0 ∧ |(Matrix.of ![![(1 : ℝ), 0], ![1, 0]]).det| ≠ Real.exp 0 := by
  have h : (Matrix.of ![![(1 : ℝ), 0], ![1, 0]]).det = 0 := by simp [Matrix.det_fin_two]
  exact ⟨h, by rw [h, Real.exp_zero]; norm_num⟩

/-- FINDING (model only): `permuteDim` accepts `dim = 0`, which `Permutation.__init__` refuses (`dim must be a positive
    integer`, permutations.py:15-16); with `dim = 0` the BATCH items are exchanged, so the output item is not a function of
    the same input item. -/
theorem permuteDim_accepts_dim_zero :
    NF.permuteDim [2, 2] 0 [1, 0] #[(1 : ℝ), 2, 3, 4] 0 = .ok #[3, 4, 1, 2] := by
  simp [NF.permuteDim, List.range, List.range.loop]

/-- FINDING (model only): an out-of-range entry of `perm` makes torch's `index_select` raise (IndexError); the model reads
    past the item instead (here: the default `0`), it does not raise. -/
theorem permuteDim_accepts_out_of_range :
    NF.permuteDim [1, 2] 1 [0, 5] #[(1 : ℝ), 2] 0 = .ok #[1, 0] := by
  simp [NF.permuteDim, List.range, List.range.loop]

/-- the per-item model of `Permutation` that the wrapper trees run (`Core/Ops/C08.permApply`) is the one place in `Core`
    where the log-det of this layer is produced: whenever it does not raise, the log-det is the literal `0.0` -/
theorem permApply_logdet_zero (dim : ℕ) (p : List ℕ) (x : NF.Wrap.Item Float) (y : NF.Wrap.Item Float) (l : Float)
    (h : NF.C08.permApply dim p x = .ok (y, l)) : l = 0.0 := by
  unfold NF.C08.permApply at h
  split_ifs at h
  cases h
  rfl

/-! ## 3. The executed `SqueezeTransform` -/

theorem radix2_lt {q r P I : ℕ} (hq : q < P) (hr : r < I) : q * I + r < P * I := by
  have h1 : (q + 1) * I ≤ P * I := Nat.mul_le_mul_right I hq
  rw [Nat.add_mul, Nat.one_mul] at h1
  omega

/-- the squeezed-coordinate map is injective (from `sq_unsq`) -/
theorem unsq_inj (f : ℕ) (hf : 0 < f) {oc i j oc' i' j' : ℕ} (h : unsqCoord f oc i j = unsqCoord f oc' i' j') :
    oc = oc' ∧ i = i' ∧ j = j' := by
  have a := sq_unsq f oc i j hf
  have b := sq_unsq f oc' i' j' hf
  dsimp only at a b
  rw [h, b] at a
  simpa using a.symm

/-- the source index `squeezeFwd` reads for output position `o` (the definition, `H = Ho·f`, `W = Wo·f`) -/
def sqSrcFull (f C Ho Wo : ℕ) (o : ℕ) : ℕ :=
  (((o / (Wo * Ho * (C * f * f))) * C + (unsqCoord f (o / (Wo * Ho) % (C * f * f)) (o / Wo % Ho) (o % Wo)).1) * (Ho * f)
      + (unsqCoord f (o / (Wo * Ho) % (C * f * f)) (o / Wo % Ho) (o % Wo)).2.1) * (Wo * f)
    + (unsqCoord f (o / (Wo * Ho) % (C * f * f)) (o / Wo % Ho) (o % Wo)).2.2

/-- the per-item source index: output coordinate `i ↦ (c·H + h)·W + w`, `(c, h, w) = unsqCoord f oc i j` -/
def sqSrc (f C Ho Wo : ℕ) (i : ℕ) : ℕ :=
  ((unsqCoord f (i / (Wo * Ho) % (C * f * f)) (i / Wo % Ho) (i % Wo)).1 * (Ho * f)
      + (unsqCoord f (i / (Wo * Ho) % (C * f * f)) (i / Wo % Ho) (i % Wo)).2.1) * (Wo * f)
    + (unsqCoord f (i / (Wo * Ho) % (C * f * f)) (i / Wo % Ho) (i % Wo)).2.2

/-- what the executed `SqueezeTransform(f).forward` computes on `[B, C, Ho·f, Wo·f]` -/
theorem squeezeFwd_eq {α : Type} (f B C Ho Wo : ℕ) (hf : 0 < f) (x : Array α) (d : α) :
    NF.squeezeFwd f B C (Ho * f) (Wo * f) x d
      = .ok ((List.range (B * (C * f * f) * Ho * Wo)).map (fun o => x.getD (sqSrcFull f C Ho Wo o) d)).toArray := by
  unfold NF.squeezeFwd
  have h1 : ¬ ((Ho * f % f != 0 || Wo * f % f != 0) = true) := by simp
  rw [if_neg h1]
  simp only [Nat.mul_div_cancel _ hf]
  rfl

theorem pos_of_lt_mul3 {i P n I : ℕ} (h : i < P * n * I) : 0 < P ∧ 0 < n ∧ 0 < I := by
  refine ⟨?_, ?_, ?_⟩
  · rcases Nat.eq_zero_or_pos P with h0 | h0
    · subst h0; simp at h
    · exact h0
  · rcases Nat.eq_zero_or_pos n with h0 | h0
    · subst h0; simp at h
    · exact h0
  · rcases Nat.eq_zero_or_pos I with h0 | h0
    · subst h0; simp at h
    · exact h0

theorem sqSrc_shift (f C Ho Wo b i : ℕ) (hi : i < C * f * f * Ho * Wo) :
    sqSrcFull f C Ho Wo (b * (C * f * f * Ho * Wo) + i) = b * (C * f * f * Ho * Wo) + sqSrc f C Ho Wo i := by
  obtain ⟨hCo, hHo, hWo⟩ := pos_of_lt_mul3 hi
  have e1 : (b * (C * f * f * Ho * Wo) + i) % Wo = i % Wo := shift_mod b _ Ho Wo i
  have e2 : (b * (C * f * f * Ho * Wo) + i) / Wo % Ho = i / Wo % Ho := shift_mid b _ Ho Wo i hWo
  have e3 : (b * (C * f * f * Ho * Wo) + i) / (Wo * Ho) % (C * f * f) = i / (Wo * Ho) % (C * f * f) := by
    rw [shift_hi b _ Ho Wo i hWo hHo, Nat.add_mul_mod_self_right]
  have e4 : (b * (C * f * f * Ho * Wo) + i) / (Wo * Ho * (C * f * f)) = b := by
    have : b * (C * f * f * Ho * Wo) + i = i + b * (Wo * Ho * (C * f * f)) := by ring
    rw [this, Nat.add_mul_div_right _ _ (Nat.mul_pos (Nat.mul_pos hWo hHo) hCo)]
    rw [Nat.div_eq_of_lt (by calc i < C * f * f * Ho * Wo := hi
                              _ = Wo * Ho * (C * f * f) := by ring), Nat.zero_add]
  unfold sqSrcFull sqSrc
  rw [e1, e2, e3, e4]
  ring

theorem sqSrc_lt {f C Ho Wo i : ℕ} (hf : 0 < f) (hi : i < C * f * f * Ho * Wo) : sqSrc f C Ho Wo i < C * f * f * Ho * Wo := by
  obtain ⟨hCo, hHo, hWo⟩ := pos_of_lt_mul3 hi
  have hc : (i / (Wo * Ho) % (C * f * f)) / (f * f) < C := by
    rw [Nat.div_lt_iff_lt_mul (Nat.mul_pos hf hf)]
    calc i / (Wo * Ho) % (C * f * f) < C * f * f := Nat.mod_lt _ hCo
      _ = C * (f * f) := by ring
  have hh : (i / Wo % Ho) * f + (i / (Wo * Ho) % (C * f * f)) / f % f < Ho * f :=
    radix2_lt (Nat.mod_lt _ hHo) (Nat.mod_lt _ hf)
  have hw : (i % Wo) * f + (i / (Wo * Ho) % (C * f * f)) % f < Wo * f :=
    radix2_lt (Nat.mod_lt _ hWo) (Nat.mod_lt _ hf)
  have := radix3_lt hc hh hw
  unfold sqSrc unsqCoord
  calc _ < C * (Ho * f) * (Wo * f) := this
    _ = C * f * f * Ho * Wo := by ring

theorem sqSrc_inj {f C Ho Wo i j : ℕ} (hf : 0 < f) (hi : i < C * f * f * Ho * Wo) (hj : j < C * f * f * Ho * Wo)
    (h : sqSrc f C Ho Wo i = sqSrc f C Ho Wo j) : i = j := by
  obtain ⟨hCo, hHo, hWo⟩ := pos_of_lt_mul3 hi
  have hbd : ∀ t : ℕ, (unsqCoord f (t / (Wo * Ho) % (C * f * f)) (t / Wo % Ho) (t % Wo)).2.1 < Ho * f
      ∧ (unsqCoord f (t / (Wo * Ho) % (C * f * f)) (t / Wo % Ho) (t % Wo)).2.2 < Wo * f := fun t =>
    ⟨radix2_lt (Nat.mod_lt _ hHo) (Nat.mod_lt _ hf), radix2_lt (Nat.mod_lt _ hWo) (Nat.mod_lt _ hf)⟩
  unfold sqSrc at h
  obtain ⟨h1, h2, h3⟩ := radix3_inj (hbd i).1 (hbd i).2 (hbd j).1 (hbd j).2 h
  obtain ⟨a1, a2, a3⟩ := unsq_inj f hf (Prod.ext h1 (Prod.ext h2 h3))
  rw [Nat.mod_eq_of_lt (digit_hi_lt hi), Nat.mod_eq_of_lt (digit_hi_lt hj)] at a1
  rw [← recon i Ho Wo, ← recon j Ho Wo, a1, a2, a3]

/-- the permutation of the `C·f·f·Ho·Wo` coordinates of one batch item that `SqueezeTransform(f)` applies -/
noncomputable def sqSigma (f C Ho Wo : ℕ) (hf : 0 < f) : Equiv.Perm (Fin (C * f * f * Ho * Wo)) :=
  permOf _ (sqSrc f C Ho Wo) (fun _ hi => sqSrc_lt hf hi) (fun _ _ hi hj h => sqSrc_inj hf hi hj h)

@[simp] theorem sqSigma_apply (f C Ho Wo : ℕ) (hf : 0 < f) (k : Fin (C * f * f * Ho * Wo)) :
    ((sqSigma f C Ho Wo hf k : Fin (C * f * f * Ho * Wo)) : ℕ) = sqSrc f C Ho Wo k := rfl

/-- **C01, `SqueezeTransform(f)`, every factor `f ≥ 1`** on `[B, C, Ho·f, Wo·f]`: the executed forward does not raise,
    the output `[B, C·f·f, Ho, Wo]` has the input's size, and every batch item of the output is the reindexing of the same
    input item by ONE permutation of its `C·f·f·Ho·Wo = C·H·W` coordinates (`sqSigma`, read off the definition:
    `i ↦ (c·H + h)·W + w` with `(c, h, w) = unsqCoord f oc i' j'`).  Hence (`ItemReindex.logdet`) `|det J| = 1` and the
    log-det the code returns, the constant `0` (reshape.py:44), is `log |det J|`. -/
theorem squeezeFwd_item_is_reindex (f B C Ho Wo : ℕ) (hf : 0 < f) (x : Array ℝ) :
    ∃ y, NF.squeezeFwd f B C (Ho * f) (Wo * f) x 0 = .ok y
      ∧ y.size = B * C * (Ho * f) * (Wo * f)
      ∧ ItemReindex B (C * f * f * Ho * Wo) x y (sqSigma f C Ho Wo hf) := by
  have hsz : B * (C * f * f) * Ho * Wo = B * (C * f * f * Ho * Wo) := by ring
  have hr : ItemReindex B (C * f * f * Ho * Wo) x
      ((List.range (B * (C * f * f * Ho * Wo))).map (fun o => x.getD (sqSrcFull f C Ho Wo o) 0)).toArray
      (sqSigma f C Ho Wo hf) :=
    gather_item B _ (sqSrcFull f C Ho Wo) (sqSrc f C Ho Wo) (fun b i _ hi => sqSrc_shift f C Ho Wo b i hi) _
      (fun k => rfl) x
  refine ⟨_, by rw [squeezeFwd_eq f B C Ho Wo hf x 0, hsz], ?_, hr⟩
  rw [hr.size]
  ring

/-- the same in the `f ∣ H`, `f ∣ W` form, with the item size written `C·H·W` -/
theorem squeezeFwd_item_is_reindex_dvd (f B C H W : ℕ) (hf : 0 < f) (hH : f ∣ H) (hW : f ∣ W) (x : Array ℝ) :
    ∃ (y : Array ℝ) (σ : Equiv.Perm (Fin (C * H * W))), NF.squeezeFwd f B C H W x 0 = .ok y
      ∧ y.size = B * (C * f * f) * (H / f) * (W / f) ∧ y.size = B * C * H * W
      ∧ ItemReindex B (C * H * W) x y σ := by
  obtain ⟨Ho, rfl⟩ := hH
  obtain ⟨Wo, rfl⟩ := hW
  rw [Nat.mul_comm f Ho, Nat.mul_comm f Wo]
  obtain ⟨y, hy, hs, hr⟩ := squeezeFwd_item_is_reindex f B C Ho Wo hf x
  have hN : C * f * f * Ho * Wo = C * (Ho * f) * (Wo * f) := by ring
  obtain ⟨σ', hσ', _⟩ := hr.cast hN
  refine ⟨y, σ', hy, ?_, hs, hσ'⟩
  rw [hs, Nat.mul_div_cancel _ hf, Nat.mul_div_cancel _ hf]
  ring

/-- **C17: `squeezeFwd` raises iff `f ∤ H` or `f ∤ W`, and then it is a ValueError** (reshape.py:36-37; at `f = 0`,
    `H % 0 = H`, consistent with `0 ∣ H ↔ H = 0`) -/
theorem squeezeFwd_error_iff {α : Type} (f B C H W : ℕ) (x : Array α) (d : α) (e : Err) :
    NF.squeezeFwd f B C H W x d = .error e ↔ e = .valueError ∧ ¬ (f ∣ H ∧ f ∣ W) := by
  unfold NF.squeezeFwd
  by_cases h : f ∣ H ∧ f ∣ W
  · have h1 : ¬ ((H % f != 0 || W % f != 0) = true) := by
      simp [Nat.mod_eq_zero_of_dvd h.1, Nat.mod_eq_zero_of_dvd h.2]
    rw [if_neg h1]
    constructor
    · intro h'; cases h'
    · rintro ⟨_, h'⟩; exact absurd h h'
  · have h1 : (H % f != 0 || W % f != 0) = true := by
      by_contra hcon
      simp only [Bool.or_eq_true, bne_iff_ne, ne_eq, not_or, not_not] at hcon
      exact h ⟨Nat.dvd_of_mod_eq_zero hcon.1, Nat.dvd_of_mod_eq_zero hcon.2⟩
    rw [if_pos h1]
    constructor
    · intro h'; cases h'; exact ⟨rfl, h⟩
    · rintro ⟨rfl, _⟩; rfl

/-- `squeezeInv` raises iff `C < f²` or `f² ∤ C` (ValueError; reshape.py:54-55 after the repair) -/
theorem squeezeInv_error_iff {α : Type} (f B C H W : ℕ) (y : Array α) (d : α) (e : Err) :
    NF.squeezeInv f B C H W y d = .error e ↔ e = .valueError ∧ (C < f * f ∨ ¬ (f * f ∣ C)) := by
  unfold NF.squeezeInv
  by_cases h : C < f * f ∨ ¬ (f * f ∣ C)
  · have h1 : (decide (C < f * f) || C % (f * f) != 0) = true := by
      rcases h with h | h
      · simp [h]
      · have : C % (f * f) ≠ 0 := fun h0 => h (Nat.dvd_of_mod_eq_zero h0)
        simp [this]
    rw [if_pos h1]
    constructor
    · intro h'; cases h'; exact ⟨rfl, h⟩
    · rintro ⟨rfl, _⟩; rfl
  · have h1 : ¬ ((decide (C < f * f) || C % (f * f) != 0) = true) := by
      rw [not_or, not_not] at h
      simp [h.1, Nat.mod_eq_zero_of_dvd h.2]
    rw [if_neg h1]
    constructor
    · intro h'; cases h'
    · rintro ⟨_, h'⟩; exact absurd h' h

/-! ### C02: `squeezeInv` after `squeezeFwd` returns the input, for every factor -/

/-- the index of `y` that `squeezeInv f B (C·f·f) Ho Wo` reads for output position `o` (the definition) -/
def sqInvSrcFull (f C Ho Wo : ℕ) (o : ℕ) : ℕ :=
  (((o / (Wo * f * (Ho * f) * C)) * (C * f * f)
        + (sqCoord f (o / (Wo * f * (Ho * f)) % C) (o / (Wo * f) % (Ho * f)) (o % (Wo * f))).1) * Ho
      + (sqCoord f (o / (Wo * f * (Ho * f)) % C) (o / (Wo * f) % (Ho * f)) (o % (Wo * f))).2.1) * Wo
    + (sqCoord f (o / (Wo * f * (Ho * f)) % C) (o / (Wo * f) % (Ho * f)) (o % (Wo * f))).2.2

/-- what the executed `SqueezeTransform(f).inverse` computes on `[B, C·f·f, Ho, Wo]`, `C ≥ 1` -/
theorem squeezeInv_eq {α : Type} (f B C Ho Wo : ℕ) (hf : 0 < f) (hC : 0 < C) (y : Array α) (d : α) :
    NF.squeezeInv f B (C * f * f) Ho Wo y d
      = .ok ((List.range (B * C * (Ho * f) * (Wo * f))).map (fun o => y.getD (sqInvSrcFull f C Ho Wo o) d)).toArray := by
  unfold NF.squeezeInv
  have hff : 0 < f * f := Nat.mul_pos hf hf
  have e : C * f * f = C * (f * f) := Nat.mul_assoc _ _ _
  have h0 : ¬ (C * f * f < f * f) := by
    rw [e]
    exact Nat.not_lt.2 (Nat.le_mul_of_pos_left _ hC)
  have h1 : ¬ ((decide (C * f * f < f * f) || C * f * f % (f * f) != 0) = true) := by
    have : C * f * f % (f * f) = 0 := by rw [e, Nat.mul_mod_left]
    simp [h0, this]
  have h2 : C * f * f / (f * f) = C := by rw [e, Nat.mul_div_cancel _ hff]
  rw [if_neg h1]
  simp only [h2]
  rfl

theorem recon4 (o C Hi Wi : ℕ) : ((o / (Wi * Hi * C) * C + o / (Wi * Hi) % C) * Hi + o / Wi % Hi) * Wi + o % Wi = o := by
  rw [← Nat.div_div_eq_div_mul o (Wi * Hi) C, Nat.div_add_mod' (o / (Wi * Hi)) C, ← Nat.div_div_eq_div_mul o Wi Hi,
    Nat.div_add_mod' (o / Wi) Hi, Nat.div_add_mod' o Wi]

/-- the index arithmetic of the round trip: the position `squeezeInv` reads is inside the squeezed tensor, and the position
    `squeezeFwd` read for it is `o` itself -/
theorem sq_roundtrip_index (f B C Ho Wo o : ℕ) (hf : 0 < f) (ho : o < B * C * (Ho * f) * (Wo * f)) :
    sqInvSrcFull f C Ho Wo o < B * (C * f * f) * Ho * Wo ∧ sqSrcFull f C Ho Wo (sqInvSrcFull f C Ho Wo o) = o := by
  obtain ⟨hBC, hHi, hWi⟩ := pos_of_lt_mul3 ho
  have hC : 0 < C := Nat.pos_of_mul_pos_left hBC
  have hw : o % (Wo * f) < Wo * f := Nat.mod_lt _ hWi
  have hh : o / (Wo * f) % (Ho * f) < Ho * f := Nat.mod_lt _ hHi
  have hc : o / (Wo * f * (Ho * f)) % C < C := Nat.mod_lt _ hC
  have hb : o / (Wo * f * (Ho * f) * C) < B := by
    rw [Nat.div_lt_iff_lt_mul (Nat.mul_pos (Nat.mul_pos hWi hHi) hC)]
    calc o < B * C * (Ho * f) * (Wo * f) := ho
      _ = B * (Wo * f * (Ho * f) * C) := by ring
  have hrec := recon4 o C (Ho * f) (Wo * f)
  unfold sqInvSrcFull
  generalize o % (Wo * f) = w at hw hrec ⊢
  generalize o / (Wo * f) % (Ho * f) = h at hh hrec ⊢
  generalize o / (Wo * f * (Ho * f)) % C = c at hc hrec ⊢
  generalize o / (Wo * f * (Ho * f) * C) = b at hb hrec ⊢
  have hoc : (sqCoord f c h w).1 < C * f * f := radix3_lt hc (Nat.mod_lt _ hf) (Nat.mod_lt _ hf)
  have hi : (sqCoord f c h w).2.1 < Ho := by
    show h / f < Ho
    rw [Nat.div_lt_iff_lt_mul hf]; exact hh
  have hj : (sqCoord f c h w).2.2 < Wo := by
    show w / f < Wo
    rw [Nat.div_lt_iff_lt_mul hf]; exact hw
  have hu := unsq_sq f c h w hf
  dsimp only at hu
  generalize (sqCoord f c h w).1 = oc at hoc hu ⊢
  generalize (sqCoord f c h w).2.1 = i at hi hu ⊢
  generalize (sqCoord f c h w).2.2 = j at hj hu ⊢
  refine ⟨radix3_lt (radix2_lt hb hoc) hi hj, ?_⟩
  have d1 : (((b * (C * f * f) + oc) * Ho + i) * Wo + j) % Wo = j := radix_mod _ _ _ hj
  have d2 : (((b * (C * f * f) + oc) * Ho + i) * Wo + j) / Wo = (b * (C * f * f) + oc) * Ho + i := radix_div _ _ _ hj
  have d3 : (((b * (C * f * f) + oc) * Ho + i) * Wo + j) / Wo % Ho = i := by rw [d2, radix_mod _ _ _ hi]
  have d4 : (((b * (C * f * f) + oc) * Ho + i) * Wo + j) / (Wo * Ho) = b * (C * f * f) + oc := by
    rw [← Nat.div_div_eq_div_mul, d2, radix_div _ _ _ hi]
  have d5 : (((b * (C * f * f) + oc) * Ho + i) * Wo + j) / (Wo * Ho) % (C * f * f) = oc := by
    rw [d4, radix_mod _ _ _ hoc]
  have d6 : (((b * (C * f * f) + oc) * Ho + i) * Wo + j) / (Wo * Ho * (C * f * f)) = b := by
    rw [← Nat.div_div_eq_div_mul, d4, radix_div _ _ _ hoc]
  unfold sqSrcFull
  rw [d1, d3, d5, d6, hu]
  exact hrec

/-- **C02, `SqueezeTransform(f)`, every factor `f ≥ 1`, every `C ≥ 1`**: on an input of the full size the executed
    inverse applied to the executed forward's output returns the input array itself (neither raises) -/
theorem squeeze_roundtrip {α : Type} (f B C Ho Wo : ℕ) (hf : 0 < f) (hC : 0 < C) (x : Array α) (d : α)
    (hx : x.size = B * C * (Ho * f) * (Wo * f)) :
    ∃ y, NF.squeezeFwd f B C (Ho * f) (Wo * f) x d = .ok y ∧ y.size = B * (C * f * f) * Ho * Wo
      ∧ NF.squeezeInv f B (C * f * f) Ho Wo y d = .ok x := by
  refine ⟨_, squeezeFwd_eq f B C Ho Wo hf x d, by simp, ?_⟩
  rw [squeezeInv_eq f B C Ho Wo hf hC]
  congr 1
  apply Array.ext
  · simp [hx]
  · intro o h1 h2
    have ho : o < B * C * (Ho * f) * (Wo * f) := hx ▸ h2
    obtain ⟨ht, hs⟩ := sq_roundtrip_index f B C Ho Wo o hf ho
    simp [ht, hs, h2]

/-- the forced hypothesis `C ≥ 1`: on a tensor without channels the inverse raises (`c < f²`, reshape.py:54), so the
    round trip is a ValueError, in the model as in the code -/
theorem squeeze_roundtrip_zero_channels {α : Type} (f B Ho Wo : ℕ) (hf : 0 < f) (y : Array α) (d : α) :
    NF.squeezeInv f B (0 * f * f) Ho Wo y d = .error .valueError := by
  rw [squeezeInv_error_iff]
  exact ⟨rfl, Or.inl (by simpa using Nat.mul_pos hf hf)⟩


/-! ### the inverse direction is the inverse permutation -/

theorem sqInv_shift (f C Ho Wo b i : ℕ) (hi : i < C * (Ho * f) * (Wo * f)) :
    sqInvSrcFull f C Ho Wo (b * (C * (Ho * f) * (Wo * f)) + i)
      = b * (C * f * f * Ho * Wo) + sqInvSrcFull f C Ho Wo i := by
  obtain ⟨hC, hHi, hWi⟩ := pos_of_lt_mul3 hi
  have e1 : (b * (C * (Ho * f) * (Wo * f)) + i) % (Wo * f) = i % (Wo * f) := shift_mod b _ _ _ i
  have e2 : (b * (C * (Ho * f) * (Wo * f)) + i) / (Wo * f) % (Ho * f) = i / (Wo * f) % (Ho * f) :=
    shift_mid b _ _ _ i hWi
  have e3 : (b * (C * (Ho * f) * (Wo * f)) + i) / (Wo * f * (Ho * f)) % C = i / (Wo * f * (Ho * f)) % C := by
    rw [shift_hi b _ _ _ i hWi hHi, Nat.add_mul_mod_self_right]
  have hz : i / (Wo * f * (Ho * f) * C) = 0 :=
    Nat.div_eq_of_lt (by calc i < C * (Ho * f) * (Wo * f) := hi
                          _ = Wo * f * (Ho * f) * C := by ring)
  have e4 : (b * (C * (Ho * f) * (Wo * f)) + i) / (Wo * f * (Ho * f) * C) = b := by
    have : b * (C * (Ho * f) * (Wo * f)) + i = i + b * (Wo * f * (Ho * f) * C) := by ring
    rw [this, Nat.add_mul_div_right _ _ (Nat.mul_pos (Nat.mul_pos hWi hHi) hC), hz, Nat.zero_add]
  unfold sqInvSrcFull
  rw [e1, e2, e3, e4, hz]
  ring

/-- **C01, `SqueezeTransform(f).inverse`** on `[B, C·f·f, Ho, Wo]`, `C ≥ 1`: does not raise, and every batch item of the
    output is the reindexing of the same input item by the INVERSE of the forward's permutation `sqSigma`; so again
    `|det J| = 1` and the returned log-det `0` (reshape.py:66) is `log |det J|` -/
theorem squeezeInv_item_is_reindex (f B C Ho Wo : ℕ) (hf : 0 < f) (hC : 0 < C) (x : Array ℝ) :
    ∃ y, NF.squeezeInv f B (C * f * f) Ho Wo x 0 = .ok y
      ∧ y.size = B * (C * f * f) * Ho * Wo
      ∧ ItemReindex B (C * f * f * Ho * Wo) x y (sqSigma f C Ho Wo hf)⁻¹ := by
  have hN : C * f * f * Ho * Wo = C * (Ho * f) * (Wo * f) := by ring
  have hsz : B * C * (Ho * f) * (Wo * f) = B * (C * f * f * Ho * Wo) := by ring
  have key : ∀ k : Fin (C * f * f * Ho * Wo),
      (((sqSigma f C Ho Wo hf)⁻¹ k : Fin (C * f * f * Ho * Wo)) : ℕ) = sqInvSrcFull f C Ho Wo k := by
    intro k
    have hk : (k : ℕ) < 1 * C * (Ho * f) * (Wo * f) := by rw [Nat.one_mul, ← hN]; exact k.2
    obtain ⟨ht, hs⟩ := sq_roundtrip_index f 1 C Ho Wo k hf hk
    have ht' : sqInvSrcFull f C Ho Wo k < C * f * f * Ho * Wo := by rw [Nat.one_mul] at ht; exact ht
    have h0 := sqSrc_shift f C Ho Wo 0 _ ht'
    rw [Nat.zero_mul, Nat.zero_add, Nat.zero_add, hs] at h0
    have : (sqSigma f C Ho Wo hf)⁻¹ k = ⟨sqInvSrcFull f C Ho Wo k, ht'⟩ := by
      rw [Equiv.Perm.inv_eq_iff_eq]
      apply Fin.ext
      rw [sqSigma_apply]
      exact h0
    rw [this]
  have hr : ItemReindex B (C * f * f * Ho * Wo) x
      ((List.range (B * (C * f * f * Ho * Wo))).map (fun o => x.getD (sqInvSrcFull f C Ho Wo o) 0)).toArray
      (sqSigma f C Ho Wo hf)⁻¹ := by
    refine gather_item B _ (sqInvSrcFull f C Ho Wo) (sqInvSrcFull f C Ho Wo) ?_ _ key x
    intro b i _ hi
    have := sqInv_shift f C Ho Wo b i (hN ▸ hi)
    rw [← hN] at this
    exact this
  refine ⟨_, by rw [squeezeInv_eq f B C Ho Wo hf hC x 0, hsz], ?_, hr⟩
  rw [hr.size]
  ring

/-! ### C02 of `Permutation`: the executed inverse (`argsort` of the permutation) undoes the executed forward -/

/-- a permutation list hits every index below `n` -/
theorem IsPerm.surj {n : ℕ} {perm : List ℕ} (hp : IsPerm n perm) (k : ℕ) (hk : k < n) :
    ∃ a, a < n ∧ perm.getD a 0 = k := by
  obtain ⟨a, ha⟩ := (permOf n (fun a => perm.getD a 0) hp.lt hp.inj).surjective ⟨k, hk⟩
  exact ⟨a, a.2, by simpa using congrArg Fin.val ha⟩

/-- `inversePerm` (torch's `argsort`) is a right inverse on the indices: `perm[inv[k]] = k`, `inv[k] < n` -/
theorem inversePerm_spec {n : ℕ} {perm : List ℕ} (hp : IsPerm n perm) (k : ℕ) (hk : k < n) :
    (inversePerm perm).getD k 0 < n ∧ perm.getD ((inversePerm perm).getD k 0) 0 = k := by
  obtain ⟨a, ha, hak⟩ := hp.surj k hk
  have ha' : a < perm.length := hp.length ▸ ha
  have hmem : ∃ v ∈ perm, (v == k) = true := by
    refine ⟨perm[a], List.getElem_mem ha', ?_⟩
    rw [List.getD_eq_getElem _ _ ha'] at hak
    simp [hak]
  have hidx : perm.findIdx (· == k) < perm.length := List.findIdx_lt_length_of_exists hmem
  have hval : (perm[perm.findIdx (· == k)] == k) = true := List.findIdx_getElem (w := hidx)
  have hinv : (inversePerm perm).getD k 0 = perm.findIdx (· == k) := by
    have hk' : k < perm.length := hp.length ▸ hk
    simp [inversePerm, hk']
  rw [hinv]
  refine ⟨hp.length ▸ hidx, ?_⟩
  rw [List.getD_eq_getElem _ _ hidx]
  simpa using hval

theorem inversePerm_length (perm : List ℕ) : (inversePerm perm).length = perm.length := by simp [inversePerm]

/-- the executed inverse list is again a permutation list, so every theorem of this section applies to
    `Permutation.inverse` as well (log-det `0` is `log |det J|` there too) -/
theorem isPerm_inversePerm {n : ℕ} {perm : List ℕ} (hp : IsPerm n perm) : IsPerm n (inversePerm perm) := by
  refine ⟨(inversePerm_length perm).trans hp.length, fun k hk => (inversePerm_spec hp k hk).1, ?_⟩
  intro a b ha hb h
  rw [← (inversePerm_spec hp a ha).2, ← (inversePerm_spec hp b hb).2, h]

/-- the index arithmetic of the round trip of `Permutation` -/
theorem perm_roundtrip_index {P n I : ℕ} {perm : List ℕ} (hp : IsPerm n perm) (o : ℕ) (ho : o < P * n * I) :
    permSrc n I (inversePerm perm) o < P * n * I
      ∧ permSrc n I perm (permSrc n I (inversePerm perm) o) = o := by
  obtain ⟨_, hn, hI⟩ := pos_of_lt_mul3 ho
  obtain ⟨hlt, hval⟩ := inversePerm_spec hp (o / I % n) (Nat.mod_lt _ hn)
  have hr : o % I < I := Nat.mod_lt _ hI
  have hrec := recon o n I
  unfold permSrc at *
  generalize (inversePerm perm).getD (o / I % n) 0 = p at hlt hval ⊢
  refine ⟨radix3_lt (digit_hi_lt ho) hlt hr, ?_⟩
  have d1 : ((o / (I * n) * n + p) * I + o % I) % I = o % I := radix_mod _ _ _ hr
  have d2 : ((o / (I * n) * n + p) * I + o % I) / I = o / (I * n) * n + p := radix_div _ _ _ hr
  have d3 : ((o / (I * n) * n + p) * I + o % I) / (I * n) = o / (I * n) := by
    rw [← Nat.div_div_eq_div_mul, d2, radix_div _ _ _ hlt]
  rw [d1, d2, d3, radix_mod _ _ _ hlt, hval]
  exact hrec

/-- **C02, `Permutation(perm, dim)`, any shape `B :: pre ++ n :: suf`, `dim = |pre| + 1`**: on an input of the full size,
    the executed inverse (the same program run with `inversePerm perm`, i.e. `torch.argsort`, permutations.py:21-22,42)
    applied to the executed forward's output returns the input array itself; neither raises -/
theorem permuteDim_roundtrip {α : Type} (B n : ℕ) (pre suf perm : List ℕ) (hp : IsPerm n perm) (x : Array α) (d : α)
    (hx : x.size = B * (fprod pre * n * fprod suf)) :
    ∃ y, NF.permuteDim (B :: (pre ++ n :: suf)) (pre.length + 1) perm x d = .ok y
      ∧ NF.permuteDim (B :: (pre ++ n :: suf)) (pre.length + 1) (inversePerm perm) y d = .ok x := by
  refine ⟨_, permuteDim_mid B n pre suf perm hp.length x d, ?_⟩
  rw [permuteDim_mid B n pre suf (inversePerm perm) ((inversePerm_length perm).trans hp.length)]
  congr 1
  apply Array.ext
  · simp [hx]
  · intro o h1 h2
    have ho : o < B * fprod pre * n * fprod suf := by
      have : o < B * (fprod pre * n * fprod suf) := hx ▸ h2
      calc o < B * (fprod pre * n * fprod suf) := this
        _ = B * fprod pre * n * fprod suf := by ring
    obtain ⟨ht, hs⟩ := perm_roundtrip_index (P := B * fprod pre) hp o ho
    have ht' : permSrc n (fprod suf) (inversePerm perm) o < B * (fprod pre * n * fprod suf) := by
      calc _ < B * fprod pre * n * fprod suf := ht
        _ = B * (fprod pre * n * fprod suf) := by ring
    simp [ht', hs, h2]

/-! ## 4. Non-vacuity -/

/-- `[2, 0, 1]` is a permutation of `range 3` -/
theorem isPerm_example : IsPerm 3 [2, 0, 1] := isPerm_of_nodup rfl (by decide) (by decide)

/-- the hypotheses of the channel theorem are satisfiable (Glow-like `[B, C, H, W] = [2, 3, 2, 2]`), any input -/
example (x : Array ℝ) : ∃ (y : Array ℝ) (σ : Equiv.Perm (Fin (3 * 2 * 2))),
    NF.permuteDim [2, 3, 2, 2] 1 [2, 0, 1] x 0 = .ok y ∧ ItemReindex 2 (3 * 2 * 2) x y σ
      ∧ Real.log |(matCLM (σ.permMatrix ℝ)).det| = 0 := by
  obtain ⟨y, σ, h1, h2, _⟩ := permuteDim_channels 2 3 2 2 [2, 0, 1] isPerm_example x
  exact ⟨y, σ, h1, h2, h2.logdet.2.2.2.1⟩

/-- concrete run: the channel swap on `[1, 2, 1, 2]` -/
example : NF.permuteDim [1, 2, 1, 2] 1 [1, 0] #[(1 : ℝ), 2, 3, 4] 0 = .ok #[3, 4, 1, 2] := by
  simp [NF.permuteDim, List.range, List.range.loop]

/-- concrete run: a column swap (`dim = 3`) on `[1, 1, 2, 2]` -/
example : NF.permuteDim [1, 1, 2, 2] 3 [1, 0] #[(1 : ℝ), 2, 3, 4] 0 = .ok #[2, 1, 4, 3] := by
  simp [NF.permuteDim, List.range, List.range.loop]

/-- concrete run of the squeeze: a `[1, 1, 2, 4]` image becomes `[1, 4, 1, 2]` -/
example : NF.squeezeFwd 2 1 1 2 4 #[(1 : ℝ), 2, 3, 4, 5, 6, 7, 8] 0 = .ok #[1, 3, 2, 4, 5, 7, 6, 8] := by
  simp [NF.squeezeFwd, NF.unsqCoord, List.range, List.range.loop]

/-- … and back -/
example : NF.squeezeInv 2 1 4 1 2 #[(1 : ℝ), 3, 2, 4, 5, 7, 6, 8] 0 = .ok #[1, 2, 3, 4, 5, 6, 7, 8] := by
  simp [NF.squeezeInv, NF.sqCoord, List.range, List.range.loop]

/-- the squeeze theorem instantiated (`f = 2`, `[B, C, H, W] = [3, 2, 4, 6]`), any input -/
example (x : Array ℝ) : ∃ (y : Array ℝ) (σ : Equiv.Perm (Fin (2 * 4 * 6))),
    NF.squeezeFwd 2 3 2 4 6 x 0 = .ok y ∧ y.size = 3 * 2 * 4 * 6 ∧ ItemReindex 3 (2 * 4 * 6) x y σ := by
  obtain ⟨y, σ, h1, _, h3, h4⟩ := squeezeFwd_item_is_reindex_dvd 2 3 2 4 6 (by omega) ⟨2, rfl⟩ ⟨3, rfl⟩ x
  exact ⟨y, σ, h1, h3, h4⟩

/-- the error branch is reachable: `H = 3` is not a multiple of `f = 2` -/
example (x : Array ℝ) : NF.squeezeFwd 2 1 1 3 2 x 0 = .error .valueError := by
  rw [squeezeFwd_error_iff]
  exact ⟨rfl, fun h => by have := h.1; omega⟩

/-- … and so is `permuteDim`'s: a size mismatch -/
example (x : Array ℝ) : NF.permuteDim [1, 3] 1 [1, 0] x 0 = .error .valueError := by
  rw [permuteDim_error_iff]
  exact ⟨rfl, Or.inr (by simp)⟩

/-- the executed inverse permutation of `[2, 0, 1]` is `[1, 2, 0]`, and the round trip theorem applies to it -/
example : inversePerm [2, 0, 1] = [1, 2, 0] := by decide

example (x : Array ℝ) (hx : x.size = 2 * (fprod [] * 3 * fprod [2, 2])) :
    ∃ y, NF.permuteDim [2, 3, 2, 2] 1 [2, 0, 1] x 0 = .ok y ∧ NF.permuteDim [2, 3, 2, 2] 1 [1, 2, 0] y 0 = .ok x :=
  permuteDim_roundtrip 2 3 [] [2, 2] [2, 0, 1] isPerm_example x 0 hx

end LogdetExec
