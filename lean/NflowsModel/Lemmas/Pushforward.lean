import Mathlib.MeasureTheory.Function.JacobianOneDim
import Mathlib.MeasureTheory.Function.Jacobian
import Mathlib.MeasureTheory.Measure.WithDensity
import Mathlib.Tactic
/-!
# Lemmas/Pushforward — samples of a flow follow `exp(log_prob)` (C04, distribution clause)

`z` is drawn with density `p` (the base distribution), the sample is `x = T⁻¹ z`.  For every measurable event `A`
the probability that the sample lands in `A` is the integral over `A` of `p (T x) · exp (logabsdet x)` — the
density `Flow.log_prob` reports (flows/base.py:42-49).  With `A = (-∞, t]` this is the statement about the
distribution function.  What is trusted, not proved: that `torch.randn` has density `p`, and the law of large
numbers connecting the empirical distribution function with the probability.
-/
namespace Pushforward

open MeasureTheory

/-- the event "the sample `Tinv z` lies in `A`" is the image of `A` under the forward transform -/
theorem preimage_inv_eq_image {α β : Type*} (T : α → β) (Tinv : β → α)
    (hl : ∀ x, Tinv (T x) = x) (hr : ∀ z, T (Tinv z) = z) (A : Set α) : Tinv ⁻¹' A = T '' A := by
  ext z
  constructor
  · intro hz; exact ⟨Tinv z, hz, hr z⟩
  · rintro ⟨x, hx, rfl⟩; simpa [hl x] using hx

/-- 1-D, set form: P(T⁻¹ z ∈ A) = ∫_A p(T x)·exp(ld x) dx -/
theorem sample_event_probability_1d (T Tinv ld p : ℝ → ℝ)
    (hl : ∀ x, Tinv (T x) = x) (hr : ∀ z, T (Tinv z) = z)
    (hd : ∀ x, HasDerivAt T (Real.exp (ld x)) x) (A : Set ℝ) (hA : MeasurableSet A) :
    ∫ z in Tinv ⁻¹' A, p z = ∫ x in A, p (T x) * Real.exp (ld x) := by
  have hinj : Function.Injective T := fun a b h => by rw [← hl a, ← hl b, h]
  have h := integral_image_eq_integral_abs_deriv_smul (s := A) (f := T)
    (f' := fun x => Real.exp (ld x)) hA (fun x _ => (hd x).hasDerivWithinAt) hinj.injOn p
  rw [preimage_inv_eq_image T Tinv hl hr A, h]
  congr 1; ext x
  simp only [smul_eq_mul, abs_of_pos (Real.exp_pos _)]; ring

/-- 1-D, in log form as the code computes it: the density of the samples is `exp (Flow.log_prob x)` -/
theorem sample_event_probability_logprob_1d (T Tinv ld logp : ℝ → ℝ)
    (hl : ∀ x, Tinv (T x) = x) (hr : ∀ z, T (Tinv z) = z)
    (hd : ∀ x, HasDerivAt T (Real.exp (ld x)) x) (A : Set ℝ) (hA : MeasurableSet A) :
    ∫ z in Tinv ⁻¹' A, Real.exp (logp z) = ∫ x in A, Real.exp (logp (T x) + ld x) := by
  simp_rw [Real.exp_add]
  exact sample_event_probability_1d T Tinv ld (fun z => Real.exp (logp z)) hl hr hd A hA

/-- the distribution function of the samples is the integral of the reported density -/
theorem sample_cdf_1d (T Tinv ld logp : ℝ → ℝ)
    (hl : ∀ x, Tinv (T x) = x) (hr : ∀ z, T (Tinv z) = z)
    (hd : ∀ x, HasDerivAt T (Real.exp (ld x)) x) (t : ℝ) :
    ∫ z in {z | Tinv z ≤ t}, Real.exp (logp z) = ∫ x in Set.Iic t, Real.exp (logp (T x) + ld x) :=
  sample_event_probability_logprob_1d T Tinv ld logp hl hr hd (Set.Iic t) measurableSet_Iic

/-- n-D, set form -/
theorem sample_event_probability_nd {n : ℕ} (T Tinv : (Fin n → ℝ) → (Fin n → ℝ))
    (T' : (Fin n → ℝ) → ((Fin n → ℝ) →L[ℝ] (Fin n → ℝ))) (ld p : (Fin n → ℝ) → ℝ)
    (hl : ∀ x, Tinv (T x) = x) (hr : ∀ z, T (Tinv z) = z)
    (hd : ∀ x, HasFDerivAt T (T' x) x) (hld : ∀ x, |(T' x).det| = Real.exp (ld x))
    (A : Set (Fin n → ℝ)) (hA : MeasurableSet A) :
    ∫ z in Tinv ⁻¹' A, p z = ∫ x in A, p (T x) * Real.exp (ld x) := by
  have hinj : Function.Injective T := fun a b h => by rw [← hl a, ← hl b, h]
  have h := integral_image_eq_integral_abs_det_fderiv_smul (μ := volume) (s := A) (f := T)
    (f' := T') hA (fun x _ => (hd x).hasFDerivWithinAt) hinj.injOn p
  rw [preimage_inv_eq_image T Tinv hl hr A, h]
  congr 1; ext x
  simp only [smul_eq_mul, hld]; ring

/-- 1-D, measure form: the law of the samples `Measure.map Tinv (p·dz)` IS the measure with density
    `p (T x) · exp (ld x)` -/
theorem pushforward_density_1d (T Tinv ld : ℝ → ℝ) (p : ℝ → ENNReal)
    (hl : ∀ x, Tinv (T x) = x) (hr : ∀ z, T (Tinv z) = z)
    (hd : ∀ x, HasDerivAt T (Real.exp (ld x)) x) (hTinv : Measurable Tinv) :
    Measure.map Tinv (volume.withDensity p)
      = volume.withDensity (fun x => ENNReal.ofReal (Real.exp (ld x)) * p (T x)) := by
  have hinj : Function.Injective T := fun a b h => by rw [← hl a, ← hl b, h]
  ext A hA
  rw [Measure.map_apply hTinv hA, preimage_inv_eq_image T Tinv hl hr A]
  have hTA : MeasurableSet (T '' A) := by
    rw [← preimage_inv_eq_image T Tinv hl hr A]; exact hTinv hA
  rw [withDensity_apply _ hTA, withDensity_apply _ hA]
  have h := lintegral_image_eq_lintegral_abs_deriv_mul (s := A) (f := T)
    (f' := fun x => Real.exp (ld x)) hA (fun x _ => (hd x).hasDerivWithinAt) hinj.injOn p
  rw [h]
  congr 1; ext x
  rw [abs_of_pos (Real.exp_pos _)]

end Pushforward
