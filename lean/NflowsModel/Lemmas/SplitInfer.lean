import NflowsModel.Core.TorchUtils
import NflowsModel.Lemmas.TorchUtils
/-!
# Lemmas/SplitInfer — `split_leading_dim` with an inferred `-1`: the FULL behaviour of the model, zero-size tensors included

`Properties/C20.split_merge_id_infer_partial` assumes `0 < prod (shape[1:])`.  Here the executed `inferSize` /
`splitLeading` are characterised completely (exactly when they succeed, with what, and that every failure is a
`RuntimeError`), and the split-then-merge round trip is stated as an `iff`: it returns `x` exactly when the trailing
block is non-empty or the explicit split multiplies to `shape[0]`.
-/
open NF NF.TU

namespace NF.SplitInfer
variable {α : Type}

/-- number of `-1` entries of a requested shape -/
def negCount (sh : List Int) : Nat := (sh.filter (· == -1)).length
/-- product of the explicit (non `-1`) entries -/
def explProd (sh : List Int) : Nat := prodL ((sh.filter (· != -1)).map Int.toNat)

theorem any_eq_neg1_false {sh : List Int} (h : negCount sh = 0) : sh.any (· == -1) = false := by
  cases hb : sh.any (· == -1) with
  | false => rfl
  | true => have := filter_pos_of_any sh hb; unfold negCount at h; omega

theorem any_eq_neg1_true {sh : List Int} (h : 0 < negCount sh) : sh.any (· == -1) = true := by
  unfold negCount at h
  obtain ⟨a, ha⟩ := List.exists_mem_of_length_pos h
  rw [List.mem_filter] at ha
  exact List.any_eq_true.mpr ⟨a, ha.1, ha.2⟩

theorem any_lt_false {sh : List Int} (h : ∀ d ∈ sh, -1 ≤ d) : sh.any (· < -1) = false := by
  rw [List.any_eq_false]; intro a ha; have := h a ha; simp only [decide_eq_true_eq]; omega

theorem any_lt_true {sh : List Int} (h : ∃ d ∈ sh, d < -1) : sh.any (· < -1) = true := by
  obtain ⟨d, hd, hlt⟩ := h
  exact List.any_eq_true.mpr ⟨d, hd, by simpa using hlt⟩

theorem filter_ne_self {sh : List Int} (h : negCount sh = 0) : sh.filter (· != -1) = sh := by
  rw [List.filter_eq_self]; intro a ha
  have := any_eq_neg1_false h
  rw [List.any_eq_false] at this
  simpa [bne] using this a ha

theorem explProd_of_explicit {sh : List Int} (h : negCount sh = 0) : explProd sh = prodL (sh.map Int.toNat) := by
  rw [explProd, filter_ne_self h]

/-! ## `inferSize`, completely -/

/-- more than one `-1`: RuntimeError -/
theorem inferSize_many (numel : Nat) (sh : List Int) (h : 1 < negCount sh) : inferSize numel sh = .error .runtime := by
  rw [inferSize_eq]; exact if_pos h

/-- an entry below `-1`: RuntimeError -/
theorem inferSize_invalid (numel : Nat) (sh : List Int) (h : ∃ d ∈ sh, d < -1) : inferSize numel sh = .error .runtime := by
  rw [inferSize_eq]
  by_cases c1 : (sh.filter (· == -1)).length > 1
  · exact if_pos c1
  · rw [if_neg c1, if_pos (any_lt_true h)]

/-- explicit shape: succeeds iff the element counts agree -/
theorem inferSize_explicit (numel : Nat) (sh : List Int) (h0 : negCount sh = 0) (hge : ∀ d ∈ sh, -1 ≤ d) :
    inferSize numel sh = if numel = explProd sh then .ok (sh.map Int.toNat) else .error .runtime := by
  have c1 : ¬ (sh.filter (· == -1)).length > 1 := by unfold negCount at h0; omega
  rw [inferSize_eq, if_neg c1]
  by_cases hn : numel = explProd sh
  · rw [if_pos hn]; unfold explProd at hn; simp [any_lt_false hge, any_eq_neg1_false h0, ← hn]
  · rw [if_neg hn]; unfold explProd at hn; simp [any_lt_false hge, any_eq_neg1_false h0, hn]

/-- one `-1`: succeeds iff the explicit product is positive and divides the element count; the `-1` becomes the quotient -/
theorem inferSize_infer (numel : Nat) (sh : List Int) (h1 : negCount sh = 1) (hge : ∀ d ∈ sh, -1 ≤ d) :
    inferSize numel sh =
      if 0 < explProd sh ∧ explProd sh ∣ numel then .ok (sh.map (fillDim (numel / explProd sh))) else .error .runtime := by
  have c1 : ¬ (sh.filter (· == -1)).length > 1 := by unfold negCount at h1; omega
  rw [inferSize_eq, if_neg c1]
  simp only [any_lt_false hge, any_eq_neg1_true (by omega : 0 < negCount sh), Bool.false_eq_true, if_false, Bool.true_and,
    if_true]
  change (if (numel == explProd sh || (decide (0 < explProd sh) && numel % explProd sh == 0)) = true then
      (if (explProd sh == 0) = true then Except.error Err.runtime else .ok (sh.map (fillDim (numel / explProd sh))))
      else .error .runtime) = _
  by_cases hP : explProd sh = 0
  · have : ¬ (0 < explProd sh ∧ explProd sh ∣ numel) := by omega
    rw [if_neg this]; simp [hP]
  · have hpos : 0 < explProd sh := Nat.pos_of_ne_zero hP
    have hbeq : (explProd sh == 0) = false := by simpa using hP
    by_cases hd : explProd sh ∣ numel
    · have hm : numel % explProd sh = 0 := Nat.mod_eq_zero_of_dvd hd
      rw [if_pos (show 0 < explProd sh ∧ explProd sh ∣ numel from ⟨hpos, hd⟩)]; simp [hm, hpos, hbeq]
    · have hm : numel % explProd sh ≠ 0 := fun h => hd (Nat.dvd_of_mod_eq_zero h)
      have hne : numel ≠ explProd sh := fun h => hd (h ▸ dvd_refl _)
      have : ¬ (0 < explProd sh ∧ explProd sh ∣ numel) := fun h => hd h.2
      rw [if_neg this]; simp [hm, hne]

theorem exists_lt_of_not_ge {sh : List Int} (hge : ¬ ∀ d ∈ sh, -1 ≤ d) : ∃ d ∈ sh, d < -1 := by
  by_contra hcon
  apply hge; intro d hd
  by_contra hlt
  exact hcon ⟨d, hd, by omega⟩

/-- every failure of `inferSize` is a `RuntimeError` -/
theorem inferSize_error_runtime {numel : Nat} {sh : List Int} {e : Err} (h : inferSize numel sh = .error e) : e = .runtime := by
  by_cases hge : ∀ d ∈ sh, -1 ≤ d
  · rcases Nat.lt_trichotomy (negCount sh) 1 with h1 | h1 | h1
    · rw [inferSize_explicit _ _ (by omega) hge] at h
      split at h
      · exact absurd h (by simp)
      · injection h with h; exact h.symm
    · rw [inferSize_infer _ _ h1 hge] at h
      split at h
      · exact absurd h (by simp)
      · injection h with h; exact h.symm
    · rw [inferSize_many _ _ h1] at h; injection h with h; exact h.symm
  · rw [inferSize_invalid _ _ (exists_lt_of_not_ge hge)] at h; injection h with h; exact h.symm

/-! ## the requested shape of `split_leading_dim`: `sh ++ shape[1:]` -/

theorem negCount_append_ofNat (sh : List Int) (t : List Nat) : negCount (sh ++ t.map Int.ofNat) = negCount sh := by
  simp [negCount, List.filter_append, filter_eq_neg1_ofNat]

theorem explProd_append_ofNat (sh : List Int) (t : List Nat) : explProd (sh ++ t.map Int.ofNat) = explProd sh * prodL t := by
  simp only [explProd, List.filter_append, filter_ne_neg1_ofNat, List.map_append, map_toNat_ofNat, prodL_append]

theorem ge_append_ofNat {sh : List Int} (t : List Nat) (h : ∀ d ∈ sh, -1 ≤ d) : ∀ d ∈ sh ++ t.map Int.ofNat, -1 ≤ d := by
  intro d hd
  rcases List.mem_append.mp hd with h1 | h1
  · exact h d h1
  · obtain ⟨b, _, rfl⟩ := List.mem_map.mp h1; simp only [Int.ofNat_eq_natCast]; omega

theorem map_toNat_append_ofNat (sh : List Int) (t : List Nat) :
    (sh ++ t.map Int.ofNat).map Int.toNat = sh.map Int.toNat ++ t := by
  rw [List.map_append, map_toNat_ofNat]

theorem map_fillDim_append_ofNat (q : Nat) (sh : List Int) (t : List Nat) :
    (sh ++ t.map Int.ofNat).map (fillDim q) = sh.map (fillDim q) ++ t := by
  rw [List.map_append, map_fillDim_ofNat]

/-! ## `splitLeading`, completely (a tensor of shape `[s0] ++ tail`, any sizes, zero included) -/

section
variable (x : T α) (s0 : ℕ) (tail : List ℕ) (sh : List Int)

theorem numel_eq (hx : x.shape = s0 :: tail) : x.numel = s0 * prodL tail := by simp [T.numel, hx, prodL]

/-- an entry below `-1`: RuntimeError -/
theorem splitLeading_invalid (hx : x.shape = s0 :: tail) (h : ∃ d ∈ sh, d < -1) : splitLeading x sh = .error .runtime := by
  simp only [splitLeading, reshape, hx, List.drop_succ_cons, List.drop_zero]
  rw [inferSize_invalid _ _ (by obtain ⟨d, hd, hlt⟩ := h; exact ⟨d, List.mem_append_left _ hd, hlt⟩)]

/-- more than one `-1`: RuntimeError -/
theorem splitLeading_many (hx : x.shape = s0 :: tail) (h : 1 < negCount sh) : splitLeading x sh = .error .runtime := by
  simp only [splitLeading, reshape, hx, List.drop_succ_cons, List.drop_zero]
  rw [inferSize_many _ _ (by rw [negCount_append_ofNat]; exact h)]

/-- explicit split: accepted iff the ELEMENT COUNTS agree, `prod sh * prod tail = s0 * prod tail` — on a zero-size
    trailing block every explicit split is accepted (torch cannot check it against `shape[0]`) -/
theorem splitLeading_explicit (hx : x.shape = s0 :: tail) (h0 : negCount sh = 0) (hge : ∀ d ∈ sh, -1 ≤ d) :
    splitLeading x sh =
      if s0 * prodL tail = explProd sh * prodL tail then .ok ⟨sh.map Int.toNat ++ tail, x.data⟩ else .error .runtime := by
  simp only [splitLeading, reshape, hx, List.drop_succ_cons, List.drop_zero]
  rw [inferSize_explicit _ _ (by rw [negCount_append_ofNat]; exact h0) (ge_append_ofNat tail hge),
    explProd_append_ofNat, numel_eq x s0 tail hx, map_toNat_append_ofNat]
  by_cases heq : s0 * prodL tail = explProd sh * prodL tail
  · simp only [heq, if_true]
  · simp only [heq, if_false]

/-- one inferred `-1`: accepted iff the trailing block is non-empty, the explicit entries are positive and their
    product divides `shape[0]`; the `-1` becomes `shape[0] / prod(explicit)`.  In particular ALWAYS a RuntimeError on a
    tensor whose trailing block has 0 elements. -/
theorem splitLeading_infer (hx : x.shape = s0 :: tail) (h1 : negCount sh = 1) (hge : ∀ d ∈ sh, -1 ≤ d) :
    splitLeading x sh =
      if 0 < prodL tail ∧ 0 < explProd sh ∧ explProd sh ∣ s0 then
        .ok ⟨sh.map (fillDim (s0 / explProd sh)) ++ tail, x.data⟩ else .error .runtime := by
  simp only [splitLeading, reshape, hx, List.drop_succ_cons, List.drop_zero]
  rw [inferSize_infer _ _ (by rw [negCount_append_ofNat]; exact h1) (ge_append_ofNat tail hge),
    explProd_append_ofNat, numel_eq x s0 tail hx, map_fillDim_append_ofNat]
  by_cases hc : 0 < prodL tail ∧ 0 < explProd sh ∧ explProd sh ∣ s0
  · obtain ⟨ht, hp, hd⟩ := hc
    have hc' : 0 < explProd sh * prodL tail ∧ explProd sh * prodL tail ∣ s0 * prodL tail :=
      ⟨Nat.mul_pos hp ht, Nat.mul_dvd_mul_right hd _⟩
    rw [if_pos hc', if_pos ⟨ht, hp, hd⟩, Nat.mul_div_mul_right _ _ ht]
  · have hc' : ¬ (0 < explProd sh * prodL tail ∧ explProd sh * prodL tail ∣ s0 * prodL tail) := by
      rintro ⟨hpos, hd⟩
      have ht : 0 < prodL tail := Nat.pos_of_mul_pos_left hpos
      have hp : 0 < explProd sh := Nat.pos_of_mul_pos_right hpos
      exact hc ⟨ht, hp, (Nat.mul_dvd_mul_iff_right ht).mp hd⟩
    rw [if_neg hc', if_neg hc]

/-- every failure of `split_leading_dim` is a `RuntimeError` -/
theorem splitLeading_error_runtime {e : Err} (h : splitLeading x sh = .error e) : e = .runtime := by
  simp only [splitLeading, reshape] at h
  cases hinf : inferSize (T.numel x) (sh ++ (x.shape.drop 1).map Int.ofNat) with
  | error e' => rw [hinf] at h; injection h with h; subst h; exact inferSize_error_runtime hinf
  | ok s => rw [hinf] at h; exact absurd h (by simp)

/-- the condition under which `split_leading_dim(x, sh)` returns -/
def Accepts : Prop :=
  (∀ d ∈ sh, -1 ≤ d) ∧
    ((negCount sh = 0 ∧ (prodL tail = 0 ∨ explProd sh = s0)) ∨
     (negCount sh = 1 ∧ 0 < prodL tail ∧ 0 < explProd sh ∧ explProd sh ∣ s0))

/-- the shape `split_leading_dim` produces when it returns: `-1` replaced by `shape[0] / prod(explicit)` -/
def filled : List ℕ := sh.map (fillDim (s0 / explProd sh))

theorem filled_length : (filled s0 sh).length = sh.length := by simp [filled]

/-- **`split_leading_dim(x, sh)` succeeds EXACTLY when `Accepts`** … -/
theorem splitLeading_ok_iff (hx : x.shape = s0 :: tail) :
    (∃ y, splitLeading x sh = .ok y) ↔ Accepts s0 tail sh := by
  by_cases hge : ∀ d ∈ sh, -1 ≤ d
  · rcases Nat.lt_trichotomy (negCount sh) 1 with h | h | h
    · have h0 : negCount sh = 0 := by omega
      rw [splitLeading_explicit x s0 tail sh hx h0 hge]
      constructor
      · rintro ⟨y, hy⟩
        split at hy
        · rename_i heq
          refine ⟨hge, Or.inl ⟨h0, ?_⟩⟩
          rcases Nat.eq_zero_or_pos (prodL tail) with ht | ht
          · exact Or.inl ht
          · exact Or.inr (Nat.eq_of_mul_eq_mul_right ht heq).symm
        · exact absurd hy (by simp)
      · rintro ⟨_, ⟨_, h2⟩ | ⟨h2, _⟩⟩
        · have : s0 * prodL tail = explProd sh * prodL tail := by
            rcases h2 with h2 | h2
            · simp [h2]
            · rw [h2]
          rw [if_pos this]; exact ⟨_, rfl⟩
        · omega
    · rw [splitLeading_infer x s0 tail sh hx h hge]
      constructor
      · rintro ⟨y, hy⟩
        split at hy
        · rename_i hc; exact ⟨hge, Or.inr ⟨h, hc⟩⟩
        · exact absurd hy (by simp)
      · rintro ⟨_, ⟨h2, _⟩ | ⟨_, hc⟩⟩
        · omega
        · rw [if_pos hc]; exact ⟨_, rfl⟩
    · rw [splitLeading_many x s0 tail sh hx h]
      constructor
      · rintro ⟨y, hy⟩; exact absurd hy (by simp)
      · rintro ⟨_, ⟨h2, _⟩ | ⟨h2, _⟩⟩ <;> omega
  · have hex : ∃ d ∈ sh, d < -1 := exists_lt_of_not_ge hge
    rw [splitLeading_invalid x s0 tail sh hx hex]
    constructor
    · rintro ⟨y, hy⟩; exact absurd hy (by simp)
    · rintro ⟨h1, _⟩; exact absurd h1 hge

/-- … **and otherwise raises a RuntimeError** -/
theorem splitLeading_error_iff (hx : x.shape = s0 :: tail) :
    splitLeading x sh = .error .runtime ↔ ¬ Accepts s0 tail sh := by
  rw [← splitLeading_ok_iff x s0 tail sh hx]
  cases h : splitLeading x sh with
  | error e => have := splitLeading_error_runtime x sh h; subst this; simp
  | ok y => simp

/-- the value on success: same data, shape `filled ++ tail` -/
theorem splitLeading_value (hx : x.shape = s0 :: tail) (y : T α) (h : splitLeading x sh = .ok y) :
    y = ⟨filled s0 sh ++ tail, x.data⟩ := by
  have hacc := (splitLeading_ok_iff x s0 tail sh hx).mp ⟨y, h⟩
  obtain ⟨hge, ⟨h0, h2⟩ | ⟨h1, hc⟩⟩ := hacc
  · rw [splitLeading_explicit x s0 tail sh hx h0 hge] at h
    split at h
    · injection h with h
      rw [← h, filled, map_toNat_eq_fillDim (s0 / explProd sh) sh (any_eq_neg1_false h0)]
    · exact absurd h (by simp)
  · rw [splitLeading_infer x s0 tail sh hx h1 hge, if_pos hc] at h
    injection h with h; exact h.symm

/-- product of the produced leading block -/
theorem prodL_filled (hacc : Accepts s0 tail sh) :
    prodL (filled s0 sh) = if negCount sh = 0 then explProd sh else s0 := by
  obtain ⟨hge, ⟨h0, h2⟩ | ⟨h1, _, hp, hd⟩⟩ := hacc
  · rw [if_pos h0, filled, prodL_map_fillDim]
    unfold negCount at h0; rw [h0]; simp [explProd]
  · rw [if_neg (by omega), filled, prodL_map_fillDim]
    unfold negCount at h1; rw [h1, pow_one]
    exact Nat.div_mul_cancel hd
end

/-! ## merge after split -/

theorem merge_ok' (x : T α) (k : ℕ) (hk1 : 0 < k) (hk : k ≤ x.shape.length) :
    mergeLeading x (.int k) = .ok ⟨prodL (x.shape.take k) :: x.shape.drop k, x.data⟩ := by
  have h1 : isPositiveInt (.int (k : Int)) = true := by simp [isPositiveInt, asInt]; omega
  have hk' : natOf (.int (k : Int)) = k := by simp [natOf, asInt]
  have hnot : ¬ (k > x.shape.length) := by omega
  have hnum : x.numel = prodL (prodL (x.shape.take k) :: x.shape.drop k) := by
    simp only [T.numel, prodL]; exact (prodL_take_drop x.shape k).symm
  simp only [mergeLeading, h1, hk', hnot, Bool.not_true, Bool.false_eq_true, if_false, reshape]
  rw [hnum, inferSize_exact]

/-- **split (explicit or with one `-1`) then merge, EVERY tensor `[s0] ++ tail` (zero sizes included), full statement.**
    Whenever the split returns `y`: the data is unchanged, `y.shape = s ++ tail` with `len s = len sh`, merging the
    `len sh` leading dimensions always succeeds with shape `[prod s] ++ tail`, and it gives back `x` itself IFF
    `prod s = shape[0]` IFF (the trailing block is non-empty OR the explicit split multiplies to `shape[0]`).
    The only way to miss is the zero-size trailing block with a wrong explicit split (which torch cannot reject). -/
theorem split_merge_id_infer (x y : T α) (s0 : ℕ) (tail : List ℕ) (sh : List Int) (hx : x.shape = s0 :: tail)
    (hsh : sh ≠ []) (h : splitLeading x sh = .ok y) :
    y.data = x.data ∧
    (∃ s : List ℕ, s.length = sh.length ∧ y.shape = s ++ tail ∧ prodL s * prodL tail = s0 * prodL tail ∧
      mergeLeading y (.int sh.length) = .ok ⟨prodL s :: tail, x.data⟩ ∧
      (mergeLeading y (.int sh.length) = .ok x ↔ prodL s = s0)) ∧
    (mergeLeading y (.int sh.length) = .ok x ↔ (0 < prodL tail ∨ explProd sh = s0)) := by
  have hacc := (splitLeading_ok_iff x s0 tail sh hx).mp ⟨y, h⟩
  have hy := splitLeading_value x s0 tail sh hx y h
  have hlen : 0 < sh.length := List.length_pos_of_ne_nil hsh
  have hm : mergeLeading y (.int sh.length) = .ok ⟨prodL (filled s0 sh) :: tail, x.data⟩ := by
    have := merge_ok' (⟨filled s0 sh ++ tail, x.data⟩ : T α) sh.length hlen (by simp [filled])
    rw [hy, this]
    have e1 : (filled s0 sh ++ tail).take sh.length = filled s0 sh := List.take_left' (filled_length s0 sh)
    have e2 : (filled s0 sh ++ tail).drop sh.length = tail := List.drop_left' (filled_length s0 sh)
    simp only [e1, e2]
  have hxe : x = ⟨s0 :: tail, x.data⟩ := by cases x; simp_all
  have hiff : mergeLeading y (.int sh.length) = .ok x ↔ prodL (filled s0 sh) = s0 := by
    rw [hm]
    constructor
    · intro heq
      have h2 : (⟨prodL (filled s0 sh) :: tail, x.data⟩ : T α) = x := by injection heq
      have h3 := congrArg T.shape h2
      rw [hx] at h3
      simp only [List.cons.injEq, and_true] at h3
      exact h3
    · intro heq; rw [heq, ← hxe]
  have hprod := prodL_filled s0 tail sh hacc
  refine ⟨by rw [hy], ⟨filled s0 sh, filled_length s0 sh, by rw [hy], ?_, hm, hiff⟩, ?_⟩
  · obtain ⟨_, ⟨h0, h2⟩ | ⟨h1, _⟩⟩ := hacc
    · rw [hprod, if_pos h0]
      rcases h2 with h2 | h2
      · simp [h2]
      · rw [h2]
    · rw [hprod, if_neg (by omega)]
  · rw [hiff, hprod]
    obtain ⟨_, ⟨h0, h2⟩ | ⟨h1, ht, _⟩⟩ := hacc
    · rw [if_pos h0]
      constructor
      · intro he; exact Or.inr he
      · rintro (ht | he)
        · rcases h2 with h2 | h2
          · omega
          · exact h2
        · exact he
    · rw [if_neg (by omega)]
      exact ⟨fun _ => Or.inl ht, fun _ => rfl⟩

/-- the `_partial` theorem of `Properties/C20` is the case `0 < prod tail` -/
theorem split_merge_id_infer_of_pos (x y : T α) (s0 : ℕ) (tail : List ℕ) (sh : List Int) (hx : x.shape = s0 :: tail)
    (hp : 0 < prodL tail) (hsh : sh ≠ []) (h : splitLeading x sh = .ok y) :
    y.data = x.data ∧ (∃ s : List ℕ, s.length = sh.length ∧ y.shape = s ++ tail ∧ prodL s = s0) ∧
      mergeLeading y (.int sh.length) = .ok x := by
  obtain ⟨hd, ⟨s, hl, hs, _, _, hiff⟩, hiff2⟩ := split_merge_id_infer x y s0 tail sh hx hsh h
  have hm := hiff2.mpr (Or.inl hp)
  exact ⟨hd, ⟨s, hl, hs, hiff.mp hm⟩, hm⟩

/-- zero-size trailing block: an inferred `-1` ALWAYS raises, for every `sh` containing a `-1` -/
theorem splitLeading_infer_empty (x : T α) (s0 : ℕ) (tail : List ℕ) (sh : List Int) (hx : x.shape = s0 :: tail)
    (ht : prodL tail = 0) (hneg : (-1 : Int) ∈ sh) : splitLeading x sh = .error .runtime := by
  rw [splitLeading_error_iff x s0 tail sh hx]
  rintro ⟨_, ⟨h0, _⟩ | ⟨_, hpos, _⟩⟩
  · have := any_eq_neg1_false h0
    rw [List.any_eq_false] at this
    exact this (-1) hneg (by simp)
  · omega

/-- zero-size trailing block: every explicit split (entries `≥ 0`) is accepted, right or wrong -/
theorem splitLeading_explicit_empty (x : T α) (s0 : ℕ) (tail : List ℕ) (s : List ℕ) (hx : x.shape = s0 :: tail)
    (ht : prodL tail = 0) : splitLeading x (s.map Int.ofNat) = .ok ⟨s ++ tail, x.data⟩ := by
  have h0 : negCount (s.map Int.ofNat) = 0 := by simp [negCount, filter_eq_neg1_ofNat]
  have hge : ∀ d ∈ s.map Int.ofNat, -1 ≤ d := by
    intro d hd; obtain ⟨b, _, rfl⟩ := List.mem_map.mp hd; simp only [Int.ofNat_eq_natCast]; omega
  rw [splitLeading_explicit x s0 tail _ hx h0 hge, if_pos (by simp [ht]), map_toNat_ofNat]

/-- concrete witnesses (the `[6, 0]` tensor of `Properties/C20.split_infer_empty_counterexample`): the inferred split
    raises, the wrong explicit split `[2, 2]` is accepted and merging it back gives shape `[4, 0] ≠ [6, 0]` -/
theorem empty_witness :
    splitLeading (⟨[6, 0], []⟩ : T Int) [-1, 3] = .error .runtime ∧
    splitLeading (⟨[6, 0], []⟩ : T Int) [2, 2] = .ok ⟨[2, 2, 0], []⟩ ∧
    mergeLeading (⟨[2, 2, 0], []⟩ : T Int) (.int 2) = .ok ⟨[4, 0], []⟩ ∧
    splitLeading (⟨[6, 0], []⟩ : T Int) [2, 3] = .ok ⟨[2, 3, 0], []⟩ ∧
    mergeLeading (⟨[2, 3, 0], []⟩ : T Int) (.int 2) = .ok ⟨[6, 0], []⟩ ∧
    splitLeading (⟨[6, 2], [1, 2, 3, 4, 5, 6, 7, 8, 9, 10, 11, 12]⟩ : T Int) [-1, 3] =
      .ok ⟨[2, 3, 2], [1, 2, 3, 4, 5, 6, 7, 8, 9, 10, 11, 12]⟩ := by decide

end NF.SplitInfer
