import NflowsModel.Core.Inventory
/-!
# Lemmas/InventoryReload — helper lemmas about the state-dict inventory model (C15)
-/
namespace Thin
namespace Inventory

theorem afterLoad_nil_left {V : Type} (saved fresh : List V) : afterLoad [] saved fresh = [] := by
  simp [afterLoad]

theorem afterLoad_cons {V : Type} (e : Entry) (inv : List Entry) (s f : V) (saved fresh : List V) :
    afterLoad (e :: inv) (s :: saved) (f :: fresh) = (if persisted e then s else f) :: afterLoad inv saved fresh := by
  simp [afterLoad]

theorem afterLoad_length {V : Type} (inv : List Entry) (saved fresh : List V)
    (h1 : saved.length = inv.length) (h2 : fresh.length = inv.length) :
    (afterLoad inv saved fresh).length = inv.length := by
  simp [afterLoad, h1, h2]

/-- pointwise description of `load_state_dict` in the model -/
theorem afterLoad_getElem? {V : Type} (inv : List Entry) (saved fresh : List V) (i : Nat) (e : Entry) (s f : V)
    (he : inv[i]? = some e) (hs : saved[i]? = some s) (hf : fresh[i]? = some f) :
    (afterLoad inv saved fresh)[i]? = some (if persisted e then s else f) := by
  induction inv generalizing saved fresh i with
  | nil => simp at he
  | cons e0 inv ih =>
    cases saved with
    | nil => simp at hs
    | cons s0 saved =>
      cases fresh with
      | nil => simp at hf
      | cons f0 fresh =>
        rw [afterLoad_cons]
        cases i with
        | zero =>
          simp only [List.getElem?_cons_zero, Option.some.injEq] at he hs hf ⊢
          subst he; subst hs; subst hf; rfl
        | succ j =>
          simp only [List.getElem?_cons_succ] at he hs hf ⊢
          exact ih saved fresh j he hs hf

/-- `Thin.Inventory.reload_sound` with the constructor hypothesis restricted to the entries that do NOT travel in the state
    dict: a persisted entry is overwritten by `load_state_dict`, so nothing has to be assumed about its value in the
    receiving instance (in particular it may have been trained away from its constructor value before saving) -/
theorem reload_sound_np {V : Type} (inv : List Entry) (saved fresh : List V)
    (hlen1 : saved.length = inv.length) (hlen2 : fresh.length = inv.length)
    (hsafe : reloadSafe inv = true)
    (hctor : ∀ i (h1 : i < inv.length), persisted inv[i] = false → (inv[i]).ctorDetermined = true →
      saved[i]'(hlen1 ▸ h1) = fresh[i]'(hlen2 ▸ h1)) :
    afterLoad inv saved fresh = saved := by
  apply List.ext_getElem
  · simp [afterLoad, hlen1, hlen2]
  · intro i h1 h2
    have hi : i < inv.length := by simpa [afterLoad, hlen1, hlen2] using h1
    simp only [afterLoad, List.getElem_map, List.getElem_zip]
    by_cases hp : persisted inv[i] = true
    · simp [hp]
    · have hall := List.all_eq_true.mp hsafe inv[i] (List.getElem_mem hi)
      have hpf : persisted inv[i] = false := by simpa using hp
      have hc : inv[i].ctorDetermined = true := by
        rw [hpf] at hall; simpa using hall
      simp only [hp]
      exact (hctor i hi hpf hc).symm

theorem reloadSafeU_spec (inv : List Entry) (used : List Bool) (h : reloadSafeU inv used = true)
    (i : Nat) (e : Entry) (he : inv[i]? = some e) (hu : used.getD i true = true) :
    persisted e = true ∨ e.ctorDetermined = true := by
  induction inv generalizing used i with
  | nil => simp at he
  | cons e0 inv ih =>
    cases used with
    | nil =>
      simp only [reloadSafeU, Bool.and_eq_true, Bool.or_eq_true] at h
      cases i with
      | zero => simp only [List.getElem?_cons_zero, Option.some.injEq] at he; subst he; exact h.1
      | succ j =>
        simp only [List.getElem?_cons_succ] at he
        exact ih [] h.2 j he (by simp)
    | cons u us =>
      simp only [reloadSafeU, Bool.and_eq_true, Bool.or_eq_true, Bool.not_eq_true'] at h
      cases i with
      | zero =>
        simp only [List.getElem?_cons_zero, Option.some.injEq] at he; subst he
        simp only [List.getD_cons_zero] at hu
        rcases h.1 with h1 | h1
        · rcases h1 with h1 | h1
          · rw [hu] at h1; exact Bool.noConfusion h1
          · exact Or.inl h1
        · exact Or.inr h1
      | succ j =>
        simp only [List.getElem?_cons_succ] at he
        simp only [List.getD_cons_succ] at hu
        exact ih us h.2 j he hu

theorem reloadSafeU_nil_used (inv : List Entry) : reloadSafeU inv [] = reloadSafe inv := by
  induction inv with
  | nil => simp [reloadSafeU, reloadSafe]
  | cons e inv ih =>
    simp only [reloadSafeU, ih, reloadSafe, List.all_cons]

/-- the checker is exact: a rejected inventory has a used entry that is neither persisted nor constructor-determined -/
theorem reloadSafeU_false (inv : List Entry) (used : List Bool) (h : reloadSafeU inv used = false) :
    ∃ i e, inv[i]? = some e ∧ used.getD i true = true ∧ persisted e = false ∧ e.ctorDetermined = false := by
  induction inv generalizing used with
  | nil => simp [reloadSafeU] at h
  | cons e0 inv ih =>
    cases used with
    | nil =>
      simp only [reloadSafeU] at h
      by_cases h0 : (persisted e0 || e0.ctorDetermined) = true
      · rw [h0, Bool.true_and] at h
        obtain ⟨i, e, he, hu, hp, hc⟩ := ih [] h
        exact ⟨i+1, e, by simpa using he, by simp, hp, hc⟩
      · simp only [Bool.or_eq_true, not_or, Bool.not_eq_true] at h0
        exact ⟨0, e0, by simp, by simp, h0.1, h0.2⟩
    | cons u us =>
      simp only [reloadSafeU] at h
      by_cases h0 : (!u || persisted e0 || e0.ctorDetermined) = true
      · rw [h0, Bool.true_and] at h
        obtain ⟨i, e, he, hu, hp, hc⟩ := ih us h
        exact ⟨i+1, e, by simpa using he, by simpa using hu, hp, hc⟩
      · simp only [Bool.or_eq_true, not_or, Bool.not_eq_true, Bool.not_eq_true'] at h0
        refine ⟨0, e0, by simp, ?_, h0.1.2, h0.2⟩
        have := h0.1.1
        simpa using this

theorem setAt_length {V : Type} (l : List V) (i : Nat) (v : V) : (setAt l i v).length = l.length := by
  induction l generalizing i with
  | nil => rfl
  | cons x r ih => cases i <;> simp [setAt, ih]

theorem setAt_getElem?_ne {V : Type} (l : List V) (i j : Nat) (v : V) (h : i ≠ j) : (setAt l i v)[j]? = l[j]? := by
  induction l generalizing i j with
  | nil => rfl
  | cons x r ih =>
    cases i with
    | zero =>
      cases j with
      | zero => exact absurd rfl h
      | succ j => simp [setAt]
    | succ i =>
      cases j with
      | zero => simp [setAt]
      | succ j =>
        simp only [setAt, List.getElem?_cons_succ]
        exact ih i j (fun e => h (by rw [e]))

theorem setAt_getElem?_eq {V : Type} (l : List V) (i : Nat) (v : V) (h : i < l.length) : (setAt l i v)[i]? = some v := by
  induction l generalizing i with
  | nil => simp at h
  | cons x r ih =>
    cases i with
    | zero => simp [setAt]
    | succ i =>
      simp only [setAt, List.getElem?_cons_succ]
      exact ih i (by simpa using h)

theorem applyHist_length {V : Type} (l : List V) (h : List (Nat × V)) : (applyHist l h).length = l.length := by
  induction h generalizing l with
  | nil => rfl
  | cons p r ih =>
    simp only [applyHist, List.foldl_cons] at ih ⊢
    rw [ih, setAt_length]

theorem applyHist_getElem?_untouched {V : Type} (l : List V) (h : List (Nat × V)) (j : Nat)
    (hj : ∀ p ∈ h, p.1 ≠ j) : (applyHist l h)[j]? = l[j]? := by
  induction h generalizing l with
  | nil => rfl
  | cons p r ih =>
    simp only [applyHist, List.foldl_cons] at ih ⊢
    rw [ih _ (fun q hq => hj q (List.mem_cons_of_mem _ hq))]
    exact setAt_getElem?_ne l p.1 j p.2 (hj p (List.mem_cons_self))

end Inventory
end Thin
