import NflowsModel.Lemmas.DualXSpline
import NflowsModel.Lemmas.RQInverseWhole
/-!
# Lemmas/DualXRQInv — the EXECUTED rational-quadratic spline, INVERSE direction, run on dual numbers (C16)

* `evalD_curve`: forward-mode AD over `Expr` terms is sound along ANY differentiable curve of environments (not only along
  straight lines as `DualSound.evalDual_sound`): this is what composing two executed `Expr` terms needs (the inverse
  log-det term is evaluated AT the dual root).
* `XHom.evalX`: evaluating an `Expr` commutes with every homomorphism of `XOps` (value projection / zero-tangent lift).
* `rqSpline_dual_inv`: `rqSpline (dualX (NF.realX e)) c uw' uh' ud' true (y, 1)` with zero-tangent parameters returns
  `((inv y, exp (invLd y)), (invLd y, l'))` for `y` strictly inside a y-bin, where `inv`, `invLd` are the two outputs of the
  real executed inverse program (`RQInverseWhole.inv`, `RQInverseWhole.invLd`), `exp (invLd y)` IS the derivative of `inv`
  at `y` (= 1 / forward derivative at `inv y`) and `l'` the derivative of `invLd`.
-/
set_option linter.unusedSimpArgs false
open NF DualSound Filter Topology

namespace DualX
noncomputable section

/-! ## forward-mode AD over `Expr` is sound along curves -/

/-- every environment entry is a differentiable curve with its (value, derivative) pair ⇒ the dual evaluation of the term
    is the (value, derivative) pair of the real evaluation along the curve -/
theorem evalD_curve (f : ℕ → ℝ → ℝ) (d : ℕ → ℝ × ℝ) (t : ℝ) (h : ∀ i, IsDual (f i) t (d i)) (E : Expr)
    (hs : Smooth (fun i => f i t) E) :
    IsDual (fun s => evalR (fun i => f i s) E) t (evalD d E) := by
  induction E with
  | var i => exact h i
  | lit n d' =>
    refine ⟨rfl, ?_⟩
    simp only [evalR_lit, evalD_lit]
    simpa using hasDerivAt_const t ((n:ℝ)/(d':ℝ))
  | add a b iha ihb =>
    obtain ⟨ha, hb⟩ := hs
    have va : (evalD d a).1 = evalR (fun i => f i t) a := (iha ha).1
    have vb : (evalD d b).1 = evalR (fun i => f i t) b := (ihb hb).1
    have da := (iha ha).2; have db := (ihb hb).2
    refine ⟨?_, ?_⟩
    · show (evalD d a).1 + (evalD d b).1 = evalR _ a + evalR _ b
      rw [va, vb]
    · exact da.add db
  | sub a b iha ihb =>
    obtain ⟨ha, hb⟩ := hs
    have va : (evalD d a).1 = evalR (fun i => f i t) a := (iha ha).1
    have vb : (evalD d b).1 = evalR (fun i => f i t) b := (ihb hb).1
    have da := (iha ha).2; have db := (ihb hb).2
    refine ⟨?_, ?_⟩
    · show (evalD d a).1 - (evalD d b).1 = evalR _ a - evalR _ b
      rw [va, vb]
    · exact da.sub db
  | mul a b iha ihb =>
    obtain ⟨ha, hb⟩ := hs
    have va : (evalD d a).1 = evalR (fun i => f i t) a := (iha ha).1
    have vb : (evalD d b).1 = evalR (fun i => f i t) b := (ihb hb).1
    have da := (iha ha).2; have db := (ihb hb).2
    refine ⟨?_, ?_⟩
    · show (evalD d a).1 * (evalD d b).1 = evalR _ a * evalR _ b
      rw [va, vb]
    · show HasDerivAt (fun s => evalR (fun i => f i s) a * evalR (fun i => f i s) b)
        ((evalD d a).2 * (evalD d b).1 + (evalD d a).1 * (evalD d b).2) t
      rw [va, vb]; exact da.mul db
  | div a b iha ihb =>
    obtain ⟨ha, hb, hne⟩ := hs
    have va : (evalD d a).1 = evalR (fun i => f i t) a := (iha ha).1
    have vb : (evalD d b).1 = evalR (fun i => f i t) b := (ihb hb).1
    have da := (iha ha).2; have db := (ihb hb).2
    refine ⟨?_, ?_⟩
    · show (evalD d a).1 / (evalD d b).1 = evalR _ a / evalR _ b
      rw [va, vb]
    · show HasDerivAt (fun s => evalR (fun i => f i s) a / evalR (fun i => f i s) b)
        (((evalD d a).2 * (evalD d b).1 - (evalD d a).1 * (evalD d b).2) / ((evalD d b).1 * (evalD d b).1)) t
      rw [va, vb]
      exact (da.div db hne).congr_deriv (by rw [sq])
  | neg a iha =>
    have va : (evalD d a).1 = evalR (fun i => f i t) a := (iha hs).1
    have da := (iha hs).2
    refine ⟨?_, ?_⟩
    · show -(evalD d a).1 = -evalR _ a
      rw [va]
    · exact da.neg
  | exp a iha =>
    have va : (evalD d a).1 = evalR (fun i => f i t) a := (iha hs).1
    have da := (iha hs).2
    refine ⟨?_, ?_⟩
    · show Real.exp (evalD d a).1 = Real.exp (evalR _ a)
      rw [va]
    · show HasDerivAt (fun s => Real.exp (evalR (fun i => f i s) a)) ((evalD d a).2 * Real.exp (evalD d a).1) t
      rw [va, mul_comm]; exact da.exp
  | log a iha =>
    obtain ⟨ha, hne⟩ := hs
    have va : (evalD d a).1 = evalR (fun i => f i t) a := (iha ha).1
    have da := (iha ha).2
    refine ⟨?_, ?_⟩
    · show Real.log (evalD d a).1 = Real.log (evalR _ a)
      rw [va]
    · show HasDerivAt (fun s => Real.log (evalR (fun i => f i s) a)) ((evalD d a).2 / (evalD d a).1) t
      rw [va]; exact da.log hne
  | sqrt a iha =>
    obtain ⟨ha, hne⟩ := hs
    have va : (evalD d a).1 = evalR (fun i => f i t) a := (iha ha).1
    have da := (iha ha).2
    refine ⟨?_, ?_⟩
    · show Real.sqrt (evalD d a).1 = Real.sqrt (evalR _ a)
      rw [va]
    · show HasDerivAt (fun s => Real.sqrt (evalR (fun i => f i s) a))
        ((evalD d a).2 / (((2:ℤ):ℝ)/((1:ℕ):ℝ) * Real.sqrt (evalD d a).1)) t
      rw [va]
      exact (da.sqrt hne).congr_deriv (by norm_num)
  | ifLt a b u v iha ihb ihu ihv =>
    obtain ⟨ha, hb, hne, hsu, hsv⟩ := hs
    have va : (evalD d a).1 = evalR (fun i => f i t) a := (iha ha).1
    have vb : (evalD d b).1 = evalR (fun i => f i t) b := (ihb hb).1
    have hca := (iha ha).2.continuousAt
    have hcb := (ihb hb).2.continuousAt
    rw [evalD_ifLt, va, vb]
    by_cases hlt : evalR (fun i => f i t) a < evalR (fun i => f i t) b
    · rw [if_pos hlt]
      refine (ihu (hsu hlt)).congr ?_
      have := (hca.prodMk hcb).eventually (isOpen_lt continuous_fst continuous_snd |>.mem_nhds hlt)
      filter_upwards [this] with s hs'
      rw [evalR_ifLt]; simp only [if_pos hs']
    · rw [if_neg hlt]
      refine (ihv (hsv hlt)).congr ?_
      have hgt : evalR (fun i => f i t) b < evalR (fun i => f i t) a := lt_of_le_of_ne (not_lt.mp hlt) (Ne.symm hne)
      have := (hcb.prodMk hca).eventually (isOpen_lt continuous_fst continuous_snd |>.mem_nhds hgt)
      filter_upwards [this] with s hs'
      rw [evalR_ifLt]; simp only [if_neg (not_lt.mpr hs'.le)]

/-- evaluating a term commutes with every homomorphism of `XOps` -/
theorem XHom.evalX {α β : Type} {o₁ : XOps α} {o₂ : XOps β} {φ : α → β} (h : XHom o₁ o₂ φ) (l : List α) (E : Expr) :
    φ (NF.evalX o₁ l E) = NF.evalX o₂ (l.map φ) E := by
  unfold NF.evalX
  induction E with
  | var i =>
    show φ (l.getD i o₁.zero) = (l.map φ).getD i o₂.zero
    rw [← h.zero]; simp only [List.getD_eq_getElem?_getD, List.getElem?_map]
    cases l[i]? <;> rfl
  | lit n d => exact h.ofRat n d
  | add a b iha ihb => exact (h.add _ _).trans (by rw [iha, ihb]; rfl)
  | sub a b iha ihb => exact (h.sub _ _).trans (by rw [iha, ihb]; rfl)
  | mul a b iha ihb => exact (h.mul _ _).trans (by rw [iha, ihb]; rfl)
  | div a b iha ihb => exact (h.div _ _).trans (by rw [iha, ihb]; rfl)
  | neg a iha => exact (h.neg _).trans (by rw [iha]; rfl)
  | exp a iha => exact (h.exp _).trans (by rw [iha]; rfl)
  | log a iha => exact (h.log _).trans (by rw [iha]; rfl)
  | sqrt a iha => exact (h.sqrt _).trans (by rw [iha]; rfl)
  | ifLt a b u v iha ihb ihu ihv =>
    refine (h.ite_lt _ _ _ _).trans ?_
    rw [iha, ihb, ihu, ihv]; rfl

variable (e : Float → ℝ)

/-- the dual evaluation of a term on a list environment is `DualSound.evalD` -/
theorem evalX_dual (l : List (ℝ × ℝ)) (E : Expr) :
    evalX (dualX (NF.realX e)) l E = evalD (envOf l (0, 0)) E := by
  unfold evalX
  rw [d_zero]
  rfl

/-! ## interior facts of the RQ inverse quadratic -/

/-- strictly inside the bin (`0 < Δ < h`) the discriminant is POSITIVE (so `sqrt` is differentiable there) and the
    denominator `-b - √disc` of the stable root is negative -/
theorem rq_inv_interior {s d0 d1 h Δ : ℝ} (hs : 0 < s) (hΔ0 : 0 < Δ) (hΔ1 : Δ < h) :
    0 < (RQ.qb s d0 d1 h Δ) ^ 2 - 4 * RQ.qa s d0 d1 h Δ * RQ.qc s Δ ∧
    - RQ.qb s d0 d1 h Δ - Real.sqrt ((RQ.qb s d0 d1 h Δ) ^ 2 - 4 * RQ.qa s d0 d1 h Δ * RQ.qc s Δ) < 0 := by
  set a := RQ.qa s d0 d1 h Δ with ha
  set b := RQ.qb s d0 d1 h Δ with hb
  set c := RQ.qc s Δ with hc
  have hc0 : c < 0 := by simp only [hc, RQ.qc]; nlinarith
  have hq1 : 0 < a + b + c := by
    have : a + b + c = s * (h - Δ) := by simp only [ha, hb, hc, RQ.qa, RQ.qb, RQ.qc]; ring
    rw [this]; exact mul_pos hs (by linarith)
  have hdisc : 0 < b ^ 2 - 4 * a * c := by
    nlinarith [sq_nonneg (b + 2 * c), mul_pos (neg_pos.mpr hc0) hq1]
  obtain ⟨_, hpos, _⟩ := stable_root (a := a) (b := b) (c := c) hc0.le hq1.le (fun h' => absurd h' hc0.ne)
  exact ⟨hdisc, by linarith⟩

/-- the denominator of the executed root term, as a real expression -/
theorem rqRootDen_eq (y xk w yk h d0 d1 : ℝ) :
    - (h * d0 - (y - yk) * (d0 + d1 - 2 * (h / w))) - Real.sqrt (evalR (Bridge.rqEnv y xk w yk h d0 d1) rqDiscE)
      = - RQ.qb (h / w) d0 d1 h (y - yk) - Real.sqrt ((RQ.qb (h / w) d0 d1 h (y - yk)) ^ 2
          - 4 * RQ.qa (h / w) d0 d1 h (y - yk) * RQ.qc (h / w) (y - yk)) := by
  rw [RQInverseWhole.rqDiscE_eq]
  simp only [RQ.qb]

/-- interior smoothness of the executed root term (positive discriminant, non-zero denominator) -/
theorem rqRoot_interior_smooth {y xk w yk h d0 d1 : ℝ} (hw : 0 < w) (hh : 0 < h)
    (hy0 : yk < y) (hy1 : y < yk + h) :
    Smooth (Bridge.rqEnv y xk w yk h d0 d1) rqRootE := by
  have hs : 0 < h / w := div_pos hh hw
  obtain ⟨hdisc, hden⟩ := rq_inv_interior (d0 := d0) (d1 := d1) hs (sub_pos.mpr hy0) (by linarith : y - yk < h)
  rw [← RQInverseWhole.rqDiscE_eq y xk w yk h d0 d1] at hdisc
  rw [← rqRootDen_eq y xk w yk h d0 d1] at hden
  have hD : Smooth (Bridge.rqEnv y xk w yk h d0 d1) rqDiscE := by
    simp only [rqDiscE, NF.v, Expr.add_def, Expr.sub_def, Expr.mul_def, Expr.div_def, Expr.ofNat_def, Smooth, evalR_var,
      Bridge.rqEnv2, true_and, and_true, ne_eq, hw.ne', not_false_eq_true, and_self]
  show Smooth _ (Expr.div _ (Expr.sub (Expr.neg _) (Expr.sqrt rqDiscE)))
  refine ⟨?_, ⟨?_, hD, hdisc.ne'⟩, ?_⟩
  · simp only [NF.v, Expr.add_def, Expr.sub_def, Expr.mul_def, Expr.div_def, Expr.ofNat_def, Smooth, evalR_var,
      Bridge.rqEnv2, true_and, and_true, ne_eq, hw.ne', not_false_eq_true, and_self]
  · simp only [NF.v, Expr.add_def, Expr.sub_def, Expr.mul_def, Expr.div_def, Expr.ofNat_def, Smooth, evalR_var,
      Bridge.rqEnv2, true_and, and_true, ne_eq, hw.ne', not_false_eq_true, and_self]
  · refine ne_of_eq_of_ne ?_ hden.ne
    simp only [NF.v, Expr.add_def, Expr.sub_def, Expr.mul_def, Expr.div_def, Expr.ofNat_def, evalR_sub, evalR_neg,
      evalR_sqrt, evalR_mul, evalR_add, evalR_div, evalR_var, evalR_lit, Bridge.rqEnv0, Bridge.rqEnv2, Bridge.rqEnv3,
      Bridge.rqEnv4, Bridge.rqEnv5, Bridge.rqEnv6]
    norm_num

/-- smoothness of the executed log-det-at-θ term for θ in the closed unit interval -/
theorem rqLdTheta_smooth {th xk w yk h d0 d1 : ℝ} (hw : 0 < w) (hh : 0 < h) (h0 : 0 < d0) (h1 : 0 < d1)
    (ht0 : 0 ≤ th) (ht1 : th ≤ 1) :
    Smooth (Bridge.rqEnv th xk w yk h d0 d1) rqLdThetaE := by
  have hs : 0 < h / w := div_pos hh hw
  have hden := (RQ.den_pos hs h0 h1 ht0 ht1).ne'
  have hdnum := (RQ.dnum_pos hs h0 h1 ht0 ht1).ne'
  have hden' : h / w + (d0 + d1 - 2 * (h / w)) * (th * (1 - th)) ≠ 0 := by simpa [RQ.den] using hden
  have hdnum' : h / w * (h / w) * (d1 * (th * th) + 2 * (h / w) * (th * (1 - th)) + d0 * ((1 - th) * (1 - th))) ≠ 0 := by
    have : RQ.dnum (h / w) d0 d1 th = h / w * (h / w) * (d1 * (th * th) + 2 * (h / w) * (th * (1 - th))
        + d0 * ((1 - th) * (1 - th))) := by unfold RQ.dnum; ring
    rw [← this]; exact hdnum
  simp only [rqLdThetaE, NF.v, Expr.add_def, Expr.sub_def, Expr.mul_def, Expr.div_def, Expr.ofNat_def, Smooth, evalR_div,
    evalR_var, evalR_add, evalR_sub, evalR_mul, evalR_lit, Bridge.rqEnv0, Bridge.rqEnv1, Bridge.rqEnv2,
    Bridge.rqEnv4, Bridge.rqEnv5, Bridge.rqEnv6, true_and, and_true]
  simp only [ne_eq, hw.ne', not_false_eq_true, and_self, true_and]
  norm_num
  exact ⟨⟨⟨hh.ne', hw.ne'⟩, (mul_ne_zero_iff.mp hdnum').2⟩, hden'⟩

/-! ## the whole executed inverse program -/

open RQWhole RQInverseWhole

variable {e}
variable {c : RQCfg} {uw uh ud : List ℝ}

/-- the dual environment of bin `k` (zero-tangent knots) with a dual number `z` in slot 0 -/
def envD (c : RQCfg) (uw uh ud : List ℝ) (k : ℕ) (z : ℝ × ℝ) : List (ℝ × ℝ) :=
  [z, ι (xs e c uw k), ι (xs e c uw (k + 1) - xs e c uw k), ι (ys e c uh k), ι (ys e c uh (k + 1) - ys e c uh k),
    ι (ds e c ud k), ι (ds e c ud (k + 1))]

theorem envD_fst (k : ℕ) (z : ℝ × ℝ) :
    envOf ((envD (e := e) c uw uh ud k z).map Prod.fst) 0 = env e c uw uh ud k z.1 := rfl

/-- the value component of a dual `Expr` evaluation on the bin environment is the real evaluation -/
theorem evalX_envD_fst (k : ℕ) (z : ℝ × ℝ) (E : Expr) :
    (evalX (dualX (NF.realX e)) (envD (e := e) c uw uh ud k z) E).1 = evalR (env e c uw uh ud k z.1) E := by
  rw [(fst_hom e).evalX, evalX_eq_evalR, envD_fst]

/-- **the dual inverse program selects the same y-bin, passes the discriminant assertion, and evaluates that bin's terms
    on dual numbers** — for every `y` in the domain, parameters entering with zero tangent -/
theorem rqSpline_dual_inv_exec (hv : RQValid e c uw uh ud) (y : ℝ) (hy0 : e c.box.bottom ≤ y) (hy1 : y ≤ e c.box.top) :
    rqSpline (dualX (NF.realX e)) c (uw.map ι) (uh.map ι) (ud.map ι) true (y, 1)
      = .ok ((dualX (NF.realX e)).add
               ((dualX (NF.realX e)).mul (evalX (dualX (NF.realX e)) (envD (e := e) c uw uh ud (idxI e c uh y) (y, 1)) rqRootE)
                 (ι (xs e c uw (idxI e c uh y + 1) - xs e c uw (idxI e c uh y))))
               (ι (xs e c uw (idxI e c uh y))),
             (dualX (NF.realX e)).neg (evalX (dualX (NF.realX e)) (envD (e := e) c uw uh ud (idxI e c uh y)
               (evalX (dualX (NF.realX e)) (envD (e := e) c uw uh ud (idxI e c uh y) (y, 1)) rqRootE)) rqLdThetaE)) := by
  obtain ⟨hspec, hsearch⟩ := RQInverseWhole.search_spec hv
  have hy0' : ys e c uh 0 ≤ y := by rw [ys_zero hv]; exact hy0
  have hy1' : y ≤ ys e c uh uw.length := by rw [ys_last hv]; exact hy1
  obtain ⟨hiK, _, _⟩ := hspec y hy0' hy1'
  have hdisc := disc_nonneg hv y hy0 hy1
  set i := idxI e c uh y with hi
  have hcwlen := (cw_facts hv).1
  have hchlen := (ch_facts hv).1
  have hL := lift_hom e
  have hg1 : ((dualX (NF.realX e)).lt (y, 1) ((dualX (NF.realX e)).ofFloat c.box.bottom)
      || (dualX (NF.realX e)).lt ((dualX (NF.realX e)).ofFloat c.box.top) (y, 1)) = false := by
    simp only [d_lt, d_ofFloat, Bool.or_eq_false_iff, decide_eq_false_iff_not, not_lt]
    exact ⟨hy0, hy1⟩
  have hwlen : (diffsG (NF.realX e) (cw e c uw)).length = uw.length := by rw [SplineTotal.diffsG_length, hcwlen]; omega
  have hhlen : (diffsG (NF.realX e) (ch e c uh)).length = uw.length := by rw [SplineTotal.diffsG_length, hchlen]; omega
  have hk1 : rqKnots (dualX (NF.realX e)) c.box.left c.box.right (flooredSoftmax (dualX (NF.realX e)) c.minW (uw.map ι))
      = ((cw e c uw).map ι, (diffsG (NF.realX e) (cw e c uw)).map ι) := by
    rw [← hL.flooredSoftmax, ← hL.rqKnots]; rfl
  have hk2 : rqKnots (dualX (NF.realX e)) c.box.bottom c.box.top (flooredSoftmax (dualX (NF.realX e)) c.minH (uh.map ι))
      = ((ch e c uh).map ι, (diffsG (NF.realX e) (ch e c uh)).map ι) := by
    rw [← hL.flooredSoftmax, ← hL.rqKnots]; rfl
  have hdl : (dv e c ud).length = uw.length + 1 := by simp [dv, hv.hlend]
  have hdv : (ud.map ι).map (fun u => (dualX (NF.realX e)).add ((dualX (NF.realX e)).ofFloat c.minD)
        ((dualX (NF.realX e)).softplusB ((dualX (NF.realX e)).ofFloat c.beta) u))
      = (dv e c ud).map ι := by
    unfold dv
    rw [List.map_map, List.map_map]
    apply List.map_congr_left
    intro u _
    simp only [Function.comp, hL.add, hL.softplusB, hL.ofFloat]
  have hs : searchsortedG (dualX (NF.realX e)) c.eps ((ch e c uh).map ι) (y, 1) = ((i : ℕ) : Int) := by
    rw [(fst_hom e).searchsortedG, List.map_map, fst_ι, List.map_id]
    exact hsearch y hy0 hy1
  have hi1 : ((i : Int) + 1) = ((i + 1 : ℕ) : Int) := by push_cast; rfl
  have hge : (dualX (NF.realX e)).ge (evalX (dualX (NF.realX e)) (envD (e := e) c uw uh ud i (y, 1)) rqDiscE)
      (dualX (NF.realX e)).zero = true := by
    simp only [XOps.ge, d_le, d_zero, decide_eq_true_eq]
    rw [evalX_envD_fst]
    exact hdisc
  unfold rqSpline
  simp only [if_true, Bool.false_eq_true, if_false, hg1, List.length_map, hv.hgW, hv.hgH, hk1, hk2, hs, hdv]
  rw [XHom.getI_ok (φ := ι) _ _ _ (SplineTotal.getI_ok (cw e c uw) i (by omega)),
    XHom.getI_ok (φ := ι) _ _ _ (SplineTotal.getI_ok _ i (by omega : i < (diffsG (NF.realX e) (cw e c uw)).length)),
    XHom.getI_ok (φ := ι) _ _ _ (SplineTotal.getI_ok (ch e c uh) i (by omega)),
    XHom.getI_ok (φ := ι) _ _ _ (SplineTotal.getI_ok _ i (by omega : i < (diffsG (NF.realX e) (ch e c uh)).length)),
    hi1, XHom.getI_ok (φ := ι) _ _ _ (SplineTotal.getI_ok _ i (by omega : i < (dv e c ud).length)),
    XHom.getI_ok (φ := ι) _ _ _ (SplineTotal.getI_ok _ (i + 1) (by omega : i + 1 < (dv e c ud).length))]
  simp only [getElem_eq_getD, diffsG_getD e (cw e c uw) i (by omega), diffsG_getD e (ch e c uh) i (by omega)]
  show (if (!(dualX (NF.realX e)).ge (evalX (dualX (NF.realX e)) (envD (e := e) c uw uh ud i (y, 1)) rqDiscE)
      (dualX (NF.realX e)).zero) = true then _ else _) = _
  rw [hge]
  rfl

/-- the curve of bin environments with a curve `g` in slot 0 and constant knots, entry by entry -/
theorem envD_isDual (k : ℕ) {g : ℝ → ℝ} {t : ℝ} {z : ℝ × ℝ} (hz : IsDual g t z) (i : ℕ) :
    IsDual (fun s => env e c uw uh ud k (g s) i) t (envOf (envD (e := e) c uw uh ud k z) (0, 0) i) := by
  rcases i with _|_|_|_|_|_|_|i
  · exact hz
  all_goals exact IsDual.const _ _

/-- inside an open y-bin the executed inverse search returns that bin -/
theorem idxI_of_open_bin (hv : RQValid e c uw uh ud) (k : ℕ) (hk : k < uw.length) (y : ℝ)
    (h0 : ys e c uh k < y) (h1 : y < ys e c uh (k+1)) :
    e c.box.bottom ≤ y ∧ y ≤ e c.box.top ∧ idxI e c uh y = k :=
  ⟨le_trans (knot_mem_y hv k hk.le).1 h0.le, le_trans h1.le (knot_mem_y hv (k+1) hk).2,
    idx_unique (ys e c uh) uw.length (idxI e c uh) (ys_strict hv) (RQInverseWhole.search_spec hv).1 k hk y h0.le (Or.inl h1)⟩

/-- per-bin soundness of the inverse terms: root, output, log-abs-det (the last one is the composition of two executed
    terms: `rqLdThetaE` evaluated AT the dual root) -/
theorem rqInv_bin_dual (hv : RQValid e c uw uh ud) (k : ℕ) (hk : k < uw.length) (y : ℝ)
    (h0 : ys e c uh k < y) (h1 : y < ys e c uh (k+1)) :
    IsDual (binInv e c uw uh ud k) y
      ((dualX (NF.realX e)).add
        ((dualX (NF.realX e)).mul (evalX (dualX (NF.realX e)) (envD (e := e) c uw uh ud k (y, 1)) rqRootE)
          (ι (xs e c uw (k + 1) - xs e c uw k))) (ι (xs e c uw k))) ∧
    IsDual (binInvLd e c uw uh ud k) y
      ((dualX (NF.realX e)).neg (evalX (dualX (NF.realX e)) (envD (e := e) c uw uh ud k
        (evalX (dualX (NF.realX e)) (envD (e := e) c uw uh ud k (y, 1)) rqRootE)) rqLdThetaE)) := by
  have hw : 0 < xs e c uw (k+1) - xs e c uw k := sub_pos.mpr (xs_strict hv k hk)
  have hh : 0 < ys e c uh (k+1) - ys e c uh k := sub_pos.mpr (ys_strict hv k hk)
  have hd0 := ds_pos hv k (by omega)
  have hd1 := ds_pos hv (k+1) (by omega)
  -- the root
  have hroot : IsDual (binRoot e c uw uh ud k) y
      (evalX (dualX (NF.realX e)) (envD (e := e) c uw uh ud k (y, 1)) rqRootE) := by
    rw [evalX_dual]
    exact evalD_curve _ _ y (envD_isDual k (IsDual.id y)) rqRootE
      (rqRoot_interior_smooth hw hh h0 (by linarith))
  obtain ⟨_, hr0, hr1, _⟩ := bin_facts hv k hk y h0.le h1.le
  refine ⟨?_, ?_⟩
  · exact IsDual.add e (IsDual.mul e hroot (IsDual.const _ y)) (IsDual.const _ y)
  · refine IsDual.neg e ?_
    rw [evalX_dual]
    exact evalD_curve _ _ y (envD_isDual k hroot) rqLdThetaE (rqLdTheta_smooth hw hh hd0 hd1 hr0 hr1)

/-- **the executed rational-quadratic spline on dual numbers, INVERSE direction**: for `y` strictly inside y-bin `k` the dual
    run with zero-tangent parameters returns `((inv y, exp (invLd y)), (invLd y, l'))` — the real outputs, with tangents the
    derivatives of the real inverse program's two outputs (`exp (invLd y)` is `d inv / dy`, `l'` is `d invLd / dy`) -/
theorem rqSpline_dual_inv (hv : RQValid e c uw uh ud) (k : ℕ) (hk : k < uw.length) (y : ℝ)
    (h0 : ys e c uh k < y) (h1 : y < ys e c uh (k+1)) :
    ∃ l' : ℝ, rqSpline (dualX (NF.realX e)) c (uw.map ι) (uh.map ι) (ud.map ι) true (y, 1)
        = .ok ((inv e c uw uh ud y, Real.exp (invLd e c uw uh ud y)), (invLd e c uw uh ud y, l')) ∧
      HasDerivAt (inv e c uw uh ud) (Real.exp (invLd e c uw uh ud y)) y ∧ HasDerivAt (invLd e c uw uh ud) l' y := by
  obtain ⟨hy0, hy1, hik⟩ := idxI_of_open_bin hv k hk y h0 h1
  obtain ⟨hO, hL⟩ := rqInv_bin_dual hv k hk y h0 h1
  have hexec := rqSpline_dual_inv_exec hv y hy0 hy1
  rw [hik] at hexec
  have hder := inv_hasDerivAt hv k hk y h0 h1
  -- near y the real program's outputs are bin k's terms
  have hevI : inv e c uw uh ud =ᶠ[𝓝 y] binInv e c uw uh ud k := by
    refine Filter.eventuallyEq_of_mem (Ioo_mem_nhds h0 h1) (fun z hz => ?_)
    obtain ⟨hz0, hz1, hzk⟩ := idxI_of_open_bin hv k hk z hz.1 hz.2
    show inv e c uw uh ud z = _
    rw [inv_eq hv z hz0 hz1, hzk]
  have hevL : invLd e c uw uh ud =ᶠ[𝓝 y] binInvLd e c uw uh ud k := by
    refine Filter.eventuallyEq_of_mem (Ioo_mem_nhds h0 h1) (fun z hz => ?_)
    obtain ⟨hz0, hz1, hzk⟩ := idxI_of_open_bin hv k hk z hz.1 hz.2
    show invLd e c uw uh ud z = _
    rw [invLd_eq hv z hz0 hz1, hzk]
  have hO' := hO.congr hevI.symm
  have hL' := hL.congr hevL.symm
  have huniq := hO'.2.unique hder
  refine ⟨_, ?_, hder, hL'.2⟩
  rw [hexec]
  congr 1
  refine Prod.ext (Prod.ext ?_ ?_) (Prod.ext ?_ rfl)
  · exact hO'.1
  · exact huniq
  · exact hL'.1

/-- the tangent returned by the dual inverse run is the reciprocal of the forward derivative at the returned point -/
theorem rqSpline_dual_inv_tangent (hv : RQValid e c uw uh ud) (y : ℝ) (hy0 : e c.box.bottom ≤ y) (hy1 : y ≤ e c.box.top) :
    Real.exp (invLd e c uw uh ud y) = 1 / Real.exp (ld e c uw uh ud (inv e c uw uh ud y)) := by
  rw [invLd_eq_neg_ld hv y hy0 hy1, Real.exp_neg, one_div]

/-- the same in the `DualRes` form of `Lemmas/DualXNonlin.lean`: the dual run is sound for the real program
    `s ↦ rqSpline (realX e) c uw uh ud true s` at `y` -/
theorem rqSpline_dualRes_inv (hv : RQValid e c uw uh ud) (k : ℕ) (hk : k < uw.length) (y : ℝ)
    (h0 : ys e c uh k < y) (h1 : y < ys e c uh (k+1)) :
    DualRes (fun s => rqSpline (NF.realX e) c uw uh ud true s) y
      (rqSpline (dualX (NF.realX e)) c (uw.map ι) (uh.map ι) (ud.map ι) true (y, 1)) := by
  obtain ⟨l', hr, hdv, hdl⟩ := rqSpline_dual_inv hv k hk y h0 h1
  obtain ⟨hy0, hy1, _⟩ := idxI_of_open_bin hv k hk y h0 h1
  exact ⟨_, _, hr, exec_ok hv y hy0 hy1, hdv, hdl⟩

private theorem bz' : ((0.0:Float) == 0.0) = true := by decide +kernel
private theorem bo' : ((1.0:Float) == 0.0) = false := by decide +kernel

/-- non-vacuity on the concrete accepted configuration of `RQWhole.valid_example` (one bin on the unit box) -/
theorem rqSpline_dual_inv_example (y : ℝ) (h0 : 0 < y) (h1 : y < 1) :
    ∃ l' : ℝ, rqSpline (dualX (NF.realX eNV)) cNV [ι 0] [ι 0] [ι 0, ι 0] true (y, 1)
        = .ok ((inv eNV cNV [0] [0] [0, 0] y, Real.exp (invLd eNV cNV [0] [0] [0, 0] y)),
            (invLd eNV cNV [0] [0] [0, 0] y, l')) ∧
      HasDerivAt (inv eNV cNV [0] [0] [0, 0]) (Real.exp (invLd eNV cNV [0] [0] [0, 0] y)) y := by
  have hv := valid_example
  have hy0 : ys eNV cNV [0] 0 = 0 := by
    rw [ys_zero hv]; simp [eNV, cNV, bz']
  have hy1 : ys eNV cNV [0] (0+1) = 1 := by
    have := ys_last hv
    simp only [List.length_singleton] at this
    rw [this]; simp [eNV, cNV, bo']
  obtain ⟨l', h, hd, -⟩ := rqSpline_dual_inv hv 0 (by simp) y (by rw [hy0]; exact h0) (by rw [hy1]; exact h1)
  exact ⟨l', h, hd⟩

end
end DualX
