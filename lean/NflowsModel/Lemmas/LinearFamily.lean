import Mathlib.LinearAlgebra.Matrix.Block
import Mathlib.LinearAlgebra.Matrix.NonsingularInverse
import Mathlib.LinearAlgebra.Matrix.DotProduct
import Mathlib.Analysis.SpecialFunctions.Log.Basic
import Mathlib.Analysis.SpecialFunctions.Exp
import Mathlib.Tactic
import NflowsModel.Lemmas.LU
import NflowsModel.Lemmas.Householder

/-!
# Linear transform family (nflows `orthogonal.py`, `qr.py`, `svd.py`, `lu.py`, `linear.py`)

The Python code applies Householder reflections to ROW vectors:
`x ← x − (x·q)(2/‖q‖²) q = x H_q` with `H_q = I − (2/(q·q)) q qᵀ` symmetric.
`forward` applies `q_1 … q_K` in order (`x ↦ x H_1 ⋯ H_K`), `inverse` applies them reversed,
`matrix()` = `inverse(identity)`.  In column convention `forward(x) = Q x` with
`Q = H_K ⋯ H_1 = (H_1 ⋯ H_K)ᵀ`.
-/

namespace LinearFamily

open Matrix

variable {n : Type} [Fintype n] [DecidableEq n]

/-! ### generic helpers -/

omit [DecidableEq n] in
/-- a matrix whose rows are `A i ᵥ* M` is `A * M` -/
theorem of_rows_vecMul (A M : Matrix n n ℝ) : Matrix.of (fun i => A i ᵥ* M) = A * M := by
  ext i j
  simp [Matrix.mul_apply, vecMul, dotProduct]

/-- `MᵀM = 1` forces `|det M| = 1` -/
theorem abs_det_eq_one_of_orth (M : Matrix n n ℝ) (h : Mᵀ * M = 1) : |M.det| = 1 := by
  have h1 : M.det * M.det = 1 := by
    have := congrArg Matrix.det h
    rwa [det_mul, det_transpose, det_one] at this
  have h2 : |M.det| * |M.det| = 1 := by rw [← abs_mul, h1, abs_one]
  nlinarith [abs_nonneg M.det]

/-! ### a single Householder reflection -/

noncomputable def hhMat (v : n → ℝ) : Matrix n n ℝ := 1 - (2 / (v ⬝ᵥ v)) • vecMulVec v v

theorem hhMat_transpose (v : n → ℝ) : (hhMat v)ᵀ = hhMat v := by
  unfold hhMat
  rw [transpose_sub, transpose_one, transpose_smul, transpose_vecMulVec]

theorem hhApply_eq_vecMul (v x : n → ℝ) : Householder.hhApply v x = x ᵥ* hhMat v := by
  unfold hhMat Householder.hhApply
  rw [Matrix.vecMul_sub, Matrix.vecMul_one, Matrix.vecMul_smul, Matrix.vecMul_vecMulVec, smul_smul,
    mul_comm]

theorem hhMat_mul_self (v : n → ℝ) (hv : v ⬝ᵥ v ≠ 0) : hhMat v * hhMat v = 1 := by
  rw [Matrix.ext_iff_vecMul]
  intro x
  rw [← Matrix.vecMul_vecMul, ← hhApply_eq_vecMul, ← hhApply_eq_vecMul,
    Householder.hhApply_involutive v x hv, Matrix.vecMul_one]

theorem householder_orthogonal (v : n → ℝ) (hv : v ⬝ᵥ v ≠ 0) : (hhMat v)ᵀ * hhMat v = 1 := by
  rw [hhMat_transpose, hhMat_mul_self v hv]

theorem hhMat_det_abs (v : n → ℝ) (hv : v ⬝ᵥ v ≠ 0) : |(hhMat v).det| = 1 :=
  abs_det_eq_one_of_orth _ (householder_orthogonal v hv)

/-! ### a sequence of reflections -/

/-- `H_1 * H_2 * ... * H_K` -/
noncomputable def seqMat (vs : List (n → ℝ)) : Matrix n n ℝ := (vs.map hhMat).prod

@[simp] theorem seqMat_nil : seqMat ([] : List (n → ℝ)) = 1 := by simp [seqMat]

@[simp] theorem seqMat_cons (v : n → ℝ) (vs : List (n → ℝ)) :
    seqMat (v :: vs) = hhMat v * seqMat vs := by simp [seqMat]

theorem seqMat_append (vs ws : List (n → ℝ)) : seqMat (vs ++ ws) = seqMat vs * seqMat ws := by
  simp [seqMat]

theorem hhSeq_eq_vecMul (vs : List (n → ℝ)) (x : n → ℝ) :
    Householder.hhSeq vs x = x ᵥ* seqMat vs := by
  induction vs generalizing x with
  | nil => simp [Householder.hhSeq]
  | cons v vs ih =>
    have e : Householder.hhSeq (v :: vs) x = Householder.hhSeq vs (Householder.hhApply v x) := rfl
    rw [e, ih, hhApply_eq_vecMul, seqMat_cons, Matrix.vecMul_vecMul]

theorem seqMat_reverse (vs : List (n → ℝ)) : seqMat vs.reverse = (seqMat vs)ᵀ := by
  induction vs with
  | nil => simp
  | cons v vs ih =>
    rw [List.reverse_cons, seqMat_append, ih, seqMat_cons, seqMat_cons, seqMat_nil, mul_one,
      transpose_mul, hhMat_transpose]

theorem seqMat_orthogonal (vs : List (n → ℝ)) (hv : ∀ v ∈ vs, v ⬝ᵥ v ≠ 0) :
    (seqMat vs)ᵀ * seqMat vs = 1 ∧ seqMat vs * (seqMat vs)ᵀ = 1 := by
  have key : (seqMat vs)ᵀ * seqMat vs = 1 := by
    induction vs with
    | nil => simp
    | cons v vs ih =>
      have h1 := ih (fun w hw => hv w (List.mem_cons_of_mem _ hw))
      have h2 := hhMat_mul_self v (hv v List.mem_cons_self)
      rw [seqMat_cons, transpose_mul, hhMat_transpose]
      calc (seqMat vs)ᵀ * hhMat v * (hhMat v * seqMat vs)
          = (seqMat vs)ᵀ * (hhMat v * hhMat v) * seqMat vs := by simp only [Matrix.mul_assoc]
        _ = 1 := by rw [h2, Matrix.mul_one, h1]
  exact ⟨key, mul_eq_one_comm.mp key⟩

theorem seqMat_det_abs (vs : List (n → ℝ)) (hv : ∀ v ∈ vs, v ⬝ᵥ v ≠ 0) :
    |(seqMat vs).det| = 1 :=
  abs_det_eq_one_of_orth _ (seqMat_orthogonal vs hv).1

/-- column-convention matrix of `forward` -/
noncomputable def Q (vs : List (n → ℝ)) : Matrix n n ℝ := (seqMat vs)ᵀ

theorem forward_eq_mulVec (vs : List (n → ℝ)) (x : n → ℝ) :
    Householder.hhSeq vs x = Q vs *ᵥ x := by
  rw [hhSeq_eq_vecMul, Q, Matrix.mulVec_transpose]

theorem inverse_eq_mulVec (vs : List (n → ℝ)) (x : n → ℝ) :
    Householder.hhSeq vs.reverse x = (Q vs)ᵀ *ᵥ x := by
  rw [hhSeq_eq_vecMul, seqMat_reverse, Q, transpose_transpose, Matrix.vecMul_transpose]

/-- rows `hhSeq vs (A i)` assemble to `A * seqMat vs` -/
theorem of_rows_hhSeq (vs : List (n → ℝ)) (A : Matrix n n ℝ) :
    Matrix.of (fun i => Householder.hhSeq vs (A i)) = A * seqMat vs := by
  simp only [hhSeq_eq_vecMul]
  exact of_rows_vecMul A (seqMat vs)

/-- `matrix()` = rows of `inverse(identity)` -/
theorem matrix_eq (vs : List (n → ℝ)) :
    Matrix.of (fun i => Householder.hhSeq vs.reverse ((1 : Matrix n n ℝ) i)) = Q vs := by
  rw [of_rows_hhSeq, seqMat_reverse, Matrix.one_mul, Q]

theorem Q_orthogonal (vs : List (n → ℝ)) (hv : ∀ v ∈ vs, v ⬝ᵥ v ≠ 0) :
    (Q vs)ᵀ * Q vs = 1 ∧ Q vs * (Q vs)ᵀ = 1 := by
  obtain ⟨h1, h2⟩ := seqMat_orthogonal vs hv
  unfold Q
  rw [transpose_transpose]
  exact ⟨h2, h1⟩

theorem Q_det_abs (vs : List (n → ℝ)) (hv : ∀ v ∈ vs, v ⬝ᵥ v ≠ 0) : |(Q vs).det| = 1 := by
  rw [Q, det_transpose]
  exact seqMat_det_abs vs hv

/-! ### QR (`qr.py`) -/

theorem qr_forward (vs : List (n → ℝ)) (R : Matrix n n ℝ) (b x : n → ℝ) :
    Householder.hhSeq vs (R *ᵥ x) + b = (Q vs * R) *ᵥ x + b := by
  rw [forward_eq_mulVec, Matrix.mulVec_mulVec]

theorem qr_weight (vs : List (n → ℝ)) (R : Matrix n n ℝ) :
    (Matrix.of (fun i => Householder.hhSeq vs (Rᵀ i)))ᵀ = Q vs * R := by
  rw [of_rows_hhSeq, transpose_mul, transpose_transpose, Q]

theorem qr_weight_inverse (vs : List (n → ℝ)) (hv : ∀ v ∈ vs, v ⬝ᵥ v ≠ 0)
    (R Rinv : Matrix n n ℝ) (h : Rinv * R = 1) :
    Matrix.of (fun i => Householder.hhSeq vs (Rinv i)) * (Q vs * R) = 1 := by
  rw [of_rows_hhSeq, Q]
  calc Rinv * seqMat vs * ((seqMat vs)ᵀ * R)
      = Rinv * (seqMat vs * (seqMat vs)ᵀ) * R := by simp only [Matrix.mul_assoc]
    _ = 1 := by rw [(seqMat_orthogonal vs hv).2, Matrix.mul_one, h]

theorem qr_inverse_pass (vs : List (n → ℝ)) (hv : ∀ v ∈ vs, v ⬝ᵥ v ≠ 0)
    (R Rinv : Matrix n n ℝ) (h : Rinv * R = 1) (b x : n → ℝ) :
    Rinv *ᵥ (Householder.hhSeq vs.reverse ((Householder.hhSeq vs (R *ᵥ x) + b) - b)) = x := by
  rw [add_sub_cancel_right, Householder.hhSeq_inverse vs hv, Matrix.mulVec_mulVec, h,
    Matrix.one_mulVec]

theorem mkUpper_det {m : ℕ} (up : Fin m → Fin m → ℝ) (d : Fin m → ℝ) :
    (LU.mkUpper up d).det = ∏ i, d i := by
  rw [det_of_isUpperTriangular (LU.mkUpper_upper up d)]
  simp [LU.mkUpper]

theorem qr_logabsdet {m : ℕ} (vs : List (Fin m → ℝ)) (hv : ∀ v ∈ vs, v ⬝ᵥ v ≠ 0)
    (up : Fin m → Fin m → ℝ) (ld : Fin m → ℝ) :
    ∑ i, ld i = Real.log |(Q vs * LU.mkUpper up (fun i => Real.exp (ld i))).det| := by
  rw [det_mul, abs_mul, Q_det_abs vs hv, one_mul, mkUpper_det,
    abs_of_pos (Finset.prod_pos (fun i _ => Real.exp_pos (ld i))),
    Real.log_prod (fun i _ => (Real.exp_pos (ld i)).ne')]
  simp [Real.log_exp]

theorem qr_isUnit {m : ℕ} (vs : List (Fin m → ℝ)) (hv : ∀ v ∈ vs, v ⬝ᵥ v ≠ 0)
    (up : Fin m → Fin m → ℝ) (ld : Fin m → ℝ) :
    IsUnit (Q vs * LU.mkUpper up (fun i => Real.exp (ld i))).det := by
  rw [isUnit_iff_ne_zero, det_mul, mkUpper_det]
  have hQ : (Q vs).det ≠ 0 := by
    intro h0
    have := Q_det_abs vs hv
    rw [h0, abs_zero] at this
    exact zero_ne_one this
  exact mul_ne_zero hQ (Finset.prod_pos (fun i _ => Real.exp_pos (ld i))).ne'

/-! ### SVD (`svd.py`) -/

theorem svd_forward (vs1 vs2 : List (n → ℝ)) (d b x : n → ℝ) :
    Householder.hhSeq vs1 (fun i => Householder.hhSeq vs2 x i * d i) + b
      = (Q vs1 * Matrix.diagonal d * Q vs2) *ᵥ x + b := by
  have e : (fun i => Householder.hhSeq vs2 x i * d i) = Matrix.diagonal d *ᵥ (Q vs2 *ᵥ x) := by
    funext i
    rw [Matrix.mulVec_diagonal, forward_eq_mulVec, mul_comm]
  rw [e, forward_eq_mulVec, Matrix.mulVec_mulVec, Matrix.mulVec_mulVec, Matrix.mul_assoc]

theorem svd_weight (vs1 vs2 : List (n → ℝ)) (d : n → ℝ) :
    (Matrix.of (fun i => Householder.hhSeq vs1
        ((Matrix.of (fun k => Householder.hhSeq vs2.reverse (Matrix.diagonal d k)))ᵀ i)))ᵀ
      = Q vs1 * Matrix.diagonal d * Q vs2 := by
  rw [of_rows_hhSeq, of_rows_hhSeq, seqMat_reverse, transpose_mul, transpose_transpose,
    Q, Q, Matrix.mul_assoc]

theorem svd_weight_inverse (vs1 vs2 : List (n → ℝ)) (hv1 : ∀ v ∈ vs1, v ⬝ᵥ v ≠ 0)
    (hv2 : ∀ v ∈ vs2, v ⬝ᵥ v ≠ 0) (d : n → ℝ) (hd : ∀ i, d i ≠ 0) :
    (Matrix.of (fun i => Householder.hhSeq vs2.reverse
        ((Matrix.of (fun k => Householder.hhSeq vs1 (Matrix.diagonal (fun j => (d j)⁻¹) k)))ᵀ i)))ᵀ
      * (Q vs1 * Matrix.diagonal d * Q vs2) = 1 := by
  rw [of_rows_hhSeq, of_rows_hhSeq, seqMat_reverse, transpose_mul, transpose_transpose,
    transpose_transpose, Q, Q]
  have hD : Matrix.diagonal (fun j => (d j)⁻¹) * Matrix.diagonal d = 1 := by
    rw [Matrix.diagonal_mul_diagonal, ← Matrix.diagonal_one]
    congr 1
    funext i
    exact inv_mul_cancel₀ (hd i)
  calc seqMat vs2 * (Matrix.diagonal (fun j => (d j)⁻¹) * seqMat vs1)
        * ((seqMat vs1)ᵀ * Matrix.diagonal d * (seqMat vs2)ᵀ)
      = seqMat vs2 * (Matrix.diagonal (fun j => (d j)⁻¹) * (seqMat vs1 * (seqMat vs1)ᵀ)
          * Matrix.diagonal d) * (seqMat vs2)ᵀ := by simp only [Matrix.mul_assoc]
    _ = 1 := by
      rw [(seqMat_orthogonal vs1 hv1).2, Matrix.mul_one, hD, Matrix.mul_one,
        (seqMat_orthogonal vs2 hv2).2]

theorem svd_inverse_pass (vs1 vs2 : List (n → ℝ)) (hv1 : ∀ v ∈ vs1, v ⬝ᵥ v ≠ 0)
    (hv2 : ∀ v ∈ vs2, v ⬝ᵥ v ≠ 0) (d b x : n → ℝ) (hd : ∀ i, d i ≠ 0) :
    Householder.hhSeq vs2.reverse (fun i => Householder.hhSeq vs1.reverse
      ((Householder.hhSeq vs1 (fun i => Householder.hhSeq vs2 x i * d i) + b) - b) i / d i) = x := by
  rw [add_sub_cancel_right, Householder.hhSeq_inverse vs1 hv1]
  have e : (fun i => Householder.hhSeq vs2 x i * d i / d i) = Householder.hhSeq vs2 x := by
    funext i
    exact mul_div_cancel_right₀ _ (hd i)
  rw [e, Householder.hhSeq_inverse vs2 hv2]

theorem svd_logabsdet (vs1 vs2 : List (n → ℝ)) (hv1 : ∀ v ∈ vs1, v ⬝ᵥ v ≠ 0)
    (hv2 : ∀ v ∈ vs2, v ⬝ᵥ v ≠ 0) (d : n → ℝ) (hd : ∀ i, 0 < d i) :
    ∑ i, Real.log (d i) = Real.log |(Q vs1 * Matrix.diagonal d * Q vs2).det| := by
  rw [det_mul, det_mul, abs_mul, abs_mul, Q_det_abs vs1 hv1, Q_det_abs vs2 hv2, one_mul, mul_one,
    det_diagonal, abs_of_pos (Finset.prod_pos (fun i _ => hd i)),
    Real.log_prod (fun i _ => (hd i).ne')]

/-! ### LU (`lu.py`) and naive (`linear.py`) -/

/-- `weight_inverse()` via the two triangular solves is the inverse of `W = L U` -/
theorem lu_weight_inverse {m : ℕ} (lo up : Fin m → Fin m → ℝ) (d : Fin m → ℝ)
    (hd : ∀ i, 0 < d i) (Linv Uinv : Matrix (Fin m) (Fin m) ℝ)
    (hL : LU.mkLower lo * Linv = 1) (hU : LU.mkUpper up d * Uinv = 1) :
    (Uinv * Linv) * (LU.mkLower lo * LU.mkUpper up d) = 1 ∧
      (LU.mkLower lo * LU.mkUpper up d) * (Uinv * Linv) = 1 := by
  have _ := hd
  have hL' : Linv * LU.mkLower lo = 1 := mul_eq_one_comm.mp hL
  have hU' : Uinv * LU.mkUpper up d = 1 := mul_eq_one_comm.mp hU
  constructor
  · calc Uinv * Linv * (LU.mkLower lo * LU.mkUpper up d)
        = Uinv * (Linv * LU.mkLower lo) * LU.mkUpper up d := by simp only [Matrix.mul_assoc]
      _ = 1 := by rw [hL', Matrix.mul_one, hU']
  · calc LU.mkLower lo * LU.mkUpper up d * (Uinv * Linv)
        = LU.mkLower lo * (LU.mkUpper up d * Uinv) * Linv := by simp only [Matrix.mul_assoc]
      _ = 1 := by rw [hU, Matrix.mul_one, hL]

theorem lu_inverse_unique {m : ℕ} (lo up : Fin m → Fin m → ℝ) (d : Fin m → ℝ)
    (hd : ∀ i, 0 < d i) (A : Matrix (Fin m) (Fin m) ℝ)
    (hA : (LU.mkLower lo * LU.mkUpper up d) * A = 1) :
    A = (LU.mkLower lo * LU.mkUpper up d)⁻¹ := by
  have _ := hd
  exact (Matrix.inv_eq_right_inv hA).symm

/-- Naive (specification level): any left inverse undoes forward -/
theorem naive_roundtrip (W Winv : Matrix n n ℝ) (h : Winv * W = 1) (b x : n → ℝ) :
    Winv *ᵥ ((W *ᵥ x + b) - b) = x := by
  rw [add_sub_cancel_right, Matrix.mulVec_mulVec, h, Matrix.one_mulVec]

/-! ### the hypotheses are satisfiable by non-trivial data -/

example : (![1, 2] : Fin 2 → ℝ) ⬝ᵥ ![1, 2] ≠ 0 := by
  simp [dotProduct, Fin.sum_univ_two]
  norm_num

example : ∀ v ∈ ([![1, 2], ![0, 3]] : List (Fin 2 → ℝ)), v ⬝ᵥ v ≠ 0 := by
  intro v hv
  simp only [List.mem_cons, List.not_mem_nil, or_false] at hv
  rcases hv with rfl | rfl <;> norm_num [dotProduct, Fin.sum_univ_two]

/-- a concrete orthogonal `Q` from two non-trivial reflections -/
example : |(Q ([![1, 2], ![0, 3]] : List (Fin 2 → ℝ))).det| = 1 := by
  apply Q_det_abs
  intro v hv
  simp only [List.mem_cons, List.not_mem_nil, or_false] at hv
  rcases hv with rfl | rfl <;> norm_num [dotProduct, Fin.sum_univ_two]

/-- the SVD diagonal hypothesis: `d = exp ∘ ld` is positive hence non-zero -/
example (ld : Fin 2 → ℝ) : ∀ i, 0 < (fun i => Real.exp (ld i)) i := fun _ => Real.exp_pos _

/-- LU hypotheses: the 2×2 unit-lower / positive-upper factors have explicit inverses -/
example : ∃ Linv Uinv : Matrix (Fin 2) (Fin 2) ℝ,
    LU.mkLower (fun _ _ => (3 : ℝ)) * Linv = 1 ∧
    LU.mkUpper (fun _ _ => (5 : ℝ)) (fun _ => 2) * Uinv = 1 := by
  refine ⟨!![1, 0; -3, 1], !![1/2, -5/4; 0, 1/2], ?_, ?_⟩
  · ext i j
    fin_cases i <;> fin_cases j <;> simp [LU.mkLower, Matrix.mul_apply, Fin.sum_univ_two]
  · ext i j
    fin_cases i <;> fin_cases j <;>
      (simp [LU.mkUpper, Matrix.mul_apply, Fin.sum_univ_two]; try norm_num)

/-- QR `Rinv * R = 1` hypothesis is satisfiable with a non-identity `R` -/
example : (!![1/2, -5/4; 0, 1/2] : Matrix (Fin 2) (Fin 2) ℝ) * !![2, 5; 0, 2] = 1 := by
  ext i j
  fin_cases i <;> fin_cases j <;> (simp [Matrix.mul_apply, Fin.sum_univ_two]; try norm_num)

end LinearFamily
