import NflowsModel.Lemmas.Glue
import Mathlib.Order.Monotone.Union
import Mathlib.Order.Interval.Set.Basic
import Mathlib.Data.Real.Basic
import Mathlib.Tactic

namespace SplineAssembly
open Glue


/-! Assembly of a K-bin spline from per-bin pieces (all four families): generic theorem.
    Uses B.10 (`glue_strictMonoOn`, `binSearch_spec`, `binIdx`), restated here as hypotheses-free imports in the real project. -/

/-- per-bin piece in the normalised coordinate: g k θ for θ ∈ [0,1] -/
structure Pieces (K : ℕ) where
  xs : ℕ → ℝ
  ys : ℕ → ℝ
  g : ℕ → ℝ → ℝ
  hx : ∀ k < K, xs k < xs (k+1)
  g0 : ∀ k < K, g k 0 = 0
  g1 : ∀ k < K, g k 1 = ys (k+1) - ys k
  gmono : ∀ k < K, StrictMonoOn (g k) (Set.Icc 0 1)

variable {K : ℕ}

/-- the formula of bin k (what the code evaluates after gathering bin k's parameters) -/
noncomputable def binF (P : Pieces K) (k : ℕ) (x : ℝ) : ℝ := P.ys k + P.g k ((x - P.xs k) / (P.xs (k+1) - P.xs k))

/-- the spline as coded: search the bin, evaluate its formula -/
noncomputable def spline (P : Pieces K) (eps x : ℝ) : ℝ := binF P (binIdx P.xs K eps x) x

theorem binF_strictMonoOn (P : Pieces K) (k : ℕ) (hk : k < K) :
    StrictMonoOn (binF P k) (Set.Icc (P.xs k) (P.xs (k+1))) := by
  intro a ha b hb hab
  have hw : 0 < P.xs (k+1) - P.xs k := sub_pos.mpr (P.hx k hk)
  have hθ : ∀ z ∈ Set.Icc (P.xs k) (P.xs (k+1)), (z - P.xs k) / (P.xs (k+1) - P.xs k) ∈ Set.Icc (0:ℝ) 1 := by
    intro z hz
    constructor
    · exact div_nonneg (sub_nonneg.mpr hz.1) hw.le
    · rw [div_le_one hw]; linarith [hz.2]
  have := P.gmono k hk (hθ a ha) (hθ b hb) (by
    apply div_lt_div_of_pos_right _ hw; linarith)
  simp only [binF]; linarith

theorem binF_left (P : Pieces K) (k : ℕ) (hk : k < K) : binF P k (P.xs k) = P.ys k := by
  simp [binF, P.g0 k hk]
theorem binF_right (P : Pieces K) (k : ℕ) (hk : k < K) : binF P k (P.xs (k+1)) = P.ys (k+1) := by
  have hw : P.xs (k+1) - P.xs k ≠ 0 := (sub_pos.mpr (P.hx k hk)).ne'
  simp [binF, div_self hw, P.g1 k hk]

/-- on each closed bin the searched spline coincides with that bin's formula (at the right knot by continuity) -/
theorem spline_eq_binF (P : Pieces K) (eps : ℝ) (hK : 0 < K) (heps : 0 < eps)
    (spec : ∀ x, P.xs 0 ≤ x → x ≤ P.xs K →
      let i := binIdx P.xs K eps x
      i < K ∧ P.xs i ≤ x ∧ (x < P.xs (i+1) ∨ (i + 1 = K ∧ x = P.xs K)))
    (hmono : ∀ j k, j ≤ k → k ≤ K → P.xs j ≤ P.xs k)
    (k : ℕ) (hk : k < K) (x : ℝ) (hx : x ∈ Set.Icc (P.xs k) (P.xs (k+1))) :
    spline P eps x = binF P k x := by
  have hlo : P.xs 0 ≤ x := le_trans (hmono 0 k (Nat.zero_le _) hk.le) hx.1
  have hhi : x ≤ P.xs K := le_trans hx.2 (hmono (k+1) K hk le_rfl)
  obtain ⟨hiK, hle, hr⟩ := spec x hlo hhi
  set i := binIdx P.xs K eps x with hi
  have hstrict : ∀ a b, a < b → b ≤ K → P.xs a < P.xs b := by
    intro a b hab hbK
    exact lt_of_lt_of_le (P.hx a (by omega)) (hmono (a+1) b hab hbK)
  -- i ≤ k+1 and i ≥ k (or x is the right knot)
  have h_ge : k ≤ i ∨ False := by
    left
    by_contra hlt
    have hlt' : i + 1 ≤ k := by omega
    rcases hr with hr | ⟨hiK', _⟩
    · have : P.xs (i+1) ≤ P.xs k := hmono (i+1) k hlt' hk.le
      linarith [hx.1]
    · omega
  have h_ge' : k ≤ i := h_ge.resolve_right id
  have h_le : i ≤ k + 1 := by
    by_contra hgt
    have : P.xs (k+1) < P.xs i := hstrict (k+1) i (by omega) hiK.le
    linarith [hx.2]
  simp only [spline, ← hi]
  rcases Nat.eq_or_lt_of_le h_ge' with heq | hlt
  · rw [← heq]
  · have hik : i = k + 1 := by omega
    have hxk : x = P.xs (k+1) := le_antisymm hx.2 (hik ▸ hle)
    rw [hik, hxk, binF_left P (k+1) (hik ▸ hiK), binF_right P k hk]

theorem xs_mono (P : Pieces K) : ∀ j k, j ≤ k → k ≤ K → P.xs j ≤ P.xs k := by
  intro j k hjk hkK
  induction k with
  | zero => have : j = 0 := by omega
            subst this; exact le_rfl
  | succ n ih =>
    rcases Nat.lt_or_ge j (n+1) with h | h
    · exact le_trans (ih (by omega) (by omega)) (P.hx n (by omega)).le
    · have : j = n+1 := by omega
      subst this; exact le_rfl

/-- C09 for any family: the searched K-bin spline is strictly increasing on the whole box and pins both end-points -/
theorem spline_strictMonoOn (P : Pieces K) (eps : ℝ) (hK : 0 < K) (heps : 0 < eps) :
    StrictMonoOn (spline P eps) (Set.Icc (P.xs 0) (P.xs K)) := by
  apply glue_strictMonoOn (spline P eps) P.xs K P.hx
  intro k hk
  have heq : Set.EqOn (spline P eps) (binF P k) (Set.Icc (P.xs k) (P.xs (k+1))) := fun x hx =>
    spline_eq_binF P eps hK heps (fun x hlo hhi => binSearch_spec P.xs K eps x hK heps P.hx hlo hhi) (xs_mono P) k hk x hx
  exact (binF_strictMonoOn P k hk).congr heq.symm

theorem spline_left (P : Pieces K) (eps : ℝ) (hK : 0 < K) (heps : 0 < eps) : spline P eps (P.xs 0) = P.ys 0 := by
  have := spline_eq_binF P eps hK heps (fun x hlo hhi => binSearch_spec P.xs K eps x hK heps P.hx hlo hhi) (xs_mono P) 0 hK
    (P.xs 0) ⟨le_rfl, (P.hx 0 hK).le⟩
  rw [this, binF_left P 0 hK]

theorem spline_right (P : Pieces K) (eps : ℝ) (hK : 0 < K) (heps : 0 < eps) : spline P eps (P.xs K) = P.ys K := by
  have hk : K - 1 < K := by omega
  have hK1 : K - 1 + 1 = K := by omega
  have := spline_eq_binF P eps hK heps (fun x hlo hhi => binSearch_spec P.xs K eps x hK heps P.hx hlo hhi) (xs_mono P) (K-1) hk
    (P.xs K) ⟨xs_mono P (K-1) K (by omega) le_rfl, by rw [hK1]⟩
  rw [this]
  have := binF_right P (K-1) hk
  rw [hK1] at this; exact this


end SplineAssembly
