import NflowsModel.Core.LinearFamily
import NflowsModel.Lemmas.DualSound
import NflowsModel.Lemmas.LU
import Mathlib.Tactic

/-!
# Lemmas/LFIndex — index order, scatter lookup and LU assembly of `Core/LinearFamily`

Bridges the executable list model (`NF.LF.luLower`, `NF.LF.mkUpper`, `NF.LF.posDiag`) to the matrix-level
statements of `Lemmas/LU` (`LU.mkLower`, `LU.mkUpper`).
-/

namespace LFIndex
open NF.LF

variable {α : Type}

/-! ## 1. `tab2` -/

theorem tab2_length (n : Nat) (f : Nat → Nat → α) : (tab2 n f).length = n := by
  simp [tab2]

theorem tab2_row_length (n : Nat) (f : Nat → Nat → α) : ∀ r ∈ tab2 n f, r.length = n := by
  intro r hr
  simp only [tab2, List.mem_map, List.mem_range] at hr
  obtain ⟨i, _, rfl⟩ := hr
  simp

theorem entry_tab2 (o : Ops α) (n : Nat) (f : Nat → Nat → α) {i j : Nat} (hi : i < n) (hj : j < n) :
    entry o (tab2 n f) i j = f i j := by
  simp [entry, tab2, List.getD_eq_getElem?_getD, hi, hj]

/-! ## 2. index lists -/

theorem mem_trilIndices {n i j : Nat} : (i, j) ∈ trilIndices n ↔ j < i ∧ i < n := by
  simp only [trilIndices, List.mem_flatMap, List.mem_range, List.mem_map, Prod.mk.injEq]
  constructor
  · rintro ⟨a, ha, b, hb, rfl, rfl⟩; exact ⟨hb, ha⟩
  · rintro ⟨h1, h2⟩; exact ⟨i, h2, j, h1, rfl, rfl⟩

theorem mem_triuIndices {n i j : Nat} : (i, j) ∈ triuIndices n ↔ i < j ∧ j < n := by
  simp only [triuIndices, List.mem_flatMap, List.mem_range, List.mem_map, List.mem_filter,
    decide_eq_true_eq, Prod.mk.injEq]
  constructor
  · rintro ⟨a, _, b, ⟨hb, hab⟩, rfl, rfl⟩; exact ⟨hab, hb⟩
  · rintro ⟨h1, h2⟩; exact ⟨i, lt_trans h1 h2, j, ⟨h2, h1⟩, rfl, rfl⟩

theorem trilIndices_sorted (n : Nat) :
    (trilIndices n).Pairwise (fun p q => p.1 < q.1 ∨ (p.1 = q.1 ∧ p.2 < q.2)) := by
  unfold trilIndices
  rw [List.pairwise_flatMap]
  refine ⟨fun i _ => ?_, ?_⟩
  · rw [List.pairwise_map]
    exact (List.pairwise_lt_range (n := i)).imp (fun h => Or.inr ⟨rfl, h⟩)
  · refine (List.pairwise_lt_range (n := n)).imp ?_
    intro a b hab x hx y hy
    simp only [List.mem_map, List.mem_range] at hx hy
    obtain ⟨_, _, rfl⟩ := hx
    obtain ⟨_, _, rfl⟩ := hy
    exact Or.inl hab

theorem triuIndices_sorted (n : Nat) :
    (triuIndices n).Pairwise (fun p q => p.1 < q.1 ∨ (p.1 = q.1 ∧ p.2 < q.2)) := by
  unfold triuIndices
  rw [List.pairwise_flatMap]
  refine ⟨fun i _ => ?_, ?_⟩
  · rw [List.pairwise_map]
    exact ((List.pairwise_lt_range (n := n)).filter _).imp (fun h => Or.inr ⟨rfl, h⟩)
  · refine (List.pairwise_lt_range (n := n)).imp ?_
    intro a b hab x hx y hy
    simp only [List.mem_map] at hx hy
    obtain ⟨_, _, rfl⟩ := hx
    obtain ⟨_, _, rfl⟩ := hy
    exact Or.inl hab

private theorem nodup_of_lex {l : List (Nat × Nat)}
    (h : l.Pairwise (fun p q => p.1 < q.1 ∨ (p.1 = q.1 ∧ p.2 < q.2))) : l.Nodup := by
  refine h.imp ?_
  rintro p q hpq rfl
  rcases hpq with h | ⟨_, h⟩ <;> exact lt_irrefl _ h

theorem trilIndices_nodup (n : Nat) : (trilIndices n).Nodup := nodup_of_lex (trilIndices_sorted n)
theorem triuIndices_nodup (n : Nat) : (triuIndices n).Nodup := nodup_of_lex (triuIndices_sorted n)

theorem trilIndices_succ (n : Nat) :
    trilIndices (n + 1) = trilIndices n ++ (List.range n).map (fun j => (n, j)) := by
  simp [trilIndices, List.range_succ, List.flatMap_append]

theorem trilIndices_length_two_mul (n : Nat) : 2 * (trilIndices n).length = n * (n - 1) := by
  induction n with
  | zero => simp [trilIndices]
  | succ m ih =>
    rw [trilIndices_succ, List.length_append, List.length_map, List.length_range, Nat.mul_add, ih]
    cases m with
    | zero => rfl
    | succ k => simp only [Nat.add_sub_cancel]; ring

theorem trilIndices_length (n : Nat) : (trilIndices n).length = n * (n - 1) / 2 := by
  rw [← trilIndices_length_two_mul]; omega

theorem triuIndices_length_eq (n : Nat) : (triuIndices n).length = (trilIndices n).length := by
  rw [← List.toFinset_card_of_nodup (triuIndices_nodup n), ← List.toFinset_card_of_nodup (trilIndices_nodup n)]
  have : (triuIndices n).toFinset = (trilIndices n).toFinset.image Prod.swap := by
    ext ⟨i, j⟩
    simp only [List.mem_toFinset, Finset.mem_image, Prod.exists, Prod.swap_prod_mk, Prod.mk.injEq]
    constructor
    · intro h
      exact ⟨j, i, mem_trilIndices.mpr (mem_triuIndices.mp h), rfl, rfl⟩
    · rintro ⟨a, b, h, rfl, rfl⟩
      exact mem_triuIndices.mpr (mem_trilIndices.mp h)
  rw [this, Finset.card_image_of_injective _ Prod.swap_injective]

theorem triuIndices_length (n : Nat) : (triuIndices n).length = n * (n - 1) / 2 := by
  rw [triuIndices_length_eq, trilIndices_length]

/-! ## 3. scatter lookup -/

theorem lookupIdx_getElem (idx : List (Nat × Nat)) (vals : List α) (hnd : idx.Nodup) (k : Nat)
    (hk : k < idx.length) (hv : k < vals.length) :
    lookupIdx idx vals (idx[k]).1 (idx[k]).2 = some vals[k] := by
  induction idx generalizing vals k with
  | nil => simp at hk
  | cons a t ih =>
    cases vals with
    | nil => simp at hv
    | cons v vs =>
      cases k with
      | zero => simp [lookupIdx]
      | succ k =>
        have hk' : k < t.length := by simpa using hk
        have hv' : k < vs.length := by simpa using hv
        have hnd' := List.nodup_cons.mp hnd
        have hne : a ≠ t[k] := fun h => hnd'.1 (h ▸ List.getElem_mem hk')
        have := ih vs hnd'.2 k hk' hv'
        simp only [lookupIdx, List.getElem_cons_succ, Prod.mk.eta] at this ⊢
        rw [List.zip_cons_cons, List.find?_cons_of_neg]
        · exact this
        · simpa using hne

theorem lookupIdx_none (idx : List (Nat × Nat)) (vals : List α) {i j : Nat} (h : (i, j) ∉ idx) :
    lookupIdx idx vals i j = none := by
  simp only [lookupIdx, Option.map_eq_none_iff, List.find?_eq_none]
  intro p hp
  have := (List.of_mem_zip (a := p.1) (b := p.2) hp).1
  intro hpe
  have : p.1 = (i, j) := by simpa using hpe
  simp_all

/-! ## 4. LU assembly -/

theorem luLower_entry (o : Ops α) (n : Nat) (lo : List α) (k : Nat) (hk : k < (trilIndices n).length)
    (hv : k < lo.length) :
    entry o (luLower o n lo) ((trilIndices n)[k]).1 ((trilIndices n)[k]).2 = lo[k] := by
  have hmem : (((trilIndices n)[k]).1, ((trilIndices n)[k]).2) ∈ trilIndices n := List.getElem_mem hk
  obtain ⟨h1, h2⟩ := mem_trilIndices.mp hmem
  rw [luLower, entry_tab2 o n _ h2 (lt_trans h1 h2), if_neg (Nat.ne_of_gt h1),
    lookupIdx_getElem _ _ (trilIndices_nodup n) k hk hv]
  rfl

theorem luLower_diag (o : Ops α) (n : Nat) (lo : List α) {i : Nat} (hi : i < n) :
    entry o (luLower o n lo) i i = one o := by
  rw [luLower, entry_tab2 o n _ hi hi, if_pos rfl]

theorem luLower_upper_zero (o : Ops α) (n : Nat) (lo : List α) {i j : Nat} (hij : i < j) (hj : j < n) :
    entry o (luLower o n lo) i j = zero o := by
  rw [luLower, entry_tab2 o n _ (lt_trans hij hj) hj, if_neg (Nat.ne_of_lt hij), lookupIdx_none]
  · rfl
  · intro h; have := (mem_trilIndices.mp h).1; omega

theorem mkUpper_entry (o : Ops α) (n : Nat) (up d : List α) (k : Nat) (hk : k < (triuIndices n).length)
    (hv : k < up.length) :
    entry o (mkUpper o n up d) ((triuIndices n)[k]).1 ((triuIndices n)[k]).2 = up[k] := by
  have hmem : (((triuIndices n)[k]).1, ((triuIndices n)[k]).2) ∈ triuIndices n := List.getElem_mem hk
  obtain ⟨h1, h2⟩ := mem_triuIndices.mp hmem
  rw [mkUpper, entry_tab2 o n _ (lt_trans h1 h2) h2, if_neg (Nat.ne_of_lt h1),
    lookupIdx_getElem _ _ (triuIndices_nodup n) k hk hv]
  rfl

theorem mkUpper_diag (o : Ops α) (n : Nat) (up d : List α) {i : Nat} (hi : i < n) :
    entry o (mkUpper o n up d) i i = d.getD i (zero o) := by
  rw [mkUpper, entry_tab2 o n _ hi hi, if_pos rfl]

theorem mkUpper_lower_zero (o : Ops α) (n : Nat) (up d : List α) {i j : Nat} (hji : j < i) (hi : i < n) :
    entry o (mkUpper o n up d) i j = zero o := by
  rw [mkUpper, entry_tab2 o n _ hi (lt_trans hji hi), if_neg (Nat.ne_of_gt hji), lookupIdx_none]
  · rfl
  · intro h; have := (mem_triuIndices.mp h).1; omega

/-! ## 5. real bridge -/

open DualSound

@[simp] theorem zero_real : zero realOps = 0 := by simp [NF.LF.zero, realOps]
@[simp] theorem one_real : one realOps = 1 := by simp [NF.LF.one, realOps]

noncomputable def toMat (n : Nat) (M : List (List ℝ)) : Matrix (Fin n) (Fin n) ℝ :=
  fun i j => entry realOps M i j

theorem toMat_luLower (n : Nat) (lo : List ℝ) :
    toMat n (luLower realOps n lo) =
      LU.mkLower (fun i j => (lookupIdx (trilIndices n) lo i j).getD 0) := by
  ext i j
  rcases lt_trichotomy (i : Nat) (j : Nat) with h | h | h
  · have h1 : ¬ (j < i) := fun hh => absurd (show (j : Nat) < i from hh) (by omega)
    have h2 : i ≠ j := by intro e; rw [e] at h; exact lt_irrefl _ h
    simp only [toMat, LU.mkLower, if_neg h1, if_neg h2]
    rw [luLower_upper_zero realOps n lo h j.isLt, zero_real]
  · have h' : i = j := Fin.ext h
    subst h'
    simp only [toMat, LU.mkLower, lt_irrefl, if_false, if_true]
    rw [luLower_diag realOps n lo i.isLt, one_real]
  · have h1 : j < i := h
    have h2 : (i : Nat) ≠ j := Nat.ne_of_gt h
    simp only [toMat, LU.mkLower, if_pos h1]
    rw [luLower, entry_tab2 realOps n _ i.isLt j.isLt, if_neg h2, zero_real]

theorem toMat_mkUpper (n : Nat) (up d : List ℝ) :
    toMat n (mkUpper realOps n up d) =
      LU.mkUpper (fun i j => (lookupIdx (triuIndices n) up i j).getD 0) (fun i => d.getD i 0) := by
  ext i j
  rcases lt_trichotomy (i : Nat) (j : Nat) with h | h | h
  · have h1 : i < j := h
    have h2 : (i : Nat) ≠ j := Nat.ne_of_lt h
    simp only [toMat, LU.mkUpper, if_pos h1]
    rw [mkUpper, entry_tab2 realOps n _ i.isLt j.isLt, if_neg h2, zero_real]
  · have h' : i = j := Fin.ext h
    subst h'
    simp only [toMat, LU.mkUpper, lt_irrefl, if_false, if_true]
    rw [mkUpper_diag realOps n up d i.isLt, zero_real]
  · have h1 : ¬ (i < j) := fun hh => absurd (show (i : Nat) < j from hh) (by omega)
    have h2 : i ≠ j := by intro e; rw [e] at h; exact lt_irrefl _ h
    simp only [toMat, LU.mkUpper, if_neg h1, if_neg h2]
    rw [mkUpper_lower_zero realOps n up d h i.isLt, zero_real]

/-! ## 6. positive diagonal over ℝ -/

theorem realOps_add (a b : ℝ) : realOps.add a b = a + b := rfl
theorem realOps_sub (a b : ℝ) : realOps.sub a b = a - b := rfl
theorem realOps_mul (a b : ℝ) : realOps.mul a b = a * b := rfl
theorem realOps_div (a b : ℝ) : realOps.div a b = a / b := rfl
theorem realOps_exp (a : ℝ) : realOps.exp a = Real.exp a := rfl
theorem realOps_log (a : ℝ) : realOps.log a = Real.log a := rfl
theorem realOps_ofRat (n : Int) (d : Nat) : realOps.ofRat n d = (n : ℝ) / (d : ℝ) := rfl

theorem softplus_real (x : ℝ) :
    softplus realOps x = if 20 < x then x else Real.log (1 + Real.exp x) := by
  have he : 0 < Real.exp x := Real.exp_pos x
  unfold softplus
  simp only [one_real, realOps_add, realOps_sub, realOps_mul, realOps_div, realOps_exp, realOps_log,
    realOps_ofRat, realOps_lt]
  have h20 : ((20 : ℤ) : ℝ) / ((1 : ℕ) : ℝ) = 20 := by norm_num
  rw [h20]
  by_cases hx : 20 < x
  · simp [hx]
  · have hu : (1 : ℝ) < 1 + Real.exp x := by linarith
    simp only [hx, decide_false, Bool.false_eq_true, if_false, hu, decide_true, Bool.or_true, if_true]
    rw [add_sub_cancel_left, mul_div_assoc, div_self he.ne', mul_one]

theorem softplus_real_pos (x : ℝ) : 0 < softplus realOps x := by
  rw [softplus_real]
  split_ifs with h
  · linarith
  · exact Real.log_pos (by linarith [Real.exp_pos x])

theorem posDiag_pos (eps : ℝ) (heps : 0 ≤ eps) (u : List ℝ) : ∀ d ∈ posDiag realOps eps u, 0 < d := by
  intro d hd
  simp only [posDiag, List.mem_map] at hd
  obtain ⟨x, _, rfl⟩ := hd
  rw [realOps_add]
  linarith [softplus_real_pos x]

theorem posDiag_length (o : Ops α) (eps : α) (u : List α) : (posDiag o eps u).length = u.length := by
  simp [posDiag]

theorem posDiag_getD_pos (eps : ℝ) (heps : 0 ≤ eps) (u : List ℝ) {i : Nat} (hi : i < u.length) :
    0 < (posDiag realOps eps u).getD i 0 := by
  have hi' : i < (posDiag realOps eps u).length := by rw [posDiag_length]; exact hi
  rw [List.getD_eq_getElem?_getD, List.getElem?_eq_getElem hi', Option.getD_some]
  exact posDiag_pos eps heps u _ (List.getElem_mem hi')

/-- general form: the `identity_init` constant gives a unit diagonal whenever `-19 ≤ eps < 1` -/
theorem identity_init_diag' (eps : ℝ) (hlo : -19 ≤ eps) (heps : eps < 1) :
    softplus realOps (Real.log (Real.exp (1 - eps) - 1)) + eps = 1 := by
  have h1 : 1 < Real.exp (1 - eps) := by
    have := Real.add_one_lt_exp (x := 1 - eps) (by linarith)
    linarith
  have hpos : 0 < Real.exp (1 - eps) - 1 := by linarith
  have hle : Real.log (Real.exp (1 - eps) - 1) ≤ 1 - eps := by
    calc Real.log (Real.exp (1 - eps) - 1) ≤ Real.log (Real.exp (1 - eps)) :=
          Real.log_le_log hpos (by linarith)
      _ = 1 - eps := Real.log_exp _
  have hn : ¬ 20 < Real.log (Real.exp (1 - eps) - 1) := by linarith
  rw [softplus_real, if_neg hn, Real.exp_log hpos, add_sub_cancel, Real.log_exp]
  ring

theorem identity_init_diag (eps : ℝ) (heps0 : 0 ≤ eps) (heps : eps < 1) :
    softplus realOps (Real.log (Real.exp (1 - eps) - 1)) + eps = 1 :=
  identity_init_diag' eps (by linarith) heps

end LFIndex
