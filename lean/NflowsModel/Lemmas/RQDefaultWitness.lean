import NflowsModel.Lemmas.RQWhole
/-!
# Lemmas/RQDefaultWitness — `RQValid` at the LIBRARY DEFAULTS, with an honest reading of the constants

The witnesses next to the whole-program theorems use a two-valued reading `eNV` (every non-zero double ↦ 1), the unit box, one or
two bins and zero parameters — enough to show that the hypothesis bundles are consistent, but degenerate.  Here: `K = 3` bins, the
box `[-3, 3]²`, `min_bin_width = min_bin_height = min_derivative = 1e-3` (the defaults of `rational_quadratic_spline`), non-zero
parameters, and a reading `eH` that sends each double the configuration mentions to its decimal value (`1e-3 ↦ 1/1000`,
`1 - 1e-3*3 ↦ 997/1000`, …).  Note what the bundle idealises: `e (1 - minW*K) = 1 - e minW * K` holds for `eH` because `eH` is a
reading of the SYMBOLIC constant; the double `1 - 0.001*3` itself is a rounded number — the theorems are about the program with
exact constant arithmetic, floats are carried by executing the model.  (Contributed by the external audit of the artefact.)
-/
open NF

namespace RQWhole

/-- an "honest" reading of the doubles the default configuration mentions -/
noncomputable def eH (f : Float) : ℝ :=
  if f == 1e-3 then 1/1000
  else if f == (1 - (1e-3:Float) * (3:Nat).toFloat) then 1 - 3/1000
  else if f == 3.0 then 3
  else if f == (-(3.0:Float)) then -3
  else if f == ((3.0:Float) - (-(3.0:Float))) then 6
  else if f == 1e-6 then 1/1000000
  else if f == 1.0 then 1
  else 0

def cH : RQCfg := { box := ⟨-(3.0:Float), 3.0, -(3.0:Float), 3.0⟩, minW := 1e-3, minH := 1e-3, minD := 1e-3 }

private theorem a1 : ((1e-3:Float) == 1e-3) = true := by decide +kernel
private theorem a2 : ((1 - (1e-3:Float) * (3:Nat).toFloat) == 1e-3) = false := by decide +kernel
private theorem a3 : ((1 - (1e-3:Float) * (3:Nat).toFloat) == (1 - (1e-3:Float) * (3:Nat).toFloat)) = true := by decide +kernel
private theorem a4 : ((3.0:Float) == 1e-3) = false := by decide +kernel
private theorem a5 : ((3.0:Float) == (1 - (1e-3:Float) * (3:Nat).toFloat)) = false := by decide +kernel
private theorem a6 : ((3.0:Float) == 3.0) = true := by decide +kernel
private theorem a7 : ((-(3.0:Float)) == 1e-3) = false := by decide +kernel
private theorem a8 : ((-(3.0:Float)) == (1 - (1e-3:Float) * (3:Nat).toFloat)) = false := by decide +kernel
private theorem a9 : ((-(3.0:Float)) == 3.0) = false := by decide +kernel
private theorem a10 : ((-(3.0:Float)) == (-(3.0:Float))) = true := by decide +kernel
private theorem a11 : (((3.0:Float) - (-(3.0:Float))) == 1e-3) = false := by decide +kernel
private theorem a12 : (((3.0:Float) - (-(3.0:Float))) == (1 - (1e-3:Float) * (3:Nat).toFloat)) = false := by decide +kernel
private theorem a13 : (((3.0:Float) - (-(3.0:Float))) == 3.0) = false := by decide +kernel
private theorem a14 : (((3.0:Float) - (-(3.0:Float))) == (-(3.0:Float))) = false := by decide +kernel
private theorem a15 : (((3.0:Float) - (-(3.0:Float))) == ((3.0:Float) - (-(3.0:Float)))) = true := by decide +kernel
private theorem a16 : ((1e-6:Float) == 1e-3) = false := by decide +kernel
private theorem a17 : ((1e-6:Float) == (1 - (1e-3:Float) * (3:Nat).toFloat)) = false := by decide +kernel
private theorem a18 : ((1e-6:Float) == 3.0) = false := by decide +kernel
private theorem a19 : ((1e-6:Float) == (-(3.0:Float))) = false := by decide +kernel
private theorem a20 : ((1e-6:Float) == ((3.0:Float) - (-(3.0:Float)))) = false := by decide +kernel
private theorem a21 : ((1e-6:Float) == 1e-6) = true := by decide +kernel
private theorem a22 : ((1.0:Float) == 1e-3) = false := by decide +kernel
private theorem a23 : ((1.0:Float) == (1 - (1e-3:Float) * (3:Nat).toFloat)) = false := by decide +kernel
private theorem a24 : ((1.0:Float) == 3.0) = false := by decide +kernel
private theorem a25 : ((1.0:Float) == (-(3.0:Float))) = false := by decide +kernel
private theorem a26 : ((1.0:Float) == ((3.0:Float) - (-(3.0:Float)))) = false := by decide +kernel
private theorem a27 : ((1.0:Float) == 1e-6) = false := by decide +kernel
private theorem a28 : ((1.0:Float) == 1.0) = true := by decide +kernel
private theorem g : ¬ ((1e-3:Float) * (3:Nat).toFloat > 1.0) := by decide +kernel

attribute [local simp] a1 a2 a3 a4 a5 a6 a7 a8 a9 a10 a11 a12 a13 a14 a15 a16 a17 a18 a19 a20 a21 a22 a23 a24 a25 a26 a27 a28

theorem valid_default : RQValid eH cH [0.3, -1.2, 2] [1, 0, -0.5] [0.1, 0.2, -3, 4] where
  hK := by simp
  hlenh := rfl
  hlend := rfl
  hgW := g
  hgH := g
  hmW0 := by simp [eH, cH]
  hcW := by simp [eH, cH]; norm_num
  hmWK := by simp [eH, cH]; norm_num
  hmH0 := by simp [eH, cH]
  hcH := by simp [eH, cH]; norm_num
  hmHK := by simp [eH, cH]; norm_num
  hlr := by simp [eH, cH]
  hdlr := by simp [eH, cH]; norm_num
  hbt := by simp [eH, cH]
  hdbt := by simp [eH, cH]; norm_num
  heps := by simp [eH, cH]
  hminD := by simp [eH, cH]
  hbeta := by simp [eH, cH]


end RQWhole
