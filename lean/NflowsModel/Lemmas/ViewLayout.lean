import NflowsModel.Core.View
import Mathlib.Tactic.Ring
import Mathlib.Tactic.Linarith

-- Lemmas (imports Mathlib.Tactic.Ring)
namespace View
variable {α : Type} [Inhabited α]

theorem foldl_mul (l : List Nat) (a : Nat) : l.foldl (· * ·) a = a * l.foldl (· * ·) 1 := by
  induction l generalizing a with
  | nil => simp
  | cons x xs ih => simp only [List.foldl_cons]; rw [ih (a * x), ih (1 * x)]; ring

/-- `transform_params.reshape(b, c, -1, h, w).permute(0, 1, 3, 4, 2)` (coupling.py:283-285):
    entry (b,c,i,j,k) is the conditioner's channel `c*M + k` at pixel (i,j) of batch item b. -/
theorem param_layout_img (P : Array α) (B C M H W b c i j k : Nat) :
    (((ofArray P [B, C*M, H, W]).reshape [B, C, M, H, W]).permute [0,1,3,4,2]).get [b,c,i,j,k]
      = (ofArray P [B, C*M, H, W]).get [b, c*M + k, i, j] := by
  simp only [get, permute, reshape, ofArray, rowMajor, dot, List.map, List.getD, List.foldl]
  congr 1
  simp
  ring
end View

