import Mathlib.Order.Monotone.Union
import Mathlib.Order.Interval.Set.Basic
import Mathlib.Data.Real.Basic
import Mathlib.Tactic

namespace Glue


/-- gluing: strictly monotone on each consecutive closed interval of a strictly increasing knot
    sequence ⇒ strictly monotone on the whole interval -/
theorem glue_strictMonoOn (f : ℝ → ℝ) (xs : ℕ → ℝ) (K : ℕ)
    (hx : ∀ k < K, xs k < xs (k+1))
    (hf : ∀ k < K, StrictMonoOn f (Set.Icc (xs k) (xs (k+1)))) :
    StrictMonoOn f (Set.Icc (xs 0) (xs K)) := by
  induction K with
  | zero => intro a ha b hb hab; simp only [Set.Icc_self, Set.mem_singleton_iff] at ha hb; subst ha hb; exact absurd hab (lt_irrefl _)
  | succ K ih =>
    have ih' := ih (fun k hk => hx k (Nat.lt_succ_of_lt hk)) (fun k hk => hf k (Nat.lt_succ_of_lt hk))
    have hmono : ∀ k ≤ K, xs 0 ≤ xs k := by
      intro k hk
      induction k with
      | zero => exact le_rfl
      | succ j ihj => exact le_trans (ihj (Nat.le_of_succ_le hk)) (hx j (by omega)).le
    have h0K : xs 0 ≤ xs K := hmono K le_rfl
    have hKK : xs K ≤ xs (K+1) := (hx K (Nat.lt_succ_self K)).le
    have hu : Set.Icc (xs 0) (xs K) ∪ Set.Icc (xs K) (xs (K+1)) = Set.Icc (xs 0) (xs (K+1)) :=
      Set.Icc_union_Icc_eq_Icc h0K hKK
    rw [← hu]
    exact StrictMonoOn.union ih' (hf K (Nat.lt_succ_self K)) (isGreatest_Icc h0K) (isLeast_Icc hKK)

open Finset in
theorem card_filter_initial (p : ℕ → Prop) [DecidablePred p] (n m : ℕ) (hm : m ≤ n)
    (h1 : ∀ k < m, p k) (h2 : ∀ k, m ≤ k → k < n → ¬ p k) : ((range n).filter p).card = m := by
  have : (range n).filter p = range m := by
    ext k; simp only [mem_filter, mem_range]
    constructor
    · rintro ⟨hk, hp⟩; by_contra hc; exact h2 k (not_lt.mp hc) hk hp
    · intro hk; exact ⟨lt_of_lt_of_le hk hm, h1 k hk⟩
  rw [this, card_range]

/-- knots as the code sees them in `searchsorted`: last one moved up by `eps` (torchutils.py:134-136) -/
noncomputable def bumped (xs : ℕ → ℝ) (K : ℕ) (eps : ℝ) (k : ℕ) : ℝ := if k = K then xs k + eps else xs k

open Classical in
/-- `torch.sum(x >= knots, -1) - 1` over the K+1 knots -/
noncomputable def binIdx (xs : ℕ → ℝ) (K : ℕ) (eps x : ℝ) : ℕ :=
  ((Finset.range (K+1)).filter (fun k => bumped xs K eps k ≤ x)).card - 1

theorem binSearch_spec (xs : ℕ → ℝ) (K : ℕ) (eps x : ℝ) (hK : 0 < K) (heps : 0 < eps)
    (hx : ∀ k < K, xs k < xs (k+1)) (hlo : xs 0 ≤ x) (hhi : x ≤ xs K) :
    let i := binIdx xs K eps x
    i < K ∧ xs i ≤ x ∧ (x < xs (i+1) ∨ (i + 1 = K ∧ x = xs K)) := by
  classical
  intro i
  have hmono : ∀ j k, j ≤ k → k ≤ K → xs j ≤ xs k := by
    intro j k hjk hkK
    induction k with
    | zero => have : j = 0 := by omega
              subst this; exact le_rfl
    | succ n ih =>
      rcases Nat.lt_or_ge j (n+1) with h | h
      · exact le_trans (ih (by omega) (by omega)) (hx n (by omega)).le
      · have : j = n+1 := by omega
        subst this; exact le_rfl
  let p : ℕ → Prop := fun k => bumped xs K eps k ≤ x
  have hpK : ¬ p K := by simp only [p, bumped, if_true, not_le]; linarith
  have hp0 : p 0 := by
    have : (0:ℕ) ≠ K := by omega
    simp only [p, bumped, this, if_false]; exact hlo
  have hex : ∃ k, ¬ p k := ⟨K, hpK⟩
  let m := Nat.find hex
  have hmK : m ≤ K := Nat.find_min' hex hpK
  have hm_not : ¬ p m := Nat.find_spec hex
  have hm_lt : ∀ k < m, p k := fun k hk => not_not.mp (Nat.find_min hex hk)
  have hm_pos : 0 < m := by
    rcases Nat.eq_zero_or_pos m with h | h
    · exact absurd hp0 (by simpa [h] using hm_not)
    · exact h
  have hbm : ∀ k, k < K → bumped xs K eps k = xs k := by
    intro k hk; have : k ≠ K := by omega
    simp [bumped, this]
  have h2 : ∀ k, m ≤ k → k < K+1 → ¬ p k := by
    intro k hmk hkK hpk
    apply hm_not
    -- bumped is monotone, so p k → p m
    have : bumped xs K eps m ≤ bumped xs K eps k := by
      rcases Nat.lt_or_ge k K with hk | hk
      · rw [hbm m (by omega), hbm k hk]; exact hmono m k hmk hk.le
      · have hkK' : k = K := by omega
        subst hkK'
        rcases Nat.lt_or_ge m k with hm' | hm'
        · rw [hbm m hm']; simp only [bumped, if_true]; have := hmono m k hmk le_rfl; linarith
        · have : m = k := by omega
          rw [this]
    exact le_trans this hpk
  have hcard : ((Finset.range (K+1)).filter p).card = m :=
    card_filter_initial p (K+1) m (by omega) hm_lt h2
  have hi : i = m - 1 := by simp only [i, binIdx]; rw [← hcard]
  have him : i + 1 = m := by omega
  have hiK : i < K := by omega
  refine ⟨hiK, ?_, ?_⟩
  · have := hm_lt i (by omega); simpa [p, hbm i hiK] using this
  · rcases Nat.lt_or_ge m K with hmlt | hmge
    · left; have := hm_not; simp only [p, hbm m hmlt, not_le] at this; rw [him]; exact this
    · have hmK' : m = K := by omega
      rcases lt_or_eq_of_le hhi with hlt | heq
      · left; rw [him, hmK']; exact hlt
      · right; exact ⟨by omega, heq⟩


end Glue
