import NflowsModel.Lemmas.DualXQuad
import NflowsModel.Lemmas.DualXParam
import NflowsModel.Lemmas.DualXRQInv
/-!
# Lemmas/DualXQuadParamCore — the second stage of the EXECUTED quadratic spline on dual numbers, ARBITRARY tangents (C16)

List-level dual lemmas (style of `Lemmas/DualXParam.lean`, `IsDualL F t ds`) for the remaining stages of `quadSpline`:

* `pairMeans_dualL`, `zipMul_dualL`, `IsDualL.take`, `IsDualL.drop`, `area_dual`, `hts_dualL` (division of every entry by a
  dual scalar), `blc_dualL`, `locs_dualL`: the lists `quadRest` builds from dual widths / unnormalised heights are, entry
  by entry, (value, derivative) pairs of the lists the real program builds along any curve of (widths, heights);
* `quadRest_dualG_exec`: control flow of the dual second stage with ARBITRARY tangents on widths, heights and input: the
  search and the gathers see only value components, so the run selects the bin the real program selects and evaluates
  that bin's two `Expr` terms on the gathered DUAL knots;
* `quadRest_dual_param_core`: along any curve `s ↦ (W s, U s, T s)` of valid widths / heights and normalised input, for
  `T t` strictly inside bin `k` the dual second stage returns the (value, derivative) pairs of the real second stage's
  two outputs (bin index locally constant along the curve by continuity of the location knots; the `clamp 0 1` is not
  at a tie strictly inside a bin);
* `quadSpline_dual_param_gen`: the same for any family of real programs `P s` that run `quadRest` on the normalised input
  (`QuadWhole.RunsRest`), input in box coordinates.
-/
open NF DualSound DualX Filter Topology

namespace DualXQuadParam
noncomputable section
open QuadWhole DualXParam

variable {e : Float → ℝ} {c : QCfg}

/-! ## list-level dual lemmas -/

section lists
variable {t : ℝ}

/-- `pairMeans` -/
theorem pairMeans_dualL : ∀ {ds : List (ℝ × ℝ)} {F : ℝ → List ℝ}, IsDualL F t ds →
    IsDualL (fun s => pairMeans (NF.realX e) (F s)) t (pairMeans (dualX (NF.realX e)) ds)
  | [], F, h => by
    rw [h.eq_nil]; exact IsDualL.nil t
  | [d], F, h => by
    obtain ⟨f, F', rfl, _, hF'⟩ := h.uncons
    rw [hF'.eq_nil]; exact IsDualL.nil t
  | d :: d' :: ds, F, h => by
    obtain ⟨f, F', rfl, hf, hF'⟩ := h.uncons
    have ih := pairMeans_dualL hF'
    obtain ⟨f', F'', rfl, hf', hF''⟩ := hF'.uncons
    exact IsDualL.cons (IsDual.div e (IsDual.add e hf hf') (IsDual.two e t) (by rw [d_two]; norm_num)) ih

/-- `List.zipWith mul` -/
theorem zipMul_dualL : ∀ {ds es : List (ℝ × ℝ)} {F G : ℝ → List ℝ}, IsDualL F t ds → IsDualL G t es →
    IsDualL (fun s => List.zipWith (NF.realX e).mul (F s) (G s)) t (List.zipWith (dualX (NF.realX e)).mul ds es)
  | [], _, F, G, h, _ => by
    rw [h.eq_nil]; simpa using IsDualL.nil t
  | _ :: _, [], F, G, _, hG => by
    rw [hG.eq_nil]; simpa using IsDualL.nil t
  | d :: ds, d' :: es, F, G, h, hG => by
    obtain ⟨f, F', rfl, hf, hF'⟩ := h.uncons
    obtain ⟨g, G', rfl, hg, hG'⟩ := hG.uncons
    exact IsDualL.cons (IsDual.mul e hf hg) (zipMul_dualL hF' hG')

/-- `List.drop` -/
theorem IsDualL.drop : ∀ (n : ℕ) {ds : List (ℝ × ℝ)} {F : ℝ → List ℝ}, IsDualL F t ds →
    IsDualL (fun s => (F s).drop n) t (ds.drop n)
  | 0, _, _, h => by simpa using h
  | n+1, [], F, h => by
    rw [h.eq_nil]; simpa using IsDualL.nil t
  | n+1, d :: ds, F, h => by
    obtain ⟨f, F', rfl, _, hF'⟩ := h.uncons
    simpa using IsDualL.drop n hF'

/-- `List.take` -/
theorem IsDualL.take : ∀ (n : ℕ) {ds : List (ℝ × ℝ)} {F : ℝ → List ℝ}, IsDualL F t ds →
    IsDualL (fun s => (F s).take n) t (ds.take n)
  | 0, _, _, _ => by simpa using IsDualL.nil t
  | n+1, [], F, h => by
    rw [h.eq_nil]; simpa using IsDualL.nil t
  | n+1, d :: ds, F, h => by
    obtain ⟨f, F', rfl, hf, hF'⟩ := h.uncons
    simpa using IsDualL.cons hf (IsDualL.take n hF')

end lists

/-! ## the lists the dual second stage builds -/

variable (e)

def areaD (dW dU : List (ℝ × ℝ)) : ℝ × ℝ :=
  sumG (dualX (NF.realX e)) (List.zipWith (dualX (NF.realX e)).mul (pairMeans (dualX (NF.realX e)) dU) dW)

def htsD (c : QCfg) (dW dU : List (ℝ × ℝ)) : List (ℝ × ℝ) :=
  dU.map (fun u => (dualX (NF.realX e)).add ((dualX (NF.realX e)).ofFloat c.minH)
    ((dualX (NF.realX e)).mul ((dualX (NF.realX e)).ofFloat (1 - c.minH)) ((dualX (NF.realX e)).div u (areaD e dW dU))))

def blcD (c : QCfg) (dW dU : List (ℝ × ℝ)) : List (ℝ × ℝ) :=
  (dualX (NF.realX e)).zero :: setLast (cumsumG (dualX (NF.realX e))
    (List.zipWith (dualX (NF.realX e)).mul (pairMeans (dualX (NF.realX e)) (htsD e c dW dU)) dW)) (dualX (NF.realX e)).one

def locsD (dW : List (ℝ × ℝ)) : List (ℝ × ℝ) :=
  (dualX (NF.realX e)).zero :: setLast (cumsumG (dualX (NF.realX e)) dW) (dualX (NF.realX e)).one

/-- the dual environment gathered for bin `k` -/
def envG (c : QCfg) (dW dU : List (ℝ × ℝ)) (k : ℕ) (dx : ℝ × ℝ) : List (ℝ × ℝ) :=
  [dx, (locsD e dW).getD k 0, dW.getD k 0, (blcD e c dW dU).getD k 0, (htsD e c dW dU).getD k 0,
    (htsD e c dW dU).getD (k+1) 0]

variable {e}

/-! ### value components: the real lists on the value components -/

theorem areaD_fst (dW dU : List (ℝ × ℝ)) : (areaD e dW dU).1 = area e (dW.map Prod.fst) (dU.map Prod.fst) := by
  unfold areaD area
  rw [(fst_hom e).sumG, DualXQuad.hom_zipMul (fst_hom e), DualXQuad.hom_pairMeans (fst_hom e)]

theorem htsD_fst (dW dU : List (ℝ × ℝ)) :
    (htsD e c dW dU).map Prod.fst = hts e c (dW.map Prod.fst) (dU.map Prod.fst) := by
  unfold htsD hts
  rw [List.map_map, List.map_map]
  apply List.map_congr_left
  intro u _
  simp only [Function.comp, (fst_hom e).add, (fst_hom e).mul, (fst_hom e).div, (fst_hom e).ofFloat, areaD_fst]

theorem blcD_fst (dW dU : List (ℝ × ℝ)) :
    (blcD e c dW dU).map Prod.fst = blc e c (dW.map Prod.fst) (dU.map Prod.fst) := by
  unfold blcD blc ars
  rw [List.map_cons, XHom.setLast, (fst_hom e).cumsumG, DualXQuad.hom_zipMul (fst_hom e),
    DualXQuad.hom_pairMeans (fst_hom e), htsD_fst, (fst_hom e).zero, (fst_hom e).one]

theorem locsD_fst (dW : List (ℝ × ℝ)) : (locsD e dW).map Prod.fst = locs e (dW.map Prod.fst) := by
  unfold locsD locs
  rw [List.map_cons, XHom.setLast, (fst_hom e).cumsumG, (fst_hom e).zero, (fst_hom e).one]

/-! ### control flow of the dual second stage, arbitrary tangents -/

/-- **the dual second stage with ARBITRARY tangents on widths, unnormalised heights and input selects the bin the real
    program selects at the value components, and evaluates that bin's terms on the gathered dual knots** -/
theorem quadRest_dualG_exec (dW dU : List (ℝ × ℝ)) (hv : CoreValid e c (dW.map Prod.fst) (dU.map Prod.fst))
    (dx : ℝ × ℝ) (ht0 : 0 ≤ dx.1) (ht1 : dx.1 ≤ 1) :
    quadRest (dualX (NF.realX e)) c dW dU dx
      = .ok (DualXQuad.yD e c (envG e c dW dU (idxN e c (dW.map Prod.fst) dx.1) dx),
             DualXQuad.lD e c (envG e c dW dU (idxN e c (dW.map Prod.fst) dx.1) dx)) := by
  obtain ⟨hspec, hsearch⟩ := search_spec hv
  obtain ⟨hiK, _, _⟩ := hspec dx.1 (by rw [lc_zero hv]; exact ht0) (by rw [lc_last hv]; exact ht1)
  set i := idxN e c (dW.map Prod.fst) dx.1 with hi
  rw [List.length_map] at hiK
  have hl1 : (locsD e dW).length = dW.length + 1 := by
    rw [← List.length_map (f := Prod.fst), locsD_fst, (locs_facts hv).1, List.length_map]
  have hl3 : (blcD e c dW dU).length = dW.length + 1 := by
    rw [← List.length_map (f := Prod.fst), blcD_fst, (blc_facts hv).1, List.length_map]
  have hl4 : (htsD e c dW dU).length = dW.length + 1 := by
    rw [← List.length_map (f := Prod.fst), htsD_fst, hts_length hv, List.length_map]
  have hs : searchsortedG (dualX (NF.realX e)) c.eps (locsD e dW) dx = ((i : ℕ) : Int) := by
    rw [(fst_hom e).searchsortedG, locsD_fst]
    exact hsearch dx.1 ht0 ht1
  have hi1 : ((i : Int) + 1) = ((i + 1 : ℕ) : Int) := by push_cast; rfl
  have h2 : sumG (dualX (NF.realX e)) (List.zipWith (dualX (NF.realX e)).mul
      (pairMeans (dualX (NF.realX e)) dU) dW) = areaD e dW dU := rfl
  have h3 : dU.map (fun u => (dualX (NF.realX e)).add ((dualX (NF.realX e)).ofFloat c.minH)
      ((dualX (NF.realX e)).mul ((dualX (NF.realX e)).ofFloat (1 - c.minH)) ((dualX (NF.realX e)).div u (areaD e dW dU))))
      = htsD e c dW dU := rfl
  have h4 : (dualX (NF.realX e)).zero :: setLast (cumsumG (dualX (NF.realX e)) (List.zipWith (dualX (NF.realX e)).mul
      (pairMeans (dualX (NF.realX e)) (htsD e c dW dU)) dW)) (dualX (NF.realX e)).one = blcD e c dW dU := rfl
  have h1 : (dualX (NF.realX e)).zero :: setLast (cumsumG (dualX (NF.realX e)) dW) (dualX (NF.realX e)).one
      = locsD e dW := rfl
  unfold quadRest
  simp only [h2, h3, h4, h1, hs]
  rw [getI_ok_getD _ i (by omega) 0, getI_ok_getD _ i hiK 0, getI_ok_getD _ i (by omega) 0,
    getI_ok_getD _ i (by omega) 0, hi1, getI_ok_getD _ (i+1) (by omega) 0]
  rfl

/-! ### the lists along a curve of (widths, unnormalised heights) -/

section curve
variable {W U : ℝ → List ℝ} {t : ℝ} {dW dU : List (ℝ × ℝ)}

theorem area_dual (hW : IsDualL W t dW) (hU : IsDualL U t dU) :
    IsDual (fun s => area e (W s) (U s)) t (areaD e dW dU) :=
  sumG_dual e (zipMul_dualL (pairMeans_dualL hU) hW)

/-- normalised heights: every entry divided by the (dual) area, then floored -/
theorem hts_dualL (c : QCfg) (hW : IsDualL W t dW) (hU : IsDualL U t dU) (hne : area e (W t) (U t) ≠ 0) :
    IsDualL (fun s => hts e c (W s) (U s)) t (htsD e c dW dU) :=
  hU.map (gR := fun s u => (NF.realX e).add ((NF.realX e).ofFloat c.minH)
      ((NF.realX e).mul ((NF.realX e).ofFloat (1 - c.minH)) ((NF.realX e).div u (area e (W s) (U s)))))
    (gD := fun u => (dualX (NF.realX e)).add ((dualX (NF.realX e)).ofFloat c.minH)
      ((dualX (NF.realX e)).mul ((dualX (NF.realX e)).ofFloat (1 - c.minH)) ((dualX (NF.realX e)).div u (areaD e dW dU))))
    (fun f d _ hf => IsDual.add e (IsDual.ofFloat e c.minH t) (IsDual.mul e (IsDual.ofFloat e _ t)
      (IsDual.div e hf (area_dual hW hU) (by rw [(area_dual hW hU).1]; exact hne))))

theorem blc_dualL (c : QCfg) (hW : IsDualL W t dW) (hU : IsDualL U t dU) (hne : area e (W t) (U t) ≠ 0) :
    IsDualL (fun s => blc e c (W s) (U s)) t (blcD e c dW dU) :=
  IsDualL.cons (IsDual.zero e t) (setLast_dualL (IsDual.one e t)
    (cumsumG_dualL e (zipMul_dualL (pairMeans_dualL (hts_dualL c hW hU hne)) hW)))

theorem locs_dualL (hW : IsDualL W t dW) : IsDualL (fun s => locs e (W s)) t (locsD e dW) :=
  IsDualL.cons (IsDual.zero e t) (setLast_dualL (IsDual.one e t) (cumsumG_dualL e hW))

end curve

theorem bin_sub_unit {Wd U : List ℝ} (hv : CoreValid e c Wd U) (k : ℕ) (hk : k < Wd.length) :
    0 ≤ lc e Wd k ∧ lc e Wd (k+1) ≤ 1 := by
  have hmono := ExecGlue.knots_mono (lc e Wd) Wd.length (lc_strict hv)
  constructor
  · rw [← lc_zero hv]; exact hmono 0 k (Nat.zero_le _) hk.le
  · rw [← lc_last hv]; exact hmono (k+1) Wd.length hk le_rfl

/-! ### soundness of the dual second stage along a curve -/

/-- **soundness of the dual second stage in an arbitrary joint direction**: along any curve `s ↦ (W s, U s, T s)` of
    valid widths / unnormalised heights and normalised input whose dual lists / dual number enter the program, for `T t`
    strictly inside bin `k` the dual run returns the (value, derivative) pairs of the real second stage's two outputs -/
theorem quadRest_dual_param_core (W U : ℝ → List ℝ) (T : ℝ → ℝ) (t : ℝ) (dW dU : List (ℝ × ℝ)) (dx : ℝ × ℝ)
    (hv : ∀ s, CoreValid e c (W s) (U s)) (hdbt : e (c.box.top - c.box.bottom) = e c.box.top - e c.box.bottom)
    (hW : IsDualL W t dW) (hU : IsDualL U t dU) (hT : IsDual T t dx)
    (k : ℕ) (hk : k < (W t).length) (h0 : lc e (W t) k < T t) (h1 : T t < lc e (W t) (k+1)) :
    ∃ dy dl : ℝ × ℝ, quadRest (dualX (NF.realX e)) c dW dU dx = .ok (dy, dl) ∧
      IsDual (fun s => valOf (quadRest (NF.realX e) c (W s) (U s) (T s))) t dy ∧
      IsDual (fun s => ldOf (quadRest (NF.realX e) c (W s) (U s) (T s))) t dl := by
  have eW := hW.map_fst
  have eU := hU.map_fst
  have hv' : CoreValid e c (dW.map Prod.fst) (dU.map Prod.fst) := by rw [eW, eU]; exact hv t
  obtain ⟨hlo, hhi⟩ := bin_sub_unit (hv t) k hk
  have hdx : dx.1 = T t := hT.1
  have hexec := quadRest_dualG_exec dW dU hv' dx (by rw [hdx]; linarith) (by rw [hdx]; linarith)
  rw [eW, hdx, idxN_in_bin (hv t) k hk _ h0 h1] at hexec
  have hne : area e (W t) (U t) ≠ 0 := (area_pos (hv t)).ne'
  have hLoc := locs_dualL (e := e) hW
  have hHts := hts_dualL c hW hU hne
  have hBlc := blc_dualL c hW hU hne
  have hKs : ∀ s, (W s).length = (W t).length := fun s => by rw [hW.1 s, hW.1 t]
  have hL0 : dW.length = (W t).length := (hW.1 t).symm
  have hL1 : (locsD e dW).length = (W t).length + 1 := by rw [← hLoc.1 t]; exact (locs_facts (hv t)).1
  have hL3 : (blcD e c dW dU).length = (W t).length + 1 := by rw [← hBlc.1 t]; exact (blc_facts (hv t)).1
  have hL4 : (htsD e c dW dU).length = (W t).length + 1 := by rw [← hHts.1 t]; exact hts_length (hv t)
  -- the bin environment along the curve, entry by entry
  have hEnv : ∀ i, IsDual (fun s => envN e c (W s) (U s) k (T s) i) t (envOf (envG e c dW dU k dx) (0, 0) i) := by
    intro i
    rcases i with _|_|_|_|_|_|i
    · exact hT
    · exact hLoc.getD k (by omega)
    · exact hW.getD k (by omega)
    · exact hBlc.getD k (by omega)
    · exact hHts.getD k (by omega)
    · exact hHts.getD (k+1) (by omega)
    · exact IsDual.const 0 t
  have hw := wd_pos (hv t) k hk
  have hstep := lc_step (hv t) k hk
  have ha0 : 0 ≤ (T t - lc e (W t) k) / wd (W t) k := div_nonneg (by linarith) hw.le
  have ha1 : (T t - lc e (W t) k) / wd (W t) k ≤ 1 := by rw [div_le_one hw]; linarith
  have hY0 : IsDual (fun s => binN e c (W s) (U s) k (T s)) t
      (evalX (dualX (NF.realX e)) (envG e c dW dU k dx) quadFwdE) := by
    rw [evalX_dual]
    exact DualX.evalD_curve _ _ t hEnv quadFwdE (DualXQuad.quadFwd_smooth hw.ne')
  have hLd0 : IsDual (fun s => binLdN e c (W s) (U s) k (T s)) t
      (evalX (dualX (NF.realX e)) (envG e c dW dU k dx) quadFwdLdE) := by
    rw [evalX_dual]
    exact DualX.evalD_curve _ _ t hEnv quadFwdLdE (DualXQuad.quadLd_smooth hw.ne'
      (Quad.pdf_pos (ht_pos (hv t) k (by omega)) (ht_pos (hv t) (k+1) (by omega)) ha0 ha1).ne')
  -- the clamp is not at a tie
  obtain ⟨hpos, hlt1⟩ := DualXQuad.bin_mem_unit_open (hv t) k hk _ h0 h1
  have hval : (evalX (dualX (NF.realX e)) (envG e c dW dU k dx) quadFwdE).1 = binN e c (W t) (U t) k (T t) := hY0.1
  have hcl := IsDual.clamp e (IsDual.zero e t) (IsDual.one e t) hY0
    (by rw [d_zero, hval]; exact ne_of_gt hpos)
    (by rw [d_zero, d_one, hval, max_eq_left hpos.le]; exact ne_of_lt hlt1)
  have hY1 := IsDual.add e (IsDual.mul e hcl (IsDual.ofFloat e (c.box.top - c.box.bottom) t))
    (IsDual.ofFloat e c.box.bottom t)
  have hLd1 := IsDual.add e hLd0 (IsDual.ofFloat e (boxLog c.box) t)
  -- the bin index is locally constant along the curve
  have hcT := hT.2.continuousAt
  have hc0 : ContinuousAt (fun s => lc e (W s) k) t := (hLoc.getD k (by omega)).2.continuousAt
  have hc1 : ContinuousAt (fun s => lc e (W s) (k+1)) t := (hLoc.getD (k+1) (by omega)).2.continuousAt
  have hev : ∀ᶠ s in 𝓝 t, quadRest (NF.realX e) c (W s) (U s) (T s)
      = .ok (binN e c (W s) (U s) k (T s) * (e c.box.top - e c.box.bottom) + e c.box.bottom,
             binLdN e c (W s) (U s) k (T s) + e (boxLog c.box)) ∧
      0 ≤ binN e c (W s) (U s) k (T s) ∧ binN e c (W s) (U s) k (T s) ≤ 1 := by
    filter_upwards [hc0.eventually_lt hcT h0, hcT.eventually_lt hc1 h1] with s hs0 hs1
    have hks : k < (W s).length := by rw [hKs s]; exact hk
    obtain ⟨hlo', hhi'⟩ := bin_sub_unit (hv s) k hks
    refine ⟨?_, bin_mem_unit (hv s) k hks _ hs0.le hs1.le⟩
    rw [rest_eq_bin (hv s) hdbt _ (by linarith) (by linarith), idxN_in_bin (hv s) k hks _ hs0 hs1]
  refine ⟨_, _, hexec, hY1.congr ?_, hLd1.congr ?_⟩
  · filter_upwards [hev] with s hs
    obtain ⟨hs, hu0, hu1⟩ := hs
    rw [hs, clamp01_id e _ hu0 hu1]
    simp only [NF.realX_add, NF.realX_mul, NF.realX_ofFloat, hdbt]
    rfl
  · filter_upwards [hev] with s hs
    rw [hs.1]
    simp only [NF.realX_add, NF.realX_ofFloat]
    rfl

/-! ### from normalised coordinates to the box: any family of programs running the second stage -/

variable (e)
/-- the dual normalised input the program forms from the dual input `dX` -/
def nxG (c : QCfg) (dX : ℝ × ℝ) : ℝ × ℝ :=
  (dualX (NF.realX e)).div ((dualX (NF.realX e)).sub dX ((dualX (NF.realX e)).ofFloat c.box.left))
    ((dualX (NF.realX e)).ofFloat (c.box.right - c.box.left))
variable {e}

theorem nxG_isDual (hb : BoxValid e c) {X : ℝ → ℝ} {t : ℝ} {dX : ℝ × ℝ} (hX : IsDual X t dX) :
    IsDual (fun s => nx e c (X s)) t (nxG e c dX) := by
  have hD : e c.box.right - e c.box.left ≠ 0 := (sub_pos.mpr hb.hlr).ne'
  refine (IsDual.div e (IsDual.sub e hX (IsDual.ofFloat e c.box.left t))
    (IsDual.ofFloat e (c.box.right - c.box.left) t) ?_).congr_fun (fun s => ?_)
  · rw [d_ofFloat, hb.hdlr]; exact hD
  · simp only [NF.realX_div, NF.realX_sub, NF.realX_ofFloat, hb.hdlr, nx]

/-- **generic whole second stage, arbitrary joint direction**: a family `P s` of real programs, each running `quadRest`
    on `(W s, U s)` after normalising its input; the dual second stage on the dual lists of the curve returns the
    (value, derivative) pairs of `s ↦ (P s (X s))`'s two outputs -/
theorem quadSpline_dual_param_gen {P : ℝ → ℝ → Except Err (ℝ × ℝ)} (W U : ℝ → List ℝ) (X : ℝ → ℝ) (t : ℝ)
    (dW dU : List (ℝ × ℝ)) (dX : ℝ × ℝ)
    (hv : ∀ s, CoreValid e c (W s) (U s)) (hb : BoxValid e c) (hP : ∀ s, RunsRest e c (W s) (U s) (P s))
    (hW : IsDualL W t dW) (hU : IsDualL U t dU) (hX : IsDual X t dX)
    (k : ℕ) (hk : k < (W t).length) (h0 : lc e (W t) k < nx e c (X t)) (h1 : nx e c (X t) < lc e (W t) (k+1)) :
    ∃ dy dl : ℝ × ℝ, quadRest (dualX (NF.realX e)) c dW dU (nxG e c dX) = .ok (dy, dl) ∧
      IsDual (fun s => valOf (P s (X s))) t dy ∧ IsDual (fun s => ldOf (P s (X s))) t dl := by
  have hT := nxG_isDual hb hX
  obtain ⟨dy, dl, hr, hy, hl⟩ := quadRest_dual_param_core W U (fun s => nx e c (X s)) t dW dU (nxG e c dX)
    hv hb.hdbt hW hU hT k hk h0 h1
  obtain ⟨hlo, hhi⟩ := bin_sub_unit (hv t) k hk
  have hnear : ∀ᶠ s in 𝓝 t, nx e c (X s) ∈ Set.Ioo (0:ℝ) 1 :=
    hT.2.continuousAt.eventually (Ioo_mem_nhds (by linarith) (by linarith))
  have hev : ∀ᶠ s in 𝓝 t, P s (X s) = quadRest (NF.realX e) c (W s) (U s) (nx e c (X s)) := by
    filter_upwards [hnear] with s hs
    obtain ⟨hz0, hz1⟩ := DualXQuad.nx_mem_box hb (X s) hs.1.le hs.2.le
    exact hP s (X s) hz0 hz1
  refine ⟨dy, dl, hr, hy.congr ?_, hl.congr ?_⟩
  · filter_upwards [hev] with s hs
    rw [hs]
  · filter_upwards [hev] with s hs
    rw [hs]

end
end DualXQuadParam
