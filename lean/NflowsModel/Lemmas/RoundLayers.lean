import NflowsModel.Lemmas.RoundCompose
import NflowsModel.Core.Wrappers
import Mathlib.Topology.MetricSpace.Pseudo.Pi
import Mathlib.Tactic
/-!
# Lemmas/RoundLayers — rounding errors of whole VECTOR layers and of flows (C19, numeric clause)

Continues `Lemmas/RoundModel` / `Lemmas/RoundCompose` (read the header of `RoundModel` for the model `Rnd u r`,
`rndOps r`, `rndX r e` and for the TRUSTED link to IEEE arithmetic).  Everything here is about EXECUTED programs of
`Core/`: `LF.matVec`, `LF.linear0`, `LF.linear` (hence `LF.luForward` once the factors are given), `LF.sumLog`,
`affineT`, `leakyReluT`, and the composite loop `Wrap.cascade` of `Core/Wrappers`.

This file: lists (`maxL`, `wsum`) and item 1.  Items 2–4 are in `Lemmas/RoundFlow`.

1. `lu_entry_err` / `luRow_err` / `lu_err` / `f32_f64_agree_lu` / `f32_f64_agree_luRow_gamma`: the two-stage product
   `F.linear(F.linear(x, U), L, b)` (the forward pass of `LULinear`, `LF.luForward`, see `luForward_eq_map`) with GIVEN
   real factors `L`, `U`, `b`, entry by entry:
   `|computed - exact| ≤ ((1+u)^(nL + m + 3) - 1) Σ_j |L_ij| (Σ_k |U_jk| |x_k|) + u |b_i|`
   (`m` ≥ the inner-product lengths of `U x`, `nL` the inner-product length of row `i` of `L`).
   NOT covered: the assembly of `L`, `U` from the parameters (`luLower` writes `one o = fl 1` on the diagonal — which
   the model rounds, so in this model even `L` differs between two precisions — and `posDiag` goes through the branches
   of `softplus`): both runs are given the same real matrices.  `lu_example`: explicit numbers, bound `2^-18`.
2. (`RoundFlow`) `linStage`, `lin0Stage`, `ewStage`, `leakyStage`: vector layers as `Stage (Fin n → ℝ)` (sup metric of the
   product) with `Stage.OK` proved; `Layer`, `Layer.fwd` (a layer as a transform object, built from the executed
   programs), `flowFwd` (= `Wrap.cascade` of `Core/Wrappers`), and `flow_err`, `f32_f64_agree_flow`,
   `flow_err_uniform`, `f32_f64_agree_flow_traj`.
3. (`RoundFlow`) `flow_ld_err`, `f32_f64_agree_flow_ld`: the accumulated log-abs-det of a flow of constant-Jacobian layers.
4. (`RoundFlow`) `flow_example`, `flow_example_numeric` (bound `2^-14`), `flow_ld_example`: concrete instances at `u32 = 2^-24`, `u64 = 2^-53`.
-/
open NF DualSound

namespace RoundModel
noncomputable section

variable {u : ℝ} {r : ℝ → ℝ} (e : Float → ℝ)

/-! ## lists: maximum, weighted sums -/

/-- maximum of a list and `0` -/
def maxL (l : List ℝ) : ℝ := l.foldr max 0

@[simp] theorem maxL_nil : maxL [] = 0 := rfl
@[simp] theorem maxL_cons (a : ℝ) (l : List ℝ) : maxL (a :: l) = max a (maxL l) := rfl

theorem maxL_nonneg (l : List ℝ) : 0 ≤ maxL l := by
  induction l with
  | nil => simp
  | cons a l ih => rw [maxL_cons]; exact le_max_of_le_right ih

theorem le_maxL {a : ℝ} {l : List ℝ} (h : a ∈ l) : a ≤ maxL l := by
  induction l with
  | nil => simp at h
  | cons b l ih =>
    rw [maxL_cons]
    rcases List.mem_cons.mp h with rfl | h
    · exact le_max_left _ _
    · exact le_max_of_le_right (ih h)

theorem maxL_le {c : ℝ} {l : List ℝ} (hc : 0 ≤ c) (h : ∀ a ∈ l, a ≤ c) : maxL l ≤ c := by
  induction l with
  | nil => simpa using hc
  | cons b l ih =>
    rw [maxL_cons]
    exact max_le (h b (by simp)) (ih fun a ha => h a (by simp [ha]))

/-- `Σ_j |a_j| c_j` (over the common prefix) -/
def wsum (row cs : List ℝ) : ℝ := (List.zipWith (fun a c => |a| * c) row cs).sum

@[simp] theorem wsum_nil_left (cs : List ℝ) : wsum [] cs = 0 := rfl
@[simp] theorem wsum_nil_right (row : List ℝ) : wsum row [] = 0 := by simp [wsum]
@[simp] theorem wsum_cons (a c : ℝ) (row cs : List ℝ) : wsum (a :: row) (c :: cs) = |a| * c + wsum row cs := by
  simp [wsum]

theorem absDot_cons (a c : ℝ) (row cs : List ℝ) : absDot (a :: row) (c :: cs) = |a| * |c| + absDot row cs := by
  simp [absDot]
@[simp] theorem absDot_nil_left (cs : List ℝ) : absDot [] cs = 0 := rfl
@[simp] theorem absDot_nil_right (row : List ℝ) : absDot row [] = 0 := by simp [absDot]

section maps
variable {β : Type*}

theorem wsum_map_nonneg (row : List ℝ) (U : List β) (g : β → ℝ) (hg : ∀ b ∈ U, 0 ≤ g b) :
    0 ≤ wsum row (U.map g) := by
  induction U generalizing row with
  | nil => simp
  | cons b U ih =>
    cases row with
    | nil => simp
    | cons a row =>
      simp only [List.map_cons, wsum_cons]
      have := ih row fun c hc => hg c (by simp [hc])
      have := mul_nonneg (abs_nonneg a) (hg b (by simp))
      linarith

theorem wsum_map_mul (k : ℝ) (row : List ℝ) (U : List β) (g : β → ℝ) :
    wsum row (U.map fun b => k * g b) = k * wsum row (U.map g) := by
  induction U generalizing row with
  | nil => simp
  | cons b U ih =>
    cases row with
    | nil => simp
    | cons a row => simp only [List.map_cons, wsum_cons, ih]; ring

theorem wsum_map_mono (row : List ℝ) (U : List β) (g g' : β → ℝ) (hg : ∀ b ∈ U, g b ≤ g' b) :
    wsum row (U.map g) ≤ wsum row (U.map g') := by
  induction U generalizing row with
  | nil => simp
  | cons b U ih =>
    cases row with
    | nil => simp
    | cons a row =>
      simp only [List.map_cons, wsum_cons]
      have := ih row fun c hc => hg c (by simp [hc])
      have := mul_le_mul_of_nonneg_left (hg b (by simp)) (abs_nonneg a)
      linarith

/-- `Σ|a_j| D ≤ (Σ|a_j|) D` (the sum on the left runs over the common prefix only) -/
theorem wsum_map_const_le (row : List ℝ) (U : List β) (D : ℝ) (hD : 0 ≤ D) :
    wsum row (U.map fun _ => D) ≤ absSum row * D := by
  induction U generalizing row with
  | nil => simp; exact mul_nonneg (absSum_nonneg _) hD
  | cons b U ih =>
    cases row with
    | nil => simp
    | cons a row =>
      simp only [List.map_cons, wsum_cons, absSum_cons]
      have := ih row
      linarith

theorem absDot_map_le (row : List ℝ) (U : List β) (f g : β → ℝ) (h : ∀ b ∈ U, |f b| ≤ g b) :
    absDot row (U.map f) ≤ wsum row (U.map g) := by
  induction U generalizing row with
  | nil => simp
  | cons b U ih =>
    cases row with
    | nil => simp
    | cons a row =>
      simp only [List.map_cons, wsum_cons, absDot_cons]
      have := ih row fun c hc => h c (by simp [hc])
      have := mul_le_mul_of_nonneg_left (h b (by simp)) (abs_nonneg a)
      linarith

theorem absDot_map_abs (row : List ℝ) (U : List β) (f : β → ℝ) :
    absDot row (U.map f) = wsum row (U.map fun b => |f b|) := by
  induction U generalizing row with
  | nil => simp
  | cons b U ih =>
    cases row with
    | nil => simp
    | cons a row => simp only [List.map_cons, wsum_cons, absDot_cons, ih]

/-- perturbation of an exact inner product in its second argument -/
theorem dot_map_diff (row : List ℝ) (U : List β) (f' f g : β → ℝ) (h : ∀ b ∈ U, |f' b - f b| ≤ g b) :
    |LF.dot realOps row (U.map f') - LF.dot realOps row (U.map f)| ≤ wsum row (U.map g) := by
  rw [dot_real, dot_real]
  induction U generalizing row with
  | nil => simp
  | cons b U ih =>
    cases row with
    | nil => simp
    | cons a row =>
      simp only [List.map_cons, List.zipWith_cons_cons, List.sum_cons, wsum_cons]
      have h1 := ih row fun c hc => h c (by simp [hc])
      have h2 := mul_le_mul_of_nonneg_left (h b (by simp)) (abs_nonneg a)
      have h3 := abs_add_le (a * (f' b - f b))
        ((List.zipWith (· * ·) row (U.map f')).sum - (List.zipWith (· * ·) row (U.map f)).sum)
      rw [abs_mul] at h3
      have e1 : a * (f' b - f b) + ((List.zipWith (· * ·) row (U.map f')).sum - (List.zipWith (· * ·) row (U.map f)).sum)
          = a * f' b + (List.zipWith (· * ·) row (U.map f')).sum
            - (a * f b + (List.zipWith (· * ·) row (U.map f)).sum) := by ring
      rw [e1] at h3
      linarith

end maps

theorem abs_dot_le (row x : List ℝ) : |LF.dot realOps row x| ≤ absDot row x := by
  rw [dot_real, absDot_eq]; exact abs_sum_le_absSum _

theorem pow1_mono (h : Rnd u r) {a b : ℕ} (hab : a ≤ b) : (1 + u) ^ a ≤ (1 + u) ^ b :=
  pow_le_pow_right₀ (by linarith [h.u_nonneg]) hab

/-! ## 1. the LU linear layer, executed, with given factors -/

/-- one batch row of `F.linear(x, W, b)` -/
def linRow (o : Ops ℝ) (W : List (List ℝ)) (b x : List ℝ) : List ℝ := LF.addV o (LF.matVec o W x) b
/-- one batch row of `F.linear(F.linear(x, U), L, b)` -/
def luRow (o : Ops ℝ) (L U : List (List ℝ)) (b x : List ℝ) : List ℝ := linRow o L b (LF.matVec o U x)

theorem linear_eq_map (o : Ops ℝ) (W : List (List ℝ)) (b : List ℝ) (X : List (List ℝ)) :
    LF.linear o W b X = X.map (linRow o W b) := rfl
theorem linear0_eq_map (o : Ops ℝ) (W : List (List ℝ)) (X : List (List ℝ)) :
    LF.linear0 o W X = X.map (LF.matVec o W) := rfl
theorem lu_eq_map (o : Ops ℝ) (L U : List (List ℝ)) (b : List ℝ) (X : List (List ℝ)) :
    LF.linear o L b (LF.linear0 o U X) = X.map (luRow o L U b) := by
  simp only [LF.linear, LF.linear0, List.map_map]; rfl
/-- `LF.luForward` is this program at the assembled factors -/
theorem luForward_eq_map (o : Ops ℝ) (p : LF.LUParams ℝ) (X : List (List ℝ)) :
    LF.luForward o p X = X.map (luRow o (LF.luL o p) (LF.luU o p) p.bias) := lu_eq_map o _ _ _ X

/-- the entries of the computed inner stage `fl(U x)`: `|fl(U x)_j - (U x)_j| ≤ ((1+u)^(m+1) - 1) Σ_k |U_jk||x_k|` -/
theorem matVec_row_err (h : Rnd u r) (x : List ℝ) (m : ℕ) (row : List ℝ) (hm : min row.length x.length ≤ m) :
    |LF.dot (rndOps r) row x - LF.dot realOps row x| ≤ ((1 + u) ^ (m + 1) - 1) * absDot row x := by
  refine (dot_err h row x).trans (mul_le_mul_of_nonneg_right ?_ (absDot_nonneg _ _))
  have := pow1_mono h (Nat.add_le_add_right hm 1)
  linarith

/-- **the two-stage product `fl(L · fl(U x) + b)`, one output entry**: with `S_i = Σ_j |L_ij| (Σ_k |U_jk| |x_k|)`,
    `|computed - exact| ≤ ((1+u)^(nL + m + 3) - 1) S_i + u |b_i|`, where `m` bounds the inner-product lengths of the
    inner stage and `nL = min (length L_i) (length U)` is the inner-product length of the outer stage.
    (Exponent: `m + 1` roundings in each entry of `U x`, `nL + 1` in the outer inner product, one for the bias.) -/
theorem lu_entry_err (h : Rnd u r) (Li : List ℝ) (U : List (List ℝ)) (bi : ℝ) (x : List ℝ) (m : ℕ)
    (hm : ∀ row ∈ U, min row.length x.length ≤ m) :
    |(rndOps r).add (LF.dot (rndOps r) Li (LF.matVec (rndOps r) U x)) bi
        - realOps.add (LF.dot realOps Li (LF.matVec realOps U x)) bi|
      ≤ ((1 + u) ^ (min Li.length U.length + m + 3) - 1) * wsum Li (U.map fun row => absDot row x) + u * |bi| := by
  have hu := h.u_nonneg
  set z' := LF.matVec (rndOps r) U x with hz'
  set z := LF.matVec realOps U x with hz
  set S := wsum Li (U.map fun row => absDot row x) with hS
  set gm := (1 + u) ^ (m + 1) with hgm
  set n := min Li.length U.length with hn
  set gn := (1 + u) ^ (n + 2) with hgn
  have hgm1 : 1 ≤ gm := one_le_pow1 h _
  have hgn1 : 1 ≤ gn := one_le_pow1 h _
  have hS0 : 0 ≤ S := wsum_map_nonneg _ _ _ fun b _ => absDot_nonneg _ _
  -- the outer stage at the computed inner value
  have hlen : min Li.length z'.length = n := by simp [hz', LF.matVec, hn]
  have h1 := linear_entry_err h Li z' bi
  rw [hlen] at h1
  -- size of the computed inner value
  have hA : absDot Li z' ≤ gm * S := by
    rw [hS, ← wsum_map_mul]
    apply absDot_map_le
    intro row hrow
    have a1 := matVec_row_err h x m row (hm row hrow)
    have a2 := abs_dot_le row x
    have a3 := abs_sub_abs_le_abs_sub (LF.dot (rndOps r) row x) (LF.dot realOps row x)
    nlinarith
  -- propagation of the inner error through |L|
  have hB : |LF.dot realOps Li z' - LF.dot realOps Li z| ≤ (gm - 1) * S := by
    rw [hS, ← wsum_map_mul]
    exact dot_map_diff Li U _ _ _ fun row hrow => matVec_row_err h x m row (hm row hrow)
  have h2 : |(rndOps r).add (LF.dot (rndOps r) Li z') bi - realOps.add (LF.dot realOps Li z) bi|
      ≤ |(rndOps r).add (LF.dot (rndOps r) Li z') bi - realOps.add (LF.dot realOps Li z') bi|
        + |LF.dot realOps Li z' - LF.dot realOps Li z| := by
    have := abs_add_le ((rndOps r).add (LF.dot (rndOps r) Li z') bi - realOps.add (LF.dot realOps Li z') bi)
      (LF.dot realOps Li z' - LF.dot realOps Li z)
    refine le_trans (le_of_eq ?_) this
    congr 1
    show _ = _ - (LF.dot realOps Li z' + bi) + _
    show _ - (LF.dot realOps Li z + bi) = _
    ring
  have e1 : (1 + u) ^ (n + m + 3) = gn * gm := by
    rw [hgn, hgm, ← pow_add]; congr 1; omega
  rw [e1]
  have h3 : (gn - 1) * absDot Li z' ≤ (gn - 1) * (gm * S) := mul_le_mul_of_nonneg_left hA (by linarith)
  nlinarith

theorem linRow_length (o : Ops ℝ) (W : List (List ℝ)) (b x : List ℝ) :
    (linRow o W b x).length = min W.length b.length := by
  simp [linRow, LF.addV, LF.matVec]
theorem luRow_length (o : Ops ℝ) (L U : List (List ℝ)) (b x : List ℝ) :
    (luRow o L U b x).length = min L.length b.length := linRow_length _ _ _ _

theorem linRow_getElem (o : Ops ℝ) (W : List (List ℝ)) (b x : List ℝ) (i : ℕ) (hi : i < W.length) (hb : i < b.length) :
    (linRow o W b x)[i]'(by rw [linRow_length]; omega) = o.add (LF.dot o W[i] x) b[i] := by
  simp only [linRow, LF.addV, LF.matVec, List.getElem_zipWith, List.getElem_map]

/-- **`luRow`, executed, entry-wise** (one batch row of the forward pass of `LULinear` with given factors) -/
theorem luRow_err (h : Rnd u r) (L U : List (List ℝ)) (b x : List ℝ) (m : ℕ)
    (hm : ∀ row ∈ U, min row.length x.length ≤ m) (i : ℕ) (hi : i < L.length) (hb : i < b.length) :
    |(luRow (rndOps r) L U b x)[i]'(by rw [luRow_length]; omega)
        - (luRow realOps L U b x)[i]'(by rw [luRow_length]; omega)|
      ≤ ((1 + u) ^ (min (L[i]).length U.length + m + 3) - 1) * wsum L[i] (U.map fun row => absDot row x)
        + u * |b[i]| := by
  unfold luRow
  rw [linRow_getElem _ _ _ _ i hi hb, linRow_getElem _ _ _ _ i hi hb]
  exact lu_entry_err h _ U _ x m hm

/-- **`F.linear(F.linear(X, U), L, b)`, executed, entry-wise** (batch row `k`, output feature `i`); this is
    `LF.luForward` with the factors `L = luL`, `U = luU` GIVEN as real matrices (their assembly from the parameters —
    `fl 1` on the diagonal of `L`, `softplus` branches for the diagonal of `U` — is not analysed) -/
theorem lu_err (h : Rnd u r) (L U : List (List ℝ)) (b : List ℝ) (X : List (List ℝ)) (m : ℕ) (k i : ℕ)
    (hk : k < X.length) (hm : ∀ row ∈ U, min row.length (X[k]).length ≤ m) (hi : i < L.length) (hb : i < b.length) :
    |((LF.linear (rndOps r) L b (LF.linear0 (rndOps r) U X))[k]'(by simpa [LF.linear, LF.linear0] using hk))[i]'(by
          simp [LF.linear, LF.linear0, LF.addV, LF.matVec]; omega)
        - ((LF.linear realOps L b (LF.linear0 realOps U X))[k]'(by simpa [LF.linear, LF.linear0] using hk))[i]'(by
          simp [LF.linear, LF.linear0, LF.addV, LF.matVec]; omega)|
      ≤ ((1 + u) ^ (min (L[i]).length U.length + m + 3) - 1) * wsum L[i] (U.map fun row => absDot row X[k])
        + u * |b[i]| := by
  simp only [LF.linear, LF.linear0, LF.addV, LF.matVec, List.getElem_map, List.getElem_zipWith]
  exact lu_entry_err h _ U _ _ m hm

/-- **`f32_f64_agree_lu`**: the forward pass of `LULinear` (given factors) in two precisions, entry-wise: the two
    rounding budgets times the conditioning scale `Σ_j |L_ij| Σ_k |U_jk||x_k|` of the two-stage product (not
    `|Σ_j L_ij Σ_k U_jk x_k|`, and not `Σ_k |(LU)_ik||x_k|` either), plus `(u32 + u64)|b_i|` -/
theorem f32_f64_agree_lu {u32 u64 : ℝ} {r32 r64 : ℝ → ℝ} (h32 : Rnd u32 r32) (h64 : Rnd u64 r64)
    (L U : List (List ℝ)) (b : List ℝ) (X : List (List ℝ)) (m : ℕ) (k i : ℕ)
    (hk : k < X.length) (hm : ∀ row ∈ U, min row.length (X[k]).length ≤ m) (hi : i < L.length) (hb : i < b.length) :
    |((LF.linear (rndOps r32) L b (LF.linear0 (rndOps r32) U X))[k]'(by simpa [LF.linear, LF.linear0] using hk))[i]'(by
          simp [LF.linear, LF.linear0, LF.addV, LF.matVec]; omega)
        - ((LF.linear (rndOps r64) L b (LF.linear0 (rndOps r64) U X))[k]'(by
            simpa [LF.linear, LF.linear0] using hk))[i]'(by
          simp [LF.linear, LF.linear0, LF.addV, LF.matVec]; omega)|
      ≤ (((1 + u32) ^ (min (L[i]).length U.length + m + 3) - 1) + ((1 + u64) ^ (min (L[i]).length U.length + m + 3) - 1))
          * wsum L[i] (U.map fun row => absDot row X[k])
        + (u32 + u64) * |b[i]| := by
  have := tri (lu_err h32 L U b X m k i hk hm hi hb) (lu_err h64 L U b X m k i hk hm hi hb)
  linarith

/-- the same for one row, in `γ` form: `γ_N(u) = N u / (1 - N u)`, `N = nL + m + 3` -/
theorem f32_f64_agree_luRow_gamma {u32 u64 : ℝ} {r32 r64 : ℝ → ℝ} (h32 : Rnd u32 r32) (h64 : Rnd u64 r64)
    (L U : List (List ℝ)) (b x : List ℝ) (m : ℕ) (hm : ∀ row ∈ U, min row.length x.length ≤ m)
    (i : ℕ) (hi : i < L.length) (hb : i < b.length) (N : ℕ) (hN : N = min (L[i]).length U.length + m + 3)
    (h1 : N * u32 < 1) (h2 : N * u64 < 1) :
    |(luRow (rndOps r32) L U b x)[i]'(by rw [luRow_length]; omega)
        - (luRow (rndOps r64) L U b x)[i]'(by rw [luRow_length]; omega)|
      ≤ (N * u32 / (1 - N * u32) + N * u64 / (1 - N * u64)) * wsum L[i] (U.map fun row => absDot row x)
        + (u32 + u64) * |b[i]| := by
  subst hN
  have h0 := tri (luRow_err h32 L U b x m hm i hi hb) (luRow_err h64 L U b x m hm i hi hb)
  have a := pow_sub_one_le_gamma h32.u_nonneg _ h1
  have c := pow_sub_one_le_gamma h64.u_nonneg _ h2
  have hS : 0 ≤ wsum L[i] (U.map fun row => absDot row x) :=
    wsum_map_nonneg _ _ _ fun b _ => absDot_nonneg _ _
  have := mul_le_mul_of_nonneg_right (add_le_add a c) hS
  linarith
/-! ## non-vacuity of the LU bound: explicit numbers -/

/-- the 2×2 LU layer `L = [[1,0],[1/2,1]]`, `U = [[2,1],[0,3]]`, `b = [1,-1]` on `x = [1,-2]`, output entry 1 (exact value
    `(1/2)(2·1 + 1·(-2)) + 3·(-2) - 1 = -7`, conditioning scale `(1/2)(2 + 2) + 6 = 8`): two roundings with
    `u32 = 2^-24`, `u64 = 2^-53` give results within `(γ₇(u32) + γ₇(u64))·8 + (u32 + u64)·1 ≤ 2^-18` of each other -/
theorem lu_example :
    ∃ r32 r64 : ℝ → ℝ, Rnd ((2 : ℝ) ^ (-24 : ℤ)) r32 ∧ Rnd ((2 : ℝ) ^ (-53 : ℤ)) r64 ∧ r32 1 ≠ r64 1 ∧
      |(luRow (rndOps r32) [[1, 0], [1 / 2, 1]] [[2, 1], [0, 3]] [1, -1] [1, -2]).getD 1 0
          - (luRow (rndOps r64) [[1, 0], [1 / 2, 1]] [[2, 1], [0, 3]] [1, -1] [1, -2]).getD 1 0| ≤ (2 : ℝ) ^ (-18 : ℤ) := by
  refine ⟨_, _, rnd_scale_f32, rnd_scale_f64, by norm_num, ?_⟩
  have h := f32_f64_agree_luRow_gamma rnd_scale_f32 rnd_scale_f64 [[1, 0], [1 / 2, 1]] [[2, 1], [0, 3]] [1, -1] [1, -2] 2
    (by intro row hrow; simp only [List.mem_cons, List.not_mem_nil, or_false] at hrow; rcases hrow with rfl | rfl <;> simp)
    1 (by simp) (by simp) 7 (by simp) (by norm_num) (by norm_num)
  have e1 : wsum ([[1, 0], [1 / 2, 1]] : List (List ℝ))[1] (([[2, 1], [0, 3]] : List (List ℝ)).map fun row => absDot row [1, -2])
      = 8 := by
    simp [wsum, absDot]; norm_num
  rw [e1] at h
  have e2 : (luRow (rndOps fun x => x * (1 + (2 : ℝ) ^ (-24 : ℤ))) [[1, 0], [1 / 2, 1]] [[2, 1], [0, 3]] [1, -1] [1, -2]).getD 1 0
      = (luRow (rndOps fun x => x * (1 + (2 : ℝ) ^ (-24 : ℤ))) [[1, 0], [1 / 2, 1]] [[2, 1], [0, 3]] [1, -1] [1, -2])[1]'(by
          rw [luRow_length]; simp) := by
    rw [List.getD_eq_getElem?_getD, List.getElem?_eq_getElem, Option.getD_some]
  have e3 : (luRow (rndOps fun x => x * (1 + (2 : ℝ) ^ (-53 : ℤ))) [[1, 0], [1 / 2, 1]] [[2, 1], [0, 3]] [1, -1] [1, -2]).getD 1 0
      = (luRow (rndOps fun x => x * (1 + (2 : ℝ) ^ (-53 : ℤ))) [[1, 0], [1 / 2, 1]] [[2, 1], [0, 3]] [1, -1] [1, -2])[1]'(by
          rw [luRow_length]; simp) := by
    rw [List.getD_eq_getElem?_getD, List.getElem?_eq_getElem, Option.getD_some]
  rw [e2, e3]
  refine h.trans ?_
  norm_num

end
end RoundModel
