import Mathlib.Tactic

namespace Multiscale

/-! C08: MultiscaleCompositeTransform (base.py:63-212), per batch item, generic over a tensor type `T`
    with chunk / cat / flatten / view satisfying the obvious laws (proved separately for strided views). -/

structure TensorOps (T α Sh : Type) where
  chunk : T → T × T                 -- torch.chunk(·, 2, split_dim)
  cat : T → T → T                   -- torch.cat([a, b], split_dim)
  flat : T → List α                 -- reshape(batch, -1) for one item
  view : Sh → List α → T            -- flat.view(-1, *shape) for one item
  shapeOf : T → Sh
  size : Sh → ℕ
  cat_chunk : ∀ t, cat (chunk t).1 (chunk t).2 = t
  view_flat : ∀ t, view (shapeOf t) (flat t) = t
  flat_len : ∀ t, (flat t).length = size (shapeOf t)

variable {T α Sh : Type} (O : TensorOps T α Sh)

/-- forward: every stage but the last emits the first chunk and passes the second on -/
def msForward : List (T → T) → T → List α
  | [], _ => []
  | [f], x => O.flat (f x)
  | f :: g :: rest, x => let p := O.chunk (f x); O.flat p.1 ++ msForward (g :: rest) p.2

/-- the shapes `add_transform` records: shape of the emitted chunk per stage (last: whole output) -/
def msShapes : List (T → T) → T → List Sh
  | [], _ => []
  | [f], x => [O.shapeOf (f x)]
  | f :: g :: rest, x => let p := O.chunk (f x); O.shapeOf p.1 :: msShapes (g :: rest) p.2

/-- inverse: slice the flat input by the recorded sizes, view, and fold back from the last stage -/
def msInverse : List (T → T) → List Sh → List α → Option T
  | [finv], [sh], l => some (finv (O.view sh l))
  | finv :: g :: rest, sh :: shs, l =>
    (msInverse (g :: rest) shs (l.drop (O.size sh))).map (fun hid => finv (O.cat (O.view sh (l.take (O.size sh))) hid))
  | _, _, _ => none

theorem multiscale_inv_fwd (fs finvs : List (T → T))
    (hinv : List.Forall₂ (fun f finv => ∀ t, finv (f t) = t) fs finvs) (hne : fs ≠ []) (x : T) :
    msInverse O finvs (msShapes O fs x) (msForward O fs x) = some x := by
  induction hinv generalizing x with
  | nil => exact absurd rfl hne
  | @cons f finv rest rinv h0 hrest ih =>
    cases hrest with
    | nil => simp [msInverse, msShapes, msForward, O.view_flat, h0]
    | @cons g ginv rest' rinv' hg hr' =>
      have ihr := ih (by simp) (O.chunk (f x)).2
      simp only [msInverse, msShapes, msForward]
      rw [← O.flat_len, List.drop_left, List.take_left, ihr]
      simp [O.view_flat, O.cat_chunk, h0]


end Multiscale
