import NflowsModel.Lemmas.StageMore
import NflowsModel.Lemmas.LogdetExecPerm
import NflowsModel.Lemmas.NonlinExecLT
import Mathlib.Tactic
/-!
# Lemmas/StageRoundTrips — `RoundTripEq` for the linear, permutation and normalisation stages and the remaining non-linearities;
# C04 for Glow-style blocks with no round-trip hypothesis left (C04, C02)

`Lemmas/StageMore.lean` discharges the round-trip law of `FlowRowsExec.flowSalpExec_consistent` (C04) for the coupling, CDF and a
few element-wise stages and lists as missing: "No `RoundTripEq` for the linear, permutation and normalisation stages, or the
Sigmoid, Logit, Cauchy and LogTanh non-linearities".  This file closes that list, over the reals (`NF.realX e`).  Everywhere the
statement is `RoundTripEq (NF.realX e) (fun z => z.size = w ∧ …) (fun s => s.size = w) T Tinv`: for a one-row input of exactly `w`
entries, an accepted inverse call `(s, [d])` is undone by the forward call, which returns the input ARRAY ITSELF and `[-d]`.
(The size of the row is forced: `StageMore.roundTripStage_cdf_short_false`.)

* §1 `passStage_one`, **`roundTrip_passStage`** (any pair of `LinearJacobian.PairRowWise` passes whose row functions undo each other
  on rows of width `w`, opposite log-dets), `roundTrip_passStage_affine` (row functions `x ↦ W x + b`, `y ↦ W⁻¹ (y − b)`).
* §2 the linear family: `roundTrip_luStage`, `roundTrip_qrStage`, `roundTrip_svdStage`, `roundTrip_hhStage`,
  `roundTrip_naiveStage` (the inverse weight computed by the executed Gauss–Jordan elimination, `det W ≠ 0`).
* §3 `roundTrip_permStage` (any `XOps` with `-0 = 0`: `roundTrip_permStage_gen`; `inversePerm_left`: `argsort(perm)[perm[k]] = k`).
* §4 `roundTrip_actStage` (initialised or evaluation mode; no hypothesis on the parameters), `roundTrip_bnEvalStage` (evaluation
  mode; `running_var + eps > 0`, `softplus(u) + eps ≠ 0`).
* §5 `roundTrip_nonlinStage_sigmoid` (row inside the clamp), `_logit` (sigmoid values inside the clamp), `_cauchy` (row in `(0,1)`),
  `_cauchyInverse`, `_logTanh` (every row).
* §6 `roundTrip_couplingStage_size` (the coupling stage with the common invariant `size = w`), `GlowBlock`, `GlowBlock.Valid`,
  `glowFwd` / `glowInv` (`k` blocks `[ActNorm, LULinear, coupling]`, inverse = inverse stages reversed), **`roundTrip_glow`**,
  `rowWise_glowInv`, `rowWise_glowFwd`, headlines **`flowSalpExec_consistent_glow`** (`k` blocks) and
  **`flowSalpExec_consistent_glow_block`** (one block, stages spelled out), `GlowBlock.valid_affine`, `GlowBlock.valid_additive`.
* §7 non-vacuity: `RoundTripEq.run`, `TotalStage`, `total_compStage`, one explicit width-2/3 instance per headline (the inverse call is
  accepted, the forward call undoes it), two concrete blocks `exBlockA`, `exBlockB` and the C04 headline instantiated at them.

Missing: BatchNorm in training mode and the initialising ActNorm call are not row-wise, hence outside `flowSalpExec`; the coupling
layer of a block has no unconditional transform (`uc = none`, as in `StageMore.roundTrip_couplingStage`); blocks use `LULinear` (the
other linear stages can be put in a composite directly with `roundTrip_compStage` and the lemmas of §2, same invariant); the
`Tanh` stage needs the row inside the exact range (`StageMore.roundTrip_nonlinStage_tanh`).
-/
open NF NF.StructureExec NF.RowErr NF.RowIndependenceMore NF.Density NF.FlowRowsExec NF.LF NF.Norm LinearFresh DualSound
  LinearBridge LinearJacobian Matrix

namespace NF.StageMore

/-! ## 1. a pass on rows (`passStage`) -/

section pass
variable {α : Type}

/-- a one-row call of a `PairRowWise` pass on an array holding exactly one row whose image has the stage's width -/
theorem passStage_one (w : Nat) (d : α) {F : List (List α) → List (List α) × List α} {g : List α → List α} {c : α}
    (hF : PairRowWise F g c) (l : List α) (hl : l.length = w) (hg : (g l).length = w) (ctx : Array α) :
    passStage w d F 1 l.toArray ctx = .ok ((g l).toArray, [c]) := by
  simp only [passStage, rowsD, List.range_one, List.map_cons, List.map_nil, rowD_toArray d hl, hF _, List.flatMap_cons,
    List.flatMap_nil, List.append_nil, fitRow_eq_self d hg]

end pass

section passR
variable (e : Float → ℝ)

/-- **a forward / inverse pair of row-by-row passes round trips exactly on a full row**: if the inverse row function keeps the
    width, is undone by the forward row function on rows of width `w`, and the per-row log-dets are opposite -/
theorem roundTrip_passStage (w : Nat) (d : ℝ) {F Finv : List (List ℝ) → List (List ℝ) × List ℝ} {g ginv : List ℝ → List ℝ}
    {c c' : ℝ} (hF : PairRowWise F g c) (hFi : PairRowWise Finv ginv c')
    (hlen : ∀ r : List ℝ, r.length = w → (ginv r).length = w)
    (hrt : ∀ r : List ℝ, r.length = w → g (ginv r) = r) (hc : c = -c') :
    RoundTripEq (NF.realX e) (fun z => z.size = w) (fun s => s.size = w) (passStage w d F) (passStage w d Finv) := by
  intro z ctx s l hz h
  obtain ⟨zl, rfl⟩ : ∃ zl : List ℝ, z = zl.toArray := ⟨z.toList, by simp⟩
  have hzl : zl.length = w := by simpa using hz
  rw [passStage_one w d hFi zl hzl (hlen zl hzl)] at h
  simp only [Except.ok.injEq, Prod.mk.injEq] at h
  obtain ⟨rfl, rfl⟩ := h
  refine ⟨by simpa using hlen zl hzl, c', rfl, ?_⟩
  rw [passStage_one w d hF (ginv zl) (hlen zl hzl) (by rw [hrt zl hzl]; exact hzl), hrt zl hzl, hc]
  rfl

/-- the affine case: the forward row function is `x ↦ W x + b`, the inverse one `y ↦ W⁻¹ (y - b)`, `det W ≠ 0` -/
theorem roundTrip_passStage_affine {n : Nat} (d : ℝ) {F Finv : List (List ℝ) → List (List ℝ) × List ℝ}
    {g ginv : List ℝ → List ℝ} {c c' : ℝ} (hF : PairRowWise F g c) (hFi : PairRowWise Finv ginv c')
    (W : Matrix (Fin n) (Fin n) ℝ) (b : Fin n → ℝ) (hW : W.det ≠ 0)
    (hg : ∀ v : Fin n → ℝ, g (List.ofFn v) = List.ofFn (affine W b v))
    (hgi : ∀ y : Fin n → ℝ, ginv (List.ofFn y) = List.ofFn (invAffine W b y)) (hc : c = -c') :
    RoundTripEq (NF.realX e) (fun z => z.size = n) (fun s => s.size = n) (passStage n d F) (passStage n d Finv) := by
  apply roundTrip_passStage e n d hF hFi _ _ hc
  · intro r hr
    rw [list_eq_ofFn r hr, hgi]
    simp
  · intro r hr
    conv_lhs => rw [list_eq_ofFn r hr, hgi, hg, affine_invAffine W hW]
    exact (list_eq_ofFn r hr).symm

theorem mul_one_ops (a : ℝ) : realOps.mul a (one realOps) = a := by
  rw [LFIndex.one_real]; exact mul_one a

end passR

/-! ## 2. the linear family -/

section linear
variable (e : Float → ℝ)

/-- **`LULinear`** (`udiag` of length `n`, `eps ≥ 0`, bias of length `n`): on a full row the forward pass undoes the inverse pass
    (`y ↦ W⁻¹ (y - b)`, `W = L U`) exactly, with the negated log-det -/
theorem roundTrip_luStage (p : LUParams ℝ) (hlen : p.udiag.length = p.n) (heps : 0 ≤ p.eps) (hb : p.bias.length = p.n) :
    RoundTripEq (NF.realX e) (fun z => z.size = p.n) (fun s => s.size = p.n)
      (luStage (NF.realX e) p.n p) (luInvStage (NF.realX e) p.n p) :=
  roundTrip_passStage_affine e _ (luForwardLd_pair realOps p) (luInverseLd_pair realOps p) (luW p) (vecFn p.n p.bias)
    (LogdetExec.luW_det_ne_zero p hlen heps) (luRow_affine p hb) (luInvRow_affine p hlen heps hb)
    (by rw [mul_one_ops, mul_one_ops]; exact (neg_neg _).symm)

/-- **`QRLinear`** (q-vectors `vs`, none zero) -/
theorem roundTrip_qrStage (p : QRParams ℝ) (vs : List (Fin p.n → ℝ)) (hq : p.qs = vs.map List.ofFn)
    (hv : ∀ v ∈ vs, v ⬝ᵥ v ≠ 0) (hl : p.logDiag.length = p.n) (hb : p.bias.length = p.n) :
    RoundTripEq (NF.realX e) (fun z => z.size = p.n) (fun s => s.size = p.n)
      (qrStage (NF.realX e) p.n p) (qrInvStage (NF.realX e) p.n p) :=
  roundTrip_passStage_affine e _ (qrForwardLd_pair realOps p) (qrInverseLd_pair realOps p) (qrW p vs) (vecFn p.n p.bias)
    (qrW_det_ne_zero p vs hq hv hl) (qrRow_affine p vs hq hl hb) (qrInvRow_affine p vs hq hv hl hb)
    (by rw [mul_one_ops, mul_one_ops]; exact (neg_neg _).symm)

/-- **`SVDLinear`** (q-vectors `vs1`, `vs2`, none zero; `eps ≥ 0`) -/
theorem roundTrip_svdStage (p : SVDParams ℝ) (vs1 vs2 : List (Fin p.n → ℝ)) (h1 : p.qs1 = vs1.map List.ofFn)
    (h2 : p.qs2 = vs2.map List.ofFn) (hv1 : ∀ v ∈ vs1, v ⬝ᵥ v ≠ 0) (hv2 : ∀ v ∈ vs2, v ⬝ᵥ v ≠ 0)
    (hl : p.udiag.length = p.n) (heps : 0 ≤ p.eps) (hb : p.bias.length = p.n) :
    RoundTripEq (NF.realX e) (fun z => z.size = p.n) (fun s => s.size = p.n)
      (svdStage (NF.realX e) p.n p) (svdInvStage (NF.realX e) p.n p) :=
  roundTrip_passStage_affine e _ (svdForwardLd_pair realOps p) (svdInverseLd_pair realOps p) (svdW p vs1 vs2)
    (vecFn p.n p.bias) (svdW_det_ne_zero p vs1 vs2 h1 h2 hv1 hv2 hl heps) (svdRow_affine p vs1 vs2 h1 h2 hl hb)
    (svdInvRow_affine p vs1 vs2 h1 h2 hv1 hv2 hl heps hb)
    (by rw [mul_one_ops, mul_one_ops]; exact (neg_neg _).symm)

/-- **`HouseholderSequence`** (q-vectors none zero): the inverse is `y ↦ Qᵀ y = Q⁻¹ y`, both log-dets are zero -/
theorem roundTrip_hhStage {n : Nat} (vs : List (Fin n → ℝ)) (hv : ∀ v ∈ vs, v ⬝ᵥ v ≠ 0) :
    RoundTripEq (NF.realX e) (fun z => z.size = n) (fun s => s.size = n)
      (hhStage (NF.realX e) n (vs.map List.ofFn)) (hhInvStage (NF.realX e) n (vs.map List.ofFn)) :=
  roundTrip_passStage_affine e _ (hhForwardLd_pair realOps _) (hhInverseLd_pair realOps _) (LinearFamily.Q vs) 0
    (Q_det_ne_zero vs hv) (hhRow_affine vs)
    (fun y => by rw [hhInvRow_affine, (hh_logdet_is_log_abs_det_fderiv_inverse vs hv).2.2])
    (by rw [LFIndex.zero_real]; exact neg_zero.symm)

/-- **`NaiveLinear`** (`det W ≠ 0`; the inverse weight is computed by the executed Gauss-Jordan elimination) -/
theorem roundTrip_naiveStage {n : Nat} (W : Matrix (Fin n) (Fin n) ℝ) (hW : W.det ≠ 0) (b : List ℝ) (hb : b.length = n) :
    RoundTripEq (NF.realX e) (fun z => z.size = n) (fun s => s.size = n)
      (naiveStage (NF.realX e) n n (ofMat W) b) (naiveInvStage (NF.realX e) n n (ofMat W) b) :=
  roundTrip_passStage_affine e _
    (g := naiveRow realOps (ofMat W) b) (ginv := naiveInvRow realOps n (ofMat W) b)
    (c := realOps.mul (naiveLogabsdet realOps n (ofMat W)) (one realOps))
    (c' := realOps.mul (realOps.neg (naiveLogabsdet realOps n (ofMat W))) (one realOps))
    (fun X => by rw [NaiveGauss.naiveForwardLd, timesOnes_eq_map, naiveForward_rowwise]; rfl)
    (fun X => by rw [NaiveGauss.naiveInverseLd, timesOnes_eq_map, naiveInverse_rowwise]; rfl)
    W (vecFn n b) hW (naiveRow_affine W b hb) (NaiveGauss.naive_inverse_row_is_affine W hW b hb)
    (by rw [mul_one_ops, mul_one_ops]; exact (neg_neg _).symm)

end linear

/-! ## 3. `Permutation` -/

section perm
variable {α : Type}

theorem perm_entry_one (o : XOps α) (w : Nat) (perm : List Nat) (x : Array α) {k : Nat} (hk : k < w) :
    ((List.range (1 * w)).map fun i => x.getD (i / w * w + perm.getD (i % w) 0) o.zero).toArray[k]?
      = some (x.getD (perm.getD k 0) o.zero) := by
  have := perm_entry o w perm (B := 1) (b := 0) x Nat.one_pos hk
  simpa only [Nat.zero_mul, Nat.zero_add] using this

/-- `argsort(perm)` is also a LEFT inverse on the indices: `inv[perm[k]] = k` -/
theorem inversePerm_left {n : Nat} {perm : List Nat} (hp : LogdetExec.IsPerm n perm) (k : Nat) (hk : k < n) :
    (inversePerm perm).getD (perm.getD k 0) 0 = k := by
  obtain ⟨hlt, hval⟩ := LogdetExec.inversePerm_spec hp _ (hp.lt k hk)
  exact hp.inj _ _ hlt hk hval

/-- **`Permutation(perm, dim=1)`** (`perm` a permutation list of `range w`; any `XOps`): on a full row, the forward pass
    (`index_select` with `perm`) undoes the inverse pass (`index_select` with `argsort(perm)`) exactly; both log-dets are zero -/
theorem roundTrip_permStage_gen (o : XOps α) (hneg : o.neg o.zero = o.zero) (w : Nat) (perm : List Nat)
    (hp : LogdetExec.IsPerm w perm) :
    RoundTripEq o (fun z => z.size = w) (fun s => s.size = w) (permStage o w perm) (permInvStage o w perm) := by
  intro z ctx s l hz h
  have hil : (inversePerm perm).length = w := (LogdetExec.inversePerm_length perm).trans hp.length
  rw [permInvStage, permStage_ok o w _ hil] at h
  simp only [Except.ok.injEq, Prod.mk.injEq] at h
  obtain ⟨rfl, rfl⟩ := h
  refine ⟨by simp, o.zero, by simp, ?_⟩
  rw [permStage_ok o w perm hp.length, hneg]
  refine congrArg Except.ok (Prod.ext ?_ (by simp))
  apply Array.ext_getElem?
  intro j
  by_cases hj : j < w
  · have hjz : j < z.size := hz ▸ hj
    show ((List.range (1 * w)).map _).toArray[j]? = _
    rw [perm_entry_one o w perm _ hj, Array.getD_eq_getD_getElem?, perm_entry_one o w _ _ (hp.lt j hj), Option.getD_some,
      inversePerm_left hp j hj]
    simp [Array.getD, hjz]
  · have h1 : ¬ j < z.size := hz ▸ hj
    rw [getElem?_none_of_not_lt h1]
    apply getElem?_none_of_not_lt
    simpa using hj

end perm

theorem roundTrip_permStage (e : Float → ℝ) (w : Nat) (perm : List Nat) (hp : LogdetExec.IsPerm w perm) :
    RoundTripEq (NF.realX e) (fun z => z.size = w) (fun s => s.size = w)
      (permStage (NF.realX e) w perm) (permInvStage (NF.realX e) w perm) :=
  roundTrip_permStage_gen (NF.realX e) (by simp) w perm hp

/-! ## 4. ActNorm (initialised or evaluation mode), BatchNorm (evaluation mode) -/

section norm
variable (e : Float → ℝ)

theorem getD_map_range (F : Nat) (f : Nat → ℝ) {j : Nat} (hj : j < F) : ((List.range F).map f).getD j 0 = f j := by
  simp [List.getD_eq_getElem?_getD, hj]

/-- a pair of element-wise affine row maps that undo each other on rows of width `F` -/
theorem map_range_roundtrip (F : Nat) (f fi : Nat → ℝ → ℝ) (h : ∀ j y, j < F → f j (fi j y) = y) (r : List ℝ)
    (hr : r.length = F) :
    (List.range F).map (fun j => f j (((List.range F).map fun k => fi k (r.getD k 0)).getD j 0)) = r := by
  apply List.ext_getElem
  · simp [hr]
  · intro j h1 h2
    have hj : j < F := by simpa using h1
    simp only [List.getElem_map, List.getElem_range]
    rw [getD_map_range F _ hj, h j _ hj, List.getD_eq_getElem _ _ h2]

theorem sum_map_neg' (l : List Nat) (f : Nat → ℝ) : (l.map fun j => -f j).sum = -(l.map f).sum := by
  induction l with
  | nil => simp
  | cons a l ih => simp only [List.map_cons, List.sum_cons, ih]; ring

/-- **`ActNorm`, initialised (or evaluation mode)**: `exp(log_scale) ≠ 0`, so no hypothesis on the parameters; on a full row the
    forward pass `exp(log_scale) * x + shift` undoes the inverse pass `(y - shift) / exp(log_scale)` exactly, log-dets
    `∓ sum(log_scale)` -/
theorem roundTrip_actStage (F : Nat) (s : ActSt ℝ) (hs : s.initialized = true ∨ s.training = false) :
    RoundTripEq (NF.realX e) (fun z => z.size = F) (fun z => z.size = F)
      (actStage (NF.realX e) F s) (actInvStage (NF.realX e) F s) := by
  have hno : (s.training && !s.initialized) = false := by
    rcases hs with h | h <;> simp [h]
  have h1 : actStage (NF.realX e) F s = passStage F (NF.realX e).zero (fun rows =>
      (rows.map (fun r => (List.range F).map (fun j =>
          (NF.realX e).add ((NF.realX e).mul ((NF.realX e).exp (s.logScale.getD j (NF.realX e).zero)) (r.getD j (NF.realX e).zero))
            (s.shift.getD j (NF.realX e).zero))),
        List.replicate rows.length (sumG (NF.realX e) s.logScale))) :=
    resStage_eq_passStage F (NF.realX e).zero _ _ (fun rows => by
      simp [actStep, Batch.valid24, hno, actApply, Batch.mapCh, actLogdet, Batch.size])
  have h2 : actInvStage (NF.realX e) F s = passStage F (NF.realX e).zero (fun rows =>
      (rows.map (fun r => (List.range F).map (fun j =>
          (NF.realX e).div ((NF.realX e).sub (r.getD j (NF.realX e).zero) (s.shift.getD j (NF.realX e).zero))
            ((NF.realX e).exp (s.logScale.getD j (NF.realX e).zero)))),
        List.replicate rows.length ((NF.realX e).neg (sumG (NF.realX e) s.logScale)))) :=
    resStage_eq_passStage F (NF.realX e).zero _ _ (fun rows => by
      simp [actStep, Batch.valid24, actUnapply, Batch.mapCh, actLogdet, Batch.size])
  rw [h1, h2]
  refine roundTrip_passStage e F _ pair_of_map_replicate pair_of_map_replicate (fun r _ => by simp) (fun r hr => ?_)
    (by simp)
  simp only [realX_zero, realX_add, realX_mul, realX_exp, realX_div, realX_sub]
  refine map_range_roundtrip F (fun j x => Real.exp (s.logScale.getD j 0) * x + s.shift.getD j 0)
    (fun j y => (y - s.shift.getD j 0) / Real.exp (s.logScale.getD j 0)) (fun j y _ => ?_) r hr
  have := Real.exp_ne_zero (s.logScale.getD j 0)
  field_simp
  ring

/-- **`BatchNorm`, evaluation mode**: `running_var + eps > 0` and `weight = softplus(u) + eps ≠ 0` for the features of the row -/
theorem roundTrip_bnEvalStage (cfg : BNCfg ℝ) (F : Nat) (s : BNSt ℝ) (hs : s.training = false)
    (hvar : ∀ j, j < F → 0 < s.runVar.getD j 0 + cfg.eps)
    (hw : ∀ j, j < F → bnWeight (NF.realX e) cfg s.uweight j ≠ 0) :
    RoundTripEq (NF.realX e) (fun z => z.size = F) (fun z => z.size = F)
      (bnEvalStage (NF.realX e) cfg F s) (bnEvalInvStage (NF.realX e) cfg F s) := by
  have h1 : bnEvalStage (NF.realX e) cfg F s = passStage F (NF.realX e).zero (fun rows =>
      (bnNormalise (NF.realX e) cfg F s.runMean s.runVar s.uweight s.bias rows,
        bnLogdet (NF.realX e) cfg F s.runVar s.uweight rows.length false)) :=
    resStage_eq_passStage F (NF.realX e).zero _ _ (fun rows => by simp [bnStep, hs])
  have h2 : bnEvalInvStage (NF.realX e) cfg F s = passStage F (NF.realX e).zero (fun rows =>
      (bnDenormalise (NF.realX e) cfg F s.runMean s.runVar s.uweight s.bias rows,
        bnLogdet (NF.realX e) cfg F s.runVar s.uweight rows.length true)) :=
    resStage_eq_passStage F (NF.realX e).zero _ _ (fun rows => by simp [bnStep, hs])
  rw [h1, h2]
  refine roundTrip_passStage e F _ (by unfold bnNormalise bnLogdet; exact pair_of_map_replicate)
    (by unfold bnDenormalise bnLogdet; exact pair_of_map_replicate) (fun r _ => by simp) (fun r hr => ?_) ?_
  · simp only [realX_zero, realX_add, realX_mul, realX_sqrt, realX_div, realX_sub]
    refine map_range_roundtrip F
      (fun j x => bnWeight (NF.realX e) cfg s.uweight j * ((x - s.runMean.getD j 0) / Real.sqrt (s.runVar.getD j 0 + cfg.eps))
        + s.bias.getD j 0)
      (fun j y => Real.sqrt (s.runVar.getD j 0 + cfg.eps) * ((y - s.bias.getD j 0) / bnWeight (NF.realX e) cfg s.uweight j)
        + s.runMean.getD j 0) (fun j y hj => ?_) r hr
    have hsd : Real.sqrt (s.runVar.getD j 0 + cfg.eps) ≠ 0 := (Real.sqrt_pos.2 (hvar j hj)).ne'
    have := hw j hj
    field_simp
    ring
  · simp only [Bool.false_eq_true, if_false, if_true, NF.sumG_real, realX_add, realX_sub, realX_neg]
    rw [← sum_map_neg']
    congr 1
    apply List.map_congr_left
    intro j _
    ring

theorem softplus_nonneg (x : ℝ) : 0 ≤ (NF.realX e).softplus x := by
  rw [NF.realX_softplus]
  split_ifs with h
  · linarith
  · exact Real.log_nonneg (by linarith [Real.exp_pos x])

/-- the usual configuration: `eps > 0` and non-negative running variances make both side conditions hold -/
theorem roundTrip_bnEvalStage_of_eps_pos (cfg : BNCfg ℝ) (F : Nat) (s : BNSt ℝ) (hs : s.training = false) (heps : 0 < cfg.eps)
    (hvar : ∀ j, j < F → 0 ≤ s.runVar.getD j 0) :
    RoundTripEq (NF.realX e) (fun z => z.size = F) (fun z => z.size = F)
      (bnEvalStage (NF.realX e) cfg F s) (bnEvalInvStage (NF.realX e) cfg F s) :=
  roundTrip_bnEvalStage e cfg F s hs (fun j hj => by linarith [hvar j hj]) (fun j _ => by
    have := softplus_nonneg e (s.uweight.getD j (NF.realX e).zero)
    show (NF.realX e).softplus _ + cfg.eps ≠ 0
    linarith)

end norm

/-! ## 5. the remaining element-wise non-linearities: `Sigmoid`, `Logit`, `CauchyCDF`, `CauchyCDFInverse`, `LogTanh` -/

section nonlin
open NonlinExec DualX
variable (e : Float → ℝ)

/-- **`Sigmoid`** (temperature `T = ps[0] ≠ 0`, clamp bounds `0 < ε̂ ≤ 1 − ε̂ < 1`), on rows whose entries lie inside the clamp
    `ε̂ ≤ y ≤ 1 − ε̂` (outside it the inverse returns the logit of the bound: `NonlinExec.sigmoidT_inv_clamped_lo`); no
    condition on `|T x|`: both directions evaluate the same thresholded `softplus` formula at the same point -/
theorem roundTrip_nonlinStage_sigmoid (ds : Array Float) (ps : List ℝ) (hc : SigmoidClamp e (ds.getD 0 0.0))
    (hT : ps.getD 0 0 ≠ 0) (n : Nat) :
    RoundTripEq (NF.realX e)
      (fun z => z.size = n ∧ ∀ y ∈ z.toList, e (ds.getD 0 0.0) ≤ y ∧ y ≤ e (1 - ds.getD 0 0.0)) (fun s => s.size = n)
      (nonlinStage (NF.realX e) "Sigmoid" ds ps false) (nonlinStage (NF.realX e) "Sigmoid" ds ps true) :=
  roundTrip_nonlinStage e "Sigmoid" ds ps (fun y => e (ds.getD 0 0.0) ≤ y ∧ y ≤ e (1 - ds.getD 0 0.0)) (fun y hy x l h => by
    simp only [nonlinEl_Sigmoid, realX_zero] at h ⊢
    exact elRT_of_roundTrip (sigmoidT_roundtrip' hc hT hy.1 hy.2) x l h) n

/-- **`Logit`** (`InverseTransform(Sigmoid)`: its inverse pass is the sigmoid), on rows whose sigmoid values lie inside the clamp
    `ε̂ ≤ σ(T y) ≤ 1 − ε̂` -/
theorem roundTrip_nonlinStage_logit (ds : Array Float) (ps : List ℝ) (hT : ps.getD 0 0 ≠ 0) (n : Nat) :
    RoundTripEq (NF.realX e)
      (fun z => z.size = n ∧ ∀ y ∈ z.toList,
        e (ds.getD 0 0.0) ≤ gate (ps.getD 0 0 * y) ∧ gate (ps.getD 0 0 * y) ≤ e (1 - ds.getD 0 0.0))
      (fun s => s.size = n)
      (nonlinStage (NF.realX e) "Logit" ds ps false) (nonlinStage (NF.realX e) "Logit" ds ps true) :=
  roundTrip_nonlinStage e "Logit" ds ps
    (fun y => e (ds.getD 0 0.0) ≤ gate (ps.getD 0 0 * y) ∧ gate (ps.getD 0 0 * y) ≤ e (1 - ds.getD 0 0.0))
    (fun y hy x l h => by
      simp only [nonlinEl_Logit, realX_zero, Bool.not_true, Bool.not_false] at h ⊢
      exact elRT_of_roundTrip (sigmoidT_roundtrip (ds.getD 0 0.0) hT hy.1 hy.2) x l h) n

/-- **`CauchyCDF`** (constants read ideally), on rows with entries in the open interval `(0, 1)` (at the end points the ideal
    reading fails: `NonlinExec.cauchyT_fwd_inv_endpoint`) -/
theorem roundTrip_nonlinStage_cauchy (ds : Array Float) (ps : List ℝ) (hc : CauchyConsts e) (n : Nat) :
    RoundTripEq (NF.realX e) (fun z => z.size = n ∧ ∀ y ∈ z.toList, 0 < y ∧ y < 1) (fun s => s.size = n)
      (nonlinStage (NF.realX e) "CauchyCDF" ds ps false) (nonlinStage (NF.realX e) "CauchyCDF" ds ps true) :=
  roundTrip_nonlinStage e "CauchyCDF" ds ps (fun y => 0 < y ∧ y < 1) (fun y hy x l h => by
    rw [nonlinEl_cauchy] at h ⊢
    exact cauchyT_fwd_inv hc y x l hy.1 hy.2 h) n

/-- **`CauchyCDFInverse`** (`InverseTransform(CauchyCDF)`), every row -/
theorem roundTrip_nonlinStage_cauchyInverse (ds : Array Float) (ps : List ℝ) (hc : CauchyConsts e) (n : Nat) :
    RoundTripEq (NF.realX e) (fun z => z.size = n ∧ ∀ y ∈ z.toList, True) (fun s => s.size = n)
      (nonlinStage (NF.realX e) "CauchyCDFInverse" ds ps false) (nonlinStage (NF.realX e) "CauchyCDFInverse" ds ps true) :=
  roundTrip_nonlinStage e "CauchyCDFInverse" ds ps (fun _ => True) (fun y _ x l h => by
    rw [nonlinEl_cauchyInverse] at h ⊢
    exact cauchyT_inv_fwd hc y x l h) n

/-- **`LogTanh`** (the constants the constructor derives from `cut_point` read as `c, tanh c, a, b` with the join condition:
    `LogTanhConsts`), every row -/
theorem roundTrip_nonlinStage_logTanh (ds : Array Float) (ps : List ℝ) {c a b : ℝ}
    (hc : LogTanhConsts e (ds.getD 0 0.0) (logTanhConsts (ds.getD 0 0.0)).1 (logTanhConsts (ds.getD 0 0.0)).2.1
      (logTanhConsts (ds.getD 0 0.0)).2.2 c a b) (n : Nat) :
    RoundTripEq (NF.realX e) (fun z => z.size = n ∧ ∀ y ∈ z.toList, True) (fun s => s.size = n)
      (nonlinStage (NF.realX e) "LogTanh" ds ps false) (nonlinStage (NF.realX e) "LogTanh" ds ps true) :=
  roundTrip_nonlinStage e "LogTanh" ds ps (fun _ => True) (fun y _ x l h => by
    rw [nonlinEl_logTanh] at h ⊢
    exact logTanhT_fwd_inv hc y x l h) n

end nonlin

/-! ## 6. Glow-style blocks `[ActNorm, LULinear, coupling]`: C04 with no round-trip hypothesis left -/

section glow
variable (e : Float → ℝ)

/-- the coupling stage with the row-size predicate common to all stages (`size = width`): the coupling pass keeps the size -/
theorem roundTrip_couplingStage_size (c : ElCfg) (mask : List ℝ) (S : Nat) (up up' : Array ℝ)
    (net : Nat → Array ℝ → Array ℝ → Array ℝ)
    (hrev : ∀ params, ElInvertibleRev (NF.realX e) c (transformIdx (NF.realX e) mask).length S params 1) :
    RoundTripEq (NF.realX e) (fun z => z.size = mask.length * S) (fun s => s.size = mask.length * S)
      (couplingStage (NF.realX e) c mask S false none up' net) (couplingStage (NF.realX e) c mask S true none up net) := by
  intro z ctx s l hz h
  obtain ⟨-, r⟩ := roundTrip_couplingStage e c mask S up up' net hrev z ctx s l (le_of_eq hz.symm) h
  refine ⟨?_, r⟩
  obtain ⟨-, rfl, -⟩ := ofT_eq_ok h
  rw [coupling_out_size]
  exact hz

/-- the parameters of one Glow-style block: an `ActNorm` state, `LULinear` parameters, a coupling layer (element family `cfg`,
    mask, `[C, S]` layout, conditioner `net`; no unconditional transform) -/
structure GlowBlock where
  act : ActSt ℝ
  lu : LUParams ℝ
  cfg : ElCfg
  mask : List ℝ
  S : Nat
  up : Array ℝ
  up' : Array ℝ
  net : Nat → Array ℝ → Array ℝ → Array ℝ

/-- the three `(forward, inverse)` stage pairs of a block, in forward order -/
noncomputable def GlowBlock.pairs (w : Nat) (b : GlowBlock) : List (BStage ℝ × BStage ℝ) :=
  [(actStage (NF.realX e) w b.act, actInvStage (NF.realX e) w b.act),
   (luStage (NF.realX e) w b.lu, luInvStage (NF.realX e) w b.lu),
   (couplingStage (NF.realX e) b.cfg b.mask b.S false none b.up' b.net,
    couplingStage (NF.realX e) b.cfg b.mask b.S true none b.up b.net)]

/-- what is assumed of a block of width `w` (context width `cw`): ActNorm is initialised (or in evaluation mode), the LU parameters
    are well shaped (`udiag`, bias of length `n = w`, `eps ≥ 0`), the coupling layer has width `w`, its element family inverts in
    the order inverse-then-forward, its conditioner is row-wise -/
structure GlowBlock.Valid (w cw : Nat) (b : GlowBlock) : Prop where
  hact : b.act.initialized = true ∨ b.act.training = false
  hn : b.lu.n = w
  hlen : b.lu.udiag.length = b.lu.n
  heps : 0 ≤ b.lu.eps
  hb : b.lu.bias.length = b.lu.n
  hw : b.mask.length * b.S = w
  hrev : ∀ params, ElInvertibleRev (NF.realX e) b.cfg (transformIdx (NF.realX e) b.mask).length b.S params 1
  hnet : NetRowWise ((identityIdx (NF.realX e) b.mask).length * b.S) cw
    (paramWidth b.cfg (transformIdx (NF.realX e) b.mask).length * b.S) b.net

variable {e}

/-- every stage pair of a valid block round trips exactly on full rows -/
theorem GlowBlock.Valid.roundTrip {w cw : Nat} {b : GlowBlock} (h : b.Valid e w cw) :
    ∀ p ∈ b.pairs e w, RoundTripEq (NF.realX e) (fun z => z.size = w) (fun z => z.size = w) p.1 p.2 := by
  intro p hp
  simp only [GlowBlock.pairs, List.mem_cons, List.not_mem_nil, or_false] at hp
  rcases hp with rfl | rfl | rfl
  · exact roundTrip_actStage e w b.act h.hact
  · have := roundTrip_luStage e b.lu h.hlen h.heps h.hb
    rw [h.hn] at this
    exact this
  · have := roundTrip_couplingStage_size e b.cfg b.mask b.S b.up b.up' b.net h.hrev
    rw [h.hw] at this
    exact this

/-- every inverse stage of a valid block is a row-wise stage -/
theorem GlowBlock.Valid.rowWise_inv {w cw : Nat} {b : GlowBlock} (h : b.Valid e w cw) :
    ∀ p ∈ b.pairs e w, RowWiseStage w cw p.2 := by
  intro p hp
  simp only [GlowBlock.pairs, List.mem_cons, List.not_mem_nil, or_false] at hp
  rcases hp with rfl | rfl | rfl
  · exact rowWise_actInvStage (NF.realX e) w cw b.act
  · exact rowWise_luInvStage (NF.realX e) w cw b.lu
  · have := rowWise_couplingStage (NF.realX e) b.cfg b.mask b.S true none b.up cw b.net h.hnet
    rw [h.hw] at this
    exact this

/-- every forward stage of a valid block is a row-wise stage -/
theorem GlowBlock.Valid.rowWise_fwd {w cw : Nat} {b : GlowBlock} (h : b.Valid e w cw) :
    ∀ p ∈ b.pairs e w, RowWiseStage w cw p.1 := by
  intro p hp
  simp only [GlowBlock.pairs, List.mem_cons, List.not_mem_nil, or_false] at hp
  rcases hp with rfl | rfl | rfl
  · exact rowWise_actStage (NF.realX e) w cw b.act h.hact
  · exact rowWise_luStage (NF.realX e) w cw b.lu
  · have := rowWise_couplingStage (NF.realX e) b.cfg b.mask b.S false none b.up' cw b.net h.hnet
    rw [h.hw] at this
    exact this

variable (e)

/-- the stage pairs of `k` blocks, in forward order -/
noncomputable def glowPairs (w : Nat) (blocks : List GlowBlock) : List (BStage ℝ × BStage ℝ) :=
  blocks.flatMap (GlowBlock.pairs e w)

/-- `CompositeTransform` of the forward stages of the blocks -/
noncomputable def glowFwd (w : Nat) (blocks : List GlowBlock) : BStage ℝ :=
  compStage (NF.realX e) ((glowPairs e w blocks).map Prod.fst)

/-- its inverse: the inverse stages in REVERSED order -/
noncomputable def glowInv (w : Nat) (blocks : List GlowBlock) : BStage ℝ :=
  compStage (NF.realX e) ((glowPairs e w blocks).reverse.map Prod.snd)

/-- one block, spelled out -/
theorem glowFwd_one (w : Nat) (b : GlowBlock) :
    glowFwd e w [b] = compStage (NF.realX e) [actStage (NF.realX e) w b.act, luStage (NF.realX e) w b.lu,
      couplingStage (NF.realX e) b.cfg b.mask b.S false none b.up' b.net] := rfl

theorem glowInv_one (w : Nat) (b : GlowBlock) :
    glowInv e w [b] = compStage (NF.realX e) [couplingStage (NF.realX e) b.cfg b.mask b.S true none b.up b.net,
      luInvStage (NF.realX e) w b.lu, actInvStage (NF.realX e) w b.act] := rfl

variable {e}

theorem mem_glowPairs {w : Nat} {blocks : List GlowBlock} {p : BStage ℝ × BStage ℝ} (hp : p ∈ glowPairs e w blocks) :
    ∃ b ∈ blocks, p ∈ b.pairs e w := by
  simpa [glowPairs] using hp

/-- **a stack of `k` Glow-style blocks round trips exactly on full rows**: no round-trip hypothesis -/
theorem roundTrip_glow {w cw : Nat} {blocks : List GlowBlock} (hv : ∀ b ∈ blocks, b.Valid e w cw) :
    RoundTripEq (NF.realX e) (fun z => z.size = w) (fun z => z.size = w) (glowFwd e w blocks) (glowInv e w blocks) :=
  roundTrip_compStage e _ _ (fun p hp => by
    obtain ⟨b, hb, hpb⟩ := mem_glowPairs hp
    exact (hv b hb).roundTrip p hpb)

theorem rowWise_glowInv {w cw : Nat} {blocks : List GlowBlock} (hv : ∀ b ∈ blocks, b.Valid e w cw) :
    RowWiseStage w cw (glowInv e w blocks) :=
  rowWise_compStage (NF.realX e) _ (fun t ht => by
    simp only [List.mem_map, List.mem_reverse] at ht
    obtain ⟨p, hp, rfl⟩ := ht
    obtain ⟨b, hb, hpb⟩ := mem_glowPairs hp
    exact (hv b hb).rowWise_inv p hpb)

theorem rowWise_glowFwd {w cw : Nat} {blocks : List GlowBlock} (hv : ∀ b ∈ blocks, b.Valid e w cw) :
    RowWiseStage w cw (glowFwd e w blocks) :=
  rowWise_compStage (NF.realX e) _ (fun t ht => by
    simp only [List.mem_map] at ht
    obtain ⟨p, hp, rfl⟩ := ht
    obtain ⟨b, hb, hpb⟩ := mem_glowPairs hp
    exact (hv b hb).rowWise_fwd p hpb)

variable {rcw cw R n : Nat} {emb : Nat → Array ℝ → Array ℝ} {base : BaseD ℝ} {noise ctx : Array ℝ}

/-- **C04 over a stack of `k` Glow-style blocks `[ActNorm, LULinear, coupling] × k`.**  `sample_and_log_prob` runs the inverse
    composite (inverse stages in reversed order) on the merged noise; the value it returns for sample `[i, j]` is what the
    executed `log_prob` (forward composite) assigns to that sample alone under context row `i` alone.  No round-trip hypothesis:
    only the shape / parameter conditions `GlowBlock.Valid`, a row-wise embedding net and base density, and `zr` a one-row copy
    (of exactly `w` entries) of noise row `[i, j]`. -/
theorem flowSalpExec_consistent_glow {w : Nat} {blocks : List GlowBlock} (hv : ∀ b ∈ blocks, b.Valid e w cw)
    (hbase : RowIndepBase cw base) (hemb : EmbRowWise rcw cw emb) (hsize : R * cw ≤ (emb R ctx).size)
    {s : Array ℝ} {lps : List ℝ}
    (h : flowSalpExec (NF.realX e) w cw R n emb (glowInv e w blocks) base noise ctx = .ok (s, lps))
    {i j : Nat} (hi : i < R) (hj : j < n) (zr cr : Array ℝ) (hzr : zr.size = w)
    (hz : RowEq w (i * n + j) 0 noise zr) (hc : RowEq rcw i 0 ctx cr) :
    ∃ (si : Array ℝ) (lp : ℝ), RowEq w (i * n + j) 0 s si ∧ lps[i * n + j]? = some lp ∧
      flowLogProbExec (NF.realX e) w emb (glowFwd e w blocks) base 1 si cr = .ok [lp] :=
  flowSalpExec_consistent_on (NF.realX e) (rowWise_glowInv hv) hbase hemb hsize ((roundTrip_glow hv).on w)
    (fun a b => sub_eq_add_neg a b) h hi hj zr cr hzr hz hc

/-- **C04 over one Glow-style block**, the composite spelled out: forward `[ActNorm, LULinear, coupling]`, inverse
    `[coupling⁻¹, LULinear⁻¹, ActNorm⁻¹]` -/
theorem flowSalpExec_consistent_glow_block {w : Nat} {b : GlowBlock} (hv : b.Valid e w cw)
    (hbase : RowIndepBase cw base) (hemb : EmbRowWise rcw cw emb) (hsize : R * cw ≤ (emb R ctx).size)
    {s : Array ℝ} {lps : List ℝ}
    (h : flowSalpExec (NF.realX e) w cw R n emb
      (compStage (NF.realX e) [couplingStage (NF.realX e) b.cfg b.mask b.S true none b.up b.net,
        luInvStage (NF.realX e) w b.lu, actInvStage (NF.realX e) w b.act]) base noise ctx = .ok (s, lps))
    {i j : Nat} (hi : i < R) (hj : j < n) (zr cr : Array ℝ) (hzr : zr.size = w)
    (hz : RowEq w (i * n + j) 0 noise zr) (hc : RowEq rcw i 0 ctx cr) :
    ∃ (si : Array ℝ) (lp : ℝ), RowEq w (i * n + j) 0 s si ∧ lps[i * n + j]? = some lp ∧
      flowLogProbExec (NF.realX e) w emb
        (compStage (NF.realX e) [actStage (NF.realX e) w b.act, luStage (NF.realX e) w b.lu,
          couplingStage (NF.realX e) b.cfg b.mask b.S false none b.up' b.net]) base 1 si cr = .ok [lp] :=
  flowSalpExec_consistent_glow (blocks := [b]) (fun b' hb' => by simp only [List.mem_singleton] at hb'; exact hb' ▸ hv)
    hbase hemb hsize h hi hj zr cr hzr hz hc

/-- a valid block with an `AffineCouplingTransform` (`1e-3` read as a non-negative real) -/
theorem GlowBlock.valid_affine {w cw : Nat} {b : GlowBlock} (he : 0 ≤ e 1e-3) (hk : b.cfg.kind = "affine")
    (hact : b.act.initialized = true ∨ b.act.training = false) (hn : b.lu.n = w) (hlen : b.lu.udiag.length = b.lu.n)
    (heps : 0 ≤ b.lu.eps) (hb : b.lu.bias.length = b.lu.n) (hw : b.mask.length * b.S = w)
    (hnet : NetRowWise ((identityIdx (NF.realX e) b.mask).length * b.S) cw
      (paramWidth b.cfg (transformIdx (NF.realX e) b.mask).length * b.S) b.net) : b.Valid e w cw :=
  ⟨hact, hn, hlen, heps, hb, hw, fun params => NF.CouplingJacobian.elInvertibleRev_affine_real e he b.cfg hk _ b.S params 1, hnet⟩

/-- a valid block with an `AdditiveCouplingTransform` -/
theorem GlowBlock.valid_additive {w cw : Nat} {b : GlowBlock} (hk : b.cfg.kind = "additive")
    (hact : b.act.initialized = true ∨ b.act.training = false) (hn : b.lu.n = w) (hlen : b.lu.udiag.length = b.lu.n)
    (heps : 0 ≤ b.lu.eps) (hb : b.lu.bias.length = b.lu.n) (hw : b.mask.length * b.S = w)
    (hnet : NetRowWise ((identityIdx (NF.realX e) b.mask).length * b.S) cw
      (paramWidth b.cfg (transformIdx (NF.realX e) b.mask).length * b.S) b.net) : b.Valid e w cw :=
  ⟨hact, hn, hlen, heps, hb, hw, fun params => NF.CouplingJacobian.elInvertibleRev_additive_real e b.cfg hk _ b.S params 1, hnet⟩

end glow

/-! ## 7. non-vacuity: explicit parameters, explicit rows; the inverse call is accepted and the forward call undoes it -/

section examples
variable {α : Type}

/-- reading a `RoundTripEq` on one accepted inverse call -/
theorem RoundTripEq.run {o : XOps α} {P Q : Array α → Prop} {T Tinv : BStage α} (h : RoundTripEq o P Q T Tinv)
    {z ctx : Array α} (hP : P z) (hacc : ∃ r, Tinv 1 z ctx = .ok r) :
    ∃ s d, Tinv 1 z ctx = .ok (s, [d]) ∧ Q s ∧ T 1 s ctx = .ok (z, [o.neg d]) := by
  obtain ⟨⟨s, l⟩, hr⟩ := hacc
  obtain ⟨hq, d, rfl, hT⟩ := h z ctx s l hP hr
  exact ⟨s, d, hr, hq, hT⟩

/-- a stage that accepts every call -/
def TotalStage (T : BStage α) : Prop := ∀ B x c, ∃ r, T B x c = .ok r

theorem total_passStage (w : Nat) (d : α) (F : List (List α) → List (List α) × List α) : TotalStage (passStage w d F) :=
  fun _ _ _ => ⟨_, rfl⟩

theorem total_actInvStage (o : XOps α) (F : Nat) (s : ActSt α) : TotalStage (actInvStage o F s) := by
  intro B x c
  have h : actInvStage o F s = passStage F o.zero (fun rows =>
      (rows.map (fun r => (List.range F).map (fun j =>
          o.div (o.sub (r.getD j o.zero) (s.shift.getD j o.zero)) (o.exp (s.logScale.getD j o.zero)))),
        List.replicate rows.length (o.neg (sumG o s.logScale)))) :=
    resStage_eq_passStage F o.zero _ _ (fun rows => by
      simp [actStep, Batch.valid24, actUnapply, Batch.mapCh, actLogdet, Batch.size])
  rw [h]
  exact ⟨_, rfl⟩

theorem total_bnEvalInvStage (o : XOps α) (cfg : BNCfg α) (F : Nat) (s : BNSt α) (hs : s.training = false) :
    TotalStage (bnEvalInvStage o cfg F s) := by
  intro B x c
  have h : bnEvalInvStage o cfg F s = passStage F o.zero (fun rows =>
      (bnDenormalise o cfg F s.runMean s.runVar s.uweight s.bias rows, bnLogdet o cfg F s.runVar s.uweight rows.length true)) :=
    resStage_eq_passStage F o.zero _ _ (fun rows => by simp [bnStep, hs])
  rw [h]
  exact ⟨_, rfl⟩

theorem total_compStage (o : XOps α) (ts : List (BStage α)) (hts : ∀ t ∈ ts, TotalStage t) : TotalStage (compStage o ts) := by
  intro B x c
  suffices h : ∀ (fs : List (BStage α)), (∀ t ∈ fs, TotalStage t) → ∀ x l,
      ∃ r, Wrap.cascadeFrom (ldLD o B) (fs.map fun t => t B) x l c = .ok r from h ts hts x _
  intro fs
  induction fs with
  | nil => intro _ x l; exact ⟨_, rfl⟩
  | cons f fs ih =>
    intro hf x l
    obtain ⟨⟨y, ld⟩, hy⟩ := hf f List.mem_cons_self B x c
    obtain ⟨r, hr⟩ := ih (fun t ht => hf t (List.mem_cons_of_mem _ ht)) y ((ldLD o B).add l ld)
    exact ⟨r, by rw [List.map_cons, cascadeFrom_cons_ok]; exact ⟨y, ld, hy, hr⟩⟩

/-- a coupling stage whose element family never raises accepts every call -/
theorem total_couplingStage (o : XOps α) (c : ElCfg) (mask : List α) (S : Nat) (inverse : Bool) (up : Array α)
    (net : Nat → Array α → Array α → Array α)
    (herr : ∀ B x params, (couplingApply o c mask B S x params inverse none up).err = none) :
    TotalStage (couplingStage o c mask S inverse none up net) :=
  fun B x _ => ⟨_, ofT_of_err_none (herr B x _)⟩

/-- the permutation `[2, 0, 1]` of width 3 on the row `[10, 20, 30]` -/
example (e : Float → ℝ) :
    ∃ s d, permInvStage (NF.realX e) 3 [2, 0, 1] 1 #[10, 20, 30] #[] = .ok (s, [d]) ∧ s.size = 3 ∧
      permStage (NF.realX e) 3 [2, 0, 1] 1 s #[] = .ok (#[10, 20, 30], [-d]) :=
  (roundTrip_permStage e 3 [2, 0, 1] LogdetExec.isPerm_example).run (z := #[10, 20, 30]) rfl
    ⟨_, permStage_ok (NF.realX e) 3 _ rfl 1 _ _⟩

/-- initialised ActNorm, `log_scale = [2, 3]`, `shift = [1, 1]`, the row `[7, 9]` -/
example (e : Float → ℝ) :
    ∃ s d, actInvStage (NF.realX e) 2 ⟨true, true, [2, 3], [1, 1], 1⟩ 1 #[7, 9] #[] = .ok (s, [d]) ∧ s.size = 2 ∧
      actStage (NF.realX e) 2 ⟨true, true, [2, 3], [1, 1], 1⟩ 1 s #[] = .ok (#[7, 9], [-d]) :=
  (roundTrip_actStage e 2 ⟨true, true, [2, 3], [1, 1], 1⟩ (Or.inl rfl)).run (z := #[7, 9]) rfl
    (total_actInvStage _ _ _ _ _ _)

/-- evaluation-mode BatchNorm with `eps = 1/100`, running variance `[3, 8]`, any unconstrained weights whose `softplus + eps`
    is non-zero; here the hypotheses are discharged for `u = [0, 1]` (`softplus ≥ 0`) -/
example (e : Float → ℝ) :
    ∃ s d, bnEvalInvStage (NF.realX e) ⟨1 / 100, 1 / 10⟩ 2 ⟨false, [1, 2], [3, 8], [0, 1], [5, 6], 0⟩ 1 #[7, 9] #[]
        = .ok (s, [d]) ∧ s.size = 2 ∧
      bnEvalStage (NF.realX e) ⟨1 / 100, 1 / 10⟩ 2 ⟨false, [1, 2], [3, 8], [0, 1], [5, 6], 0⟩ 1 s #[] = .ok (#[7, 9], [-d]) := by
  refine (roundTrip_bnEvalStage e ⟨1 / 100, 1 / 10⟩ 2 ⟨false, [1, 2], [3, 8], [0, 1], [5, 6], 0⟩ rfl ?_ ?_).run (z := #[7, 9]) rfl
    (total_bnEvalInvStage _ _ _ _ rfl _ _ _)
  · intro j hj
    interval_cases j <;> norm_num
  · intro j hj
    have hsp : ∀ x : ℝ, 0 ≤ (NF.realX e).softplus x := by
      intro x
      rw [NF.realX_softplus]
      split_ifs with h
      · linarith
      · exact Real.log_nonneg (by linarith [Real.exp_pos x])
    have := hsp (([0, 1] : List ℝ).getD j (NF.realX e).zero)
    show (NF.realX e).softplus _ + 1 / 100 ≠ 0
    linarith

/-- `LULinear` with `n = 2`, lower `[3]`, upper `[5]`, `udiag = [0, 1]`, bias `[1, -1]`, `eps = 1/1000`, the row `[1, 2]` -/
example (e : Float → ℝ) :
    ∃ s d, luInvStage (NF.realX e) 2 pLU 1 #[1, 2] #[] = .ok (s, [d]) ∧ s.size = 2 ∧
      luStage (NF.realX e) 2 pLU 1 s #[] = .ok (#[1, 2], [-d]) :=
  (roundTrip_luStage e pLU rfl pLU_eps rfl).run (z := #[1, 2]) rfl (total_passStage _ _ _ _ _ _)

/-- `QRLinear` with two non-trivial reflections -/
example (e : Float → ℝ) :
    ∃ s d, qrInvStage (NF.realX e) 2 pQR 1 #[1, 2] #[] = .ok (s, [d]) ∧ s.size = 2 ∧
      qrStage (NF.realX e) 2 pQR 1 s #[] = .ok (#[1, 2], [-d]) :=
  (roundTrip_qrStage e pQR _ rfl vs_ex_ne rfl rfl).run (z := #[1, 2]) rfl (total_passStage _ _ _ _ _ _)

/-- `SVDLinear` with one reflection on each side -/
example (e : Float → ℝ) :
    ∃ s d, svdInvStage (NF.realX e) 2 pSVD 1 #[1, 2] #[] = .ok (s, [d]) ∧ s.size = 2 ∧
      svdStage (NF.realX e) 2 pSVD 1 s #[] = .ok (#[1, 2], [-d]) :=
  (roundTrip_svdStage e pSVD _ _ rfl rfl v12_ne v03_ne rfl pSVD_eps rfl).run (z := #[1, 2]) rfl (total_passStage _ _ _ _ _ _)

/-- a Householder sequence of two reflections -/
example (e : Float → ℝ) :
    ∃ s d, hhInvStage (NF.realX e) 2 ([![1, 2], ![0, 3]].map List.ofFn) 1 #[1, 2] #[] = .ok (s, [d]) ∧ s.size = 2 ∧
      hhStage (NF.realX e) 2 ([![1, 2], ![0, 3]].map List.ofFn) 1 s #[] = .ok (#[1, 2], [-d]) :=
  (roundTrip_hhStage e _ vs_ex_ne).run (z := #[1, 2]) rfl (total_passStage _ _ _ _ _ _)

/-- `NaiveLinear` with the weight `[[0, 2], [1, 1]]` (`det = -2`; the elimination needs a row swap), bias `[1, -1]` -/
example (e : Float → ℝ) :
    ∃ s d, naiveInvStage (NF.realX e) 2 2 (ofMat !![0, 2; 1, 1]) [1, -1] 1 #[1, 2] #[] = .ok (s, [d]) ∧ s.size = 2 ∧
      naiveStage (NF.realX e) 2 2 (ofMat !![0, 2; 1, 1]) [1, -1] 1 s #[] = .ok (#[1, 2], [-d]) :=
  (roundTrip_naiveStage e !![0, 2; 1, 1] (by rw [NaiveGauss.det_ex2]; norm_num) [1, -1] rfl).run (z := #[1, 2]) rfl
    (total_passStage _ _ _ _ _ _)

/-- the permutation hypothesis is forced: for the list `[0, 0]` (right length, entries in range, not injective) `argsort` is `[0, 2]`,
    the inverse pass sends `[5, 7]` to `[5, 0]` and the forward pass returns `[5, 5]` -/
example : ¬ RoundTripEq intX (fun z => z.size = 2) (fun s => s.size = 2) (permStage intX 2 [0, 0]) (permInvStage intX 2 [0, 0]) := by
  intro h
  obtain ⟨-, d, -, hT⟩ := h #[5, 7] #[] #[5, 0] [0] rfl (by decide +kernel)
  have h2 : permStage intX 2 [0, 0] 1 #[5, 0] #[] = .ok (#[5, 5], [0]) := by decide +kernel
  rw [h2] at hT
  simp at hT

end examples

section examples2
open NonlinExec

theorem nonlinStage_accepts (e : Float → ℝ) (kind : String) (ds : Array Float) (ps : List ℝ) (inverse : Bool) (z ctx : Array ℝ)
    (h : ∀ y ∈ z.toList, ∃ r, nonlinEl (NF.realX e) kind ds ps inverse y = .ok r) :
    ∃ r, nonlinStage (NF.realX e) kind ds ps inverse 1 z ctx = .ok r :=
  ⟨_, ofT_of_err_none ((nonlinApply_err_none_iff e kind ds ps 1 z inverse).2 h)⟩

private theorem fq1 : ((1e-6:Float) == 1e-6) = true := by decide +kernel
private theorem fq2 : (((1:Float) - 1e-6) == 1e-6) = false := by decide +kernel

/-- `Sigmoid(temperature=2, eps=1e-6)` at the reading `NonlinExec.eSig`, the row `[1/4, 1/2]` (inside the clamp) -/
example :
    ∃ s d, nonlinStage (NF.realX eSig) "Sigmoid" #[1e-6] [2] true 1 #[1 / 4, 1 / 2] #[] = .ok (s, [d]) ∧ s.size = 2 ∧
      nonlinStage (NF.realX eSig) "Sigmoid" #[1e-6] [2] false 1 s #[] = .ok (#[1 / 4, 1 / 2], [-d]) := by
  have hds : (#[1e-6] : Array Float).getD 0 0.0 = 1e-6 := rfl
  refine (roundTrip_nonlinStage_sigmoid eSig #[1e-6] [2] (by rw [hds]; exact sigmoidClamp_example) (by norm_num) 2).run
    (z := #[1 / 4, 1 / 2]) ⟨rfl, ?_⟩ (nonlinStage_accepts _ _ _ _ _ _ _ ?_)
  · intro y hy
    rw [hds]
    simp only [List.mem_cons, List.not_mem_nil, or_false] at hy
    rcases hy with rfl | rfl <;> (simp only [eSig, fq1, fq2]; norm_num)
  · intro y hy
    simp only [List.mem_cons, List.not_mem_nil, or_false] at hy
    rw [nonlinEl_Sigmoid]
    rcases hy with rfl | rfl <;> exact ⟨_, sigmoidT_inv_run _ _ _ (by norm_num) (by norm_num)⟩

/-- `Logit(temperature=2, eps=1e-6)`, the row `[0, 0]` (`σ(0) = 1/2` is inside the clamp) -/
example :
    ∃ s d, nonlinStage (NF.realX eSig) "Logit" #[1e-6] [2] true 1 #[0, 0] #[] = .ok (s, [d]) ∧ s.size = 2 ∧
      nonlinStage (NF.realX eSig) "Logit" #[1e-6] [2] false 1 s #[] = .ok (#[0, 0], [-d]) := by
  have hds : (#[1e-6] : Array Float).getD 0 0.0 = 1e-6 := rfl
  have hg : gate (([2] : List ℝ).getD 0 0 * 0) = 1 / 2 := by unfold gate; norm_num
  refine (roundTrip_nonlinStage_logit eSig #[1e-6] [2] (by norm_num) 2).run
    (z := #[0, 0]) ⟨rfl, ?_⟩ (nonlinStage_accepts _ _ _ _ _ _ _ ?_)
  · intro y hy
    simp only [List.mem_cons, List.not_mem_nil, or_false, or_self] at hy
    subst hy
    rw [hds, hg]
    simp only [eSig, fq1, fq2]; norm_num
  · intro y _
    rw [nonlinEl_Logit]
    exact ⟨_, sigmoidT_fwd_run _ _ _ _⟩

/-- `CauchyCDF` and `LogTanh`: the theorems apply at the readings `eCauchy` / `eLT` of `Lemmas/NonlinExecLT.lean` (conditional on
    the `Float.log` disequalities, `Float.log` being opaque to the kernel) -/
example (h1 : (-(Float.log 3.141592653589793) == 3.141592653589793) = false)
    (h2 : (-(Float.log 3.141592653589793) == 1 / 3.141592653589793) = false)
    (h3 : (-(Float.log 3.141592653589793) == 0.5) = false) :
    ∃ s d, nonlinStage (NF.realX eCauchy) "CauchyCDF" #[] [] true 1 #[1 / 4, 1 / 2] #[] = .ok (s, [d]) ∧ s.size = 2 ∧
      nonlinStage (NF.realX eCauchy) "CauchyCDF" #[] [] false 1 s #[] = .ok (#[1 / 4, 1 / 2], [-d]) := by
  refine (roundTrip_nonlinStage_cauchy eCauchy #[] [] (cauchyConsts_example h1 h2 h3) 2).run
    (z := #[1 / 4, 1 / 2]) ⟨rfl, ?_⟩ (nonlinStage_accepts _ _ _ _ _ _ _ ?_)
  · intro y hy
    simp only [List.mem_cons, List.not_mem_nil, or_false] at hy
    rcases hy with rfl | rfl <;> norm_num
  · intro y hy
    simp only [List.mem_cons, List.not_mem_nil, or_false] at hy
    rw [nonlinEl_cauchy]
    rcases hy with rfl | rfl <;> exact ⟨_, cauchyT_inv_run _ _ (by norm_num) (by norm_num)⟩

example (n : Nat) (h1 : (-(Float.log 3.141592653589793) == 3.141592653589793) = false)
    (h2 : (-(Float.log 3.141592653589793) == 1 / 3.141592653589793) = false)
    (h3 : (-(Float.log 3.141592653589793) == 0.5) = false) :=
  roundTrip_nonlinStage_cauchyInverse eCauchy #[] [] (cauchyConsts_example h1 h2 h3) n

/-- `LogTanh(cut_point=1)` at the reading `NonlinExec.eLT`: `Float.tanh` / `Float.exp` / `Float.log` are opaque to the kernel, so the
    three derived constants and the five key disequalities enter as hypotheses (all true by evaluation) -/
example (n : Nat) (hk : logTanhConsts 1.0 = (0.7615941559557649, 0.35798500798800026, 8.393411634737944))
    (h1 : (-(Float.log (0.35798500798800026 * 8.393411634737944)) == 1.0) = false)
    (h2 : (-(Float.log (0.35798500798800026 * 8.393411634737944)) == 0.7615941559557649) = false)
    (h3 : (-(Float.log (0.35798500798800026 * 8.393411634737944)) == 0.35798500798800026) = false)
    (h4 : (-(Float.log (0.35798500798800026 * 8.393411634737944)) == 8.393411634737944) = false)
    (h5 : (-(Float.log (0.35798500798800026 * 8.393411634737944)) == 0.5) = false) :=
  roundTrip_nonlinStage_logTanh eLT #[1.0] [] (c := 1) (a := aLib 1) (b := bLib 1)
    (by
      rw [show (#[1.0] : Array Float).getD 0 0.0 = 1.0 from rfl, hk]
      exact logTanhConsts_example h1 h2 h3 h4 h5) n

end examples2

section glowExamples

/-- a stack of valid blocks whose coupling families never raise in the inverse direction accepts every inverse call -/
theorem total_glowInv (e : Float → ℝ) (w : Nat) (blocks : List GlowBlock)
    (herr : ∀ b ∈ blocks, ∀ B x params, (couplingApply (NF.realX e) b.cfg b.mask B b.S x params true none b.up).err = none) :
    TotalStage (glowInv e w blocks) := by
  apply total_compStage
  intro t ht
  simp only [List.mem_map, List.mem_reverse] at ht
  obtain ⟨p, hp, rfl⟩ := ht
  obtain ⟨b, hb, hpb⟩ := mem_glowPairs hp
  simp only [GlowBlock.pairs, List.mem_cons, List.not_mem_nil, or_false] at hpb
  rcases hpb with rfl | rfl | rfl
  · exact total_actInvStage _ _ _
  · exact total_passStage _ _ _
  · exact total_couplingStage _ _ _ _ _ _ _ (herr b hb)

/-- the constant conditioner (any widths) is row-wise -/
theorem netRowWise_const {α : Type} (win cin wout : Nat) (v : α) :
    NetRowWise win cin wout (fun B _ _ => Array.replicate (B * wout) v) := by
  intro B B' b b' x x' c c' hb hb' _ _ k hk
  have h1 : b * wout + k < B * wout := lt_mul_of hb hk
  have h2 : b' * wout + k < B' * wout := lt_mul_of hb' hk
  simp [h1, h2]

/-- block 1: initialised ActNorm (`log_scale = [2, 3]`, `shift = [1, 1]`), `LULinear` `pLU`, affine coupling with mask `[1, 0]` and
    the constant conditioner `1/2` -/
noncomputable def exBlockA : GlowBlock :=
  { act := ⟨true, true, [2, 3], [1, 1], 1⟩, lu := pLU, cfg := { kind := "affine" }, mask := [1, 0], S := 1, up := #[], up' := #[],
    net := fun B _ _ => Array.replicate (B * (paramWidth { kind := "affine" } (transformIdx (NF.realX fun _ => 0) [1, 0]).length * 1))
      (1 / 2) }

/-- block 2: ActNorm in evaluation mode, the same `LULinear`, additive coupling with mask `[0, 1]` -/
noncomputable def exBlockB : GlowBlock :=
  { act := ⟨false, false, [0, -1], [3, 4], 0⟩, lu := pLU, cfg := { kind := "additive" }, mask := [0, 1], S := 1, up := #[],
    up' := #[],
    net := fun B _ _ => Array.replicate (B * (paramWidth { kind := "additive" } (transformIdx (NF.realX fun _ => 0) [0, 1]).length * 1))
      (1 / 3) }

theorem exBlockA_valid (cw : Nat) : exBlockA.Valid (fun _ => 0) 2 cw :=
  GlowBlock.valid_affine le_rfl rfl (Or.inl rfl) rfl rfl pLU_eps rfl rfl (netRowWise_const _ _ _ _)

theorem exBlockB_valid (cw : Nat) : exBlockB.Valid (fun _ => 0) 2 cw :=
  GlowBlock.valid_additive rfl (Or.inr rfl) rfl rfl pLU_eps rfl rfl (netRowWise_const _ _ _ _)

theorem exBlocks_valid (cw : Nat) : ∀ b ∈ [exBlockA, exBlockB], b.Valid (fun _ => 0) 2 cw := by
  intro b hb
  simp only [List.mem_cons, List.not_mem_nil, or_false] at hb
  rcases hb with rfl | rfl
  · exact exBlockA_valid cw
  · exact exBlockB_valid cw

/-- **two Glow-style blocks of width 2, the row `[1, 2]`**: the inverse composite (six stages) is accepted and the forward composite
    returns the row exactly with the negated log-det -/
example (ctx : Array ℝ) :
    ∃ s d, glowInv (fun _ => 0) 2 [exBlockA, exBlockB] 1 #[1, 2] ctx = .ok (s, [d]) ∧ s.size = 2 ∧
      glowFwd (fun _ => 0) 2 [exBlockA, exBlockB] 1 s ctx = .ok (#[1, 2], [-d]) :=
  (roundTrip_glow (exBlocks_valid 0)).run (z := #[1, 2]) rfl
    (total_glowInv _ 2 _ (by
      intro b hb
      simp only [List.mem_cons, List.not_mem_nil, or_false] at hb
      rcases hb with rfl | rfl
      · exact fun B x params => coupling_affine_err_none _ _ rfl _ B 1 x params _ true
      · exact fun B x params => coupling_additive_err_none _ _ rfl _ B 1 x params _ true) 1 _ _)

/-- **the C04 headline instantiated at the two concrete blocks**: every hypothesis on the transform is discharged; what is left
    are the hypotheses on the embedding net, the base density and the sample itself -/
example {rcw cw R n : Nat} {emb : Nat → Array ℝ → Array ℝ} {base : BaseD ℝ} {noise ctx : Array ℝ}
    (hbase : RowIndepBase cw base) (hemb : EmbRowWise rcw cw emb) (hsize : R * cw ≤ (emb R ctx).size)
    {s : Array ℝ} {lps : List ℝ}
    (h : flowSalpExec (NF.realX fun _ => 0) 2 cw R n emb (glowInv (fun _ => 0) 2 [exBlockA, exBlockB]) base noise ctx
      = .ok (s, lps))
    {i j : Nat} (hi : i < R) (hj : j < n) (zr cr : Array ℝ) (hzr : zr.size = 2)
    (hz : RowEq 2 (i * n + j) 0 noise zr) (hc : RowEq rcw i 0 ctx cr) :
    ∃ (si : Array ℝ) (lp : ℝ), RowEq 2 (i * n + j) 0 s si ∧ lps[i * n + j]? = some lp ∧
      flowLogProbExec (NF.realX fun _ => 0) 2 emb (glowFwd (fun _ => 0) 2 [exBlockA, exBlockB]) base 1 si cr = .ok [lp] :=
  flowSalpExec_consistent_glow (exBlocks_valid cw) hbase hemb hsize h hi hj zr cr hzr hz hc

/-- … and the one-block form, stages spelled out -/
example {rcw cw R n : Nat} {emb : Nat → Array ℝ → Array ℝ} {base : BaseD ℝ} {noise ctx : Array ℝ}
    (hbase : RowIndepBase cw base) (hemb : EmbRowWise rcw cw emb) (hsize : R * cw ≤ (emb R ctx).size)
    {s : Array ℝ} {lps : List ℝ}
    (h : flowSalpExec (NF.realX fun _ => 0) 2 cw R n emb
      (compStage (NF.realX fun _ => 0) [couplingStage (NF.realX fun _ => 0) { kind := "affine" } [1, 0] 1 true none #[] exBlockA.net,
        luInvStage (NF.realX fun _ => 0) 2 pLU, actInvStage (NF.realX fun _ => 0) 2 ⟨true, true, [2, 3], [1, 1], 1⟩])
      base noise ctx = .ok (s, lps))
    {i j : Nat} (hi : i < R) (hj : j < n) (zr cr : Array ℝ) (hzr : zr.size = 2)
    (hz : RowEq 2 (i * n + j) 0 noise zr) (hc : RowEq rcw i 0 ctx cr) :
    ∃ (si : Array ℝ) (lp : ℝ), RowEq 2 (i * n + j) 0 s si ∧ lps[i * n + j]? = some lp ∧
      flowLogProbExec (NF.realX fun _ => 0) 2 emb
        (compStage (NF.realX fun _ => 0) [actStage (NF.realX fun _ => 0) 2 ⟨true, true, [2, 3], [1, 1], 1⟩,
          luStage (NF.realX fun _ => 0) 2 pLU,
          couplingStage (NF.realX fun _ => 0) { kind := "affine" } [1, 0] 1 false none #[] exBlockA.net]) base 1 si cr = .ok [lp] :=
  flowSalpExec_consistent_glow_block (b := exBlockA) (exBlockA_valid cw) hbase hemb hsize h hi hj zr cr hzr hz hc

end glowExamples

end NF.StageMore
