import Mathlib.Probability.Distributions.Gaussian.Real
import Mathlib.Tactic

namespace MoG


noncomputable section
open MeasureTheory ProbabilityTheory Real Finset

variable {M : ℕ}
/-- one feature of `MixtureOfGaussiansMADE.log_prob` (nn/nde/made.py:337-350) before the sum over features:
    logsumexp_k ( log π_k - ½ (log 2π + 2 log σ_k + ((x-μ_k)/σ_k)²) ) -/
def mogTerm (logpi μ σ : Fin M → ℝ) (x : ℝ) (k : Fin M) : ℝ :=
  logpi k - (1/2) * (Real.log (2*π) + 2 * Real.log (σ k) + ((x - μ k) / σ k)^2)
def mogLogp (logpi μ σ : Fin M → ℝ) (x : ℝ) : ℝ := Real.log (∑ k, Real.exp (mogTerm logpi μ σ x k))

def var (s : ℝ) (hs : 0 < s) : NNReal := ⟨s^2, by positivity⟩
@[simp] theorem var_coe (s : ℝ) (hs : 0 < s) : ((var s hs : NNReal) : ℝ) = s^2 := rfl
theorem var_ne_zero (s : ℝ) (hs : 0 < s) : var s hs ≠ 0 := by
  intro h; have := congrArg NNReal.toReal h
  rw [var_coe] at this; simp at this; exact hs.ne' this

theorem term_eq (logpi μ σ : Fin M → ℝ) (hσ : ∀ k, 0 < σ k) (x : ℝ) (k : Fin M) :
    Real.exp (mogTerm logpi μ σ x k) = Real.exp (logpi k) * gaussianPDFReal (μ k) (var (σ k) (hσ k)) x := by
  unfold mogTerm gaussianPDFReal
  have h2pi : (0:ℝ) < 2 * π := by positivity
  have hs := hσ k
  simp only [var_coe]
  rw [Real.exp_sub]
  have hsq : Real.sqrt (2 * π * (σ k)^2) = Real.sqrt (2*π) * σ k := by
    rw [Real.sqrt_mul h2pi.le, Real.sqrt_sq hs.le]
  rw [hsq]
  have e : Real.exp ((1/2) * (Real.log (2*π) + 2 * Real.log (σ k) + ((x - μ k) / σ k)^2))
      = Real.sqrt (2*π) * σ k * Real.exp (((x - μ k) / σ k)^2 / 2) := by
    have : (1/2) * (Real.log (2*π) + 2 * Real.log (σ k) + ((x - μ k) / σ k)^2)
        = (1/2) * Real.log (2*π) + Real.log (σ k) + ((x - μ k) / σ k)^2 / 2 := by ring
    rw [this, Real.exp_add, Real.exp_add, Real.exp_log hs]
    congr 2
    rw [Real.sqrt_eq_rpow, Real.rpow_def_of_pos h2pi]; ring_nf
  rw [e]
  have h1 : Real.sqrt (2*π) ≠ 0 := (Real.sqrt_pos.mpr h2pi).ne'
  have e2 : -(x - μ k)^2 / (2 * (σ k)^2) = -(((x - μ k) / σ k)^2 / 2) := by
    have := hs.ne'; field_simp
  rw [e2, Real.exp_neg]
  have := hs.ne'
  field_simp

/-- the per-feature conditional integrates to one when the mixture weights do -/
theorem mog_feature_normalised (logpi μ σ : Fin M → ℝ) (hσ : ∀ k, 0 < σ k) (hpi : ∑ k, Real.exp (logpi k) = 1) :
    ∫ x, Real.exp (mogLogp logpi μ σ x) = 1 := by
  have hpos : ∀ x, 0 < ∑ k, Real.exp (mogTerm logpi μ σ x k) := by
    intro x
    have hM : (univ : Finset (Fin M)).Nonempty := by
      by_contra hc
      rw [Finset.not_nonempty_iff_eq_empty] at hc
      rw [hc] at hpi; simp at hpi
    exact Finset.sum_pos (fun k _ => Real.exp_pos _) hM
  have h1 : ∀ x, Real.exp (mogLogp logpi μ σ x) = ∑ k, Real.exp (logpi k) * gaussianPDFReal (μ k) (var (σ k) (hσ k)) x := by
    intro x; unfold mogLogp; rw [Real.exp_log (hpos x)]
    exact Finset.sum_congr rfl (fun k _ => term_eq logpi μ σ hσ x k)
  simp_rw [h1]
  rw [integral_finsetSum]
  · simp_rw [integral_const_mul, integral_gaussianPDFReal_eq_one _ (var_ne_zero _ (hσ _)), mul_one]
    exact hpi
  · intro k _
    exact (integrable_gaussianPDFReal _ _).const_mul _


end
end MoG
