import NflowsModel.Lemmas.Glue
import Mathlib.Analysis.Calculus.Deriv.Basic
import Mathlib.Topology.Order.Basic
import Mathlib.Tactic
/-!
# Lemmas/ExecGlue — from "search a bin, evaluate that bin's formula" to a statement about the WHOLE function

The executed splines all have the shape `F x = f (idx x) x` where `idx` is what `searchsorted` returns.  Given the search
specification (`idx x < K`, `knot (idx x) ≤ x`, and `x < knot (idx x + 1)` unless `x` is the closed right end) and
continuity of the per-bin formulas at the interior knots, `F` coincides with `f k` on each CLOSED bin, so per-bin
monotonicity / derivative statements lift to `F` itself.  Nothing here is specific to a spline family.
-/
namespace ExecGlue
open Glue

variable (xs : ℕ → ℝ) (K : ℕ) (f : ℕ → ℝ → ℝ) (F : ℝ → ℝ) (idx : ℝ → ℕ)

theorem knots_mono (hx : ∀ k < K, xs k < xs (k+1)) : ∀ j k, j ≤ k → k ≤ K → xs j ≤ xs k := by
  intro j k hjk hkK
  induction k with
  | zero => have : j = 0 := by omega
            subst this; exact le_rfl
  | succ n ih =>
    rcases Nat.lt_or_ge j (n+1) with h | h
    · exact le_trans (ih (by omega) (by omega)) (hx n (by omega)).le
    · have : j = n+1 := by omega
      subst this; exact le_rfl

theorem knots_strict (hx : ∀ k < K, xs k < xs (k+1)) : ∀ a b, a < b → b ≤ K → xs a < xs b := by
  intro a b hab hbK
  exact lt_of_lt_of_le (hx a (by omega)) (knots_mono xs K hx (a+1) b hab hbK)

/-- the search specification every executed spline satisfies (proved for the executed `searchsortedG` in
    `Properties.C20.searchsorted_spec`) -/
def SearchSpec : Prop :=
  ∀ x, xs 0 ≤ x → x ≤ xs K → idx x < K ∧ xs (idx x) ≤ x ∧ (x < xs (idx x + 1) ∨ (idx x + 1 = K ∧ x = xs K))

/-- **on each closed bin the searched function is that bin's formula** (at the right knot because adjacent formulas agree there) -/
theorem eqOn_bin (hx : ∀ k < K, xs k < xs (k+1)) (spec : SearchSpec xs K idx)
    (hF : ∀ x, xs 0 ≤ x → x ≤ xs K → F x = f (idx x) x)
    (hjoin : ∀ k, k + 1 < K → f k (xs (k+1)) = f (k+1) (xs (k+1)))
    (k : ℕ) (hk : k < K) : Set.EqOn F (f k) (Set.Icc (xs k) (xs (k+1))) := by
  intro x hxk
  have hmono := knots_mono xs K hx
  have hstrict := knots_strict xs K hx
  have hlo : xs 0 ≤ x := le_trans (hmono 0 k (Nat.zero_le _) hk.le) hxk.1
  have hhi : x ≤ xs K := le_trans hxk.2 (hmono (k+1) K hk le_rfl)
  obtain ⟨hiK, hle, hr⟩ := spec x hlo hhi
  rw [hF x hlo hhi]
  set i := idx x with hi
  have h_ge : k ≤ i := by
    by_contra hlt
    have hlt' : i + 1 ≤ k := by omega
    rcases hr with hr | ⟨hiK', _⟩
    · have : xs (i+1) ≤ xs k := hmono (i+1) k hlt' hk.le
      linarith [hxk.1]
    · omega
  have h_le : i ≤ k + 1 := by
    by_contra hgt
    have : xs (k+1) < xs i := hstrict (k+1) i (by omega) hiK.le
    linarith [hxk.2]
  rcases Nat.eq_or_lt_of_le h_ge with heq | hlt
  · rw [← heq]
  · have hik : i = k + 1 := by omega
    have hxk' : x = xs (k+1) := le_antisymm hxk.2 (hik ▸ hle)
    rw [hik, hxk', hjoin k (by omega)]

/-- per-bin strict monotonicity lifts to the whole searched function -/
theorem strictMonoOn_whole (hx : ∀ k < K, xs k < xs (k+1)) (spec : SearchSpec xs K idx)
    (hF : ∀ x, xs 0 ≤ x → x ≤ xs K → F x = f (idx x) x)
    (hjoin : ∀ k, k + 1 < K → f k (xs (k+1)) = f (k+1) (xs (k+1)))
    (hmono : ∀ k < K, StrictMonoOn (f k) (Set.Icc (xs k) (xs (k+1)))) :
    StrictMonoOn F (Set.Icc (xs 0) (xs K)) := by
  apply glue_strictMonoOn F xs K hx
  intro k hk
  exact (hmono k hk).congr (eqOn_bin xs K f F idx hx spec hF hjoin k hk).symm

theorem left_value (hK : 0 < K) (hx : ∀ k < K, xs k < xs (k+1)) (spec : SearchSpec xs K idx)
    (hF : ∀ x, xs 0 ≤ x → x ≤ xs K → F x = f (idx x) x)
    (hjoin : ∀ k, k + 1 < K → f k (xs (k+1)) = f (k+1) (xs (k+1))) : F (xs 0) = f 0 (xs 0) :=
  eqOn_bin xs K f F idx hx spec hF hjoin 0 hK ⟨le_rfl, (hx 0 hK).le⟩

theorem right_value (hK : 0 < K) (hx : ∀ k < K, xs k < xs (k+1)) (spec : SearchSpec xs K idx)
    (hF : ∀ x, xs 0 ≤ x → x ≤ xs K → F x = f (idx x) x)
    (hjoin : ∀ k, k + 1 < K → f k (xs (k+1)) = f (k+1) (xs (k+1))) : F (xs K) = f (K-1) (xs K) := by
  have hk : K - 1 < K := by omega
  have hK1 : K - 1 + 1 = K := by omega
  have := eqOn_bin xs K f F idx hx spec hF hjoin (K-1) hk (x := xs K)
    ⟨knots_mono xs K hx (K-1) K (by omega) le_rfl, by rw [hK1]⟩
  exact this

/-- inside an open bin the searched function has the derivative of that bin's formula -/
theorem hasDerivAt_in_bin (hx : ∀ k < K, xs k < xs (k+1)) (spec : SearchSpec xs K idx)
    (hF : ∀ x, xs 0 ≤ x → x ≤ xs K → F x = f (idx x) x)
    (hjoin : ∀ k, k + 1 < K → f k (xs (k+1)) = f (k+1) (xs (k+1)))
    (k : ℕ) (hk : k < K) (x d : ℝ) (h0 : xs k < x) (h1 : x < xs (k+1)) (hd : HasDerivAt (f k) d x) :
    HasDerivAt F d x := by
  have heq := eqOn_bin xs K f F idx hx spec hF hjoin k hk
  have hev : F =ᶠ[nhds x] f k := by
    have hmem : Set.Ioo (xs k) (xs (k+1)) ∈ nhds x := Ioo_mem_nhds h0 h1
    exact Filter.eventuallyEq_of_mem hmem (fun z hz => heq ⟨hz.1.le, hz.2.le⟩)
  exact hd.congr_of_eventuallyEq hev

/-- the searched function maps the whole interval into `[F (xs 0), F (xs K)]` -/
theorem mapsTo_whole (hx : ∀ k < K, xs k < xs (k+1)) (spec : SearchSpec xs K idx)
    (hF : ∀ x, xs 0 ≤ x → x ≤ xs K → F x = f (idx x) x)
    (hjoin : ∀ k, k + 1 < K → f k (xs (k+1)) = f (k+1) (xs (k+1)))
    (hmono : ∀ k < K, StrictMonoOn (f k) (Set.Icc (xs k) (xs (k+1)))) :
    Set.MapsTo F (Set.Icc (xs 0) (xs K)) (Set.Icc (F (xs 0)) (F (xs K))) := by
  intro x hxm
  have hm := (strictMonoOn_whole xs K f F idx hx spec hF hjoin hmono).monotoneOn
  have h0K : xs 0 ≤ xs K := knots_mono xs K hx 0 K (Nat.zero_le _) le_rfl
  exact ⟨hm ⟨le_rfl, h0K⟩ hxm hxm.1, hm hxm ⟨h0K, le_rfl⟩ hxm.2⟩

end ExecGlue
