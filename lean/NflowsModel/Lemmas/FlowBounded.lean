import NflowsModel.Lemmas.FlowPushforward
import NflowsModel.Lemmas.RQInverseWhole
import NflowsModel.Lemmas.RQDefaultWitness
import NflowsModel.Lemmas.QuadInverseWhole
import NflowsModel.Lemmas.CubicWhole
import NflowsModel.Lemmas.LinWhole
import NflowsModel.Lemmas.DistReal
import Mathlib.MeasureTheory.Measure.Lebesgue.Basic
import Mathlib.MeasureTheory.Integral.Bochner.Set
/-!
# Lemmas/FlowBounded — flows with BOUNDED support are normalised and sample their own density (C03, C04)

Answers audit finding C03-3 ("no statement for a flow on a box: bounded RQ / quadratic / cubic / linear spline without
tails with a `BoxUniform` base; the `∫ x in Icc left right, …` version is missing") and the bounded-support part of
C04-2 (b), (c).

* `BoxFlow T ld a b c d K`: `T` is a bijection of `[a,b]` onto `[c,d]`; at every point of the open interval outside a
  countable set `K` (the knots) it is differentiable with `|T'| = exp ld`.
* `box_change_of_variables`, `box_flow_normalised`, `box_flow_normalised_logprob`, `box_uniform_flow_normalised`,
  `box_executed_uniform_flow_normalised` (the base is the EXECUTED 1-D `BoxUniform` row of `Core/Density.lean`,
  density `0` outside `[low, high)`), `box_samples_follow_density`.
* instances: the executed bounded RQ program (no hypothesis beyond `RQValid`), the executed quadratic (both
  branches), cubic and linear programs (their log-abs-det contains the `Float` constant `boxLog`, read as the real
  logarithm: hypothesis `hbl`, as in their C01 theorems).
* the executed RQ pair as a `FlowFns0` of `Core/FlowPairing.lean`: `rqFlow`, `rq_flow0On`: every hypothesis of the C04
  theorems (`tfwd ∘ tinv = id`, `ldInv = −ld ∘ tinv`, the derivative law) is DISCHARGED from the whole-program
  theorems, so `rq_flow_samples_follow_logprob`, `rq_flow_normalised`, `rq_flow_salp_consistent` have `RQValid` as
  their only hypothesis about the transform.
-/
open MeasureTheory NF NF.Density NF.FlowPairing

namespace FlowBounded
noncomputable section

/-! ## a flow on a box -/

/-- `T` maps `[a,b]` one-to-one onto `[c,d]`; off the countable set `K`, inside `(a,b)`, it is differentiable and the
    absolute value of its derivative is `exp ld` (increasing or decreasing) -/
structure BoxFlow (T ld : ℝ → ℝ) (a b c d : ℝ) (K : Set ℝ) : Prop where
  hbij : Set.BijOn T (Set.Icc a b) (Set.Icc c d)
  hK : K.Countable
  hd : ∀ x ∈ Set.Ioo a b, x ∉ K → ∃ T', HasDerivAt T T' x ∧ |T'| = Real.exp (ld x)

variable {T ld : ℝ → ℝ} {a b c d : ℝ} {K : Set ℝ}

theorem BoxFlow.countable_exc (h : BoxFlow T ld a b c d K) : (K ∪ {a, b}).Countable :=
  h.hK.union ((Set.countable_singleton b).insert a)

theorem BoxFlow.mem_Ioo (x : ℝ) (hx : x ∈ Set.Icc a b \ (K ∪ {a, b})) : x ∈ Set.Ioo a b ∧ x ∉ K := by
  obtain ⟨⟨h0, h1⟩, hn⟩ := hx
  simp only [Set.mem_union, Set.mem_insert_iff, Set.mem_singleton_iff, not_or] at hn
  exact ⟨⟨lt_of_le_of_ne h0 (Ne.symm hn.2.1), lt_of_le_of_ne h1 hn.2.2⟩, hn.1⟩

theorem BoxFlow.deriv_within (h : BoxFlow T ld a b c d K) :
    ∀ x ∈ Set.Icc a b \ (K ∪ {a, b}), HasDerivWithinAt T (deriv T x) (Set.Icc a b \ (K ∪ {a, b})) x := by
  intro x hx
  obtain ⟨hI, hxK⟩ := BoxFlow.mem_Ioo x hx
  obtain ⟨T', hT, _⟩ := h.hd x hI hxK
  rw [hT.deriv]; exact hT.hasDerivWithinAt

theorem BoxFlow.deriv_abs (h : BoxFlow T ld a b c d K) :
    ∀ x ∈ Set.Icc a b \ (K ∪ {a, b}), |deriv T x| = Real.exp (ld x) := by
  intro x hx
  obtain ⟨hI, hxK⟩ := BoxFlow.mem_Ioo x hx
  obtain ⟨T', hT, habs⟩ := h.hd x hI hxK
  rw [hT.deriv]; exact habs

/-- **change of variables on the box**: `∫_{[c,d]} p = ∫_{[a,b]} p (T x) · exp (ld x) dx`, any `p` -/
theorem box_change_of_variables (h : BoxFlow T ld a b c d K) (p : ℝ → ℝ) :
    ∫ z in Set.Icc c d, p z = ∫ x in Set.Icc a b, p (T x) * Real.exp (ld x) := by
  rw [← h.hbij.image_eq]
  exact FlowPushforward.integral_image_countable_exception T (deriv T) ld p (Set.Icc a b) (K ∪ {a, b})
    measurableSet_Icc h.countable_exc h.hbij.injOn h.deriv_within h.deriv_abs

/-- **C03-3, general base**: a base density `g` that integrates to one over `[c,d]` is pulled back to a density that
    integrates to one over `[a,b]` -/
theorem box_flow_normalised (h : BoxFlow T ld a b c d K) (g : ℝ → ℝ) (hg : ∫ z in Set.Icc c d, g z = 1) :
    ∫ x in Set.Icc a b, g (T x) * Real.exp (ld x) = 1 := by
  rw [← box_change_of_variables h g, hg]

/-- in log form, as `Flow._log_prob` computes it: `exp (base.log_prob (T x) + logabsdet x)` -/
theorem box_flow_normalised_logprob (h : BoxFlow T ld a b c d K) (blp : ℝ → ℝ)
    (hg : ∫ z in Set.Icc c d, Real.exp (blp z) = 1) :
    ∫ x in Set.Icc a b, Real.exp (blp (T x) + ld x) = 1 := by
  simp_rw [Real.exp_add]
  exact box_flow_normalised h (fun z => Real.exp (blp z)) hg

/-- the uniform density on `[c,d]` integrates to one -/
theorem uniform_Icc_normalised (hcd : c < d) : ∫ _z in Set.Icc c d, Real.exp (-Real.log (d - c)) = 1 := by
  have hpos : 0 < d - c := sub_pos.mpr hcd
  rw [setIntegral_const, Real.volume_real_Icc_of_le hcd.le, Real.exp_neg, Real.exp_log hpos, smul_eq_mul]
  field_simp

/-- **C03-3, uniform base**: `log_prob x = −log (d − c) + ld x` integrates (after `exp`) to one over `[a,b]` -/
theorem box_uniform_flow_normalised (h : BoxFlow T ld a b c d K) (hcd : c < d) :
    ∫ x in Set.Icc a b, Real.exp (-Real.log (d - c) + ld x) = 1 :=
  box_flow_normalised_logprob h (fun _ => -Real.log (d - c)) (uniform_Icc_normalised hcd)

/-! ### the EXECUTED 1-D `BoxUniform` row as the base -/

section exec
variable (e : Float → ℝ)

theorem uniform1_inside (lo hi z : ℝ) : insideBox (NF.realX e) [lo] [hi] [z] = true ↔ lo ≤ z ∧ z < hi := by
  have := DistReal.insideBox_real e (fun _ : Fin 1 => lo) (fun _ => hi) (fun _ => z)
  simpa using this

theorem uniform1_row (lo hi z : ℝ) (hin : lo ≤ z ∧ z < hi) :
    boxUniformRow (NF.realX e) [lo] [hi] [z] = -Real.log (hi - lo) := by
  have := DistReal.boxUniformRow_real e (fun _ : Fin 1 => lo) (fun _ => hi) (fun _ => z) (fun _ => hin)
  simpa using this

/-- the density of the executed 1-D `BoxUniform(lo, hi)`: `exp` of the executed row inside the support `[lo, hi)`, `0`
    outside (as in `Properties.C05.boxUniform_normalised`) -/
def uniformDensity (lo hi z : ℝ) : ℝ :=
  if insideBox (NF.realX e) [lo] [hi] [z] = true then Real.exp (boxUniformRow (NF.realX e) [lo] [hi] [z]) else 0

theorem uniformDensity_eq (lo hi : ℝ) :
    uniformDensity e lo hi = (Set.Ico lo hi).indicator (fun _ => Real.exp (-Real.log (hi - lo))) := by
  funext z
  unfold uniformDensity
  by_cases hin : lo ≤ z ∧ z < hi
  · rw [if_pos ((uniform1_inside e lo hi z).mpr hin), uniform1_row e lo hi z hin, Set.indicator_of_mem (show z ∈ Set.Ico lo hi from hin)]
  · rw [if_neg (fun hc => hin ((uniform1_inside e lo hi z).mp hc)), Set.indicator_of_notMem (show z ∉ Set.Ico lo hi from hin)]

/-- the executed uniform density integrates to one over the closed box (the end point `hi`, where it is `0`, is null) -/
theorem uniformDensity_normalised (lo hi : ℝ) (hlh : lo < hi) : ∫ z in Set.Icc lo hi, uniformDensity e lo hi z = 1 := by
  have hpos : 0 < hi - lo := sub_pos.mpr hlh
  rw [uniformDensity_eq, integral_Icc_eq_integral_Ico, setIntegral_indicator measurableSet_Ico, Set.inter_self,
    setIntegral_const, Real.volume_real_Ico_of_le hlh.le, Real.exp_neg, Real.exp_log hpos, smul_eq_mul]
  field_simp

/-- **C03-3, executed uniform base**: the density of the flow "`T` on `[a,b] → [c,d]`, then the executed
    `BoxUniform(c, d)`": `exp (executed base row at T x + ld x)` where the base has support, `0` elsewhere -/
theorem box_executed_uniform_flow_normalised (h : BoxFlow T ld a b c d K) (hcd : c < d) :
    ∫ x in Set.Icc a b, (if insideBox (NF.realX e) [c] [d] [T x] = true
        then Real.exp (boxUniformRow (NF.realX e) [c] [d] [T x] + ld x) else 0) = 1 := by
  have := box_flow_normalised h (uniformDensity e c d) (uniformDensity_normalised e c d hcd)
  rw [← this]
  congr 1; funext x
  unfold uniformDensity
  split
  · rw [Real.exp_add]
  · simp

end exec

/-! ### samples on the box -/

/-- `Tinv` maps `[c,d]` into `[a,b]` and is a right inverse of `T` there: then it is a two-sided inverse -/
theorem BoxFlow.left_inv (h : BoxFlow T ld a b c d K) (Tinv : ℝ → ℝ)
    (hTinv : ∀ z ∈ Set.Icc c d, Tinv z ∈ Set.Icc a b ∧ T (Tinv z) = z) : ∀ x ∈ Set.Icc a b, Tinv (T x) = x := by
  intro x hx
  obtain ⟨hm, hr⟩ := hTinv (T x) (h.hbij.mapsTo hx)
  exact h.hbij.injOn hm hx hr

/-- **push-forward on the box (C04-2 b, c)**: noise `z` with density `p` on `[c,d]`, sample `Tinv z ∈ [a,b]`;
    P(sample ∈ A) = `∫_{A ∩ [a,b]} p (T x) · exp (ld x) dx` for every measurable `A` -/
theorem box_samples_follow_density (h : BoxFlow T ld a b c d K) (Tinv : ℝ → ℝ)
    (hTinv : ∀ z ∈ Set.Icc c d, Tinv z ∈ Set.Icc a b ∧ T (Tinv z) = z) (p : ℝ → ℝ) (A : Set ℝ) (hA : MeasurableSet A) :
    ∫ z in Tinv ⁻¹' A ∩ Set.Icc c d, p z = ∫ x in A ∩ Set.Icc a b, p (T x) * Real.exp (ld x) :=
  FlowPushforward.sample_event_probability_on T Tinv (deriv T) ld p (Set.Icc a b) (Set.Icc c d) (K ∪ {a, b})
    measurableSet_Icc h.countable_exc h.hbij.mapsTo (fun z hz => (hTinv z hz).1) (h.left_inv Tinv hTinv)
    (fun z hz => (hTinv z hz).2) h.deriv_within h.deriv_abs A hA

/-- a `FlowFns0` whose forward transform is a `BoxFlow` with inverse `tinv` meets `FlowPushforward.Flow0On` -/
theorem flow0On_of_boxFlow (f : FlowFns0 ℝ ℝ ℝ) (h : BoxFlow f.tfwd f.ld a b c d K) (hadd : ∀ u v, f.add u v = u + v)
    (hTinv : ∀ z ∈ Set.Icc c d, f.tinv z ∈ Set.Icc a b ∧ f.tfwd (f.tinv z) = z) :
    FlowPushforward.Flow0On f (Set.Icc a b) (Set.Icc c d) (K ∪ {a, b}) (deriv f.tfwd) where
  hadd := hadd
  hS := measurableSet_Icc
  hK := h.countable_exc
  hfwd := h.hbij.mapsTo
  hinv := fun z hz => (hTinv z hz).1
  hl := h.left_inv f.tinv hTinv
  hr := fun z hz => (hTinv z hz).2
  hd := h.deriv_within
  habs := h.deriv_abs

/-! ## from "differentiable inside every open bin" to `BoxFlow` -/

/-- a point strictly between the first and the last knot that is not a knot lies strictly inside a bin -/
theorem exists_bin (kn : ℕ → ℝ) (x : ℝ) (hne : ∀ k, x ≠ kn k) :
    ∀ n, kn 0 < x → x < kn n → ∃ k < n, kn k < x ∧ x < kn (k+1)
  | 0, h0, h1 => absurd h0 (not_lt.mpr h1.le)
  | n+1, h0, h1 => by
    by_cases hx : x < kn n
    · obtain ⟨k, hk, hh⟩ := exists_bin kn x hne n h0 hx
      exact ⟨k, by omega, hh⟩
    · exact ⟨n, by omega, lt_of_le_of_ne (not_lt.mp hx) (Ne.symm (hne n)), h1⟩

/-- a bijection of the box that is differentiable with derivative `exp ld` strictly inside each of the `n` bins
    `(kn k, kn (k+1))`, `kn 0 = a`, `kn n = b`, is a `BoxFlow`; the exceptional set is the set of knots -/
theorem boxFlow_of_bins (kn : ℕ → ℝ) (n : ℕ) (hbij : Set.BijOn T (Set.Icc a b) (Set.Icc c d))
    (h0 : kn 0 = a) (hn : kn n = b)
    (hd : ∀ k < n, ∀ x, kn k < x → x < kn (k+1) → HasDerivAt T (Real.exp (ld x)) x) :
    BoxFlow T ld a b c d (Set.range kn) where
  hbij := hbij
  hK := Set.countable_range kn
  hd := by
    intro x hx hxK
    obtain ⟨k, hk, hk0, hk1⟩ := exists_bin kn x (fun k hxk => hxK ⟨k, hxk.symm⟩) n (h0 ▸ hx.1) (hn ▸ hx.2)
    exact ⟨_, hd k hk x hk0 hk1, abs_of_pos (Real.exp_pos _)⟩

/-! ## the executed bounded rational-quadratic spline -/

section rq
variable {e : Float → ℝ} {cfg : RQCfg} {uw uh ud : List ℝ}

/-- the executed forward RQ program is a bijection of the box (strictly increasing + the executed inverse program is
    a right inverse) -/
theorem rq_bijOn (hv : RQWhole.RQValid e cfg uw uh ud) :
    Set.BijOn (RQWhole.val e cfg uw uh ud) (Set.Icc (e cfg.box.left) (e cfg.box.right))
      (Set.Icc (e cfg.box.bottom) (e cfg.box.top)) :=
  ⟨RQWhole.val_mapsTo hv, (RQWhole.val_strictMonoOn hv).injOn,
    fun y hy => ⟨RQInverseWhole.inv e cfg uw uh ud y, RQInverseWhole.inv_mapsTo hv hy, RQInverseWhole.val_inv hv y hy.1 hy.2⟩⟩

/-- **the executed bounded RQ spline is a `BoxFlow`** of `[left,right]` onto `[bottom,top]` with its own executed
    log-abs-det; exceptional set: the executed knots `xs k` -/
theorem rq_boxFlow (hv : RQWhole.RQValid e cfg uw uh ud) :
    BoxFlow (RQWhole.val e cfg uw uh ud) (RQWhole.ld e cfg uw uh ud) (e cfg.box.left) (e cfg.box.right)
      (e cfg.box.bottom) (e cfg.box.top) (Set.range (RQWhole.xs e cfg uw)) :=
  boxFlow_of_bins (RQWhole.xs e cfg uw) uw.length (rq_bijOn hv) (RQWhole.xs_zero hv) (RQWhole.xs_last hv)
    (fun k hk x h0 h1 => RQWhole.val_hasDerivAt hv k hk x h0 h1)

/-- **C03-3 for the executed RQ program, general base**: any base density `g` normalised on `[bottom, top]` -/
theorem rq_flow_normalised_base (hv : RQWhole.RQValid e cfg uw uh ud) (g : ℝ → ℝ)
    (hg : ∫ z in Set.Icc (e cfg.box.bottom) (e cfg.box.top), g z = 1) :
    ∫ x in Set.Icc (e cfg.box.left) (e cfg.box.right),
      g (RQWhole.val e cfg uw uh ud x) * Real.exp (RQWhole.ld e cfg uw uh ud x) = 1 :=
  box_flow_normalised (rq_boxFlow hv) g hg

/-- **C03-3 for the executed RQ program, uniform base**: `log_prob x = −log (top − bottom) + ld x` -/
theorem rq_uniform_flow_normalised (hv : RQWhole.RQValid e cfg uw uh ud) :
    ∫ x in Set.Icc (e cfg.box.left) (e cfg.box.right),
      Real.exp (-Real.log (e cfg.box.top - e cfg.box.bottom) + RQWhole.ld e cfg uw uh ud x) = 1 :=
  box_uniform_flow_normalised (rq_boxFlow hv) hv.hbt

/-- **… with the executed `BoxUniform(bottom, top)` row as the base** -/
theorem rq_executed_uniform_flow_normalised (hv : RQWhole.RQValid e cfg uw uh ud) :
    ∫ x in Set.Icc (e cfg.box.left) (e cfg.box.right),
      (if insideBox (NF.realX e) [e cfg.box.bottom] [e cfg.box.top] [RQWhole.val e cfg uw uh ud x] = true
        then Real.exp (boxUniformRow (NF.realX e) [e cfg.box.bottom] [e cfg.box.top] [RQWhole.val e cfg uw uh ud x]
              + RQWhole.ld e cfg uw uh ud x) else 0) = 1 :=
  box_executed_uniform_flow_normalised e (rq_boxFlow hv) hv.hbt

/-- the executed pair (forward program, inverse program) with a base log-density `blp`, as a flow of
    `Core/FlowPairing.lean`; `add`/`sub` are the model's real operations -/
def rqFlow (e : Float → ℝ) (cfg : RQCfg) (uw uh ud : List ℝ) (blp : ℝ → ℝ) : FlowFns0 ℝ ℝ ℝ where
  tinv := RQInverseWhole.inv e cfg uw uh ud
  ldInv := RQInverseWhole.invLd e cfg uw uh ud
  tfwd := RQWhole.val e cfg uw uh ud
  ld := RQWhole.ld e cfg uw uh ud
  blp := blp
  add := (NF.realX e).add
  sub := (NF.realX e).sub

/-- every hypothesis of the C04 theorems holds for the executed RQ flow -/
theorem rq_flow0On (hv : RQWhole.RQValid e cfg uw uh ud) (blp : ℝ → ℝ) :
    FlowPushforward.Flow0On (rqFlow e cfg uw uh ud blp) (Set.Icc (e cfg.box.left) (e cfg.box.right))
      (Set.Icc (e cfg.box.bottom) (e cfg.box.top))
      (Set.range (RQWhole.xs e cfg uw) ∪ {e cfg.box.left, e cfg.box.right}) (deriv (RQWhole.val e cfg uw uh ud)) :=
  flow0On_of_boxFlow (rqFlow e cfg uw uh ud blp) (rq_boxFlow hv) (fun _ _ => rfl)
    (fun z hz => ⟨RQInverseWhole.inv_mapsTo hv hz, RQInverseWhole.val_inv hv z hz.1 hz.2⟩)

/-- **C04 for the executed RQ flow**: noise with density `exp blp` on `[bottom, top]`, samples = executed inverse
    program applied to the noise; P(sample ∈ A) = `∫_{A ∩ [left,right]} exp (flowLogProb0 …)` -/
theorem rq_flow_samples_follow_logprob (hv : RQWhole.RQValid e cfg uw uh ud) (blp : ℝ → ℝ) (A : Set ℝ)
    (hA : MeasurableSet A) :
    ∫ z in RQInverseWhole.inv e cfg uw uh ud ⁻¹' A ∩ Set.Icc (e cfg.box.bottom) (e cfg.box.top), Real.exp (blp z)
      = ∫ x in A ∩ Set.Icc (e cfg.box.left) (e cfg.box.right), Real.exp (flowLogProb0 (rqFlow e cfg uw uh ud blp) x) :=
  FlowPushforward.flow0_samples_follow_logprob_on _ _ _ _ _ (rq_flow0On hv blp) A hA

/-- **C03-3 for the model term `flowLogProb0`** of the executed RQ flow -/
theorem rq_flow_normalised (hv : RQWhole.RQValid e cfg uw uh ud) (blp : ℝ → ℝ)
    (hg : ∫ z in Set.Icc (e cfg.box.bottom) (e cfg.box.top), Real.exp (blp z) = 1) :
    ∫ x in Set.Icc (e cfg.box.left) (e cfg.box.right), Real.exp (flowLogProb0 (rqFlow e cfg uw uh ud blp) x) = 1 := by
  have := rq_flow_samples_follow_logprob hv blp Set.univ MeasurableSet.univ
  simp only [Set.preimage_univ, Set.univ_inter] at this
  rw [← this, hg]

/-- **"exactly the value `log_prob` assigns" for the executed RQ flow (C04-4)**: for noise rows in `[bottom, top]`,
    entry `j` of what `flowSalp0` returns is `(inv z, flowLogProb0 (inv z))`; the C02 hypotheses `ldInv = −ld ∘ tinv`,
    `tfwd ∘ tinv = id` are discharged by `RQInverseWhole.invLd_eq_neg_ld`, `val_inv` -/
theorem rq_flow_salp_consistent (hv : RQWhole.RQValid e cfg uw uh ud) (blp : ℝ → ℝ) (N : List ℝ) (j : ℕ) (z : ℝ)
    (hz : N[j]? = some z) (hz0 : e cfg.box.bottom ≤ z) (hz1 : z ≤ e cfg.box.top) :
    (flowSalp0 (rqFlow e cfg uw uh ud blp) N).1[j]? = some (RQInverseWhole.inv e cfg uw uh ud z) ∧
    (flowSalp0 (rqFlow e cfg uw uh ud blp) N).2[j]?
      = some (flowLogProb0 (rqFlow e cfg uw uh ud blp) (RQInverseWhole.inv e cfg uw uh ud z)) := by
  have h1 : (flowSalp0 (rqFlow e cfg uw uh ud blp) N).1[j]? = some (RQInverseWhole.inv e cfg uw uh ud z) := by
    simp [flowSalp0, distSalp0, hz, rqFlow]
  have h2 : (flowSalp0 (rqFlow e cfg uw uh ud blp) N).2[j]?
      = some (blp z - RQInverseWhole.invLd e cfg uw uh ud z) := by
    simp [flowSalp0, distSalp0, hz, rqFlow]
  refine ⟨h1, ?_⟩
  rw [h2, RQInverseWhole.invLd_eq_neg_ld hv z hz0 hz1]
  show _ = some (blp (RQWhole.val e cfg uw uh ud (RQInverseWhole.inv e cfg uw uh ud z))
    + RQWhole.ld e cfg uw uh ud (RQInverseWhole.inv e cfg uw uh ud z))
  rw [RQInverseWhole.val_inv hv z hz0 hz1]
  congr 1; ring

/-! ### non-vacuity: the library defaults (`K = 3`, box `[-3,3]²`, non-zero parameters) and the unit box -/

theorem rq_default_example :
    ∫ x in Set.Icc (RQWhole.eH RQWhole.cH.box.left) (RQWhole.eH RQWhole.cH.box.right),
      Real.exp (-Real.log (RQWhole.eH RQWhole.cH.box.top - RQWhole.eH RQWhole.cH.box.bottom)
        + RQWhole.ld RQWhole.eH RQWhole.cH [0.3, -1.2, 2] [1, 0, -0.5] [0.1, 0.2, -3, 4] x) = 1 :=
  rq_uniform_flow_normalised RQWhole.valid_default

theorem rq_unit_example :
    ∫ x in Set.Icc (RQWhole.eNV RQWhole.cNV.box.left) (RQWhole.eNV RQWhole.cNV.box.right),
      (if insideBox (NF.realX RQWhole.eNV) [RQWhole.eNV RQWhole.cNV.box.bottom] [RQWhole.eNV RQWhole.cNV.box.top]
            [RQWhole.val RQWhole.eNV RQWhole.cNV [0] [0] [0, 0] x] = true
        then Real.exp (boxUniformRow (NF.realX RQWhole.eNV) [RQWhole.eNV RQWhole.cNV.box.bottom]
              [RQWhole.eNV RQWhole.cNV.box.top] [RQWhole.val RQWhole.eNV RQWhole.cNV [0] [0] [0, 0] x]
              + RQWhole.ld RQWhole.eNV RQWhole.cNV [0] [0] [0, 0] x) else 0) = 1 :=
  rq_executed_uniform_flow_normalised RQWhole.valid_example

end rq

/-! ## the executed quadratic, cubic and linear programs (their log-abs-det contains the constant `boxLog`) -/

section quad
variable {e : Float → ℝ} {cfg : QCfg} {uw uh : List ℝ}

theorem quad_boxFlow (hv : QuadWhole.QuadValid e cfg uw uh)
    (hbl : e (boxLog cfg.box) = Real.log ((e cfg.box.top - e cfg.box.bottom) / (e cfg.box.right - e cfg.box.left))) :
    BoxFlow (QuadWhole.val e cfg uw uh) (QuadWhole.ld e cfg uw uh) (e cfg.box.left) (e cfg.box.right)
      (e cfg.box.bottom) (e cfg.box.top) (Set.range (QuadWhole.xk e cfg uw)) :=
  boxFlow_of_bins (QuadWhole.xk e cfg uw) uw.length (QuadWhole.val_bijOn hv) (QuadWhole.xk_facts hv).1
    (QuadWhole.xk_facts hv).2.1 (fun k hk x h0 h1 => QuadWhole.val_hasDerivAt_x hv hbl k hk x h0 h1)

/-- C03-3 for the executed quadratic spline (heights of length `K+1`), uniform base and general base -/
theorem quad_uniform_flow_normalised (hv : QuadWhole.QuadValid e cfg uw uh)
    (hbl : e (boxLog cfg.box) = Real.log ((e cfg.box.top - e cfg.box.bottom) / (e cfg.box.right - e cfg.box.left))) :
    ∫ x in Set.Icc (e cfg.box.left) (e cfg.box.right),
      Real.exp (-Real.log (e cfg.box.top - e cfg.box.bottom) + QuadWhole.ld e cfg uw uh x) = 1 :=
  box_uniform_flow_normalised (quad_boxFlow hv hbl) hv.hbox.hbt

theorem quad_flow_normalised_base (hv : QuadWhole.QuadValid e cfg uw uh)
    (hbl : e (boxLog cfg.box) = Real.log ((e cfg.box.top - e cfg.box.bottom) / (e cfg.box.right - e cfg.box.left)))
    (g : ℝ → ℝ) (hg : ∫ z in Set.Icc (e cfg.box.bottom) (e cfg.box.top), g z = 1) :
    ∫ x in Set.Icc (e cfg.box.left) (e cfg.box.right),
      g (QuadWhole.val e cfg uw uh x) * Real.exp (QuadWhole.ld e cfg uw uh x) = 1 :=
  box_flow_normalised (quad_boxFlow hv hbl) g hg

/-- samples of the executed quadratic flow (executed inverse program applied to the noise) follow the density -/
theorem quad_samples_follow_density (hv : QuadWhole.QuadValid e cfg uw uh)
    (hbl : e (boxLog cfg.box) = Real.log ((e cfg.box.top - e cfg.box.bottom) / (e cfg.box.right - e cfg.box.left)))
    (p : ℝ → ℝ) (A : Set ℝ) (hA : MeasurableSet A) :
    ∫ z in QuadInverseWhole.inv e cfg uw uh ⁻¹' A ∩ Set.Icc (e cfg.box.bottom) (e cfg.box.top), p z
      = ∫ x in A ∩ Set.Icc (e cfg.box.left) (e cfg.box.right),
          p (QuadWhole.val e cfg uw uh x) * Real.exp (QuadWhole.ld e cfg uw uh x) :=
  box_samples_follow_density (quad_boxFlow hv hbl) _
    (fun z hz => ⟨QuadInverseWhole.inv_mapsTo hv hz, QuadInverseWhole.val_inv hv z hz.1 hz.2⟩) p A hA

/-- the knots in box coordinates start at `left` and end at `right` in the second branch too -/
theorem quad_xk_ends_T (hv : QuadWhole.QuadValidT e cfg uw uh) :
    QuadWhole.xk e cfg uw 0 = e cfg.box.left ∧ QuadWhole.xk e cfg uw uw.length = e cfg.box.right := by
  have hc := QuadWhole.core_of_validT hv
  constructor
  · unfold QuadWhole.xk; rw [QuadWhole.lc_zero hc]; ring
  · unfold QuadWhole.xk; rw [← QuadWhole.Wq_length (e := e) cfg uw, QuadWhole.lc_last hc]; ring

/-- the second branch of the executed quadratic program (heights of length `K−1`, padded by the code) -/
theorem quad_boxFlow_T (hv : QuadWhole.QuadValidT e cfg uw uh)
    (hbl : e (boxLog cfg.box) = Real.log ((e cfg.box.top - e cfg.box.bottom) / (e cfg.box.right - e cfg.box.left))) :
    BoxFlow (QuadWhole.val e cfg uw uh) (QuadWhole.ld e cfg uw uh) (e cfg.box.left) (e cfg.box.right)
      (e cfg.box.bottom) (e cfg.box.top) (Set.range (QuadWhole.xk e cfg uw)) :=
  boxFlow_of_bins (QuadWhole.xk e cfg uw) uw.length (QuadWhole.val_bijOn_T hv) (quad_xk_ends_T hv).1
    (quad_xk_ends_T hv).2 (fun k hk x h0 h1 => QuadWhole.val_hasDerivAt_x_T hv hbl k hk x h0 h1)

theorem quad_uniform_flow_normalised_T (hv : QuadWhole.QuadValidT e cfg uw uh)
    (hbl : e (boxLog cfg.box) = Real.log ((e cfg.box.top - e cfg.box.bottom) / (e cfg.box.right - e cfg.box.left))) :
    ∫ x in Set.Icc (e cfg.box.left) (e cfg.box.right),
      Real.exp (-Real.log (e cfg.box.top - e cfg.box.bottom) + QuadWhole.ld e cfg uw uh x) = 1 :=
  box_uniform_flow_normalised (quad_boxFlow_T hv hbl) hv.hbox.hbt

end quad

section cubic
variable {e : Float → ℝ} {cfg : CCfg} {uw uh : List ℝ} {udl udr : ℝ}

/-- the executed cubic spline is differentiable on the WHOLE open box: no exceptional set -/
theorem cubic_boxFlow (hv : CubicWhole.CubicValid e cfg uw uh)
    (hbl : e (boxLog cfg.box) = Real.log ((e cfg.box.top - e cfg.box.bottom) / (e cfg.box.right - e cfg.box.left))) :
    BoxFlow (CubicWhole.val e cfg uw uh udl udr) (CubicWhole.ld e cfg uw uh udl udr) (e cfg.box.left) (e cfg.box.right)
      (e cfg.box.bottom) (e cfg.box.top) ∅ where
  hbij := CubicWhole.val_bijOn hv
  hK := Set.countable_empty
  hd := fun x hx _ => ⟨_, CubicWhole.val_hasDerivAt_all hv hbl x hx.1 hx.2, abs_of_pos (Real.exp_pos _)⟩

theorem cubic_uniform_flow_normalised (hv : CubicWhole.CubicValid e cfg uw uh)
    (hbl : e (boxLog cfg.box) = Real.log ((e cfg.box.top - e cfg.box.bottom) / (e cfg.box.right - e cfg.box.left))) :
    ∫ x in Set.Icc (e cfg.box.left) (e cfg.box.right),
      Real.exp (-Real.log (e cfg.box.top - e cfg.box.bottom) + CubicWhole.ld e cfg uw uh udl udr x) = 1 :=
  box_uniform_flow_normalised (cubic_boxFlow hv hbl) hv.hbt

theorem cubic_flow_normalised_base (hv : CubicWhole.CubicValid e cfg uw uh)
    (hbl : e (boxLog cfg.box) = Real.log ((e cfg.box.top - e cfg.box.bottom) / (e cfg.box.right - e cfg.box.left)))
    (g : ℝ → ℝ) (hg : ∫ z in Set.Icc (e cfg.box.bottom) (e cfg.box.top), g z = 1) :
    ∫ x in Set.Icc (e cfg.box.left) (e cfg.box.right),
      g (CubicWhole.val e cfg uw uh udl udr x) * Real.exp (CubicWhole.ld e cfg uw uh udl udr x) = 1 :=
  box_flow_normalised (cubic_boxFlow hv hbl) g hg

end cubic

section lin
variable {e : Float → ℝ} {box : Box} {eps : Float} {up : List ℝ}

theorem lin_boxFlow (hv : LinWhole.LinValid e box eps up)
    (hlogK : e (Float.log (1.0 / up.length.toFloat)) = Real.log (1 / (up.length : ℝ)))
    (hbl : e (boxLog box) = Real.log ((e box.top - e box.bottom) / (e box.right - e box.left))) :
    BoxFlow (LinWhole.val e box eps up) (LinWhole.ld e box eps up) (e box.left) (e box.right)
      (e box.bottom) (e box.top) (Set.range (LinWhole.xk e box up.length)) :=
  boxFlow_of_bins (LinWhole.xk e box up.length) up.length (LinWhole.val_bijOn hv) (LinWhole.knots_facts hv).1
    (LinWhole.knots_facts hv).2.1 (fun k hk x h0 h1 => LinWhole.val_hasDerivAt_x hv hlogK hbl k hk x h0 h1)

theorem lin_uniform_flow_normalised (hv : LinWhole.LinValid e box eps up)
    (hlogK : e (Float.log (1.0 / up.length.toFloat)) = Real.log (1 / (up.length : ℝ)))
    (hbl : e (boxLog box) = Real.log ((e box.top - e box.bottom) / (e box.right - e box.left))) :
    ∫ x in Set.Icc (e box.left) (e box.right),
      Real.exp (-Real.log (e box.top - e box.bottom) + LinWhole.ld e box eps up x) = 1 :=
  box_uniform_flow_normalised (lin_boxFlow hv hlogK hbl) hv.hbt

theorem lin_flow_normalised_base (hv : LinWhole.LinValid e box eps up)
    (hlogK : e (Float.log (1.0 / up.length.toFloat)) = Real.log (1 / (up.length : ℝ)))
    (hbl : e (boxLog box) = Real.log ((e box.top - e box.bottom) / (e box.right - e box.left)))
    (g : ℝ → ℝ) (hg : ∫ z in Set.Icc (e box.bottom) (e box.top), g z = 1) :
    ∫ x in Set.Icc (e box.left) (e box.right),
      g (LinWhole.val e box eps up x) * Real.exp (LinWhole.ld e box eps up x) = 1 :=
  box_flow_normalised (lin_boxFlow hv hlogK hbl) g hg

/-- samples of the executed piecewise-linear flow follow the density -/
theorem lin_samples_follow_density (hv : LinWhole.LinValid e box eps up)
    (hlogK : e (Float.log (1.0 / up.length.toFloat)) = Real.log (1 / (up.length : ℝ)))
    (hbl : e (boxLog box) = Real.log ((e box.top - e box.bottom) / (e box.right - e box.left)))
    (p : ℝ → ℝ) (A : Set ℝ) (hA : MeasurableSet A) :
    ∫ z in LinWhole.inv e box eps up ⁻¹' A ∩ Set.Icc (e box.bottom) (e box.top), p z
      = ∫ x in A ∩ Set.Icc (e box.left) (e box.right),
          p (LinWhole.val e box eps up x) * Real.exp (LinWhole.ld e box eps up x) :=
  box_samples_follow_density (lin_boxFlow hv hlogK hbl) _
    (fun z hz => ⟨LinWhole.inv_mapsTo hv hz, LinWhole.val_inv hv z hz.1 hz.2⟩) p A hA

end lin

end
end FlowBounded
