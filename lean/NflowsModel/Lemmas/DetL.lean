import NflowsModel.Core.TorchUtils
import NflowsModel.Lemmas.TorchUtils
import NflowsModel.Core.Ops.C20
import Mathlib.LinearAlgebra.Matrix.Determinant.Basic
import Mathlib.LinearAlgebra.Matrix.Notation
import Mathlib.Analysis.SpecialFunctions.Log.Basic
/-!
# Lemmas/DetL — the executable Laplace determinant `detL` of `Core/TorchUtils` IS `Matrix.det`, for every size
-/
open NF NF.TU

namespace NF.DetL

/-- the matrix a list of rows denotes (missing rows / entries read as `0`) -/
def toMat (n : ℕ) (m : List (List ℤ)) : Matrix (Fin n) (Fin n) ℤ :=
  Matrix.of fun i j => (m.getD i []).getD j 0

theorem foldl_add_range {β : Type} [AddCommMonoid β] (f : ℕ → β) (k : ℕ) :
    (List.range k).foldl (fun acc j => acc + f j) 0 = ∑ j : Fin k, f j := by
  induction k with
  | zero => simp
  | succ k ih => rw [List.range_succ, List.foldl_append, ih, Fin.sum_univ_castSucc]; simp

theorem sign_eq (j : ℕ) : (if j % 2 == 0 then (1 : ℤ) else -1) = (-1) ^ j := by
  rcases Nat.even_or_odd j with h | h
  · rw [h.neg_one_pow]; simp [Nat.even_iff.mp h]
  · rw [h.neg_one_pow]; simp [Nat.odd_iff.mp h]

theorem removeAt_getD {α : Type} (l : List α) (d : α) {n : ℕ} (j : Fin (n + 1)) (k : Fin n) :
    (removeAt l j).getD k d = l.getD (j.succAbove k) d := by
  unfold removeAt
  by_cases h : (k : ℕ) < j
  · have h' : k.castSucc < j := by simpa [Fin.lt_def] using h
    rw [Fin.succAbove_of_castSucc_lt _ _ h']
    simp only [List.getD_eq_getElem?_getD, Fin.val_castSucc]
    by_cases hl : (k : ℕ) < l.length
    · rw [List.getElem?_append_left (by simp; omega)]
      simp [h]
    · rw [List.getElem?_eq_none (by simp; omega), List.getElem?_eq_none (by omega)]
  · have h' : j ≤ k.castSucc := by simpa [Fin.le_def] using h
    rw [Fin.succAbove_of_le_castSucc _ _ h']
    simp only [List.getD_eq_getElem?_getD, Fin.val_succ]
    by_cases hl : (j : ℕ) ≤ l.length
    · rw [List.getElem?_append_right (by simp; omega)]
      simp only [List.length_take, Nat.min_eq_left hl, List.getElem?_drop]
      congr 2; omega
    · rw [List.getElem?_eq_none (by simp; omega), List.getElem?_eq_none (by omega)]

/-- **`detL` is `Matrix.det`**, every size `n`, every list of rows (no shape hypothesis: missing entries read as `0`) -/
theorem detL_eq_det_toMat (n : ℕ) (m : List (List ℤ)) : detL n m = (toMat n m).det := by
  induction n generalizing m with
  | zero => simp [detL]
  | succ n ih =>
    cases m with
    | nil =>
      have : toMat (n + 1) [] = 0 := by ext i j; simp [toMat]
      rw [this, Matrix.det_zero]; simp [detL]
    | cons row rest =>
      rw [Matrix.det_succ_row_zero]
      simp only [detL]
      rw [foldl_add_range (fun j => (if j % 2 == 0 then (1 : ℤ) else -1) * row.getD j 0 *
        detL n (rest.map (fun r => removeAt r j)))]
      refine Finset.sum_congr rfl fun j _ => ?_
      rw [sign_eq, ih]
      congr 2
      ext i k
      simp only [toMat, Matrix.of_apply, Matrix.submatrix_apply, Fin.val_succ, List.getD_cons_succ]
      rw [← removeAt_getD]
      congr 1
      simp only [List.getD_eq_getElem?_getD, List.getElem?_map]
      cases rest[(i : ℕ)]? <;> simp [removeAt]


/-- the form with an explicit `Matrix.of` (indices are `Fin n`, read as naturals); no shape hypothesis is needed -/
theorem detL_eq_det_of (n : ℕ) (m : List (List ℤ)) :
    detL n m = Matrix.det (Matrix.of fun i j : Fin n => (m.getD i []).getD j 0) := detL_eq_det_toMat n m

/-- well-shaped `n × n` list of rows -/
structure WellShaped (n : ℕ) (m : List (List ℤ)) : Prop where
  rows : m.length = n
  cols : ∀ r ∈ m, r.length = n

/-- the list of rows of a matrix -/
def ofMat {n : ℕ} (M : Matrix (Fin n) (Fin n) ℤ) : List (List ℤ) := List.ofFn fun i => List.ofFn fun j => M i j

theorem ofMat_wellShaped {n : ℕ} (M : Matrix (Fin n) (Fin n) ℤ) : WellShaped n (ofMat M) := by
  constructor
  · simp [ofMat]
  · intro r hr; simp only [ofMat, List.mem_ofFn] at hr; obtain ⟨i, rfl⟩ := hr; simp

theorem toMat_ofMat {n : ℕ} (M : Matrix (Fin n) (Fin n) ℤ) : toMat n (ofMat M) = M := by
  ext i j
  simp [toMat, ofMat, List.getD_eq_getElem?_getD]

/-- a well-shaped list IS the list of rows of its matrix (so `ofMat` / `toMat` are inverse bijections on well-shaped lists) -/
theorem ofMat_toMat {n : ℕ} {m : List (List ℤ)} (h : WellShaped n m) : ofMat (toMat n m) = m := by
  apply List.ext_getElem
  · simp [ofMat, h.rows]
  · intro i h1 h2
    have hr : m[i].length = n := h.cols _ (List.getElem_mem h2)
    apply List.ext_getElem
    · simp [ofMat, hr]
    · intro j h3 h4
      simp [ofMat, toMat, List.getD_eq_getElem?_getD, List.getElem?_eq_getElem h2, List.getElem?_eq_getElem h4]

/-- **headline**: on the list of rows of ANY integer matrix, of ANY size, the executable `detL` is `Matrix.det` -/
theorem detL_eq_det (n : ℕ) (M : Matrix (Fin n) (Fin n) ℤ) :
    detL n (List.ofFn fun i => List.ofFn fun j => M i j) = M.det := by
  have := detL_eq_det_toMat n (ofMat M)
  rwa [toMat_ofMat] at this

/-! ## corollaries: the algebra of `Matrix.det` transfers to the executable function -/

/-- multiplicativity: whenever `c` denotes the matrix product of what `a` and `b` denote -/
theorem detL_mul (n : ℕ) (a b c : List (List ℤ)) (h : toMat n c = toMat n a * toMat n b) :
    detL n c = detL n a * detL n b := by
  rw [detL_eq_det_toMat, detL_eq_det_toMat, detL_eq_det_toMat, h, Matrix.det_mul]

theorem detL_ofMat_mul {n : ℕ} (A B : Matrix (Fin n) (Fin n) ℤ) :
    detL n (ofMat (A * B)) = detL n (ofMat A) * detL n (ofMat B) :=
  detL_mul n _ _ _ (by simp [toMat_ofMat])

theorem filterMap_getElem?_eq_map {n : ℕ} (m : List (List ℤ)) (hc : ∀ r ∈ m, r.length = n) (i : ℕ) (hi : i < n) :
    m.filterMap (fun row => row[i]?) = m.map (fun row => row.getD i 0) := by
  induction m with
  | nil => simp
  | cons r t ih =>
    have hr : i < r.length := by rw [hc r (by simp)]; exact hi
    rw [List.filterMap_cons, List.getElem?_eq_getElem hr, List.map_cons, ih (fun r' h' => hc r' (by simp [h']))]
    simp [List.getD_eq_getElem?_getD, List.getElem?_eq_getElem hr]

/-- the executable transpose of `Core/TorchUtils` (`transposeRows`) denotes the matrix transpose on well-shaped lists -/
theorem toMat_transposeRows {n : ℕ} {m : List (List ℤ)} (h : WellShaped n m) :
    toMat n (transposeRows m n) = (toMat n m).transpose := by
  ext i j
  have hi : (i : ℕ) < n := i.2
  have hj : (j : ℕ) < m.length := by rw [h.rows]; exact j.2
  simp only [toMat, Matrix.of_apply, Matrix.transpose_apply, transposeRows]
  have e1 : (List.map (fun i => List.filterMap (fun row => row[i]?) m) (List.range n)).getD (i : ℕ) [] =
      List.filterMap (fun row => row[(i : ℕ)]?) m := by
    rw [List.getD_eq_getElem?_getD, List.getElem?_map, List.getElem?_range hi]; rfl
  rw [e1]
  rw [filterMap_getElem?_eq_map m h.cols i hi]
  simp [List.getD_eq_getElem?_getD, List.getElem?_map, List.getElem?_eq_getElem hj]

/-- **`detL` is invariant under the executable transpose** (well-shaped input) -/
theorem detL_transpose {n : ℕ} {m : List (List ℤ)} (h : WellShaped n m) :
    detL n (transposeRows m n) = detL n m := by
  rw [detL_eq_det_toMat, detL_eq_det_toMat, toMat_transposeRows h, Matrix.det_transpose]

/-- the identity matrix has `detL = 1` -/
theorem detL_one (n : ℕ) : detL n (ofMat (1 : Matrix (Fin n) (Fin n) ℤ)) = 1 := by
  rw [ofMat, detL_eq_det, Matrix.det_one]

/-- triangular inputs: `detL` is the product of the diagonal -/
theorem detL_upperTriangular {n : ℕ} (M : Matrix (Fin n) (Fin n) ℤ) (h : ∀ i j, j < i → M i j = 0) :
    detL n (ofMat M) = ∏ i, M i i := by
  rw [ofMat, detL_eq_det]
  exact Matrix.det_of_isUpperTriangular (fun i j hij => h i j hij)

/-! ## `logabsdet` (torchutils.py:64-68): the real counterpart of the executed `logabsdetF`, every size -/

/-- the real matrix an integer list of rows denotes -/
noncomputable def toMatR (n : ℕ) (m : List (List ℤ)) : Matrix (Fin n) (Fin n) ℝ := (toMat n m).map (Int.cast : ℤ → ℝ)

theorem det_toMatR (n : ℕ) (m : List (List ℤ)) : (toMatR n m).det = ((detL n m : ℤ) : ℝ) := by
  rw [detL_eq_det_toMat, toMatR]
  exact ((Int.castRingHom ℝ).map_det (toMat n m)).symm

/-- the real number `logabsdetF` rounds: `log (natAbs (detL n m))` -/
noncomputable def logabsdetL (n : ℕ) (m : List (List ℤ)) : ℝ := Real.log (((detL n m).natAbs : ℕ) : ℝ)

/-- **the executed `logabsdet` is `log |det|` of the denoted real matrix, every size** (`logabsdetR` of `Lemmas/TorchUtils`) -/
theorem logabsdetL_eq (n : ℕ) (m : List (List ℤ)) : logabsdetL n m = logabsdetR (toMatR n m) := by
  rw [logabsdetL, logabsdetR, det_toMatR, Nat.cast_natAbs, Int.cast_abs]

/-- for a non-singular input, `exp (logabsdet m) = |det|` where `det` is at once the executed integer `detL n m` and
    `Matrix.det` of the denoted real matrix; and `logabsdet` does not see the sign of the matrix -/
theorem logabsdetL_spec (n : ℕ) (m : List (List ℤ)) (h : detL n m ≠ 0) :
    Real.exp (logabsdetL n m) = |((detL n m : ℤ) : ℝ)| ∧ Real.exp (logabsdetL n m) = |(toMatR n m).det| ∧
    Real.exp (Real.log |((detL n m : ℤ) : ℝ)|) = |(toMatR n m).det| ∧
    logabsdetR (-(toMatR n m)) = logabsdetL n m := by
  have hd : (toMatR n m).det ≠ 0 := by rw [det_toMatR]; exact_mod_cast h
  have h1 : Real.exp (logabsdetR (toMatR n m)) = |(toMatR n m).det| := Real.exp_log (abs_pos.mpr hd)
  have h2 : logabsdetR (-(toMatR n m)) = logabsdetR (toMatR n m) := by
    simp [logabsdetR, Matrix.det_neg, abs_mul, abs_pow]
  rw [logabsdetL_eq]
  refine ⟨by rw [h1, det_toMatR], h1, ?_, h2⟩
  rw [← det_toMatR]; exact h1

/-- singular input: the executed determinant is `0` exactly when the denoted real matrix is singular -/
theorem detL_eq_zero_iff (n : ℕ) (m : List (List ℤ)) : detL n m = 0 ↔ (toMatR n m).det = 0 := by
  rw [det_toMatR]; exact_mod_cast Iff.rfl

/-! ## what the driver op `c20.logabsdet` feeds to `detL`: the row-major `n*n` data cut into rows by `chunk20` -/

theorem chunk20_wellShaped (n : ℕ) (d : List ℤ) (hd : d.length = n * n) : WellShaped n (chunk20 n d) := by
  rcases Nat.eq_zero_or_pos n with rfl | hn
  · exact ⟨by simp [chunk20], by simp [chunk20]⟩
  · have hne : (n == 0) = false := by simp; omega
    have hq : d.length / n = n := by rw [hd]; exact Nat.mul_div_cancel _ hn
    constructor
    · simp [chunk20, hne, hq]
    · intro r hr
      simp only [chunk20, hne, hq, Bool.false_eq_true, if_false, List.mem_map, List.mem_range] at hr
      obtain ⟨i, hi, rfl⟩ := hr
      rw [List.length_take, List.length_drop, hd]
      have : i * n + n ≤ n * n := by
        have := Nat.mul_le_mul_right n (Nat.succ_le_of_lt hi); rw [Nat.succ_mul] at this; exact this
      omega

/-- entry `(i, j)` of the matrix the driver builds is flat entry `i*n + j` of the request data (row-major) -/
theorem toMat_chunk20 (n : ℕ) (d : List ℤ) (hd : d.length = n * n) (i j : Fin n) :
    toMat n (chunk20 n d) i j = d.getD (i * n + j) 0 := by
  have hn : 0 < n := i.pos
  have hne : (n == 0) = false := by simp; omega
  have hq : d.length / n = n := by rw [hd]; exact Nat.mul_div_cancel _ hn
  simp only [toMat, Matrix.of_apply, chunk20, hne, hq, Bool.false_eq_true, if_false]
  have e1 : (List.map (fun i => List.take n (List.drop (i * n) d)) (List.range n)).getD (i : ℕ) [] =
      List.take n (List.drop (i * n) d) := by
    rw [List.getD_eq_getElem?_getD, List.getElem?_map, List.getElem?_range i.2]; rfl
  rw [e1]
  simp only [List.getD_eq_getElem?_getD, List.getElem?_take, j.2, if_true, List.getElem?_drop]

/-- **the integer the driver returns for `c20.logabsdet` is `Matrix.det` of the row-major matrix of the request, every size** -/
theorem detL_chunk20 (n : ℕ) (d : List ℤ) (hd : d.length = n * n) :
    detL n (chunk20 n d) = Matrix.det (Matrix.of fun i j : Fin n => d.getD (i * n + j) 0) := by
  rw [detL_eq_det_toMat]; congr 1; ext i j; exact toMat_chunk20 n d hd i j

/-- sanity (a 5×5 instance beyond `detL_small`, evaluated by the kernel) -/
example : detL 5 [[2, 0, 1, 3, 1], [1, 1, 0, 0, -2], [0, 5, 1, 2, 0], [7, 0, 0, 2, 1], [1, -1, 3, 0, 4]] = 547 := by decide +kernel

end NF.DetL
