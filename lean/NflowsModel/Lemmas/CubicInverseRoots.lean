import Mathlib.Analysis.SpecialFunctions.Trigonometric.Basic
import Mathlib.Analysis.SpecialFunctions.Complex.Arg
import Mathlib.Analysis.SpecialFunctions.Sqrt
import Mathlib.Analysis.SpecialFunctions.Log.Basic
import Mathlib.Tactic
import NflowsModel.Lemmas.StableRoot

/-!
# Lemmas/CubicInverseRoots — the real algebra behind the closed-form roots of `cubic.py` (inverse direction)

Pure real analysis, no program: the cube root `sign x · exp(log|x|/3)`; Blinn's quantities `δ₁ δ₂ δ₃`, `disc`, `dep₁` of
the monic cubic `s³ + 3Bs² + 3Cs + D` and the depressed cubic `τ³ + 3δ₁τ + dep₁` (`depress`, `disc_eq`, `monic`);
Cardano's root for `disc < 0` (`cardano`) and its uniqueness (`disc_nonneg_of_two_roots`, `cardano_unique`); the three
trigonometric candidates for `disc ≥ 0` with `atan2 = Complex.arg` — the depressed cubic FACTORS over them
(`trig_factor`, triple root included), so they are roots (`trig_roots`) and the only ones (`trig_complete`); the stable
quadratic root of the fallback: exact when `a = 0` (`qroot_exact`), residual `≤ |a|·w³` otherwise (`qroot_approx`),
and genuinely non-zero (`qroot_inexact`).
-/
namespace CubicRoots
noncomputable section

/-- the cube root as `torchutils.cbrt` writes it: `sign x · exp(log|x| / 3)` -/
def cbrt (x : ℝ) : ℝ := (if 0 < x then 1 else if x < 0 then -1 else 0) * Real.exp (Real.log |x| / 3)

theorem cbrt_cube (x : ℝ) : cbrt x ^ 3 = x := by
  unfold cbrt
  have h3 : Real.exp (Real.log |x| / 3) ^ 3 = Real.exp (Real.log |x|) := by
    rw [← Real.exp_nat_mul]; congr 1; push_cast; ring
  rw [mul_pow, h3]
  rcases lt_trichotomy 0 x with h | h | h
  · rw [if_pos h, Real.exp_log (abs_pos.mpr h.ne'), abs_of_pos h]; ring
  · subst h; simp
  · rw [if_neg (not_lt.mpr h.le), if_pos h, Real.exp_log (abs_pos.mpr h.ne), abs_of_neg h]; ring

theorem cube_inj {x y : ℝ} (h : x ^ 3 = y ^ 3) : x = y :=
  (Odd.strictMono_pow (by decide : Odd 3)).injective h

/-! ### Blinn's quantities for the monic cubic `s³ + 3B s² + 3C s + D` -/

def δ1 (B C : ℝ) : ℝ := -(B*B) + C
def δ2 (B C D : ℝ) : ℝ := -(C*B) + D
def δ3 (B C D : ℝ) : ℝ := B*D - C*C
def disc (B C D : ℝ) : ℝ := 4 * δ1 B C * δ3 B C D - δ2 B C D * δ2 B C D
def dep1 (B C D : ℝ) : ℝ := -2 * B * δ1 B C + δ2 B C D

/-- the substitution `τ = s + B` removes the quadratic term: the depressed cubic is `τ³ + 3 δ₁ τ + dep₁` -/
theorem depress (B C D s : ℝ) :
    s^3 + 3*B*s^2 + 3*C*s + D = (s + B)^3 + 3 * δ1 B C * (s + B) + dep1 B C D := by
  unfold dep1 δ1 δ2; ring

/-- the code's `discriminant` is `−(dep₁² + 4 δ₁³)` (i.e. `1/27` of the discriminant of the depressed cubic) -/
theorem disc_eq (B C D : ℝ) : disc B C D = -((dep1 B C D)^2 + 4 * (δ1 B C)^3) := by
  unfold disc dep1 δ1 δ2 δ3; ring

/-- the bin cubic `a s³ + b s² + c s + cc` (`a ≠ 0`) is `a` times the depressed cubic of the code's `b_, c_, d_` -/
theorem monic (a b c cc s : ℝ) (ha : a ≠ 0) :
    a*s^3 + b*s^2 + c*s + cc
      = a * ((s + b/a/3)^3 + 3 * δ1 (b/a/3) (c/a/3) * (s + b/a/3) + dep1 (b/a/3) (c/a/3) (cc/a)) := by
  rw [← depress]; field_simp

/-! ### the depressed cubic `τ³ + 3mτ + n` with `Δ = −(n² + 4m³)` -/

/-- **Cardano branch** (`Δ < 0`): `cbrt((−n + √(−Δ))/2) + cbrt((−n − √(−Δ))/2)` is a real root -/
theorem cardano {m n Δ : ℝ} (hΔ : Δ = -(n^2 + 4*m^3)) (hneg : Δ < 0) :
    (cbrt ((-n + Real.sqrt (-Δ))/2) + cbrt ((-n - Real.sqrt (-Δ))/2))^3
      + 3*m*(cbrt ((-n + Real.sqrt (-Δ))/2) + cbrt ((-n - Real.sqrt (-Δ))/2)) + n = 0 := by
  have hS : Real.sqrt (-Δ) ^ 2 = -Δ := Real.sq_sqrt (by linarith)
  set S := Real.sqrt (-Δ)
  have hp := cbrt_cube ((-n + S)/2)
  have hq := cbrt_cube ((-n - S)/2)
  set p := cbrt ((-n + S)/2)
  set q := cbrt ((-n - S)/2)
  have hpq : p * q = -m := by
    apply cube_inj
    rw [mul_pow, hp, hq]
    linear_combination (-1/4 : ℝ) * hS + (1/4 : ℝ) * hΔ
  linear_combination hp + hq + 3 * (p + q) * hpq

/-- two distinct real roots force `Δ ≥ 0`: in the Cardano branch the real root is unique -/
theorem disc_nonneg_of_two_roots {m n Δ τ1 τ2 : ℝ} (hΔ : Δ = -(n^2 + 4*m^3))
    (h1 : τ1^3 + 3*m*τ1 + n = 0) (h2 : τ2^3 + 3*m*τ2 + n = 0) (hne : τ1 ≠ τ2) : 0 ≤ Δ := by
  have hd : τ1 - τ2 ≠ 0 := sub_ne_zero.mpr hne
  have hm : 3*m = -(τ1^2 + τ1*τ2 + τ2^2) := by
    have : (τ1 - τ2) * (3*m + (τ1^2 + τ1*τ2 + τ2^2)) = 0 := by linear_combination h1 - h2
    rcases mul_eq_zero.mp this with h | h
    · exact absurd h hd
    · linarith
  have hm' : m = -(τ1^2 + τ1*τ2 + τ2^2)/3 := by linarith
  have hn : n = τ1*τ2*(τ1+τ2) := by rw [hm'] at h1; linear_combination h1
  have : 27 * Δ = ((τ1 - τ2) * (2*τ1 + τ2) * (τ1 + 2*τ2))^2 := by rw [hΔ, hm', hn]; ring
  nlinarith [sq_nonneg ((τ1 - τ2) * (2*τ1 + τ2) * (τ1 + 2*τ2))]

theorem cardano_unique {m n Δ τ : ℝ} (hΔ : Δ = -(n^2 + 4*m^3)) (hneg : Δ < 0) (h : τ^3 + 3*m*τ + n = 0) :
    τ = cbrt ((-n + Real.sqrt (-Δ))/2) + cbrt ((-n - Real.sqrt (-Δ))/2) := by
  by_contra hne
  exact absurd (disc_nonneg_of_two_roots hΔ h (cardano hΔ hneg) hne) (not_le.mpr hneg)

theorem m_nonpos {m n Δ : ℝ} (hΔ : Δ = -(n^2 + 4*m^3)) (hpos : 0 ≤ Δ) : m ≤ 0 := by
  by_contra h
  have hm : 0 < m := lt_of_not_ge h
  have : 0 < m^3 := by positivity
  nlinarith [sq_nonneg n]

/-- the three candidates of the trigonometric branch, as the code writes them -/
def trig1 (m n Δ : ℝ) : ℝ := Real.cos (Complex.arg ⟨-n, Real.sqrt Δ⟩ / 3) * (2 * Real.sqrt (-m))
def trig2 (m n Δ : ℝ) : ℝ :=
  (-(1/2) * Real.cos (Complex.arg ⟨-n, Real.sqrt Δ⟩ / 3) - Real.sqrt 3 / 2 * Real.sin (Complex.arg ⟨-n, Real.sqrt Δ⟩ / 3))
    * (2 * Real.sqrt (-m))
def trig3 (m n Δ : ℝ) : ℝ :=
  (-(1/2) * Real.cos (Complex.arg ⟨-n, Real.sqrt Δ⟩ / 3) + Real.sqrt 3 / 2 * Real.sin (Complex.arg ⟨-n, Real.sqrt Δ⟩ / 3))
    * (2 * Real.sqrt (-m))

/-- **trigonometric branch** (`Δ ≥ 0`, the triple-root case `m = n = 0` included): the depressed cubic FACTORS over the
    three candidates, so they are exactly its real roots -/
theorem trig_factor {m n Δ : ℝ} (hΔ : Δ = -(n^2 + 4*m^3)) (hpos : 0 ≤ Δ) (τ : ℝ) :
    τ^3 + 3*m*τ + n = (τ - trig1 m n Δ) * (τ - trig2 m n Δ) * (τ - trig3 m n Δ) := by
  have hm := m_nonpos hΔ hpos
  have hr2 : Real.sqrt (-m) ^ 2 = -m := Real.sq_sqrt (by linarith)
  have hr0 : 0 ≤ Real.sqrt (-m) := Real.sqrt_nonneg _
  have hS2 : Real.sqrt Δ ^ 2 = Δ := Real.sq_sqrt hpos
  have hk : Real.sqrt 3 ^ 2 = 3 := Real.sq_sqrt (by norm_num)
  unfold trig1 trig2 trig3
  set r := Real.sqrt (-m)
  set z : ℂ := ⟨-n, Real.sqrt Δ⟩ with hz
  set θ := Complex.arg z / 3 with hθ
  have h3θ : 3 * θ = Complex.arg z := by rw [hθ]; ring
  have hnorm : ‖z‖ = 2 * r^3 := by
    have h1 : ‖z‖^2 = (2 * r^3)^2 := by
      rw [Complex.sq_norm, Complex.normSq_mk]
      have : r^6 = (r^2)^3 := by ring
      have h6 : (2 * r^3)^2 = 4 * (r^2)^3 := by ring
      rw [h6, hr2]
      nlinarith
    have h2 : 0 ≤ 2 * r^3 := by positivity
    exact (pow_left_inj₀ (norm_nonneg z) h2 (by norm_num : (2:ℕ) ≠ 0)).mp h1
  have hcos : ‖z‖ * Real.cos (Complex.arg z) = -n := by
    exact Complex.norm_mul_cos_arg z
  rw [← h3θ, Real.cos_three_mul, hnorm] at hcos
  have hs2 : Real.sin θ ^ 2 + Real.cos θ ^ 2 = 1 := Real.sin_sq_add_cos_sq θ
  set cθ := Real.cos θ
  set sθ := Real.sin θ
  set k := Real.sqrt 3
  have hm' : m = -r^2 := by linarith
  have hn' : n = -(2 * r^3 * (4 * cθ^3 - 3 * cθ)) := by linarith
  rw [hm', hn']
  linear_combination ((τ - 2*r*cθ) * r^2 * sθ^2) * hk + (3 * (τ - 2*r*cθ) * r^2) * hs2

/-- … each candidate is a root … -/
theorem trig_roots {m n Δ : ℝ} (hΔ : Δ = -(n^2 + 4*m^3)) (hpos : 0 ≤ Δ) :
    (trig1 m n Δ)^3 + 3*m*(trig1 m n Δ) + n = 0 ∧ (trig2 m n Δ)^3 + 3*m*(trig2 m n Δ) + n = 0 ∧
    (trig3 m n Δ)^3 + 3*m*(trig3 m n Δ) + n = 0 := by
  refine ⟨?_, ?_, ?_⟩ <;> rw [trig_factor hΔ hpos] <;> ring

/-- … and every real root is one of them -/
theorem trig_complete {m n Δ τ : ℝ} (hΔ : Δ = -(n^2 + 4*m^3)) (hpos : 0 ≤ Δ) (h : τ^3 + 3*m*τ + n = 0) :
    τ = trig1 m n Δ ∨ τ = trig2 m n Δ ∨ τ = trig3 m n Δ := by
  rw [trig_factor hΔ hpos] at h
  rcases mul_eq_zero.mp h with h | h
  · rcases mul_eq_zero.mp h with h | h
    · exact Or.inl (sub_eq_zero.mp h)
    · exact Or.inr (Or.inl (sub_eq_zero.mp h))
  · exact Or.inr (Or.inr (sub_eq_zero.mp h))


/-! ### the quadratic fallback -/

/-- the numerically stable root `2cc / (−c − √max(c² − 4·b·cc, 0))` of `b s² + c s + cc` -/
def qroot (b c cc : ℝ) : ℝ := 2*cc / (-c - Real.sqrt (max (c*c - 4*b*cc) 0))

/-- **fallback on a genuinely quadratic bin** (`a = 0`): if `q(s) = b s² + c s + cc` has `q(0) ≤ 0 ≤ q(w)` and `q'(0) = c > 0`
    then the radicand is non-negative (the clamp is inactive), the stable root lies in `[0, w]` and is an exact root -/
theorem qroot_exact {b c cc w : ℝ} (hw : 0 < w) (hc : 0 < c) (h0 : cc ≤ 0) (h1 : 0 ≤ b*w^2 + c*w + cc) :
    0 ≤ c*c - 4*b*cc ∧ 0 ≤ qroot b c cc ∧ qroot b c cc ≤ w ∧ b * (qroot b c cc)^2 + c * qroot b c cc + cc = 0 := by
  obtain ⟨hrad, hden, ha0, ha1, hroot⟩ :=
    StableRoot.stable_root (a := b*w^2) (b := c*w) (c := cc) h0 h1 (fun _ => mul_pos hc hw)
  have hfac : (c*w)^2 - 4*(b*w^2)*cc = w^2 * (c*c - 4*b*cc) := by ring
  have hrad' : 0 ≤ c*c - 4*b*cc := by
    rw [hfac] at hrad
    exact nonneg_of_mul_nonneg_right hrad (by positivity)
  have hsq : Real.sqrt ((c*w)^2 - 4*(b*w^2)*cc) = w * Real.sqrt (c*c - 4*b*cc) := by
    rw [hfac, Real.sqrt_mul (by positivity), Real.sqrt_sq hw.le]
  have hq : qroot b c cc = w * (2*cc / (-(c*w) - Real.sqrt ((c*w)^2 - 4*(b*w^2)*cc))) := by
    unfold qroot
    rw [max_eq_left hrad', hsq]
    have hden' : -c - Real.sqrt (c*c - 4*b*cc) ≠ 0 := by
      have := Real.sqrt_nonneg (c*c - 4*b*cc); intro h; linarith
    have hden'' : -(c*w) - w * Real.sqrt (c*c - 4*b*cc) ≠ 0 := by
      have : -(c*w) - w * Real.sqrt (c*c - 4*b*cc) = w * (-c - Real.sqrt (c*c - 4*b*cc)) := by ring
      rw [this]; exact mul_ne_zero hw.ne' hden'
    field_simp
  set θ := 2*cc / (-(c*w) - Real.sqrt ((c*w)^2 - 4*(b*w^2)*cc))
  refine ⟨hrad', ?_, ?_, ?_⟩
  · rw [hq]; exact mul_nonneg hw.le ha0
  · rw [hq]; nlinarith
  · rw [hq]; linear_combination hroot


/-- **fallback on an almost quadratic bin** (`a ≠ 0` allowed): for the bin cubic `P(s) = a s³ + b s² + c s + cc` with
    `P(0) = cc ≤ 0 ≤ P(w)` and `P'(0) = c > 0`, the stable root of the quadratic part, clamped into `[0, w]`, is an
    APPROXIMATE root of the cubic: the residual is bounded by the dropped term, `|P(s)| ≤ |a|·w³` -/
theorem qroot_approx {a b c cc w : ℝ} (hw : 0 < w) (hc : 0 < c) (h0 : cc ≤ 0)
    (h1 : 0 ≤ a*w^3 + b*w^2 + c*w + cc) :
    |a * (min (max (qroot b c cc) 0) w)^3 + b * (min (max (qroot b c cc) 0) w)^2 + c * (min (max (qroot b c cc) 0) w) + cc|
      ≤ |a| * w^3 := by
  set S := Real.sqrt (max (c*c - 4*b*cc) 0) with hSdef
  have hS0 : 0 ≤ S := Real.sqrt_nonneg _
  have hS2 : S^2 = max (c*c - 4*b*cc) 0 := Real.sq_sqrt (le_max_right _ _)
  have hD : 0 < c + S := by linarith
  have hqdef : qroot b c cc = -2*cc/(c+S) := by
    unfold qroot; rw [← hSdef, show -c - S = -(c+S) by ring, div_neg, neg_mul, neg_div]
  have hq : qroot b c cc * (c + S) = -2*cc := by rw [hqdef]; field_simp
  have hq0 : 0 ≤ qroot b c cc := by rw [hqdef]; apply div_nonneg <;> linarith
  set q := qroot b c cc
  rw [max_eq_left hq0]
  set s := min q w with hs
  have hsq : s ≤ q := min_le_left _ _
  have hsw : s ≤ w := min_le_right _ _
  have hs0 : 0 ≤ s := le_min hq0 hw.le
  have has : |a * s^3| ≤ |a| * w^3 := by
    rw [abs_mul, abs_of_nonneg (by positivity : 0 ≤ s^3)]
    exact mul_le_mul_of_nonneg_left (pow_le_pow_left₀ hs0 hsw 3) (abs_nonneg a)
  have has' := abs_le.mp has
  have haw : 0 ≤ |a| * w^3 := by positivity
  rw [abs_le]
  by_cases hrad : 0 ≤ c*c - 4*b*cc
  · rw [max_eq_left hrad] at hS2
    have hQq : b*q^2 + c*q + cc = 0 := by
      have : (b*q^2 + c*q + cc) * (c+S)^2 = 0 := by
        linear_combination (b*(q*(c+S) - 2*cc) + c*(c+S)) * hq + cc * hS2
      exact (mul_eq_zero.mp this).resolve_right (by positivity)
    have h2bq : 2*b*q + c = S := by
      have : (2*b*q + c - S) * (c+S) = 0 := by linear_combination 2*b*hq - hS2
      have := (mul_eq_zero.mp this).resolve_right hD.ne'
      linarith
    have hQs : b*s^2 + c*s + cc ≤ 0 := by
      have e1 : b*s^2 + c*s + cc = (s - q) * (b*(s+q) + c) := by linear_combination hQq
      rw [e1]
      apply mul_nonpos_of_nonpos_of_nonneg (by linarith)
      by_cases hb : 0 ≤ b
      · have := mul_nonneg hb (add_nonneg hs0 hq0); linarith
      · have hb' : b < 0 := lt_of_not_ge hb
        have : b*(s+q) + c = S + b*(s - q) := by linear_combination h2bq
        rw [this]
        have := mul_nonneg_of_nonpos_of_nonpos hb'.le (by linarith : s - q ≤ 0)
        linarith
    constructor
    · rcases le_or_gt w q with hwq | hqw
      · have : s = w := min_eq_right hwq
        rw [this]; linarith
      · have : s = q := min_eq_left hqw.le
        rw [this] at has' ⊢
        linarith [has'.1]
    · linarith [has'.2]
  · have hrad' : c*c - 4*b*cc < 0 := lt_of_not_ge hrad
    rw [max_eq_right hrad'.le] at hS2
    have hSz : S = 0 := (pow_eq_zero_iff (by norm_num : (2:ℕ) ≠ 0)).mp hS2
    rw [hSz, add_zero] at hq
    have hb : b < 0 := by
      by_contra hb
      have hb' : 0 ≤ b := not_lt.mp hb
      have := mul_nonneg hb' (neg_nonneg.mpr h0)
      linarith [mul_pos hc hc]
    have hQneg : ∀ u : ℝ, b*u^2 + c*u + cc < 0 := by
      intro u
      have e : 4*b*(b*u^2 + c*u + cc) = (2*b*u + c)^2 - (c*c - 4*b*cc) := by ring
      by_contra hcon
      have hcon' : 0 ≤ b*u^2 + c*u + cc := not_lt.mp hcon
      have := mul_nonneg_of_nonpos_of_nonpos (by linarith : 4*b ≤ 0) (by linarith : -(b*u^2 + c*u + cc) ≤ 0)
      linarith [sq_nonneg (2*b*u + c)]
    constructor
    · rcases le_or_gt w q with hwq | hqw
      · have : s = w := min_eq_right hwq
        rw [this]; linarith
      · have hsq' : s = q := min_eq_left hqw.le
        rw [hsq']
        have h2 : 2*b*q + c < 0 := by
          have : (2*b*q + c) * c = c*c - 4*b*cc := by linear_combination 2*b*hq
          by_contra hcon
          have := mul_nonneg (not_lt.mp hcon) hc.le
          linarith
        have hQ : b*w^2 + c*w + cc ≤ b*q^2 + c*q + cc := by
          have e1 : (b*q^2 + c*q + cc) - (b*w^2 + c*w + cc) = (q - w) * (b*(q+w) + c) := by ring
          have : 0 ≤ (q - w) * (b*(q+w) + c) := by
            apply mul_nonneg_of_nonpos_of_nonpos (by linarith)
            have := mul_neg_of_neg_of_pos hb (by linarith : 0 < w - q)
            linarith
          linarith
        have hq3 : q^3 ≤ w^3 := pow_le_pow_left₀ hq0 hqw.le 3
        have hq30 : 0 ≤ q^3 := by positivity
        have hbound : a * (w^3 - q^3) ≤ |a| * w^3 := by
          calc a * (w^3 - q^3) ≤ |a| * (w^3 - q^3) := mul_le_mul_of_nonneg_right (le_abs_self a) (by linarith)
            _ ≤ |a| * w^3 := mul_le_mul_of_nonneg_left (by linarith) (abs_nonneg a)
        linarith
    · have := hQneg s; linarith [has'.2]

/-- … and the approximation is genuinely inexact: with `a ≠ 0`, a level strictly inside the bin (`P(0) < 0 < P(w)`) and a
    non-negative radicand, the clamped stable quadratic root is NOT a root of the cubic -/
theorem qroot_inexact {a b c cc w : ℝ} (hc : 0 < c) (h0 : cc < 0)
    (h1 : 0 < a*w^3 + b*w^2 + c*w + cc) (ha : a ≠ 0) (hrad : 0 ≤ c*c - 4*b*cc) :
    a * (min (max (qroot b c cc) 0) w)^3 + b * (min (max (qroot b c cc) 0) w)^2 + c * (min (max (qroot b c cc) 0) w) + cc ≠ 0 := by
  set S := Real.sqrt (max (c*c - 4*b*cc) 0) with hSdef
  have hS0 : 0 ≤ S := Real.sqrt_nonneg _
  have hS2 : S^2 = max (c*c - 4*b*cc) 0 := Real.sq_sqrt (le_max_right _ _)
  rw [max_eq_left hrad] at hS2
  have hD : 0 < c + S := by linarith
  have hqdef : qroot b c cc = -2*cc/(c+S) := by
    unfold qroot; rw [← hSdef, show -c - S = -(c+S) by ring, div_neg, neg_mul, neg_div]
  have hq : qroot b c cc * (c + S) = -2*cc := by rw [hqdef]; field_simp
  have hq0 : 0 < qroot b c cc := by rw [hqdef]; apply div_pos <;> linarith
  set q := qroot b c cc
  rw [max_eq_left hq0.le]
  have hQq : b*q^2 + c*q + cc = 0 := by
    have : (b*q^2 + c*q + cc) * (c+S)^2 = 0 := by
      linear_combination (b*(q*(c+S) - 2*cc) + c*(c+S)) * hq + cc * hS2
    exact (mul_eq_zero.mp this).resolve_right (by positivity)
  rcases le_or_gt w q with hwq | hqw
  · rw [min_eq_right hwq]; exact h1.ne'
  · rw [min_eq_left hqw.le]
    have : a*q^3 + b*q^2 + c*q + cc = a*q^3 := by linear_combination hQq
    rw [this]
    exact mul_ne_zero ha (pow_pos hq0 3).ne'
end
end CubicRoots
