import NflowsModel.Lemmas.DualXQuad
import NflowsModel.Lemmas.DualXLin
import NflowsModel.Lemmas.TailsWhole
import NflowsModel.Lemmas.LinTails
/-!
# Lemmas/DualXWrap — the generic linear-tails wrapper `tailsWrap` run on dual numbers (C16)

`tailsWrap o tb x inner` (`Core/Spline.lean`) is the text of `unconstrained_quadratic_spline` / `unconstrained_linear_spline`:
inside `[-B, B]` it runs the inner spline on the box `[-B,B]²`, outside it returns `(x, 0)`.  On dual numbers
(`o := dualX (NF.realX e)`, input seeded `(x, 1)`):

* `tailsWrap_dual_unfold`: the guard only looks at the value component;
* `tailsWrap_dualRes_outside`: outside the box the dual run returns `((x, 1), (0, 0))`, which IS (value, derivative) of the two
  outputs of the real wrapped program (no hypothesis on the inner program);
* `tailsWrap_dualRes_inside`: strictly inside the box the dual run is the inner dual run, and soundness of the inner dual run
  (`DualRes`) transfers to the wrapped program;
* instances (forward direction; the inverse instances are in `Lemmas/DualXMore.lean`): `quad_tails_dualRes`,
  `lin_tails_dualRes` — for every real `x` outside `[-B, B]` or strictly inside a bin the dual run of the executed
  quadratic / linear tails program returns (value, derivative) of the real executed tails program.
-/
open NF DualSound DualX Filter Topology

namespace DualXWrap
open TailsWhole
noncomputable section

variable (e : Float → ℝ) (tb : Float)

/-- the guard of the dual wrapper only sees the value component of the input -/
theorem tailsWrap_dual_unfold (dx : ℝ × ℝ) (inner : Box → Except Err ((ℝ × ℝ) × (ℝ × ℝ))) :
    tailsWrap (dualX (NF.realX e)) tb dx inner
      = if -e tb ≤ dx.1 ∧ dx.1 ≤ e tb then inner (tbox tb) else .ok (dx, (0, 0)) := by
  unfold tailsWrap
  simp only [XOps.ge, d_le, d_neg, d_ofFloat, d_zero, Bool.and_eq_true, decide_eq_true_eq]
  rfl

variable {e tb}
variable (P : Box → ℝ → Except Err (ℝ × ℝ))

/-- **outside the box** the dual run returns `((x, 1), (0, 0))`: value `x` with derivative `1`, log-det `0` with derivative
    `0` — sound for the real wrapped program, whatever the inner program is -/
theorem tailsWrap_dual_outside (inner : Box → Except Err ((ℝ × ℝ) × (ℝ × ℝ))) (x : ℝ) (h : x < -e tb ∨ e tb < x) :
    tailsWrap (dualX (NF.realX e)) tb (x, 1) inner = .ok ((x, 1), (0, 0)) := by
  rw [tailsWrap_dual_unfold, if_neg]
  rintro ⟨h0, h1⟩
  rcases h with h | h <;> linarith

theorem tailsWrap_dualRes_outside (inner : Box → Except Err ((ℝ × ℝ) × (ℝ × ℝ))) (x : ℝ) (h : x < -e tb ∨ e tb < x) :
    DualRes (fun s => tailsWrap (NF.realX e) tb s (fun b => P b s)) x (tailsWrap (dualX (NF.realX e)) tb (x, 1) inner) := by
  refine DualRes.intro' (fy := fun s => s) (fl := fun _ => 0) (tailsWrap_dual_outside inner x h) ?_
    (IsDual.id x) (IsDual.const 0 x)
  have hopen : ∀ᶠ s in 𝓝 x, s < -e tb ∨ e tb < s := by
    rcases h with h | h
    · filter_upwards [Iio_mem_nhds h] with s hs using Or.inl hs
    · filter_upwards [Ioi_mem_nhds h] with s hs using Or.inr hs
  filter_upwards [hopen] with s hs
  rw [tailsWrap_unfold, if_neg]
  rintro ⟨h0, h1⟩
  rcases hs with hs | hs <;> linarith

/-- **inside the box** the dual run IS the inner dual run on the box `[-B,B]²` -/
theorem tailsWrap_dual_inside (inner : Box → Except Err ((ℝ × ℝ) × (ℝ × ℝ))) (x : ℝ) (h0 : -e tb ≤ x) (h1 : x ≤ e tb) :
    tailsWrap (dualX (NF.realX e)) tb (x, 1) inner = inner (tbox tb) := by
  rw [tailsWrap_dual_unfold, if_pos ⟨h0, h1⟩]

/-- **strictly inside the box** soundness of the inner dual run transfers to the wrapped program -/
theorem tailsWrap_dualRes_inside (inner : Box → Except Err ((ℝ × ℝ) × (ℝ × ℝ))) (x : ℝ) (h0 : -e tb < x) (h1 : x < e tb)
    (hin : DualRes (P (tbox tb)) x (inner (tbox tb))) :
    DualRes (fun s => tailsWrap (NF.realX e) tb s (fun b => P b s)) x (tailsWrap (dualX (NF.realX e)) tb (x, 1) inner) := by
  obtain ⟨dy, dl, hr, hF, hy, hl⟩ := hin
  have hev : ∀ᶠ s in 𝓝 x, tailsWrap (NF.realX e) tb s (fun b => P b s) = P (tbox tb) s := by
    filter_upwards [Ioo_mem_nhds h0 h1] with s hs
    rw [tailsWrap_unfold, if_pos ⟨hs.1.le, hs.2.le⟩]
  refine ⟨dy, dl, ?_, ?_, ?_, ?_⟩
  · rw [tailsWrap_dual_inside inner x h0.le h1.le, hr]
  · show tailsWrap (NF.realX e) tb x (fun b => P b x) = _
    rw [hev.self_of_nhds, hF]
  · refine hy.congr_of_eventuallyEq ?_
    filter_upwards [hev] with s hs
    rw [hs]
  · refine hl.congr_of_eventuallyEq ?_
    filter_upwards [hev] with s hs
    rw [hs]

/-! ### instance: the executed QUADRATIC spline with linear tails, forward -/

section quad
open QuadWhole
variable {minW minH : Float} {uw uh : List ℝ}

local notation "QC" => qcfgT tb minW minH
local notation "QP" => quadP e minW minH uw uh

/-- the dual inner program exactly as `elTransform` passes it to `tailsWrap` (forward direction), seeded `(x, 1)`, parameters
    with zero tangent -/
def quadPD (e : Float → ℝ) (minW minH : Float) (uw uh : List ℝ) (x : ℝ) (b : Box) : Except Err ((ℝ × ℝ) × (ℝ × ℝ)) :=
  quadSpline (dualX (NF.realX e)) { box := b, minW := minW, minH := minH } (uw.map ι) (uh.map ι) false (x, 1)

/-- a point strictly inside a bin of the tails box is strictly inside `(-B, B)` -/
theorem quad_bin_mem (hv : QuadValidT e QC uw uh) (hneg : e (-tb) = - e tb)
    (k : ℕ) (hk : k < uw.length) (x : ℝ) (h0 : xk e QC uw k < x) (h1 : x < xk e QC uw (k+1)) :
    -e tb < x ∧ x < e tb := by
  have hc := core_of_validT hv
  have hB := quad_hB hv hneg
  have hWl : (Wq e QC uw).length = uw.length := Wq_length QC uw
  have hmono := ExecGlue.knots_mono (lc e (Wq e QC uw)) (Wq e QC uw).length (lc_strict hc)
  have hl0 : 0 ≤ lc e (Wq e QC uw) k := by
    rw [← lc_zero hc]; exact hmono 0 k (Nat.zero_le _) (by omega)
  have hl1 : lc e (Wq e QC uw) (k+1) ≤ 1 := by
    rw [← lc_last hc]; exact hmono (k+1) _ (by omega) le_rfl
  have hL : e (QC).box.left = -e tb := hneg
  have hR : e (QC).box.right = e tb := rfl
  unfold xk at h0 h1
  rw [hL, hR] at h0 h1
  constructor <;> nlinarith

/-- **the executed quadratic tails program on dual numbers (forward)**: outside `[-B, B]` and strictly inside every bin the
    dual run returns (value, derivative) of the two outputs of the real executed tails program -/
theorem quad_tails_dualRes (hv : QuadValidT e QC uw uh) (hneg : e (-tb) = - e tb) (x : ℝ)
    (hx : (x < -e tb ∨ e tb < x) ∨ ∃ k, k < uw.length ∧ xk e QC uw k < x ∧ x < xk e QC uw (k+1)) :
    DualRes (fun s => tailsWrap (NF.realX e) tb s (fun b => QP b s)) x
      (tailsWrap (dualX (NF.realX e)) tb (x, 1) (quadPD e minW minH uw uh x)) := by
  rcases hx with ho | ⟨k, hk, h0, h1⟩
  · exact tailsWrap_dualRes_outside QP _ x ho
  · obtain ⟨hx0, hx1⟩ := quad_bin_mem hv hneg k hk x h0 h1
    exact tailsWrap_dualRes_inside QP _ x hx0 hx1 (DualXQuad.quadSpline_dualRes_T hv k hk x h0 h1)

/-- the value tangent is `exp` of the returned log-det (`1 = exp 0` outside), given that `boxLog` of the square box reads `0` -/
theorem quad_tails_dual (hv : QuadValidT e QC uw uh) (hneg : e (-tb) = - e tb) (hbl0 : e (boxLog (tbox tb)) = 0) (x : ℝ)
    (hx : (x < -e tb ∨ e tb < x) ∨ ∃ k, k < uw.length ∧ xk e QC uw k < x ∧ x < xk e QC uw (k+1)) :
    ∃ l' : ℝ, tailsWrap (dualX (NF.realX e)) tb (x, 1) (quadPD e minW minH uw uh x)
        = .ok ((wrapVal e tb QP x, Real.exp (wrapLd e tb QP x)), (wrapLd e tb QP x, l')) ∧
      HasDerivAt (wrapVal e tb QP) (Real.exp (wrapLd e tb QP x)) x ∧ HasDerivAt (wrapLd e tb QP) l' x := by
  obtain ⟨dy, dl, hr, hF, hy, hl⟩ := quad_tails_dualRes hv hneg x hx
  have hder : HasDerivAt (wrapVal e tb QP) (Real.exp (wrapLd e tb QP x)) x := by
    rcases hx with ho | ⟨k, hk, h0, h1⟩
    · exact wrap_hasDerivAt_outside x ho
    · exact quad_hasDerivAt_bin hv hneg hbl0 k hk x h0 h1
  have hy' : HasDerivAt (wrapVal e tb QP) dy.2 x := by
    refine hy.congr_of_eventuallyEq (Eventually.of_forall fun s => ?_)
    show wrapVal e tb QP s = _
    unfold wrapVal; exact DualXQuad.valOf_eq_outY _
  have hl' : HasDerivAt (wrapLd e tb QP) dl.2 x := by
    refine hl.congr_of_eventuallyEq (Eventually.of_forall fun s => ?_)
    show wrapLd e tb QP s = _
    unfold wrapLd; exact DualXQuad.ldOf_eq_outL _
  have hF' : tailsWrap (NF.realX e) tb x (fun b => QP b x) = .ok (dy.1, dl.1) := hF
  have hv1 : dy.1 = wrapVal e tb QP x := by unfold wrapVal; rw [hF']; rfl
  have hl1 : dl.1 = wrapLd e tb QP x := by unfold wrapLd; rw [hF']; rfl
  refine ⟨dl.2, ?_, hder, hl'⟩
  rw [hr]
  congr 1
  exact Prod.ext (Prod.ext hv1 (hy'.unique hder)) (Prod.ext hl1 rfl)

end quad

/-! ### instance: the executed LINEAR spline with linear tails, forward -/

section lin
open LinWhole LinTails
variable {eps : Float} {up : List ℝ}

local notation "LP" => linP e eps up

/-- the dual inner program (forward direction), seeded `(x, 1)`, parameters with zero tangent -/
def linPD (e : Float → ℝ) (eps : Float) (up : List ℝ) (x : ℝ) (b : Box) : Except Err ((ℝ × ℝ) × (ℝ × ℝ)) :=
  linSpline (dualX (NF.realX e)) b eps (up.map ι) false (x, 1)

/-- **the executed linear tails program on dual numbers (forward)**: outside `[-B, B]` and strictly inside every bin the dual
    run returns (value, derivative) of the two outputs of the real executed tails program -/
theorem lin_tails_dualRes (hv : LinValid e (tbox tb) eps up) (hneg : e (-tb) = - e tb) (x : ℝ)
    (hx : (x < -e tb ∨ e tb < x) ∨
      ∃ k, k < up.length ∧ xk e (tbox tb) up.length k < x ∧ x < xk e (tbox tb) up.length (k+1)) :
    DualRes (fun s => tailsWrap (NF.realX e) tb s (fun b => LP b s)) x
      (tailsWrap (dualX (NF.realX e)) tb (x, 1) (linPD e eps up x)) := by
  rcases hx with ho | ⟨k, hk, h0, h1⟩
  · exact tailsWrap_dualRes_outside LP _ x ho
  · have hx0 : -e tb < x := lt_of_le_of_lt (xk_mem hv hneg k hk.le).1 h0
    have hx1 : x < e tb := lt_of_lt_of_le h1 (xk_mem hv hneg (k+1) hk).2
    refine tailsWrap_dualRes_inside LP _ x hx0 hx1 ?_
    exact DualXLin.linSpline_dualRes hv k hk x ((nx_bin_iff hv k x).1.mpr h0) ((nx_bin_iff hv (k+1) x).2.mpr h1)

end lin

/-! ### non-vacuity on the concrete accepted tails configurations of `Lemmas/TailsWhole.lean` / `Lemmas/LinTails.lean` -/

/-- quadratic tails, two bins, tail bound `1.0` (`TailsWhole.quad_valid_example`): every `x` outside `[-B, B]` and every `x`
    strictly inside either bin; both bins are non-empty -/
theorem quad_tails_dual_example :
    (∀ x : ℝ, ((x < -eW 1.0 ∨ eW 1.0 < x) ∨ ∃ k, k < 2 ∧ QuadWhole.xk eW (qcfgT 1.0 0.0 0.0) [0, 0] k < x ∧
        x < QuadWhole.xk eW (qcfgT 1.0 0.0 0.0) [0, 0] (k+1)) →
      DualRes (fun s => tailsWrap (NF.realX eW) 1.0 s (fun b => quadP eW 0.0 0.0 [0, 0] [0] b s)) x
        (tailsWrap (dualX (NF.realX eW)) 1.0 (x, 1) (quadPD eW 0.0 0.0 [0, 0] [0] x))) ∧
    ∀ k < 2, QuadWhole.xk eW (qcfgT 1.0 0.0 0.0) [0, 0] k < QuadWhole.xk eW (qcfgT 1.0 0.0 0.0) [0, 0] (k+1) := by
  have hv := quad_valid_example
  refine ⟨fun x hx => quad_tails_dualRes hv eW_neg x hx, fun k hk => ?_⟩
  have hc := QuadWhole.core_of_validT hv
  have := QuadWhole.lc_strict hc k (by rw [QuadWhole.Wq_length]; exact hk)
  have hD : 0 < eW (qcfgT 1.0 0.0 0.0).box.right - eW (qcfgT 1.0 0.0 0.0).box.left := sub_pos.mpr hv.hbox.hlr
  unfold QuadWhole.xk
  nlinarith

/-- linear tails, three bins, tail bound `1.0` (`LinTails.valid_tails_box`): every `x` outside `[-B, B]` and every `x`
    strictly inside a bin; the bins are non-empty -/
theorem lin_tails_dual_example :
    (∀ x : ℝ, ((x < -NF.StructureExec.eTT 1.0 ∨ NF.StructureExec.eTT 1.0 < x) ∨ ∃ k, k < 3 ∧ LinWhole.xk NF.StructureExec.eTT (tbox 1.0) 3 k < x ∧
        x < LinWhole.xk NF.StructureExec.eTT (tbox 1.0) 3 (k+1)) →
      DualRes (fun s => tailsWrap (NF.realX NF.StructureExec.eTT) 1.0 s (fun b => LinTails.linP NF.StructureExec.eTT 1e-6 [0, 1, -1] b s)) x
        (tailsWrap (dualX (NF.realX NF.StructureExec.eTT)) 1.0 (x, 1) (linPD NF.StructureExec.eTT 1e-6 [0, 1, -1] x))) ∧
    ∀ k < 3, LinWhole.xk NF.StructureExec.eTT (tbox 1.0) 3 k < LinWhole.xk NF.StructureExec.eTT (tbox 1.0) 3 (k+1) := by
  have hv := LinTails.valid_tails_box [0, 1, -1] (by simp)
  refine ⟨fun x hx => lin_tails_dualRes hv NF.StructureExec.eTT_neg x hx, fun k hk => ?_⟩
  obtain ⟨_, _, hxs, _⟩ := LinWhole.knots_facts hv
  exact hxs k hk

end
end DualXWrap
