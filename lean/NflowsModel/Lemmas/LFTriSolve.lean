import NflowsModel.Core.LinearFamily
import NflowsModel.Lemmas.DualSound
import Mathlib.Algebra.BigOperators.Intervals
import Mathlib.Tactic
/-!
# Lemmas/LFTriSolve — the triangular solves of `Core/LinearFamily` at `realOps`

Forward substitution (`solveLowerUnit`) and back substitution (`solveUpper`) solve the triangular systems they
are meant to solve, together with real evaluation of the list primitives `sum`, `dot`, `entry`, `matVec`.
-/

namespace LFTriSolve
open NF.LF DualSound

/-! ## A. real evaluation of the list primitives -/

theorem r_add (a b : ℝ) : realOps.add a b = a + b := rfl
theorem r_sub (a b : ℝ) : realOps.sub a b = a - b := rfl
theorem r_mul (a b : ℝ) : realOps.mul a b = a * b := rfl
theorem r_div (a b : ℝ) : realOps.div a b = a / b := rfl

@[simp] theorem zero_real : zero realOps = 0 := by
  show ((0 : ℤ) : ℝ) / ((1 : ℕ) : ℝ) = 0
  norm_num
@[simp] theorem one_real : one realOps = 1 := by
  show ((1 : ℤ) : ℝ) / ((1 : ℕ) : ℝ) = 1
  norm_num
@[simp] theorem two_real : two realOps = 2 := by
  show ((2 : ℤ) : ℝ) / ((1 : ℕ) : ℝ) = 2
  norm_num

theorem foldl_add_real (a : ℝ) (l : List ℝ) : l.foldl realOps.add a = a + l.sum := by
  induction l generalizing a with
  | nil => simp
  | cons x xs ih => rw [List.foldl_cons, ih, r_add, List.sum_cons]; ring

theorem sum_real (xs : List ℝ) : sum realOps xs = xs.sum := by
  unfold NF.LF.sum
  rw [foldl_add_real, zero_real, zero_add]

theorem zipWith_mul_sum (xs ys : List ℝ) :
    (List.zipWith realOps.mul xs ys).sum
      = ∑ j ∈ Finset.range (min xs.length ys.length), xs.getD j 0 * ys.getD j 0 := by
  induction xs generalizing ys with
  | nil => simp
  | cons x xs ih =>
    cases ys with
    | nil => simp
    | cons y ys =>
      rw [List.zipWith_cons_cons, List.sum_cons, ih, r_mul]
      have : min (x :: xs).length (y :: ys).length = min xs.length ys.length + 1 := by
        simp only [List.length_cons]; omega
      rw [this, Finset.sum_range_succ']
      simp only [List.getD_cons_succ, List.getD_cons_zero]
      ring

theorem dot_real (xs ys : List ℝ) :
    dot realOps xs ys = ∑ j ∈ Finset.range (min xs.length ys.length), xs.getD j 0 * ys.getD j 0 := by
  unfold dot
  rw [sum_real, zipWith_mul_sum]

theorem entry_real (M : List (List ℝ)) (i j : Nat) : entry realOps M i j = (M.getD i []).getD j 0 := by
  unfold entry
  rw [zero_real]

/-! ## B. forward substitution -/

section generic
variable {α : Type}

theorem solveLowerUnitAux_prefix (o : Ops α) (acc : List α) (L : List (List α)) (b : List α) :
    acc <+: solveLowerUnitAux o acc L b := by
  induction L generalizing acc b with
  | nil => simp [solveLowerUnitAux]
  | cons row rest ih =>
    cases b with
    | nil => simp [solveLowerUnitAux]
    | cons bi bs =>
      rw [solveLowerUnitAux]
      exact (List.prefix_append acc _).trans (ih _ _)

theorem solveLowerUnitAux_length (o : Ops α) (acc : List α) (L : List (List α)) (b : List α) :
    (solveLowerUnitAux o acc L b).length = acc.length + min L.length b.length := by
  induction L generalizing acc b with
  | nil => simp [solveLowerUnitAux]
  | cons row rest ih =>
    cases b with
    | nil => simp [solveLowerUnitAux]
    | cons bi bs =>
      rw [solveLowerUnitAux, ih]
      simp only [List.length_append, List.length_cons, List.length_nil]
      omega

theorem solveLowerUnit_length (o : Ops α) (L : List (List α)) (b : List α) :
    (solveLowerUnit o L b).length = min L.length b.length := by
  unfold solveLowerUnit
  rw [solveLowerUnitAux_length]; simp

theorem solveLowerUnitAux_rec (o : Ops α) (acc : List α) (L : List (List α)) (b : List α) (i : Nat)
    (h1 : acc.length ≤ i) (h2 : i < acc.length + min L.length b.length) :
    (solveLowerUnitAux o acc L b).getD i (zero o)
      = o.sub (b.getD (i - acc.length) (zero o))
          (dot o (L.getD (i - acc.length) []) ((solveLowerUnitAux o acc L b).take i)) := by
  induction L generalizing acc b with
  | nil => simp at h2; omega
  | cons row rest ih =>
    cases b with
    | nil => simp at h2; omega
    | cons bi bs =>
      rw [solveLowerUnitAux]
      rcases Nat.eq_or_lt_of_le h1 with heq | hlt
      · -- the freshly appended entry
        obtain ⟨t, ht⟩ := solveLowerUnitAux_prefix o (acc ++ [o.sub bi (dot o row acc)]) rest bs
        rw [← ht, ← heq]
        simp [List.getD_eq_getElem?_getD]
      · have h1' : (acc ++ [o.sub bi (dot o row acc)]).length ≤ i := by
          simp only [List.length_append, List.length_cons, List.length_nil]; omega
        have h2' : i < (acc ++ [o.sub bi (dot o row acc)]).length + min rest.length bs.length := by
          simp only [List.length_append, List.length_cons, List.length_nil] at h2 ⊢; omega
        rw [ih _ _ h1' h2']
        have e : i - acc.length = (i - (acc ++ [o.sub bi (dot o row acc)]).length) + 1 := by
          simp only [List.length_append, List.length_cons, List.length_nil]; omega
        rw [e, List.getD_cons_succ, List.getD_cons_succ]

theorem solveLowerUnit_rec (o : Ops α) (L : List (List α)) (b : List α) (i : Nat)
    (hi : i < min L.length b.length) :
    (solveLowerUnit o L b).getD i (zero o)
      = o.sub (b.getD i (zero o)) (dot o (L.getD i []) ((solveLowerUnit o L b).take i)) := by
  unfold solveLowerUnit
  have := solveLowerUnitAux_rec o [] L b i (by simp) (by simpa using hi)
  simpa using this

end generic

theorem getD_take_of_lt {α : Type} (l : List α) (i j : Nat) (d : α) (h : j < i) :
    (l.take i).getD j d = l.getD j d := by
  simp [List.getD_eq_getElem?_getD, h]

theorem getD_of_lt {α : Type} (l : List α) (d : α) {i : Nat} (h : i < l.length) : l.getD i d = l[i] := by
  simp [List.getD_eq_getElem?_getD, h]

theorem getD_mem_length {n : Nat} (M : List (List ℝ)) (hrow : ∀ r ∈ M, r.length = n) (i : Nat)
    (hi : i < M.length) : (M.getD i []).length = n := by
  rw [getD_of_lt _ _ hi]
  exact hrow _ (List.getElem_mem hi)

theorem solveLowerUnit_correct (n : Nat) (L : List (List ℝ)) (b : List ℝ) (hL : L.length = n)
    (hrow : ∀ r ∈ L, r.length = n) (hb : b.length = n) :
    let xs := solveLowerUnit realOps L b
    xs.length = n ∧
      ∀ i < n, (∑ j ∈ Finset.range i, entry realOps L i j * xs.getD j 0) + xs.getD i 0 = b.getD i 0 := by
  intro xs
  have hlen : xs.length = n := by
    show (solveLowerUnit realOps L b).length = n
    rw [solveLowerUnit_length, hL, hb, min_self]
  refine ⟨hlen, fun i hi => ?_⟩
  have hrec := solveLowerUnit_rec realOps L b i (by rw [hL, hb, min_self]; exact hi)
  rw [zero_real, r_sub, dot_real] at hrec
  have hrl : (L.getD i []).length = n := getD_mem_length L hrow i (by omega)
  have hmin : min (L.getD i []).length ((solveLowerUnit realOps L b).take i).length = i := by
    rw [hrl, List.length_take]
    have : (solveLowerUnit realOps L b).length = n := hlen
    omega
  rw [hmin] at hrec
  have hsum : ∑ j ∈ Finset.range i, entry realOps L i j * xs.getD j 0
      = ∑ j ∈ Finset.range i, (L.getD i []).getD j 0 * ((solveLowerUnit realOps L b).take i).getD j 0 := by
    refine Finset.sum_congr rfl (fun j hj => ?_)
    rw [entry_real, getD_take_of_lt _ _ _ _ (Finset.mem_range.mp hj)]
  rw [hsum]
  show _ + (solveLowerUnit realOps L b).getD i 0 = _
  rw [hrec]; ring

/-! ## C. back substitution -/

theorem solveUpperAux_length {α : Type} (o : Ops α) (i : Nat) (U : List (List α)) (b : List α) :
    (solveUpperAux o i U b).length = min U.length b.length := by
  induction U generalizing i b with
  | nil => simp [solveUpperAux]
  | cons row rest ih =>
    cases b with
    | nil => simp [solveUpperAux]
    | cons bi bs =>
      simp only [solveUpperAux, List.length_cons, ih]
      omega

theorem solveUpper_length {α : Type} (o : Ops α) (U : List (List α)) (b : List α) :
    (solveUpper o U b).length = min U.length b.length :=
  solveUpperAux_length o 0 U b

theorem solveUpperAux_correct (m i : Nat) (rows : List (List ℝ)) (bs : List ℝ)
    (hr : rows.length = m) (hbs : bs.length = m) (hrow : ∀ r ∈ rows, r.length = i + m)
    (hp : ∀ t < m, (rows.getD t []).getD (i + t) 0 ≠ 0) :
    ∀ t < m, ∑ s ∈ Finset.range (m - t),
        (rows.getD t []).getD (i + t + s) 0 * (solveUpperAux realOps i rows bs).getD (t + s) 0
      = bs.getD t 0 := by
  induction rows generalizing m i bs with
  | nil => intro t ht; simp at hr; omega
  | cons row rest ih =>
    cases bs with
    | nil => intro t ht; simp at hbs; omega
    | cons bi bs =>
      obtain ⟨m', rfl⟩ : ∃ m', m = m' + 1 := ⟨rest.length, by simpa using hr.symm⟩
      have hr' : rest.length = m' := by simpa using hr
      have hbs' : bs.length = m' := by simpa using hbs
      have hrow' : ∀ r ∈ rest, r.length = (i + 1) + m' := by
        intro r hr; rw [hrow r (List.mem_cons_of_mem _ hr)]; omega
      have hp' : ∀ t < m', (rest.getD t []).getD (i + 1 + t) 0 ≠ 0 := by
        intro t ht
        have := hp (t + 1) (by omega)
        rw [List.getD_cons_succ] at this
        have e : i + (t + 1) = i + 1 + t := by omega
        rwa [e] at this
      have IH := ih m' (i + 1) bs hr' hbs' hrow' hp'
      have hxs : (solveUpperAux realOps (i + 1) rest bs).length = m' := by
        rw [solveUpperAux_length, hr', hbs', min_self]
      have hrl : row.length = i + (m' + 1) := hrow row (List.mem_cons_self)
      intro t ht
      rw [solveUpperAux]
      cases t with
      | zero =>
        have hpiv : row.getD i 0 ≠ 0 := by simpa using hp 0 (by omega)
        simp only [List.getD_cons_zero, Nat.sub_zero, add_zero, zero_add]
        rw [Finset.sum_range_succ']
        simp only [List.getD_cons_succ, List.getD_cons_zero, add_zero]
        rw [zero_real, r_div, r_sub, dot_real, hxs]
        have hmin : min (row.drop (i + 1)).length m' = m' := by
          rw [List.length_drop, hrl]; omega
        rw [hmin]
        have hsum : ∑ j ∈ Finset.range m',
              (row.drop (i + 1)).getD j 0 * (solveUpperAux realOps (i + 1) rest bs).getD j 0
            = ∑ j ∈ Finset.range m',
              row.getD (i + (j + 1)) 0 * (solveUpperAux realOps (i + 1) rest bs).getD j 0 := by
          refine Finset.sum_congr rfl (fun j _ => ?_)
          congr 1
          simp only [List.getD_eq_getElem?_getD, List.getElem?_drop]
          congr 2
          omega
        rw [hsum]
        field_simp
        ring
      | succ t' =>
        have := IH t' (by omega)
        rw [show (bi :: bs).getD (t' + 1) 0 = bs.getD t' 0 from rfl, ← this]
        have e : m' + 1 - (t' + 1) = m' - t' := by omega
        rw [e]
        refine Finset.sum_congr rfl (fun s _ => ?_)
        have e1 : t' + 1 + s = (t' + s) + 1 := by omega
        have e2 : i + (t' + 1) + s = i + 1 + t' + s := by omega
        rw [e1, e2, List.getD_cons_succ, List.getD_cons_succ]

theorem solveUpper_correct (n : Nat) (U : List (List ℝ)) (b : List ℝ) (hU : U.length = n)
    (hrow : ∀ r ∈ U, r.length = n) (hb : b.length = n) (hd : ∀ i < n, entry realOps U i i ≠ 0) :
    let xs := solveUpper realOps U b
    xs.length = n ∧ ∀ i < n, ∑ j ∈ Finset.Ico i n, entry realOps U i j * xs.getD j 0 = b.getD i 0 := by
  intro xs
  refine ⟨?_, fun i hi => ?_⟩
  · show (solveUpper realOps U b).length = n
    rw [solveUpper_length, hU, hb, min_self]
  · have h := solveUpperAux_correct n 0 U b hU hb (by simpa using hrow)
      (by intro t ht; have := hd t ht; rw [entry_real] at this; simpa using this) i hi
    rw [Finset.sum_Ico_eq_sum_range]
    rw [← h]
    refine Finset.sum_congr rfl (fun s _ => ?_)
    rw [entry_real, zero_add]
    rfl

/-! ## D. matrix–vector product -/

theorem matVec_real (n : Nat) (M : List (List ℝ)) (x : List ℝ) (hM : M.length = n)
    (hrow : ∀ r ∈ M, r.length = n) (hx : x.length = n) :
    ∀ i < n, (matVec realOps M x).getD i 0 = ∑ j ∈ Finset.range n, entry realOps M i j * x.getD j 0 := by
  intro i hi
  have hi' : i < M.length := by omega
  unfold matVec
  rw [getD_of_lt _ _ (by simpa using hi'), List.getElem_map, dot_real,
    hrow _ (List.getElem_mem hi'), hx, min_self]
  refine Finset.sum_congr rfl (fun j _ => ?_)
  rw [entry_real, getD_of_lt _ _ hi']

end LFTriSolve
