import NflowsModel.Lemmas.DistContract
import Mathlib.Tactic
/-!
# Lemmas/BatchLayoutLink — `batchLayout` is about the object that `Hooks.sample` builds (C18, audit finding 1)

`Properties/C18.lean` has `batchLayout_spec`, a fact about the separately defined `batchLayout` / `piecesLayout` /
`batchSizes`, and `batched_sample_shape` about the executed `Hooks.sample`, which works on shapes only.  This file
links the two.

* `samplePieces` is the list that `Hooks.sample` hands to `catShapes` (same `mapM` over `List.replicate (n / b) b`,
  same remainder test); `sample_eq_cat_samplePieces` is the unfolding (no hypothesis), `samplePieces_sizes` says that
  along the concatenation dimension `catDim ctx` the pieces have exactly the sizes `batchSizes n b`, in that order.
* `sampleValues` is the value-level twin of `Hooks.sample`: it threads abstract draws
  `draw : (piece : Nat) → (outer row : Nat) → (pos : Nat) → δ` through the SAME control flow and joins the pieces with
  `catPieces` (`torch.cat` along `dim`: for every outer index the blocks of the pieces one after the other).
  - `sampleValues_shape` (NO hypothesis, every hook, every argument, error paths included):
    its shape projection is `Hooks.sample`.
  - `sampleValues_batched`: under the hook contract the rows of the result are
    `(batchLayout n b).map (fun pq => draw pq.1 r pq.2)` for every outer row `r` (one row without a context, `R`
    rows with a context of `R` rows).
  - `sampleValues_draw`: hence draw `k` of row `r` is `draw (k / b) r (k % b)`.
  - `sampleValues_batched_eq_unbatched`: the batched result is the unbatched call fed the re-indexed draws.

What is NOT modelled: randomness.  "Independent draws laid side by side are distributed as one call" is a statement
about the generator and stays with the harness; what is proved is that no draw of any piece is dropped, repeated,
or moved.
-/
namespace NF.Dist

/-! ## the list that `Hooks.sample` concatenates -/

/-- the pieces `Hooks.sample` generates for `batch_size = b` (base.py:76-80): the argument of `catShapes` -/
def samplePieces (h : Hooks) (num : PyVal) (ctx : Option Shape) (b : PyVal) : Except DErr (List Shape) :=
  ((List.replicate (num.toNat / b.toNat) b).mapM (fun k => h.sampleHook k ctx)) >>= fun full =>
  (if num.toNat % b.toNat > 0
   then (h.sampleHook (.int (num.toNat % b.toNat : Nat)) ctx).map (fun s => [s])
   else .ok []) >>= fun rest =>
  .ok (full ++ rest)

/-- `Hooks.sample` after its two argument checks -/
theorem sample_unfold (h : Hooks) (num : PyVal) (ctx : Option Shape) (b : PyVal)
    (hnum : isPositiveInt num = true) (hb : isPositiveInt b = true) :
    h.sample num ctx b =
      (((List.replicate (num.toNat / b.toNat) b).mapM (fun k => h.sampleHook k ctx)) >>= fun full =>
      (if num.toNat % b.toNat > 0
       then (h.sampleHook (.int (num.toNat % b.toNat : Nat)) ctx).map (fun s => [s])
       else .ok []) >>= fun rest =>
      catShapes (catDim ctx) (full ++ rest)) := by
  cases b with
  | none => simp [isPositiveInt] at hb
  | int _ | bool _ | float | str =>
    simp only [Hooks.sample, hnum, hb, Bool.not_true, Bool.false_eq_true, if_false]

/-- unfolding of the executed `Hooks.sample` (no hypothesis on the hooks): validation, then `catShapes` of
    `samplePieces` -/
theorem sample_eq_cat_samplePieces (h : Hooks) (num : PyVal) (ctx : Option Shape) (b : PyVal)
    (hnum : isPositiveInt num = true) (hb : isPositiveInt b = true) :
    h.sample num ctx b = samplePieces h num ctx b >>= catShapes (catDim ctx) := by
  unfold samplePieces
  rw [sample_unfold h num ctx b hnum hb]
  cases (List.replicate _ _).mapM (fun k => h.sampleHook k ctx) with
  | error e => rfl
  | ok full =>
    simp only [ok_bind]
    split
    · cases h.sampleHook _ ctx with
      | error e => rfl
      | ok s => rfl
    · rfl

/-- generic form: if the hook returns `mk k` for a batch of `k` draws, the pieces are `mk` of `batchSizes n b` -/
theorem samplePieces_generic (h : Hooks) (ctx : Option Shape) (n b : Nat) (hb : 0 < b) (mk : Nat → Shape)
    (hhook : ∀ k : Nat, 0 < k → h.sampleHook (.int k) ctx = .ok (mk k)) :
    samplePieces h (.int n) ctx (.int b) = .ok ((batchSizes n b).map mk) := by
  unfold samplePieces
  simp only [PyVal.toNat, Int.toNat_natCast]
  rw [mapM_replicate_ok (fun k => h.sampleHook k ctx) _ _ (hhook b hb)]
  simp only [ok_bind]
  by_cases hr : n % b > 0
  · have hk := hhook (n % b) hr
    simp only [hr, if_true, hk, map_ok, ok_bind]
    simp [batchSizes, hr, List.map_replicate]
  · simp only [hr, if_false, ok_bind]
    simp [batchSizes, hr, List.map_replicate]

/-- the shape a hook owes for `k` draws -/
def pieceShape (event : Shape) (ctx : Option Shape) (k : Nat) : Shape := contractSample event (ctxRows ctx) k

theorem hook_pieceShape {h : Hooks} {event : Shape} {okRow : Option Shape → Prop} (S : SampleSpec h event okRow)
    (ctx : Option Shape) (hctx : Accepts okRow ctx) (k : Nat) (hk : 0 < k) :
    h.sampleHook (.int k) ctx = .ok (pieceShape event ctx k) := by
  match ctx, hctx with
  | none, hc =>
    simpa [PyVal.toNat, pieceShape, contractSample, ctxRows] using S.noctx hc (.int k) (isPositiveInt_natCast hk) rfl
  | some (R :: rest), hc =>
    simpa [PyVal.toNat, pieceShape, contractSample, ctxRows] using
      S.ctx R rest hc.1 hc.2 (.int k) (isPositiveInt_natCast hk)

/-- size of a piece along the concatenation dimension -/
theorem pieceShape_getD (event : Shape) (ctx : Option Shape) (hctx : ctx ≠ some []) (k : Nat) :
    (pieceShape event ctx k).getD (catDim ctx) 0 = k := by
  match ctx, hctx with
  | none, _ => simp [pieceShape, contractSample, ctxRows, catDim]
  | some (R :: rest), _ => simp [pieceShape, contractSample, ctxRows, catDim]

theorem accepts_ne_nil {okRow : Option Shape → Prop} {ctx : Option Shape} (h : Accepts okRow ctx) : ctx ≠ some [] := by
  rintro rfl; exact h

/-- **the pieces that `Hooks.sample` concatenates**: under the hook contract the executed `mapM` + remainder produce
    one contract-shaped piece per entry of `batchSizes n b`, in that order -/
theorem samplePieces_ok {h : Hooks} {event : Shape} {okRow : Option Shape → Prop} (S : SampleSpec h event okRow)
    (ctx : Option Shape) (hctx : Accepts okRow ctx) (n b : Nat) (hb : 0 < b) :
    samplePieces h (.int n) ctx (.int b) = .ok ((batchSizes n b).map (pieceShape event ctx)) :=
  samplePieces_generic h ctx n b hb _ (fun k hk => hook_pieceShape S ctx hctx k hk)

/-- **sizes along the concatenation dimension**: the list fed to `catShapes (catDim ctx)` inside `Hooks.sample` has,
    along `catDim ctx`, exactly the sizes `batchSizes n b` — the list `batchLayout` is defined from -/
theorem samplePieces_sizes {h : Hooks} {event : Shape} {okRow : Option Shape → Prop} (S : SampleSpec h event okRow)
    (ctx : Option Shape) (hctx : Accepts okRow ctx) (n b : Nat) (hn : 0 < n) (hb : 0 < b) :
    ∃ pieces : List Shape,
      samplePieces h (.int n) ctx (.int b) = .ok pieces ∧
      h.sample (.int n) ctx (.int b) = catShapes (catDim ctx) pieces ∧
      pieces.map (fun s => s.getD (catDim ctx) 0) = batchSizes n b := by
  refine ⟨_, samplePieces_ok S ctx hctx n b hb, ?_, ?_⟩
  · rw [sample_eq_cat_samplePieces h _ ctx _ (isPositiveInt_natCast hn) (isPositiveInt_natCast hb),
      samplePieces_ok S ctx hctx n b hb]
    rfl
  · rw [List.map_map]
    conv_rhs => rw [← List.map_id (batchSizes n b)]
    apply List.map_congr_left
    intro k _
    simpa using pieceShape_getD event ctx (accepts_ne_nil hctx) k

/-! ## value level: the same control flow with abstract draws -/

/-- a generated tensor seen along its draw dimension `dim`: its shape and, for every outer index
    `r < ∏ shape[:dim]` (one without context, the context row with a context), the `shape[dim]` draws in order -/
structure Piece (δ : Type) where
  shape : Shape
  rows : List (List δ)
deriving DecidableEq, Repr

variable {δ : Type}

/-- the tensor of shape `s` whose draw `q` of outer row `r` is `draw r q` -/
def Piece.ofShape (dim : Nat) (draw : Nat → Nat → δ) (s : Shape) : Piece δ :=
  ⟨s, (List.range (numel (s.take dim))).map fun r => (List.range (s.getD dim 0)).map fun q => draw r q⟩

/-- value-level `_sample`: the `piece`-th call of the hook; its draws are `draw piece` -/
def sampleHookV (h : Hooks) (draw : Nat → Nat → Nat → δ) (piece : Nat) (k : PyVal) (ctx : Option Shape) :
    Except DErr (Piece δ) :=
  (h.sampleHook k ctx).map (Piece.ofShape (catDim ctx) (draw piece))

/-- `torch.cat(pieces, dim)` with values: the shape is `catShapes`; for every outer index the blocks of the pieces
    are appended one after the other along `dim` -/
def catPieces (dim : Nat) (ps : List (Piece δ)) : Except DErr (Piece δ) :=
  (catShapes dim (ps.map (·.shape))).map fun s =>
    ⟨s, (List.range (numel (s.take dim))).map fun r => (ps.map fun p => p.rows.getD r []).flatten⟩

/-- the value-level twin of `Hooks.sample`: same validation, same `mapM` over `List.replicate (n / b) b` (the call
    index threaded with `zipIdx`), same remainder test, `catPieces` where `Hooks.sample` has `catShapes` -/
def sampleValues (h : Hooks) (draw : Nat → Nat → Nat → δ) (num : PyVal) (ctx : Option Shape) (batch : PyVal) :
    Except DErr (Piece δ) :=
  if !isPositiveInt num then .error .typeError else
  match batch with
  | .none => sampleHookV h draw 0 num ctx
  | b =>
    if !isPositiveInt b then .error .typeError else
    ((List.replicate (num.toNat / b.toNat) b).zipIdx.mapM (fun ki => sampleHookV h draw ki.2 ki.1 ctx)) >>= fun full =>
    (if num.toNat % b.toNat > 0
     then (sampleHookV h draw (num.toNat / b.toNat) (.int (num.toNat % b.toNat : Nat)) ctx).map (fun s => [s])
     else .ok []) >>= fun rest =>
    catPieces (catDim ctx) (full ++ rest)

/-! ### (i) the shape projection of `sampleValues` is `Hooks.sample` -/

theorem sampleHookV_ok (h : Hooks) (draw : Nat → Nat → Nat → δ) (p : Nat) {k : PyVal} {ctx : Option Shape} {s : Shape}
    (hs : h.sampleHook k ctx = .ok s) :
    sampleHookV h draw p k ctx = .ok (Piece.ofShape (catDim ctx) (draw p) s) := by
  simp [sampleHookV, hs]

theorem sampleHookV_error (h : Hooks) (draw : Nat → Nat → Nat → δ) (p : Nat) {k : PyVal} {ctx : Option Shape}
    {e : DErr} (hs : h.sampleHook k ctx = .error e) : sampleHookV h draw p k ctx = .error e := by
  simp [sampleHookV, hs]

@[simp] theorem Piece.ofShape_shape (dim : Nat) (draw : Nat → Nat → δ) (s : Shape) :
    (Piece.ofShape dim draw s).shape = s := rfl

theorem mapM_zipIdx_shape (h : Hooks) (draw : Nat → Nat → Nat → δ) (ctx : Option Shape) :
    ∀ (l : List PyVal) (p : Nat),
      ((l.zipIdx p).mapM (fun ki => sampleHookV h draw ki.2 ki.1 ctx)).map (List.map (·.shape))
        = l.mapM (fun k => h.sampleHook k ctx) := by
  intro l
  induction l with
  | nil => intro p; rfl
  | cons a t ih =>
    intro p
    rw [List.zipIdx_cons, List.mapM_cons, List.mapM_cons, ← ih (p + 1)]
    cases hs : h.sampleHook a ctx with
    | error e => rw [sampleHookV_error h draw p hs]; rfl
    | ok s =>
      rw [sampleHookV_ok h draw p hs]
      cases (t.zipIdx (p + 1)).mapM (fun ki => sampleHookV h draw ki.2 ki.1 ctx) with
      | error e => rfl
      | ok ps => rfl

theorem catPieces_shape (dim : Nat) (ps : List (Piece δ)) :
    (catPieces dim ps).map (·.shape) = catShapes dim (ps.map (·.shape)) := by
  unfold catPieces
  cases catShapes dim (ps.map (·.shape)) <;> rfl

/-- `sampleValues` after its two argument checks -/
theorem sampleValues_unfold (h : Hooks) (draw : Nat → Nat → Nat → δ) (num : PyVal) (ctx : Option Shape) (b : PyVal)
    (hnum : isPositiveInt num = true) (hb : isPositiveInt b = true) :
    sampleValues h draw num ctx b =
      (((List.replicate (num.toNat / b.toNat) b).zipIdx.mapM (fun ki => sampleHookV h draw ki.2 ki.1 ctx))
        >>= fun full =>
      (if num.toNat % b.toNat > 0
       then (sampleHookV h draw (num.toNat / b.toNat) (.int (num.toNat % b.toNat : Nat)) ctx).map (fun s => [s])
       else .ok []) >>= fun rest =>
      catPieces (catDim ctx) (full ++ rest)) := by
  cases b with
  | none => simp [isPositiveInt] at hb
  | int _ | bool _ | float | str =>
    simp only [sampleValues, hnum, hb, Bool.not_true, Bool.false_eq_true, if_false]

/-- **(i)** for every hook pair, every argument and every context — error paths included — forgetting the draws of
    `sampleValues` gives exactly the executed `Hooks.sample` -/
theorem sampleValues_shape (h : Hooks) (draw : Nat → Nat → Nat → δ) (num : PyVal) (ctx : Option Shape)
    (batch : PyVal) :
    (sampleValues h draw num ctx batch).map (·.shape) = h.sample num ctx batch := by
  by_cases hnum : isPositiveInt num = true
  swap
  · simp [sampleValues, Hooks.sample, hnum]
  by_cases hbn : batch = .none
  · subst hbn
    simp only [sampleValues, Hooks.sample, hnum, Bool.not_true, Bool.false_eq_true, if_false, sampleHookV]
    cases h.sampleHook num ctx <;> rfl
  by_cases hb : isPositiveInt batch = true
  swap
  · rw [sample_typeError_of_bad_batch h num ctx batch (by simpa using hb) hbn]
    cases batch <;> simp_all [sampleValues]
  rw [sampleValues_unfold h draw num ctx batch hnum hb, sample_unfold h num ctx batch hnum hb,
    ← mapM_zipIdx_shape h draw ctx _ 0]
  cases (List.zipIdx _ 0).mapM (fun ki => sampleHookV h draw ki.2 ki.1 ctx) with
  | error e => rfl
  | ok full =>
    simp only [ok_bind, map_ok]
    split
    · cases hs : h.sampleHook (.int (num.toNat % batch.toNat : Nat)) ctx with
      | error e => rw [sampleHookV_error h draw _ hs]; rfl
      | ok s =>
        rw [sampleHookV_ok h draw _ hs]
        simp only [map_ok, ok_bind]
        rw [catPieces_shape]
        simp
    · simp only [ok_bind]
      rw [catPieces_shape]
      simp

/-! ### (ii) where every draw of the result comes from -/

theorem flatten_piecesLayout (f : Nat → Nat → δ) : ∀ (sizes : List Nat) (p : Nat),
    ((sizes.zipIdx p).map fun ki => (List.range ki.1).map (f ki.2)).flatten
      = (piecesLayout p sizes).map fun pq => f pq.1 pq.2 := by
  intro sizes
  induction sizes with
  | nil => intro p; simp [piecesLayout]
  | cons a t ih =>
    intro p
    simp [List.zipIdx_cons, piecesLayout, ih (p + 1), Function.comp_def]

theorem map_fst_zipIdx' {α β : Type} (g : α → β) : ∀ (l : List α) (p : Nat),
    ((l.zipIdx p).map fun ki => g ki.1) = l.map g := by
  intro l
  induction l with
  | nil => intro p; rfl
  | cons a t ih => intro p; simp [List.zipIdx_cons, ih (p + 1)]

theorem mapM_zipIdx_ok (h : Hooks) (draw : Nat → Nat → Nat → δ) (ctx : Option Shape) (mk : Nat → Shape) (b : Nat)
    (hhook : h.sampleHook (.int b) ctx = .ok (mk b)) : ∀ (q p : Nat),
    ((List.replicate q (PyVal.int b)).zipIdx p).mapM (fun ki => sampleHookV h draw ki.2 ki.1 ctx)
      = .ok (((List.replicate q b).zipIdx p).map fun ki => Piece.ofShape (catDim ctx) (draw ki.2) (mk ki.1)) := by
  intro q
  induction q with
  | zero => intro p; rfl
  | succ q ih =>
    intro p
    rw [List.replicate_succ, List.replicate_succ, List.zipIdx_cons, List.zipIdx_cons, List.mapM_cons,
      sampleHookV_ok h draw p hhook, ih (p + 1)]
    rfl

/-- number of outer rows of a generated tensor along the draw dimension: 1 without a context, `R` with `R`
    context rows -/
def outerRows : Option Shape → Nat
  | none => 1
  | some [] => 0
  | some (r :: _) => r

/-- joining contract-shaped pieces of the given sizes: the rows are the pieces' draws in `piecesLayout` order -/
theorem catPieces_layout (dim R : Nat) (mk : Nat → Shape) (draw : Nat → Nat → Nat → δ)
    (hcat : ∀ l : List Nat, l ≠ [] → catShapes dim (l.map mk) = .ok (mk l.sum))
    (hR : ∀ k, numel ((mk k).take dim) = R) (hsz : ∀ k, (mk k).getD dim 0 = k)
    (sizes : List Nat) (hne : sizes ≠ []) :
    catPieces dim ((sizes.zipIdx 0).map fun ki => Piece.ofShape dim (draw ki.2) (mk ki.1))
      = .ok ⟨mk sizes.sum, (List.range R).map fun r => (piecesLayout 0 sizes).map fun pq => draw pq.1 r pq.2⟩ := by
  unfold catPieces
  have hsh : (((sizes.zipIdx 0).map fun ki => Piece.ofShape dim (draw ki.2) (mk ki.1)).map (·.shape))
      = sizes.map mk := by
    rw [List.map_map]
    exact map_fst_zipIdx' mk sizes 0
  rw [hsh, hcat sizes hne]
  simp only [map_ok, hR]
  congr 2
  apply List.map_congr_left
  intro r hr
  rw [List.mem_range] at hr
  rw [← flatten_piecesLayout (fun i q => draw i r q) sizes 0, List.map_map]
  congr 1
  apply List.map_congr_left
  intro ki _
  have hsz' : (mk ki.1)[dim]?.getD 0 = ki.1 := by simpa using hsz ki.1
  simp [Piece.ofShape, hR, hsz', hr]

/-- generic form of (ii): if the hook returns `mk k` for `k` draws, where `mk k` has `k` slices along the draw
    dimension and `R` outer rows, and `cat` of such pieces adds the counts up, then the value-level result has shape
    `mk n` and its rows list the pieces' draws in `batchLayout` order -/
theorem sampleValues_generic (h : Hooks) (ctx : Option Shape) (n b : Nat) (hn : 0 < n) (hb : 0 < b)
    (mk : Nat → Shape) (R : Nat)
    (hhook : ∀ k : Nat, 0 < k → h.sampleHook (.int k) ctx = .ok (mk k))
    (hcat : ∀ l : List Nat, l ≠ [] → catShapes (catDim ctx) (l.map mk) = .ok (mk l.sum))
    (hR : ∀ k, numel ((mk k).take (catDim ctx)) = R) (hsz : ∀ k, (mk k).getD (catDim ctx) 0 = k)
    (draw : Nat → Nat → Nat → δ) :
    sampleValues h draw (.int n) ctx (.int b)
      = .ok ⟨mk n, (List.range R).map fun r => (batchLayout n b).map fun pq => draw pq.1 r pq.2⟩ := by
  rw [sampleValues_unfold h draw _ ctx _ (isPositiveInt_natCast hn) (isPositiveInt_natCast hb)]
  simp only [PyVal.toNat, Int.toNat_natCast]
  rw [mapM_zipIdx_ok h draw ctx mk b (hhook b hb)]
  simp only [ok_bind]
  have key : ∀ rest : List (Piece δ),
      rest = ((if n % b > 0 then [n % b] else []).zipIdx (n / b)).map
        (fun ki => Piece.ofShape (catDim ctx) (draw ki.2) (mk ki.1)) →
      catPieces (catDim ctx)
        ((((List.replicate (n / b) b).zipIdx 0).map fun ki => Piece.ofShape (catDim ctx) (draw ki.2) (mk ki.1)) ++ rest)
        = .ok ⟨mk n, (List.range R).map fun r => (batchLayout n b).map fun pq => draw pq.1 r pq.2⟩ := by
    intro rest hrest
    have : (((List.replicate (n / b) b).zipIdx 0).map fun ki => Piece.ofShape (catDim ctx) (draw ki.2) (mk ki.1))
        ++ rest = ((batchSizes n b).zipIdx 0).map fun ki => Piece.ofShape (catDim ctx) (draw ki.2) (mk ki.1) := by
      rw [hrest, batchSizes, List.zipIdx_append, List.map_append]
      simp
    rw [this, catPieces_layout (catDim ctx) R mk draw hcat hR hsz _ (batchSizes_ne_nil n b hn hb), batchSizes_sum]
    rfl
  by_cases hr : n % b > 0
  · have hk := hhook (n % b) hr
    simp only [hr, if_true, sampleHookV_ok h draw _ hk, map_ok, ok_bind]
    exact key _ (by simp [hr])
  · simp only [hr, if_false, ok_bind]
    exact key _ (by simp [hr])

/-- the unbatched call: one piece, index 0 -/
theorem sampleValues_unbatched_generic (h : Hooks) (ctx : Option Shape) (n : Nat) (hn : 0 < n)
    (mk : Nat → Shape) (R : Nat) (hhook : ∀ k : Nat, 0 < k → h.sampleHook (.int k) ctx = .ok (mk k))
    (hR : ∀ k, numel ((mk k).take (catDim ctx)) = R) (hsz : ∀ k, (mk k).getD (catDim ctx) 0 = k)
    (draw : Nat → Nat → Nat → δ) :
    sampleValues h draw (.int n) ctx .none
      = .ok ⟨mk n, (List.range R).map fun r => (List.range n).map fun q => draw 0 r q⟩ := by
  simp only [sampleValues, isPositiveInt_natCast hn, Bool.not_true, Bool.false_eq_true, if_false,
    sampleHookV_ok h draw 0 (hhook n hn), Piece.ofShape, hR, hsz]

theorem cat_pieceShape (event : Shape) (ctx : Option Shape) (hctx : ctx ≠ some []) (l : List Nat) (hl : l ≠ []) :
    catShapes (catDim ctx) (l.map (pieceShape event ctx)) = .ok (pieceShape event ctx l.sum) := by
  match ctx, hctx with
  | none, _ =>
    have e : pieceShape event none = fun a => a :: event := by
      funext a; simp [pieceShape, contractSample, ctxRows]
    rw [e]
    simpa [catDim] using cat_dim0 event l hl
  | some (R :: rest), _ =>
    have e : pieceShape event (some (R :: rest)) = fun a => R :: a :: event := by
      funext a; simp [pieceShape, contractSample, ctxRows]
    rw [e]
    simpa [catDim] using cat_dim1 R event l hl

theorem pieceShape_outer (event : Shape) (ctx : Option Shape) (hctx : ctx ≠ some []) (k : Nat) :
    numel ((pieceShape event ctx k).take (catDim ctx)) = outerRows ctx := by
  match ctx, hctx with
  | none, _ => simp [pieceShape, contractSample, ctxRows, catDim, outerRows, numel]
  | some (R :: rest), _ => simp [pieceShape, contractSample, ctxRows, catDim, outerRows, numel]

/-- **(ii)** batched generation at the value level, for every class that meets the hook contract, every accepted
    context, every `n > 0`, `b > 0`: the executed control flow of `Hooks.sample`, fed the draws
    `draw piece row pos`, returns the contract shape and, for every outer row `r` (one without a context, each of the
    `R` context rows with a context), the draws `draw p r q` for `(p, q)` running through `batchLayout n b`.
    So `batchLayout_spec` (every draw of every piece exactly once, in order) is about what `Hooks.sample` builds. -/
theorem sampleValues_batched {h : Hooks} {event : Shape} {okRow : Option Shape → Prop} (S : SampleSpec h event okRow)
    (ctx : Option Shape) (hctx : Accepts okRow ctx) (n b : Nat) (hn : 0 < n) (hb : 0 < b)
    (draw : Nat → Nat → Nat → δ) :
    sampleValues h draw (.int n) ctx (.int b)
      = .ok ⟨contractSample event (ctxRows ctx) n,
          (List.range (outerRows ctx)).map fun r => (batchLayout n b).map fun pq => draw pq.1 r pq.2⟩ :=
  sampleValues_generic h ctx n b hn hb (pieceShape event ctx) (outerRows ctx)
    (fun k hk => hook_pieceShape S ctx hctx k hk)
    (cat_pieceShape event ctx (accepts_ne_nil hctx))
    (pieceShape_outer event ctx (accepts_ne_nil hctx))
    (pieceShape_getD event ctx (accepts_ne_nil hctx)) draw

/-- the single unbatched call returns the draws of piece 0 in order -/
theorem sampleValues_unbatched {h : Hooks} {event : Shape} {okRow : Option Shape → Prop}
    (S : SampleSpec h event okRow) (ctx : Option Shape) (hctx : Accepts okRow ctx) (n : Nat) (hn : 0 < n)
    (draw : Nat → Nat → Nat → δ) :
    sampleValues h draw (.int n) ctx .none
      = .ok ⟨contractSample event (ctxRows ctx) n,
          (List.range (outerRows ctx)).map fun r => (List.range n).map fun q => draw 0 r q⟩ :=
  sampleValues_unbatched_generic h ctx n hn (pieceShape event ctx) (outerRows ctx)
    (fun k hk => hook_pieceShape S ctx hctx k hk)
    (pieceShape_outer event ctx (accepts_ne_nil hctx))
    (pieceShape_getD event ctx (accepts_ne_nil hctx)) draw

/-- **position `k` of the concatenated result**: for every outer row `r` and every `k < n`, draw `k` of row `r` of
    the batched result is draw `k % b` of piece `k / b` (of that row); each row has exactly `n` draws -/
theorem sampleValues_draw {h : Hooks} {event : Shape} {okRow : Option Shape → Prop} (S : SampleSpec h event okRow)
    (ctx : Option Shape) (hctx : Accepts okRow ctx) (n b : Nat) (hn : 0 < n) (hb : 0 < b)
    (draw : Nat → Nat → Nat → δ) :
    ∃ P : Piece δ, sampleValues h draw (.int n) ctx (.int b) = .ok P ∧
      P.shape = contractSample event (ctxRows ctx) n ∧
      P.rows.length = outerRows ctx ∧
      ∀ r, r < outerRows ctx → ∃ row, P.rows[r]? = some row ∧ row.length = n ∧
        ∀ k, k < n → row[k]? = some (draw (k / b) r (k % b)) ∧
          (batchLayout n b)[k]? = some (k / b, k % b) := by
  refine ⟨_, sampleValues_batched S ctx hctx n b hn hb draw, rfl, by simp, ?_⟩
  intro r hr
  obtain ⟨hlen, hget⟩ := batchLayout_spec n b hb
  refine ⟨(batchLayout n b).map fun pq => draw pq.1 r pq.2, by simp [hr], by simp [hlen], ?_⟩
  intro k hk
  refine ⟨?_, hget k hk⟩
  rw [List.getElem?_map, hget k hk]
  rfl

/-- **batching changes nothing about the values either**: the batched result is the single unbatched call whose
    `k`-th draw (of row `r`) is draw `k % b` of piece `k / b` — the pieces laid side by side along the draw
    dimension, none dropped, repeated or interleaved -/
theorem sampleValues_batched_eq_unbatched {h : Hooks} {event : Shape} {okRow : Option Shape → Prop}
    (S : SampleSpec h event okRow) (ctx : Option Shape) (hctx : Accepts okRow ctx) (n b : Nat) (hn : 0 < n)
    (hb : 0 < b) (draw : Nat → Nat → Nat → δ) :
    sampleValues h draw (.int n) ctx (.int b)
      = sampleValues h (fun _ r k => draw (k / b) r (k % b)) (.int n) ctx .none := by
  rw [sampleValues_batched S ctx hctx n b hn hb draw, sampleValues_unbatched S ctx hctx n hn]
  congr 2
  apply List.map_congr_left
  intro r _
  obtain ⟨hlen, hget⟩ := batchLayout_spec n b hb
  apply List.ext_getElem?
  intro k
  by_cases hk : k < n
  · rw [List.getElem?_map, hget k hk, List.getElem?_map, List.getElem?_range hk]
    rfl
  · rw [List.getElem?_eq_none (by simp [hlen]; omega), List.getElem?_eq_none (by simp; omega)]

/-! ## concrete instances (the executed functions, by `decide`) -/

/-- no context, `n = 5`, `b = 2`: pieces of sizes `[2, 2, 1] = batchSizes 5 2`, draws tagged (piece, row, pos) -/
example : sampleValues (stdNormal [3]) (fun p r q => (p, r, q)) (.int 5) none (.int 2)
    = .ok ⟨[5, 3], [[(0, 0, 0), (0, 0, 1), (1, 0, 0), (1, 0, 1), (2, 0, 0)]]⟩ := by decide

/-- two context rows, `n = 5`, `b = 2`: the same layout in every context row -/
example : sampleValues (stdNormal [3]) (fun p r q => (p, r, q)) (.int 5) (some [2, 4]) (.int 2)
    = .ok ⟨[2, 5, 3], [[(0, 0, 0), (0, 0, 1), (1, 0, 0), (1, 0, 1), (2, 0, 0)],
                        [(0, 1, 0), (0, 1, 1), (1, 1, 0), (1, 1, 1), (2, 1, 0)]]⟩ := by decide

/-- the shape projection agrees with the executed `Hooks.sample` on the same arguments -/
example : (stdNormal [3]).sample (.int 5) (some [2, 4]) (.int 2) = .ok [2, 5, 3] := by decide

/-- the rows are `batchLayout 5 2` -/
example : (batchLayout 5 2).map (fun pq => (pq.1, 1, pq.2))
    = [(0, 1, 0), (0, 1, 1), (1, 1, 0), (1, 1, 1), (2, 1, 0)] := by decide

/-- the pieces `Hooks.sample` concatenates and their sizes along the draw dimension -/
example : samplePieces (stdNormal [3]) (.int 7) (some [2, 4]) (.int 3) = .ok [[2, 3, 3], [2, 3, 3], [2, 1, 3]]
    ∧ batchSizes 7 3 = [3, 3, 1] := by decide

/-- an error path: the value-level twin fails exactly as `Hooks.sample` does -/
example : sampleValues (stdNormal [3]) (fun p r q => (p, r, q)) (.int 5) none (.int 0) = .error .typeError
    ∧ (stdNormal [3]).sample (.int 5) none (.int 0) = .error .typeError := by decide

/-- the hypotheses of `sampleValues_batched` are satisfiable: the theorem instantiated -/
example (draw : Nat → Nat → Nat → δ) :
    sampleValues (stdNormal [3]) draw (.int 5) (some [2, 4]) (.int 2)
      = .ok ⟨[2, 5, 3], (List.range 2).map fun r => (batchLayout 5 2).map fun pq => draw pq.1 r pq.2⟩ :=
  sampleValues_batched (stdNormal_sampleSpec [3]) (some [2, 4]) ⟨trivial, fun d hd => by simp at hd; omega⟩ 5 2
    (by omega) (by omega) draw

end NF.Dist
