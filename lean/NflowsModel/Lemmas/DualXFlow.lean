import NflowsModel.Core.Density
import NflowsModel.Lemmas.DualXLU
import NflowsModel.Lemmas.DualXOrth
import NflowsModel.Lemmas.DistReal
import NflowsModel.Lemmas.FlowRowsExec
import NflowsModel.Lemmas.StageMoreRows
import Mathlib.Tactic
/-!
# Lemmas/DualXFlow — whole flows run on dual numbers: `CompositeTransform` and `Flow.log_prob` (C16)

The harness compares `torch.autograd` with the model run at dual numbers.  The per-program theorems (`DualXLU`, `DualXOrth`,
`DualXCoupling`, …) say that ONE executed program returns (value, derivative).  This file is the composition level, about the
executed batch-level programs of `Lemmas/FlowRowsExec.lean` / `Lemmas/StageMoreRows.lean` (flat `[B, w]` arrays):
`compStage` (`CompositeTransform.forward` = `Wrap.cascade`: outputs fed forward, log-dets added onto zeros, first exception aborts)
and `flowLogProbExec` (`Flow._log_prob`, flows/base.py:42-49: embed, transform, base `log_prob`, add).

* §0-1 `DA t X dX`: a curve of flat arrays against a dual array (`DualXLU.DV` on the entries); the array plumbing of the stages
  (`rowsD`, `fitRow`, flatten, `rowsOf`) preserves it.
* §2 `DualSoundStage t S D`: for every batch size and every differentiable curve of (inputs, context) the dual call `D` and the
  real calls `S s` (parameters moving with `s`) are accepted together, raise the same exception together, and outputs / log-dets of
  the dual call are entry by entry (value at `t`, derivative at `t`).  `dualSound_passStage`; **`dualSound_compStage`**: the cascade
  of `DualSoundStage`s is a `DualSoundStage`.
* §3 instances from the curve lemmas of `DualXLU`: `dualSound_luStage`, `dualSound_actStage`, `dualSound_bnEvalStage`.
* §4 base densities: `stdNormalRow_dual`, `diagNormalRow_dual` (directions in input, mean AND log-std), `DualSoundBase`,
  `standard_normal_logprob_dual_sound`, `diagNormal_logprob_dual_sound`.
* §5 `flowLogProbExec_dual_curve` (any embedding / transform / base that are dual sound, any curves) and the headline
  **`flow_logprob_dual_sound`** (straight lines through inputs AND all parameters simultaneously), with the concrete two-stage flow
  `[ActNorm, LULinear]`, `n = 2`, explicit numbers; `flow_act_lu_logprob_dual_sound` spells the inherited side conditions out.
-/
open NF DualSound DualX DualXLU Filter Topology NF.Density NF.FlowRowsExec NF.StageMore NF.Norm LinearFresh
  NF.RowIndependenceMore

namespace DualXFlow
noncomputable section

variable {e : Float → ℝ} {t : ℝ}

/-! ## 0. two more closure properties of `DualXLU.DL` -/

theorem DL_take {A B : Type} {rel : (ℝ → A) → B → Prop} {F : ℝ → List A} {ds : List B} (h : DL rel F ds) (k : ℕ) :
    DL rel (fun s => (F s).take k) (ds.take k) := by
  obtain ⟨fs, hF, h2⟩ := h
  exact ⟨fs.take k, fun s => by simp [hF s, List.map_take], List.forall₂_take k h2⟩

theorem DL_flatMap {A B A' B' : Type} {rel : (ℝ → A) → B → Prop} {rel' : (ℝ → A') → B' → Prop} {F : ℝ → List A}
    {ds : List B} (g : ℝ → A → List A') (g' : B → List B') (h : DL rel F ds)
    (hg : ∀ f d, rel f d → DL rel' (fun s => g s (f s)) (g' d)) :
    DL rel' (fun s => (F s).flatMap (g s)) (ds.flatMap g') := by
  obtain ⟨fs, hF, h2⟩ := h
  have hrw : (fun s => (F s).flatMap (g s)) = fun s => (fs.map (fun f => f s)).flatMap (g s) :=
    funext fun s => by rw [hF]
  rw [hrw]
  clear hrw hF
  induction h2 with
  | nil => simpa using (DL.nil : DL rel' (fun _ => []) [])
  | cons hab _ ih =>
    simp only [List.map_cons, List.flatMap_cons]
    exact DL.append (hg _ _ hab) ih

/-! ## 1. curves of flat arrays -/

/-- a curve of flat arrays against a dual array: same size, every entry a (value, derivative) pair at `t` -/
def DA (t : ℝ) (X : ℝ → Array ℝ) (dX : Array (ℝ × ℝ)) : Prop := DV t (fun s => (X s).toList) dX.toList

theorem DA.size {X : ℝ → Array ℝ} {dX : Array (ℝ × ℝ)} (h : DA t X dX) (s : ℝ) : (X s).size = dX.size := by
  have := DL.length h s
  simpa using this

/-- entry-wise reading -/
theorem DA.entry {X : ℝ → Array ℝ} {dX : Array (ℝ × ℝ)} (h : DA t X dX) (k : ℕ) :
    IsDual (fun s => (X s).toList.getD k 0) t (dX.toList.getD k (0, 0)) := DV.entry h k

theorem array_getD_toList {α : Type} (x : Array α) (i : ℕ) (d : α) : x.getD i d = x.toList.getD i d := by
  simp [Array.getD_eq_getD_getElem?, List.getD_eq_getElem?_getD]

theorem rowsD_dual (w B : ℕ) {X : ℝ → Array ℝ} {dX : Array (ℝ × ℝ)} (h : DA t X dX) :
    DM t (fun s => rowsD w (NF.realX e).zero B (X s)) (rowsD w (dualX (NF.realX e)).zero B dX) := by
  unfold rowsD rowD
  refine DL.ofMap _ _ _ (fun b _ => DL.ofMap _ _ _ (fun k _ => ?_))
  simp only [array_getD_toList]
  exact DL.getD' h (b * w + k) (IsDual.zero e t)

theorem fitRow_dual (w : ℕ) {F : ℝ → List ℝ} {ds : List (ℝ × ℝ)} (h : DV t F ds) :
    DV t (fun s => fitRow w (NF.realX e).zero (F s)) (fitRow w (dualX (NF.realX e)).zero ds) := by
  unfold fitRow
  exact DL.ofMap _ _ _ (fun k _ => DL.getD' h k (IsDual.zero e t))

theorem flat_dual (w : ℕ) {Y : ℝ → List (List ℝ)} {dY : List (List (ℝ × ℝ))} (h : DM t Y dY) :
    DA t (fun s => ((Y s).flatMap (fitRow w (NF.realX e).zero)).toArray)
      ((dY.flatMap (fitRow w (dualX (NF.realX e)).zero)).toArray) := by
  unfold DA
  exact DL_flatMap _ _ h (fun f d hfd => fitRow_dual w hfd)

theorem rowsOf_dual (w B : ℕ) {Z : ℝ → Array ℝ} {dz : Array (ℝ × ℝ)} (h : DA t Z dz) :
    DM t (fun s => rowsOf w B (Z s).toList) (rowsOf w B dz.toList) := by
  unfold rowsOf
  exact DL.ofMap _ _ _ (fun i _ => DL_take (DL.drop h (i * w)) w)

/-! ## 2. dual-sound stages and their cascade -/

/-- **the dual run of a batch-level pass is sound along every differentiable curve**: `S s` is the real pass at parameter `s`
    (its parameters move with `s`), `D` the pass on dual numbers.  For every batch size and every curve of (inputs, context)
    represented by the dual data: if the dual call is accepted then the real call is accepted at every `s`, with outputs and
    log-dets that are curves represented by the dual outputs (same sizes, entries = (value at `t`, derivative at `t`)); if the
    dual call raises, the real call raises the same exception at every `s`. -/
structure DualSoundStage (t : ℝ) (S : ℝ → BStage ℝ) (D : BStage (ℝ × ℝ)) : Prop where
  ok : ∀ (B : ℕ) (X c : ℝ → Array ℝ) (dX dc dY : Array (ℝ × ℝ)) (dL : List (ℝ × ℝ)), DA t X dX → DA t c dc →
    D B dX dc = .ok (dY, dL) →
    ∃ (Y : ℝ → Array ℝ) (L : ℝ → List ℝ), (∀ s, S s B (X s) (c s) = .ok (Y s, L s)) ∧ DA t Y dY ∧ DV t L dL
  raises : ∀ (B : ℕ) (X c : ℝ → Array ℝ) (dX dc : Array (ℝ × ℝ)) (err : Err), DA t X dX → DA t c dc →
    D B dX dc = .error err → ∀ s, S s B (X s) (c s) = .error err

variable (e) in
/-- a pass on rows (`StageMore.passStage`: rows cut out of the flat array, pass, flatten) whose outputs and log-dets are dual
    sound along every curve of rows is a dual-sound stage -/
theorem dualSound_passStage (w : ℕ) (FR : ℝ → List (List ℝ) → List (List ℝ) × List ℝ)
    (FD : List (List (ℝ × ℝ)) → List (List (ℝ × ℝ)) × List (ℝ × ℝ))
    (hF : ∀ rows drows, DM t rows drows →
      DM t (fun s => (FR s (rows s)).1) (FD drows).1 ∧ DV t (fun s => (FR s (rows s)).2) (FD drows).2) :
    DualSoundStage t (fun s => passStage w (NF.realX e).zero (FR s)) (passStage w (dualX (NF.realX e)).zero FD) where
  ok := by
    intro B X c dX dc dY dL hX _ h
    simp only [passStage, Except.ok.injEq, Prod.mk.injEq] at h
    obtain ⟨rfl, rfl⟩ := h
    obtain ⟨h1, h2⟩ := hF _ _ (rowsD_dual (e := e) w B hX)
    exact ⟨_, _, fun s => rfl, flat_dual w h1, h2⟩
  raises := by
    intro B X c dX dc err _ _ h
    simp [passStage] at h

theorem ldAdd_dual {L L' : ℝ → List ℝ} {dL dL' : List (ℝ × ℝ)} (B : ℕ) (h : DV t L dL) (h' : DV t L' dL') :
    DV t (fun s => (ldLD (NF.realX e) B).add (L s) (L' s)) ((ldLD (dualX (NF.realX e)) B).add dL dL') :=
  DL.zipWith' (fun _ => (NF.realX e).add) (dualX (NF.realX e)).add h h' (fun _ _ _ _ ha hb => IsDual.add e ha hb)

theorem ldZero_dual (B : ℕ) :
    DV t (fun _ => (ldLD (NF.realX e) B).zero) (ldLD (dualX (NF.realX e)) B).zero :=
  DL.replicate B (rel := fun f d => IsDual f t d) (IsDual.zero e t)

/-- the loop of `CompositeTransform._cascade` from any running (value, log-det) -/
theorem cascadeFrom_dual {Ss : List (ℝ → BStage ℝ)} {Ds : List (BStage (ℝ × ℝ))}
    (h : List.Forall₂ (DualSoundStage t) Ss Ds) (B : ℕ) {c : ℝ → Array ℝ} {dc : Array (ℝ × ℝ)} (hc : DA t c dc)
    {X : ℝ → Array ℝ} {dX : Array (ℝ × ℝ)} {L0 : ℝ → List ℝ} {dL0 : List (ℝ × ℝ)} (hX : DA t X dX) (hL : DV t L0 dL0) :
    (∀ dY dL, Wrap.cascadeFrom (ldLD (dualX (NF.realX e)) B) (Ds.map fun T => T B) dX dL0 dc = .ok (dY, dL) →
      ∃ (Y : ℝ → Array ℝ) (L : ℝ → List ℝ),
        (∀ s, Wrap.cascadeFrom (ldLD (NF.realX e) B) ((Ss.map fun S => S s).map fun T => T B) (X s) (L0 s) (c s)
          = .ok (Y s, L s)) ∧ DA t Y dY ∧ DV t L dL) ∧
    (∀ err, Wrap.cascadeFrom (ldLD (dualX (NF.realX e)) B) (Ds.map fun T => T B) dX dL0 dc = .error err →
      ∀ s, Wrap.cascadeFrom (ldLD (NF.realX e) B) ((Ss.map fun S => S s).map fun T => T B) (X s) (L0 s) (c s)
        = .error err) := by
  induction h generalizing X dX L0 dL0 with
  | nil =>
    refine ⟨fun dY dL hD => ?_, fun err hD => ?_⟩
    · simp only [List.map_nil, Wrap.cascadeFrom, Except.ok.injEq, Prod.mk.injEq] at hD
      obtain ⟨rfl, rfl⟩ := hD
      exact ⟨X, L0, fun s => rfl, hX, hL⟩
    · simp [Wrap.cascadeFrom] at hD
  | @cons S D Ss Ds hSD _ ih =>
    refine ⟨fun dY dL hD => ?_, fun err hD => ?_⟩
    · rw [List.map_cons, cascadeFrom_cons_ok] at hD
      obtain ⟨dy, dl, h1, h2⟩ := hD
      obtain ⟨Y1, L1, hS, hY1, hL1⟩ := hSD.ok B X c dX dc dy dl hX hc h1
      obtain ⟨Y, L, hrest, hY, hLL⟩ := (ih hY1 (ldAdd_dual B hL hL1)).1 dY dL h2
      refine ⟨Y, L, fun s => ?_, hY, hLL⟩
      simp only [List.map_cons]
      exact (cascadeFrom_cons_ok _ _ _ _ _ _ _).2 ⟨Y1 s, L1 s, hS s, hrest s⟩
    · rw [List.map_cons, cascadeFrom_cons_error] at hD
      intro s
      simp only [List.map_cons]
      rcases hD with h1 | ⟨dy, dl, h1, h2⟩
      · exact (cascadeFrom_cons_error _ _ _ _ _ _ _).2 (Or.inl (hSD.raises B X c dX dc err hX hc h1 s))
      · obtain ⟨Y1, L1, hS, hY1, hL1⟩ := hSD.ok B X c dX dc dy dl hX hc h1
        exact (cascadeFrom_cons_error _ _ _ _ _ _ _).2
          (Or.inr ⟨Y1 s, L1 s, hS s, (ih hY1 (ldAdd_dual B hL hL1)).2 err h2 s⟩)

variable (e) in
/-- **composition principle**: `CompositeTransform.forward` (the executed `compStage` = `Wrap.cascade`: outputs fed forward,
    log-dets added onto `zeros(B)`, the first exception aborts) over dual-sound stages is a dual-sound stage; the parameters of ALL
    stages move simultaneously (stage `k` at parameter `s` is `Ss[k] s`). -/
theorem dualSound_compStage {Ss : List (ℝ → BStage ℝ)} {Ds : List (BStage (ℝ × ℝ))}
    (h : List.Forall₂ (DualSoundStage t) Ss Ds) :
    DualSoundStage t (fun s => compStage (NF.realX e) (Ss.map fun S => S s)) (compStage (dualX (NF.realX e)) Ds) where
  ok := fun B _ _ _ _ dY dL hX hc hD =>
    (cascadeFrom_dual h B hc hX (ldZero_dual B)).1 dY dL hD
  raises := fun B _ _ _ _ err hX hc hD =>
    (cascadeFrom_dual h B hc hX (ldZero_dual B)).2 err hD

/-! ## 3. instances: `LULinear`, `ActNorm`, `BatchNorm` (evaluation mode) -/

variable (e) in
/-- **`LULinear.forward` as a stage** (outputs by `luForward_dual_curve`, log-dets `logabsdet() * ones(B)` by
    `luLogabsdet_dual_curve`), along any differentiable curve of ALL parameter tensors.  Side conditions inherited: no
    unconstrained diagonal entry AT the softplus threshold 20; no diagonal entry `softplus(u) + eps` equal to `0`. -/
theorem dualSound_luStage (w : ℕ) {P : ℝ → LF.LUParams ℝ} {dp : LF.LUParams (ℝ × ℝ)} (hP : LUCurve t P dp)
    (hthr : ∀ d ∈ dp.udiag, d.1 ≠ 20) (hne : ∀ d ∈ dp.udiag, LF.softplus (Rr e) d.1 + dp.eps.1 ≠ 0) :
    DualSoundStage t (fun s => luStage (NF.realX e) w (P s)) (luStage (dualX (NF.realX e)) w dp) := by
  refine dualSound_passStage e w (fun s => luForwardLd (Rr e) (P s)) (luForwardLd (Dd e) dp)
    (fun rows drows hrows => ⟨luForward_dual_curve hP hrows hthr, ?_⟩)
  have hlen : ∀ s, (rows s).length = drows.length := DL.length hrows
  simp only [luForwardLd, timesOnes, hlen]
  exact DL.map' (fun s w => (Rr e).mul (LF.luLogabsdet (Rr e) (P s)) w) (fun w => (Dd e).mul (LF.luLogabsdet (Dd e) dp) w)
    (DL.replicate drows.length (rel := fun f d => IsDual f t d) (one_dual (e := e) (t := t)))
    (fun _ _ _ hw => IsDual.mul e (luLogabsdet_dual_curve hP hthr hne) hw)

theorem timesOnes_dual {lad : ℝ → ℝ} {dlad : ℝ × ℝ} (h : IsDual lad t dlad) {rows : ℝ → List (List ℝ)}
    {drows : List (List (ℝ × ℝ))} (hrows : DM t rows drows) :
    DV t (fun s => timesOnes (Rr e) (lad s) (rows s).length) (timesOnes (Dd e) dlad drows.length) := by
  have hlen : ∀ s, (rows s).length = drows.length := DL.length hrows
  simp only [timesOnes, hlen]
  exact DL.map' (fun s w => (Rr e).mul (lad s) w) (fun w => (Dd e).mul dlad w)
    (DL.replicate drows.length (rel := fun f d => IsDual f t d) (one_dual (e := e) (t := t)))
    (fun _ _ _ hw => IsDual.mul e h hw)

variable (e) in
/-- **`QRLinear.forward` as a stage** (`DualXOrth.qrForward_dual_curve`, `qrLogabsdet_dual_curve`); side condition: every
    Householder vector non-zero at the primal point -/
theorem dualSound_qrStage (w : ℕ) {P : ℝ → LF.QRParams ℝ} {dp : LF.QRParams (ℝ × ℝ)} (hP : DualXOrth.QRCurve t P dp)
    (hne : ∀ dq ∈ dp.qs, (DualXOrth.sqNorm (Dd e) dq).1 ≠ 0) :
    DualSoundStage t (fun s => qrStage (NF.realX e) w (P s)) (qrStage (dualX (NF.realX e)) w dp) :=
  dualSound_passStage e w (fun s => qrForwardLd (Rr e) (P s)) (qrForwardLd (Dd e) dp)
    (fun _ _ hrows => ⟨DualXOrth.qrForward_dual_curve hP hrows hne,
      timesOnes_dual (DualXOrth.qrLogabsdet_dual_curve hP) hrows⟩)

variable (e) in
/-- **`SVDLinear.forward` as a stage** (`DualXOrth.svdForward_dual_curve`, `svdLogabsdet_dual_curve`); side conditions: no
    unconstrained diagonal entry AT 20, Householder vectors non-zero, diagonal entries non-zero -/
theorem dualSound_svdStage (w : ℕ) {P : ℝ → LF.SVDParams ℝ} {dp : LF.SVDParams (ℝ × ℝ)} (hP : DualXOrth.SVDCurve t P dp)
    (hthr : ∀ d ∈ dp.udiag, d.1 ≠ 20) (hne1 : ∀ dq ∈ dp.qs1, (DualXOrth.sqNorm (Dd e) dq).1 ≠ 0)
    (hne2 : ∀ dq ∈ dp.qs2, (DualXOrth.sqNorm (Dd e) dq).1 ≠ 0) (hne : ∀ d ∈ LF.svdDiag (Dd e) dp, d.1 ≠ 0) :
    DualSoundStage t (fun s => svdStage (NF.realX e) w (P s)) (svdStage (dualX (NF.realX e)) w dp) :=
  dualSound_passStage e w (fun s => svdForwardLd (Rr e) (P s)) (svdForwardLd (Dd e) dp)
    (fun _ _ hrows => ⟨DualXOrth.svdForward_dual_curve hP hrows hthr hne1 hne2,
      timesOnes_dual (DualXOrth.svdLogabsdet_dual_curve hP hthr hne) hrows⟩)

/-- the executed (non-initialising) `ActNorm.forward` on the rows of a 2-D batch -/
def actPass {α : Type} (o : XOps α) (F : ℕ) (ls sh : List α) (rows : List (List α)) : List (List α) × List α :=
  (rows.map (fun r => (List.range F).map (fun j =>
      o.add (o.mul (o.exp (ls.getD j o.zero)) (r.getD j o.zero)) (sh.getD j o.zero))),
    List.replicate rows.length (sumG o ls))

/-- `actPass` is what the executed machine step returns: `actApply` / `actLogdet` on the 2-D batch -/
theorem actPass_eq {α : Type} (o : XOps α) (F : ℕ) (ls sh : List α) (rows : List (List α)) :
    actApply o F ls sh (.d2 rows) = .d2 (actPass o F ls sh rows).1 ∧
    actLogdet o ls (.d2 rows) false = (actPass o F ls sh rows).2 := by
  simp [actPass, actApply, Batch.mapCh, actLogdet, Batch.size]

theorem actStage_eq_pass {α : Type} (o : XOps α) (F : ℕ) (s : ActSt α) (hs : s.initialized = true ∨ s.training = false) :
    actStage o F s = passStage F o.zero (actPass o F s.logScale s.shift) := by
  have hno : (s.training && !s.initialized) = false := by
    rcases hs with h | h <;> simp [h]
  exact resStage_eq_passStage F o.zero _ _ (fun rows => by
    simp [actPass, actStep, Batch.valid24, hno, actApply, Batch.mapCh, actLogdet, Batch.size])

theorem actPass_dual (F : ℕ) {ls sh : ℝ → List ℝ} {dls dsh : List (ℝ × ℝ)} {rows : ℝ → List (List ℝ)}
    {drows : List (List (ℝ × ℝ))} (hls : DV t ls dls) (hsh : DV t sh dsh) (hrows : DM t rows drows) :
    DM t (fun s => (actPass (NF.realX e) F (ls s) (sh s) (rows s)).1) (actPass (dualX (NF.realX e)) F dls dsh drows).1 ∧
    DV t (fun s => (actPass (NF.realX e) F (ls s) (sh s) (rows s)).2) (actPass (dualX (NF.realX e)) F dls dsh drows).2 := by
  constructor
  · unfold actPass
    refine DL.map' _ _ hrows (fun f d _ hrow => DL.ofMap _ _ _ (fun j _ => ?_))
    exact IsDual.add e (IsDual.mul e (IsDual.exp e (DL.getD' hls j (IsDual.zero e t))) (DL.getD' hrow j (IsDual.zero e t)))
      (DL.getD' hsh j (IsDual.zero e t))
  · have hlen : ∀ s, (rows s).length = drows.length := DL.length hrows
    simp only [actPass, hlen]
    exact DL.replicate _ (rel := fun f d => IsDual f t d) (sumG_dual hls)

/-- a curve of `ActNorm` states against a dual state: same flags, `log_scale` and `shift` entries (value, derivative) pairs -/
structure ActCurve (t : ℝ) (S : ℝ → ActSt ℝ) (ds : ActSt (ℝ × ℝ)) : Prop where
  training : ∀ s, (S s).training = ds.training
  initialized : ∀ s, (S s).initialized = ds.initialized
  logScale : DV t (fun s => (S s).logScale) ds.logScale
  shift : DV t (fun s => (S s).shift) ds.shift

variable (e) in
/-- **`ActNorm.forward` (initialised, or evaluation mode) as a stage**: the executed machine step `actStep`, along any
    differentiable curve of (`log_scale`, `shift`); no numerical side condition (`exp`, `·`, `+` only) -/
theorem dualSound_actStage (F : ℕ) {S : ℝ → ActSt ℝ} {ds : ActSt (ℝ × ℝ)} (hS : ActCurve t S ds)
    (hs : ds.initialized = true ∨ ds.training = false) :
    DualSoundStage t (fun s => actStage (NF.realX e) F (S s)) (actStage (dualX (NF.realX e)) F ds) := by
  have hsR : ∀ s, (S s).initialized = true ∨ (S s).training = false := fun s => by
    rw [hS.initialized, hS.training]; exact hs
  rw [actStage_eq_pass _ F ds hs, show (fun s => actStage (NF.realX e) F (S s))
    = fun s => passStage F (NF.realX e).zero (actPass (NF.realX e) F (S s).logScale (S s).shift) from
      funext fun s => actStage_eq_pass _ F (S s) (hsR s)]
  exact dualSound_passStage e F _ _ (fun rows drows hrows => actPass_dual F hS.logScale hS.shift hrows)

/-- a curve of `BatchNorm` states / configurations against dual ones -/
structure BNCurve (t : ℝ) (cfg : ℝ → BNCfg ℝ) (S : ℝ → BNSt ℝ) (dcfg : BNCfg (ℝ × ℝ)) (ds : BNSt (ℝ × ℝ)) : Prop where
  training : ∀ s, (S s).training = ds.training
  eps : IsDual (fun s => (cfg s).eps) t dcfg.eps
  runMean : DV t (fun s => (S s).runMean) ds.runMean
  runVar : DV t (fun s => (S s).runVar) ds.runVar
  uweight : DV t (fun s => (S s).uweight) ds.uweight
  bias : DV t (fun s => (S s).bias) ds.bias

theorem bnEvalStage_eq_pass {α : Type} (o : XOps α) (cfg : BNCfg α) (F : ℕ) (s : BNSt α) (hs : s.training = false) :
    bnEvalStage o cfg F s = passStage F o.zero (fun rows =>
      (bnNormalise o cfg F s.runMean s.runVar s.uweight s.bias rows, bnLogdet o cfg F s.runVar s.uweight rows.length false)) :=
  resStage_eq_passStage F o.zero _ _ (fun rows => by simp [bnStep, hs])

variable (e) in
/-- **`BatchNorm.forward` in evaluation mode as a stage** (executed `bnStep`), along any differentiable curve of (running
    buffers, unconstrained weight, bias, eps).  Side conditions inherited from `bnNormalise_dual_curve` / `bnLogdet_dual_curve`:
    no unconstrained weight AT the softplus threshold 20, `running_var + eps > 0`, `weight ≠ 0`. -/
theorem dualSound_bnEvalStage (F : ℕ) {cfg : ℝ → BNCfg ℝ} {S : ℝ → BNSt ℝ} {dcfg : BNCfg (ℝ × ℝ)} {ds : BNSt (ℝ × ℝ)}
    (hS : BNCurve t cfg S dcfg ds) (hs : ds.training = false)
    (hthr : ∀ j < F, (ds.uweight.getD j (0, 0)).1 ≠ 20)
    (hpos : ∀ j < F, 0 < (ds.runVar.getD j (0, 0)).1 + dcfg.eps.1)
    (hw : ∀ j < F, (NF.realX e).softplus (ds.uweight.getD j (0, 0)).1 + dcfg.eps.1 ≠ 0) :
    DualSoundStage t (fun s => bnEvalStage (NF.realX e) (cfg s) F (S s)) (bnEvalStage (dualX (NF.realX e)) dcfg F ds) := by
  rw [bnEvalStage_eq_pass _ dcfg F ds hs, show (fun s => bnEvalStage (NF.realX e) (cfg s) F (S s))
    = fun s => passStage F (NF.realX e).zero (fun rows =>
      (bnNormalise (NF.realX e) (cfg s) F (S s).runMean (S s).runVar (S s).uweight (S s).bias rows,
        bnLogdet (NF.realX e) (cfg s) F (S s).runVar (S s).uweight rows.length false)) from
      funext fun s => bnEvalStage_eq_pass _ (cfg s) F (S s) (by rw [hS.training]; exact hs)]
  refine dualSound_passStage e F _ _ (fun rows drows hrows => ⟨?_, ?_⟩)
  · exact bnNormalise_dual_curve F hS.eps hS.runMean hS.runVar hS.uweight hS.bias hrows hthr hpos
  · have hlen : ∀ s, (rows s).length = drows.length := DL.length hrows
    simp only [hlen]
    exact bnLogdet_dual_curve F drows.length false hS.eps hS.runVar hS.uweight hthr hw (fun j hj => (hpos j hj).ne')

/-! ## 4. base densities -/

theorem logZ_dual (D : ℕ) : IsDual (fun _ => logZ (NF.realX e) D) t (logZ (dualX (NF.realX e)) D) := by
  unfold logZ log2piG piG
  have hm := IsDual.mul e (IsDual.two e t)
    (IsDual.mul e (IsDual.ofRat e 4 1 t) (IsDual.atan e (IsDual.one e t)))
  refine IsDual.mul e (IsDual.mul e (IsDual.ofRat e 1 2 t) (IsDual.ofNat e D t)) (IsDual.log e hm ?_)
  rw [hm.val]
  have hpi : piG (NF.realX e) = Real.pi := DistReal.piG_real e
  unfold piG at hpi
  simp only [hpi, realX_mul, realX_two]
  exact (mul_pos two_pos Real.pi_pos).ne'

/-- **one row of `StandardNormal._log_prob`** (`-0.5 * sum(x**2) - _log_z`) along any differentiable curve of the row -/
theorem stdNormalRow_dual (D : ℕ) {x : ℝ → List ℝ} {dx : List (ℝ × ℝ)} (hx : DV t x dx) :
    IsDual (fun s => stdNormalRow (NF.realX e) D (x s)) t (stdNormalRow (dualX (NF.realX e)) D dx) := by
  unfold stdNormalRow
  exact IsDual.sub e (IsDual.mul e (IsDual.ofRat e (-1) 2 t)
    (sumG_dual (DL.map' (fun _ => (NF.realX e).sq) (dualX (NF.realX e)).sq hx (fun _ _ _ h => IsDual.sq e h))))
    (logZ_dual D)

theorem zipWith3_dual {X M Ls : ℝ → List ℝ} {dx dm dls : List (ℝ × ℝ)} (g : ℝ → ℝ → ℝ → ℝ)
    (g' : ℝ × ℝ → ℝ × ℝ → ℝ × ℝ → ℝ × ℝ) (hx : DV t X dx) (hm : DV t M dm) (hl : DV t Ls dls)
    (hg : ∀ f₁ d₁ f₂ d₂ f₃ d₃, IsDual f₁ t d₁ → IsDual f₂ t d₂ → IsDual f₃ t d₃ →
      IsDual (fun s => g (f₁ s) (f₂ s) (f₃ s)) t (g' d₁ d₂ d₃)) :
    DV t (fun s => zipWith3 g (X s) (M s) (Ls s)) (zipWith3 g' dx dm dls) := by
  obtain ⟨xs, hX, h1⟩ := hx
  obtain ⟨ms, hM, h2⟩ := hm
  obtain ⟨ls, hL, h3⟩ := hl
  have hrw : (fun s => zipWith3 g (X s) (M s) (Ls s))
      = fun s => zipWith3 g (xs.map fun f => f s) (ms.map fun f => f s) (ls.map fun f => f s) :=
    funext fun s => by rw [hX, hM, hL]
  rw [hrw]
  clear hrw hX hM hL
  induction h1 generalizing ms dm ls dls with
  | nil => simpa [zipWith3] using (DL.nil : DV t (fun _ => []) [])
  | cons ha _ ih =>
    cases h2 with
    | nil => simpa [zipWith3] using (DL.nil : DV t (fun _ => []) [])
    | cons hb h2' =>
      cases h3 with
      | nil => simpa [zipWith3] using (DL.nil : DV t (fun _ => []) [])
      | cons hc h3' =>
        simp only [List.map_cons, zipWith3]
        exact DL.cons (hg _ _ _ _ _ _ ha hb hc) (ih _ h2' _ h3')

/-- **one row of `DiagonalNormal._log_prob` / `ConditionalDiagonalNormal._log_prob`**
    (`norm = (x - mean) * exp(-log_std)`; `-0.5*sum(norm**2) - sum(log_std) - _log_z`) along any differentiable curve of
    (input row, means, log-stds) simultaneously; no side condition -/
theorem diagNormalRow_dual (D : ℕ) {x m ls : ℝ → List ℝ} {dx dm dls : List (ℝ × ℝ)} (hx : DV t x dx) (hm : DV t m dm)
    (hl : DV t ls dls) :
    IsDual (fun s => diagNormalRow (NF.realX e) D (m s) (ls s) (x s)) t (diagNormalRow (dualX (NF.realX e)) D dm dls dx) := by
  unfold diagNormalRow
  have hnorm := zipWith3_dual (t := t)
    (fun xi mm l => (NF.realX e).mul ((NF.realX e).sub xi mm) ((NF.realX e).exp ((NF.realX e).neg l)))
    (fun xi mm l => (dualX (NF.realX e)).mul ((dualX (NF.realX e)).sub xi mm)
      ((dualX (NF.realX e)).exp ((dualX (NF.realX e)).neg l))) hx hm hl
    (fun _ _ _ _ _ _ h1 h2 h3 => IsDual.mul e (IsDual.sub e h1 h2) (IsDual.exp e (IsDual.neg e h3)))
  exact IsDual.sub e (IsDual.sub e (IsDual.mul e (IsDual.ofRat e (-1) 2 t)
    (sumG_dual (DL.map' (fun _ => (NF.realX e).sq) (dualX (NF.realX e)).sq hnorm (fun _ _ _ h => IsDual.sq e h))))
    (sumG_dual hl)) (logZ_dual D)

variable (e) in
/-- line form of `stdNormalRow_dual`: the executed standard-normal row log-density run at dual numbers returns (value at the primal
    row, derivative at `s = 0` along `primal + s · tangent`) -/
theorem stdNormalRow_line_dual_sound (D : ℕ) (dx : List (ℝ × ℝ)) :
    (stdNormalRow (dualX (NF.realX e)) D dx).1 = stdNormalRow (NF.realX e) D (lineV 0 dx) ∧
    HasDerivAt (fun s => stdNormalRow (NF.realX e) D (lineV s dx)) (stdNormalRow (dualX (NF.realX e)) D dx).2 0 :=
  stdNormalRow_dual D (lineV_dual dx)

variable (e) in
/-- line form of `diagNormalRow_dual`: direction in the input row, the means and the log-stds simultaneously -/
theorem diagNormalRow_line_dual_sound (D : ℕ) (dm dls dx : List (ℝ × ℝ)) :
    (diagNormalRow (dualX (NF.realX e)) D dm dls dx).1 = diagNormalRow (NF.realX e) D (lineV 0 dm) (lineV 0 dls) (lineV 0 dx) ∧
    HasDerivAt (fun s => diagNormalRow (NF.realX e) D (lineV s dm) (lineV s dls) (lineV s dx))
      (diagNormalRow (dualX (NF.realX e)) D dm dls dx).2 0 :=
  diagNormalRow_dual D (lineV_dual dx) (lineV_dual dm) (lineV_dual dls)

/-- **the dual run of a base density is sound along every differentiable curve** (noise rows, embedded context; `bR s` is the
    real density at parameter `s`): accepted together with `log_prob` entries (value, derivative); same exception otherwise -/
structure DualSoundBase (t : ℝ) (bR : ℝ → BaseD ℝ) (bD : BaseD (ℝ × ℝ)) : Prop where
  ok : ∀ (B : ℕ) (rows : ℝ → List (List ℝ)) (drows : List (List (ℝ × ℝ))) (c : ℝ → Array ℝ) (dc : Array (ℝ × ℝ))
    (dlp : List (ℝ × ℝ)), DM t rows drows → DA t c dc → bD B drows dc = .ok dlp →
    ∃ lp : ℝ → List ℝ, (∀ s, bR s B (rows s) (c s) = .ok (lp s)) ∧ DV t lp dlp
  raises : ∀ (B : ℕ) (rows : ℝ → List (List ℝ)) (drows : List (List (ℝ × ℝ))) (c : ℝ → Array ℝ) (dc : Array (ℝ × ℝ))
    (err : DErr), DM t rows drows → DA t c dc → bD B drows dc = .error err → ∀ s, bR s B (rows s) (c s) = .error err

/-- the two checks of `Distribution.log_prob` / `_log_prob` (base.py:34-39, normal.py:25): they only see sizes -/
def guardD (n : ℕ) (ctx : Option ℕ) (shape inShape : List ℕ) : Except DErr Unit := do
  baseCheck n ctx
  shapeCheck shape inShape

theorem stdNormalLogProb_guard {α : Type} (o : XOps α) (shape inShape : List ℕ) (ctx : Option ℕ) (rows : List (List α)) :
    stdNormalLogProb o shape inShape ctx rows =
      match guardD rows.length ctx shape inShape with
      | .ok _ => .ok (rows.map (stdNormalRow o (numel shape)))
      | .error err => .error err := by
  unfold stdNormalLogProb guardD
  cases h1 : baseCheck rows.length ctx with
  | error err => rfl
  | ok u =>
    cases h2 : shapeCheck shape inShape with
    | error err => rfl
    | ok u' => rfl

theorem diagNormalLogProb_guard {α : Type} (o : XOps α) (shape inShape : List ℕ) (ctx : Option ℕ) (mean logStd : List α)
    (rows : List (List α)) :
    diagNormalLogProb o shape inShape ctx mean logStd rows =
      match guardD rows.length ctx shape inShape with
      | .ok _ => .ok (rows.map (diagNormalRow o (numel shape) mean logStd))
      | .error err => .error err := by
  unfold diagNormalLogProb guardD
  cases h1 : baseCheck rows.length ctx with
  | error err => rfl
  | ok u =>
    cases h2 : shapeCheck shape inShape with
    | error err => rfl
    | ok u' => rfl

variable (e) in
/-- **`StandardNormal.log_prob` on dual numbers is sound** (C16), the executed batch program (checks included; `c` = whether a
    context is passed, its value is ignored): along any differentiable curve of noise rows, every entry of the dual run is
    (row log-density at `t`, its derivative at `t`); the checks only see sizes, so both runs raise together. -/
theorem standard_normal_logprob_dual_sound (shape inShape : List ℕ) (c : Bool) :
    DualSoundBase t (fun _ B rows _ => stdNormalLogProb (NF.realX e) shape inShape (ctxOf c B) rows)
      (fun B rows _ => stdNormalLogProb (dualX (NF.realX e)) shape inShape (ctxOf c B) rows) where
  ok := by
    intro B rows drows _ _ dlp hrows _ h
    have hlen : ∀ s, (rows s).length = drows.length := DL.length hrows
    rw [stdNormalLogProb_guard] at h
    cases hg : guardD drows.length (ctxOf c B) shape inShape with
    | error err => rw [hg] at h; cases h
    | ok u =>
      rw [hg] at h
      simp only [Except.ok.injEq] at h
      subst h
      refine ⟨fun s => (rows s).map (stdNormalRow (NF.realX e) (numel shape)), fun s => ?_, ?_⟩
      · show _ = _
        rw [stdNormalLogProb_guard, hlen, hg]
      · exact DL.map' (fun _ => stdNormalRow (NF.realX e) (numel shape)) (stdNormalRow (dualX (NF.realX e)) (numel shape))
          hrows (fun _ _ _ hx => stdNormalRow_dual _ hx)
  raises := by
    intro B rows drows _ _ err hrows _ h s
    have hlen : ∀ s, (rows s).length = drows.length := DL.length hrows
    rw [stdNormalLogProb_guard] at h ⊢
    rw [hlen]
    cases hg : guardD drows.length (ctxOf c B) shape inShape with
    | error err' => rw [hg] at h; cases h; rfl
    | ok u => rw [hg] at h; cases h

variable (e) in
/-- **`DiagonalNormal.log_prob` on dual numbers is sound** (C16): along any differentiable curve of (noise rows, `mean_`,
    `log_std_`) simultaneously -/
theorem diagNormal_logprob_dual_sound (shape inShape : List ℕ) (c : Bool) {m ls : ℝ → List ℝ} {dm dls : List (ℝ × ℝ)}
    (hm : DV t m dm) (hl : DV t ls dls) :
    DualSoundBase t (fun s B rows _ => diagNormalLogProb (NF.realX e) shape inShape (ctxOf c B) (m s) (ls s) rows)
      (fun B rows _ => diagNormalLogProb (dualX (NF.realX e)) shape inShape (ctxOf c B) dm dls rows) where
  ok := by
    intro B rows drows _ _ dlp hrows _ h
    have hlen : ∀ s, (rows s).length = drows.length := DL.length hrows
    rw [diagNormalLogProb_guard] at h
    cases hg : guardD drows.length (ctxOf c B) shape inShape with
    | error err => rw [hg] at h; cases h
    | ok u =>
      rw [hg] at h
      simp only [Except.ok.injEq] at h
      subst h
      refine ⟨fun s => (rows s).map (diagNormalRow (NF.realX e) (numel shape) (m s) (ls s)), fun s => ?_, ?_⟩
      · show _ = _
        rw [diagNormalLogProb_guard, hlen, hg]
      · exact DL.map' (fun s => diagNormalRow (NF.realX e) (numel shape) (m s) (ls s))
          (diagNormalRow (dualX (NF.realX e)) (numel shape) dm dls) hrows (fun _ _ _ hx => diagNormalRow_dual _ hx hm hl)
  raises := by
    intro B rows drows _ _ err hrows _ h s
    have hlen : ∀ s, (rows s).length = drows.length := DL.length hrows
    rw [diagNormalLogProb_guard] at h ⊢
    rw [hlen]
    cases hg : guardD drows.length (ctxOf c B) shape inShape with
    | error err' => rw [hg] at h; cases h; rfl
    | ok u => rw [hg] at h; cases h

/-! ## 5. `Flow.log_prob` -/

/-- **`Flow._log_prob` (the executed `flowLogProbExec`, flows/base.py:42-49) on dual numbers, along arbitrary curves**: embedding
    net, transform and base density dual sound ⟹ if the dual run is accepted so is the real run at every `s`, and the returned
    `log_prob + logabsdet` entries are (value at `t`, derivative at `t`); if the dual run raises (the transform's exception or the
    base density's), the real run raises the same at every `s`. -/
theorem flowLogProbExec_dual_curve (w : ℕ) {embR : ℝ → ℕ → Array ℝ → Array ℝ} {embD : ℕ → Array (ℝ × ℝ) → Array (ℝ × ℝ)}
    {S : ℝ → BStage ℝ} {D : BStage (ℝ × ℝ)} {bR : ℝ → BaseD ℝ} {bD : BaseD (ℝ × ℝ)}
    (hemb : ∀ B c dc, DA t c dc → DA t (fun s => embR s B (c s)) (embD B dc))
    (hT : DualSoundStage t S D) (hb : DualSoundBase t bR bD) (B : ℕ) {X ctx : ℝ → Array ℝ} {dX dctx : Array (ℝ × ℝ)}
    (hX : DA t X dX) (hc : DA t ctx dctx) :
    (∀ dlps, flowLogProbExec (dualX (NF.realX e)) w embD D bD B dX dctx = .ok dlps →
      ∃ lps : ℝ → List ℝ, (∀ s, flowLogProbExec (NF.realX e) w (embR s) (S s) (bR s) B (X s) (ctx s) = .ok (lps s)) ∧
        DV t lps dlps) ∧
    (∀ err, flowLogProbExec (dualX (NF.realX e)) w embD D bD B dX dctx = .error err →
      ∀ s, flowLogProbExec (NF.realX e) w (embR s) (S s) (bR s) B (X s) (ctx s) = .error err) := by
  have hE := hemb B ctx dctx hc
  cases hD : D B dX (embD B dctx) with
  | error err0 =>
    have hR := fun s => hT.raises B X _ dX _ err0 hX hE hD s
    refine ⟨fun dlps h => ?_, fun err h s => ?_⟩
    · rw [flow_of_T_error _ hD] at h; cases h
    · rw [flow_of_T_error _ hD] at h
      rw [flow_of_T_error _ (hR s)]
      cases h; rfl
  | ok p =>
    obtain ⟨dz, dld⟩ := p
    obtain ⟨Z, L, hS, hZ, hL⟩ := hT.ok B X _ dX _ dz dld hX hE hD
    have hrows := rowsOf_dual w B hZ
    cases hB : bD B (rowsOf w B dz.toList) (embD B dctx) with
    | error err0 =>
      have hR := fun s => hb.raises B _ _ _ _ err0 hrows hE hB s
      refine ⟨fun dlps h => ?_, fun err h s => ?_⟩
      · rw [flow_of_base_error _ hD hB] at h; cases h
      · rw [flow_of_base_error _ hD hB] at h
        rw [flow_of_base_error _ (hS s) (hR s)]
        cases h; rfl
    | ok dlp =>
      obtain ⟨lp, hlp, hlpd⟩ := hb.ok B _ _ _ _ dlp hrows hE hB
      refine ⟨fun dlps h => ?_, fun err h s => ?_⟩
      · rw [flow_of_ok _ hD hB] at h
        simp only [Except.ok.injEq] at h
        subst h
        exact ⟨fun s => List.zipWith (NF.realX e).add (lp s) (L s), fun s => flow_of_ok _ (hS s) (hlp s),
          DL.zipWith' (fun _ => (NF.realX e).add) (dualX (NF.realX e)).add hlpd hL (fun _ _ _ _ ha hb => IsDual.add e ha hb)⟩
      · rw [flow_of_ok _ hD hB] at h; cases h

/-- a dual flat array read along the lines `primal + s · tangent` -/
def lineA (s : ℝ) (dX : Array (ℝ × ℝ)) : Array ℝ := (lineV s dX.toList).toArray

theorem lineA_zero (dX : Array (ℝ × ℝ)) : lineA 0 dX = dX.map Prod.fst := by
  unfold lineA
  rw [lineV_zero]
  apply Array.ext'
  simp

theorem lineA_dual (dX : Array (ℝ × ℝ)) : DA 0 (fun s => lineA s dX) dX := lineV_dual dX.toList

/-- the `ActNorm` state at `s` along the line: `log_scale` and `shift` move along their tangents -/
def lineAct (s : ℝ) (ds : ActSt (ℝ × ℝ)) : ActSt ℝ :=
  ⟨ds.training, ds.initialized, lineV s ds.logScale, lineV s ds.shift, ds.initCount⟩

theorem lineAct_curve (ds : ActSt (ℝ × ℝ)) : ActCurve 0 (fun s => lineAct s ds) ds :=
  ⟨fun _ => rfl, fun _ => rfl, lineV_dual _, lineV_dual _⟩

theorem lineBN_curve (dcfg : BNCfg (ℝ × ℝ)) (ds : BNSt (ℝ × ℝ)) :
    BNCurve 0 (fun s => lineCfg s dcfg) (fun s => lineBN s ds) dcfg ds :=
  ⟨fun _ => rfl, line_dual _, lineV_dual _, lineV_dual _, lineV_dual _, lineV_dual _⟩

variable (e) in
/-- **HEADLINE: `Flow.log_prob` on dual numbers is sound** (C16).  A flow whose transform is the `CompositeTransform` of
    dual-sound stages (the parameters of EVERY stage move: stage `k` at `s` is `Ss[k] s`, e.g. `luStage … (lineP s dp)`), any
    dual-sound base density (`standard_normal_logprob_dual_sound`, `diagNormal_logprob_dual_sound`), no embedding net; inputs and
    context move along `primal + s · tangent`.  If the dual run of the executed `Flow._log_prob` returns `dlps`, then the real run
    is accepted at every `s`, returns as many rows, and for every batch row `i`: the primal part of `dlps[i]` is the real
    `log_prob` of row `i` at `s = 0` and its tangent part is the derivative at `s = 0` of the real `log_prob` of row `i` along the
    line through inputs AND all parameters simultaneously.  If the dual run raises, the real run raises the same at every `s`. -/
theorem flow_logprob_dual_sound (w : ℕ) {Ss : List (ℝ → BStage ℝ)} {Ds : List (BStage (ℝ × ℝ))}
    (hT : List.Forall₂ (DualSoundStage 0) Ss Ds) {bR : ℝ → BaseD ℝ} {bD : BaseD (ℝ × ℝ)} (hb : DualSoundBase 0 bR bD)
    (B : ℕ) (dX dctx : Array (ℝ × ℝ)) :
    (∀ dlps, flowLogProbExec (dualX (NF.realX e)) w (fun _ a => a) (compStage (dualX (NF.realX e)) Ds) bD B dX dctx = .ok dlps →
      ∃ lps : ℝ → List ℝ,
        (∀ s, flowLogProbExec (NF.realX e) w (fun _ a => a) (compStage (NF.realX e) (Ss.map fun S => S s)) (bR s) B
          (lineA s dX) (lineA s dctx) = .ok (lps s)) ∧
        (∀ s, (lps s).length = dlps.length) ∧
        ∀ i, (dlps.getD i (0, 0)).1 = (lps 0).getD i 0 ∧ HasDerivAt (fun s => (lps s).getD i 0) (dlps.getD i (0, 0)).2 0) ∧
    (∀ err, flowLogProbExec (dualX (NF.realX e)) w (fun _ a => a) (compStage (dualX (NF.realX e)) Ds) bD B dX dctx = .error err →
      ∀ s, flowLogProbExec (NF.realX e) w (fun _ a => a) (compStage (NF.realX e) (Ss.map fun S => S s)) (bR s) B
        (lineA s dX) (lineA s dctx) = .error err) := by
  have h := flowLogProbExec_dual_curve (e := e) w (embR := fun _ _ a => a) (embD := fun _ a => a) (fun _ _ _ hc => hc)
    (dualSound_compStage e hT) hb B (lineA_dual dX) (lineA_dual dctx)
  refine ⟨fun dlps hD => ?_, h.2⟩
  obtain ⟨lps, h1, h2⟩ := h.1 dlps hD
  exact ⟨lps, h1, DL.length h2, fun i => DV.entry h2 i⟩

variable (e) in
/-- **the flow `[ActNorm, LULinear]` with a standard-normal base**: `log_prob` on dual numbers returns per batch row
    (value, derivative along the line through the inputs, `log_scale`, `shift`, and every `LULinear` tensor).  Inherited, forced
    side conditions: ActNorm initialised (or in evaluation mode); no unconstrained diagonal entry AT the softplus threshold `20`
    (`DualXLU.lu_forward_not_differentiable_at_threshold`); `eps ≥ 0`. -/
theorem flow_act_lu_logprob_dual_sound (w : ℕ) (ds : ActSt (ℝ × ℝ)) (dp : LF.LUParams (ℝ × ℝ))
    (hs : ds.initialized = true ∨ ds.training = false) (hthr : ∀ d ∈ dp.udiag, d.1 ≠ 20) (heps : 0 ≤ dp.eps.1)
    (shape inShape : List ℕ) (c : Bool) (B : ℕ) (dX dctx : Array (ℝ × ℝ)) :
    let flowD := flowLogProbExec (dualX (NF.realX e)) w (fun _ a => a)
      (compStage (dualX (NF.realX e)) [actStage (dualX (NF.realX e)) w ds, luStage (dualX (NF.realX e)) w dp])
      (fun B rows _ => stdNormalLogProb (dualX (NF.realX e)) shape inShape (ctxOf c B) rows) B dX dctx
    let flowR := fun s : ℝ => flowLogProbExec (NF.realX e) w (fun _ a => a)
      (compStage (NF.realX e) [actStage (NF.realX e) w (lineAct s ds), luStage (NF.realX e) w (lineP s dp)])
      (fun B rows _ => stdNormalLogProb (NF.realX e) shape inShape (ctxOf c B) rows) B (lineA s dX) (lineA s dctx)
    (∀ dlps, flowD = .ok dlps → ∃ lps : ℝ → List ℝ, (∀ s, flowR s = .ok (lps s)) ∧ (∀ s, (lps s).length = dlps.length) ∧
      ∀ i, (dlps.getD i (0, 0)).1 = (lps 0).getD i 0 ∧ HasDerivAt (fun s => (lps s).getD i 0) (dlps.getD i (0, 0)).2 0) ∧
    (∀ err, flowD = .error err → ∀ s, flowR s = .error err) := by
  have hne : ∀ d ∈ dp.udiag, LF.softplus (Rr e) d.1 + dp.eps.1 ≠ 0 := fun d _ =>
    (add_pos_of_pos_of_nonneg (LFIndex.softplus_real_pos d.1) heps).ne'
  have hT : List.Forall₂ (DualSoundStage 0)
      [fun s => actStage (NF.realX e) w (lineAct s ds), fun s => luStage (NF.realX e) w (lineP s dp)]
      [actStage (dualX (NF.realX e)) w ds, luStage (dualX (NF.realX e)) w dp] :=
    .cons (dualSound_actStage e w (lineAct_curve ds) hs) (.cons (dualSound_luStage e w (lineP_curve dp) hthr hne) .nil)
  exact flow_logprob_dual_sound e w hT (standard_normal_logprob_dual_sound e shape inShape c) B dX dctx

/-! ### non-vacuity: the flow `[ActNorm, LULinear]`, `n = 2`, explicit numbers, every tensor and the inputs moving -/

/-- the executed flow `[ActNorm (initialised / eval), LULinear]` with a standard-normal base of matching shape and no context never
    raises (any scalar semantics): the hypothesis "the dual run returns `dlps`" of the headline is satisfiable for every input -/
theorem flow_act_lu_accepted {α : Type} (o : XOps α) (w : ℕ) (s : ActSt α) (p : LF.LUParams α)
    (hs : s.initialized = true ∨ s.training = false) (shape : List ℕ) (B : ℕ) (x ctx : Array α) :
    ∃ lps, flowLogProbExec o w (fun _ a => a) (compStage o [actStage o w s, luStage o w p])
      (fun B rows _ => stdNormalLogProb o shape shape (ctxOf false B) rows) B x ctx = .ok lps := by
  rw [actStage_eq_pass o w s hs]
  simp [flowLogProbExec, compStage, Wrap.cascade, Wrap.cascadeFrom, passStage, luStage, stdNormalLogProb_guard, guardD,
    baseCheck, ctxOf, shapeCheck]
  exact ⟨_, rfl⟩

/-- `log_scale = (0, ½)`, `shift = (1, −1)` with tangents `(1, −1)`, `(0, 2)`; initialised, evaluation mode -/
def flowExAct : ActSt (ℝ × ℝ) := ⟨false, true, [(0, 1), (1/2, -1)], [(1, 0), (-1, 2)], 0⟩

/-- two rows `(1, 2)`, `(0, −1)` with tangents `(1, 0)`, `(0, 1)` -/
def flowExX : Array (ℝ × ℝ) := #[(1, 1), (2, 0), (0, 0), (-1, 1)]

variable (e) in
/-- the concrete instance: ActNorm as above, `LULinear` = `DualXLU.exP` (`L = [[1,0],[½,1]]`, unconstrained diagonal `(0, 1)`,
    `eps = 10⁻³`, all tensors with tangents), batch of two rows.  The dual run IS accepted, and each of its two entries is
    (real `log_prob` of the row, derivative along the line through inputs and all parameters). -/
example :
    ∃ dlps, flowLogProbExec (dualX (NF.realX e)) 2 (fun _ a => a)
        (compStage (dualX (NF.realX e)) [actStage (dualX (NF.realX e)) 2 flowExAct, luStage (dualX (NF.realX e)) 2 exP])
        (fun B rows _ => stdNormalLogProb (dualX (NF.realX e)) [2] [2] (ctxOf false B) rows) 2 flowExX #[] = .ok dlps ∧
      ∃ lps : ℝ → List ℝ,
        (∀ s, flowLogProbExec (NF.realX e) 2 (fun _ a => a)
          (compStage (NF.realX e) [actStage (NF.realX e) 2 (lineAct s flowExAct), luStage (NF.realX e) 2 (lineP s exP)])
          (fun B rows _ => stdNormalLogProb (NF.realX e) [2] [2] (ctxOf false B) rows) 2 (lineA s flowExX) (lineA s #[])
            = .ok (lps s)) ∧
        (∀ s, (lps s).length = dlps.length) ∧
        ∀ i, (dlps.getD i (0, 0)).1 = (lps 0).getD i 0 ∧ HasDerivAt (fun s => (lps s).getD i 0) (dlps.getD i (0, 0)).2 0 := by
  obtain ⟨dlps, h⟩ := flow_act_lu_accepted (dualX (NF.realX e)) 2 flowExAct exP (Or.inl rfl) [2] 2 flowExX #[]
  exact ⟨dlps, h, (flow_act_lu_logprob_dual_sound e 2 flowExAct exP (Or.inl rfl) exP_thr (by norm_num [exP]) [2] [2] false 2
    flowExX #[]).1 dlps h⟩

variable (e) in
/-- the same composition machinery with other parts: `[BatchNorm (eval), LULinear]` and a `DiagonalNormal` base whose `mean_` and
    `log_std_` move as well -/
example (dcfg : BNCfg (ℝ × ℝ)) (ds : BNSt (ℝ × ℝ)) (dp : LF.LUParams (ℝ × ℝ)) (dm dls : List (ℝ × ℝ)) (F : ℕ)
    (hs : ds.training = false) (hthrB : ∀ j < F, (ds.uweight.getD j (0, 0)).1 ≠ 20)
    (hpos : ∀ j < F, 0 < (ds.runVar.getD j (0, 0)).1 + dcfg.eps.1)
    (hw : ∀ j < F, (NF.realX e).softplus (ds.uweight.getD j (0, 0)).1 + dcfg.eps.1 ≠ 0)
    (hthr : ∀ d ∈ dp.udiag, d.1 ≠ 20) (heps : 0 ≤ dp.eps.1) (shape inShape : List ℕ) (c : Bool) (B : ℕ)
    (dX dctx : Array (ℝ × ℝ)) :=
  flow_logprob_dual_sound e F
    (Ss := [fun s => bnEvalStage (NF.realX e) (lineCfg s dcfg) F (lineBN s ds), fun s => luStage (NF.realX e) F (lineP s dp)])
    (.cons (dualSound_bnEvalStage e F (lineBN_curve dcfg ds) hs hthrB hpos hw)
      (.cons (dualSound_luStage e F (lineP_curve dp) hthr (fun d _ =>
        (add_pos_of_pos_of_nonneg (LFIndex.softplus_real_pos d.1) heps).ne')) .nil))
    (diagNormal_logprob_dual_sound e shape inShape c (lineV_dual dm) (lineV_dual dls)) B dX dctx

end
end DualXFlow

