import NflowsModel.Lemmas.RQWhole
import Mathlib.Topology.Order.MonotoneContinuity
import Mathlib.Analysis.Calculus.Deriv.Inverse
/-!
# Lemmas/RQInverseWhole — the EXECUTED rational-quadratic spline, INVERSE direction, as a whole program over the reals

`rqSpline (NF.realX e) c uw uh ud true y` is the list program the driver runs at `Float`/`Float32`, instantiated at ℝ:
softmax, floors, cumsum, pinned knots, search over the **y-knots** `ch`, gathers, discriminant assertion, stable root,
`out = root·w + xk`, log-abs-det `-(log dnum − 2 log den)` at the root.  For every accepted configuration
(`RQWhole.RQValid`) this file proves, about that program itself:

* it returns a value for every `y ∈ [bottom, top]` (the discriminant assertion never fires), and that value is the
  closed form of the bin the search selected (`exec_eq_bin`);
* end-to-end round trips against the executed FORWARD program `RQWhole.val` in both orders;
* the bin selected by the inverse search at `y` is the bin selected by the forward search at `inv y` — for EVERY
  `y ∈ [bottom, top]`, knots and both end points included — hence the log-abs-det law holds on the whole box;
* `inv` maps `[bottom, top]` onto `[left, right]`, is strictly increasing, pins the corners, and inside every open
  y-bin its derivative is `exp` of the log-abs-det the inverse program returns.
-/
open NF DualSound

namespace RQInverseWhole
open RQWhole
noncomputable section
variable (e : Float → ℝ)

/-- the bin index the executed search over the y-knots returns -/
def idxI (c : RQCfg) (uh : List ℝ) (y : ℝ) : ℕ := (searchsortedG (NF.realX e) c.eps (ch e c uh) y).toNat

/-- closed forms of bin `k` in the inverse direction: root (relative position), output, log-abs-det -/
def binRoot (c : RQCfg) (uw uh ud : List ℝ) (k : ℕ) (y : ℝ) : ℝ := evalR (env e c uw uh ud k y) rqRootE
def binDisc (c : RQCfg) (uw uh ud : List ℝ) (k : ℕ) (y : ℝ) : ℝ := evalR (env e c uw uh ud k y) rqDiscE
def binInv (c : RQCfg) (uw uh ud : List ℝ) (k : ℕ) (y : ℝ) : ℝ :=
  binRoot e c uw uh ud k y * (xs e c uw (k+1) - xs e c uw k) + xs e c uw k
def binInvLd (c : RQCfg) (uw uh ud : List ℝ) (k : ℕ) (y : ℝ) : ℝ :=
  - evalR (env e c uw uh ud k (binRoot e c uw uh ud k y)) rqLdThetaE

/-- what the inverse program returns (0 on the error branch, which `exec_eq_bin` shows is not taken in the domain) -/
def inv (c : RQCfg) (uw uh ud : List ℝ) (y : ℝ) : ℝ :=
  match rqSpline (NF.realX e) c uw uh ud true y with
  | .ok r => r.1
  | .error _ => 0
def invLd (c : RQCfg) (uw uh ud : List ℝ) (y : ℝ) : ℝ :=
  match rqSpline (NF.realX e) c uw uh ud true y with
  | .ok r => r.2
  | .error _ => 0

/-- the executed discriminant term is `b² − 4ac` with the code's coefficients, Δ = y − yk -/
theorem rqDiscE_eq (y xk w yk h d0 d1 : ℝ) :
    evalR (Bridge.rqEnv y xk w yk h d0 d1) rqDiscE =
      (RQ.qb (h / w) d0 d1 h (y - yk)) ^ 2 - 4 * RQ.qa (h / w) d0 d1 h (y - yk) * RQ.qc (h / w) (y - yk) := by
  simp [rqDiscE, RQ.qa, RQ.qb, RQ.qc, NF.v]
  ring_nf

/-- the executed log-det-at-θ term is `log dnum − 2 log den` at θ -/
theorem rqLdThetaE_eq (th xk w yk h d0 d1 : ℝ) :
    evalR (Bridge.rqEnv th xk w yk h d0 d1) rqLdThetaE =
      Real.log (RQ.dnum (h / w) d0 d1 th) - 2 * Real.log (RQ.den (h / w) d0 d1 th) := by
  simp [rqLdThetaE, RQ.dnum, RQ.den, NF.v]
  ring_nf

variable {e}
variable {c : RQCfg} {uw uh ud : List ℝ}

/-- the executed search over the y-knots meets the search specification -/
theorem search_spec (hv : RQValid e c uw uh ud) :
    ExecGlue.SearchSpec (ys e c uh) uw.length (idxI e c uh) ∧
    ∀ y, e c.box.bottom ≤ y → y ≤ e c.box.top →
      searchsortedG (NF.realX e) c.eps (ch e c uh) y = ((idxI e c uh y : ℕ) : Int) := by
  obtain ⟨hlen, hhead, hlast, hp⟩ := ch_facts hv
  obtain ⟨init, hsplit⟩ : ∃ init, ch e c uh = init ++ [e c.box.top] := by
    rcases List.getLast?_eq_some_iff.mp hlast with ⟨l, hl⟩
    exact ⟨l, hl⟩
  have hinitlen : init.length = uw.length := by
    have := congrArg List.length hsplit; simp [hlen] at this; omega
  have hK0 : 0 < uw.length := List.length_pos_of_ne_nil hv.hK
  have hinithead : init.head? = some (e c.box.bottom) := by
    cases init with
    | nil => simp at hinitlen; omega
    | cons a t => rw [hsplit] at hhead; simpa using hhead
  have hb : e c.box.top < NF.TU.bumpedLast (NF.realX e) c.eps (e c.box.top) := by
    simp only [NF.TU.bumpedLast, XOps.maxA, NF.realX_add, NF.realX_ofFloat, NF.realX_lt]
    have : (NF.realX e).nextUp (e c.box.top) = e c.box.top := rfl
    rw [this]
    have hnot : ¬ (e c.box.top + e c.eps < e c.box.top) := by linarith [hv.heps]
    simp only [hnot, decide_false, Bool.false_eq_true, if_false]
    linarith [hv.heps]
  have key : ∀ y, e c.box.bottom ≤ y → y ≤ e c.box.top →
      ∃ i : ℕ, searchsortedG (NF.realX e) c.eps (ch e c uh) y = (i : Int) ∧ i < uw.length ∧
        ys e c uh i ≤ y ∧ (y < ys e c uh (i+1) ∨ (i + 1 = uw.length ∧ y = e c.box.top)) := by
    intro y hy0 hy1
    obtain ⟨i, hi, hiK, lo, hi', hlo, hhi, hle, hr⟩ :=
      Properties.C20.searchsorted_spec (NF.realX e) (SplineTotal.realX_ordered' e) c.eps init (e c.box.top) y
        (by rw [← hsplit]; exact hp) hb (e c.box.bottom) hinithead hy0 hy1
    rw [← hsplit] at hi hlo hhi
    rw [hinitlen] at hiK hr
    refine ⟨i, hi, hiK, ?_, ?_⟩
    · have : ys e c uh i = lo := by
        unfold ys; rw [List.getD_eq_getElem?_getD, hlo]; rfl
      rw [this]; exact hle
    · have : ys e c uh (i+1) = hi' := by
        unfold ys; rw [List.getD_eq_getElem?_getD, hhi]; rfl
      rw [this]; exact hr
  constructor
  · intro y hy0 hy1
    rw [ys_zero hv] at hy0
    rw [ys_last hv] at hy1
    obtain ⟨i, hi, hiK, hle, hr⟩ := key y hy0 hy1
    have hidx : idxI e c uh y = i := by unfold idxI; rw [hi]; rfl
    rw [hidx, ys_last hv]
    exact ⟨hiK, hle, hr⟩
  · intro y hy0 hy1
    obtain ⟨i, hi, _⟩ := key y hy0 hy1
    have hidx : idxI e c uh y = i := by unfold idxI; rw [hi]; rfl
    rw [hidx, hi]

/-- per-bin facts about the executed inverse terms for `y` in the closed y-bin `k`: discriminant non-negative, root in
    `[0,1]`, and the executed forward term of bin `k` maps the output back to `y` -/
theorem bin_facts (hv : RQValid e c uw uh ud) (k : ℕ) (hk : k < uw.length) (y : ℝ)
    (hy0 : ys e c uh k ≤ y) (hy1 : y ≤ ys e c uh (k+1)) :
    0 ≤ binDisc e c uw uh ud k y ∧ 0 ≤ binRoot e c uw uh ud k y ∧ binRoot e c uw uh ud k y ≤ 1 ∧
    binVal e c uw uh ud k (binInv e c uw uh ud k y) = y := by
  have hw : 0 < xs e c uw (k+1) - xs e c uw k := sub_pos.mpr (xs_strict hv k hk)
  have hh : 0 < ys e c uh (k+1) - ys e c uh k := sub_pos.mpr (ys_strict hv k hk)
  have h0 := ds_pos hv k (by omega)
  have h1 := ds_pos hv (k+1) (by omega)
  have hs : 0 < (ys e c uh (k+1) - ys e c uh k) / (xs e c uw (k+1) - xs e c uw k) := div_pos hh hw
  obtain ⟨hd, hr0, hr1, hg⟩ := RQ.inverse_correct (s := (ys e c uh (k+1) - ys e c uh k) / (xs e c uw (k+1) - xs e c uw k))
    (Δ := y - ys e c uh k) hs h0 h1 hh (by linarith) (by linarith)
  have hroot : binRoot e c uw uh ud k y = _ := Bridge.rqRootE_eq y (xs e c uw k) (xs e c uw (k+1) - xs e c uw k)
    (ys e c uh k) (ys e c uh (k+1) - ys e c uh k) (ds e c ud k) (ds e c ud (k+1))
  have hdisc : binDisc e c uw uh ud k y = _ := rqDiscE_eq y (xs e c uw k) (xs e c uw (k+1) - xs e c uw k)
    (ys e c uh k) (ys e c uh (k+1) - ys e c uh k) (ds e c ud k) (ds e c ud (k+1))
  rw [← hroot] at hr0 hr1 hg
  refine ⟨by rw [hdisc]; exact hd, hr0, hr1, ?_⟩
  unfold binVal env binInv
  rw [Bridge.rqFwdE_eq]
  have : (binRoot e c uw uh ud k y * (xs e c uw (k+1) - xs e c uw k) + xs e c uw k - xs e c uw k) / (xs e c uw (k+1) - xs e c uw k)
      = binRoot e c uw uh ud k y := by
    rw [add_sub_cancel_right]; exact mul_div_cancel_right₀ _ hw.ne'
  rw [this, hg]; ring

/-- **the inverse program's result is the inverse closed form of the bin it searched** — for every `y` in the domain;
    in particular the discriminant assertion never fires (C17) -/
theorem exec_eq_bin (hv : RQValid e c uw uh ud) (y : ℝ) (hy0 : e c.box.bottom ≤ y) (hy1 : y ≤ e c.box.top) :
    rqSpline (NF.realX e) c uw uh ud true y
      = .ok (binInv e c uw uh ud (idxI e c uh y) y, binInvLd e c uw uh ud (idxI e c uh y) y) := by
  obtain ⟨hspec, hsearch⟩ := search_spec hv
  have hy0' : ys e c uh 0 ≤ y := by rw [ys_zero hv]; exact hy0
  have hy1' : y ≤ ys e c uh uw.length := by rw [ys_last hv]; exact hy1
  obtain ⟨hiK, hle, hr⟩ := hspec y hy0' hy1'
  set i := idxI e c uh y with hi
  have hyle : y ≤ ys e c uh (i+1) := by
    rcases hr with hr | ⟨hK, hyt⟩
    · exact hr.le
    · rw [hK]; exact hy1'
  have hdisc := (bin_facts hv i hiK y hle hyle).1
  have hcwlen := (cw_facts hv).1
  have hchlen := (ch_facts hv).1
  have hg1 : ((NF.realX e).lt y ((NF.realX e).ofFloat c.box.bottom) || (NF.realX e).lt ((NF.realX e).ofFloat c.box.top) y) = false := by
    simp only [NF.realX_lt, NF.realX_ofFloat, Bool.or_eq_false_iff, decide_eq_false_iff_not, not_lt]
    exact ⟨hy0, hy1⟩
  have hwlen : (diffsG (NF.realX e) (cw e c uw)).length = uw.length := by rw [SplineTotal.diffsG_length, hcwlen]; omega
  have hhlen : (diffsG (NF.realX e) (ch e c uh)).length = uw.length := by rw [SplineTotal.diffsG_length, hchlen]; omega
  have hk1 : rqKnots (NF.realX e) c.box.left c.box.right (flooredSoftmax (NF.realX e) c.minW uw)
      = (cw e c uw, diffsG (NF.realX e) (cw e c uw)) := rfl
  have hk2 : rqKnots (NF.realX e) c.box.bottom c.box.top (flooredSoftmax (NF.realX e) c.minH uh)
      = (ch e c uh, diffsG (NF.realX e) (ch e c uh)) := rfl
  have hdl : (dv e c ud).length = uw.length + 1 := by simp [dv, hv.hlend]
  have hdv : ud.map (fun u => (NF.realX e).add ((NF.realX e).ofFloat c.minD) ((NF.realX e).softplusB ((NF.realX e).ofFloat c.beta) u))
      = dv e c ud := rfl
  have hi1 : ((i : Int) + 1) = ((i + 1 : ℕ) : Int) := by push_cast; rfl
  have hge : (NF.realX e).ge (evalR (envOf [y, (cw e c uw).getD i 0, (cw e c uw).getD (i + 1) 0 - (cw e c uw).getD i 0,
      (ch e c uh).getD i 0, (ch e c uh).getD (i + 1) 0 - (ch e c uh).getD i 0, (dv e c ud).getD i 0,
      (dv e c ud).getD (i + 1) 0] 0) rqDiscE) (NF.realX e).zero = true := by
    simp only [XOps.ge, NF.realX_le, NF.realX_zero, decide_eq_true_eq]
    exact hdisc
  unfold rqSpline
  simp only [if_true, Bool.false_eq_true, if_false, hg1, hv.hgW, hv.hgH, hk1, hk2, hsearch y hy0 hy1, hdv]
  rw [SplineTotal.getI_ok (cw e c uw) i (by omega), SplineTotal.getI_ok _ i (by omega : i < (diffsG (NF.realX e) (cw e c uw)).length),
    SplineTotal.getI_ok (ch e c uh) i (by omega), SplineTotal.getI_ok _ i (by omega : i < (diffsG (NF.realX e) (ch e c uh)).length),
    hi1, SplineTotal.getI_ok _ i (by omega : i < (dv e c ud).length), SplineTotal.getI_ok _ (i + 1) (by omega : i + 1 < (dv e c ud).length)]
  simp only [getElem_eq_getD, diffsG_getD e (cw e c uw) i (by omega), diffsG_getD e (ch e c uh) i (by omega), evalX_eq_evalR]
  show (if (!(NF.realX e).ge (evalR (envOf [y, (cw e c uw).getD i 0, (cw e c uw).getD (i + 1) 0 - (cw e c uw).getD i 0,
      (ch e c uh).getD i 0, (ch e c uh).getD (i + 1) 0 - (ch e c uh).getD i 0, (dv e c ud).getD i 0,
      (dv e c ud).getD (i + 1) 0] 0) rqDiscE) (NF.realX e).zero) = true then _ else _) = _
  rw [hge]
  rfl

theorem inv_eq (hv : RQValid e c uw uh ud) (y : ℝ) (hy0 : e c.box.bottom ≤ y) (hy1 : y ≤ e c.box.top) :
    inv e c uw uh ud y = binInv e c uw uh ud (idxI e c uh y) y := by
  unfold inv; rw [exec_eq_bin hv y hy0 hy1]

theorem invLd_eq (hv : RQValid e c uw uh ud) (y : ℝ) (hy0 : e c.box.bottom ≤ y) (hy1 : y ≤ e c.box.top) :
    invLd e c uw uh ud y = binInvLd e c uw uh ud (idxI e c uh y) y := by
  unfold invLd; rw [exec_eq_bin hv y hy0 hy1]

/-- **totality in the domain (C17)**: for every `y ∈ [bottom, top]` the inverse program returns a value (no
    `outsideDomain`, no `valueError`, no index error, and the `discriminant ≥ 0` assertion does not fire) -/
theorem exec_ok (hv : RQValid e c uw uh ud) (y : ℝ) (hy0 : e c.box.bottom ≤ y) (hy1 : y ≤ e c.box.top) :
    rqSpline (NF.realX e) c uw uh ud true y = .ok (inv e c uw uh ud y, invLd e c uw uh ud y) := by
  rw [inv_eq hv y hy0 hy1, invLd_eq hv y hy0 hy1]; exact exec_eq_bin hv y hy0 hy1

/-- the discriminant the program tests is non-negative at every `y` of the domain -/
theorem disc_nonneg (hv : RQValid e c uw uh ud) (y : ℝ) (hy0 : e c.box.bottom ≤ y) (hy1 : y ≤ e c.box.top) :
    0 ≤ binDisc e c uw uh ud (idxI e c uh y) y := by
  obtain ⟨hspec, _⟩ := search_spec hv
  have hy0' : ys e c uh 0 ≤ y := by rw [ys_zero hv]; exact hy0
  have hy1' : y ≤ ys e c uh uw.length := by rw [ys_last hv]; exact hy1
  obtain ⟨hiK, hle, hr⟩ := hspec y hy0' hy1'
  have hyle : y ≤ ys e c uh (idxI e c uh y + 1) := by
    rcases hr with hr | ⟨hK, hyt⟩
    · exact hr.le
    · rw [hK]; exact hy1'
  exact (bin_facts hv _ hiK y hle hyle).1

/-- generic: under the search specification the returned index is determined by the half-open bin containing `x`
    (the last bin being closed on the right) -/
theorem idx_unique (kn : ℕ → ℝ) (K : ℕ) (ix : ℝ → ℕ) (hx : ∀ k < K, kn k < kn (k+1)) (spec : ExecGlue.SearchSpec kn K ix)
    (k : ℕ) (hk : k < K) (x : ℝ) (h0 : kn k ≤ x) (h1 : x < kn (k+1) ∨ (k + 1 = K ∧ x = kn K)) : ix x = k := by
  have hmono := ExecGlue.knots_mono kn K hx
  have hlo : kn 0 ≤ x := le_trans (hmono 0 k (Nat.zero_le _) hk.le) h0
  have hhi : x ≤ kn K := by
    rcases h1 with h1 | ⟨_, h1⟩
    · exact le_trans h1.le (hmono (k+1) K hk le_rfl)
    · exact h1.le
  obtain ⟨hiK, hle, hr⟩ := spec x hlo hhi
  set i := ix x
  by_contra hne
  rcases Nat.lt_or_gt_of_ne hne with hlt | hgt
  · rcases hr with hr | ⟨hiK', _⟩
    · have : kn (i+1) ≤ kn k := hmono (i+1) k hlt hk.le
      linarith
    · omega
  · rcases h1 with h1 | ⟨hkK, _⟩
    · have : kn (k+1) ≤ kn i := hmono (k+1) i hgt hiK.le
      linarith
    · omega

/-- where the searched y-bin sits relative to `y` -/
theorem sel (hv : RQValid e c uw uh ud) (y : ℝ) (hy0 : e c.box.bottom ≤ y) (hy1 : y ≤ e c.box.top) :
    idxI e c uh y < uw.length ∧ ys e c uh (idxI e c uh y) ≤ y ∧ y ≤ ys e c uh (idxI e c uh y + 1) ∧
    (y < ys e c uh (idxI e c uh y + 1) ∨ (idxI e c uh y + 1 = uw.length ∧ y = e c.box.top)) := by
  obtain ⟨hspec, _⟩ := search_spec hv
  have hy0' : ys e c uh 0 ≤ y := by rw [ys_zero hv]; exact hy0
  have hy1' : y ≤ ys e c uh uw.length := by rw [ys_last hv]; exact hy1
  obtain ⟨hiK, hle, hr⟩ := hspec y hy0' hy1'
  rw [ys_last hv] at hr
  refine ⟨hiK, hle, ?_, hr⟩
  rcases hr with hr | ⟨hK, hyt⟩
  · exact hr.le
  · rw [hK]; exact hy1'

/-- the output lies in the closed x-bin with the index of the searched y-bin -/
theorem inv_mem_bin (hv : RQValid e c uw uh ud) (y : ℝ) (hy0 : e c.box.bottom ≤ y) (hy1 : y ≤ e c.box.top) :
    inv e c uw uh ud y ∈ Set.Icc (xs e c uw (idxI e c uh y)) (xs e c uw (idxI e c uh y + 1)) := by
  obtain ⟨hiK, hle, hyle, _⟩ := sel hv y hy0 hy1
  obtain ⟨_, hr0, hr1, _⟩ := bin_facts hv _ hiK y hle hyle
  have hw : 0 < xs e c uw (idxI e c uh y + 1) - xs e c uw (idxI e c uh y) := sub_pos.mpr (xs_strict hv _ hiK)
  rw [inv_eq hv y hy0 hy1]
  unfold binInv
  constructor
  · nlinarith [mul_nonneg hr0 hw.le]
  · nlinarith [mul_le_of_le_one_left hw.le hr1]

/-- **`inv` maps `[bottom, top]` into `[left, right]`** -/
theorem inv_mapsTo (hv : RQValid e c uw uh ud) :
    Set.MapsTo (inv e c uw uh ud) (Set.Icc (e c.box.bottom) (e c.box.top)) (Set.Icc (e c.box.left) (e c.box.right)) := by
  intro y hy
  obtain ⟨hiK, _, _, _⟩ := sel hv y hy.1 hy.2
  obtain ⟨h0, h1⟩ := inv_mem_bin hv y hy.1 hy.2
  have hmono := ExecGlue.knots_mono (xs e c uw) uw.length (xs_strict hv)
  constructor
  · rw [← xs_zero hv]; exact le_trans (hmono 0 _ (Nat.zero_le _) hiK.le) h0
  · rw [← xs_last hv]; exact le_trans h1 (hmono _ uw.length hiK le_rfl)

/-- the executed forward program coincides with bin `k`'s closed form on the closed x-bin `k` -/
theorem val_eqOn_bin (hv : RQValid e c uw uh ud) (k : ℕ) (hk : k < uw.length) :
    Set.EqOn (val e c uw uh ud) (binVal e c uw uh ud k) (Set.Icc (xs e c uw k) (xs e c uw (k+1))) :=
  ExecGlue.eqOn_bin (xs e c uw) uw.length (binVal e c uw uh ud) (val e c uw uh ud) (idx e c uw)
    (xs_strict hv) (RQWhole.search_spec hv).1 (hF hv) (bin_join hv) k hk

/-- **forward ∘ inverse = id on `[bottom, top]`, end to end** (C02): the executed forward program applied to the first
    output of the executed inverse program returns `y` — for every `y` of the domain, knots and end points included -/
theorem val_inv (hv : RQValid e c uw uh ud) (y : ℝ) (hy0 : e c.box.bottom ≤ y) (hy1 : y ≤ e c.box.top) :
    val e c uw uh ud (inv e c uw uh ud y) = y := by
  obtain ⟨hiK, hle, hyle, _⟩ := sel hv y hy0 hy1
  rw [val_eqOn_bin hv _ hiK (inv_mem_bin hv y hy0 hy1), inv_eq hv y hy0 hy1]
  exact (bin_facts hv _ hiK y hle hyle).2.2.2

/-- **inverse ∘ forward = id on `[left, right]`, end to end** (C02) -/
theorem inv_val (hv : RQValid e c uw uh ud) (x : ℝ) (hx0 : e c.box.left ≤ x) (hx1 : x ≤ e c.box.right) :
    inv e c uw uh ud (val e c uw uh ud x) = x := by
  have hm := val_mapsTo hv ⟨hx0, hx1⟩
  have hin := inv_mapsTo hv hm
  exact (val_strictMonoOn hv).injOn hin ⟨hx0, hx1⟩ (val_inv hv _ hm.1 hm.2)

/-- **`inv` is strictly increasing on `[bottom, top]`** -/
theorem inv_strictMonoOn (hv : RQValid e c uw uh ud) :
    StrictMonoOn (inv e c uw uh ud) (Set.Icc (e c.box.bottom) (e c.box.top)) := by
  intro a ha b hb hab
  by_contra hnot
  have hle : inv e c uw uh ud b ≤ inv e c uw uh ud a := not_lt.mp hnot
  have := (val_strictMonoOn hv).monotoneOn (inv_mapsTo hv hb) (inv_mapsTo hv ha) hle
  rw [val_inv hv a ha.1 ha.2, val_inv hv b hb.1 hb.2] at this
  linarith

/-- **`inv` pins both corners**: `bottom ↦ left`, `top ↦ right` -/
theorem inv_endpoints (hv : RQValid e c uw uh ud) :
    inv e c uw uh ud (e c.box.bottom) = e c.box.left ∧ inv e c uw uh ud (e c.box.top) = e c.box.right := by
  obtain ⟨hl, hr⟩ := val_endpoints hv
  constructor
  · rw [← hl]; exact inv_val hv _ le_rfl hv.hlr.le
  · rw [← hr]; exact inv_val hv _ hv.hlr.le le_rfl

/-- **`inv` is onto**: the image of `[bottom, top]` is exactly `[left, right]` -/
theorem inv_image (hv : RQValid e c uw uh ud) :
    inv e c uw uh ud '' Set.Icc (e c.box.bottom) (e c.box.top) = Set.Icc (e c.box.left) (e c.box.right) := by
  apply Set.Subset.antisymm
  · rintro _ ⟨y, hy, rfl⟩; exact inv_mapsTo hv hy
  · intro x hx
    exact ⟨val e c uw uh ud x, val_mapsTo hv hx, inv_val hv x hx.1 hx.2⟩

/-- the executed programs send knot to knot: `val (xs j) = ys j` and `inv (ys j) = xs j` for every `j ≤ K` -/
theorem val_knot (hv : RQValid e c uw uh ud) (j : ℕ) (hj : j ≤ uw.length) : val e c uw uh ud (xs e c uw j) = ys e c uh j := by
  rcases Nat.lt_or_eq_of_le hj with hlt | heq
  · rw [val_eqOn_bin hv j hlt ⟨le_rfl, (xs_strict hv j hlt).le⟩]
    exact (bin_endpoints hv j hlt).1
  · rw [heq, xs_last hv, ys_last hv]; exact (val_endpoints hv).2

theorem knot_mem_x (hv : RQValid e c uw uh ud) (j : ℕ) (hj : j ≤ uw.length) :
    xs e c uw j ∈ Set.Icc (e c.box.left) (e c.box.right) := by
  have hmono := ExecGlue.knots_mono (xs e c uw) uw.length (xs_strict hv)
  constructor
  · rw [← xs_zero hv]; exact hmono 0 j (Nat.zero_le _) hj
  · rw [← xs_last hv]; exact hmono j uw.length hj le_rfl

theorem knot_mem_y (hv : RQValid e c uw uh ud) (j : ℕ) (hj : j ≤ uw.length) :
    ys e c uh j ∈ Set.Icc (e c.box.bottom) (e c.box.top) := by
  have hmono := ExecGlue.knots_mono (ys e c uh) uw.length (ys_strict hv)
  constructor
  · rw [← ys_zero hv]; exact hmono 0 j (Nat.zero_le _) hj
  · rw [← ys_last hv]; exact hmono j uw.length hj le_rfl

theorem inv_knot (hv : RQValid e c uw uh ud) (j : ℕ) (hj : j ≤ uw.length) : inv e c uw uh ud (ys e c uh j) = xs e c uw j := by
  rw [← val_knot hv j hj]
  exact inv_val hv _ (knot_mem_x hv j hj).1 (knot_mem_x hv j hj).2

/-- **the two searches agree**: the bin the forward search selects at `inv y` is the bin the inverse search selected at
    `y` — for EVERY `y ∈ [bottom, top]` (at an interior knot `y = ys (k+1)` both select `k+1`; at `y = top` both select
    the last bin) -/
theorem idx_inv (hv : RQValid e c uw uh ud) (y : ℝ) (hy0 : e c.box.bottom ≤ y) (hy1 : y ≤ e c.box.top) :
    idx e c uw (inv e c uw uh ud y) = idxI e c uh y := by
  obtain ⟨hiK, hle, hyle, hr⟩ := sel hv y hy0 hy1
  obtain ⟨h0, h1⟩ := inv_mem_bin hv y hy0 hy1
  apply idx_unique (xs e c uw) uw.length (idx e c uw) (xs_strict hv) (RQWhole.search_spec hv).1 _ hiK _ h0
  rcases lt_or_eq_of_le h1 with hlt | heq
  · exact Or.inl hlt
  · right
    have hy : y = ys e c uh (idxI e c uh y + 1) := by
      have := val_inv hv y hy0 hy1
      rw [heq, val_knot hv _ hiK] at this
      exact this.symm
    rcases hr with hr | ⟨hK, _⟩
    · linarith
    · exact ⟨hK, by rw [heq, hK]⟩

/-- … and symmetrically the inverse search at `val x` selects the bin the forward search selected at `x` -/
theorem idxI_val (hv : RQValid e c uw uh ud) (x : ℝ) (hx0 : e c.box.left ≤ x) (hx1 : x ≤ e c.box.right) :
    idxI e c uh (val e c uw uh ud x) = idx e c uw x := by
  have hm := val_mapsTo hv ⟨hx0, hx1⟩
  rw [← idx_inv hv _ hm.1 hm.2, inv_val hv x hx0 hx1]

/-- **log-abs-det law, end to end, on the whole box** (C02): the second output of the executed inverse program at `y`
    is the negated second output of the executed forward program at `inv y` — for every `y ∈ [bottom, top]`, knots
    included (no extra hypothesis is needed because the two searches agree, `idx_inv`) -/
theorem invLd_eq_neg_ld (hv : RQValid e c uw uh ud) (y : ℝ) (hy0 : e c.box.bottom ≤ y) (hy1 : y ≤ e c.box.top) :
    invLd e c uw uh ud y = - ld e c uw uh ud (inv e c uw uh ud y) := by
  obtain ⟨hiK, _, _, _⟩ := sel hv y hy0 hy1
  have hin := inv_mapsTo hv ⟨hy0, hy1⟩
  have hw : 0 < xs e c uw (idxI e c uh y + 1) - xs e c uw (idxI e c uh y) := sub_pos.mpr (xs_strict hv _ hiK)
  rw [invLd_eq hv y hy0 hy1, ld_eq hv _ hin.1 hin.2, idx_inv hv y hy0 hy1, inv_eq hv y hy0 hy1]
  unfold binInvLd binLd env binInv
  rw [rqLdThetaE_eq, Bridge.rqFwdLdE_eq]
  have : (binRoot e c uw uh ud (idxI e c uh y) y * (xs e c uw (idxI e c uh y + 1) - xs e c uw (idxI e c uh y))
      + xs e c uw (idxI e c uh y) - xs e c uw (idxI e c uh y)) / (xs e c uw (idxI e c uh y + 1) - xs e c uw (idxI e c uh y))
      = binRoot e c uw uh ud (idxI e c uh y) y := by
    rw [add_sub_cancel_right]; exact mul_div_cancel_right₀ _ hw.ne'
  rw [this]

/-- the same law read from the forward side: `ld x = − invLd (val x)` for every `x ∈ [left, right]` -/
theorem ld_eq_neg_invLd (hv : RQValid e c uw uh ud) (x : ℝ) (hx0 : e c.box.left ≤ x) (hx1 : x ≤ e c.box.right) :
    ld e c uw uh ud x = - invLd e c uw uh ud (val e c uw uh ud x) := by
  have hm := val_mapsTo hv ⟨hx0, hx1⟩
  rw [invLd_eq_neg_ld hv _ hm.1 hm.2, inv_val hv x hx0 hx1, neg_neg]

/-- `inv` is continuous at every point strictly inside `[bottom, top]` (monotone with an interval as image) -/
theorem inv_continuousAt (hv : RQValid e c uw uh ud) (y : ℝ) (hy0 : e c.box.bottom < y) (hy1 : y < e c.box.top) :
    ContinuousAt (inv e c uw uh ud) y := by
  have hsm := inv_strictMonoOn hv
  obtain ⟨hl, hr⟩ := inv_endpoints hv
  have hbt := hv.hbt.le
  have h0 : e c.box.left < inv e c uw uh ud y := by
    rw [← hl]; exact hsm ⟨le_rfl, hbt⟩ ⟨hy0.le, hy1.le⟩ hy0
  have h1 : inv e c uw uh ud y < e c.box.right := by
    rw [← hr]; exact hsm ⟨hy0.le, hy1.le⟩ ⟨hbt, le_rfl⟩ hy1
  apply continuousAt_of_monotoneOn_of_image_mem_nhds hsm.monotoneOn (Icc_mem_nhds hy0 hy1)
  rw [inv_image hv]
  exact Icc_mem_nhds h0 h1

/-- **inside every open y-bin the derivative of the executed inverse is `exp` of the log-abs-det the inverse program
    returns** (C01 for the inverse direction) -/
theorem inv_hasDerivAt (hv : RQValid e c uw uh ud) (k : ℕ) (hk : k < uw.length) (y : ℝ)
    (h0 : ys e c uh k < y) (h1 : y < ys e c uh (k+1)) :
    HasDerivAt (inv e c uw uh ud) (Real.exp (invLd e c uw uh ud y)) y := by
  have hy0 : e c.box.bottom < y := lt_of_le_of_lt (knot_mem_y hv k hk.le).1 h0
  have hy1 : y < e c.box.top := lt_of_lt_of_le h1 (knot_mem_y hv (k+1) hk).2
  have hsm := inv_strictMonoOn hv
  have hx0 : xs e c uw k < inv e c uw uh ud y := by
    rw [← inv_knot hv k hk.le]; exact hsm (knot_mem_y hv k hk.le) ⟨hy0.le, hy1.le⟩ h0
  have hx1 : inv e c uw uh ud y < xs e c uw (k+1) := by
    rw [← inv_knot hv (k+1) hk]; exact hsm ⟨hy0.le, hy1.le⟩ (knot_mem_y hv (k+1) hk) h1
  have hf := val_hasDerivAt hv k hk (inv e c uw uh ud y) hx0 hx1
  have hfg : ∀ᶠ z in nhds y, val e c uw uh ud (inv e c uw uh ud z) = z :=
    Filter.eventually_of_mem (Icc_mem_nhds hy0 hy1) (fun z hz => val_inv hv z hz.1 hz.2)
  have := HasDerivAt.of_local_left_inverse (inv_continuousAt hv y hy0 hy1) hf (Real.exp_pos _).ne' hfg
  rw [invLd_eq_neg_ld hv y hy0.le hy1.le, Real.exp_neg]
  exact this

/-! ### non-vacuity: the statements instantiated at the concrete accepted configuration `RQWhole.valid_example`
(one bin on the unit box, reading `eNV`) -/

private theorem b0 : ((0.0:Float) == 0.0) = true := by decide +kernel
private theorem b1 : ((1.0:Float) == 0.0) = false := by decide +kernel

theorem example_roundtrip (y : ℝ) (hy0 : 0 ≤ y) (hy1 : y ≤ 1) :
    rqSpline (NF.realX eNV) cNV [0] [0] [0, 0] true y = .ok (inv eNV cNV [0] [0] [0, 0] y, invLd eNV cNV [0] [0] [0, 0] y) ∧
    val eNV cNV [0] [0] [0, 0] (inv eNV cNV [0] [0] [0, 0] y) = y ∧
    invLd eNV cNV [0] [0] [0, 0] y = - ld eNV cNV [0] [0] [0, 0] (inv eNV cNV [0] [0] [0, 0] y) := by
  have hb : eNV cNV.box.bottom = 0 := by simp [eNV, cNV, b0]
  have ht : eNV cNV.box.top = 1 := by simp [eNV, cNV, b1]
  have h0 : eNV cNV.box.bottom ≤ y := by rw [hb]; exact hy0
  have h1 : y ≤ eNV cNV.box.top := by rw [ht]; exact hy1
  exact ⟨exec_ok valid_example y h0 h1, val_inv valid_example y h0 h1, invLd_eq_neg_ld valid_example y h0 h1⟩

end
end RQInverseWhole
